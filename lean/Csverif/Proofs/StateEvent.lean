import Csverif.Proofs.StateItemDir
/-
C11: raw events, `update` (state.py:1119-1172), including the merge-copy branch `ent[1-side] = _copy`.
-/
namespace CS.State

theorem frame_ignoredState (st : St) (e : Nat) (v : Ign) : Frame none st (ignoredState st e v) := by
  have hent : ∀ (st1 : St), Frame none st1 ((st1.dirtyAdd e).modEnt e (fun x => { x with ignored := v })) := by
    intro st1
    refine Frame.of_sides (by simp) (fun i s => ?_)
    have : ((st1.dirtyAdd e).modEnt e (fun x => { x with ignored := v })).side i s = st1.side i s := by
      unfold St.side; rw [ent_modEnt]
      by_cases hh : i = e ∧ e < (st1.dirtyAdd e).ents.length
      · rw [if_pos hh]; obtain ⟨a, _⟩ := hh; subst a; cases s <;> rfl
      · rw [if_neg hh]; rfl
    rw [this]; exact ⟨rfl, rfl⟩
  unfold ignoredState
  split
  · exact Frame.refl _ _
  · simp only
    split
    · refine Frame.trans ?_ (hent _)
      exact ((chgRel_setChanged e .L .fls st).trans (chgRel_setChanged e .R .fls _)).trans (chgRel_csDiscard e _) |>.frame
    · exact hent _

/-- what `update` carries while it chooses the entry: the invariant, and that the prior entry's other side is a leaf or on a
    side whose ids are not paths (guard of the merge-copy branch, which replaces that side) -/
def CG (cfg : Cfg) (s : Sd) (L : Nat) (pe? : Option Nat) (st : St) : Prop := InvL L st ∧ ∀ pe, pe? = some pe → SetOk cfg st pe s.other

theorem CG.ignored {cfg s L pe? st} (h : CG cfg s L pe? st) (e : Nat) (v : Ign) : CG cfg s L pe? (ignoredState st e v) :=
  ⟨ignoredState_inv st e v L h.1, fun pe hp => (h.2 pe hp).frame (frame_ignoredState st e v)⟩

theorem unignoreAll_tr (cfg : Cfg) (s : Sd) (L : Nat) (pe? : Option Nat) : ∀ (l : List Nat) (acc : Option Nat),
    (∀ i ∈ l, i < L) → (∀ i, acc = some i → i < L) →
    Tr (CG cfg s L pe?) (unignoreAll l acc) (fun r st' => CG cfg s L pe? st' ∧ ∀ i, r = some i → i < L) Inv
  | [], acc, _, hacc => Tr.pure (fun _ h => ⟨h, hacc⟩)
  | i :: t, acc, hl, _ => by
    unfold unignoreAll
    apply Tr.getSt_bind; intro st1
    refine Tr.bind (R := fun _ => CG cfg s L pe?) (Tr.assert (fun st h _ => h.2.1.1) (fun st h _ => h.2)) (fun _ => ?_)
    refine Tr.bind (R := fun _ => CG cfg s L pe?) (Tr.modify (fun st h => h.ignored i .none)) (fun _ => ?_)
    exact unignoreAll_tr cfg s L pe? t (some i) (fun j hj => hl j (List.mem_cons_of_mem _ hj))
      (fun j hj => by cases hj; exact hl i (List.mem_cons_self ..))

theorem lookupPath_lt {st : St} (hi : Inv st) (s : Sd) (p : Option Path.Str) (stale : Bool) :
    ∀ i ∈ st.lookupPath s p stale, i < st.ents.length := by
  intro i hm
  unfold St.lookupPath at hm
  cases hb : AL.get (st.paths s) p with
  | none => rw [hb] at hm; cases hm
  | some b =>
    rw [hb] at hm
    have hm' := (List.mem_filter.1 hm).1
    obtain ⟨x, hx, rfl⟩ := List.mem_map.1 hm'
    exact (hi.1.pathKey s p b hb).2.2 x hx

theorem mergePrior_tr (cfg : Cfg) (fuel : Nat) (s : Sd) (a : UArgs) (ent priorEnt : Option Nat) (L : Nat)
    (hent : ∀ i, ent = some i → i < L) (hpe : ∀ i, priorEnt = some i → i < L) :
    Tr (CG cfg s L priorEnt) (mergePrior cfg fuel s a ent priorEnt)
      (fun r st' => InvL L st' ∧ ∀ i, r = some i → i < L) Inv := by
  have hkeep : ∀ (r : Option Nat) (P : St → Prop), (∀ i, r = some i → i < L) → (∀ st, P st → InvL L st) →
      Tr P (Pure.pure r : M (Option Nat)) (fun r st' => InvL L st' ∧ ∀ i, r = some i → i < L) Inv :=
    fun r P hr hP => Tr.pure (fun st h => ⟨hP st h, hr⟩)
  have hun : ∀ (st1 : St) (r : Option Nat) (P : St → Prop), (∀ i, r = some i → i < L) → (∀ st, P st → st = st1 ∧ CG cfg s L priorEnt st) →
      Tr P (unignoreAll (st1.lookupPath s a.path true) r) (fun r st' => InvL L st' ∧ ∀ i, r = some i → i < L) Inv := by
    intro st1 r P hr hP
    apply Tr.with_pre (φ := InvL L st1) (fun st h => (hP st h).1 ▸ (hP st h).2.1)
    intro hil
    exact ((unignoreAll_tr cfg s L priorEnt _ r (fun i hi => hil.2.1 ▸ lookupPath_lt hil.1 s a.path true i hi) hr).pre
      (fun st h => (hP st h).2)).conseq (fun _ h => h) (fun _ _ h => ⟨h.1.1, h.2⟩) (fun _ h => h)
  unfold mergePrior
  apply Tr.getSt_bind; intro st1
  cases priorEnt with
  | none =>
    cases ent with
    | none => exact hun st1 none _ hent (fun st h => ⟨h.1, h.2⟩)
    | some en => exact hkeep (some en) _ hent (fun st h => h.2.1)
  | some pe =>
    have hpel : pe < L := hpe pe rfl
    have hsome : ∀ i, some pe = some i → i < L := fun i hi => by cases hi; exact hpel
    by_cases hd : (st1.ent pe).isDiscarded = true
    · simp only [hd, Bool.not_true, Bool.false_eq_true, if_false]
      cases ent with
      | none => exact hun st1 none _ hent (fun st h => ⟨h.1, h.2⟩)
      | some en => exact hkeep (some en) _ hent (fun st h => h.2.1)
    · simp only [hd, Bool.not_false, if_true]
      cases ent with
      | none =>
        simp only [if_true]
        exact Tr.bind (R := fun _ => InvL L) (Tr.pure (fun st h => h.2.1)) (fun _ => hkeep (some pe) _ hsome (fun st h => h))
      | some en =>
        simp only
        have henl : en < L := hent en rfl
        by_cases hr : ((st1.ent en).isDiscarded ||
            (!(st1.ent en).isConflicted && (truthyH (st1.side pe s).syncHash || !truthyH (st1.side en s).syncHash))) = true
        · simp only [hr, if_true]
          refine Tr.bind (R := fun _ => InvL L) ?_ (fun _ => hkeep (some pe) _ hsome (fun st h => h))
          by_cases ht : truthyS (st1.side en s.other).oid = true
          · simp only [ht, if_true]
            apply Tr.when
            · intro _
              -- `ent[1-side] = _copy`: the other side of the found entry replaces the (id-less) other side of the prior entry
              exact (setItem_trG cfg fuel pe s.other en s.other L hpel henl).conseq (fun st h => ⟨h.2.1, h.2.2 pe rfl⟩)
                (fun _ _ h => h) (fun _ h => h)
            · exact fun _ st h => h.2.1
          · simp only [ht, Bool.false_eq_true, if_false]
            exact Tr.pure (fun st h => h.2.1)
        · simp only [hr, Bool.false_eq_true, if_false]
          exact hkeep (some en) _ hent (fun st h => h.2.1)

theorem reusePrior_tr (cfg : Cfg) (s : Sd) (ent : Option Nat) (pe : Nat) (L : Nat) (pe? : Option Nat) (hent : ∀ i, ent = some i → i < L) (hpe : pe < L) :
    Tr (CG cfg s L pe?) (reusePrior s ent pe) (fun r st' => CG cfg s L pe? st' ∧ (∀ i, r = some i → i < L)) Inv := by
  unfold reusePrior
  apply Tr.getSt_bind; intro st1
  split
  · refine Tr.bind (R := fun _ => CG cfg s L pe?) (Tr.modify (fun st h => h.2.ignored pe .none)) (fun _ => ?_)
    exact Tr.pure (fun st h => ⟨h, fun i hi => by cases hi; exact hpe⟩)
  · exact Tr.pure (fun st h => ⟨h.2, hent⟩)

/-- the guard of `update`: if the event names a prior id whose entry exists, the other side of that entry is a leaf, or that side's
    ids are not paths (it may be replaced by the merge-copy branch) -/
def UpdGuard (cfg : Cfg) (st : St) (s : Sd) (prior : Oid) : Prop := ∀ pe, st.lookupOid s prior = some pe → SetOk cfg st pe s.other

/-- state.py:1123-1169: the entry the event is applied to exists, and the invariant still holds -/
theorem chooseEntry_tr (cfg : Cfg) (fuel : Nat) (s : Sd) (ot : OType) (a : UArgs) (prior : Oid) (L : Nat) :
    Tr (fun st => InvL L st ∧ UpdGuard cfg st s prior) (chooseEntry cfg fuel s ot a prior)
      (fun e st' => ∃ L', InvL L' st' ∧ e < L') Inv := by
  unfold chooseEntry
  apply Tr.getSt_bind; intro st0
  apply Tr.with_pre (φ := InvL L st0 ∧ UpdGuard cfg st0 s prior) (fun st (h : st = st0 ∧ _) => h.1 ▸ h.2)
  rintro ⟨hil0, hug⟩
  have hlk : ∀ k i, st0.lookupOid s k = some i → i < L := fun k i h => hil0.2.1 ▸ hil0.1.1.bnd s k i h
  simp only
  refine Tr.bind (R := fun r st' => InvL L st' ∧ ∀ i, r = some i → i < L) ?_ (fun ent => ?_)
  · by_cases hc : (truthyS prior && prior != a.oid) = true
    · simp only [hc, if_true]
      have hcg0 : ∀ st, (st = st0 ∧ InvL L st ∧ UpdGuard cfg st s prior) → CG cfg s L (st0.lookupOid s prior) st :=
        fun st h => ⟨h.2.1, fun pe hp => h.1 ▸ hug pe hp⟩
      cases hp : st0.lookupOid s prior with
      | none =>
        simp only
        refine Tr.bind (R := fun r st' => CG cfg s L none st' ∧ r = st0.lookupOid s a.oid) (Tr.pure (fun st h => ⟨hp ▸ hcg0 st h, rfl⟩)) (fun ent1 => ?_)
        apply Tr.with_pre (φ := ent1 = st0.lookupOid s a.oid) (fun st h => h.2)
        rintro rfl
        exact (mergePrior_tr cfg fuel s a _ none L (fun i hi => hlk _ i hi) (fun i hi => by cases hi)).pre (fun st h => h.1)
      | some pe =>
        simp only
        have hpel : pe < L := hlk _ pe hp
        refine Tr.bind ((reusePrior_tr cfg s (st0.lookupOid s a.oid) pe L (some pe) (fun i hi => hlk _ i hi) hpel).pre
          (fun st h => hp ▸ hcg0 st h)) (fun ent1 => ?_)
        apply Tr.with_pre (φ := ∀ i, ent1 = some i → i < L) (fun st h => h.2)
        intro hb1
        exact (mergePrior_tr cfg fuel s a ent1 (some pe) L hb1 (fun i hi => by cases hi; exact hpel)).pre (fun st h => h.1)
    · simp only [hc, Bool.false_eq_true, if_false]
      exact Tr.pure (fun st h => ⟨h.2.1, fun i hi => hlk _ i hi⟩)
  · cases ent with
    | some e => exact Tr.pure (fun st h => ⟨L, h.1, h.2 e rfl⟩)
    | none =>
      refine (newEntry_tr ot _ Inv).conseq (fun _ h => h) ?_ (fun _ h => h)
      rintro e st' ⟨st, ⟨hil, _⟩, rfl, rfl⟩
      exact ⟨L + 1, ⟨inv_addEntry hil.1 ot, by simp [hil.2.1], by rw [moving_addEntry]; exact hil.2.2⟩, by simp [hil.2.1]⟩

/-- state.py:1119-1172 `update`: one raw event keeps the invariant -/
theorem update_tr (cfg : Cfg) (fuel : Nat) (s : Sd) (ot : OType) (a : UArgs) (prior : Oid) (L : Nat) :
    Tr (fun st => InvL L st ∧ UpdGuard cfg st s prior) (update cfg fuel s ot a prior) (fun _ st' => Inv st') Inv := by
  unfold update
  refine Tr.bind (chooseEntry_tr cfg fuel s ot a prior L) (fun e => ?_)
  apply Tr.exists_pre; intro L'
  apply Tr.with_pre (φ := e < L') (fun st h => h.2)
  intro hlt
  apply Tr.getSt_bind; intro st1
  exact (updateEntry_tr cfg fuel e s _ L' hlt).pre (fun st h => h.2.1)

end CS.State
