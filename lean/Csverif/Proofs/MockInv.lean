import Csverif.Proofs.MockFS
import Csverif.Proofs.MockPath
import Csverif.Proofs.TreeLemmas
/- Invariant of the mock's object table, the simulation relation with the reference tree, and the
   frame lemmas (what a lookup sees after each primitive update). -/
namespace CS.MockFS
open CS.Path
open CS.Tree (Kind Err)
set_option linter.unusedVariables false
variable {C H : Type}

/-- what is *live* under a dict key -/
def pv (s : St C) (k : Str) : Option (Nat × Obj C) :=
  match getObj s k with
  | some (h, o) => if o.live then some (h, o) else none
  | none => none

theorem infoPath_eq (c : Cfg) (s : St C) (p : Str) : infoPath c s p = pv s (norm c p) := rfl

theorem liveObj_eq (s : St C) (oid : Str) : liveObj s oid = (pv s oid).map (·.2) := by
  unfold liveObj pv
  cases getObj s oid with
  | none => rfl
  | some ho =>
    obtain ⟨h, o⟩ := ho
    simp only
    split <;> rfl

theorem pv_some {s : St C} {k : Str} {h : Nat} {o : Obj C} :
    pv s k = some (h, o) ↔ dget s.dict k = some h ∧ s.heap[h]? = some o ∧ o.live = true := by
  unfold pv getObj
  cases hd : dget s.dict k with
  | none => simp
  | some h' =>
    cases hh : s.heap[h']? with
    | none =>
      simp only [hh, Option.map_none, Option.some.injEq]
      constructor
      · intro hx; cases hx
      · rintro ⟨h1, h2, _⟩
        subst h1; rw [hh] at h2; cases h2
    | some o' =>
      simp only [hh, Option.map_some]
      constructor
      · intro hx
        split at hx
        · rename_i hl
          simp only [Option.some.injEq, Prod.mk.injEq] at hx
          obtain ⟨rfl, rfl⟩ := hx
          exact ⟨rfl, hh, hl⟩
        · cases hx
      · rintro ⟨h1, h2, h3⟩
        simp only [Option.some.injEq] at h1
        subst h1
        rw [hh] at h2
        simp only [Option.some.injEq] at h2
        subst h2
        simp [h3]

/-- the tree node an object stands for -/
def nodeOf (c : Cfg) (o : Obj C) : Tree.Node C := { kind := o.kind, content := o.contents, disp := Path.C c o.path }

/-- the reference tree's configuration for a mock flavour -/
def tcfg (c : Cfg) (fl : Flavour) : Tree.Cfg :=
  { cs := c.cs, lower := c.lower, badName := fun n => fl.forbidden.any (fun ch => n.contains ch), nameFirst := true }

theorem tfold_eq (c : Cfg) (fl : Flavour) (l : List Str) : Tree.fold (tcfg c fl) l = foldL c l := by
  unfold Tree.fold foldL
  congr 1
  funext n
  unfold Tree.foldName fold cfold tcfg
  cases c.cs <;> simp

/-- extra facts about the path configuration (true of every mock flavour, `mkCfg`) -/
structure COk2 (c : Cfg) : Prop extends COk c where
  lowerAlt : ∀ a, c.alt = some a → ∀ x, c.lower x = a → x = a

/-- a path argument in the form the contract quantifies over: separator, then non-empty
    separator-free names joined by single separators (for path-style providers also case-folded:
    see the open findings on the path-style case-insensitive flavour) -/
def Clean (c : Cfg) (fl : Flavour) (p : Str) : Prop :=
  ∃ l, Comps c l ∧ p = canon c.sep l ∧ (fl.oip = true → foldL c l = l)

structure Inv (c : Cfg) (fl : Flavour) (s : St C) : Prop where
  nodup   : (s.dict.map (·.1)).Nodup
  valsLt  : ∀ (k : Str) (h : Nat), dget s.dict k = some h → h < s.heap.length
  clean   : ∀ (h : Nat) (o : Obj C), s.heap[h]? = some o → Clean c fl o.path
  pathKey : ∀ (k : Str) (h : Nat) (o : Obj C), k.head? = some '/' → dget s.dict k = some h → s.heap[h]? = some o → norm c o.path = k
  filed   : ∀ (h : Nat) (o : Obj C), s.heap[h]? = some o → o.live = true → dget s.dict (norm c o.path) = some h
  oidFiled : ∀ (h : Nat) (o : Obj C), s.heap[h]? = some o → o.live = true → dget s.dict o.oid = some h
  pathOid : fl.oip = true → ∀ (h : Nat) (o : Obj C), s.heap[h]? = some o → o.oid = o.path
  idHead  : fl.oip = false → ∀ (h : Nat) (o : Obj C), s.heap[h]? = some o → o.oid.head? ≠ some '/'
  idKeys  : fl.oip = false → ∀ (k : Str) (h : Nat), dget s.dict k = some h → k.head? ≠ some '/' →
              ∃ n, n < s.nextId ∧ k = (toString n).toList
  pathKeysHead : fl.oip = true → ∀ (k : Str) (h : Nat), dget s.dict k = some h → k.head? = some '/'
  idKeyOid : fl.oip = false → ∀ (k : Str) (h : Nat) (o : Obj C), k.head? ≠ some '/' → dget s.dict k = some h →
              s.heap[h]? = some o → o.oid = k
  idAll   : fl.oip = false → ∀ (h : Nat) (o : Obj C), s.heap[h]? = some o → ∃ n, n < s.nextId ∧ o.oid = (toString n).toList
  oidUnique : fl.oip = false → ∀ (h h' : Nat) (o o' : Obj C), s.heap[h]? = some o → s.heap[h']? = some o' →
              o.oid = o'.oid → h = h'

/-- simulation relation: the live part of the path view is the tree -/
structure Rel (c : Cfg) (s : St C) (t : Tree.T C) : Prop where
  get    : ∀ k, Comps c k → Tree.get t k = (pv s (canon c.sep k)).map (fun ho => nodeOf c ho.2)
  keys   : ∀ e ∈ t, Comps c e.1
  tnodup : (t.map (·.1)).Nodup

/-! ### frame lemmas -/

theorem getElem?_append_of_lt {α} (l : List α) (x : α) {i : Nat} (h : i < l.length) : (l ++ [x])[i]? = l[i]? := by
  rw [List.getElem?_append_left h]

/-- appending a heap cell changes no lookup (dict values point below the old length) -/
theorem getObj_heap_append {c : Cfg} {fl : Flavour} {s : St C} (hi : Inv c fl s) (o : Obj C) (n : Nat) (k : Str) :
    getObj { s with heap := s.heap ++ [o], nextId := n } k = getObj s k := by
  unfold getObj
  cases hd : dget s.dict k with
  | none => rfl
  | some h => simp only; rw [getElem?_append_of_lt _ _ (hi.valsLt k h hd)]

theorem getObj_events (s : St C) (ev : List MEv) (k : Str) : getObj { s with events := ev } k = getObj s k := rfl

theorem pv_registerEvent (s : St C) (a : Action) (o : Obj C) (p : Option Str) (k : Str) :
    pv (registerEvent s a o p) k = pv s k := rfl

/-- updating one heap cell -/
theorem getObj_heap_set (s : St C) (h0 : Nat) (o' : Obj C) (k : Str) (hlt : h0 < s.heap.length) :
    getObj { s with heap := s.heap.set h0 o' } k =
      match dget s.dict k with
      | none => none
      | some h => if h = h0 then some (h0, o') else (s.heap[h]?).map (fun o => (h, o)) := by
  unfold getObj
  cases hd : dget s.dict k with
  | none => rfl
  | some h =>
    simp only [List.getElem?_set]
    by_cases he : h = h0
    · subst he; simp [hlt]
    · have : ¬ h0 = h := fun e => he e.symm
      simp [he, this]

/-- an object's display components -/
theorem clean_C {c : Cfg} (hc : COk2 c) {fl : Flavour} {p : Str} (h : Clean c fl p) :
    Comps c (Path.C c p) ∧ p = canon c.sep (Path.C c p) ∧ (fl.oip = true → foldL c (Path.C c p) = Path.C c p) := by
  obtain ⟨l, hl, rfl, hf⟩ := h
  rw [C_canon hc.ok hl]
  exact ⟨hl, rfl, hf⟩

theorem norm_clean {c : Cfg} (hc : COk2 c) {fl : Flavour} {p : Str} (h : Clean c fl p) :
    norm c p = canon c.sep (foldL c (Path.C c p)) := by
  obtain ⟨hl, hp, _⟩ := clean_C hc h
  conv => lhs; rw [hp]
  exact norm_canon hc.ok hl

theorem comps_foldL_ok {c : Cfg} (hc : COk2 c) {l : List Str} (hl : Comps c l) : Comps c (foldL c l) :=
  comps_of_foldL hc.ok hc.lowerAlt hl

theorem foldL_idem {c : Cfg} (hc : COk2 c) (l : List Str) : foldL c (foldL c l) = foldL c l := by
  unfold foldL fold
  simp only [List.map_map]
  congr 1
  funext s
  simp only [Function.comp, List.map_map]
  congr 1
  funext x
  exact cfold_idem hc.ok x

/-- under the invariant, a clean key holds a live object iff that object's folded display path is the key -/
theorem pv_canon_iff {c : Cfg} (hc : COk2 c) {fl : Flavour} {s : St C} (hi : Inv c fl s) {k : List Str} (hk : Comps c k)
    {h : Nat} {o : Obj C} :
    pv s (canon c.sep k) = some (h, o) ↔ s.heap[h]? = some o ∧ o.live = true ∧ foldL c (Path.C c o.path) = k := by
  rw [pv_some]
  constructor
  · rintro ⟨h1, h2, h3⟩
    refine ⟨h2, h3, ?_⟩
    have := hi.pathKey _ h o (head_canon _ _ ▸ (by rw [hc.sep])) h1 h2
    rw [norm_clean hc (hi.clean h o h2)] at this
    exact canon_inj (comps_foldL_ok hc (clean_C hc (hi.clean h o h2)).1).1 hk.1 this
  · rintro ⟨h1, h2, h3⟩
    refine ⟨?_, h1, h2⟩
    have := hi.filed h o h1 h2
    rw [norm_clean hc (hi.clean h o h1), h3] at this
    exact this

end CS.MockFS
