import Csverif.Proofs.Persist
/- helper lemmas for Props/C08.lean, part 3: `storage_commit` / `_storage_update` case by case, the
   invariant that ties the rows of the tag to the entries, and the loader. -/
namespace CS.Persist
open CS.Codec CS.Storage
set_option linter.unusedSimpArgs false
set_option linter.unusedVariables false

theorem pure_run {α} (r : α) (a : St) : (pure r : M α) a = (.ok r, a) := rfl

/-- the entry the model reads at index `i` -/
abbrev St.at (a : St) (i : Nat) : Entry := a.ents[i]?.getD placeholder

/-- the state after `_storage_update` deleted the row of the trash entry `i` and forgot its id -/
def St.deleted (a : St) (t : Sqlite.Table Val) (i sid : Nat) : St :=
  { a with store := .sqlite (Sqlite.step t (.delete tag (some sid))).1,
           ents := a.ents.modify i fun x => { x with storageId := none } }

theorem su_some_trash (a : St) (t : Sqlite.Table Val) (hs : a.store = .sqlite t) (i sid : Nat)
    (he : (a.at i).storageId = some sid) (ht : (a.at i).isTrash = true) :
    storageUpdate i a = (.ok (), a.deleted t i sid) := by
  simp [storageUpdate, bind_run, getEnt, modSt, storeOp, Backend.step, hs, he, ht, pure_run, rawEnt, St.deleted]

theorem su_some_rowerr (a : St) (i sid : Nat) (err : Err)
    (he : (a.at i).storageId = some sid) (ht : (a.at i).isTrash = false)
    (hr : (a.at i).row = .error err) :
    storageUpdate i a = (.error (.py err), a) := by
  simp [storageUpdate, bind_run, getEnt, modSt, storeOp, raise, he, ht, hr, pure_run]

theorem su_some_update (a : St) (t : Sqlite.Table Val) (hs : a.store = .sqlite t) (i sid : Nat) (row : Val)
    (he : (a.at i).storageId = some sid) (ht : (a.at i).isTrash = false)
    (hr : (a.at i).row = .ok row) :
    storageUpdate i a =
      ((match (Sqlite.step t (.update tag row (some sid))).2 with
        | .valueError => .error (.py .value)
        | _ => .ok ()),
       { a with store := .sqlite (Sqlite.step t (.update tag row (some sid))).1 }) := by
  simp [storageUpdate, bind_run, getEnt, modSt, storeOp, Backend.step, hs, raise, he, ht, hr, pure_run]
  split <;> first | rfl | simp_all [pure_run, raise]

theorem su_none_trash (a : St) (i : Nat) (he : (a.at i).storageId = none) (ht : (a.at i).isTrash = true) :
    storageUpdate i a = (.ok (), a) := by
  simp [storageUpdate, bind_run, getEnt, he, ht, pure_run]

theorem su_none_rowerr (a : St) (i : Nat) (err : Err) (he : (a.at i).storageId = none) (ht : (a.at i).isTrash = false)
    (hr : (a.at i).row = .error err) :
    storageUpdate i a = (.error (.py err), a) := by
  simp [storageUpdate, bind_run, getEnt, he, ht, hr, raise]

/-- the state after `_storage_update` created a row for entry `i` -/
def St.created (a : St) (t : Sqlite.Table Val) (i : Nat) (row : Val) : St :=
  { a with store := .sqlite (t ++ [{ id := Sqlite.maxId t + 1, tag := tag, val := row }]),
           dirty := sadd a.dirty i, silent := sdiscard a.silent i,
           ents := a.ents.modify i fun x => { x with storageId := some (Sqlite.maxId t + 1) } }

theorem su_none_create (a : St) (t : Sqlite.Table Val) (hs : a.store = .sqlite t) (i : Nat) (row : Val)
    (he : (a.at i).storageId = none) (ht : (a.at i).isTrash = false) (hr : (a.at i).row = .ok row) :
    storageUpdate i a = (.ok (), a.created t i row) := by
  simp [storageUpdate, bind_run, getEnt, modSt, storeOp, Backend.step, Sqlite.step, hs, he, ht, hr, pure_run, markDirty, rawEnt,
    St.created]

/-- `serialize` can only fail in `msgpack.dumps`, with OverflowError -/
theorem row_error (e : Entry) (err : Err) (h : e.row = .error err) : err = .overflow := by
  unfold Entry.row dumps at h
  split at h
  · cases h
  · injection h with h; exact h.symm

/-! ### the invariant -/

def sidOf (st : St) (i : Nat) : Option (Option Nat) := (st.ents[i]?).map Entry.storageId

/-- entry `e` is exactly what storage holds for it: a trash entry has no storage id (it never had a
    row, or `_storage_update` deleted the row and forgot the id), a live one has its id and the row
    under that id is its current serialisation -/
def Stored (t : Sqlite.Table Val) (e : Entry) : Prop :=
  match e.storageId with
  | none => e.isTrash = true
  | some k => e.isTrash = false ∧ ∃ row, e.row = .ok row ∧ Sqlite.abs t tag k = some row

/-- row ownership: every entry that has a storage id owns an existing row, no two entries share
    one, and every row of the tag has an owner -/
structure Core (t : Sqlite.Table Val) (st : St) : Prop where
  tinv : Sqlite.Inv t
  owner : ∀ i k, sidOf st i = some (some k) → Sqlite.abs t tag k ≠ none
  uniq : ∀ i j k, sidOf st i = some (some k) → sidOf st j = some (some k) → i = j
  nostale : ∀ k, Sqlite.abs t tag k ≠ none → ∃ i, sidOf st i = some (some k)

/-- what the invariant says, for a table `t` -/
def InvBody (done : List Nat) (t : Sqlite.Table Val) (st : St) : Prop :=
  st.store = .sqlite t ∧ Core t st ∧
    ∀ i e, st.ents[i]? = some e → (i ∉ st.dirty ∨ i ∈ done) → i ∉ st.silent → Stored t e

/-- the invariant, during a commit that has already written the dirty entries in `done` -/
def InvP (done : List Nat) (st : St) : Prop := ∃ t, InvBody done t st

/-- the invariant between operations -/
def Inv (st : St) : Prop := InvP [] st

theorem Inv_init : Inv (St.init (.sqlite [])) := by
  refine ⟨[], rfl, ⟨by simp [Sqlite.Inv], ?_, ?_, ?_⟩, ?_⟩
  · intro i k h; simp [sidOf, St.init] at h
  · intro i j k h; simp [sidOf, St.init] at h
  · intro k h; simp [Sqlite.abs] at h
  · intro i e h; simp [St.init] at h

/-- hooks preserve the invariant: whatever they change is covered -/
theorem Inv_of_LeX {a b : St} (h : LeX none a b) (ha : Inv a) : Inv b := by
  obtain ⟨t, hs, hc, hst⟩ := ha
  have hsid : ∀ i, sidOf b i = sidOf a i := h.sid
  refine ⟨t, h.store.trans hs, ⟨hc.tinv, ?_, ?_, ?_⟩, ?_⟩
  · intro i k hk; rw [hsid] at hk; exact hc.owner i k hk
  · intro i j k hi hj; rw [hsid] at hi hj; exact hc.uniq i j k hi hj
  · intro k hk; obtain ⟨i, hi⟩ := hc.nostale k hk; exact ⟨i, by rw [hsid]; exact hi⟩
  · intro i e he hd hsil
    have hnc : ¬ Covered b i := by
      rintro (g | g)
      · rcases hd with hd | hd
        · exact hd g
        · cases hd
      · exact hsil g
    rcases h.ents i with g | g | g
    · have hna : ¬ Covered a i := fun c => hnc (h.cov i c)
      exact hst i e (g ▸ he) (Or.inl (fun c => hna (Or.inl c))) (fun c => hna (Or.inr c))
    · exact absurd g hnc
    · cases g

/-! ### `_storage_update`, case by case -/

theorem Stored_frame {t t' : Sqlite.Table Val} {e : Entry} (h : Stored t e)
    (h3 : ∀ kj, e.storageId = some kj → Sqlite.abs t' tag kj = Sqlite.abs t tag kj) : Stored t' e := by
  unfold Stored at h ⊢
  cases hs : e.storageId with
  | none => simpa [hs] using h
  | some k =>
    simp only [hs] at h ⊢
    obtain ⟨a, row, b, c⟩ := h
    exact ⟨a, row, b, by rw [h3 k hs]; exact c⟩

theorem set_other {m : Spec.M Val} {k kj : Nat} {v : Option Val} (h : kj ≠ k) : Spec.set m tag k v tag kj = m tag kj := by
  simp [Spec.set, h]

theorem set_same {m : Spec.M Val} {k : Nat} {v : Option Val} : Spec.set m tag k v tag k = v := by
  simp [Spec.set]

theorem fresh_abs (t : Sqlite.Table Val) (tg : Tag) : Sqlite.abs t tg (Sqlite.maxId t + 1) = none := by
  simp only [Sqlite.abs, Option.map_eq_none_iff]
  exact Sqlite.find_none_of_fresh t tg _ (by omega)

theorem InvP_mono {d1 d2 : List Nat} {a : St} (hsub : ∀ j, j ∈ d1 → j ∈ d2) (h : InvP d2 a) : InvP d1 a := by
  obtain ⟨t, hs, hc, hst⟩ := h
  exact ⟨t, hs, hc, fun j e he hd => hst j e he (hd.imp id (hsub j))⟩

theorem InvP_weaken {done : List Nat} {i : Nat} {a : St} (h : InvP (i :: done) a) : InvP done a :=
  InvP_mono (fun j hj => List.mem_cons_of_mem _ hj) h

theorem sidOf_of_ent {a : St} {i : Nat} {e : Entry} (h : a.ents[i]? = some e) : sidOf a i = some e.storageId := by
  simp [sidOf, h]

theorem sidOf_modify (a : St) (i j : Nat) (e : Entry) (v : Option Nat) (hei : a.ents[i]? = some e) :
    ((a.ents.modify i fun x => { x with storageId := v })[j]?).map Entry.storageId =
      if j = i then some v else sidOf a j := by
  simp only [sidOf, List.getElem?_modify]
  by_cases hji : i = j
  · subst hji; simp [hei]
  · have : ¬ j = i := fun c => hji c.symm
    simp [hji, this]

theorem not_done_of_ne {done : List Nat} {i j : Nat} {P : Prop} (hji : j ≠ i) (hd : P ∨ j ∈ i :: done) : P ∨ j ∈ done :=
  hd.imp id (fun c => by
    rcases List.mem_cons.1 c with c | c
    · exact absurd c hji
    · exact c)

/-- `_storage_update` deletes the row of a trash entry and forgets its id -/
theorem inv_delete (done : List Nat) (a : St) (t : Sqlite.Table Val) (h : InvBody done t a)
    (i k : Nat) (e : Entry) (hei : a.ents[i]? = some e) (hk : e.storageId = some k) (ht : e.isTrash = true) :
    InvBody (i :: done) (Sqlite.step t (.delete tag (some k))).1 (a.deleted t i k) := by
  obtain ⟨hs, hc, hst⟩ := h
  have habs : Sqlite.abs (Sqlite.step t (.delete tag (some k))).1 = Spec.set (Sqlite.abs t) tag k none :=
    Sqlite.abs_delete t tag k
  have hsi : sidOf a i = some (some k) := by rw [sidOf_of_ent hei, hk]
  have hsid : ∀ j, sidOf (a.deleted t i k) j = if j = i then some none else sidOf a j :=
    fun j => sidOf_modify a i j e none hei
  have hne : ∀ j kj, j ≠ i → sidOf a j = some (some kj) → kj ≠ k :=
    fun j kj hji hj c => hji (hc.uniq j i k (c ▸ hj) hsi)
  refine ⟨rfl, ⟨Sqlite.inv_step t _ hc.tinv, ?_, ?_, ?_⟩, ?_⟩
  · intro j kj hj
    rw [hsid] at hj
    by_cases hji : j = i
    · rw [if_pos hji] at hj; cases hj
    · rw [if_neg hji] at hj
      rw [habs, set_other (hne j kj hji hj)]
      exact hc.owner j kj hj
  · intro j1 j2 kj h1 h2
    rw [hsid] at h1 h2
    by_cases c1 : j1 = i
    · rw [if_pos c1] at h1; cases h1
    · by_cases c2 : j2 = i
      · rw [if_pos c2] at h2; cases h2
      · rw [if_neg c1] at h1; rw [if_neg c2] at h2; exact hc.uniq j1 j2 kj h1 h2
  · intro k' hk'
    rw [habs] at hk'
    have hnek : k' ≠ k := by
      intro c; subst c; rw [set_same] at hk'; exact hk' rfl
    rw [set_other hnek] at hk'
    obtain ⟨j, hj⟩ := hc.nostale k' hk'
    have hji : j ≠ i := fun c => by
      rw [c, hsi] at hj; injection hj with hj; injection hj with hj; exact hnek hj.symm
    exact ⟨j, by rw [hsid, if_neg hji]; exact hj⟩
  · intro j ej hej hd hsil
    have hej' : (a.ents.modify i fun x => { x with storageId := none })[j]? = some ej := hej
    rw [List.getElem?_modify] at hej'
    by_cases hji : j = i
    · subst hji
      simp [hei] at hej'
      subst hej'
      unfold Stored
      exact ht
    · have hij : ¬ i = j := fun c => hji c.symm
      simp [hij] at hej'
      refine Stored_frame (hst j ej hej' (not_done_of_ne hji hd) hsil) ?_
      intro kj hkj
      rw [habs, set_other (hne j kj hji (by rw [sidOf_of_ent hej', hkj]))]

/-- `_storage_update` rewrites the row of a live entry: the row exists, so `update` cannot raise -/
theorem inv_update (done : List Nat) (a : St) (t : Sqlite.Table Val) (h : InvBody done t a)
    (i k : Nat) (e : Entry) (row : Val) (hei : a.ents[i]? = some e) (hk : e.storageId = some k)
    (ht : e.isTrash = false) (hr : e.row = .ok row) :
    (Sqlite.step t (.update tag row (some k))).2 = .count 1 ∧
    InvBody (i :: done) (Sqlite.step t (.update tag row (some k))).1
      { a with store := .sqlite (Sqlite.step t (.update tag row (some k))).1 } := by
  obtain ⟨hs, hc, hst⟩ := h
  have hsi : sidOf a i = some (some k) := by rw [sidOf_of_ent hei, hk]
  have hex : Sqlite.abs t tag k ≠ none := hc.owner i k hsi
  have hlen := Sqlite.filter_hits_length t hc.tinv tag k
  rw [if_neg hex] at hlen
  have hstep : Sqlite.step t (.update tag row (some k)) =
      (t.map (fun r => if Sqlite.hits tag (some k) r then { r with val := row } else r), .count 1) := by
    simp [Sqlite.step, hlen]
  have habs : Sqlite.abs (Sqlite.step t (.update tag row (some k))).1 = Spec.set (Sqlite.abs t) tag k (some row) := by
    rw [hstep]; exact Sqlite.abs_update t tag k row hex
  refine ⟨by rw [hstep], rfl, ⟨Sqlite.inv_step t _ hc.tinv, ?_, ?_, ?_⟩, ?_⟩
  · intro j kj hj
    rw [habs]
    by_cases hne : kj = k
    · subst hne; rw [set_same]; simp
    · rw [set_other hne]; exact hc.owner j kj hj
  · exact hc.uniq
  · intro k' hk'
    rw [habs] at hk'
    by_cases hne : k' = k
    · subst hne; exact ⟨i, hsi⟩
    · rw [set_other hne] at hk'; exact hc.nostale k' hk'
  · intro j ej hej hd hsil
    by_cases hji : j = i
    · subst hji
      have : ej = e := by rw [hei] at hej; injection hej with hej; exact hej.symm
      subst this
      unfold Stored
      simp only [hk]
      exact ⟨ht, row, hr, by rw [habs, set_same]⟩
    · refine Stored_frame (hst j ej hej (not_done_of_ne hji hd) hsil) ?_
      intro kj hkj
      have hne : kj ≠ k := fun c => hji (hc.uniq j i k (by rw [sidOf_of_ent (a := a) hej, hkj, c]) hsi)
      rw [habs, set_other hne]

/-- `_storage_update` creates the row of a live entry that has none, and records the new id -/
theorem inv_create (done : List Nat) (a : St) (t : Sqlite.Table Val) (h : InvBody done t a)
    (i : Nat) (e : Entry) (row : Val) (hei : a.ents[i]? = some e) (hk : e.storageId = none)
    (ht : e.isTrash = false) (hr : e.row = .ok row) :
    InvBody (i :: done) (t ++ [{ id := Sqlite.maxId t + 1, tag := tag, val := row }]) (a.created t i row) := by
  obtain ⟨hs, hc, hst⟩ := h
  have habs := Sqlite.abs_create t tag row
  have hfresh := fresh_abs t tag
  have hsi : sidOf a i = some none := by rw [sidOf_of_ent hei, hk]
  have hsid : ∀ j, sidOf (a.created t i row) j =
      if j = i then some (some (Sqlite.maxId t + 1)) else sidOf a j :=
    fun j => sidOf_modify a i j e _ hei
  have hold : ∀ j kj, sidOf a j = some (some kj) → kj ≠ Sqlite.maxId t + 1 := by
    intro j kj hj c
    exact hc.owner j kj hj (c ▸ hfresh)
  refine ⟨rfl, ⟨?_, ?_, ?_, ?_⟩, ?_⟩
  · exact Sqlite.inv_step t (.create tag row) hc.tinv
  · intro j kj hj
    rw [hsid] at hj
    rw [habs]
    by_cases hji : j = i
    · rw [if_pos hji] at hj; injection hj with hj; injection hj with hj; subst hj; rw [set_same]; simp
    · rw [if_neg hji] at hj
      rw [set_other (hold j kj hj)]; exact hc.owner j kj hj
  · intro j1 j2 kj h1 h2
    rw [hsid] at h1 h2
    by_cases c1 : j1 = i <;> by_cases c2 : j2 = i
    · rw [c1, c2]
    · rw [if_pos c1] at h1; rw [if_neg c2] at h2
      injection h1 with h1; injection h1 with h1
      exact absurd h1.symm (hold j2 kj h2)
    · rw [if_neg c1] at h1; rw [if_pos c2] at h2
      injection h2 with h2; injection h2 with h2
      exact absurd h2.symm (hold j1 kj h1)
    · rw [if_neg c1] at h1; rw [if_neg c2] at h2; exact hc.uniq j1 j2 kj h1 h2
  · intro k' hk'
    rw [habs] at hk'
    by_cases hne : k' = Sqlite.maxId t + 1
    · refine ⟨i, ?_⟩; rw [hsid, if_pos rfl, hne]
    · rw [set_other hne] at hk'
      obtain ⟨j, hj⟩ := hc.nostale k' hk'
      have hji : j ≠ i := fun c => by rw [c, hsi] at hj; cases hj
      exact ⟨j, by rw [hsid, if_neg hji]; exact hj⟩
  · intro j ej hej hd hsil
    have hej' : (a.ents.modify i fun x => { x with storageId := some (Sqlite.maxId t + 1) })[j]? = some ej := hej
    rw [List.getElem?_modify] at hej'
    by_cases hji : j = i
    · subst hji
      simp [hei] at hej'
      subst hej'
      unfold Stored
      exact ⟨ht, row, hr, by rw [habs, set_same]⟩
    · have hij : ¬ i = j := fun c => hji c.symm
      simp [hij] at hej'
      have hd' : j ∉ a.dirty ∨ j ∈ done := by
        rcases hd with c | c
        · exact Or.inl (fun c' => c (mem_sadd.2 (Or.inl c')))
        · exact not_done_of_ne hji (Or.inr c)
      have hsil' : j ∉ a.silent := fun c => hsil (mem_sdiscard.2 ⟨c, hji⟩)
      refine Stored_frame (hst j ej hej' hd' hsil') ?_
      intro kj hkj
      rw [habs, set_other (hold j kj (by rw [sidOf_of_ent hej', hkj]))]

theorem at_of_some {a : St} {i : Nat} {e : Entry} (h : a.ents[i]? = some e) : a.at i = e := by simp [St.at, h]
theorem at_of_none {a : St} {i : Nat} (h : a.ents[i]? = none) : a.at i = placeholder := by simp [St.at, h]

/-- the only way `_storage_update` can fail -/
def SuResult (r : Except HErr Unit) : Prop := r = .ok () ∨ r = .error (.py .overflow)

/-- one `_storage_update`: on a normal return the entry is stored exactly and everything else stays as
    it was; the only possible exception is the OverflowError of `serialize`, and then nothing that was
    stored is disturbed -/
theorem su_inv (done : List Nat) (a : St) (h : InvP done a) (i : Nat) (hi : i ∈ a.dirty) :
    ((storageUpdate i a).1 = .ok () → InvP (i :: done) (storageUpdate i a).2) ∧ InvP done (storageUpdate i a).2 ∧
    (storageUpdate i a).2.dirty = a.dirty ∧ SuResult (storageUpdate i a).1 := by
  obtain ⟨t, hs, hc, hst⟩ := h
  have hnoop : ∀ e, e.storageId = none → e.isTrash = true → (a.ents[i]? = none ∨ a.ents[i]? = some e) →
      InvP (i :: done) a := by
    intro e hk ht hopt
    refine ⟨t, hs, hc, fun j ej hej hd hsil => ?_⟩
    by_cases hji : j = i
    · subst hji
      rcases hopt with hopt | hopt
      · rw [hopt] at hej; cases hej
      · rw [hopt] at hej; injection hej with hej; subst hej
        unfold Stored; simp only [hk]; exact ht
    · exact hst j ej hej (not_done_of_ne hji hd) hsil
  rcases hopt : a.ents[i]? with _ | e
  · have hat := at_of_none hopt
    have hk : (a.at i).storageId = none := by rw [hat]; rfl
    have ht : (a.at i).isTrash = true := by rw [hat]; rfl
    rw [su_none_trash a i hk ht]
    have := hnoop _ hk ht (Or.inl hopt)
    exact ⟨fun _ => this, InvP_weaken this, rfl, Or.inl rfl⟩
  · have hat := at_of_some hopt
    cases hk : e.storageId with
    | none =>
      cases ht : e.isTrash with
      | true =>
        rw [su_none_trash a i (by rw [hat]; exact hk) (by rw [hat]; exact ht)]
        have := hnoop e hk ht (Or.inr hopt)
        exact ⟨fun _ => this, InvP_weaken this, rfl, Or.inl rfl⟩
      | false =>
        cases hr : e.row with
        | error err =>
          rw [su_none_rowerr a i err (by rw [hat]; exact hk) (by rw [hat]; exact ht) (by rw [hat]; exact hr)]
          exact ⟨(fun c => by cases c), ⟨t, hs, hc, hst⟩, rfl, Or.inr (by rw [row_error e err hr])⟩
        | ok row =>
          rw [su_none_create a t hs i row (by rw [hat]; exact hk) (by rw [hat]; exact ht) (by rw [hat]; exact hr)]
          have hP : InvP (i :: done) (a.created t i row) := ⟨_, inv_create done a t ⟨hs, hc, hst⟩ i e row hopt hk ht hr⟩
          refine ⟨fun _ => hP, InvP_weaken hP, ?_, Or.inl rfl⟩
          show sadd a.dirty i = a.dirty
          simp [sadd, hi]
    | some k =>
      cases ht : e.isTrash with
      | true =>
        rw [su_some_trash a t hs i k (by rw [hat]; exact hk) (by rw [hat]; exact ht)]
        have hP : InvP (i :: done) (a.deleted t i k) := ⟨_, inv_delete done a t ⟨hs, hc, hst⟩ i k e hopt hk ht⟩
        exact ⟨fun _ => hP, InvP_weaken hP, rfl, Or.inl rfl⟩
      | false =>
        cases hr : e.row with
        | error err =>
          rw [su_some_rowerr a i k err (by rw [hat]; exact hk) (by rw [hat]; exact ht) (by rw [hat]; exact hr)]
          exact ⟨(fun c => by cases c), ⟨t, hs, hc, hst⟩, rfl, Or.inr (by rw [row_error e err hr])⟩
        | ok row =>
          rw [su_some_update a t hs i k row (by rw [hat]; exact hk) (by rw [hat]; exact ht) (by rw [hat]; exact hr)]
          obtain ⟨hcount, hbody⟩ := inv_update done a t ⟨hs, hc, hst⟩ i k e row hopt hk ht hr
          have hP : InvP (i :: done) { a with store := .sqlite (Sqlite.step t (.update tag row (some k))).1 } := ⟨_, hbody⟩
          refine ⟨fun _ => hP, InvP_weaken hP, rfl, Or.inl ?_⟩
          rw [hcount]

theorem forEach_cons {α} (x : α) (xs : List α) (f : α → M Unit) (a : St) :
    forEach (x :: xs) f a = (match f x a with
      | (.ok _, s') => forEach xs f s'
      | (.error e, s') => (.error e, s')) := by
  simp only [forEach, bind_run]
  rcases f x a with ⟨r | r, s'⟩ <;> rfl

/-- the loop of `storage_commit` -/
theorem forEach_su (l : List Nat) : ∀ (done : List Nat) (a : St), InvP done a → (∀ i ∈ l, i ∈ a.dirty) →
    InvP done (forEach l storageUpdate a).2 ∧ (forEach l storageUpdate a).2.dirty = a.dirty ∧
    ((forEach l storageUpdate a).1 = .ok () → InvP (l ++ done) (forEach l storageUpdate a).2) ∧
    SuResult (forEach l storageUpdate a).1 := by
  induction l with
  | nil => intro done a h _; exact ⟨h, rfl, fun _ => h, Or.inl rfl⟩
  | cons x xs ih =>
    intro done a h hl
    obtain ⟨h1, h2, h3, h4⟩ := su_inv done a h x (hl x (List.mem_cons_self))
    rw [forEach_cons]
    rcases hm : storageUpdate x a with ⟨r | r, s'⟩
    · simp only [hm] at h1 h2 h3 h4 ⊢
      exact ⟨h2, h3, (fun c => by cases c), h4⟩
    · simp only [hm] at h1 h2 h3 ⊢
      have hl' : ∀ i ∈ xs, i ∈ s'.dirty := fun i hi => by rw [h3]; exact hl i (List.mem_cons_of_mem _ hi)
      obtain ⟨g1, g2, g3, g4⟩ := ih (x :: done) s' (h1 trivial) hl'
      refine ⟨InvP_weaken g1, g2.trans h3, fun c => ?_, g4⟩
      refine InvP_mono (fun j hj => ?_) (g3 c)
      simp only [List.cons_append, List.mem_cons, List.mem_append] at hj ⊢
      rcases hj with hj | hj | hj
      · exact Or.inr (Or.inl hj)
      · exact Or.inl hj
      · exact Or.inr (Or.inr hj)

theorem storageCommit_eq (a : St) : storageCommit a = (match forEach a.dirty storageUpdate a with
    | (.ok _, s') => (.ok (), { s' with dirty := [] })
    | (.error e, s') => (.error e, s')) := by
  simp only [storageCommit, bind_run, getSt, modSt]
  rcases forEach a.dirty storageUpdate a with ⟨r | r, s'⟩ <;> rfl

/-- **`storage_commit` keeps the invariant**; after a normal return the dirty set is empty; the only
    exception it can raise is the OverflowError of `serialize` (never the ValueError of `update`) -/
theorem Inv_commit (a : St) (h : Inv a) :
    Inv (storageCommit a).2 ∧ ((storageCommit a).1 = .ok () → (storageCommit a).2.dirty = []) ∧
    SuResult (storageCommit a).1 := by
  obtain ⟨h1, h2, h3, h4⟩ := forEach_su a.dirty [] a h (fun _ hi => hi)
  rw [storageCommit_eq]
  rcases hm : forEach a.dirty storageUpdate a with ⟨r | r, s'⟩
  · simp only [hm] at h1 h4 ⊢
    exact ⟨h1, (fun c => by cases c), h4⟩
  · simp only [hm] at h2 h3 ⊢
    refine ⟨?_, fun _ => trivial, Or.inl rfl⟩
    obtain ⟨t, hs, hc, hst⟩ := h3 trivial
    refine ⟨t, hs, ⟨hc.tinv, hc.owner, hc.uniq, hc.nostale⟩, fun j e he _ hsil => ?_⟩
    refine hst j e he ?_ hsil
    by_cases c : j ∈ s'.dirty
    · right; rw [h2] at c; simpa using c
    · left; exact c

theorem fresh_isTrash (o : OType) : (Entry.fresh o).isTrash = true := rfl

/-- `SyncEntry(state, otype)` keeps the invariant: a fresh entry is trash and has no row -/
theorem Inv_newEntry (a : St) (o : OType) (h : Inv a) : Inv (newEntry o a).2 := by
  obtain ⟨t, hs, hc, hst⟩ := h
  have hents : (newEntry o a).2.ents = a.ents ++ [Entry.fresh o] := rfl
  have hsid : ∀ j k, sidOf (newEntry o a).2 j = some (some k) ↔ sidOf a j = some (some k) := by
    intro j k
    simp only [sidOf, hents]
    rcases Nat.lt_trichotomy j a.ents.length with c | c | c
    · rw [List.getElem?_append_left c]
    · subst c; simp [Entry.fresh]
    · rw [List.getElem?_eq_none (by simp; omega), List.getElem?_eq_none (by omega)]
  refine ⟨t, hs, ⟨hc.tinv, ?_, ?_, ?_⟩, ?_⟩
  · intro j k hj; exact hc.owner j k ((hsid j k).1 hj)
  · intro i j k hi hj; exact hc.uniq i j k ((hsid i k).1 hi) ((hsid j k).1 hj)
  · intro k hk; obtain ⟨j, hj⟩ := hc.nostale k hk; exact ⟨j, (hsid j k).2 hj⟩
  · intro j e he hd hsil
    have he' : (a.ents ++ [Entry.fresh o])[j]? = some e := he
    rcases Nat.lt_trichotomy j a.ents.length with c | c | c
    · rw [List.getElem?_append_left c] at he'
      exact hst j e he' hd hsil
    · subst c
      simp at he'
      subst he'
      rfl
    · rw [List.getElem?_eq_none (by simp; omega)] at he'; cases he'

/-- every operation keeps the invariant -/
theorem Inv_step (a : St) (op : Op) (h : Inv a) : Inv (step a op).2 := by
  cases op with
  | new o => exact Inv_newEntry a o h
  | write c => exact Inv_of_LeX ((Pres_hook (fuelFor a) c).run a) h
  | commit => exact (Inv_commit a h).1

theorem Inv_run (ops : List Op) : ∀ (a : St), Inv a → Inv (run a ops) := by
  induction ops with
  | nil => intro a h; exact h
  | cons op ops ih => intro a h; exact ih _ (Inv_step a op h)

/-! ### the loader -/

/-- a key whose dict equality is plain equality (None and strings: no `1 == True` aliasing) -/
def SimpleKey (q : Val) : Prop := ∀ k : Val, (k.pyEq q = true ↔ k = q) ∧ (q.pyEq k = true ↔ k = q)

theorem simpleKey_str (s : String) : SimpleKey (.str s) := by
  intro k
  constructor
  · cases k <;> simp [Val.pyEq, Val.beq_iff]
  · have : (Val.str s).pyEq k = (Val.str s == k) := by cases k <;> rfl
    rw [this, Val.beq_iff]
    exact eq_comm

theorem simpleKey_nil : SimpleKey .nil := by
  intro k
  constructor
  · cases k <;> simp [Val.pyEq, Val.beq_iff]
  · have : (Val.nil).pyEq k = (Val.nil == k) := by cases k <;> rfl
    rw [this, Val.beq_iff]
    exact eq_comm

theorem dget_dset_same {β} (d : Dict β) (v : β) (q : Val) (hq : SimpleKey q) : dget (dset d q v) q = some v := by
  have hqq : q.pyEq q = true := ((hq q).1).2 rfl
  induction d with
  | nil => simp [dset, dget, hqq]
  | cons a r ih =>
    obtain ⟨l, w⟩ := a
    by_cases hl : l.pyEq q = true
    · simp [dset, dget, hl]
    · simp [dset, dget, hl, ih]

theorem dget_dset_other {β} (d : Dict β) (k : Val) (v : β) (q : Val) (hq : SimpleKey q) (hk : k ≠ q) :
    dget (dset d k v) q = dget d q := by
  induction d with
  | nil =>
    have : k.pyEq q = false := by
      cases hh : k.pyEq q
      · rfl
      · exact absurd (((hq k).1).1 hh) hk
    simp [dset, dget, this]
  | cons a r ih =>
    obtain ⟨l, w⟩ := a
    by_cases hlk : l.pyEq k = true
    · have hls : l.pyEq q = false := by
        cases hh : l.pyEq q
        · rfl
        · have hl := ((hq l).1).1 hh
          subst hl
          exact absurd (((hq k).2).1 hlk) hk
      simp [dset, dget, hlk, hls]
    · by_cases hls : l.pyEq q = true
      · simp [dset, dget, hlk, hls]
      · simp [dset, dget, hlk, hls, ih]

theorem dget_dset_simple {β} (d : Dict β) (k : Val) (v : β) (q : Val) (hq : SimpleKey q) :
    dget (dset d k v) q = if k = q then some v else dget d q := by
  by_cases h : k = q
  · subst h; simp [dget_dset_same _ _ _ hq]
  · simp [h, dget_dset_other d k v q hq h]

/-- pending by the loader's rule: a truthy change stamp on a side that has an id -/
def _root_.CS.Codec.Entry.pendingOnLoad (e : Entry) : Bool :=
  (!e.s0.oid.isNone && e.s0.changed.truthy) || (!e.s1.oid.isNone && e.s1.changed.truthy)

/-- what the loader has built so far, as far as None / string keys and the pending set are concerned -/
structure Loaded (st : St) : Prop where
  sound : ∀ (sd : Sd) (s : String) (i : Nat), dget (st.ix sd).oids (.str s) = some i →
    ∃ e, st.ents[i]? = some e ∧ (e.side sd).oid = .str s
  complete : ∀ (sd : Sd) (s : String) (i : Nat) (e : Entry), st.ents[i]? = some e → (e.side sd).oid = .str s →
    ∃ j, dget (st.ix sd).oids (.str s) = some j ∧ i ≤ j
  noneAbsent : ∀ (sd : Sd), dget (st.ix sd).oids .nil = none ∧ dget (st.ix sd).paths .nil = none
  pending : ∀ i, i ∈ st.changeset ↔ ∃ e, st.ents[i]? = some e ∧ e.pendingOnLoad = true

theorem Loaded_init (b : Backend) : Loaded (St.init b) := by
  refine ⟨?_, ?_, ?_, ?_⟩
  · intro sd s i h; cases sd <;> simp [St.init, St.ix, dget] at h
  · intro sd s i e h; simp [St.init] at h
  · intro sd; cases sd <;> simp [St.init, St.ix, dget]
  · intro i; simp [St.init]

theorem indexLoaded_ents (st : St) (i : Nat) (e : Entry) : (indexLoaded st i e).ents = st.ents := by
  simp only [indexLoaded]
  cases (e.side false).oid.isNone <;> cases (e.side true).oid.isNone <;>
  cases (e.side false).changed.truthy <;> cases (e.side true).changed.truthy <;>
    simp [St.setIx, St.ix]

theorem indexLoaded_oids (st : St) (i : Nat) (e : Entry) (sd : Sd) :
    ((indexLoaded st i e).ix sd).oids =
      if (e.side sd).oid.isNone then (st.ix sd).oids else dset (st.ix sd).oids (e.side sd).oid i := by
  simp only [indexLoaded]
  cases sd <;> cases (e.side false).oid.isNone <;> cases (e.side true).oid.isNone <;>
  cases (e.side false).changed.truthy <;> cases (e.side true).changed.truthy <;>
    simp [St.setIx, St.ix]

theorem indexLoaded_paths (st : St) (i : Nat) (e : Entry) (sd : Sd) :
    ((indexLoaded st i e).ix sd).paths =
      if (e.side sd).oid.isNone then (st.ix sd).paths
      else if (e.side sd).path.truthy then
        dset (st.ix sd).paths (e.side sd).path (dset ((dget (st.ix sd).paths (e.side sd).path).getD []) (e.side sd).oid i)
      else (st.ix sd).paths := by
  simp only [indexLoaded]
  cases sd <;> cases (e.side false).oid.isNone <;> cases (e.side true).oid.isNone <;>
  cases (e.side false).changed.truthy <;> cases (e.side true).changed.truthy <;>
    simp [St.setIx, St.ix]

theorem indexLoaded_changeset (st : St) (i : Nat) (e : Entry) (j : Nat) :
    j ∈ (indexLoaded st i e).changeset ↔ j ∈ st.changeset ∨ (j = i ∧ e.pendingOnLoad = true) := by
  simp only [indexLoaded, Entry.pendingOnLoad]
  have hs0 : (e.side false) = e.s0 := rfl
  have hs1 : (e.side true) = e.s1 := rfl
  cases h2 : e.s0.oid.isNone <;> cases h3 : e.s1.oid.isNone <;>
  cases h0 : e.s0.changed.truthy <;> cases h1 : e.s1.changed.truthy <;>
    simp [St.setIx, St.ix, hs0, hs1, h0, h1, h2, h3, mem_sadd]

theorem isNone_iff (v : Val) : v.isNone = true ↔ v = .nil := by cases v <;> simp [Val.isNone]

theorem Loaded_step (st : St) (e : Entry) (h : Loaded st) :
    Loaded (indexLoaded { st with ents := st.ents ++ [e] } st.ents.length e) := by
  have hents : (indexLoaded { st with ents := st.ents ++ [e] } st.ents.length e).ents = st.ents ++ [e] := indexLoaded_ents _ _ _
  have hold : ∀ (i : Nat) (x : Entry), st.ents[i]? = some x → (st.ents ++ [e])[i]? = some x := by
    intro i x hx
    have : i < st.ents.length := by
      rcases Nat.lt_or_ge i st.ents.length with c | c
      · exact c
      · rw [List.getElem?_eq_none c] at hx; cases hx
    rw [List.getElem?_append_left this]; exact hx
  have hnew : (st.ents ++ [e])[st.ents.length]? = some e := by simp
  have hsplit : ∀ (i : Nat) (x : Entry), (st.ents ++ [e])[i]? = some x → st.ents[i]? = some x ∨ (i = st.ents.length ∧ x = e) := by
    intro i x hx
    rcases Nat.lt_trichotomy i st.ents.length with c | c | c
    · left; rw [List.getElem?_append_left c] at hx; exact hx
    · right; subst c; simp at hx; exact ⟨rfl, hx.symm⟩
    · rw [List.getElem?_eq_none (by simp; omega)] at hx; cases hx
  have hix : ∀ sd, ({ st with ents := st.ents ++ [e] } : St).ix sd = st.ix sd := fun sd => by cases sd <;> rfl
  -- the id index of side `sd` after the step, queried with a string
  have hq : ∀ (sd : Sd) (s : String), dget ((indexLoaded { st with ents := st.ents ++ [e] } st.ents.length e).ix sd).oids (.str s) =
      if (e.side sd).oid = .str s then some st.ents.length else dget (st.ix sd).oids (.str s) := by
    intro sd s
    rw [indexLoaded_oids, hix]
    by_cases hn : (e.side sd).oid.isNone = true
    · have : (e.side sd).oid ≠ .str s := fun c => by rw [c] at hn; cases hn
      simp [hn, this]
    · have hn' : (e.side sd).oid.isNone = false := by simpa using hn
      simp only [hn', Bool.false_eq_true, if_false]
      rw [dget_dset_simple _ _ _ _ (simpleKey_str s)]
  refine ⟨?_, ?_, ?_, ?_⟩
  · intro sd s i hi
    rw [hq] at hi
    rw [hents]
    by_cases hk : (e.side sd).oid = .str s
    · rw [if_pos hk] at hi; injection hi with hi; subst hi
      exact ⟨e, hnew, hk⟩
    · rw [if_neg hk] at hi
      obtain ⟨x, hx, ho⟩ := h.sound sd s i hi
      exact ⟨x, hold i x hx, ho⟩
  · intro sd s i x hx ho
    rw [hents] at hx
    rw [hq]
    rcases hsplit i x hx with hx' | ⟨hi, hxe⟩
    · have hil : i < st.ents.length := by
        rcases Nat.lt_or_ge i st.ents.length with c | c
        · exact c
        · rw [List.getElem?_eq_none c] at hx'; cases hx'
      by_cases hk : (e.side sd).oid = .str s
      · rw [if_pos hk]; exact ⟨_, rfl, Nat.le_of_lt hil⟩
      · rw [if_neg hk]; exact h.complete sd s i x hx' ho
    · subst hi; subst hxe
      rw [if_pos ho]; exact ⟨_, rfl, Nat.le_refl _⟩
  · intro sd
    rw [indexLoaded_oids, indexLoaded_paths, hix]
    by_cases hn : (e.side sd).oid.isNone = true
    · simp only [hn, if_true]; exact h.noneAbsent sd
    · have hn' : (e.side sd).oid.isNone = false := by simpa using hn
      simp only [hn', Bool.false_eq_true, if_false]
      have hne : (e.side sd).oid ≠ .nil := fun c => hn ((isNone_iff _).2 c)
      refine ⟨by rw [dget_dset_other _ _ _ _ simpleKey_nil hne]; exact (h.noneAbsent sd).1, ?_⟩
      by_cases hp : (e.side sd).path.truthy = true
      · have hpn : (e.side sd).path ≠ .nil := fun c => by rw [c] at hp; cases hp
        simp only [hp, if_true]
        rw [dget_dset_other _ _ _ _ simpleKey_nil hpn]; exact (h.noneAbsent sd).2
      · have hp' : (e.side sd).path.truthy = false := by simpa using hp
        simp only [hp', Bool.false_eq_true, if_false]; exact (h.noneAbsent sd).2
  · intro i
    rw [indexLoaded_changeset, hents]
    show (i ∈ st.changeset ∨ _) ↔ _
    rw [h.pending i]
    constructor
    · rintro (⟨x, hx, hs⟩ | ⟨hi, hs⟩)
      · exact ⟨x, hold i x hx, hs⟩
      · subst hi; exact ⟨e, hnew, hs⟩
    · rintro ⟨x, hx, hs⟩
      rcases hsplit i x hx with hx' | ⟨hi, hxe⟩
      · exact Or.inl ⟨x, hx', hs⟩
      · subst hxe; exact Or.inr ⟨hi, hs⟩

/-- the entries the loader creates: one per row that deserialises, in row order -/
def loadedEntries : List (Nat × Val) → List Entry
  | [] => []
  | (eid, row) :: rest =>
    match Entry.deserialize eid row with
    | .ok e => e :: loadedEntries rest
    | .error _ => loadedEntries rest

theorem loadRows_spec : ∀ (rows : List (Nat × Val)) (st : St), Loaded st →
    Loaded (loadRows rows st) ∧ (loadRows rows st).ents = st.ents ++ loadedEntries rows
  | [], st, h => ⟨h, by simp [loadRows, loadedEntries]⟩
  | (eid, row) :: rest, st, h => by
    simp only [loadRows, loadedEntries]
    cases hd : Entry.deserialize eid row with
    | ok e =>
      simp only
      obtain ⟨h1, h2⟩ := loadRows_spec rest _ (Loaded_step st e h)
      refine ⟨h1, ?_⟩
      rw [h2, indexLoaded_ents]
      simp
    | error err =>
      simp only
      have h' : Loaded { st with store := (st.store.step (.delete tag (some eid))).1 } :=
        ⟨fun sd s i hi => h.sound sd s i (by cases sd <;> exact hi), fun sd s i e he ho => by
          obtain ⟨j, hj, hle⟩ := h.complete sd s i e he ho
          exact ⟨j, by cases sd <;> exact hj, hle⟩, fun sd => by cases sd <;> exact h.noneAbsent _, h.pending⟩
      exact loadRows_spec rest _ h'

end CS.Persist
