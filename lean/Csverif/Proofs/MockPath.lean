import Csverif.Model.MockFS
import Csverif.Proofs.Path
/- String-level facts the mock-provider proofs need: what the path helpers of provider.py do on
   *clean* paths `canon sep l` (a separator followed by non-empty, separator-free components joined by
   single separators). -/
namespace CS.MockFS
open CS.Path
set_option linter.unusedVariables false

/-- the mock hard-codes '/' (startswith, rstrip, lstrip, `"/" in`) next to `self.sep` -/
structure COk (c : Cfg) : Prop where
  ok  : c.Ok
  sep : c.sep = '/'

/-- case folding of a component list -/
def foldL (c : Cfg) (l : List Str) : List Str := l.map (fold c)

theorem foldL_length (c : Cfg) (l : List Str) : (foldL c l).length = l.length := by simp [foldL]

theorem foldL_append (c : Cfg) (a b : List Str) : foldL c (a ++ b) = foldL c a ++ foldL c b := by simp [foldL]

theorem foldL_nil_iff (c : Cfg) (l : List Str) : foldL c l = [] ↔ l = [] := by simp [foldL]

theorem fold_canon {c : Cfg} (h : c.Ok) (l : List Str) : fold c (canon c.sep l) = canon c.sep (foldL c l) := by
  unfold fold foldL
  rw [canon_map _ _ ((cfold_sep h _).2 rfl)]
  rfl

theorem goodComps_foldL {c : Cfg} (h : c.Ok) {l : List Str} (hl : GoodComps c.sep l) : GoodComps c.sep (foldL c l) := by
  intro f hf
  obtain ⟨x, hx, rfl⟩ := List.mem_map.1 hf
  have := hl x hx
  refine ⟨?_, ?_⟩
  · intro e; apply this.1; simpa [fold] using e
  · intro hm
    obtain ⟨y, hy, hys⟩ := List.mem_map.1 hm
    rw [cfold_sep h] at hys
    subst hys
    exact this.2 hy

theorem canon_inj {sep : Char} {l m : List Str} (hl : GoodComps sep l) (hm : GoodComps sep m)
    (h : canon sep l = canon sep m) : l = m := by
  rw [← comps_canon sep l hl, ← comps_canon sep m hm, h]

theorem intercalate_ne_nil {sep : Char} {l : List Str} (hl : GoodComps sep l) (hne : l ≠ []) :
    intercalate sep l ≠ [] := by
  cases l with
  | nil => exact absurd rfl hne
  | cons p rest =>
    have hp := (hl p (by simp)).1
    cases rest with
    | nil => simpa [intercalate] using hp
    | cons q rest => simp [intercalate]

theorem canon_eq_sep {sep : Char} {l : List Str} (hl : GoodComps sep l) : canon sep l = [sep] ↔ l = [] := by
  constructor
  · intro h
    by_cases hne : l = []
    · exact hne
    · have := intercalate_ne_nil hl hne
      simp [canon] at h
      exact absurd h this
  · intro h; subst h; rfl

theorem intercalate_append (sep : Char) (a b : List Str) (ha : a ≠ []) (hb : b ≠ []) :
    intercalate sep (a ++ b) = intercalate sep a ++ sep :: intercalate sep b := by
  induction a with
  | nil => exact absurd rfl ha
  | cons p rest ih =>
    cases rest with
    | nil =>
      cases b with
      | nil => exact absurd rfl hb
      | cons q rb => simp [intercalate]
    | cons q rest =>
      have := ih (by simp)
      simp only [List.cons_append] at this ⊢
      simp only [intercalate, this, List.append_assoc, List.cons_append]

theorem canon_append (sep : Char) (a b : List Str) (hb : b ≠ []) :
    canon sep (a ++ b) = (if a = [] then [] else canon sep a) ++ sep :: intercalate sep b := by
  by_cases ha : a = []
  · simp [ha, canon]
  · simp [ha, canon, intercalate_append sep a b ha hb]

theorem head_intercalate_ne {sep : Char} {l : List Str} (hl : GoodComps sep l) :
    (intercalate sep l).head? ≠ some sep := by
  cases l with
  | nil => simp [intercalate]
  | cons p rest =>
    have hp := hl p (by simp)
    have : (intercalate sep (p :: rest)).head? = p.head? := by
      cases rest with
      | nil => simp [intercalate]
      | cons q rest =>
        simp only [intercalate]
        cases p with
        | nil => exact absurd rfl hp.1
        | cons x xs => simp
    rw [this]
    exact head?_ne_of_not_mem hp.2

theorem getLast_canon_ne {sep : Char} {l : List Str} (hl : GoodComps sep l) (hne : l ≠ []) :
    (canon sep l).getLast? ≠ some sep := by
  rcases List.eq_nil_or_concat l with rfl | ⟨init, a, rfl⟩
  · exact absurd rfl hne
  · rw [List.concat_eq_append] at hl ⊢
    have ha := hl a (by simp)
    rw [canon_concat, List.getLast?_append]
    cases a with
    | nil => exact absurd rfl ha.1
    | cons x xs =>
      have := getLast?_ne_of_not_mem ha.2
      simpa [List.getLast?_cons_cons] using this

theorem rstrip_canon {sep : Char} {l : List Str} (hl : GoodComps sep l) (hne : l ≠ []) :
    rstrip sep (canon sep l) = canon sep l :=
  rstrip_eq_self _ _ (getLast_canon_ne hl hne)

/-- `normalize_path` of a clean path only folds case -/
theorem norm_canon {c : Cfg} (h : c.Ok) {l : List Str} (hl : Comps c l) :
    norm c (canon c.sep l) = canon c.sep (foldL c l) := by
  rw [norm, normalizePath_false, nrm_canon h hl, fold_canon h]

theorem dirname_canon_concat {c : Cfg} (h : c.Ok) (init : List Str) (a : Str) (hl : Comps c (init ++ [a])) :
    dirname c (canon c.sep (init ++ [a])) = canon c.sep init := by
  rw [dirname, split_canon_concat h init a hl]

theorem basename_canon_concat {c : Cfg} (h : c.Ok) (init : List Str) (a : Str) (hl : Comps c (init ++ [a])) :
    (split c (canon c.sep (init ++ [a]))).2 = a := by
  rw [split_canon_concat h init a hl]

theorem dirname_canon_nil {c : Cfg} (h : c.Ok) : dirname c (canon c.sep []) = [c.sep] := by
  rw [dirname, split_canon_nil h]

theorem length_canon_of_foldL_eq {c : Cfg} (h : c.Ok) {f g : List Str} (he : foldL c f = foldL c g) :
    (canon c.sep f).length = (canon c.sep g).length := by
  have h1 := fold_length c (canon c.sep f)
  have h2 := fold_length c (canon c.sep g)
  rw [fold_canon h, he] at h1
  rw [fold_canon h] at h2
  omega

theorem comps_foldL_take {c : Cfg} (l : List Str) (n : Nat) : foldL c (l.take n) = (foldL c l).take n := by
  simp [foldL, List.map_take]

theorem comps_foldL_drop {c : Cfg} (l : List Str) (n : Nat) : foldL c (l.drop n) = (foldL c l).drop n := by
  simp [foldL, List.map_drop]

theorem Comps.take {c : Cfg} {l : List Str} (h : Comps c l) (n : Nat) : Comps c (l.take n) :=
  ⟨fun f hf => h.1 f (List.mem_of_mem_take hf), fun f hf => h.2 f (List.mem_of_mem_take hf)⟩

theorem Comps.drop {c : Cfg} {l : List Str} (h : Comps c l) (n : Nat) : Comps c (l.drop n) :=
  ⟨fun f hf => h.1 f (List.mem_of_mem_drop hf), fun f hf => h.2 f (List.mem_of_mem_drop hf)⟩

/-- `is_subpath` on clean paths is component-wise prefix of the case-folded component lists -/
theorem isSubpath_canon {c : Cfg} (h : c.Ok) {f t : List Str} (hf : Comps c f) (ht : Comps c t) (strict : Bool) :
    isSubpath c (canon c.sep f) (canon c.sep t) strict =
      if foldL c f = foldL c t then (if strict then .no else .rel [c.sep])
      else if (foldL c f).isPrefixOf (foldL c t) then .rel (c.sep :: intercalate c.sep (t.drop f.length))
      else .no := by
  have hgf := goodComps_foldL h hf.1
  have hgt := goodComps_foldL h ht.1
  rw [isSubpath_def, normSeps_canon h hf, normSeps_canon h ht, fold_canon h, fold_canon h]
  have hne1 : (canon c.sep f).isEmpty = false := rfl
  have hne2 : (canon c.sep t).isEmpty = false := rfl
  simp only [hne1, hne2, Bool.or_self, Bool.false_eq_true, if_false]
  by_cases heq : foldL c f = foldL c t
  · simp [heq]
  · have hcne : (canon c.sep (foldL c f) == canon c.sep (foldL c t)) = false := by
      simp only [beq_eq_false_iff_ne, ne_eq]
      exact fun e => heq (canon_inj hgf hgt e)
    simp only [hcne, Bool.false_eq_true, if_false, heq]
    by_cases hfn : f = []
    · subst hfn
      have h1 : (canon c.sep (foldL c []) == [c.sep]) = true := by simp [foldL, canon, intercalate]
      have h2 : isPrefix [c.sep] (canon c.sep (foldL c t)) = true := by simp [isPrefix, canon]
      simp only [h1, h2, Bool.and_self, if_true]
      simp [canon, foldL]
    · have hroot : (canon c.sep (foldL c f) == [c.sep]) = false := by
        simp only [beq_eq_false_iff_ne, ne_eq, canon_eq_sep hgf, foldL_nil_iff]
        exact hfn
      simp only [hroot, Bool.false_and, Bool.false_eq_true, if_false]
      by_cases hp : (foldL c f).isPrefixOf (foldL c t) = true
      · -- t = t1 ++ t2 with t1 folding like f
        simp only [hp, if_true]
        have hpre : foldL c f <+: foldL c t := List.isPrefixOf_iff_prefix.1 hp
        obtain ⟨r, hr⟩ := hpre
        have hlen : f.length ≤ t.length := by
          have := congrArg List.length hr
          simp only [List.length_append, foldL_length] at this
          omega
        have ht12 : t = t.take f.length ++ t.drop f.length := (List.take_append_drop _ _).symm
        have hf1 : foldL c (t.take f.length) = foldL c f := by
          rw [comps_foldL_take, ← hr, List.take_left' (foldL_length c f)]
        have ht2 : t.drop f.length ≠ [] := by
          intro e
          apply heq
          have : t.take f.length = t := by rw [List.take_of_length_le]; simpa using e
          rw [← hf1, this]
        have ht1 : t.take f.length ≠ [] := by
          intro e
          rw [e] at hf1
          exact hfn ((foldL_nil_iff c f).1 hf1.symm)
        have hcan : canon c.sep t = canon c.sep (t.take f.length) ++ c.sep :: intercalate c.sep (t.drop f.length) := by
          conv => lhs; rw [ht12]
          rw [canon_append _ _ _ ht2]; simp [ht1]
        have hl := length_canon_of_foldL_eq h hf1
        have hc1 : (canon c.sep t).length > (canon c.sep f).length := by
          rw [hcan, List.length_append, hl]; simp
        have hc2 : (canon c.sep t)[(canon c.sep f).length]? = some c.sep := by
          rw [hcan, ← hl, List.getElem?_append_right (Nat.le_refl _)]; simp
        have hc3 : isPrefix (canon c.sep (foldL c f)) (canon c.sep (foldL c t)) = true := by
          have e1 : canon c.sep (foldL c t) =
              canon c.sep (foldL c f) ++ fold c (c.sep :: intercalate c.sep (t.drop f.length)) := by
            rw [← fold_canon h t, hcan, fold_append, fold_canon h, hf1]
          rw [isPrefix_iff, e1]
          exact List.prefix_append _ _
        have hc4 : (canon c.sep t).drop (canon c.sep f).length = c.sep :: intercalate c.sep (t.drop f.length) := by
          rw [hcan, ← hl, List.drop_left]
        have hcond : (decide ((canon c.sep t).length > (canon c.sep f).length) &&
            ((canon c.sep t)[(canon c.sep f).length]? == some c.sep)) = true := by
          rw [hc2]; simp only [beq_self_eq_true, Bool.and_true, decide_eq_true_eq]; exact hc1
        rw [if_pos hcond, if_pos hc3, hc4]
      · simp only [hp, Bool.false_eq_true, if_false]
        split
        · rename_i hcond
          split
          · rename_i hpre
            exfalso
            apply hp
            simp only [Bool.and_eq_true, decide_eq_true_eq, beq_iff_eq] at hcond
            rw [isPrefix_iff] at hpre
            obtain ⟨rest, hrest⟩ := hpre
            -- the character after the folded prefix is the separator
            have hlenf : (canon c.sep (foldL c f)).length = (canon c.sep f).length := by
              rw [← fold_canon h]; simp
            have hsepc : (canon c.sep (foldL c t))[(canon c.sep f).length]? = some c.sep := by
              rw [← fold_canon h]
              simp only [fold, List.getElem?_map, hcond.2, Option.map_some]
              rw [(cfold_sep h _).2 rfl]
            rw [← hrest, ← hlenf, List.getElem?_append_right (Nat.le_refl _)] at hsepc
            simp only [Nat.sub_self] at hsepc
            cases rest with
            | nil => simp at hsepc
            | cons x rest' =>
              simp only [List.getElem?_cons_zero, Option.some.injEq] at hsepc
              subst hsepc
              have := congrArg (comps c.sep) hrest
              rw [comps_append_sep, comps_canon _ _ hgf, comps_canon _ _ hgt] at this
              rw [List.isPrefixOf_iff_prefix]
              exact ⟨_, this⟩
          · rfl
        · rfl

/-- the loop test of `listdir`: the entry's own name iff the object is *directly* beneath the folder -/
theorem childName_canon {c : Cfg} (hc : COk c) {f t : List Str} (hf : Comps c f) (ht : Comps c t) :
    childName c (canon c.sep f) (canon c.sep t) =
      if (foldL c f).isPrefixOf (foldL c t) && t.length == f.length + 1 then t.getLast? else none := by
  have h := hc.ok
  unfold childName
  rw [isSubpath_canon h hf ht true]
  by_cases heq : foldL c f = foldL c t
  · have hl : t.length = f.length := by
      have := congrArg List.length heq; simpa [foldL_length] using this.symm
    have : (t.length == f.length + 1) = false := by simp [hl]
    simp [heq, this]
  · simp only [heq, if_false]
    by_cases hp : (foldL c f).isPrefixOf (foldL c t) = true
    · simp only [hp, if_true, Bool.true_and]
      obtain ⟨r, hr⟩ := List.isPrefixOf_iff_prefix.1 hp
      have hlen : f.length ≤ t.length := by
        have := congrArg List.length hr
        simp only [List.length_append, foldL_length] at this
        omega
      have hdl : (t.drop f.length).length = t.length - f.length := List.length_drop
      have hgd : GoodComps c.sep (t.drop f.length) := (Comps.drop ht _).1
      cases ht2 : t.drop f.length with
      | nil =>
        exfalso; apply heq
        have e : t.take f.length = t := by rw [List.take_of_length_le]; rw [ht2] at hdl; simp at hdl; omega
        have : foldL c (t.take f.length) = foldL c f := by
          rw [comps_foldL_take, ← hr, List.take_left' (foldL_length c f)]
        rw [← this, e]
      | cons a rest =>
        rw [ht2] at hdl hgd
        have ha := hgd a (by simp)
        have hsl : c.sep = '/' := hc.sep
        cases rest with
        | nil =>
          have hlt : t.length = f.length + 1 := by simp at hdl; omega
          have hlast : t.getLast? = some a := by
            have := List.getLast?_drop (l := t) (i := f.length)
            rw [ht2] at this
            have hn : ¬ t.length ≤ f.length := by omega
            simp only [hn, if_false] at this
            rw [← this]; rfl
          have h1 : lstrip '/' (c.sep :: intercalate c.sep [a]) = a := by
            simp only [intercalate, lstrip, hsl, beq_self_eq_true, if_true]
            apply lstrip_eq_self
            rw [← hsl]; exact head?_ne_of_not_mem ha.2
          have h2 : a.contains '/' = false := by
            have : '/' ∉ a := hsl ▸ ha.2
            simpa using this
          simp only [List.isEmpty_cons, Bool.false_eq_true, if_false, h1, h2, hlt, hlast, beq_self_eq_true, if_true]
        | cons b rest' =>
          have hlt : (t.length == f.length + 1) = false := by
            simp at hdl; simp; omega
          have h1 : lstrip '/' (c.sep :: intercalate c.sep (a :: b :: rest')) = a ++ c.sep :: intercalate c.sep (b :: rest') := by
            simp only [intercalate, lstrip, hsl, beq_self_eq_true, if_true]
            apply lstrip_eq_self
            cases a with
            | nil => exact absurd rfl ha.1
            | cons x xs =>
              have := head?_ne_of_not_mem ha.2
              rw [hsl] at this
              simpa using this
          have h2 : (a ++ c.sep :: intercalate c.sep (b :: rest')).contains '/' = true := by
            have : '/' ∈ a ++ c.sep :: intercalate c.sep (b :: rest') := by
              rw [hsl]; exact List.mem_append_right _ (List.Mem.head _)
            rw [List.contains_iff_mem]; exact this
          simp only [List.isEmpty_cons, Bool.false_eq_true, if_false, h1, h2, hlt, if_true]
    · simp [hp]

/-- `replace_path` of something strictly beneath the old folder -/
theorem replacePath_canon {c : Cfg} (h : c.Ok) {f t g : List Str} (hf : Comps c f) (ht : Comps c t) (hg : Comps c g)
    (hp : (foldL c f).isPrefixOf (foldL c t) = true) (hne : foldL c f ≠ foldL c t) (hgne : g ≠ []) :
    replacePath c (canon c.sep t) (canon c.sep f) (canon c.sep g) = .ok (canon c.sep (g ++ t.drop f.length)) := by
  unfold replacePath
  rw [isSubpath_canon h hf ht false]
  simp only [hne, if_false, hp, if_true]
  obtain ⟨r, hr⟩ := List.isPrefixOf_iff_prefix.1 hp
  have ht2 : t.drop f.length ≠ [] := by
    intro e
    apply hne
    have hlen : f.length ≤ t.length := by
      have := congrArg List.length hr
      simp only [List.length_append, foldL_length] at this
      omega
    have e' : t.take f.length = t := by
      rw [List.take_of_length_le]
      have := congrArg List.length e
      simp at this; omega
    have : foldL c (t.take f.length) = foldL c f := by
      rw [comps_foldL_take, ← hr, List.take_left' (foldL_length c f)]
    rw [← this, e']
  have hin := intercalate_ne_nil (Comps.drop ht f.length).1 ht2
  have h1 : (c.sep :: intercalate c.sep (t.drop f.length)).isEmpty = false := rfl
  have h2 : (c.sep :: intercalate c.sep (t.drop f.length) == [c.sep]) = false := by
    simp only [beq_eq_false_iff_ne, ne_eq, List.cons.injEq, true_and]; exact hin
  simp only [h1, Bool.false_eq_true, if_false, h2, normSeps_canon h hg]
  rw [canon_append _ _ _ ht2]
  simp [hgne]

theorem mem_intercalate_of_mem {sep x : Char} {l : List Str} {f : Str} (hf : f ∈ l) (hx : x ∈ f) :
    x ∈ intercalate sep l := by
  induction l with
  | nil => simp at hf
  | cons p rest ih =>
    cases rest with
    | nil => simp at hf; subst hf; simpa [intercalate] using hx
    | cons q rest =>
      simp only [intercalate, List.mem_append, List.mem_cons]
      rcases List.mem_cons.1 hf with e | hm
      · subst e; left; exact hx
      · right; right; exact ih hm

theorem mem_canon_iff {sep x : Char} (hne : x ≠ sep) (l : List Str) :
    x ∈ canon sep l ↔ ∃ f ∈ l, x ∈ f := by
  constructor
  · intro h
    simp only [canon, List.mem_cons] at h
    rcases h with e | h
    · exact absurd e hne
    · rcases mem_intercalate h with e | r
      · exact absurd e hne
      · exact r
  · rintro ⟨f, hf, hx⟩
    exact List.mem_cons_of_mem _ (mem_intercalate_of_mem hf hx)

/-- the forbidden-character test on the whole path string = on some component -/
theorem hasForbidden_canon {c : Cfg} (fl : Flavour) (hfs : c.sep ∉ fl.forbidden) (l : List Str) :
    hasForbidden fl (canon c.sep l) = l.any (fun n => fl.forbidden.any (fun ch => n.contains ch)) := by
  rw [Bool.eq_iff_iff]
  simp only [hasForbidden, List.any_eq_true, List.contains_iff_mem]
  constructor
  · rintro ⟨ch, hch, hm⟩
    have hne : ch ≠ c.sep := fun e => hfs (e ▸ hch)
    obtain ⟨f, hf, hx⟩ := (mem_canon_iff hne l).1 hm
    exact ⟨f, hf, ch, hch, hx⟩
  · rintro ⟨f, hf, ch, hch, hx⟩
    have hne : ch ≠ c.sep := fun e => hfs (e ▸ hch)
    exact ⟨ch, hch, (mem_canon_iff hne l).2 ⟨f, hf, hx⟩⟩

theorem head_canon (sep : Char) (l : List Str) : (canon sep l).head? = some sep := rfl

theorem comps_of_foldL {c : Cfg} (h : c.Ok) (hla : ∀ a, c.alt = some a → ∀ x, c.lower x = a → x = a)
    {l : List Str} (hl : Comps c l) : Comps c (foldL c l) := by
  refine ⟨goodComps_foldL h hl.1, ?_⟩
  intro f hf a ha hm
  obtain ⟨x, hx, rfl⟩ := List.mem_map.1 hf
  obtain ⟨y, hy, hya⟩ := List.mem_map.1 hm
  have : y = a := by
    unfold cfold at hya
    split at hya
    · exact hya
    · exact hla a ha y hya
  subst this
  exact hl.2 x hx y ha hy

end CS.MockFS
