import Csverif.Proofs.TreeLemmas
/- well-formedness of the reference tree and what `move` (a folder rename) does to lookups -/
namespace CS.Tree
set_option linter.unusedVariables false
variable {C : Type}

/-- well-formed: the root is a directory and every other entry's parent is a directory entry -/
structure TWf (t : T C) : Prop where
  root : ∃ n, get t [] = some n ∧ n.kind = .dir
  parent : ∀ k n, get t k = some n → k ≠ [] → ∃ pn, get t k.dropLast = some pn ∧ pn.kind = .dir

theorem twf_init : TWf (init : T C) := by
  refine ⟨⟨_, rfl, rfl⟩, ?_⟩
  intro k n hk hne
  simp only [init, get_cons, get_nil] at hk
  split at hk
  · rename_i e; exact absurd e.symm hne
  · cases hk

/-- every proper ancestor of an entry is a directory entry -/
theorem ancestor {t : T C} (h : TWf t) {k : Path} {n : Node C} (hk : get t k = some n) :
    ∀ (d i : Nat), i + d + 1 = k.length → ∃ m, get t (k.take i) = some m ∧ m.kind = .dir := by
  intro d
  induction d with
  | zero =>
    intro i hi
    have hne : k ≠ [] := by intro e; rw [e] at hi; simp at hi
    obtain ⟨pn, h1, h2⟩ := h.parent k n hk hne
    rw [List.dropLast_eq_take] at h1
    have : k.length - 1 = i := by omega
    rw [this] at h1
    exact ⟨pn, h1, h2⟩
  | succ d ih =>
    intro i hi
    obtain ⟨m, h1, _⟩ := ih (i + 1) (by omega)
    have hne : k.take (i + 1) ≠ [] := by
      intro e
      have := congrArg List.length e
      simp only [List.length_take, List.length_nil] at this; omega
    obtain ⟨pn, h3, h4⟩ := h.parent _ m h1 hne
    have : (k.take (i + 1)).dropLast = k.take i := by
      rw [List.dropLast_eq_take, List.length_take, List.take_take]
      congr 1; omega
    rw [this] at h3
    exact ⟨pn, h3, h4⟩

theorem ancestor_at {t : T C} (h : TWf t) {k : Path} {n : Node C} (hk : get t k = some n) (i : Nat) (hi : i < k.length) :
    ∃ m, get t (k.take i) = some m ∧ m.kind = .dir :=
  ancestor h hk (k.length - 1 - i) i (by omega)

/-- nothing lives strictly beneath a path that is missing or not a directory -/
theorem none_beneath_non_dir {t : T C} (h : TWf t) {a k : Path} (ha : ∀ m, get t a = some m → m.kind ≠ .dir)
    (hp : a <+: k) (hne : k ≠ a) : get t k = none := by
  cases hk : get t k with
  | none => rfl
  | some n =>
    exfalso
    have hlen : a.length < k.length := by
      have := hp.length_le
      rcases Nat.lt_or_ge a.length k.length with h1 | h1
      · exact h1
      · exfalso; apply hne
        obtain ⟨r, hr⟩ := hp
        have : r = [] := by
          have := congrArg List.length hr; simp at this
          exact List.eq_nil_of_length_eq_zero (by omega)
        rw [this] at hr; simpa using hr.symm
    obtain ⟨m, h1, h2⟩ := ancestor_at h hk a.length hlen
    rw [← List.prefix_iff_eq_take.1 hp] at h1
    exact ha m h1 h2

theorem lt_of_proper_prefix {a k : Path} (hp : a <+: k) (hne : k ≠ a) : a.length < k.length := by
  rcases Nat.lt_or_ge a.length k.length with h1 | h1
  · exact h1
  · exfalso; apply hne
    obtain ⟨r, hr⟩ := hp
    have : r = [] := by
      have := congrArg List.length hr; simp at this
      exact List.eq_nil_of_length_eq_zero (by omega)
    rw [this] at hr; simpa using hr.symm

/-- nothing lives strictly beneath a path without direct children -/
theorem none_beneath_childless {t : T C} (h : TWf t) {a k : Path} (hc : children t a = [])
    (hp : a <+: k) (hne : k ≠ a) : get t k = none := by
  cases hk : get t k with
  | none => rfl
  | some n =>
    exfalso
    have hlen := lt_of_proper_prefix hp hne
    have hchild : ∀ (q : Path) (m : Node C), get t q = some m → q.length = a.length + 1 → a <+: q → False := by
      intro q m hq hl hpq
      have hm := mem_of_get hq
      have : (q, m) ∈ children t a := by
        simp only [children, List.mem_filter, Bool.and_eq_true, beq_iff_eq]
        exact ⟨hm, hl, List.isPrefixOf_iff_prefix.2 hpq⟩
      rw [hc] at this; cases this
    by_cases hl1 : a.length + 1 = k.length
    · exact hchild k n hk hl1.symm hp
    · obtain ⟨m, h1, _⟩ := ancestor_at h hk (a.length + 1) (by omega)
      refine hchild _ m h1 (by rw [List.length_take]; omega) ?_
      rw [List.prefix_iff_eq_take, List.take_take]
      rw [show min (a.length) (a.length + 1) = a.length by omega]
      exact List.prefix_iff_eq_take.1 hp

/-! ### `move` -/

def keyMap (sk dk : Path) (k : Path) : Path := if sk.isPrefixOf k then dk ++ k.drop sk.length else k

def moveNode (sk dd : Path) (n : Node C) : Node C := { n with disp := dd ++ n.disp.drop sk.length }

theorem move_eq (t : T C) (sk dk dd : Path) :
    move t sk dk dd = t.map (fun e => if sk.isPrefixOf e.1 then (dk ++ e.1.drop sk.length, moveNode sk dd e.2) else e) := rfl

theorem move_keys (t : T C) (sk dk dd : Path) : (move t sk dk dd).map (·.1) = t.map (fun e => keyMap sk dk e.1) := by
  rw [move_eq, List.map_map]
  apply List.map_congr_left
  intro e _
  simp only [Function.comp, keyMap]
  split <;> rfl

theorem nodup_map_keys (t : T C) (g : Path → Path)
    (hinj : ∀ e ∈ t, ∀ e' ∈ t, g e.1 = g e'.1 → e.1 = e'.1) (hn : (t.map (·.1)).Nodup) :
    (t.map (fun e => g e.1)).Nodup := by
  induction t with
  | nil => simp
  | cons e t ih =>
    simp only [List.map_cons, List.nodup_cons] at hn ⊢
    refine ⟨?_, ih (fun a ha b hb => hinj a (List.mem_cons_of_mem _ ha) b (List.mem_cons_of_mem _ hb)) hn.2⟩
    intro hm
    obtain ⟨e', he', heq⟩ := List.mem_map.1 hm
    have := hinj e (List.mem_cons_self) e' (List.mem_cons_of_mem _ he') heq.symm
    apply hn.1
    rw [this]
    exact List.mem_map.2 ⟨e', he', rfl⟩

/-- the destination region is free: an entry beneath `dk` is beneath `sk` (trivial when `sk = dk`) -/
def Free (t : T C) (sk dk : Path) : Prop := ∀ e ∈ t, dk <+: e.1 → sk <+: e.1

theorem keyMap_inj {t : T C} {sk dk : Path} (hf : Free t sk dk) :
    ∀ e ∈ t, ∀ e' ∈ t, keyMap sk dk e.1 = keyMap sk dk e'.1 → e.1 = e'.1 := by
  intro e he e' he' heq
  unfold keyMap at heq
  by_cases h1 : sk.isPrefixOf e.1 = true
  · by_cases h2 : sk.isPrefixOf e'.1 = true
    · simp only [h1, h2, if_true] at heq
      have hd := List.append_cancel_left heq
      obtain ⟨r, hr⟩ := List.isPrefixOf_iff_prefix.1 h1
      obtain ⟨r', hr'⟩ := List.isPrefixOf_iff_prefix.1 h2
      rw [← hr, ← hr'] at hd ⊢
      simp only [List.drop_left] at hd
      rw [hd]
    · simp only [h1, h2, if_true, Bool.false_eq_true, if_false] at heq
      exfalso
      have : dk <+: e'.1 := ⟨_, heq⟩
      exact h2 (List.isPrefixOf_iff_prefix.2 (hf e' he' this))
  · by_cases h2 : sk.isPrefixOf e'.1 = true
    · simp only [h1, h2, if_true, Bool.false_eq_true, if_false] at heq
      exfalso
      have : dk <+: e.1 := ⟨_, heq.symm⟩
      exact h1 (List.isPrefixOf_iff_prefix.2 (hf e he this))
    · simpa [h1, h2] using heq

theorem nodup_move {t : T C} {sk dk : Path} (dd : Path) (hf : Free t sk dk) (hn : (t.map (·.1)).Nodup) :
    ((move t sk dk dd).map (·.1)).Nodup := by
  rw [move_keys]
  exact nodup_map_keys t (keyMap sk dk) (keyMap_inj hf) hn

theorem mem_move {t : T C} {sk dk dd : Path} {x : Path × Node C} :
    x ∈ move t sk dk dd ↔ ∃ e ∈ t, x = (if sk.isPrefixOf e.1 then (dk ++ e.1.drop sk.length, moveNode sk dd e.2) else e) := by
  rw [move_eq, List.mem_map]
  constructor
  · rintro ⟨e, he, rfl⟩; exact ⟨e, he, rfl⟩
  · rintro ⟨e, he, rfl⟩; exact ⟨e, he, rfl⟩

/-- lookups after a folder move -/
theorem get_move {t : T C} {sk dk : Path} (dd : Path) (hf : Free t sk dk) (hn : (t.map (·.1)).Nodup) (q : Path) :
    get (move t sk dk dd) q =
      if dk.isPrefixOf q then (get t (sk ++ q.drop dk.length)).map (moveNode sk dd)
      else if sk.isPrefixOf q then none else get t q := by
  have hnm := nodup_move dd hf hn
  -- every hit in the moved tree comes from an entry of `t`
  have hfrom : ∀ n, get (move t sk dk dd) q = some n →
      (∃ r m, q = dk ++ r ∧ get t (sk ++ r) = some m ∧ n = moveNode sk dd m) ∨ (sk.isPrefixOf q = false ∧ get t q = some n) := by
    intro n hg
    obtain ⟨e, he, hx⟩ := mem_move.1 (mem_of_get hg)
    by_cases h1 : sk.isPrefixOf e.1 = true
    · simp only [h1, if_true, Prod.mk.injEq] at hx
      obtain ⟨r, hr⟩ := List.isPrefixOf_iff_prefix.1 h1
      left
      refine ⟨r, e.2, ?_, ?_, hx.2⟩
      · rw [hx.1, ← hr, List.drop_left]
      · rw [hr]; exact get_of_mem hn (by cases e; exact he)
    · simp only [h1, Bool.false_eq_true, if_false] at hx
      right
      subst hx
      exact ⟨Bool.eq_false_iff.2 h1, get_of_mem hn he⟩
  by_cases hd : dk.isPrefixOf q = true
  · simp only [hd, if_true]
    obtain ⟨r, hr⟩ := List.isPrefixOf_iff_prefix.1 hd
    have hdrop : q.drop dk.length = r := by rw [← hr, List.drop_left]
    rw [hdrop]
    cases hs : get t (sk ++ r) with
    | some m =>
      simp only [Option.map_some]
      apply get_of_mem hnm
      apply mem_move.2
      refine ⟨(sk ++ r, m), mem_of_get hs, ?_⟩
      have : sk.isPrefixOf (sk ++ r) = true := List.isPrefixOf_iff_prefix.2 (List.prefix_append _ _)
      simp only [this, if_true, List.drop_left, hr]
    | none =>
      simp only [Option.map_none]
      cases hg : get (move t sk dk dd) q with
      | none => rfl
      | some n =>
        exfalso
        rcases hfrom n hg with ⟨r', m, h1, h2, _⟩ | ⟨h1, h2⟩
        · rw [← hr] at h1
          have := List.append_cancel_left h1
          rw [← this, hs] at h2; cases h2
        · have := hf _ (mem_of_get h2) (List.isPrefixOf_iff_prefix.1 hd)
          rw [List.isPrefixOf_iff_prefix.2 this] at h1; cases h1
  · simp only [hd, Bool.false_eq_true, if_false]
    by_cases hsq : sk.isPrefixOf q = true
    · simp only [hsq, if_true]
      cases hg : get (move t sk dk dd) q with
      | none => rfl
      | some n =>
        exfalso
        rcases hfrom n hg with ⟨r', m, h1, _, _⟩ | ⟨h1, _⟩
        · apply hd; rw [h1]; exact List.isPrefixOf_iff_prefix.2 (List.prefix_append _ _)
        · rw [hsq] at h1; cases h1
    · simp only [hsq, Bool.false_eq_true, if_false]
      cases hs : get t q with
      | some n =>
        apply get_of_mem hnm
        apply mem_move.2
        exact ⟨(q, n), mem_of_get hs, by simp [hsq]⟩
      | none =>
        cases hg : get (move t sk dk dd) q with
        | none => rfl
        | some n =>
          exfalso
          rcases hfrom n hg with ⟨r', m, h1, _, _⟩ | ⟨_, h2⟩
          · apply hd; rw [h1]; exact List.isPrefixOf_iff_prefix.2 (List.prefix_append _ _)
          · rw [hs] at h2; cases h2

end CS.Tree

namespace CS.Tree
set_option linter.unusedVariables false
variable {C : Type}

/-! ### well-formedness is kept by every step -/

theorem parentCheck_none {t : T C} (h : TWf t) {k : Path} (hk : k ≠ []) (hp : parentCheck t k = none) :
    ∃ pn, get t k.dropLast = some pn ∧ pn.kind = .dir := by
  unfold parentCheck at hp
  simp only at hp
  split at hp
  · rename_i he
    have : k.dropLast = [] := by simpa using he
    rw [this]; exact h.root
  · split at hp
    · cases hp
    · rename_i n hn
      split at hp
      · rename_i hd; exact ⟨n, hn, by simpa using hd⟩
      · cases hp

theorem twf_set_new {t : T C} (h : TWf t) {k : Path} (n : Node C) (hfree : get t k = none) (hk : k ≠ [])
    (hpar : ∃ pn, get t k.dropLast = some pn ∧ pn.kind = .dir) : TWf (set t k n) := by
  constructor
  · obtain ⟨r, h1, h2⟩ := h.root
    exact ⟨r, by rw [get_set, if_neg (fun e => hk e.symm)]; exact h1, h2⟩
  · intro q m hq hqne
    rw [get_set] at hq
    have hsame : ∀ (x : Path) (pn : Node C), get t x = some pn → get (set t k n) x = some pn := by
      intro x pn hx
      rw [get_set]
      have : x ≠ k := by intro e; rw [e, hfree] at hx; cases hx
      simp [this, hx]
    split at hq
    · rename_i e; subst e
      obtain ⟨pn, h1, h2⟩ := hpar
      exact ⟨pn, hsame _ _ h1, h2⟩
    · obtain ⟨pn, h1, h2⟩ := h.parent q m hq hqne
      exact ⟨pn, hsame _ _ h1, h2⟩

theorem twf_set_same_kind {t : T C} (h : TWf t) {k : Path} {n0 : Node C} (n : Node C) (h0 : get t k = some n0)
    (hkind : n.kind = n0.kind) : TWf (set t k n) := by
  have hlook : ∀ (x : Path) (pn : Node C), get t x = some pn → pn.kind = .dir →
      ∃ pn', get (set t k n) x = some pn' ∧ pn'.kind = .dir := by
    intro x pn hx hd
    rw [get_set]
    by_cases e : x = k
    · subst e
      rw [h0] at hx; cases hx
      exact ⟨n, by simp, by rw [hkind]; exact hd⟩
    · exact ⟨pn, by simp [e, hx], hd⟩
  constructor
  · obtain ⟨r, h1, h2⟩ := h.root
    exact hlook _ r h1 h2
  · intro q m hq hqne
    rw [get_set] at hq
    split at hq
    · rename_i e; subst e
      obtain ⟨pn, h1, h2⟩ := h.parent q n0 h0 hqne
      exact hlook _ pn h1 h2
    · obtain ⟨pn, h1, h2⟩ := h.parent q m hq hqne
      exact hlook _ pn h1 h2

theorem twf_erase_leaf {t : T C} (h : TWf t) {k : Path} (hk : k ≠ [])
    (hleaf : ∀ q, k <+: q → q ≠ k → get t q = none) : TWf (erase t k) := by
  constructor
  · obtain ⟨r, h1, h2⟩ := h.root
    exact ⟨r, by rw [get_erase, if_neg (fun e => hk e.symm)]; exact h1, h2⟩
  · intro q m hq hqne
    rw [get_erase] at hq
    split at hq
    · cases hq
    · rename_i hqk
      obtain ⟨pn, h1, h2⟩ := h.parent q m hq hqne
      refine ⟨pn, ?_, h2⟩
      rw [get_erase]
      have : q.dropLast ≠ k := by
        intro e
        have hpre : k <+: q := by rw [← e]; exact List.dropLast_prefix q
        rw [hleaf q hpre hqk] at hq; cases hq
      simp [this, h1]

/-- the moved tree is well formed when the destination's parent is a directory outside the moved subtree -/
theorem twf_move {t : T C} (h : TWf t) {sk dk : Path} (dd : Path) (hf : Free t sk dk) (hn : (t.map (·.1)).Nodup)
    (hsk : sk ≠ []) (hdk : dk ≠ [])
    (hguard : sk <+: dk → sk = dk)
    (hpar : ∃ pn, get t dk.dropLast = some pn ∧ pn.kind = .dir) :
    TWf (move t sk dk dd) := by
  have hpre_false : ∀ {a : Path}, a ≠ [] → a.isPrefixOf ([] : Path) = false := by
    intro a ha; cases a with
    | nil => exact absurd rfl ha
    | cons _ _ => rfl
  constructor
  · obtain ⟨r, h1, h2⟩ := h.root
    refine ⟨r, ?_, h2⟩
    rw [get_move dd hf hn, hpre_false hdk, hpre_false hsk]
    simpa using h1
  · intro q m hq hqne
    rw [get_move dd hf hn] at hq
    by_cases hd : dk.isPrefixOf q = true
    · simp only [hd, if_true] at hq
      obtain ⟨r, hr⟩ := List.isPrefixOf_iff_prefix.1 hd
      have hdrop : q.drop dk.length = r := by rw [← hr, List.drop_left]
      rw [hdrop] at hq
      cases hs : get t (sk ++ r) with
      | none => rw [hs] at hq; cases hq
      | some m0 =>
        by_cases hrn : r = []
        · -- the folder itself: its new parent
          subst hrn
          simp only [List.append_nil] at hr
          subst hr
          obtain ⟨pn, h1, h2⟩ := hpar
          refine ⟨pn, ?_, h2⟩
          rw [get_move dd hf hn]
          have hlen : dk.dropLast.length < dk.length := by
            rw [List.length_dropLast]; have := List.length_pos_iff.2 hdk; omega
          have h3 : dk.isPrefixOf dk.dropLast = false := by
            apply Bool.eq_false_iff.2
            intro hp
            have := (List.isPrefixOf_iff_prefix.1 hp).length_le
            omega
          have h4 : sk.isPrefixOf dk.dropLast = false := by
            apply Bool.eq_false_iff.2
            intro hp
            have hp' := List.isPrefixOf_iff_prefix.1 hp
            have h5 : sk <+: dk := hp'.trans (List.dropLast_prefix dk)
            have := hguard h5
            subst this
            have := hp'.length_le
            omega
          simp [h3, h4, h1]
        · -- something beneath the folder: its parent moves along
          have hne' : sk ++ r ≠ [] := by simp [hsk]
          obtain ⟨pn, h1, h2⟩ := h.parent _ m0 hs hne'
          rw [List.dropLast_append_of_ne_nil hrn] at h1
          refine ⟨moveNode sk dd pn, ?_, h2⟩
          rw [← hr, List.dropLast_append_of_ne_nil hrn, get_move dd hf hn]
          have : dk.isPrefixOf (dk ++ r.dropLast) = true := List.isPrefixOf_iff_prefix.2 (List.prefix_append _ _)
          simp [this, h1]
    · simp only [hd, Bool.false_eq_true, if_false] at hq
      by_cases hsq : sk.isPrefixOf q = true
      · simp [hsq] at hq
      · simp only [hsq, Bool.false_eq_true, if_false] at hq
        obtain ⟨pn, h1, h2⟩ := h.parent q m hq hqne
        refine ⟨pn, ?_, h2⟩
        rw [get_move dd hf hn]
        have h3 : dk.isPrefixOf q.dropLast = false := by
          apply Bool.eq_false_iff.2
          intro hp
          exact hd (List.isPrefixOf_iff_prefix.2 ((List.isPrefixOf_iff_prefix.1 hp).trans (List.dropLast_prefix q)))
        have h4 : sk.isPrefixOf q.dropLast = false := by
          apply Bool.eq_false_iff.2
          intro hp
          exact hsq (List.isPrefixOf_iff_prefix.2 ((List.isPrefixOf_iff_prefix.1 hp).trans (List.dropLast_prefix q)))
        simp [h3, h4, h1]

end CS.Tree

namespace CS.Tree
set_option linter.unusedVariables false
variable {C : Type}

theorem lookupT_some {cfg : Cfg} {t : T C} {tg : Option Path} {k : Path} {n : Node C}
    (h : lookupT cfg t tg = some (k, n)) : ∃ p, tg = some p ∧ k = fold cfg p ∧ get t k = some n := by
  cases tg with
  | none => simp [lookupT] at h
  | some p =>
    simp only [lookupT] at h
    cases hg : get t (fold cfg p) with
    | none => rw [hg] at h; cases h
    | some m =>
      rw [hg] at h
      simp only [Option.map_some, Option.some.injEq, Prod.mk.injEq] at h
      obtain ⟨rfl, rfl⟩ := h
      exact ⟨p, rfl, rfl, hg⟩

theorem fold_eq_nil {cfg : Cfg} {p : Path} : fold cfg p = [] ↔ p = [] := by simp [fold]

/-- what a call must respect for the tree to stay well formed: the root is never deleted, a rename never targets
    the root or a path strictly beneath its source -/
def TGuard (cfg : Cfg) : Op C → Prop
  | .delete tg => ∀ p, tg = some p → p ≠ []
  | .rename tg dst => dst ≠ [] ∧ ∀ p, tg = some p → (fold cfg p <+: fold cfg dst → fold cfg p = fold cfg dst)
  | _ => True

/-- the state a folder rename starts from once the conflict is out of the way -/
theorem rename_ready {t : T C} (h : TWf t) (hn : (t.map (·.1)).Nodup) {sk dk : Path} {sn : Node C}
    (hs : get t sk = some sn) (hdk : dk ≠ []) (hguard : sk <+: dk → sk = dk)
    (hpc : parentCheck t dk = none) (conf : Option (Node C)) (hconf : conf = if dk == sk then none else get t dk)
    (hnb : renameBlocked t dk sn conf = false) :
    let t1 := if conf.isSome then erase t dk else t
    TWf t1 ∧ (t1.map (·.1)).Nodup ∧ Free t1 sk dk ∧ get t1 sk = some sn ∧
    (∃ pn, get t1 dk.dropLast = some pn ∧ pn.kind = .dir) ∧
    (dk ≠ sk → get t1 dk = none) ∧ (∀ e ∈ t1, e ∈ t) := by
  subst hconf
  intro t1
  have hpar := parentCheck_none h hdk hpc
  by_cases hds : dk = sk
  · subst hds
    have : t1 = t := by simp [t1]
    rw [this]
    exact ⟨h, hn, fun e _ hp => hp, hs, hpar, fun hne => absurd rfl hne, fun e he => he⟩
  · have hb : (dk == sk) = false := by simpa using hds
    simp only [hb, Bool.false_eq_true, if_false] at hnb
    cases hc : get t dk with
    | none =>
      have : t1 = t := by simp [t1, hb, hc]
      rw [this]
      refine ⟨h, hn, ?_, hs, hpar, fun _ => hc, fun e he => he⟩
      intro e he hp
      exfalso
      have hge := get_of_mem hn (k := e.1) (n := e.2) he
      by_cases hek : e.1 = dk
      · rw [hek, hc] at hge; cases hge
      · rw [none_beneath_non_dir h (fun m hm => by rw [hc] at hm; cases hm) hp hek] at hge; cases hge
    | some cn =>
      rw [hc] at hnb
      simp only [renameBlocked, Bool.or_eq_false_iff, Bool.not_eq_false', List.isEmpty_iff] at hnb
      obtain ⟨⟨_, _⟩, hch⟩ := hnb
      have hleaf : ∀ q, dk <+: q → q ≠ dk → get t q = none := fun q hp hq => none_beneath_childless h hch hp hq
      have : t1 = erase t dk := by simp [t1, hb, hc]
      rw [this]
      refine ⟨twf_erase_leaf h hdk hleaf, nodup_erase hn dk, ?_, ?_, ?_, fun _ => by rw [get_erase]; simp,
        fun e he => (mem_erase he).1⟩
      · intro e he hp
        exfalso
        obtain ⟨he1, he2⟩ := mem_erase he
        have hge := get_of_mem hn (k := e.1) (n := e.2) he1
        rw [hleaf e.1 hp he2] at hge; cases hge
      · rw [get_erase, if_neg (fun e => hds e.symm)]; exact hs
      · obtain ⟨pn, h1, h2⟩ := hpar
        refine ⟨pn, ?_, h2⟩
        rw [get_erase]
        have : dk.dropLast ≠ dk := by
          intro e
          have := congrArg List.length e
          rw [List.length_dropLast] at this
          have := List.length_pos_iff.2 hdk
          omega
        simp [this, h1]

theorem twf_step {cfg : Cfg} {t : T C} (h : TWf t) (hn : (t.map (·.1)).Nodup) (op : Op C) (hg : TGuard cfg op) :
    TWf (step cfg t op).1 := by
  have hroot_ne : ∀ {k : Path}, get t k = none → k ≠ [] := by
    intro k hk e; subst e
    obtain ⟨r, h1, _⟩ := h.root; rw [h1] at hk; cases hk
  cases op with
  | create p d =>
    simp only [step, create]
    split
    · exact h
    · split
      · exact h
      · rename_i hfree
        have hfree' : get t (fold cfg p) = none := by simpa using hfree
        split
        · exact h
        · rename_i hpc
          split
          · exact h
          · exact twf_set_new h _ hfree' (hroot_ne hfree') (parentCheck_none h (hroot_ne hfree') hpc)
  | mkdir p =>
    simp only [step, mkdir]
    split
    · exact h
    · rename_i hpc
      split
      · exact h
      · split
        · split <;> exact h
        · rename_i hfree
          exact twf_set_new h _ hfree (hroot_ne hfree) (parentCheck_none h (hroot_ne hfree) hpc)
  | upload tg d =>
    simp only [step, upload]
    split
    · exact h
    · rename_i k n hl
      obtain ⟨p, _, _, hk⟩ := lookupT_some hl
      split
      · exact h
      · exact twf_set_same_kind h _ hk rfl
  | download tg =>
    simp only [step, download]
    split
    · exact h
    · split <;> exact h
  | delete tg =>
    simp only [step, delete]
    split
    · exact h
    · rename_i k n hl
      obtain ⟨p, hp, hkp, hk⟩ := lookupT_some hl
      split
      · exact h
      · rename_i hcond
        have hkne : k ≠ [] := by rw [hkp]; exact fun e => hg p hp (fold_eq_nil.1 e)
        apply twf_erase_leaf h hkne
        intro q hpq hqk
        simp only [Bool.and_eq_true, Bool.not_eq_true', not_and, Bool.not_eq_false] at hcond
        by_cases hkd : n.kind = .dir
        · have := hcond (by simp [hkd])
          exact none_beneath_childless h (by simpa using this) hpq hqk
        · exact none_beneath_non_dir h (fun m hm => by rw [hk] at hm; cases hm; exact hkd) hpq hqk
  | rename tg dst =>
    simp only [step, rename]
    split
    · exact h
    · rename_i sk sn hl
      obtain ⟨p, hp, hkp, hk⟩ := lookupT_some hl
      obtain ⟨hdst, hgd⟩ := hg
      have hdk : fold cfg dst ≠ [] := fun e => hdst (fold_eq_nil.1 e)
      have hguard : sk <+: fold cfg dst → sk = fold cfg dst := by rw [hkp]; exact hgd p hp
      split
      · exact h
      · rename_i hpc
        have hmain : ∀ (conf : Option (Node C)), conf = (if fold cfg dst == sk then none else get t (fold cfg dst)) →
            TWf (if renameBlocked t (fold cfg dst) sn conf = true
              then (t, (Res.err Err.exists : Res C))
              else if (sn.disp == dst) = true then (if conf.isSome = true then erase t (fold cfg dst) else t, Res.path dst)
              else if (sn.kind == Kind.file) = true then
                (set (erase (if conf.isSome = true then erase t (fold cfg dst) else t) sk) (fold cfg dst)
                  { kind := sn.kind, content := sn.content, disp := dst }, Res.path dst)
              else (move (if conf.isSome = true then erase t (fold cfg dst) else t) sk (fold cfg dst) dst, Res.path dst)).1 := by
          intro conf hconf
          by_cases hb : renameBlocked t (fold cfg dst) sn conf = true
          · rw [if_pos hb]; exact h
          rw [if_neg hb]
          have hnb' := Bool.eq_false_iff.2 hb
          obtain ⟨hw1, hn1, hf1, hs1, hpar1, hfree1, hsub⟩ := rename_ready h hn hk hdk hguard hpc conf hconf hnb'
          split
          · exact hw1
          · split
            · rename_i hfile
              have hfile' : sn.kind = .file := by simpa using hfile
              have hskne : sk ≠ [] := by
                intro e; subst e
                obtain ⟨r, h1, h2⟩ := h.root
                rw [hk] at h1; cases h1; rw [hfile'] at h2; cases h2
              -- a file: nothing beneath it, erase then insert
              have hleaf : ∀ q, sk <+: q → q ≠ sk → get _ q = none := fun q hpq hq =>
                none_beneath_non_dir hw1 (fun m hm => by rw [hs1] at hm; cases hm; rw [hfile']; simp) hpq hq
              have hw2 := twf_erase_leaf hw1 hskne hleaf
              apply twf_set_new hw2 _ _ hdk
              · obtain ⟨pn, h1, h2⟩ := hpar1
                refine ⟨pn, ?_, h2⟩
                rw [get_erase]
                have : (fold cfg dst).dropLast ≠ sk := by
                  intro e; rw [e, hs1] at h1; cases h1; rw [hfile'] at h2; cases h2
                simp [this, h1]
              · rw [get_erase]
                by_cases e : fold cfg dst = sk
                · simp [e]
                · simp [e, hfree1 e]
            · have hskne : sk ≠ [] := by
                intro e; subst e
                exact hdk (hguard (List.nil_prefix)).symm
              exact twf_move hw1 dst hf1 hn1 hskne hdk hguard hpar1
        exact hmain _ rfl
  | infoPath p => exact h
  | infoOid tg => exact h
  | existsPath p => exact h
  | existsOid tg => exact h
  | listdir tg =>
    simp only [step, listdir]
    split
    · exact h
    · split <;> exact h

end CS.Tree

namespace CS.Tree
set_option linter.unusedVariables false
variable {C : Type}

/-- a destination that is a proper ancestor of the source is a non-empty directory: the rename is refused -/
theorem blocked_of_ancestor {t : T C} (h : TWf t) {sk dk : Path} {sn : Node C} (hs : get t sk = some sn)
    (hp : dk <+: sk) (hne : dk ≠ sk) : ∃ cn, get t dk = some cn ∧ renameBlocked t dk sn (some cn) = true := by
  have hlen := lt_of_proper_prefix hp (fun e => hne e.symm)
  obtain ⟨m, h1, _⟩ := ancestor_at h hs dk.length hlen
  rw [← List.prefix_iff_eq_take.1 hp] at h1
  refine ⟨m, h1, ?_⟩
  have hch : children t dk ≠ [] := by
    have hmem : ∀ (q : Path) (x : Node C), get t q = some x → q.length = dk.length + 1 → dk <+: q → children t dk ≠ [] := by
      intro q x hq hl hpq hc
      have : (q, x) ∈ children t dk := by
        simp only [children, List.mem_filter, Bool.and_eq_true, beq_iff_eq]
        exact ⟨mem_of_get hq, hl, List.isPrefixOf_iff_prefix.2 hpq⟩
      rw [hc] at this; cases this
    by_cases hl1 : dk.length + 1 = sk.length
    · exact hmem sk sn hs hl1.symm hp
    · obtain ⟨x, h2, _⟩ := ancestor_at h hs (dk.length + 1) (by omega)
      refine hmem _ x h2 (by rw [List.length_take]; omega) ?_
      rw [List.prefix_iff_eq_take, List.take_take]
      rw [show min dk.length (dk.length + 1) = dk.length by omega]
      exact List.prefix_iff_eq_take.1 hp
  simp only [renameBlocked, Bool.or_eq_true, Bool.not_eq_true', List.isEmpty_eq_false_iff]
  right; exact hch

end CS.Tree

namespace CS.Tree
set_option linter.unusedVariables false
variable {C : Type}

theorem mem_erase_of {t : T C} {k : Path} {e : Path × Node C} (h : e ∈ t) (hk : e.1 ≠ k) : e ∈ erase t k := by
  simp only [erase, List.mem_filter, Bool.not_eq_true', beq_eq_false_iff_ne, ne_eq]
  exact ⟨h, hk⟩

theorem mem_set_self (t : T C) (k : Path) (n : Node C) : (k, n) ∈ set t k n := by
  unfold set; exact List.mem_append_right _ (by simp)

theorem mem_set_of {t : T C} {k : Path} (n : Node C) {e : Path × Node C} (h : e ∈ t) (hk : e.1 ≠ k) : e ∈ set t k n := by
  unfold set; exact List.mem_append_left _ (mem_erase_of h hk)

/-- a refused rename changes nothing: whenever `rename` answers with an error class the tree is the one it was -/
theorem rename_refused_changes_nothing (cfg : Cfg) (t : T C) (tg : Option Path) (dst : Path) (e : Err)
    (h : (rename cfg t tg dst).2 = .err e) : (rename cfg t tg dst).1 = t := by
  cases hl : lookupT cfg t tg with
  | none => simp only [rename, hl]
  | some ksn =>
    obtain ⟨sk, sn⟩ := ksn
    simp only [rename, hl] at h ⊢
    cases hp : parentCheck t (fold cfg dst) with
    | some e' => simp only [hp]
    | none =>
      simp only [hp] at h ⊢
      by_cases hb : renameBlocked t (fold cfg dst) sn (if fold cfg dst == sk then none else get t (fold cfg dst)) = true
      · rw [if_pos hb]
      · rw [if_neg hb] at h
        exfalso
        by_cases hd : (sn.disp == dst) = true
        · rw [if_pos hd] at h; cases h
        · rw [if_neg hd] at h
          by_cases hf : (sn.kind == Kind.file) = true
          · rw [if_pos hf] at h; cases h
          · rw [if_neg hf] at h; cases h

/-- `rename` never destroys another object's bytes: every file of the tree is still a file with the same content
    afterwards (at its own key, or at the key it moved to) — whatever the target, the destination and the outcome.
    The only entry a successful rename may remove is an empty *directory* at the destination. -/
theorem rename_keeps_every_file (cfg : Cfg) (t : T C) (hn : (t.map (·.1)).Nodup) (tg : Option Path) (dst : Path)
    (k : Path) (n : Node C) (hk : (k, n) ∈ t) (hfile : n.kind = .file) :
    ∃ k' n', (k', n') ∈ (rename cfg t tg dst).1 ∧ n'.kind = .file ∧ n'.content = n.content := by
  have hsame : ∃ k' n', (k', n') ∈ t ∧ n'.kind = .file ∧ n'.content = n.content := ⟨k, n, hk, hfile, rfl⟩
  cases hl : lookupT cfg t tg with
  | none => simp only [rename, hl]; exact hsame
  | some ksn =>
    obtain ⟨sk, sn⟩ := ksn
    obtain ⟨p, _, _, hs⟩ := lookupT_some hl
    simp only [rename, hl]
    cases hp : parentCheck t (fold cfg dst) with
    | some e' => simp only [hp]; exact hsame
    | none =>
      simp only [hp]
      by_cases hb : renameBlocked t (fold cfg dst) sn (if fold cfg dst == sk then none else get t (fold cfg dst)) = true
      · rw [if_pos hb]; exact hsame
      · rw [if_neg hb]
        -- the entry survives the removal of an empty directory at the destination
        have h1 : (k, n) ∈ (if (if fold cfg dst == sk then none else get t (fold cfg dst)).isSome = true
            then erase t (fold cfg dst) else t) := by
          by_cases hsome : (if fold cfg dst == sk then none else get t (fold cfg dst)).isSome = true
          · rw [if_pos hsome]
            apply mem_erase_of hk
            intro e
            simp only at e
            subst e
            have hg := get_of_mem hn hk
            by_cases hds : (fold cfg dst == sk) = true
            · simp [hds] at hsome
            · simp only [hds, Bool.false_eq_true, if_false, hg, renameBlocked, hfile] at hb
              simp at hb
          · rw [if_neg hsome]; exact hk
        by_cases hd : (sn.disp == dst) = true
        · rw [if_pos hd]; exact ⟨k, n, h1, hfile, rfl⟩
        · rw [if_neg hd]
          by_cases hf : (sn.kind == Kind.file) = true
          · rw [if_pos hf]
            -- a file moves alone
            by_cases hks : k = sk
            · subst hks
              have : n = sn := by
                have := get_of_mem hn hk; rw [hs] at this; exact (Option.some.inj this).symm
              subst this
              exact ⟨_, _, mem_set_self _ _ _, hfile, rfl⟩
            · refine ⟨k, n, mem_set_of _ (mem_erase_of h1 hks) ?_, hfile, rfl⟩
              intro e
              simp only at e
              subst e
              have hg := get_of_mem hn hk
              have hds : (fold cfg dst == sk) = false := by simpa using hks
              simp only [hds, Bool.false_eq_true, if_false, hg, renameBlocked, hfile] at hb
              simp at hb
          · rw [if_neg hf]
            -- a folder moves with everything beneath it; contents are untouched
            by_cases hpre : sk.isPrefixOf k = true
            · exact ⟨fold cfg dst ++ k.drop sk.length, moveNode sk dst n,
                mem_move.2 ⟨(k, n), h1, by simp [hpre]⟩, hfile, rfl⟩
            · exact ⟨k, n, mem_move.2 ⟨(k, n), h1, by simp [hpre]⟩, hfile, rfl⟩

end CS.Tree
