import Csverif.Proofs.MockSim
/- One simulation lemma per provider operation: invariant kept, tree relation kept, results related. -/
namespace CS.MockFS
open CS.Path
open CS.Tree (Kind Err)
set_option linter.unusedVariables false
variable {C H : Type}

/-- all three conclusions of one simulated step -/
def Sim (c : Cfg) (fl : Flavour) (hcfg : HashCfg C H) (r : St C × Res C H) (tr : Tree.T C × Tree.Res C) : Prop :=
  Inv c fl r.1 ∧ Rel c r.1 tr.1 ∧ ResRel c fl hcfg r.2 tr.2

theorem leafBad_eq {c : Cfg} (hc : COk2 c) {fl : Flavour} (hfs : c.sep ∉ fl.forbidden) {p : Str} (hp : Clean c fl p) :
    hasForbidden fl p = Tree.leafBad (tcfg c fl) (Path.C c p) := by
  obtain ⟨_, hpp, _⟩ := clean_C hc hp
  conv => lhs; rw [hpp]
  rw [hasForbidden_canon fl hfs]
  rfl

/-- `_verify_parent_folder_exists` = the tree's parent check -/
theorem parent_rel {c : Cfg} (hc : COk2 c) {fl : Flavour} {s : St C} {t : Tree.T C} (hr : Rel c s t)
    {p : Str} (hp : Clean c fl p) :
    verifyParent c s p = Tree.parentCheck t (Tree.fold (tcfg c fl) (Path.C c p)) := by
  obtain ⟨hl, hpp, _⟩ := clean_C hc hp
  rw [tfold_eq]
  generalize Path.C c p = l at hl hpp
  subst hpp
  unfold verifyParent Tree.parentCheck
  rcases List.eq_nil_or_concat l with rfl | ⟨init, a, rfl⟩
  · simp [dirname_canon_nil hc.ok, foldL]
  · rw [List.concat_eq_append] at hl ⊢
    rw [dirname_canon_concat hc.ok init a hl, foldL_append]
    have hdl : (foldL c init ++ foldL c [a]).dropLast = foldL c init := by
      simp [foldL]
    simp only [hdl]
    have hci := Comps.left hl
    by_cases hin : init = []
    · subst hin; simp [canon, intercalate, foldL]
    · have h1 : (canon c.sep init == [c.sep]) = false := by
        simp only [beq_eq_false_iff_ne, ne_eq, canon_eq_sep hci.1]; exact hin
      have h2 : (foldL c init).isEmpty = false := by
        simp only [List.isEmpty_eq_false_iff, ne_eq, foldL_nil_iff]; exact hin
      simp only [h1, h2, Bool.false_eq_true, if_false]
      rw [hr.get _ (comps_foldL_ok hc hci), infoPath_eq, norm_canon hc.ok hci]
      cases hpv : pv s (canon c.sep (foldL c init)) with
      | none => rfl
      | some ho =>
        obtain ⟨h, o⟩ := ho
        simp only [Option.map_some, nodeOf]

theorem sim_create {c : Cfg} (hc : COk2 c) {fl : Flavour} (hfs : c.sep ∉ fl.forbidden) (hcfg : HashCfg C H)
    {s : St C} {t : Tree.T C} (hi : Inv c fl s) (hr : Rel c s t) {p : Str} (hp : Clean c fl p) (d : C) :
    Sim c fl hcfg (create c fl hcfg s p d) (Tree.create (tcfg c fl) t (Path.C c p) d) := by
  unfold create Tree.create
  have hnf : (tcfg c fl).nameFirst = true := rfl
  rw [leafBad_eq hc hfs hp, hnf, Bool.true_and]
  by_cases hb : Tree.leafBad (tcfg c fl) (Path.C c p) = true
  · simp only [hb, if_true]; exact ⟨hi, hr, .err⟩
  · simp only [hb, Bool.false_eq_true, if_false]
    have hex : (Tree.get t (Tree.fold (tcfg c fl) (Path.C c p))).isSome = (infoPath c s p).isSome := by
      rw [get_clean hc hr hp]; simp
    rw [hex]
    by_cases he : (infoPath c s p).isSome = true
    · simp only [he, if_true]; exact ⟨hi, hr, .err⟩
    · simp only [he, Bool.false_eq_true, if_false]
      rw [← parent_rel hc hr hp]
      cases hvp : verifyParent c s p with
      | some e => exact ⟨hi, hr, .err⟩
      | none =>
        simp only
        have hfree : infoPath c s p = none := by simpa using he
        obtain ⟨h1, h2, h3, h4, h5, h6, h7⟩ := sim_alloc hc hi hr hp hfree .file (some d)
        generalize allocStore c fl s p Kind.file (some d) = r at h1 h2 h3 h4 h5 h6 h7
        obtain ⟨s1, hh, o⟩ := r
        simp only at h1 h2 h3 h4 h5 h6 h7 ⊢
        have hnode : nodeOf c o = { kind := .file, content := some d, disp := Path.C c p } := by
          simp only [nodeOf, h5, h6, h3]
        rw [hnode, ← tfold_eq c fl] at h2
        refine ⟨inv_of_same (s := s1) rfl rfl rfl h1, rel_of_same (s := s1) rfl rfl h2, ?_⟩
        have := infoRel_obj hc hcfg (h3 ▸ hp : Clean c fl o.path)
        rw [hnode] at this
        exact .info this

theorem sim_mkdir {c : Cfg} (hc : COk2 c) {fl : Flavour} (hfs : c.sep ∉ fl.forbidden) (hcfg : HashCfg C H)
    {s : St C} {t : Tree.T C} (hi : Inv c fl s) (hr : Rel c s t) {p : Str} (hp : Clean c fl p) :
    Sim c fl hcfg (mkdir c fl s p) (Tree.mkdir (tcfg c fl) t (Path.C c p)) := by
  unfold mkdir Tree.mkdir
  dsimp only
  rw [← parent_rel hc hr hp]
  cases hvp : verifyParent c s p with
  | some e => exact ⟨hi, hr, .err⟩
  | none =>
    simp only
    rw [leafBad_eq hc hfs hp]
    by_cases hb : Tree.leafBad (tcfg c fl) (Path.C c p) = true
    · simp only [hb, if_true]; exact ⟨hi, hr, .err⟩
    · simp only [hb, Bool.false_eq_true, if_false]
      rw [get_clean hc hr hp]
      cases hip : infoPath c s p with
      | some ho =>
        obtain ⟨h, o⟩ := ho
        simp only [Option.map_some, nodeOf]
        obtain ⟨h1, h2, h3⟩ := pv_some.1 (infoPath_eq c s p ▸ hip)
        cases hk : o.kind with
        | file => exact ⟨hi, hr, .err⟩
        | dir =>
          refine ⟨hi, hr, .oid ?_⟩
          intro ho
          rw [hi.pathOid ho h o h2]
          exact (clean_C hc (hi.clean h o h2)).2.1
      | none =>
        simp only [Option.map_none]
        obtain ⟨h1, h2, h3, h4, h5, h6, h7⟩ := sim_alloc hc hi hr hp hip .dir none
        generalize allocStore c fl s p Kind.dir none = r at h1 h2 h3 h4 h5 h6 h7
        obtain ⟨s1, hh, o⟩ := r
        simp only at h1 h2 h3 h4 h5 h6 h7 ⊢
        have hnode : nodeOf c o = { kind := .dir, content := none, disp := Path.C c p } := by
          simp only [nodeOf, h5, h6, h3]
        rw [hnode, ← tfold_eq c fl] at h2
        refine ⟨inv_of_same (s := s1) rfl rfl rfl h1, rel_of_same (s := s1) rfl rfl h2, .oid ?_⟩
        intro ho
        rw [h7 ho]
        exact (clean_C hc hp).2.1

theorem getObj_some {s : St C} {k : Str} {h : Nat} {o : Obj C} :
    getObj s k = some (h, o) ↔ dget s.dict k = some h ∧ s.heap[h]? = some o := by
  unfold getObj
  cases hd : dget s.dict k with
  | none => simp
  | some h' =>
    cases hh : s.heap[h']? with
    | none =>
      simp only [hh, Option.map_none, Option.some.injEq]
      constructor
      · intro hx; cases hx
      · rintro ⟨e, h2⟩; subst e; rw [hh] at h2; cases h2
    | some o' =>
      simp only [hh, Option.map_some, Option.some.injEq, Prod.mk.injEq]
      constructor
      · rintro ⟨rfl, rfl⟩; exact ⟨rfl, hh⟩
      · rintro ⟨e, h2⟩; subst e; rw [hh] at h2; exact ⟨rfl, Option.some.inj h2⟩

theorem pv_of_getObj {s : St C} {k : Str} {h : Nat} {o : Obj C} (hg : getObj s k = some (h, o)) :
    pv s k = if o.live then some (h, o) else none := by
  unfold pv; rw [hg]

theorem pv_of_getObj_none {s : St C} {k : Str} (hg : getObj s k = none) : pv s k = none := by
  unfold pv; rw [hg]

theorem sim_upload {c : Cfg} (hc : COk2 c) {fl : Flavour} (hcfg : HashCfg C H)
    {s : St C} {t : Tree.T C} (hi : Inv c fl s) (hr : Rel c s t) (oid : Str) (d : C) :
    Sim c fl hcfg (upload c hcfg s oid d) (Tree.upload (tcfg c fl) t (resolve c s oid) d) := by
  unfold upload Tree.upload
  rw [lookupT_resolve hc hi hr]
  cases hg : getObj s oid with
  | none => rw [pv_of_getObj_none hg]; exact ⟨hi, hr, .err⟩
  | some ho =>
    obtain ⟨h, o⟩ := ho
    have hho := (getObj_some.1 hg).2
    rw [pv_of_getObj hg]
    obtain ⟨opath, ooid, olive, okind, ocont⟩ := o
    cases olive with
    | false => exact ⟨hi, hr, .err⟩
    | true =>
      cases okind with
      | dir => exact ⟨hi, hr, .err⟩
      | file =>
        obtain ⟨h1, h2, _⟩ := sim_set hc hi hr hho rfl
          (o' := { path := opath, oid := ooid, live := true, kind := .file, contents := some d }) rfl rfl
        exact ⟨inv_of_same (s := { s with heap := s.heap.set h ⟨opath, ooid, true, .file, some d⟩ }) rfl rfl rfl h1,
          rel_of_same (s := { s with heap := s.heap.set h ⟨opath, ooid, true, .file, some d⟩ }) rfl rfl (h2 rfl),
          .info (infoRel_obj hc hcfg (o := ⟨opath, ooid, true, .file, some d⟩) (hi.clean h ⟨opath, ooid, true, .file, ocont⟩ hho))⟩

theorem sim_download {c : Cfg} (hc : COk2 c) {fl : Flavour} (hcfg : HashCfg C H)
    {s : St C} {t : Tree.T C} (hi : Inv c fl s) (hr : Rel c s t) (oid : Str) :
    Sim c fl hcfg (download s oid) (Tree.download (tcfg c fl) t (resolve c s oid)) := by
  unfold download Tree.download
  rw [lookupT_resolve hc hi hr]
  cases hg : getObj s oid with
  | none => rw [pv_of_getObj_none hg]; exact ⟨hi, hr, .err⟩
  | some ho =>
    obtain ⟨h, o⟩ := ho
    dsimp only
    rw [pv_of_getObj hg]
    cases hl : o.live with
    | false => exact ⟨hi, hr, .err⟩
    | true =>
      simp only [Bool.not_true, Bool.false_eq_true, if_false, if_true, Option.map_some, nodeOf]
      cases hk : o.kind with
      | dir => exact ⟨hi, hr, .err⟩
      | file =>
        cases hcn : o.contents with
        | none => exact ⟨hi, hr, .err⟩
        | some x => exact ⟨hi, hr, .data⟩

/-- the emptiness test through the folder's own oid agrees with the tree -/
theorem dirBlocked_rel {c : Cfg} (hc : COk2 c) {fl : Flavour} (hcfg : HashCfg C H)
    {s : St C} {t : Tree.T C} (hi : Inv c fl s) (hr : Rel c s t) {h : Nat} {o : Obj C}
    (hho : s.heap[h]? = some o) (hl : o.live = true) (hk : o.kind = .dir) :
    dirBlocked c hcfg s o.oid =
      if (Tree.children t (foldL c (Path.C c o.path))).isEmpty then none else some .exists := by
  have hgo : getObj s o.oid = some (h, o) := getObj_some.2 ⟨hi.oidFiled h o hho hl, hho⟩
  have hclo := clean_C hc (hi.clean h o hho)
  obtain ⟨hA, hB⟩ := listing_rel hc hi hr hclo.1
  rw [← hclo.2.1] at hA hB
  unfold dirBlocked listdir
  simp only [hgo, hl, hk, beq_self_eq_true, Bool.and_self, if_true]
  cases hlh : listHandles c s o.path with
  | nil =>
    have : Tree.children t (foldL c (Path.C c o.path)) = [] := by
      cases hch : Tree.children t (foldL c (Path.C c o.path)) with
      | nil => rfl
      | cons e rest =>
        obtain ⟨h', o', nm, hm, _⟩ := hB e (by rw [hch]; simp)
        rw [hlh] at hm; cases hm
    simp [this]
  | cons x rest =>
    obtain ⟨h', o', nm⟩ := x
    have := (hA h' o' nm (by rw [hlh]; simp)).1
    have hne : (Tree.children t (foldL c (Path.C c o.path))).isEmpty = false := by
      cases hch : Tree.children t (foldL c (Path.C c o.path)) with
      | nil => rw [hch] at this; cases this
      | cons _ _ => rfl
    simp [hne]

theorem sim_delete {c : Cfg} (hc : COk2 c) {fl : Flavour} (hcfg : HashCfg C H)
    {s : St C} {t : Tree.T C} (hi : Inv c fl s) (hr : Rel c s t) (oid : Str) :
    Sim c fl hcfg (delete c hcfg s oid) (Tree.delete (tcfg c fl) t (resolve c s oid)) := by
  unfold delete Tree.delete
  rw [lookupT_resolve hc hi hr]
  cases hg : getObj s oid with
  | none => rw [pv_of_getObj_none hg]; exact ⟨hi, hr, .unit⟩
  | some ho =>
    obtain ⟨h, o⟩ := ho
    have hho := (getObj_some.1 hg).2
    rw [pv_of_getObj hg]
    obtain ⟨opath, ooid, olive, okind, ocont⟩ := o
    cases olive with
    | false => exact ⟨hi, hr, .unit⟩
    | true =>
      obtain ⟨h1, _, h3⟩ := sim_set hc hi hr hho rfl
        (o' := { path := opath, oid := ooid, live := false, kind := okind, contents := ocont }) rfl rfl
      have hok : Sim c fl hcfg
          (registerEvent { s with heap := s.heap.set h ⟨opath, ooid, false, okind, ocont⟩ } Action.delete
            ⟨opath, ooid, false, okind, ocont⟩ none, Res.unit)
          (Tree.erase t (foldL c (Path.C c opath)), Tree.Res.unit) :=
        ⟨inv_of_same (s := { s with heap := s.heap.set h ⟨opath, ooid, false, okind, ocont⟩ }) rfl rfl rfl h1,
         rel_of_same (s := { s with heap := s.heap.set h ⟨opath, ooid, false, okind, ocont⟩ }) rfl rfl (h3 rfl), .unit⟩
      cases okind with
      | file => exact hok
      | dir =>
        have hb := dirBlocked_rel hc hcfg hi hr hho rfl rfl
        simp only at hb
        cases hch : (Tree.children t (foldL c (Path.C c opath))).isEmpty with
        | true =>
          rw [hch] at hb
          simp only [if_true] at hb
          simpa [hb, hch, nodeOf] using hok
        | false =>
          rw [hch] at hb
          simp only [Bool.false_eq_true, if_false] at hb
          have : Sim c fl hcfg (s, Res.err Err.exists) (t, Tree.Res.err Err.exists) := ⟨hi, hr, .err⟩
          simpa [hb, hch, nodeOf] using this

theorem sim_infoPath {c : Cfg} (hc : COk2 c) {fl : Flavour} (hcfg : HashCfg C H)
    {s : St C} {t : Tree.T C} (hi : Inv c fl s) (hr : Rel c s t) {p : Str} (hp : Clean c fl p) :
    ResRel c fl hcfg (step c fl hcfg s (.infoPath p)).2 (Tree.step (tcfg c fl) t (.infoPath (Path.C c p))).2 ∧
    ResRel c fl hcfg (step c fl hcfg s (.existsPath p)).2 (Tree.step (tcfg c fl) t (.existsPath (Path.C c p))).2 := by
  simp only [step, Tree.step]
  rw [get_clean hc hr hp]
  cases hip : infoPath c s p with
  | none => exact ⟨.none, .bool⟩
  | some ho =>
    obtain ⟨h, o⟩ := ho
    obtain ⟨_, h2, _⟩ := pv_some.1 (infoPath_eq c s p ▸ hip)
    exact ⟨.info (infoRel_obj hc hcfg (hi.clean h o h2)), .bool⟩

theorem sim_infoOid {c : Cfg} (hc : COk2 c) {fl : Flavour} (hcfg : HashCfg C H)
    {s : St C} {t : Tree.T C} (hi : Inv c fl s) (hr : Rel c s t) (oid : Str) :
    ResRel c fl hcfg (step c fl hcfg s (.infoOid oid)).2 (Tree.step (tcfg c fl) t (.infoOid (resolve c s oid))).2 ∧
    ResRel c fl hcfg (step c fl hcfg s (.existsOid oid)).2 (Tree.step (tcfg c fl) t (.existsOid (resolve c s oid))).2 := by
  simp only [step, Tree.step]
  rw [lookupT_resolve hc hi hr, liveObj_eq]
  cases hp : pv s oid with
  | none => exact ⟨.none, .bool⟩
  | some ho =>
    obtain ⟨h, o⟩ := ho
    obtain ⟨_, h2, _⟩ := pv_some.1 hp
    exact ⟨.info (infoRel_obj hc hcfg (hi.clean h o h2)), .bool⟩

theorem sim_listdir {c : Cfg} (hc : COk2 c) {fl : Flavour} (hcfg : HashCfg C H)
    {s : St C} {t : Tree.T C} (hi : Inv c fl s) (hr : Rel c s t) (oid : Str) :
    ResRel c fl hcfg (step c fl hcfg s (.listdir oid)).2 (Tree.step (tcfg c fl) t (.listdir (resolve c s oid))).2 := by
  simp only [step, Tree.step, Tree.listdir, listdir]
  rw [lookupT_resolve hc hi hr]
  cases hg : getObj s oid with
  | none => rw [pv_of_getObj_none hg]; exact .err
  | some ho =>
    obtain ⟨h, o⟩ := ho
    dsimp only
    rw [pv_of_getObj hg]
    cases hl : o.live with
    | false => exact .err
    | true =>
      simp only [Bool.true_and, if_true, Option.map_some, nodeOf]
      cases hk : o.kind with
      | file => exact .err
      | dir =>
        simp only [beq_self_eq_true, if_true]
        have hho := (getObj_some.1 hg).2
        have hclo := clean_C hc (hi.clean h o hho)
        obtain ⟨hA, hB⟩ := listing_rel hc hi hr hclo.1
        rw [← hclo.2.1] at hA hB
        refine .list ?_ ?_
        · intro i hi'
          obtain ⟨⟨h', o', nm⟩, hm, rfl⟩ := List.mem_map.1 hi'
          obtain ⟨hmem, hnm⟩ := hA h' o' nm hm
          refine ⟨Tree.infoOf (nodeOf c o'), List.mem_map.2 ⟨_, hmem, rfl⟩, ?_⟩
          have hho' := (mem_listHandles.1 hm).2.1
          have hcl' := clean_C hc (hi.clean h' o' hho')
          refine ⟨rfl, rfl, ?_, hcl'.2.1, ?_⟩
          · simp only [objSize, Tree.infoOf, nodeOf]; cases o'.contents <;> rfl
          · simp only [Tree.infoOf, nodeOf, hnm]; rfl
        · intro ti hti
          obtain ⟨e, he, rfl⟩ := List.mem_map.1 hti
          obtain ⟨h', o', nm, hm, rfl, hnm⟩ := hB e he
          refine ⟨_, List.mem_map.2 ⟨(h', o', nm), hm, rfl⟩, ?_⟩
          have hho' := (mem_listHandles.1 hm).2.1
          have hcl' := clean_C hc (hi.clean h' o' hho')
          refine ⟨rfl, rfl, ?_, hcl'.2.1, ?_⟩
          · simp only [objSize, Tree.infoOf, nodeOf]; cases o'.contents <;> rfl
          · simp only [Tree.infoOf, nodeOf, hnm]; rfl

end CS.MockFS
