import Csverif.Proofs.Storage
/- helper lemmas for the size-independence part of Props/C09.lean:
   the id-order invariant of the table and the paged readers of Model/Storage.lean -/
namespace CS.Storage
namespace Sqlite
variable {V : Type}

/-- the rows are in strictly increasing id order (new ids are `max + 1`, so insertion order is id order) -/
def Sorted (t : Table V) : Prop := t.Pairwise (fun a b => a.id < b.id)

/-- id order, and every id is at least 1 -/
def Inv2 (t : Table V) : Prop := Sorted t ∧ ∀ r ∈ t, 1 ≤ r.id

theorem Sorted.inv {t : Table V} (h : Sorted t) : Inv t := by
  unfold Inv
  rw [List.Nodup, List.pairwise_map]
  exact List.Pairwise.imp (fun hab => Nat.ne_of_lt hab) h

theorem sorted_filter {t : Table V} (h : Sorted t) (p : Row V → Bool) : Sorted (t.filter p) :=
  List.Pairwise.filter p h

theorem sorted_upd (t : Table V) (h : Sorted t) (tag : Tag) (eid : Option Nat) (v : V) :
    Sorted (t.map (fun r => if hits tag eid r then { r with val := v } else r)) := by
  unfold Sorted
  rw [List.pairwise_map]
  refine List.Pairwise.imp ?_ h
  intro a b hab
  have ha : (if hits tag eid a then { a with val := v } else a).id = a.id := by split <;> rfl
  have hb : (if hits tag eid b then { b with val := v } else b).id = b.id := by split <;> rfl
  rw [ha, hb]; exact hab

theorem inv2_step (t : Table V) (op : Op V) (h : Inv2 t) : Inv2 (step t op).1 := by
  obtain ⟨hs, h1⟩ := h
  cases op with
  | create tag v =>
    simp only [step]
    constructor
    · unfold Sorted
      rw [List.pairwise_append]
      refine ⟨hs, List.pairwise_singleton _ _, ?_⟩
      intro a ha b hb
      simp only [List.mem_singleton] at hb
      subst hb
      have := maxId_ge t a ha
      simp only
      omega
    · intro r hr
      rcases List.mem_append.1 hr with hr | hr
      · exact h1 r hr
      · simp only [List.mem_singleton] at hr
        subst hr
        simp
  | update tag v eid =>
    simp only [step]
    split
    · exact ⟨hs, h1⟩
    · refine ⟨sorted_upd t hs tag eid v, ?_⟩
      intro r hr
      obtain ⟨a, ha, rfl⟩ := List.mem_map.1 hr
      have := h1 a ha
      split <;> exact this
  | delete tag eid =>
    simp only [step]
    exact ⟨sorted_filter hs _, fun r hr => h1 r (List.mem_filter.1 hr).1⟩
  | read tag eid => exact ⟨hs, h1⟩
  | readAll o => cases o <;> exact ⟨hs, h1⟩
  | reopen => exact ⟨hs, h1⟩

theorem inv2_run (ops : List (Op V)) (t : Table V) (h : Inv2 t) : Inv2 (run t ops).1 := by
  induction ops generalizing t with
  | nil => exact h
  | cons op ops ih => simp only [run]; exact ih _ (inv2_step t op h)

theorem inv2_nil : Inv2 ([] : Table V) := ⟨List.Pairwise.nil, fun _ h => by cases h⟩

/-! `ORDER BY id` -/

theorem insertById_perm (r : Row V) (t : Table V) : (insertById r t).Perm (r :: t) := by
  induction t with
  | nil => exact List.Perm.refl _
  | cons x xs ih =>
    simp only [insertById]
    split
    · exact List.Perm.refl _
    · exact (List.Perm.cons x ih).trans (List.Perm.swap r x xs)

theorem orderById_perm (t : Table V) : (orderById t).Perm t := by
  induction t with
  | nil => exact List.Perm.refl _
  | cons x xs ih =>
    simp only [orderById]
    exact (insertById_perm x _).trans (List.Perm.cons x ih)

theorem insertById_sorted (r : Row V) (t : Table V) (h : t.Pairwise (fun a b => a.id ≤ b.id)) :
    (insertById r t).Pairwise (fun a b => a.id ≤ b.id) := by
  induction t with
  | nil => exact List.pairwise_singleton _ _
  | cons x xs ih =>
    simp only [insertById]
    obtain ⟨hx, hxs⟩ := List.pairwise_cons.1 h
    split
    · rename_i hle
      refine List.pairwise_cons.2 ⟨?_, h⟩
      intro b hb
      rcases List.mem_cons.1 hb with rfl | hb
      · exact hle
      · exact Nat.le_trans hle (hx b hb)
    · rename_i hnle
      refine List.pairwise_cons.2 ⟨?_, ih hxs⟩
      intro b hb
      have := (insertById_perm r xs).mem_iff.1 hb
      rcases List.mem_cons.1 this with rfl | hb'
      · omega
      · exact hx b hb'

/-- `orderById` really sorts: the result is a permutation in non-decreasing id order -/
theorem orderById_sorted (t : Table V) : (orderById t).Pairwise (fun a b => a.id ≤ b.id) := by
  induction t with
  | nil => exact List.Pairwise.nil
  | cons x xs ih => simp only [orderById]; exact insertById_sorted x _ ih

/-- on a table already in id order (every reachable table) `ORDER BY id` is the identity -/
theorem orderById_of_sorted (t : Table V) (h : Sorted t) : orderById t = t := by
  induction t with
  | nil => rfl
  | cons x xs ih =>
    obtain ⟨hx, hxs⟩ := List.pairwise_cons.1 h
    simp only [orderById, ih hxs]
    cases xs with
    | nil => rfl
    | cons y ys =>
      simp only [insertById]
      rw [if_pos (Nat.le_of_lt (hx y (List.mem_cons_self)))]

/-! the paging loop on an id-ordered list -/

/-- after a full page of `p` rows the rows beyond the last id of the page are exactly the rest -/
theorem filter_gt_last (R : Table V) (hR : Sorted R) (p : Nat) (l : Row V)
    (hl : (R.take p).getLast? = some l) :
    R.filter (fun r => decide (l.id < r.id)) = R.drop p := by
  have hsplit : R = R.take p ++ R.drop p := (List.take_append_drop p R).symm
  have hS : Sorted (R.take p ++ R.drop p) := by rw [← hsplit]; exact hR
  obtain ⟨hT, hD, hTD⟩ := List.pairwise_append.1 hS
  have hlmem : l ∈ R.take p := List.mem_of_getLast? hl
  -- every row of the page has id ≤ the last one's
  have hle : ∀ a ∈ R.take p, a.id ≤ l.id := by
    intro a ha
    obtain ⟨ys, hys⟩ := List.getLast?_eq_some_iff.1 hl
    rw [hys] at ha hT
    rcases List.mem_append.1 ha with ha | ha
    · have := (List.pairwise_append.1 hT).2.2 a ha l (List.mem_singleton.2 rfl)
      exact Nat.le_of_lt this
    · simp only [List.mem_singleton] at ha
      subst ha; exact Nat.le_refl _
  conv => lhs; rw [hsplit]
  rw [List.filter_append]
  have h1 : (R.take p).filter (fun r => decide (l.id < r.id)) = [] := by
    rw [List.filter_eq_nil_iff]
    intro a ha
    have := hle a ha
    simp only [decide_eq_true_eq]; omega
  have h2 : (R.drop p).filter (fun r => decide (l.id < r.id)) = R.drop p := by
    rw [List.filter_eq_self]
    intro a ha
    simp only [decide_eq_true_eq]
    exact hTD l hlmem a ha
  rw [h1, h2, List.nil_append]

/-- the loop over a pre-selected id-ordered list `L`: what `pagedGo` computes once the per-page query is unfolded -/
def goL (L : Table V) (p bump : Nat) : Nat → Nat → Table V
  | 0, _ => []
  | fuel + 1, pos =>
    let pg := (L.filter (fun r => decide (pos < r.id))).take p
    if pg.length < p then pg
    else
      match pg.getLast? with
      | none => pg
      | some l => pg ++ goL L p bump fuel (l.id + bump)

theorem goL_correct (L : Table V) (hL : Sorted L) (p : Nat) (hp : 1 ≤ p) :
    ∀ (fuel pos : Nat), (L.filter (fun r => decide (pos < r.id))).length < fuel →
      goL L p 0 fuel pos = L.filter (fun r => decide (pos < r.id)) := by
  intro fuel
  induction fuel with
  | zero => intro pos h; omega
  | succ fuel ih =>
    intro pos hlen
    simp only [goL]
    generalize hR : L.filter (fun r => decide (pos < r.id)) = R at hlen
    have hRs : Sorted R := by rw [← hR]; exact sorted_filter hL _
    by_cases hshort : (R.take p).length < p
    · rw [if_pos hshort]
      rw [List.length_take] at hshort
      apply List.take_of_length_le
      omega
    · rw [if_neg hshort]
      have hplen : p ≤ R.length := by
        rw [List.length_take] at hshort; omega
      cases hlast : (R.take p).getLast? with
      | none =>
        exfalso
        have := List.getLast?_eq_none_iff.1 hlast
        have h0 : (R.take p).length = 0 := by rw [this]; rfl
        rw [List.length_take] at h0
        omega
      | some l =>
        simp only [Nat.add_zero]
        have hlmem : l ∈ R := List.mem_of_mem_take (List.mem_of_getLast? hlast)
        have hposl : pos < l.id := by
          rw [← hR] at hlmem
          have := (List.mem_filter.1 hlmem).2
          simpa using this
        -- the next query, on L, selects exactly the rest of R
        have hnext : L.filter (fun r => decide (l.id < r.id)) = R.drop p := by
          rw [← filter_gt_last R hRs p l hlast, ← hR, List.filter_filter]
          apply List.filter_congr
          intro a _
          by_cases ha : l.id < a.id
          · have : pos < a.id := by omega
            simp [ha, this]
          · simp [ha]
        rw [ih (l.id) (by rw [hnext, List.length_drop]; omega), hnext, List.take_append_drop]

/-- unfolding the per-page query: on an id-ordered table `pagedGo` is `goL` over the selected rows -/
theorem pagedGo_eq_goL (t : Table V) (ht : Sorted t) (tag : Option Tag) (p bump : Nat) :
    ∀ (fuel pos : Nat), pagedGo t tag p bump fuel pos = goL (t.filter (sel tag)) p bump fuel pos := by
  intro fuel
  induction fuel with
  | zero => intro pos; rfl
  | succ fuel ih =>
    intro pos
    have hq : page t tag pos p = ((t.filter (sel tag)).filter (fun r => decide (pos < r.id))).take p := by
      unfold page
      rw [orderById_of_sorted _ (sorted_filter ht _), List.filter_filter]
      congr 1
      apply List.filter_congr
      intro a _
      exact Bool.and_comm _ _
    simp only [pagedGo, goL, hq, ih]
    rfl

theorem filter_pos_zero (L : Table V) (h1 : ∀ r ∈ L, 1 ≤ r.id) :
    L.filter (fun r => decide (0 < r.id)) = L := by
  rw [List.filter_eq_self]
  intro a ha
  have := h1 a ha
  simp only [decide_eq_true_eq]; omega

/-- a correct keyset-paged reader returns the selected rows of the table, whatever the page size -/
theorem pagedRows_correct (t : Table V) (h : Inv2 t) (tag : Option Tag) (p : Nat) (hp : 1 ≤ p) :
    pagedRows t tag p 0 = t.filter (sel tag) := by
  unfold pagedRows
  rw [pagedGo_eq_goL t h.1 tag p 0]
  have h1 : ∀ r ∈ t.filter (sel tag), 1 ≤ r.id := fun r hr => h.2 r (List.mem_filter.1 hr).1
  have hlen : ((t.filter (sel tag)).filter (fun r => decide (0 < r.id))).length < t.length + 1 := by
    rw [filter_pos_zero _ h1]
    exact Nat.lt_succ_of_le (List.length_filter_le _ _)
  rw [goL_correct _ (sorted_filter h.1 _) p hp _ 0 hlen, filter_pos_zero _ h1]

end Sqlite
end CS.Storage
