import Csverif.Model.FsHash
/- helper lemmas for the filesystem provider's hash functions (C16) -/
namespace CS.FsHash

variable {B Hh : Type}

/-- what `_fast_hash_data` feeds to the digest -/
def fastInput (bs : List B) : List B :=
  bs.take 1024 ++ (if bs.length > 1024 then bs.drop (bs.length - min 1024 (bs.length - 1024)) else [])

theorem fastHashData_fst (D : List B → Hh) (bs : List B) : (fastHashData D bs).1 = D (fastInput bs) := rfl

theorem fastHashData_final (D : List B → Hh) (bs : List B) :
    (fastHashData D bs).2 = decide (bs.length ≤ 1024) := by
  simp only [fastHashData]
  by_cases h : bs.length > 1024
  · simp only [h, if_true]
    have : ¬ bs.length ≤ 1024 := by omega
    simp only [this, decide_false, List.isEmpty_eq_false_iff, ne_eq, List.drop_eq_nil_iff]
    omega
  · have : bs.length ≤ 1024 := by omega
    simp [h, this]

theorem fastInput_short (bs : List B) (h : bs.length ≤ 2048) : fastInput bs = bs := by
  unfold fastInput
  by_cases h1 : bs.length > 1024
  · have : bs.length - min 1024 (bs.length - 1024) = 1024 := by omega
    simp [h1, this]
  · have : bs.length ≤ 1024 := by omega
    simp [h1, List.take_of_length_le this]

theorem fastInput_length_long (bs : List B) (h : bs.length > 2048) : (fastInput bs).length = 2048 := by
  unfold fastInput
  have h1 : bs.length > 1024 := by omega
  simp only [h1, if_true, List.length_append, List.length_take, List.length_drop]
  omega

theorem hashData_eq_digest (D : List B → Hh) (bs : List B) : hashData D bs = D bs := by
  simp only [hashData, fastHashData_final, fastHashData_fst]
  by_cases h : bs.length ≤ 1024
  · simp [h, fastInput_short bs (by omega)]
  · simp [h]

theorem fastHashPath_fresh [DecidableEq Hh] (D : List B → Hh) (m : Nat) (bs : List B) :
    (fastHashPath D CacheEnt.fresh m bs).2 = D bs := by
  simp only [fastHashPath, CacheEnt.fresh, fastHashData_final, fastHashData_fst]
  by_cases h : bs.length ≤ 1024
  · simp [h, fastInput_short bs (by omega)]
  · simp [h]

end CS.FsHash
