import Csverif.Model.MockFS
import Csverif.Proofs.Path
/- helper lemmas for Props/C16.lean: the dict, id rendering, the event log -/
namespace CS.MockFS
open CS.Path
open CS.Tree (Kind Err)
set_option linter.unusedVariables false

/-! ### the dict as a finite map -/

theorem dget_nil (k : Str) : dget [] k = none := rfl

theorem dget_cons (e : Str × Nat) (d : List (Str × Nat)) (k : Str) :
    dget (e :: d) k = if e.1 = k then some e.2 else dget d k := by
  simp only [dget, List.find?_cons]
  by_cases h : e.1 = k
  · simp [h]
  · have : (e.1 == k) = false := by simpa using h
    simp [h, this]

theorem dget_append (d1 d2 : List (Str × Nat)) (k : Str) :
    dget (d1 ++ d2) k = (dget d1 k).or (dget d2 k) := by
  induction d1 with
  | nil => simp [dget_nil]
  | cons e d ih =>
    simp only [List.cons_append, dget_cons, ih]
    split <;> simp

theorem dget_ddel (d : List (Str × Nat)) (k k' : Str) :
    dget (ddel d k) k' = if k' = k then none else dget d k' := by
  induction d with
  | nil => simp [ddel, dget_nil]
  | cons e d ih =>
    simp only [ddel, List.filter_cons] at ih ⊢
    by_cases he : e.1 = k
    · subst he
      simp only [beq_self_eq_true, Bool.not_true, Bool.false_eq_true, if_false, ih, dget_cons]
      by_cases hk : k' = e.1
      · simp [hk]
      · have : ¬ e.1 = k' := fun h => hk h.symm
        simp [hk, this]
    · have hb : (e.1 == k) = false := by simpa using he
      simp only [hb, Bool.not_false, if_true, dget_cons, ih]
      by_cases hk : e.1 = k'
      · subst hk; simp [he]
      · simp [hk]

theorem dget_map_upd (d : List (Str × Nat)) (k : Str) (v : Nat) (k' : Str) :
    dget (d.map (updEntry k v)) k' = if k' = k then (dget d k).map (fun _ => v) else dget d k' := by
  induction d with
  | nil => simp only [List.map_nil, dget_nil]; split <;> rfl
  | cons e d ih =>
    rw [List.map_cons, dget_cons, ih, dget_cons, dget_cons]
    by_cases he : e.1 = k
    · have hu : updEntry k v e = (k, v) := by simp [updEntry, he]
      rw [hu]
      by_cases hk : k' = k
      · subst hk; simp [he]
      · have h1 : ¬ k = k' := fun h => hk h.symm
        have h2 : ¬ e.1 = k' := by rw [he]; exact h1
        simp [hk, h1, h2]
    · have hb : (e.1 == k) = false := by simpa using he
      have hu : updEntry k v e = e := by simp [updEntry, hb]
      rw [hu]
      by_cases hk : k' = k
      · subst hk; simp [he]
      · simp [hk]

theorem dget_dset (d : List (Str × Nat)) (k : Str) (v : Nat) (k' : Str) :
    dget (dset d k v) k' = if k' = k then some v else dget d k' := by
  unfold dset
  split
  · rename_i hs
    rw [dget_map_upd]
    by_cases hk : k' = k
    · simp only [hk, if_true]
      cases hd : dget d k with
      | none => rw [hd] at hs; cases hs
      | some x => rfl
    · simp [hk]
  · rename_i hs
    rw [dget_append]
    by_cases hk : k' = k
    · subst hk
      have : dget d k' = none := by simpa using hs
      simp [this, dget_cons]
    · have : ¬ k = k' := fun h => hk h.symm
      simp [hk, dget_cons, dget_nil, this]

theorem mem_of_dget {d : List (Str × Nat)} {k : Str} {h : Nat} (hg : dget d k = some h) : (k, h) ∈ d := by
  induction d with
  | nil => simp [dget_nil] at hg
  | cons e d ih =>
    rw [dget_cons] at hg
    by_cases he : e.1 = k
    · simp only [he, if_true, Option.some.injEq] at hg
      apply List.mem_cons.2
      left
      cases e; simp_all
    · simp only [he, if_false] at hg
      exact List.mem_cons_of_mem _ (ih hg)

/-- every entry is reachable through `dget` under *some* key position; the converse of `mem_of_dget`
    needs distinct keys -/
theorem dget_of_mem {d : List (Str × Nat)} (hn : (d.map (·.1)).Nodup) {k : Str} {h : Nat}
    (hm : (k, h) ∈ d) : dget d k = some h := by
  induction d with
  | nil => simp at hm
  | cons e d ih =>
    rw [dget_cons]
    simp only [List.map_cons, List.nodup_cons] at hn
    rcases List.mem_cons.1 hm with he | hm'
    · subst he; simp
    · have : e.1 ≠ k := by
        intro heq
        apply hn.1
        rw [heq]
        exact List.mem_map.2 ⟨(k, h), hm', rfl⟩
      simp [this, ih hn.2 hm']

theorem keys_ddel (d : List (Str × Nat)) (k : Str) : ((ddel d k).map (·.1)).Nodup ∨ True := Or.inr trivial

theorem nodup_ddel {d : List (Str × Nat)} (hn : (d.map (·.1)).Nodup) (k : Str) :
    ((ddel d k).map (·.1)).Nodup := by
  unfold ddel
  exact (List.Nodup.sublist (List.Sublist.map _ List.filter_sublist) hn)

theorem map_fst_dset_of_some {d : List (Str × Nat)} {k : Str} (v : Nat) :
    (d.map (updEntry k v)).map (·.1) = d.map (·.1) := by
  induction d with
  | nil => rfl
  | cons e d ih =>
    simp only [List.map_cons, ih]
    by_cases he : e.1 = k
    · simp [updEntry, he]
    · have : (e.1 == k) = false := by simpa using he
      simp [updEntry, this]

theorem nodup_dset {d : List (Str × Nat)} (hn : (d.map (·.1)).Nodup) (k : Str) (v : Nat) :
    ((dset d k v).map (·.1)).Nodup := by
  unfold dset
  split
  · rw [map_fst_dset_of_some]; exact hn
  · rename_i hs
    have hnone : dget d k = none := by simpa using hs
    rw [List.map_append, List.nodup_append]
    refine ⟨hn, by simp, ?_⟩
    intro a ha b hb
    simp only [List.map_cons, List.map_nil, List.mem_singleton] at hb
    subst hb
    intro heq
    subst heq
    obtain ⟨e, he, rfl⟩ := List.mem_map.1 ha
    have := dget_of_mem hn (k := e.1) (h := e.2) (by cases e; exact he)
    rw [hnone] at this
    cases this

/-! ### rendering of the id counter -/

theorem idStr_toList (n : Nat) : (toString n).toList = Nat.toDigits 10 n := by
  simp

theorem idStr_injective {a b : Nat} (h : (toString a).toList = (toString b).toList) : a = b := by
  rw [idStr_toList, idStr_toList] at h
  have ha := Nat.ofDigitChars_toDigits (b := 10) (n := a) (by omega) (by omega)
  have hb := Nat.ofDigitChars_toDigits (b := 10) (n := b) (by omega) (by omega)
  rw [h] at ha
  omega

theorem idStr_head (n : Nat) : (toString n).toList.head? ≠ some '/' := by
  rw [idStr_toList]
  intro h
  have hm : '/' ∈ Nat.toDigits 10 n := by
    cases hd : Nat.toDigits 10 n with
    | nil => rw [hd] at h; simp at h
    | cons x xs => rw [hd] at h; simp at h; subst h; simp
  have := Nat.isDigit_of_mem_toDigits (b := 10) (by omega) (by omega) hm
  revert this; decide

/-! ### the event log only grows -/

variable {C H : Type}

theorem registerEvent_events (s : St C) (a : Action) (o : Obj C) (p : Option Str) :
    (registerEvent s a o p).events = s.events ++
      [{ action := a, oid := o.oid, kind := o.kind, path := o.path, prior := p, trashed := !o.live }] := rfl

theorem store_events (c : Cfg) (s : St C) (h : Nat) (o : Obj C) : (store c s h o).events = s.events := rfl
theorem store_heap (c : Cfg) (s : St C) (h : Nat) (o : Obj C) : (store c s h o).heap = s.heap := rfl
theorem store_cursor (c : Cfg) (s : St C) (h : Nat) (o : Obj C) : (store c s h o).cursor = s.cursor := rfl
theorem store_nextId (c : Cfg) (s : St C) (h : Nat) (o : Obj C) : (store c s h o).nextId = s.nextId := rfl

theorem unstore_events {c : Cfg} {s s1 : St C} {o : Obj C} (h : unstore c s o = some s1) : s1.events = s.events := by
  dsimp only [unstore] at h
  split at h
  · cases h
  · cases h; rfl

theorem unstore_heap {c : Cfg} {s s1 : St C} {o : Obj C} (h : unstore c s o = some s1) : s1.heap = s.heap := by
  dsimp only [unstore] at h
  split at h
  · cases h
  · cases h; rfl

/-- `l` extends `k` by appended events -/
def Ext (k l : List MEv) : Prop := ∃ t, l = k ++ t

theorem Ext.refl (k : List MEv) : Ext k k := ⟨[], by simp⟩
theorem Ext.trans {a b d : List MEv} (h1 : Ext a b) (h2 : Ext b d) : Ext a d := by
  obtain ⟨t1, rfl⟩ := h1; obtain ⟨t2, rfl⟩ := h2; exact ⟨t1 ++ t2, by simp⟩
theorem Ext.append (k t : List MEv) : Ext k (k ++ t) := ⟨t, rfl⟩

theorem renameSingle_ext (c : Cfg) (fl : Flavour) (s : St C) (h : Nat) (dest : Str) (ev : Bool) :
    Ext s.events (renameSingle c fl s h dest ev).1.events := by
  cases hh : s.heap[h]? with
  | none => simp only [renameSingle, hh]; exact Ext.refl _
  | some o =>
    cases hu : unstore c s o with
    | none => simp only [renameSingle, hh, hu]; exact Ext.refl _
    | some s1 =>
      simp only [renameSingle, hh, hu]
      cases ev
      · simp only [Bool.false_eq_true, if_false, store_events, unstore_events hu]; exact Ext.refl _
      · simp only [if_true, registerEvent_events, store_events, unstore_events hu]; exact Ext.append _ _

theorem renameSingle_noevent (c : Cfg) (fl : Flavour) (s : St C) (h : Nat) (dest : Str) :
    (renameSingle c fl s h dest false).1.events = s.events := by
  cases hh : s.heap[h]? with
  | none => simp only [renameSingle, hh]
  | some o =>
    cases hu : unstore c s o with
    | none => simp only [renameSingle, hh, hu]
    | some s1 =>
      simp only [renameSingle, hh, hu, Bool.false_eq_true, if_false, store_events, unstore_events hu]

/-- one iteration of the loop in `renameChildren` -/
def childStep (c : Cfg) (fl : Flavour) (op np : Str) (acc : St C × Option Err) (h : Nat) : St C × Option Err :=
  match acc with
  | (s, some e) => (s, some e)
  | (s, none) =>
    match s.heap[h]? with
    | none => (s, none)
    | some o =>
      if (isSubpath c op o.path true).truthy then
        match replacePath c o.path op np with
        | .error _ => (s, some .other)
        | .ok np' => renameSingle c fl s h np' false
      else (s, none)

theorem renameChildren_eq (c : Cfg) (fl : Flavour) (s : St C) (op np : Str) :
    renameChildren c fl s op np = (fsObjects s).eraseDups.foldl (childStep c fl op np) (s, none) := rfl

theorem childStep_events (c : Cfg) (fl : Flavour) (op np : Str) (acc : St C × Option Err) (h : Nat) :
    (childStep c fl op np acc h).1.events = acc.1.events := by
  obtain ⟨s0, e0⟩ := acc
  cases e0 with
  | some e => rfl
  | none =>
    cases hh : s0.heap[h]? with
    | none => simp only [childStep, hh]
    | some o =>
      simp only [childStep, hh]
      split
      · split
        · rfl
        · exact renameSingle_noevent _ _ _ _ _
      · rfl

theorem foldl_childStep_events (c : Cfg) (fl : Flavour) (op np : Str) (l : List Nat) (acc : St C × Option Err) :
    (l.foldl (childStep c fl op np) acc).1.events = acc.1.events := by
  induction l generalizing acc with
  | nil => rfl
  | cons x xs ih => rw [List.foldl_cons, ih, childStep_events]

theorem renameChildren_events (c : Cfg) (fl : Flavour) (s : St C) (op np : Str) :
    (renameChildren c fl s op np).1.events = s.events := by
  rw [renameChildren_eq, foldl_childStep_events]

theorem delete_ext (c : Cfg) (hc : HashCfg C H) (s : St C) (oid : Str) :
    Ext s.events (delete c hc s oid).1.events := by
  cases hg : getObj s oid with
  | none => simp only [delete, hg]; exact Ext.refl _
  | some ho =>
    obtain ⟨h, o⟩ := ho
    simp only [delete, hg]
    split
    · exact Ext.refl _
    · split
      · exact Ext.refl _
      · exact Ext.append _ _

theorem allocStore_events (c : Cfg) (fl : Flavour) (s : St C) (p : Str) (k : Kind) (x : Option C) :
    (allocStore c fl s p k x).1.events = s.events := rfl

theorem resolveConflict_ext (c : Cfg) (hc : HashCfg C H) (s : St C) (o : Obj C) (cf : Option (Nat × Obj C)) :
    Ext s.events (resolveConflict c hc s o cf).1.events := by
  cases cf with
  | none => exact Ext.refl _
  | some hco =>
    obtain ⟨ch, co⟩ := hco
    simp only [resolveConflict]
    split
    · split
      · exact Ext.refl _
      · split
        · split
          · exact Ext.refl _
          · have := delete_ext c hc s co.oid
            split
            · rename_i s' e heq; rw [heq] at this; exact this
            · rename_i s' r heq; rw [heq] at this; exact this
        · exact Ext.refl _
    · exact Ext.refl _

theorem renameMove_ext (c : Cfg) (fl : Flavour) (s : St C) (h : Nat) (o : Obj C) (p : Str) :
    Ext s.events (renameMove c fl s h o p).1.events := by
  simp only [renameMove]
  split
  · exact renameSingle_ext _ _ _ _ _ _
  · have hrc := renameChildren_events c fl s o.path p
    split
    · rename_i s' e heq
      rw [heq] at hrc; simp only at hrc; rw [hrc]; exact Ext.refl _
    · rename_i s' heq
      rw [heq] at hrc; simp only at hrc
      have := renameSingle_ext c fl s' h p true
      rw [hrc] at this; exact this

theorem rename_ext (c : Cfg) (fl : Flavour) (hc : HashCfg C H) (s : St C) (oid p : Str) :
    Ext s.events (rename c fl hc s oid p).1.events := by
  cases hg : getObj s oid with
  | none => simp only [rename, hg]; exact Ext.refl _
  | some ho =>
    obtain ⟨h, o⟩ := ho
    simp only [rename, hg]
    split
    · exact Ext.refl _
    · split
      · exact Ext.refl _
      · have h1 := resolveConflict_ext c hc s o (conflictOf c s oid p)
        split
        · rename_i s1 e heq; rw [heq] at h1; exact h1
        · rename_i s1 heq
          rw [heq] at h1
          simp only at h1 ⊢
          split
          · exact h1
          · have h2 := renameMove_ext c fl s1 h ((s1.heap[h]?).getD o) p
            split
            · rename_i s2 e heq2; rw [heq2] at h2; exact h1.trans h2
            · rename_i s2 heq2; rw [heq2] at h2; exact h1.trans h2

theorem step_ext (c : Cfg) (fl : Flavour) (hc : HashCfg C H) (s : St C) (op : Op C) :
    Ext s.events (step c fl hc s op).1.events := by
  cases op with
  | create p d =>
    simp only [step, create]
    split
    · exact Ext.refl _
    · split
      · exact Ext.refl _
      · split
        · exact Ext.refl _
        · exact Ext.append _ _
  | mkdir p =>
    simp only [step, mkdir]
    split
    · exact Ext.refl _
    · split
      · exact Ext.refl _
      · split
        · split <;> exact Ext.refl _
        · exact Ext.append _ _
  | upload o d =>
    cases hg : getObj s o with
    | none => simp only [step, upload, hg]; exact Ext.refl _
    | some ho =>
      obtain ⟨h, ob⟩ := ho
      simp only [step, upload, hg]
      split
      · exact Ext.refl _
      · split
        · exact Ext.refl _
        · exact Ext.append _ _
  | download o =>
    cases hg : getObj s o with
    | none => simp only [step, download, hg]; exact Ext.refl _
    | some ho =>
      obtain ⟨h, ob⟩ := ho
      simp only [step, download, hg]
      split
      · exact Ext.refl _
      · split <;> exact Ext.refl _
  | rename o p => exact rename_ext c fl hc s o p
  | delete o => exact delete_ext c hc s o
  | events => exact Ext.refl _
  | setCursor v => cases v <;> exact Ext.refl _
  | _ => exact Ext.refl _

end CS.MockFS
