import Csverif.Model.Sched
import Mathlib.Tactic.Linarith
import Mathlib.Tactic.Ring
import Mathlib.Algebra.Order.Field.Rat
/-
Helper lemmas for C17 (Model/Sched.lean): the sort key is a total preorder, the stable insertion
sort is a sorted permutation, and "first eligible element of the sorted list" equals "first
key-minimal element of the eligible sublist" (`find_sortKey`).  Entry-level algebra of punting.
-/
namespace CS.Sched

/-! ## the key order -/

theorem keyLt_iff (a b : Entry) :
    keyLt a b = true ↔ a.priority < b.priority ∨ (a.priority = b.priority ∧ keyTime a < keyTime b) := by
  simp [keyLt]

theorem keyLe_iff (a b : Entry) :
    keyLe a b = true ↔ a.priority < b.priority ∨ (a.priority = b.priority ∧ keyTime a ≤ keyTime b) := by
  simp only [keyLe, Bool.not_eq_true', ← Bool.not_eq_true, keyLt_iff]
  constructor
  · intro h
    rcases lt_trichotomy a.priority b.priority with h1 | h1 | h1
    · exact Or.inl h1
    · refine Or.inr ⟨h1, ?_⟩
      by_contra h2
      exact h (Or.inr ⟨h1.symm, lt_of_not_ge h2⟩)
    · exact absurd (Or.inl h1) h
  · rintro (h | ⟨h1, h2⟩) (h3 | ⟨h3, h4⟩)
    · exact lt_asymm h h3
    · rw [h3] at h; exact lt_irrefl _ h
    · rw [h1] at h3; exact lt_irrefl _ h3
    · exact absurd h4 (not_lt_of_ge h2)

theorem keyLe_refl (a : Entry) : keyLe a a = true := by
  rw [keyLe_iff]; exact Or.inr ⟨rfl, le_refl _⟩

theorem keyLe_total (a b : Entry) : keyLe a b = true ∨ keyLe b a = true := by
  simp only [keyLe_iff]
  rcases lt_trichotomy a.priority b.priority with h | h | h
  · exact Or.inl (Or.inl h)
  · rcases le_total (keyTime a) (keyTime b) with h2 | h2
    · exact Or.inl (Or.inr ⟨h, h2⟩)
    · exact Or.inr (Or.inr ⟨h.symm, h2⟩)
  · exact Or.inr (Or.inl h)

theorem keyLe_trans {a b c : Entry} (h1 : keyLe a b = true) (h2 : keyLe b c = true) : keyLe a c = true := by
  simp only [keyLe_iff] at *
  rcases h1 with h1 | ⟨h1, h1'⟩ <;> rcases h2 with h2 | ⟨h2, h2'⟩
  · exact Or.inl (lt_trans h1 h2)
  · exact Or.inl (h2 ▸ h1)
  · exact Or.inl (h1 ▸ h2)
  · exact Or.inr ⟨h1.trans h2, le_trans h1' h2'⟩

theorem keyLt_of_not_keyLe {a b : Entry} (h : keyLe a b = false) : keyLt b a = true := by
  simpa [keyLe] using h

theorem not_keyLt_of_keyLe {a b : Entry} (h : keyLe a b = true) : keyLt b a = false := by
  simpa [keyLe] using h

/-! ## the sort -/

abbrev Sorted (l : List Entry) : Prop := l.Pairwise (fun a b => keyLe a b = true)

theorem insertKey_perm (a : Entry) (l : List Entry) : (insertKey a l).Perm (a :: l) := by
  induction l with
  | nil => exact List.Perm.refl _
  | cons b l ih =>
    simp only [insertKey]
    split
    · exact List.Perm.refl _
    · exact (List.Perm.cons b ih).trans (List.Perm.swap a b l)

theorem sortKey_perm (l : List Entry) : (sortKey l).Perm l := by
  induction l with
  | nil => exact List.Perm.refl _
  | cons a l ih => exact (insertKey_perm a _).trans (List.Perm.cons a ih)

theorem mem_sortKey {l : List Entry} {e : Entry} : e ∈ sortKey l ↔ e ∈ l := (sortKey_perm l).mem_iff

theorem insertKey_sorted (a : Entry) (l : List Entry) (h : Sorted l) : Sorted (insertKey a l) := by
  induction l with
  | nil => simp [insertKey, Sorted]
  | cons b l ih =>
    simp only [insertKey]
    cases hab : keyLe a b with
    | true =>
      simp only [if_true]
      refine List.Pairwise.cons ?_ h
      intro x hx
      rcases List.mem_cons.1 hx with rfl | hx
      · exact hab
      · exact keyLe_trans hab ((List.pairwise_cons.1 h).1 x hx)
    | false =>
      simp only [Bool.false_eq_true, if_false]
      have hba : keyLe b a = true := (keyLe_total a b).resolve_left (by simp [hab])
      refine List.Pairwise.cons ?_ (ih (List.pairwise_cons.1 h).2)
      intro x hx
      rcases List.mem_cons.1 ((insertKey_perm a l).mem_iff.1 hx) with rfl | hx
      · exact hba
      · exact (List.pairwise_cons.1 h).1 x hx

theorem sortKey_sorted (l : List Entry) : Sorted (sortKey l) := by
  induction l with
  | nil => simp [sortKey, Sorted]
  | cons a l ih => exact insertKey_sorted a _ ih

/-! ## first minimal element -/

/-- the first (in list order) element whose key is minimal -/
def pickFirstMin : List Entry → Option Entry
  | [] => none
  | a :: l =>
    match pickFirstMin l with
    | none => some a
    | some b => if keyLe a b then some a else some b

theorem pickFirstMin_eq_none {l : List Entry} : pickFirstMin l = none ↔ l = [] := by
  cases l with
  | nil => simp [pickFirstMin]
  | cons a l =>
    simp only [pickFirstMin, reduceCtorEq, iff_false]
    cases pickFirstMin l with
    | none => simp
    | some b => simp only; split <;> simp

theorem pickFirstMin_mem {l : List Entry} {e : Entry} (h : pickFirstMin l = some e) : e ∈ l := by
  induction l generalizing e with
  | nil => simp [pickFirstMin] at h
  | cons a l ih =>
    simp only [pickFirstMin] at h
    cases hp : pickFirstMin l with
    | none => rw [hp] at h; simp at h; simp [h]
    | some b =>
      rw [hp] at h
      simp only at h
      split at h
      · simp at h; simp [h]
      · simp at h; subst h; exact List.mem_cons_of_mem _ (ih hp)

theorem pickFirstMin_le {l : List Entry} {e : Entry} (h : pickFirstMin l = some e) :
    ∀ x ∈ l, keyLe e x = true := by
  induction l generalizing e with
  | nil => simp
  | cons a l ih =>
    simp only [pickFirstMin] at h
    cases hp : pickFirstMin l with
    | none =>
      rw [hp] at h; simp at h; subst h
      rw [pickFirstMin_eq_none.1 hp]
      intro x hx; simp at hx; subst hx; exact keyLe_refl _
    | some b =>
      rw [hp] at h
      simp only at h
      cases hab : keyLe a b with
      | true =>
        simp [hab] at h; subst h
        intro x hx
        rcases List.mem_cons.1 hx with rfl | hx
        · exact keyLe_refl _
        · exact keyLe_trans hab (ih hp x hx)
      | false =>
        have he : b = e := by simpa [hab] using h
        subst he
        intro x hx
        rcases List.mem_cons.1 hx with hxa | hx
        · rw [hxa]; exact (keyLe_total a b).resolve_left (by simp [hab])
        · exact ih hp x hx

/-- everything in front of the picked element has a strictly larger key -/
theorem pickFirstMin_first {l : List Entry} {e : Entry} (h : pickFirstMin l = some e) :
    ∃ pre post, l = pre ++ e :: post ∧ ∀ x ∈ pre, keyLt e x = true := by
  induction l generalizing e with
  | nil => simp [pickFirstMin] at h
  | cons a l ih =>
    simp only [pickFirstMin] at h
    cases hp : pickFirstMin l with
    | none =>
      rw [hp] at h; simp at h; subst h
      exact ⟨[], l, rfl, by simp⟩
    | some b =>
      rw [hp] at h
      simp only at h
      cases hab : keyLe a b with
      | true =>
        simp [hab] at h; subst h
        exact ⟨[], l, rfl, by simp⟩
      | false =>
        simp [hab] at h; subst h
        obtain ⟨pre, post, hl, hpre⟩ := ih hp
        refine ⟨a :: pre, post, by rw [hl]; rfl, ?_⟩
        intro x hx
        rcases List.mem_cons.1 hx with rfl | hx
        · exact keyLt_of_not_keyLe hab
        · exact hpre x hx

/-- searching a sorted list after a stable insertion -/
theorem find_insertKey (p : Entry → Bool) (a : Entry) (s : List Entry) (hs : Sorted s) :
    (insertKey a s).find? p =
      match s.find? p with
      | none => if p a then some a else none
      | some b => if p a && keyLe a b then some a else some b := by
  induction s with
  | nil => simp [insertKey, List.find?]
  | cons c s ih =>
    have hc := List.pairwise_cons.1 hs
    simp only [insertKey]
    cases hac : keyLe a c with
    | true =>
      simp only [if_true]
      cases hpa : p a with
      | false =>
        simp only [List.find?_cons, hpa, Bool.false_and, Bool.false_eq_true, if_false]
        cases hpc : p c with
        | true => rfl
        | false => simp only; cases s.find? p <;> rfl
      | true =>
        simp only [List.find?_cons, hpa]
        cases hpc : p c with
        | true => simp [hac]
        | false =>
          simp only
          cases hf : s.find? p with
          | none => simp
          | some b =>
            have hb : b ∈ s := List.mem_of_find?_eq_some hf
            simp [keyLe_trans hac (hc.1 b hb)]
    | false =>
      simp only [Bool.false_eq_true, if_false, List.find?_cons]
      cases hpc : p c with
      | true => simp [hac]
      | false => simp only; exact ih hc.2

theorem find_sortKey (p : Entry → Bool) (l : List Entry) :
    (sortKey l).find? p = pickFirstMin (l.filter p) := by
  induction l with
  | nil => simp [sortKey, pickFirstMin]
  | cons a l ih =>
    simp only [sortKey]
    rw [find_insertKey p a _ (sortKey_sorted l), ih]
    cases hpa : p a with
    | false =>
      simp only [List.filter_cons, hpa, Bool.false_eq_true, if_false, Bool.false_and]
      cases pickFirstMin (List.filter p l) <;> rfl
    | true =>
      simp only [List.filter_cons, hpa, if_true, Bool.true_and, pickFirstMin]

theorem change_eq (P : List Entry) (now age : Rat) :
    change P now age = (sortKey P).find? (fun e => eligible e now age) := by
  unfold change
  cases P with
  | nil => simp [sortKey]
  | cons a l => simp

/-! ## eligibility -/

theorem truthy_some {x : Rat} : truthy (some x) = true ↔ x ≠ 0 := by simp [truthy]

theorem sideAged_iff (c : Option Rat) (t : Rat) :
    sideAged c t = true ↔ ∃ x, c = some x ∧ x ≠ 0 ∧ x ≤ t := by
  cases c with
  | none => simp [sideAged, truthy]
  | some x =>
    simp only [sideAged, truthy, orZero, Bool.and_eq_true, bne_iff_ne, ne_eq,
      Option.some.injEq, exists_eq_left']
    exact and_congr_right (fun _ => decide_eq_true_iff)

theorem eligible_iff (e : Entry) (now age : Rat) :
    eligible e now age = true ↔
      sideAged e.l.changed (now - age) = true ∨ sideAged e.r.changed (now - age) = true ∨ e.priority < 0 := by
  simp [eligible, or_assoc]

theorem sideAged_mono {c : Option Rat} {t t' : Rat} (h : sideAged c t = true) (ht : t ≤ t') :
    sideAged c t' = true := by
  rw [sideAged_iff] at *
  obtain ⟨x, h1, h2, h3⟩ := h
  exact ⟨x, h1, h2, le_trans h3 ht⟩

/-! ## sides -/

@[simp] theorem side_setSide_same (e : Entry) (s : Bool) (x : Side) : (e.setSide s x).side s = x := by
  cases s <;> rfl

@[simp] theorem side_setSide_not (e : Entry) (s : Bool) (x : Side) : (e.setSide s x).side (!s) = e.side (!s) := by
  cases s <;> rfl

@[simp] theorem side_setSide_not' (e : Entry) (s : Bool) (x : Side) : (e.setSide (!s) x).side s = e.side s := by
  cases s <;> rfl

@[simp] theorem setSide_id (e : Entry) (s : Bool) (x : Side) : (e.setSide s x).id = e.id := by
  cases s <;> rfl

@[simp] theorem setSide_priority (e : Entry) (s : Bool) (x : Side) : (e.setSide s x).priority = e.priority := by
  cases s <;> rfl

theorem setSide_side (e : Entry) (s : Bool) : e.setSide s (e.side s) = e := by
  cases s <;> rfl

/-! ## `ent[s].changed = val`, one entry -/

@[simp] theorem setChangedA_id (e : Entry) (s : Bool) (v : Option Rat) : (setChangedA e s v).1.id = e.id := by
  simp only [setChangedA]; split <;> simp

@[simp] theorem setChangedA_priority (e : Entry) (s : Bool) (v : Option Rat) :
    (setChangedA e s v).1.priority = e.priority := by
  simp only [setChangedA]; split <;> simp

@[simp] theorem setChangedA_acts (e : Entry) (s : Bool) (v : Option Rat) : (setChangedA e s v).2 = [hookKeep e s v] := rfl

/-- the written side: only `changed` moves -/
theorem setChangedA_self (e : Entry) (s : Bool) (v : Option Rat) :
    (setChangedA e s v).1.side s = { e.side s with changed := v } := by
  simp only [setChangedA]; split <;> simp

/-- the other side: untouched, or (id-less, stale flag, entry leaves the changeset) its flag is zeroed -/
theorem setChangedA_other (e : Entry) (s : Bool) (v : Option Rat) :
    (setChangedA e s v).1.side (!s) = e.side (!s) ∨
    (hookKeep e s v = false ∧ truthy (e.side (!s)).changed = true ∧ truthyS (e.side (!s)).oid = false ∧
      (setChangedA e s v).1.side (!s) = { e.side (!s) with changed := some 0 }) := by
  simp only [setChangedA]
  split
  · rename_i h
    simp only [Bool.and_eq_true, Bool.not_eq_true', Bool.not_eq_eq_eq_not, Bool.not_true] at h
    right
    refine ⟨h.1, h.2.1, h.2.2, ?_⟩
    simp
  · left; simp

/-- a side that has an id is never touched by a write to the other side -/
theorem setChangedA_other_oid (e : Entry) (s : Bool) (v : Option Rat) (h : truthyS (e.side (!s)).oid = true) :
    (setChangedA e s v).1.side (!s) = e.side (!s) := by
  rcases setChangedA_other e s v with h1 | ⟨_, _, h3, _⟩
  · exact h1
  · rw [h] at h3; exact absurd h3 (by simp)

theorem setChangedA_other_oid' (e : Entry) (s : Bool) (v : Option Rat) (h : truthyS (e.side s).oid = true) :
    (setChangedA e (!s) v).1.side s = e.side s := by
  have := setChangedA_other_oid e (!s) v (by simpa using h)
  simpa using this

/-! ## punting, one entry -/

@[simp] theorem bumpA_id (p : Rat × Rat) (x : Entry × Acts) (s : Bool) : (bumpA p x s).1.id = x.1.id := by
  simp only [bumpA]; split <;> simp

@[simp] theorem bumpA_priority (p : Rat × Rat) (x : Entry × Acts) (s : Bool) : (bumpA p x s).1.priority = x.1.priority := by
  simp only [bumpA]; split <;> simp

theorem setPriorityA_priority (p : Rat × Rat) (e : Entry) (v : Rat) : (setPriorityA p e v).1.priority = v := by
  simp only [setPriorityA]
  split
  · rename_i h; simpa using h
  · rfl

@[simp] theorem setPriorityA_id (p : Rat × Rat) (e : Entry) (v : Rat) : (setPriorityA p e v).1.id = e.id := by
  simp only [setPriorityA]
  split
  · rfl
  · split <;> simp

theorem puntE_priority (p : Rat × Rat) (e : Entry) : (puntE p e).priority = e.priority + 1 :=
  setPriorityA_priority p e _

theorem puntE_id (p : Rat × Rat) (e : Entry) : (puntE p e).id = e.id := setPriorityA_id p e _

theorem puntK_priority (p : Rat × Rat) (k : Nat) (e : Entry) : (puntK p k e).priority = e.priority + k := by
  induction k generalizing e with
  | zero => simp [puntK]
  | succ k ih => simp only [puntK, ih, puntE_priority]; push_cast; ring

theorem puntK_id (p : Rat × Rat) (k : Nat) (e : Entry) : (puntK p k e).id = e.id := by
  induction k generalizing e with
  | zero => rfl
  | succ k ih => simp only [puntK, ih, puntE_id]

/-- shifting side `s` itself (it has an id and a positive stamp) -/
theorem bumpA_self (p : Rat × Rat) (x : Entry × Acts) (s : Bool) (c : Rat)
    (hc : (x.1.side s).changed = some c) (hpos : 0 < c) :
    (bumpA p x s).1.side s = { x.1.side s with changed := some (c + (if s then p.2 else p.1)) } := by
  have ht : truthy (some c) = true := by simp [truthy]; exact ne_of_gt hpos
  simp only [bumpA, hc, ht, if_true, setChangedA_self, orZero]

/-- shifting the other side leaves a side that has an id alone -/
theorem bumpA_other (p : Rat × Rat) (x : Entry × Acts) (s : Bool) (ho : truthyS (x.1.side s).oid = true) :
    (bumpA p x (!s)).1.side s = x.1.side s := by
  simp only [bumpA]
  split
  · exact setChangedA_other_oid' x.1 s _ ho
  · rfl

/-- one punt moves a positive change time of a side that has an id forward by `0` or by `punt_secs`,
    and touches nothing else of that side -/
theorem puntE_side (p : Rat × Rat) (e : Entry) (s : Bool) (c : Rat) (hc : (e.side s).changed = some c) (hpos : 0 < c)
    (ho : truthyS (e.side s).oid = true) :
    (puntE p e).side s = e.side s ∨
    (puntE p e).side s = { e.side s with changed := some (c + (if s then p.2 else p.1)) } := by
  have hne : (e.priority == e.priority + 1) = false := by
    simp only [beq_eq_false_iff_ne, ne_eq]; intro h; linarith
  simp only [puntE, setPriorityE, setPriorityA, hne, Bool.false_eq_true, if_false]
  split
  · right
    cases s with
    | false =>
      have h1 := bumpA_self p (e, []) false c hc hpos
      have h2 := bumpA_other p (bumpA p (e, []) false) false (by rw [h1]; exact ho)
      show ((bumpA p (bumpA p (e, []) false) true).1.side false) = _
      simp only [Bool.not_false] at h2
      rw [h2, h1]
    | true =>
      have h1 := bumpA_other p (e, []) true ho
      simp only [Bool.not_true] at h1
      have h2 := bumpA_self p (bumpA p (e, []) false) true c (by rw [h1]; exact hc) hpos
      show ((bumpA p (bumpA p (e, []) false) true).1.side true) = _
      rw [h2, h1]
  · left; cases s <;> rfl

theorem puntK_side (p : Rat × Rat) (s : Bool) (hp : 0 ≤ (if s then p.2 else p.1)) (k : Nat) (e : Entry) (c : Rat)
    (hc : (e.side s).changed = some c) (hpos : 0 < c) (ho : truthyS (e.side s).oid = true) :
    ∃ j : Nat, j ≤ k ∧ ((puntK p k e).side s).changed = some (c + j * (if s then p.2 else p.1)) := by
  induction k generalizing e c with
  | zero => exact ⟨0, le_refl _, by simp [puntK, hc]⟩
  | succ k ih =>
    rcases puntE_side p e s c hc hpos ho with h | h
    · obtain ⟨j, hj, hj'⟩ := ih (puntE p e) c (by rw [h]; exact hc) hpos (by rw [h]; exact ho)
      exact ⟨j, Nat.le_succ_of_le hj, by simpa [puntK] using hj'⟩
    · obtain ⟨j, hj, hj'⟩ := ih (puntE p e) _ (by rw [h]) (by linarith) (by rw [h]; exact ho)
      refine ⟨j + 1, Nat.succ_le_succ hj, ?_⟩
      simp only [puntK, hj']
      congr 1
      push_cast
      ring

/-! ## state-level lookups -/

theorem get?_id {st : St} {id : Nat} {e : Entry} (h : st.get? id = some e) : e.id = id := by
  have := List.find?_some h
  simpa using this

theorem get?_mem {st : St} {id : Nat} {e : Entry} (h : st.get? id = some e) : e ∈ st.ents :=
  List.mem_of_find?_eq_some h

theorem get?_put_same (st : St) (e e' : Entry) (h : st.get? e'.id = some e) : (st.put e').get? e'.id = some e' := by
  simp only [St.get?, St.put] at *
  generalize st.ents = l at h ⊢
  induction l with
  | nil => simp at h
  | cons a l ih =>
    simp only [List.map_cons, List.find?_cons] at h ⊢
    cases hb : (a.id == e'.id) with
    | true => simp
    | false => simp only [hb, Bool.false_eq_true, if_false] at h ⊢; exact ih h

theorem get?_put_other (st : St) (e' : Entry) (j : Nat) (hj : j ≠ e'.id) : (st.put e').get? j = st.get? j := by
  simp only [St.get?, St.put]
  induction st.ents with
  | nil => rfl
  | cons a l ih =>
    simp only [List.map_cons, List.find?_cons]
    cases hb : (a.id == e'.id) with
    | true =>
      have ha : a.id = e'.id := by simpa using hb
      have h1 : (e'.id == j) = false := by simp [Ne.symm hj]
      have h2 : (a.id == j) = false := by rw [ha]; exact h1
      simp only [if_true, h1, h2]; exact ih
    | false =>
      simp only [Bool.false_eq_true, if_false]
      cases (a.id == j) with
      | true => rfl
      | false => exact ih

@[simp] theorem get?_act (st : St) (id j : Nat) (a : Acts) : (st.act id a).get? j = st.get? j := rfl

/-- after a hooked write on entry `id`: that entry is the written one -/
theorem withE_get?_same (st : St) (id : Nat) (f : Entry → Entry × Acts) (e : Entry)
    (h : st.get? id = some e) (hf : (f e).1.id = e.id) :
    (st.withE id f).get? id = some (f e).1 := by
  have hid := get?_id h
  simp only [St.withE, h, get?_act]
  have := get?_put_same st e (f e).1 (by rw [hf, hid]; exact h)
  rwa [hf, hid] at this

/-- … and every other entry is untouched -/
theorem withE_get?_other (st : St) (id j : Nat) (f : Entry → Entry × Acts)
    (hf : ∀ e, (f e).1.id = e.id) (hj : j ≠ id) :
    (st.withE id f).get? j = st.get? j := by
  simp only [St.withE]
  cases h : st.get? id with
  | none => rfl
  | some e =>
    simp only [get?_act]
    exact get?_put_other st _ j (by rw [hf, get?_id h]; exact hj)

theorem withE_none (st : St) (id : Nat) (f : Entry → Entry × Acts) (h : st.get? id = none) : st.withE id f = st := by
  simp only [St.withE, h]

/-! ## changeset membership after replaying actions -/

theorem mem_addId (p : List Nat) (id j : Nat) : j ∈ addId p id ↔ j ∈ p ∨ j = id := by
  simp only [addId]
  split
  · rename_i h
    have : id ∈ p := by simpa using h
    constructor
    · exact Or.inl
    · rintro (h | rfl)
      · exact h
      · exact this
  · simp

theorem mem_discardId (p : List Nat) (id j : Nat) : j ∈ discardId p id ↔ j ∈ p ∧ j ≠ id := by
  simp [discardId]

theorem getLast?_getD_cons (y : Bool) (a : List Bool) (d d' : Bool) :
    ((y :: a).getLast?).getD d = ((y :: a).getLast?).getD d' := by
  cases h : (y :: a).getLast? with
  | none => simp at h
  | some v => rfl

/-- membership after a run of actions: the last action decides for `id`, nothing changes for the others -/
theorem mem_foldl_acts (a : Acts) (p : List Nat) (id j : Nat) :
    j ∈ a.foldl (fun p a => if a then addId p id else discardId p id) p ↔
      (if j = id then (a.getLast?.getD (decide (id ∈ p)) = true) else j ∈ p) := by
  induction a generalizing p with
  | nil => by_cases h : j = id <;> simp [h]
  | cons x a ih =>
    simp only [List.foldl_cons]
    rw [ih]
    by_cases h : j = id
    · simp only [h, if_true]
      cases a with
      | nil =>
        cases x <;> simp [mem_addId, mem_discardId]
      | cons y a => rw [List.getLast?_cons_cons, getLast?_getD_cons y a _ (decide (id ∈ p))]
    · simp only [h, if_false]
      cases x
      · simp [mem_discardId, h]
      · simp [mem_addId, h]

theorem mem_act (st : St) (id j : Nat) (a : Acts) :
    j ∈ (st.act id a).pending ↔ (if j = id then (a.getLast?.getD (decide (id ∈ st.pending)) = true) else j ∈ st.pending) :=
  mem_foldl_acts a st.pending id j

end CS.Sched
