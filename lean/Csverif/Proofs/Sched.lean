import Csverif.Model.Sched
import Mathlib.Tactic.Linarith
import Mathlib.Tactic.Ring
import Mathlib.Algebra.Order.Field.Rat
/-
Helper lemmas for C17 (Model/Sched.lean): the sort key is a total preorder, the stable insertion
sort is a sorted permutation, and "first eligible element of the sorted list" equals "first
key-minimal element of the eligible sublist" (`find_sortKey`).  Entry-level algebra of punting.
-/
namespace CS.Sched

/-! ## the key order -/

theorem keyLt_iff (a b : Entry) :
    keyLt a b = true ↔ a.priority < b.priority ∨ (a.priority = b.priority ∧ keyTime a < keyTime b) := by
  simp [keyLt]

theorem keyLe_iff (a b : Entry) :
    keyLe a b = true ↔ a.priority < b.priority ∨ (a.priority = b.priority ∧ keyTime a ≤ keyTime b) := by
  simp only [keyLe, Bool.not_eq_true', ← Bool.not_eq_true, keyLt_iff]
  constructor
  · intro h
    rcases lt_trichotomy a.priority b.priority with h1 | h1 | h1
    · exact Or.inl h1
    · refine Or.inr ⟨h1, ?_⟩
      by_contra h2
      exact h (Or.inr ⟨h1.symm, lt_of_not_ge h2⟩)
    · exact absurd (Or.inl h1) h
  · rintro (h | ⟨h1, h2⟩) (h3 | ⟨h3, h4⟩)
    · exact lt_asymm h h3
    · rw [h3] at h; exact lt_irrefl _ h
    · rw [h1] at h3; exact lt_irrefl _ h3
    · exact absurd h4 (not_lt_of_ge h2)

theorem keyLe_refl (a : Entry) : keyLe a a = true := by
  rw [keyLe_iff]; exact Or.inr ⟨rfl, le_refl _⟩

theorem keyLe_total (a b : Entry) : keyLe a b = true ∨ keyLe b a = true := by
  simp only [keyLe_iff]
  rcases lt_trichotomy a.priority b.priority with h | h | h
  · exact Or.inl (Or.inl h)
  · rcases le_total (keyTime a) (keyTime b) with h2 | h2
    · exact Or.inl (Or.inr ⟨h, h2⟩)
    · exact Or.inr (Or.inr ⟨h.symm, h2⟩)
  · exact Or.inr (Or.inl h)

theorem keyLe_trans {a b c : Entry} (h1 : keyLe a b = true) (h2 : keyLe b c = true) : keyLe a c = true := by
  simp only [keyLe_iff] at *
  rcases h1 with h1 | ⟨h1, h1'⟩ <;> rcases h2 with h2 | ⟨h2, h2'⟩
  · exact Or.inl (lt_trans h1 h2)
  · exact Or.inl (h2 ▸ h1)
  · exact Or.inl (h1 ▸ h2)
  · exact Or.inr ⟨h1.trans h2, le_trans h1' h2'⟩

theorem keyLt_of_not_keyLe {a b : Entry} (h : keyLe a b = false) : keyLt b a = true := by
  simpa [keyLe] using h

theorem not_keyLt_of_keyLe {a b : Entry} (h : keyLe a b = true) : keyLt b a = false := by
  simpa [keyLe] using h

/-! ## the sort -/

abbrev Sorted (l : List Entry) : Prop := l.Pairwise (fun a b => keyLe a b = true)

theorem insertKey_perm (a : Entry) (l : List Entry) : (insertKey a l).Perm (a :: l) := by
  induction l with
  | nil => exact List.Perm.refl _
  | cons b l ih =>
    simp only [insertKey]
    split
    · exact List.Perm.refl _
    · exact (List.Perm.cons b ih).trans (List.Perm.swap a b l)

theorem sortKey_perm (l : List Entry) : (sortKey l).Perm l := by
  induction l with
  | nil => exact List.Perm.refl _
  | cons a l ih => exact (insertKey_perm a _).trans (List.Perm.cons a ih)

theorem mem_sortKey {l : List Entry} {e : Entry} : e ∈ sortKey l ↔ e ∈ l := (sortKey_perm l).mem_iff

theorem insertKey_sorted (a : Entry) (l : List Entry) (h : Sorted l) : Sorted (insertKey a l) := by
  induction l with
  | nil => simp [insertKey, Sorted]
  | cons b l ih =>
    simp only [insertKey]
    cases hab : keyLe a b with
    | true =>
      simp only [if_true]
      refine List.Pairwise.cons ?_ h
      intro x hx
      rcases List.mem_cons.1 hx with rfl | hx
      · exact hab
      · exact keyLe_trans hab ((List.pairwise_cons.1 h).1 x hx)
    | false =>
      simp only [Bool.false_eq_true, if_false]
      have hba : keyLe b a = true := (keyLe_total a b).resolve_left (by simp [hab])
      refine List.Pairwise.cons ?_ (ih (List.pairwise_cons.1 h).2)
      intro x hx
      rcases List.mem_cons.1 ((insertKey_perm a l).mem_iff.1 hx) with rfl | hx
      · exact hba
      · exact (List.pairwise_cons.1 h).1 x hx

theorem sortKey_sorted (l : List Entry) : Sorted (sortKey l) := by
  induction l with
  | nil => simp [sortKey, Sorted]
  | cons a l ih => exact insertKey_sorted a _ ih

/-! ## first minimal element -/

/-- the first (in list order) element whose key is minimal -/
def pickFirstMin : List Entry → Option Entry
  | [] => none
  | a :: l =>
    match pickFirstMin l with
    | none => some a
    | some b => if keyLe a b then some a else some b

theorem pickFirstMin_eq_none {l : List Entry} : pickFirstMin l = none ↔ l = [] := by
  cases l with
  | nil => simp [pickFirstMin]
  | cons a l =>
    simp only [pickFirstMin, reduceCtorEq, iff_false]
    cases pickFirstMin l with
    | none => simp
    | some b => simp only; split <;> simp

theorem pickFirstMin_mem {l : List Entry} {e : Entry} (h : pickFirstMin l = some e) : e ∈ l := by
  induction l generalizing e with
  | nil => simp [pickFirstMin] at h
  | cons a l ih =>
    simp only [pickFirstMin] at h
    cases hp : pickFirstMin l with
    | none => rw [hp] at h; simp at h; simp [h]
    | some b =>
      rw [hp] at h
      simp only at h
      split at h
      · simp at h; simp [h]
      · simp at h; subst h; exact List.mem_cons_of_mem _ (ih hp)

theorem pickFirstMin_le {l : List Entry} {e : Entry} (h : pickFirstMin l = some e) :
    ∀ x ∈ l, keyLe e x = true := by
  induction l generalizing e with
  | nil => simp
  | cons a l ih =>
    simp only [pickFirstMin] at h
    cases hp : pickFirstMin l with
    | none =>
      rw [hp] at h; simp at h; subst h
      rw [pickFirstMin_eq_none.1 hp]
      intro x hx; simp at hx; subst hx; exact keyLe_refl _
    | some b =>
      rw [hp] at h
      simp only at h
      cases hab : keyLe a b with
      | true =>
        simp [hab] at h; subst h
        intro x hx
        rcases List.mem_cons.1 hx with rfl | hx
        · exact keyLe_refl _
        · exact keyLe_trans hab (ih hp x hx)
      | false =>
        have he : b = e := by simpa [hab] using h
        subst he
        intro x hx
        rcases List.mem_cons.1 hx with hxa | hx
        · rw [hxa]; exact (keyLe_total a b).resolve_left (by simp [hab])
        · exact ih hp x hx

/-- everything in front of the picked element has a strictly larger key -/
theorem pickFirstMin_first {l : List Entry} {e : Entry} (h : pickFirstMin l = some e) :
    ∃ pre post, l = pre ++ e :: post ∧ ∀ x ∈ pre, keyLt e x = true := by
  induction l generalizing e with
  | nil => simp [pickFirstMin] at h
  | cons a l ih =>
    simp only [pickFirstMin] at h
    cases hp : pickFirstMin l with
    | none =>
      rw [hp] at h; simp at h; subst h
      exact ⟨[], l, rfl, by simp⟩
    | some b =>
      rw [hp] at h
      simp only at h
      cases hab : keyLe a b with
      | true =>
        simp [hab] at h; subst h
        exact ⟨[], l, rfl, by simp⟩
      | false =>
        simp [hab] at h; subst h
        obtain ⟨pre, post, hl, hpre⟩ := ih hp
        refine ⟨a :: pre, post, by rw [hl]; rfl, ?_⟩
        intro x hx
        rcases List.mem_cons.1 hx with rfl | hx
        · exact keyLt_of_not_keyLe hab
        · exact hpre x hx

/-- searching a sorted list after a stable insertion -/
theorem find_insertKey (p : Entry → Bool) (a : Entry) (s : List Entry) (hs : Sorted s) :
    (insertKey a s).find? p =
      match s.find? p with
      | none => if p a then some a else none
      | some b => if p a && keyLe a b then some a else some b := by
  induction s with
  | nil => simp [insertKey, List.find?]
  | cons c s ih =>
    have hc := List.pairwise_cons.1 hs
    simp only [insertKey]
    cases hac : keyLe a c with
    | true =>
      simp only [if_true]
      cases hpa : p a with
      | false =>
        simp only [List.find?_cons, hpa, Bool.false_and, Bool.false_eq_true, if_false]
        cases hpc : p c with
        | true => rfl
        | false => simp only; cases s.find? p <;> rfl
      | true =>
        simp only [List.find?_cons, hpa]
        cases hpc : p c with
        | true => simp [hac]
        | false =>
          simp only
          cases hf : s.find? p with
          | none => simp
          | some b =>
            have hb : b ∈ s := List.mem_of_find?_eq_some hf
            simp [keyLe_trans hac (hc.1 b hb)]
    | false =>
      simp only [Bool.false_eq_true, if_false, List.find?_cons]
      cases hpc : p c with
      | true => simp [hac]
      | false => simp only; exact ih hc.2

theorem find_sortKey (p : Entry → Bool) (l : List Entry) :
    (sortKey l).find? p = pickFirstMin (l.filter p) := by
  induction l with
  | nil => simp [sortKey, pickFirstMin]
  | cons a l ih =>
    simp only [sortKey]
    rw [find_insertKey p a _ (sortKey_sorted l), ih]
    cases hpa : p a with
    | false =>
      simp only [List.filter_cons, hpa, Bool.false_eq_true, if_false, Bool.false_and]
      cases pickFirstMin (List.filter p l) <;> rfl
    | true =>
      simp only [List.filter_cons, hpa, if_true, Bool.true_and, pickFirstMin]

theorem change_eq (P : List Entry) (now age : Rat) :
    change P now age = (sortKey P).find? (fun e => eligible e now age) := by
  unfold change
  cases P with
  | nil => simp [sortKey]
  | cons a l => simp

/-! ## eligibility -/

theorem truthy_some {x : Rat} : truthy (some x) = true ↔ x ≠ 0 := by simp [truthy]

theorem sideAged_iff (c : Option Rat) (t : Rat) :
    sideAged c t = true ↔ ∃ x, c = some x ∧ x ≠ 0 ∧ x ≤ t := by
  cases c with
  | none => simp [sideAged, truthy]
  | some x =>
    simp only [sideAged, truthy, orZero, Bool.and_eq_true, bne_iff_ne, ne_eq,
      Option.some.injEq, exists_eq_left']
    exact and_congr_right (fun _ => decide_eq_true_iff)

theorem eligible_iff (e : Entry) (now age : Rat) :
    eligible e now age = true ↔
      sideAged e.l.changed (now - age) = true ∨ sideAged e.r.changed (now - age) = true ∨ e.priority < 0 := by
  simp [eligible, or_assoc]

theorem sideAged_mono {c : Option Rat} {t t' : Rat} (h : sideAged c t = true) (ht : t ≤ t') :
    sideAged c t' = true := by
  rw [sideAged_iff] at *
  obtain ⟨x, h1, h2, h3⟩ := h
  exact ⟨x, h1, h2, le_trans h3 ht⟩

/-! ## punting, one entry -/

theorem puntE_priority (p : Rat × Rat) (e : Entry) : (puntE p e).priority = e.priority + 1 := by
  have hne : (e.priority == e.priority + 1) = false := by
    simp only [beq_eq_false_iff_ne, ne_eq]; intro h; linarith
  simp only [puntE, setPriorityE, hne, Bool.false_eq_true, if_false]

theorem puntE_id (p : Rat × Rat) (e : Entry) : (puntE p e).id = e.id := by
  simp only [puntE, setPriorityE]
  split
  · rfl
  · split <;> rfl

theorem puntK_priority (p : Rat × Rat) (k : Nat) (e : Entry) : (puntK p k e).priority = e.priority + k := by
  induction k generalizing e with
  | zero => simp [puntK]
  | succ k ih => simp only [puntK, ih, puntE_priority]; push_cast; ring

theorem puntK_id (p : Rat × Rat) (k : Nat) (e : Entry) : (puntK p k e).id = e.id := by
  induction k generalizing e with
  | zero => rfl
  | succ k ih => simp only [puntK, ih, puntE_id]

/-- one punt moves a positive change time forward by `0` or by `punt_secs` -/
theorem puntE_side (p : Rat × Rat) (e : Entry) (s : Bool) (c : Rat) (hc : (e.side s).changed = some c) (hpos : 0 < c) :
    ((puntE p e).side s).changed = some c ∨
    ((puntE p e).side s).changed = some (c + (if s then p.2 else p.1)) := by
  have hne : (e.priority == e.priority + 1) = false := by
    simp only [beq_eq_false_iff_ne, ne_eq]; intro h; linarith
  have ht : truthy (some c) = true := by simp [truthy]; exact ne_of_gt hpos
  cases s with
  | false =>
    simp only [Entry.side, Bool.false_eq_true, if_false] at hc ⊢
    simp only [puntE, setPriorityE, hne, Bool.false_eq_true, if_false]
    split
    · right; simp [bump, hc, ht, orZero]
    · left; exact hc
  | true =>
    simp only [Entry.side, if_true] at hc ⊢
    simp only [puntE, setPriorityE, hne, Bool.false_eq_true, if_false]
    split
    · right; simp [bump, hc, ht, orZero]
    · left; exact hc

theorem puntK_side (p : Rat × Rat) (s : Bool) (hp : 0 ≤ (if s then p.2 else p.1)) (k : Nat) (e : Entry) (c : Rat)
    (hc : (e.side s).changed = some c) (hpos : 0 < c) :
    ∃ j : Nat, j ≤ k ∧ ((puntK p k e).side s).changed = some (c + j * (if s then p.2 else p.1)) := by
  induction k generalizing e c with
  | zero => exact ⟨0, le_refl _, by simp [puntK, hc]⟩
  | succ k ih =>
    rcases puntE_side p e s c hc hpos with h | h
    · obtain ⟨j, hj, hj'⟩ := ih (puntE p e) c h hpos
      exact ⟨j, Nat.le_succ_of_le hj, by simpa [puntK] using hj'⟩
    · obtain ⟨j, hj, hj'⟩ := ih (puntE p e) _ h (by linarith)
      refine ⟨j + 1, Nat.succ_le_succ hj, ?_⟩
      simp only [puntK, hj']
      congr 1
      push_cast
      ring

/-! ## state-level lookups -/

theorem get?_id {st : St} {id : Nat} {e : Entry} (h : st.get? id = some e) : e.id = id := by
  have := List.find?_some h
  simpa using this

theorem get?_mapId_same (st : St) (id : Nat) (f : Entry → Entry) (hf : ∀ e, (f e).id = e.id) :
    (st.mapId id f).get? id = (st.get? id).map f := by
  simp only [St.get?, St.mapId]
  induction st.ents with
  | nil => rfl
  | cons a l ih =>
    simp only [List.map_cons, List.find?_cons]
    cases hb : (a.id == id) with
    | true => simp only [if_true, hf, hb, Option.map_some]
    | false => simp only [Bool.false_eq_true, if_false, hb]; exact ih

theorem get?_add (st : St) (i j : Nat) : (st.add i).get? j = st.get? j := by
  simp only [St.add, St.get?]; split <;> rfl

theorem get?_discard (st : St) (i j : Nat) : (st.discard i).get? j = st.get? j := rfl

end CS.Sched
