import Csverif.Proofs.SchedState
/-
Helper lemmas for C17: the priority an entry HAS is the application's `prioritize` of (one of) its current path(s).
`Tracks cls e`, its preservation by every entry-level write, and by `changePath` (a folder move carries its descendants along,
each re-prioritised from its new path) for every folder tree: induction over the nesting fuel and the kids list.
-/
namespace CS.Sched

/-- what the code does to a priority after it was assigned from class value `b`: `punt` adds 1 any number of times;
    `finished` of a related entry resets a positive value to 0 (and punts may follow) -/
def Reach (b q : Rat) : Prop := (∃ k : Nat, q = b + k) ∨ (∃ k : Nat, q = k)

/-- `q` is a legitimate priority for an entry with these paths -/
def TracksAt (cls : Cls) (e : Entry) (q : Rat) : Prop :=
  (∃ s p, (e.side s).path = some p ∧ p ≠ "" ∧ Reach (cls s p) q) ∨
  ((∀ s, truthyS (e.side s).path = false) ∧ ∃ k : Nat, q = k)

/-- **PriorityCurrent, one entry**: its priority is the application's class of one of its current paths plus the punts since
    (or a punt count, after a reset by `finished`); without any path it is a punt count -/
def Tracks (cls : Cls) (e : Entry) : Prop := TracksAt cls e e.priority

theorem tracksAt_congr {cls : Cls} {e e' : Entry} {q : Rat} (hp : ∀ s, (e'.side s).path = (e.side s).path)
    (h : TracksAt cls e q) : TracksAt cls e' q := by
  rcases h with ⟨s, p, h1, h2, h3⟩ | ⟨h1, h2⟩
  · exact Or.inl ⟨s, p, by rw [hp]; exact h1, h2, h3⟩
  · exact Or.inr ⟨fun s => by rw [hp]; exact h1 s, h2⟩

theorem tracks_congr {cls : Cls} {e e' : Entry} (hq : e'.priority = e.priority)
    (hp : ∀ s, (e'.side s).path = (e.side s).path) (h : Tracks cls e) : Tracks cls e' := by
  unfold Tracks; rw [hq]; exact tracksAt_congr hp h

theorem reach_succ {b q : Rat} (h : Reach b q) : Reach b (q + 1) := by
  rcases h with ⟨k, hk⟩ | ⟨k, hk⟩
  · exact Or.inl ⟨k + 1, by rw [hk]; push_cast; ring⟩
  · exact Or.inr ⟨k + 1, by rw [hk]; push_cast; ring⟩

theorem tracksAt_succ {cls : Cls} {e : Entry} {q : Rat} (h : TracksAt cls e q) : TracksAt cls e (q + 1) := by
  rcases h with ⟨s, p, h1, h2, h3⟩ | ⟨h1, k, hk⟩
  · exact Or.inl ⟨s, p, h1, h2, reach_succ h3⟩
  · exact Or.inr ⟨h1, k + 1, by rw [hk]; push_cast; ring⟩

theorem tracksAt_zero {cls : Cls} {e : Entry} {q : Rat} (h : TracksAt cls e q) : TracksAt cls e 0 := by
  rcases h with ⟨s, p, h1, h2, _⟩ | ⟨h1, _⟩
  · exact Or.inl ⟨s, p, h1, h2, Or.inr ⟨0, by simp⟩⟩
  · exact Or.inr ⟨h1, 0, by simp⟩

theorem stampsOnly_paths {e e' : Entry} (h : StampsOnly e e') (s : Bool) : (e'.side s).path = (e.side s).path :=
  (h.side s).2.1

/-- a write of `v` to the priority: the entry tracks iff `v` is legitimate for its paths -/
theorem tracks_setPriorityA (cls : Cls) (p : Rat × Rat) (e : Entry) (v : Rat) (h : TracksAt cls e v) :
    Tracks cls (setPriorityA p e v).1 := by
  unfold Tracks
  rw [setPriorityA_priority]
  exact tracksAt_congr (fun s => stampsOnly_paths (setPriorityA_stampsOnly p e v) s) h

theorem tracks_setChangedA (cls : Cls) (e : Entry) (s : Bool) (v : Option Rat) (h : Tracks cls e) :
    Tracks cls (setChangedA e s v).1 :=
  tracks_congr (setChangedA_priority e s v) (fun t => stampsOnly_paths (setChangedA_stampsOnly e s v) t) h

theorem setSide_paths (e : Entry) (s : Bool) (x : Side) (hx : x.path = (e.side s).path) (t : Bool) :
    ((e.setSide s x).side t).path = (e.side t).path := by
  by_cases hts : t = s
  · subst hts; simp [hx]
  · have : t = !s := by cases t <;> cases s <;> simp_all
    subst this; simp

/-- a write to a field of side `s` other than its path -/
theorem tracks_setSide (cls : Cls) (e : Entry) (s : Bool) (x : Side) (hx : x.path = (e.side s).path) (h : Tracks cls e) :
    Tracks cls (e.setSide s x) :=
  tracks_congr (setSide_priority e s x) (setSide_paths e s x hx) h

theorem tracks_markA (cls : Cls) (last now : Rat) (e : Entry) (s : Bool) (h : Tracks cls e) :
    Tracks cls (markA last now e s).1 := by
  simp only [markA]
  split
  · exact tracks_setChangedA cls _ s _ (tracks_setChangedA cls e s _ h)
  · exact tracks_setChangedA cls e s _ h

theorem tracks_setOidA (cls : Cls) (e : Entry) (s : Bool) (oid : String) (h : Tracks cls e) :
    Tracks cls (setOidA e s oid).1 := tracks_setSide cls e s _ rfl h

/-- `ent[s].path = path` with `prio = prioritize(s, path)`: the entry tracks afterwards, whatever it did before -/
theorem tracks_setPathA (cls : Cls) (p : Rat × Rat) (e : Entry) (s : Bool) (path : String) (prio : Rat)
    (hne : path ≠ "") (hprio : prio = cls s path) (h : Tracks cls e) : Tracks cls (setPathA p e s path prio).1 := by
  simp only [setPathA]
  split
  · exact h
  · have hne' : (path == "") = false := by simpa using hne
    simp only [hne', Bool.false_eq_true, if_false]
    apply tracks_setPriorityA
    exact Or.inl ⟨s, path, by simp, hne, Or.inl ⟨0, by rw [hprio]; simp⟩⟩

theorem tracks_seqA (cls : Cls) (x : Entry × Acts) (f : Entry → Entry × Acts)
    (hf : Tracks cls x.1 → Tracks cls (f x.1).1) (h : Tracks cls x.1) : Tracks cls (seqA x f).1 := hf h

theorem tracks_updateA (cls : Cls) (p : Rat × Rat) (last now : Rat) (e : Entry) (s : Bool) (oid : String)
    (path : Option String) (prio : Rat) (hok : ∀ pth, path = some pth → pth ≠ "" ∧ prio = cls s pth) (h : Tracks cls e) :
    Tracks cls (updateA p last now e s oid path prio).1 := by
  have h1 := tracks_setOidA cls e s oid h
  simp only [updateA]
  cases path with
  | none =>
    simp only
    split
    · exact tracks_markA cls _ _ _ s (tracks_setSide cls _ s _ rfl h1)
    · exact tracks_setSide cls _ s _ rfl h1
  | some pth =>
    have h2 : Tracks cls (seqA (setOidA e s oid) (fun e => setPathA p e s pth prio)).1 :=
      tracks_setPathA cls p _ s pth prio (hok pth rfl).1 (hok pth rfl).2 h1
    simp only
    split
    · exact tracks_markA cls _ _ _ s (tracks_setSide cls _ s _ rfl h2)
    · exact tracks_setSide cls _ s _ rfl h2

theorem tracks_getLatestA (cls : Cls) (p : Rat × Rat) (now : Rat) (ans : Option (String × Rat)) (e : Entry) (s : Bool)
    (hok : ∀ pth q, ans = some (pth, q) → pth ≠ "" ∧ q = cls s pth) (h : Tracks cls e) :
    Tracks cls (getLatestA p now ans e s).1 := by
  simp only [getLatestA]
  split
  · have key : ∀ x : Entry × Acts, Tracks cls x.1 →
        Tracks cls (x.1.setSide s { x.1.side s with lastGotten := orZero (e.side s).changed }) :=
      fun x hx => tracks_setSide cls x.1 s _ rfl hx
    apply key
    split
    · exact tracks_setSide cls e s _ rfl h
    · split
      · exact tracks_setSide cls e s _ rfl h
      · rename_i pth q
        have h1 : Tracks cls (e.setSide s { e.side s with ex := Ex.exists }) := tracks_setSide cls e s _ rfl h
        split
        · exact h1
        · have h2 := tracks_setPathA cls p _ s pth q (hok pth q rfl).1 (hok pth q rfl).2 h1
          split
          · exact h2
          · exact tracks_setChangedA cls _ s _ h2
  · exact h

theorem tracks_fillSideA (cls : Cls) (p : Rat × Rat) (now : Rat) (ans : Option (String × Rat)) (e : Entry) (s : Bool)
    (hok : ∀ pth q, ans = some (pth, q) → pth ≠ "" ∧ q = cls s pth) (h : Tracks cls e) :
    Tracks cls (fillSideA p now ans e s).1 := by
  simp only [fillSideA]
  split
  · exact tracks_getLatestA cls p now ans e s hok h
  · exact h

theorem tracks_fillEntryA (cls : Cls) (p : Rat × Rat) (now : Rat) (aL aR : Option (String × Rat)) (e : Entry)
    (hL : ∀ pth q, aL = some (pth, q) → pth ≠ "" ∧ q = cls false pth)
    (hR : ∀ pth q, aR = some (pth, q) → pth ≠ "" ∧ q = cls true pth) (h : Tracks cls e) :
    Tracks cls (fillEntryA p now aL aR e).1 := by
  simp only [fillEntryA, seqA_fst]
  exact tracks_fillSideA cls p now aR _ true hR (tracks_fillSideA cls p now aL e false hL h)

/-! ## the state: every entry tracks, except those whose own move is in progress -/

/-- every entry tracks, except the entries of `skip` (a path has been written, the priority not yet) -/
def PCx (cls : Cls) (skip : List Nat) (st : St) : Prop := ∀ e ∈ st.ents, e.id ∈ skip ∨ Tracks cls e

/-- **PriorityCurrent** -/
def PriorityCurrent (cls : Cls) (st : St) : Prop := ∀ e ∈ st.ents, Tracks cls e

theorem pcx_nil (cls : Cls) (st : St) : PCx cls [] st ↔ PriorityCurrent cls st := by
  simp [PCx, PriorityCurrent]

theorem mem_withE_ents (st : St) (id : Nat) (f : Entry → Entry × Acts) (hid : ∀ e, (f e).1.id = e.id)
    (x : Entry) (hx : x ∈ (st.withE id f).ents) :
    (x ∈ st.ents ∧ ((st.get? id).isSome = true → x.id ≠ id)) ∨ ∃ e, st.get? id = some e ∧ x = (f e).1 := by
  simp only [St.withE] at hx
  cases hg : st.get? id with
  | none => rw [hg] at hx; exact Or.inl ⟨hx, fun h => absurd h (by simp)⟩
  | some e =>
    rw [hg] at hx
    simp only [St.act, St.put, List.mem_map] at hx
    obtain ⟨y, hy, rfl⟩ := hx
    split
    · exact Or.inr ⟨e, rfl, rfl⟩
    · rename_i hne
      refine Or.inl ⟨hy, fun _ => ?_⟩
      rw [hid, get?_id hg] at hne
      simpa using hne

/-- a hooked write whose entry-level function preserves tracking (or establishes it, `hnew`) -/
theorem withE_pcx (cls : Cls) (skip : List Nat) (st : St) (id : Nat) (f : Entry → Entry × Acts)
    (hid : ∀ e, (f e).1.id = e.id)
    (hf : ∀ e, st.get? id = some e → (e.id ∈ skip ∨ Tracks cls e) → (e.id ∈ skip ∨ Tracks cls (f e).1))
    (h : PCx cls skip st) : PCx cls skip (st.withE id f) := by
  intro x hx
  rcases mem_withE_ents st id f hid x hx with ⟨hx, _⟩ | ⟨e, he, rfl⟩
  · exact h x hx
  · rw [hid]
    exact hf e he (h e (get?_mem he))

theorem withE_pcx_pres (cls : Cls) (skip : List Nat) (st : St) (id : Nat) (f : Entry → Entry × Acts)
    (hid : ∀ e, (f e).1.id = e.id) (hf : ∀ e, Tracks cls e → Tracks cls (f e).1)
    (h : PCx cls skip st) : PCx cls skip (st.withE id f) :=
  withE_pcx cls skip st id f hid (fun e _ he => he.imp (fun hm => hm) (hf e)) h

theorem pcx_unmodelled (cls : Cls) (skip : List Nat) (st : St) (b : Bool) (h : PCx cls skip st) :
    PCx cls skip { st with unmodelled := b } := h

theorem pcx_mono (cls : Cls) (skip skip' : List Nat) (st : St) (hs : ∀ j ∈ skip, j ∈ skip') (h : PCx cls skip st) :
    PCx cls skip' st := fun e he => (h e he).imp (hs _) id

/-! ## `changePath`: frame and preservation, by induction on the nesting fuel -/

theorem withE_get?_ne (st : St) (id j : Nat) (f : Entry → Entry × Acts) (hf : ∀ e, (f e).1.id = e.id) (hj : j ≠ id) :
    (st.withE id f).get? j = st.get? j := withE_get?_other st id j f hf hj

theorem foldl_frame {α : Type} (g : St → α → St) (l : List α) (st : St) (j : Nat)
    (hg : ∀ a x, (g a x).get? j = a.get? j) : (l.foldl g st).get? j = st.get? j := by
  induction l generalizing st with
  | nil => rfl
  | cons x l ih => simp only [List.foldl_cons]; rw [ih, hg]

theorem foldl_pcx {α : Type} (cls : Cls) (skip : List Nat) (g : St → α → St) (l : List α) (st : St)
    (hg : ∀ a x, PCx cls skip a → PCx cls skip (g a x)) (h : PCx cls skip st) : PCx cls skip (l.foldl g st) := by
  induction l generalizing st with
  | nil => exact h
  | cons x l ih => simp only [List.foldl_cons]; exact ih _ (hg _ _ h)

/-- one kid: entries of `skip` are not touched, provided the recursive call does not touch them -/
theorem kidStep_frame (recur : St → Nat → String → St) (oipS : Bool) (skip : List Nat) (s : Bool) (pp path : String)
    (acc : St) (sub0 : Entry) (j : Nat) (hj : j ∈ skip)
    (hrec : ∀ a i p, i ∉ skip → (recur a i p).get? j = a.get? j) :
    (kidStep recur oipS skip s pp path acc sub0).get? j = acc.get? j := by
  unfold kidStep
  split
  · rfl
  · rename_i hskip
    have hns : sub0.id ∉ skip := by simpa using hskip
    cases hg : acc.get? sub0.id with
    | none => rfl
    | some sub =>
      have hsid : sub.id = sub0.id := get?_id hg
      have hjne : j ≠ sub.id := by rw [hsid]; intro h; exact hns (h ▸ hj)
      have h1 : ∀ (a : St) (np : String),
          (if oipS = true then a.withE sub.id (fun e => setOidA e s np) else a).get? j = a.get? j := by
        intro a np; split
        · exact withE_get?_ne a sub.id j _ (fun e => by simp) hjne
        · rfl
      simp only
      split
      · rfl
      · split
        · rw [withE_get?_ne _ sub.id j _ (fun e => by simp) hjne, hrec _ _ _ (by rw [hsid]; exact hns), h1]
        · rw [hrec _ _ _ (by rw [hsid]; exact hns), h1]

/-- `changePath` never touches an entry whose own move is in progress -/
theorem changePath_frame (cls : Cls) (oip : Bool × Bool) (fuel : Nat) :
    ∀ (moving : List Nat) (st : St) (id : Nat) (s : Bool) (path : String) (j : Nat), j ∈ moving → id ∉ moving →
      (changePath cls oip fuel moving st id s path).get? j = st.get? j := by
  induction fuel with
  | zero => intro moving st id s path j _ _; rfl
  | succ fuel ih =>
    intro moving st id s path j hj hid
    have hjid : j ≠ id := fun h => hid (h ▸ hj)
    simp only [changePath]
    cases hg : st.get? id with
    | none => rfl
    | some e =>
      simp only
      split
      · rfl
      · have h1 : (st.withE id (fun e => (e.setSide s { e.side s with path := some path }, ([] : Acts)))).get? j = st.get? j :=
          withE_get?_ne st id j _ (fun e => by simp) hjid
        split
        · exact h1
        · rw [withE_get?_ne _ id j _ (fun e => setPriorityA_id _ e _) hjid]
          split
          · split
            · rw [foldl_frame _ _ _ j, h1]
              intro a x
              apply kidStep_frame _ _ _ _ _ _ _ _ j (List.mem_cons_of_mem _ hj)
              intro a' i p hi
              exact ih (id :: moving) a' i s p j (List.mem_cons_of_mem _ hj) hi
            · exact h1
          · exact h1

theorem kidStep_pcx (cls : Cls) (recur : St → Nat → String → St) (oipS : Bool) (skip : List Nat) (s : Bool)
    (pp path : String) (acc : St) (sub0 : Entry)
    (hrec : ∀ a i rel, i ∉ skip → PCx cls skip a → PCx cls skip (recur a i (joinRel path rel))) (h : PCx cls skip acc) :
    PCx cls skip (kidStep recur oipS skip s pp path acc sub0) := by
  unfold kidStep
  split
  · exact h
  · rename_i hskip
    have hns : sub0.id ∉ skip := by simpa using hskip
    cases hg : acc.get? sub0.id with
    | none => exact h
    | some sub =>
      have hsid : sub.id = sub0.id := get?_id hg
      have h1 : ∀ np : String, PCx cls skip (if oipS = true then acc.withE sub.id (fun e => setOidA e s np) else acc) := by
        intro np; split
        · exact withE_pcx_pres cls skip acc sub.id _ (fun e => by simp) (fun e he => tracks_setOidA cls e s np he) h
        · exact h
      simp only
      split
      · exact h
      · rename_i rel _
        have h2 := hrec _ sub.id rel (by rw [hsid]; exact hns) (h1 (joinRel path rel))
        split
        · exact withE_pcx_pres cls skip _ sub.id _ (fun e => by simp)
            (fun e he => tracks_setSide cls e s _ rfl he) h2
        · exact h2

theorem joinRel_ne (path rel : String) (h : path ≠ "") : joinRel path rel ≠ "" := by
  intro hab
  apply h
  have h1 : (path ++ rel).length = 0 := by
    have : joinRel path rel = path ++ rel := rfl
    rw [← this, hab]; rfl
  rw [String.length_append] at h1
  have : path.length = 0 := by omega
  exact String.length_eq_zero_iff.mp this

/-- **a path change keeps PriorityCurrent, for every folder tree**: entries whose own move is in progress (`moving`) are exempt
    on the way in and on the way out; the entry whose path is written tracks again when the function returns, and so does every
    descendant carried along, at any depth -/
theorem changePath_pcx (cls : Cls) (oip : Bool × Bool) (fuel : Nat) :
    ∀ (moving : List Nat) (st : St) (id : Nat) (s : Bool) (path : String), id ∉ moving → path ≠ "" →
      PCx cls moving st → PCx cls moving (changePath cls oip fuel moving st id s path) := by
  induction fuel with
  | zero => intro moving st id s path _ _ h; exact pcx_unmodelled cls moving st true h
  | succ fuel ih =>
    intro moving st id s path hid hne h
    simp only [changePath]
    cases hg : st.get? id with
    | none => exact h
    | some e =>
      have heid : e.id = id := get?_id hg
      simp only
      split
      · exact h
      · have hne' : (path == "") = false := by simpa using hne
        simp only [hne', Bool.false_eq_true, if_false]
        -- the path is written: the entry is exempt until its priority is
        let st1 := st.withE id (fun e => (e.setSide s { e.side s with path := some path }, ([] : Acts)))
        have h1 : PCx cls (id :: moving) st1 := by
          apply withE_pcx cls (id :: moving) st id _ (fun e => by simp)
          · intro e' he' _
            exact Or.inl (by rw [get?_id he']; exact List.mem_cons_self)
          · exact pcx_mono cls moving (id :: moving) st (fun j hj => List.mem_cons_of_mem _ hj) h
        have hget1 : st1.get? id = some (e.setSide s { e.side s with path := some path }) :=
          withE_get?_same st id _ e hg (by simp)
        -- the kids
        have key : ∀ st2 : St, PCx cls (id :: moving) st2 → st2.get? id = st1.get? id →
            PCx cls moving (st2.withE id (fun e => setPriorityA st2.punt e (cls s path))) := by
          intro st2 h2 hget2 x hx
          rcases mem_withE_ents st2 id _ (fun e => setPriorityA_id _ e _) x hx with ⟨hx, hxid⟩ | ⟨e2, he2, rfl⟩
          · have hxne : x.id ≠ id := hxid (by rw [hget2, hget1]; rfl)
            rcases h2 x hx with hm | ht
            · rcases List.mem_cons.1 hm with hm | hm
              · exact absurd hm hxne
              · exact Or.inl hm
            · exact Or.inr ht
          · right
            rw [hget2, hget1] at he2
            cases he2
            apply tracks_setPriorityA
            exact Or.inl ⟨s, path, by simp, hne, Or.inl ⟨0, by simp⟩⟩
        show PCx cls moving ((match (e.side s).path with
          | some pp =>
            if (e.side s).dir = true then
              (st1.ents.filter inGetAll).foldl
                (kidStep (fun a i p => changePath cls oip fuel (id :: moving) a i s p) (if s = true then oip.2 else oip.1)
                  (id :: moving) s pp path) st1
            else st1
          | none => st1).withE id (fun e => setPriorityA _ e (cls s path)))
        cases hpp : (e.side s).path with
        | none => exact key st1 h1 rfl
        | some pp =>
          simp only
          split
          · apply key
            · apply foldl_pcx cls (id :: moving) _ _ st1 _ h1
              intro a x ha
              apply kidStep_pcx cls _ _ _ _ _ _ _ _ _ ha
              intro a' i rel hi ha'
              -- the new path of a kid is `path ++ relative`: not empty
              exact ih (id :: moving) a' i s (joinRel path rel) hi (joinRel_ne path rel hne) ha'
            · apply foldl_frame
              intro a x
              apply kidStep_frame _ _ _ _ _ _ _ _ id List.mem_cons_self
              intro a' i p hi
              exact changePath_frame cls oip fuel (id :: moving) a' i s p id List.mem_cons_self hi
          · exact key st1 h1 rfl

end CS.Sched
