import Csverif.Model.EngineMore
import Csverif.Model.EngineConflict
import Csverif.Proofs.Engine
import Std.Data.String.ToNat
import Mathlib.Tactic.SplitIfs
/-
ENG, part 3 — helper lemmas: injectivity of the conflict-name candidates, `enum` membership, the merge law of the disjoint-create loop,
the two outcomes of `_get_untrashed_peers`, what `split` leaves on both sides, the six-field restore of the except branch.
-/
namespace CS.Engine.More
open CS.Hints (Ex OT Ign)
open CS.Engine
open CS.Path (Str Cfg)

/-! ### (b) conflict names -/

theorem numStr_ne_nil (i : Nat) : numStr i ≠ [] := by
  intro h
  exact Nat.repr_ne_empty (n := i) (String.toList_injective (by simpa [numStr] using h))

theorem numStr_inj {i j : Nat} (h : numStr i = numStr j) : i = j := by
  exact Nat.repr_injective (String.toList_injective h)

/-- distinct attempts give distinct names -/
theorem conflictBase_inj (stem ext : Str) {i j : Nat} (hi : 1 ≤ i) (hj : 1 ≤ j)
    (h : conflictBase stem ext i = conflictBase stem ext j) : i = j := by
  unfold conflictBase at h
  simp only [List.append_assoc, List.append_cancel_left_eq] at h
  have h' := List.append_cancel_right h
  by_cases h1 : i ≤ 1 <;> by_cases h2 : j ≤ 1
  · omega
  · simp only [h1, h2, if_true, if_false] at h'
    exact absurd h'.symm (numStr_ne_nil j)
  · simp only [h1, h2, if_true, if_false] at h'
    exact absurd h' (numStr_ne_nil i)
  · simp only [h1, h2, if_false] at h'
    exact numStr_inj h'

/-- the candidates of the first n attempts -/
def candidates (stem ext : Str) (n : Nat) : List Str := (List.range n).map (fun k => conflictBase stem ext (k + 1))

theorem candidates_nodup (stem ext : Str) (n : Nat) : (candidates stem ext n).Nodup := by
  unfold candidates
  have hr : List.Pairwise (fun a b : Nat => a ≠ b) (List.range n) := List.nodup_range
  refine List.Pairwise.map _ ?_ hr
  intro a b hab h
  have := conflictBase_inj stem ext (Nat.succ_le_succ (Nat.zero_le a)) (Nat.succ_le_succ (Nat.zero_le b)) h
  omega

end CS.Engine.More

namespace CS.Engine.More
open CS.Hints (Ex OT Ign)
open CS.Engine
open CS.Path (Str Cfg)

/-! ### (c) the file-not-found handler -/

theorem punt_prio (e : Entry) : e.punt.prio = e.prio + 10 := by simp [Entry.punt]

/-! ### (d) disjoint creates -/

theorem mem_enum {α : Type} (l : List α) (i : Nat) (a : α) (h : (i, a) ∈ enum l) : l[i]? = some a := by
  unfold enum at h
  rw [List.mem_iff_getElem] at h
  obtain ⟨k, hk, hk'⟩ := h
  simp only [List.getElem_zip, List.getElem_range, Prod.mk.injEq] at hk'
  obtain ⟨rfl, rfl⟩ := hk'
  have hlt : k < l.length := by simp at hk; omega
  simp [hlt]

theorem enum_mem {α : Type} (l : List α) (a : α) (h : a ∈ l) : ∃ i, (i, a) ∈ enum l := by
  obtain ⟨k, hk, hkp⟩ := List.mem_iff_getElem.mp h
  refine ⟨k, ?_⟩
  unfold enum
  rw [List.mem_iff_getElem]
  exact ⟨k, by simpa using hk, by simp [hkp]⟩

/-- what `djLoop` can add: merges of peers that are live matches with a synced hash and no pending change -/
theorem djLoop_merge (live : List (Nat × Peer)) (found : Option (Option Nat)) (st : OT) (fx : List DjEff) (i : Nat)
    (h : DjEff.merge i ∈ (djLoop live found st fx).2.2) :
    DjEff.merge i ∈ fx ∨ ∃ p, (i, p) ∈ live ∧ p.oidMatch = true ∧ p.hashSynced = true ∧ p.changed = false := by
  induction live generalizing found st fx with
  | nil => left; simpa [djLoop] using h
  | cons hd tl ih =>
    obtain ⟨j, p⟩ := hd
    have lift : ∀ fx' : List DjEff, (DjEff.merge i ∈ fx' ∨ ∃ q, (i, q) ∈ tl ∧ q.oidMatch = true ∧ q.hashSynced = true ∧ q.changed = false) →
        (DjEff.merge i ∈ fx' → DjEff.merge i ∈ fx ∨ ∃ q, (i, q) ∈ (j, p) :: tl ∧ q.oidMatch = true ∧ q.hashSynced = true ∧ q.changed = false) →
        DjEff.merge i ∈ fx ∨ ∃ q, (i, q) ∈ (j, p) :: tl ∧ q.oidMatch = true ∧ q.hashSynced = true ∧ q.changed = false := by
      intro fx' h1 h2
      rcases h1 with h1 | ⟨q, hq, hr⟩
      · exact h2 h1
      · exact Or.inr ⟨q, List.mem_cons_of_mem _ hq, hr⟩
    unfold djLoop at h
    by_cases h1 : p.oidMatch = true
    · simp only [h1, if_true] at h
      by_cases h2 : p.hashSynced = true
      · simp only [h2, Bool.not_true, Bool.false_eq_true, if_false] at h
        by_cases h3 : p.changed = true
        · simp only [h3, Bool.not_true, Bool.false_eq_true, if_false] at h
          split_ifs at h
          all_goals exact lift _ (ih _ _ _ h) Or.inl
        · simp only [h3, Bool.not_eq_true, Bool.not_false, if_true] at h
          refine lift _ (ih _ _ _ h) ?_
          intro hm
          simp only [List.mem_append, List.mem_singleton] at hm
          rcases hm with hm | hm
          · exact Or.inl hm
          · injection hm with hm
            subst hm
            exact Or.inr ⟨p, List.mem_cons_self, h1, h2, by simpa using h3⟩
      · simp only [h2, Bool.not_eq_true, Bool.not_false, if_true] at h
        exact lift _ (ih _ _ _ h) Or.inl
    · simp only [h1, Bool.false_eq_true, if_false] at h
      exact lift _ (ih _ _ _ h) Or.inl

/-- the two outcomes of `_get_untrashed_peers` -/
theorem untrashed_cases (cO : OT) (peers : List Peer) :
    ((untrashedPeers cO peers).1 = none ∧ (cO ≠ .file ∨ ∀ p ∈ peers, p.ex ≠ .present) ∧
      ∀ i, DjEff.merge i ∉ (untrashedPeers cO peers).2) ∨
    (∃ live, untrashedPeers cO peers = (some live, []) ∧ live ≠ [] ∧ ∀ ip ∈ live, ip ∈ enum peers ∧ ip.2.ex = .present) := by
  unfold untrashedPeers
  by_cases hc : cO = .file
  · subst hc
    simp only [bne_self_eq_false, Bool.false_eq_true, if_false]
    by_cases h1 : peers.isEmpty = true
    · left
      simp only [h1, if_true]
      exact ⟨trivial, Or.inr (by intro p hp; simp [List.isEmpty_iff.mp h1] at hp), by simp⟩
    · simp only [h1, if_false]
      by_cases h2 : (peers.all fun p => p.ex != Ex.present) = true
      · left
        simp only [h2, if_true]
        refine ⟨rfl, Or.inr ?_, by simp⟩
        intro p hp
        simpa using List.all_eq_true.mp h2 p hp
      · right
        simp only [h2, if_false]
        refine ⟨_, rfl, ?_, ?_⟩
        · intro hemp
          apply h2
          apply List.all_eq_true.mpr
          intro p hp
          simp only [bne_iff_ne, ne_eq]
          intro hpe
          obtain ⟨k, hk⟩ := enum_mem peers p hp
          have hmem : (k, p) ∈ (enum peers).filter (fun ip => ip.2.ex == Ex.present) :=
            List.mem_filter.mpr ⟨hk, by simp [hpe]⟩
          rw [hemp] at hmem
          simp at hmem
        · intro ip hip
          have := List.mem_filter.mp hip
          exact ⟨this.1, by simpa using this.2⟩
  · left
    have hc' : (cO != OT.file) = true := by simpa using hc
    simp only [hc', if_true]
    exact ⟨trivial, Or.inl hc, by simp⟩

end CS.Engine.More

namespace CS.Engine.More
open CS.Hints (Ex OT Ign)
open CS.Engine

/-! ### (e) folder/file conflicts, the other-entry loops of mkdir -/

end CS.Engine.More

namespace CS.Engine.Conflict
open CS.Hints (Ex OT Ign)
open CS.Engine

/-! ### (a) the conflict path -/

theorem restoreSide_fields (cur orig : Side) :
    (restoreSide cur orig).oid = orig.oid ∧ (restoreSide cur orig).p = orig.p ∧ (restoreSide cur orig).h = orig.h := by
  unfold restoreSide Side.setEx
  simp only
  split_ifs <;> simp

/-- `exists` comes back too, unless the side is CORRUPT now and was not before (then only `_saved_exists` is assigned) -/
theorem restoreSide_ex (cur orig : Side) (h : cur.isCorrupt = true → orig.isCorrupt = true) :
    (restoreSide cur orig).ex = orig.ex := by
  rcases cur with ⟨co, cp, chh, cx, csv, cot, cch, cf⟩
  rcases orig with ⟨oo, op, ohh, ox, osv, oot, och, of⟩
  simp only [restoreSide, Side.setEx, Side.isCorrupt] at h ⊢
  generalize (chh.cur != ohh.cur) = b
  generalize csv.getD Ex.unknown = sv
  cases cx <;> cases ox <;> cases b <;> cases sv <;> simp_all

theorem splitEntry_ok (e d : Entry) (h : splitEntry e = .ok d) :
    e.l.oid = true ∧ d.r = { e.r with changed := true, p := e.r.p.clearSync } ∧ d.ign = e.ign := by
  rcases e with ⟨⟨lo, lp, lh, lx, lsv, lt, lc, lf⟩, ⟨ro, rp, rh, rx, rsv, rt, rc, rf⟩, ord, ign, prio⟩
  cases lo
  · simp [splitEntry] at h
  · simp only [splitEntry, Bool.not_true, Bool.false_eq_true, if_false] at h
    injection h with h
    subst h
    refine ⟨rfl, ?_, ?_⟩
    · cases ro <;> cases rc <;> cases lc <;> simp [Entry.clearSide, Entry.setChanged, Entry.set, Entry.get, Sd.other, When.flag]
    · simp [Entry.clearSide]

theorem splitEntry_local_not_corrupt (e d : Entry) (h : splitEntry e = .ok d) (hh : e.l.h.cur = true) : d.l.isCorrupt = false := by
  rcases e with ⟨⟨lo, lp, lh, lx, lsv, lt, lc, lf⟩, ⟨ro, rp, rh, rx, rsv, rt, rc, rf⟩, ord, ign, prio⟩
  cases lo
  · simp [splitEntry] at h
  · simp only [splitEntry, Bool.not_true, Bool.false_eq_true, if_false] at h
    injection h with h
    subst h
    simp only at hh
    have hl : ∀ (x : Entry) (w : When), (x.setChanged .rem w).l = { x.l with changed := x.l.changed && ((w.flag && x.r.oid) || x.l.oid) } := by
      intro x w; have := setChanged_get_other x .rem w; simpa [Entry.get, Sd.other] using this
    simp only [hl]
    simp only [Entry.clearSide, Entry.get, Entry.set, Side.isCorrupt]
    have hz : ∀ (x : Entry), (x.setChanged .loc .zero).l = { x.l with changed := false } := by
      intro x; have := setChanged_get_self x .loc .zero; simpa [Entry.get, When.flag] using this
    simp only [hz]
    cases lx <;> simp [Side.setEx, Side.clearHash, Side.uncorrupt, Side.isCorrupt, hh]

theorem splitConflict_raised (o : COracle) (t : TwoEntries) (x : Exc) (h : (splitConflict o t).out = .raised x) :
    (splitConflict o t).ents = t := by
  rcases o with ⟨dl, tg, sh, rc⟩
  unfold splitConflict at h ⊢
  by_cases hf : (t.defer.r.otype == OT.file) = true
  · simp only [hf, if_true] at h ⊢
    cases dl <;> cases tg <;> cases sh <;> cases rc <;> simp at h ⊢
  · simp only [hf, if_false] at h ⊢
    cases rc <;> simp at h ⊢

theorem setPrio_zero_sides (e : Entry) : (e.setPrio 0).l = e.l ∧ (e.setPrio 0).r = e.r ∧ (e.setPrio 0).ign = e.ign := by
  unfold Entry.setPrio
  by_cases h1 : e.prio = 0
  · simp [h1]
  · simp [h1]

/-- the except branch gives the six fields back -/
theorem exceptBranch_restores (e : Entry) (t : TwoEntries) (x : Exc) (fx : List CEff) (hro : e.r.oid = true)
    (hl : t.defer.l.isCorrupt = false) (hr : t.defer.r.ex = e.r.ex) (hrc : t.defer.r.changed = true) :
    let r := exceptBranch e t x fx
    r.out = .raised x ∧
    r.ents.defer.l.oid = e.l.oid ∧ r.ents.defer.l.p = e.l.p ∧ r.ents.defer.l.h = e.l.h ∧ r.ents.defer.l.ex = e.l.ex ∧
    r.ents.defer.r.oid = e.r.oid ∧ r.ents.defer.r.p = e.r.p ∧ r.ents.defer.r.h = e.r.h ∧ r.ents.defer.r.ex = e.r.ex ∧
    r.ents.replace.ign = .discarded ∧ r.ents.replace.l.oid = false ∧ r.ents.defer.r.changed = true := by
  have hr1 := restoreSide_fields t.defer.l e.l
  have hr2 := restoreSide_fields t.defer.r e.r
  have hx1 := restoreSide_ex t.defer.l e.l (by intro hcor; rw [hl] at hcor; cases hcor)
  have hx2 := restoreSide_ex t.defer.r e.r (by simp only [Side.isCorrupt, hr]; exact id)
  have hch : (restoreSide t.defer.r e.r).changed = true := by
    unfold restoreSide Side.setEx; simp only; split_ifs <;> simp [hrc]
  have hig : ∀ r : Entry, (r.setIgn .discarded).ign = .discarded ∧ ∀ b, ({ r with l := { r.l with oid := b } } : Entry).l.oid = b := by
    intro r; exact ⟨setIgn_ign r _, fun _ => rfl⟩
  have hrepl : ((({ t.replace with l := { t.replace.l with oid := false } } : Entry).setIgn .discarded)).l.oid = false := by
    unfold Entry.setIgn; split_ifs <;> simp
  unfold exceptBranch
  simp only [hro, Bool.not_true, Bool.and_false, Bool.false_eq_true, if_false]
  by_cases hp : e.l.p.cur = true
  · have hp0 := setPrio_zero_sides ({ t.defer with l := restoreSide t.defer.l e.l } : Entry)
    simp only [hp, if_true, hp0.1, hp0.2.1]
    exact ⟨trivial, hr1.1, hr1.2.1, hr1.2.2, hx1, hr2.1.trans hro, hr2.2.1, hr2.2.2, hx2, setIgn_ign _ _, hrepl, hch⟩
  · simp only [hp, Bool.false_eq_true, if_false]
    exact ⟨trivial, hr1.1, hr1.2.1, hr1.2.2, hx1, hr2.1.trans hro, hr2.2.1, hr2.2.2, hx2, setIgn_ign _ _, hrepl, hch⟩

end CS.Engine.Conflict
