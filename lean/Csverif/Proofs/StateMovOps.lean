import Csverif.Proofs.StateEvent
/-
C11: every state-level operation except `reload` leaves the `_kids_moving` stack as it found it (on every outcome).
-/
namespace CS.State

theorem mov_sideSet (cfg : Cfg) (n : Nat) (e : Nat) (s : Sd) (fv : FV) : Mov (sideSet cfg n e s fv) := movF_sideSet cfg n e s fv

theorem mov_markChanged (cfg : Cfg) (fuel : Nat) (s : Sd) (e : Nat) : Mov (markChanged cfg fuel s e) := by
  unfold markChanged
  refine Mov.bind Mov.getSt (fun _ => Mov.bind (mov_sideSet _ _ _ _ _) (fun _ => Mov.bind ?_ (fun _ => Mov.modify (fun st => by split <;> rfl))))
  unfold bumpPastLast
  refine Mov.bind Mov.getSt (fun st => ?_)
  split
  · exact Mov.when (mov_sideSet _ _ _ _ _)
  · exact Mov.pure _

theorem mov_clearSide (cfg : Cfg) (fuel : Nat) (e : Nat) (s : Sd) : Mov (clearSide cfg fuel e s) := by
  unfold clearSide
  repeat (first | exact mov_sideSet _ _ _ _ _ | refine Mov.bind (mov_sideSet _ _ _ _ _) (fun _ => ?_))

theorem mov_newEntry (ot : OType) : Mov (newEntry ot) := fun _ => rfl

theorem mov_split (cfg : Cfg) (fuel : Nat) (e : Nat) : Mov (split cfg fuel e) := by
  unfold split
  repeat (first
    | exact Mov.pure _
    | refine Mov.bind Mov.getSt (fun _ => ?_)
    | refine Mov.bind (Mov.assert _) (fun _ => ?_)
    | refine Mov.bind (mov_newEntry _) (fun _ => ?_)
    | refine Mov.bind (mov_setItem _ _ _ _ _ _) (fun _ => ?_)
    | refine Mov.bind (mov_clearSide _ _ _ _) (fun _ => ?_)
    | refine Mov.bind (mov_markChanged _ _ _ _) (fun _ => ?_)
    | refine Mov.bind (mov_sideSet _ _ _ _ _) (fun _ => ?_))

theorem mov_updateEntry (cfg : Cfg) (fuel : Nat) (ent : Nat) (s : Sd) (a : UArgs) : Mov (updateEntry cfg fuel ent s a) := by
  unfold updateEntry
  have hrd : Mov (replaceDiscarded cfg ent s a) := by
    unfold replaceDiscarded
    refine Mov.bind Mov.getSt (fun _ => ?_)
    split
    · split
      · exact mov_newEntry _
      · exact Mov.pure _
    · exact Mov.pure _
  have hnk : Mov (notKnownCheck a) := by
    unfold notKnownCheck
    split
    · split
      · exact Mov.assert _
      · exact Mov.pure _
      · exact Mov.throw _
    · exact Mov.pure _
  have hmk : ∀ e, Mov (markIfChanged cfg fuel e s a) := by
    intro e
    unfold markIfChanged
    split
    · refine Mov.when (Mov.bind Mov.getSt (fun _ => Mov.bind (Mov.assert _) (fun _ => Mov.bind (mov_markChanged _ _ _ _) (fun _ => Mov.when (Mov.modify (fun st => by simp))))))
    · exact Mov.pure _
  refine Mov.bind hrd (fun e => ?_)
  refine Mov.bind (Mov.when (mov_sideSet _ _ _ _ _)) (fun _ => Mov.bind Mov.getSt (fun _ => ?_))
  refine Mov.bind (Mov.when (mov_sideSet _ _ _ _ _)) (fun _ => Mov.bind (Mov.when (mov_sideSet _ _ _ _ _)) (fun _ => Mov.bind (Mov.when (mov_sideSet _ _ _ _ _)) (fun _ => ?_)))
  refine Mov.bind hnk (fun _ => Mov.bind Mov.getSt (fun _ => ?_))
  simp only
  refine Mov.bind (Mov.when (mov_sideSet _ _ _ _ _)) (fun _ => Mov.bind Mov.getSt (fun _ => ?_))
  refine Mov.bind (Mov.when (mov_sideSet _ _ _ _ _)) (fun _ => Mov.bind Mov.getSt (fun _ => ?_))
  exact Mov.bind (mov_sideSet _ _ _ _ _) (fun _ => hmk e)

theorem mov_setIgnored (e : Nat) (v : Ign) : Mov (setIgnored e v) := Mov.modify (fun st => by simp)

theorem mov_unignoreAll : ∀ (l : List Nat) (acc : Option Nat), Mov (unignoreAll l acc)
  | [], _ => Mov.pure _
  | i :: t, _ => by
    unfold unignoreAll
    exact Mov.bind Mov.getSt (fun _ => Mov.bind (Mov.assert _) (fun _ => Mov.bind (mov_setIgnored _ _) (fun _ => mov_unignoreAll t _)))

theorem mov_update (cfg : Cfg) (fuel : Nat) (s : Sd) (ot : OType) (a : UArgs) (prior : Oid) : Mov (update cfg fuel s ot a prior) := by
  unfold update
  have hre : ∀ ent pe, Mov (reusePrior s ent pe) := by
    intro ent pe
    unfold reusePrior
    refine Mov.bind Mov.getSt (fun _ => ?_)
    split
    · exact Mov.bind (mov_setIgnored _ _) (fun _ => Mov.pure _)
    · exact Mov.pure _
  have hmp : ∀ ent pe?, Mov (mergePrior cfg fuel s a ent pe?) := by
    intro ent pe?
    unfold mergePrior
    refine Mov.bind Mov.getSt (fun st => ?_)
    cases pe? with
    | none => cases ent with
      | none => exact mov_unignoreAll _ _
      | some en => exact Mov.pure _
    | some pe =>
      by_cases hd : (st.ent pe).isDiscarded = true
      · simp only [hd, Bool.not_true, Bool.false_eq_true, if_false]
        cases ent with
        | none => exact mov_unignoreAll _ _
        | some en => exact Mov.pure _
      · simp only [hd, Bool.not_false, if_true]
        cases ent with
        | none => simp only [if_true]; exact Mov.bind (Mov.pure _) (fun _ => Mov.pure _)
        | some en =>
          simp only
          apply Mov.ite
          · refine Mov.bind ?_ (fun _ => Mov.pure _)
            split
            · exact Mov.when (mov_setItem _ _ _ _ _ _)
            · exact Mov.pure _
          · exact Mov.pure _
  have hch : Mov (chooseEntry cfg fuel s ot a prior) := by
    unfold chooseEntry
    refine Mov.bind Mov.getSt (fun st => ?_)
    simp only
    refine Mov.bind ?_ (fun ent => ?_)
    · split
      · refine Mov.bind ?_ (fun _ => hmp _ _)
        split
        · exact hre _ _
        · exact Mov.pure _
      · exact Mov.pure _
    · split
      · exact Mov.pure _
      · exact mov_newEntry _
  exact Mov.bind hch (fun e => Mov.bind Mov.getSt (fun _ => mov_updateEntry _ _ _ _ _))

theorem mov_forgetOid (s : Sd) (k : Oid) : Mov (forgetOid s k) := by
  unfold forgetOid
  refine Mov.bind Mov.getSt (fun st => ?_)
  split
  · exact Mov.pure _
  · exact Mov.modify (fun st => by simp)

/-- every operation but `reload` -/
theorem mov_step (cfg : Cfg) (fuel : Nat) (op : Op) (h : op ≠ .reload) : Mov (step cfg fuel op) := by
  unfold step
  refine Mov.bind Mov.getSt (fun st => ?_)
  dsimp only
  apply Mov.ite
  · exact fun st' => rfl
  · cases op with
    | tick ms => exact Mov.modify (fun st => rfl)
    | setSide e s fv => exact mov_sideSet _ _ _ _ _
    | setIgnored e v => exact mov_setIgnored _ _
    | setPriority e v => exact mov_setPriority (movF_sideSet cfg fuel) _ _ _
    | punt e => exact mov_setPriority (movF_sideSet cfg fuel) _ _ _
    | unignore e r => exact Mov.bind (Mov.assert _) (fun _ => mov_setIgnored _ _)
    | update s ot a prior => exact mov_update _ _ _ _ _ _
    | updateEntry e s a => exact mov_updateEntry _ _ _ _ _
    | split e => exact Mov.bind (mov_split _ _ _) (fun _ => Mov.pure _)
    | setItem d sd s ss => exact mov_setItem _ _ _ _ _ _
    | forget s k => exact mov_forgetOid _ _
    | clear e s => exact mov_clearSide _ _ _ _
    | mark e s => exact mov_markChanged _ _ _ _
    | commit => exact Mov.modify (fun st => rfl)
    | reload => exact absurd rfl h

end CS.State
