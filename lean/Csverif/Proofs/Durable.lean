import Csverif.Model.Durable
namespace CS.Durable
set_option linter.unusedVariables false

/-- what is in memory only is in the dirty set (or the walk is known to be incomplete) -/
def Aux (s : St) : Prop :=
  (∀ e ∈ s.found, e ∈ s.stored ∨ e ∈ s.dirty ∨ s.walkOk = false) ∧
  (∀ i ∈ s.seen, Ent.ev i ∈ s.stored ∨ Ent.ev i ∈ s.dirty)

theorem init_inv : DC {} ∧ Aux {} := by
  refine ⟨⟨?_, ?_⟩, ?_, ?_⟩ <;> simp

theorem step_inv (s : St) (a : Step) (hok : ok s a = true) (h : DC s ∧ Aux s) : DC (step s a) ∧ Aux (step s a) := by
  obtain ⟨⟨d1, d2⟩, a1, a2⟩ := h
  cases a with
  | walkBegin => exact ⟨⟨by simp [step], d2⟩, by simp [step], a2⟩
  | walkRecord k =>
    simp only [ok, Bool.not_eq_true'] at hok
    refine ⟨⟨by simp [step, hok], d2⟩, ?_, ?_⟩
    · intro e he
      simp only [step, List.mem_cons] at he ⊢
      rcases he with rfl | he
      · exact Or.inr (Or.inl (Or.inl rfl))
      · rcases a1 e he with h | h | h
        · exact Or.inl h
        · exact Or.inr (Or.inl (Or.inr h))
        · exact Or.inr (Or.inr h)
    · intro i hi
      rcases a2 i hi with h | h
      · exact Or.inl h
      · exact Or.inr (by simp [step, h])
  | commit =>
    refine ⟨⟨?_, ?_⟩, ?_, ?_⟩
    · intro hm e he; simp only [step, List.mem_append]; exact Or.inr (d1 hm e he)
    · intro p hp i hi hle; simp only [step, List.mem_append]; exact Or.inr (d2 p hp i hi hle)
    · intro e he
      simp only [step, List.mem_append]
      rcases a1 e he with h | h | h
      · exact Or.inl (Or.inr h)
      · exact Or.inl (Or.inl h)
      · exact Or.inr (Or.inr h)
    · intro i hi
      simp only [step, List.mem_append]
      rcases a2 i hi with h | h
      · exact Or.inl (Or.inr h)
      · exact Or.inl (Or.inl h)
  | writeMarker =>
    simp only [ok, Bool.and_eq_true, List.isEmpty_iff] at hok
    refine ⟨⟨?_, d2⟩, a1, a2⟩
    intro _ e he
    rcases a1 e he with h | h | h
    · exact h
    · simp [hok.1] at h
    · simp [hok.2] at h
  | dropMarker => exact ⟨⟨by simp [step], d2⟩, a1, a2⟩
  | writeCursor p =>
    simp only [ok, List.isEmpty_iff] at hok
    refine ⟨⟨d1, ?_⟩, a1, a2⟩
    intro q hq i hi _
    rcases a2 i hi with h | h
    · exact h
    · simp [hok] at h
  | processEvent i =>
    refine ⟨⟨d1, ?_⟩, ?_, ?_⟩
    · intro p hp j hj hle
      simp only [step] at hj hp ⊢
      by_cases hb : below s.cursor i = true
      · simp only [hb, if_true] at hj
        exact d2 p hp j hj hle
      · simp only [hb, Bool.false_eq_true, if_false, List.mem_cons] at hj
        rcases hj with rfl | hj
        · exfalso
          simp [below, hp] at hb
          omega
        · exact d2 p hp j hj hle
    · intro e he
      rcases a1 e he with h | h | h
      · exact Or.inl h
      · exact Or.inr (Or.inl (by simp [step, h]))
      · exact Or.inr (Or.inr h)
    · intro j hj
      simp only [step] at hj ⊢
      by_cases hb : below s.cursor i = true
      · simp only [hb, if_true] at hj
        rcases a2 j hj with h | h
        · exact Or.inl h
        · exact Or.inr (List.mem_cons_of_mem _ h)
      · simp only [hb, Bool.false_eq_true, if_false, List.mem_cons] at hj
        rcases hj with rfl | hj
        · exact Or.inr (List.mem_cons_self ..)
        · rcases a2 j hj with h | h
          · exact Or.inl h
          · exact Or.inr (List.mem_cons_of_mem _ h)
  | fault => exact ⟨⟨d1, d2⟩, a1, a2⟩
  | restart =>
    refine ⟨⟨d1, ?_⟩, ?_, ?_⟩
    · intro p hp i hi hle
      simp only [step, List.mem_filter] at hi
      exact d2 p hp i hi.1 hle
    · intro e he
      simp only [step] at he ⊢
      by_cases hs : e ∈ s.stored
      · exact Or.inl hs
      · right; right
        simp only [Bool.and_eq_false_iff]
        right
        simp only [List.all_eq_false]
        exact ⟨e, he, by simpa using hs⟩
    · intro i hi
      simp only [step, List.mem_filter, List.contains_iff_mem] at hi
      exact Or.inl hi.2
  | extCursorLost => exact ⟨⟨d1, by simp [step]⟩, a1, a2⟩
  | extMarkerLost => exact ⟨⟨by simp [step], d2⟩, a1, a2⟩
  | forget => exact init_inv

theorem run_inv (s : St) (steps : List Step) (hd : Disciplined s steps) (h : DC s ∧ Aux s) :
    DC (run s steps) ∧ Aux (run s steps) := by
  induction steps generalizing s with
  | nil => exact h
  | cons a as ih => exact ih (step s a) hd.2 (step_inv s a hd.1 h)

end CS.Durable
