import Csverif.Model.EngineXfer
import Mathlib.Tactic.SplitIfs
/-
ENG, part 2 — helper lemmas about the transfer leaves (Model/EngineXfer.lean): well-formedness of the temp directory (`FS.wf`),
what `make_temp_file` / `download_changed` leave behind, which bytes `upload_synced` / `create_synced` hand to the provider.
-/
namespace CS.Engine.Xfer
open CS.Hints (Ex OT Ign)

/-- a finished file under a KEYED name holds the bytes that were downloaded for that key's hash; RANDOM names in use are below the
    counter (fresh names are fresh) -/
def fileOk (next : Nat) (f : File) : Prop :=
  f.part = false → match f.loc.name with
    | .keyed _ h => f.bytes = h
    | .rand n => n < next ∧ f.bytes = 0

/-- "the temp directories only contain files this engine wrote" -/
def FS.wf (fs : FS) : Prop := ∀ f ∈ fs.files, fileOk fs.nextRand f

theorem fileOk_mono {n m : Nat} (h : n ≤ m) {f : File} (hf : fileOk n f) : fileOk m f := by
  intro hp
  have := hf hp
  cases hn : f.loc.name with
  | keyed p hh => simpa [hn] using this
  | rand k => simp only [hn] at this ⊢; exact ⟨by omega, this.2⟩

theorem wf_filter (fs : FS) (p : File → Bool) (h : fs.wf) : ({ fs with files := fs.files.filter p } : FS).wf := by
  intro f hf
  exact h f (List.mem_filter.mp hf).1

theorem wf_unlink (fs : FS) (l : Loc) (part : Bool) (h : fs.wf) : (fs.unlink l part).wf := wf_filter fs _ h

theorem wf_write (fs : FS) (l : Loc) (part : Bool) (b : Tag) (h : fs.wf) (hb : fileOk fs.nextRand ⟨l, part, b⟩) :
    (fs.write l part b).wf := by
  intro f hf
  simp only [FS.write, List.mem_cons] at hf
  rcases hf with rfl | hf
  · exact hb
  · exact wf_unlink fs l part h f hf

theorem find_some (fs : FS) (l : Loc) (part : Bool) (b : Tag) (h : fs.find l part = some b) :
    ∃ f ∈ fs.files, f.loc = l ∧ f.part = part ∧ f.bytes = b := by
  unfold FS.find at h
  split at h
  · simp only [Option.map_eq_some_iff] at h
    obtain ⟨f, hf, hb⟩ := h
    have hm := List.mem_of_find?_eq_some hf
    have hp := List.find?_some hf
    simp only [File.is, Bool.and_eq_true, beq_iff_eq] at hp
    exact ⟨f, hm, hp.1, hp.2, hb⟩
  · cases h

@[simp] theorem write_dirExists (fs : FS) (l : Loc) (part : Bool) (b : Tag) (d : Dir) :
    (fs.write l part b).dirExists d = fs.dirExists d := by cases d <;> rfl

@[simp] theorem unlink_dirExists (fs : FS) (l : Loc) (part : Bool) (d : Dir) :
    (fs.unlink l part).dirExists d = fs.dirExists d := by cases d <;> rfl

theorem find_write_same (fs : FS) (l : Loc) (part : Bool) (b : Tag) (hd : fs.dirExists l.dir = true) :
    (fs.write l part b).find l part = some b := by
  unfold FS.find
  rw [write_dirExists, hd]
  simp [FS.write, File.is]

/-- bytes found under a keyed name are the bytes of that key's hash -/
theorem find_keyed (fs : FS) (h : fs.wf) (d : Dir) (p hh : Tag) (b : Tag) (hf : fs.find ⟨d, .keyed p hh⟩ false = some b) : b = hh := by
  obtain ⟨f, hm, hl, hp, hb⟩ := find_some fs _ _ _ hf
  have := h f hm hp
  rw [hl] at this
  simp at this
  rw [← hb]; exact this

theorem no_fresh_rand (fs : FS) (h : fs.wf) (d : Dir) : fs.find ⟨d, .rand fs.nextRand⟩ false = none := by
  cases hf : fs.find ⟨d, .rand fs.nextRand⟩ false with
  | none => rfl
  | some b =>
    obtain ⟨f, hm, hl, hp, _⟩ := find_some fs _ _ _ hf
    have := h f hm hp
    rw [hl] at this
    simp at this

theorem find_with_next (fs : FS) (n : Nat) (l : Loc) (part : Bool) :
    ({ fs with nextRand := n } : FS).find l part = fs.find l part := by
  unfold FS.find FS.dirExists
  cases l.dir <;> rfl

theorem wf_cleanTemp (fs : FS) (s : XSide) (h : fs.wf) : (cleanTemp fs s).wf := by
  unfold cleanTemp
  split
  · exact wf_unlink _ _ _ h
  · exact h

@[simp] theorem cleanTemp_next (fs : FS) (s : XSide) : (cleanTemp fs s).nextRand = fs.nextRand := by
  unfold cleanTemp; split <;> rfl

/-- what `newTemp` returns -/
theorem newTemp_spec (fs : FS) (c : XSide) (name : Option Name) (hw : fs.wf) :
    (newTemp fs c name).1.wf ∧ (newTemp fs c name).1.curExists = true ∧
    (∃ l, (newTemp fs c name).2 = { c with temp := some l } ∧ l.dir = .cur ∧
      (match name with
        | some n => l.name = n
        | none => (newTemp fs c name).1.find l false = none ∧ ∃ n, l.name = .rand n ∧ n < (newTemp fs c name).1.nextRand)) := by
  have h1 := wf_cleanTemp fs c hw
  -- the directory is (re)created
  generalize hfs1 : (if !(cleanTemp fs c).curExists then
      ({ cleanTemp fs c with curExists := true, files := (cleanTemp fs c).files.filter (fun f => f.loc.dir != .cur) } : FS)
      else cleanTemp fs c) = fs1
  have h2 : fs1.wf ∧ fs1.curExists = true ∧ fs1.nextRand = fs.nextRand := by
    subst hfs1
    split_ifs with hc
    · exact ⟨wf_filter _ _ h1, rfl, by simp⟩
    · exact ⟨h1, by simpa using hc, by simp⟩
  unfold newTemp
  simp only [hfs1]
  cases name with
  | some n => exact ⟨h2.1, h2.2.1, ⟨.cur, n⟩, rfl, rfl, rfl⟩
  | none =>
    refine ⟨?_, h2.2.1, ⟨.cur, .rand fs1.nextRand⟩, rfl, rfl, ?_⟩
    · intro f hf
      exact fileOk_mono (Nat.le_succ _) (h2.1 f hf)
    · simp only []
      rw [find_with_next]
      exact ⟨no_fresh_rand fs1 h2.1 .cur, fs1.nextRand, rfl, Nat.lt_succ_self _⟩

/-- `make_temp_file` on a non-folder: the entry gets a `temp_file` whose name is the md5 of the CURRENT (path, hash) — or, without a
    hash, a fresh random name under which no finished file exists; the directory of that name exists; well-formedness is kept -/
theorem makeTempFile_spec (fs fs' : FS) (c c' : XSide) (hw : fs.wf) (hd : c.otype ≠ .dir)
    (h : makeTempFile fs c = .ok (fs', c')) :
    fs'.wf ∧ ∃ l, c' = { c with temp := some l } ∧ fs'.dirExists l.dir = true ∧
      ((∃ p hh, c.path = some p ∧ c.hash = some hh ∧ l.name = .keyed p hh) ∨
       (c.hash = none ∧ fs'.find l false = none ∧ ∃ n, l.name = .rand n ∧ n < fs'.nextRand)) := by
  rcases c with ⟨otype, oid, path, hash, sh, sp, ex, saved, changed, temp⟩
  have hd' : (otype == OT.dir) = false := by simpa using hd
  unfold makeTempFile at h
  simp only [hd', Bool.false_eq_true, if_false] at h
  cases hash with
  | none =>
    simp only at h
    injection h with h
    have sp' := newTemp_spec fs ⟨otype, oid, path, none, sh, sp, ex, saved, changed, temp⟩ none hw
    rw [h] at sp'
    obtain ⟨w, ce, l, hc, hl, hf⟩ := sp'
    exact ⟨w, l, hc, by rw [hl]; exact ce, Or.inr ⟨rfl, hf⟩⟩
  | some hv =>
    simp only at h
    cases path with
    | none => simp at h
    | some p =>
      simp only at h
      have fresh : ∀ t : Option Loc, ((Except.ok (newTemp fs ⟨otype, oid, some p, some hv, sh, sp, ex, saved, changed, t⟩ (some (.keyed p hv))) : Except XExc (FS × XSide)) = Except.ok (fs', c')) →
          fs'.wf ∧ ∃ l, c' = (⟨otype, oid, some p, some hv, sh, sp, ex, saved, changed, some l⟩ : XSide) ∧ fs'.dirExists l.dir = true ∧
            ((∃ p' hh, some p = some p' ∧ some hv = some hh ∧ l.name = .keyed p' hh) ∨
             ((some hv : Option Tag) = none ∧ fs'.find l false = none ∧ ∃ n, l.name = .rand n ∧ n < fs'.nextRand)) := by
        intro t h
        injection h with h
        have sp' := newTemp_spec fs ⟨otype, oid, some p, some hv, sh, sp, ex, saved, changed, t⟩ (some (.keyed p hv)) hw
        rw [h] at sp'
        obtain ⟨w, ce, l, hc, hl, hn⟩ := sp'
        exact ⟨w, l, hc, by rw [hl]; exact ce, Or.inl ⟨p, hv, rfl, rfl, hn⟩⟩
      cases temp with
      | none =>
        simp only [Bool.false_eq_true, if_false] at h
        exact fresh none h
      | some l =>
        simp only at h
        by_cases hk : (l.name == Name.keyed p hv && fs.dirExists l.dir) = true
        · rw [if_pos hk] at h
          injection h with h
          injection h with h1 h2
          subst h1 h2
          simp only [Bool.and_eq_true, beq_iff_eq] at hk
          exact ⟨hw, l, rfl, hk.2, Or.inl ⟨p, hv, rfl, rfl, hk.1⟩⟩
        · rw [if_neg hk] at h
          exact fresh (some l) h

/-- DOWNLOAD, SUCCESS (manager.py 512-530).  On a well-formed temp directory, when `download_changed` of a non-folder returns True the
    file `temp_file` names exists and holds the bytes of the side's CURRENT hash — whether it was just downloaded or reused; it was
    reused (no provider call) only under the md5 name of the current (path, hash); nothing else of the entry changed; the directory
    stays well-formed. -/
theorem downloadChanged_true (o : XOracle) (fs : FS) (e : XEntry) (hw : fs.wf) (hd : e.c.otype ≠ .dir)
    (h : (downloadChanged o fs e).out = .bool true) :
    (downloadChanged o fs e).fs.wf ∧
    ∃ l, (downloadChanged o fs e).ent = { e with c := { e.c with temp := some l } } ∧
      (downloadChanged o fs e).fs.find l false = some (e.c.hash.getD 0) ∧
      ((downloadChanged o fs e).effs = [.download] ∨
       ((downloadChanged o fs e).effs = [] ∧ ∃ p hh, e.c.path = some p ∧ e.c.hash = some hh ∧ l.name = .keyed p hh)) := by
  unfold downloadChanged at h ⊢
  cases hm : makeTempFile fs e.c with
  | error x => simp [hm] at h
  | ok pr =>
    obtain ⟨fs', c'⟩ := pr
    obtain ⟨w', l, hc, hde, hname⟩ := makeTempFile_spec fs fs' e.c c' hw hd hm
    simp only [hm] at h ⊢
    subst hc
    simp only at h ⊢
    by_cases h1 : e.c.oid = true
    case neg => simp [h1] at h
    simp only [h1, Bool.not_true, Bool.false_eq_true, if_false] at h ⊢
    by_cases h2 : fs'.has l false = true
    · -- reused
      simp only [h2, if_true] at h ⊢
      refine ⟨w', l, rfl, ?_, Or.inr ⟨trivial, ?_⟩⟩
      · cases hf : fs'.find l false with
        | none => simp [FS.has, hf] at h2
        | some b =>
          rcases hname with ⟨p, hh, hp, hhh, hn⟩ | ⟨hnone, hfn, _⟩
          · obtain ⟨d, n⟩ := l
            simp only at hn
            subst hn
            rw [find_keyed fs' w' d p hh b hf, hhh]; rfl
          · rw [hfn] at hf; cases hf
      · rcases hname with hk | ⟨hnone, hfn, _⟩
        · exact hk
        · simp [FS.has, hfn] at h2
    · -- downloaded
      simp only [h2, Bool.false_eq_true, if_false, hde, Bool.not_true] at h ⊢
      cases hdl : o.dl <;> simp only [hdl] at h ⊢ <;> try (simp at h; done)
      refine ⟨?_, l, rfl, ?_, Or.inl trivial⟩
      · apply wf_write
        · exact wf_unlink _ _ _ (wf_write _ _ _ _ w' (by intro hp; cases hp))
        · intro _
          rcases hname with ⟨p, hh, hp, hhh, hn⟩ | ⟨hnone, _, n, hn, hlt⟩
          · simp [hn, hhh]
          · simp only [hn, hnone, Option.getD_none]
            exact ⟨by simpa [FS.write, FS.unlink] using hlt, trivial⟩
      · apply find_write_same
        simp [hde]

@[simp] theorem setEx_fields (s : XSide) (v : Ex) :
    (s.setEx v).otype = s.otype ∧ (s.setEx v).hash = s.hash ∧ (s.setEx v).path = s.path ∧ (s.setEx v).syncHash = s.syncHash ∧
    (s.setEx v).changed = s.changed ∧ (s.setEx v).temp = s.temp ∧ (s.setEx v).oid = s.oid := by
  unfold XSide.setEx; split_ifs <;> simp

/-- `download_changed` in general: it calls the provider at most once, keeps the directory well-formed and changes nothing of the
    changed side but `temp_file` and (CloudFileNotFoundError) `exists` -/
theorem downloadChanged_any (o : XOracle) (fs : FS) (e : XEntry) (hw : fs.wf) (hd : e.c.otype ≠ .dir) :
    (downloadChanged o fs e).fs.wf ∧
    ((downloadChanged o fs e).effs = [] ∨ (downloadChanged o fs e).effs = [.download]) ∧
    (downloadChanged o fs e).ent.c.otype = e.c.otype ∧ (downloadChanged o fs e).ent.c.hash = e.c.hash ∧
    (downloadChanged o fs e).ent.c.syncHash = e.c.syncHash ∧ (downloadChanged o fs e).ent.c.changed = e.c.changed ∧
    (downloadChanged o fs e).ent.c.path = e.c.path := by
  unfold downloadChanged
  cases hm : makeTempFile fs e.c with
  | error x => simp [hw]
  | ok pr =>
    obtain ⟨fs', c'⟩ := pr
    obtain ⟨w', l, hc, hde, hname⟩ := makeTempFile_spec fs fs' e.c c' hw hd hm
    subst hc
    have wp : (fs'.write l true 0).wf := wf_write _ _ _ _ w' (by intro hp; cases hp)
    simp only
    by_cases h1 : e.c.oid = true
    case neg => simp [h1, w']
    simp only [h1, Bool.not_true, Bool.false_eq_true, if_false]
    by_cases h2 : fs'.has l false = true
    · simp [h2, w']
    · simp only [h2, Bool.false_eq_true, if_false, hde, Bool.not_true]
      cases hdl : o.dl <;> simp only <;> refine ⟨?_, by simp, ?_⟩
      all_goals (try (simp; done))
      · apply wf_write
        · exact wf_unlink _ _ _ wp
        · intro _
          rcases hname with ⟨p, hh, hp, hhh, hn⟩ | ⟨hnone, _, n, hn, hlt⟩
          · simp [hn, hhh]
          · simp only [hn, hnone, Option.getD_none]
            exact ⟨by simpa [FS.write, FS.unlink] using hlt, trivial⟩
      · exact wf_cleanTemp _ _ wp
      · exact wp
      · exact wp
      · exact wp
      · exact wp

/-! ### what is handed to the provider -/

theorem uploadSynced_bytes (o : XOracle) (fs : FS) (e : XEntry) (l : Loc) (b : Tag) (ht : e.c.temp = some l)
    (hf : fs.find l false = some b) :
    (∀ t, XEff.sent t ∈ (uploadSynced o fs e).effs → t = b) ∧ (uploadSynced o fs e).fs = fs := by
  unfold uploadSynced XRes.ofUpdate
  simp only [ht, hf]
  cases o.up <;> simp only
  all_goals (repeat' split)
  all_goals simp

theorem ofUpdate_fx (fx : List XEff) (r : Except XExc XEntry) : (Inner.ofUpdate fx r).fx = fx := by
  cases r <;> rfl

theorem recordCreate_fx (o : XOracle) (e : XEntry) (ih ip : Option Tag) (fx : List XEff) : (recordCreate o e ih ip fx).fx = fx := by
  unfold recordCreate
  cases ih with
  | none => rfl
  | some h =>
    simp only
    split_ifs
    · rfl
    · exact ofUpdate_fx _ _

theorem createInner_bytes (o : XOracle) (fs : FS) (e : XEntry) (l : Loc) (b : Tag) (ht : e.c.temp = some l)
    (hf : fs.find l false = some b) (t : Tag)
    (h : XEff.created t ∈ (createInner o fs e).fx ∨ XEff.hashData t ∈ (createInner o fs e).fx) : t = b := by
  have key : ∀ fx : List XEff, (∀ f ∈ fx, f = .created b ∨ f = .hashData b ∨ f = .infoPath) →
      (XEff.created t ∈ fx ∨ XEff.hashData t ∈ fx) → t = b := by
    intro fx hfx hh
    rcases hh with hh | hh <;> rcases hfx _ hh with h1 | h1 | h1 <;> first | (injection h1) | (cases h1)
  unfold createInner at h
  simp only [ht, hf] at h
  cases hcr : o.cr <;> simp only [hcr] at h
  · rw [recordCreate_fx] at h; exact key _ (by simp) h
  · cases hap : o.atPath with
    | none => simp only [hap] at h; exact key _ (by simp [Inner.fx]) h
    | some hv =>
      simp only [hap] at h
      split_ifs at h
      · exact key _ (by simp [Inner.fx]) h
      · rw [recordCreate_fx] at h; exact key _ (by simp) h
  all_goals exact key _ (by simp [Inner.fx]) h

theorem createSynced_bytes (o : XOracle) (fs : FS) (e : XEntry) (l : Loc) (b : Tag) (ht : e.c.temp = some l)
    (hf : fs.find l false = some b) :
    (∀ t, XEff.created t ∈ (createSynced o fs e).effs ∨ XEff.hashData t ∈ (createSynced o fs e).effs → t = b) ∧
    (createSynced o fs e).fs = fs := by
  have hi := createInner_bytes o fs e l b ht hf
  unfold createSynced XRes.ofUpdate
  cases hin : createInner o fs e <;> simp only [hin, Inner.fx] at hi ⊢
  all_goals (repeat' split)
  all_goals (refine ⟨?_, by first | rfl | trivial⟩; intro t h; apply hi t; simpa using h)

theorem downloadChanged_out (o : XOracle) (fs : FS) (e : XEntry) :
    (∃ b, (downloadChanged o fs e).out = .bool b) ∨ (∃ x, (downloadChanged o fs e).out = .raised x) := by
  unfold downloadChanged
  cases makeTempFile fs e.c with
  | error x => exact Or.inr ⟨x, rfl⟩
  | ok pr =>
    simp only
    split_ifs
    · exact Or.inr ⟨_, rfl⟩
    · cases pr.2.temp with
      | none => exact Or.inr ⟨_, rfl⟩
      | some l =>
        simp only
        split_ifs
        · exact Or.inl ⟨_, rfl⟩
        · exact Or.inl ⟨_, rfl⟩
        · cases o.dl <;> simp

theorem uploadSynced_ok (o : XOracle) (fs : FS) (e : XEntry) (l : Loc) (b : Tag) (ht : e.c.temp = some l)
    (hf : fs.find l false = some b) (hup : o.up = .ok) :
    (uploadSynced o fs e).effs = [.sent b] ∧
    ((uploadSynced o fs e).out = .bool true →
      (uploadSynced o fs e).ent.c.syncHash = e.c.hash ∧ (uploadSynced o fs e).ent.c.syncPath = e.c.path) ∧
    ((uploadSynced o fs e).out = .bool true ∨ (uploadSynced o fs e).out = .raised .assertion) := by
  unfold uploadSynced XRes.ofUpdate updateSynced
  simp only [ht, hf, hup]
  split_ifs <;> simp

theorem updateSynced_c (e e' : XEntry) (b : Bool) (p h : Option Tag) (hu : updateSynced e b p h = .ok e') : e'.c = e.c := by
  unfold updateSynced at hu
  simp only at hu
  split_ifs at hu
  all_goals (injection hu with hu; subst hu; rfl)

theorem ofUpdate_c (out : XOut) (fx : List XEff) (fs : FS) (fb : XEntry) (r : Except XExc XEntry)
    (h : ∀ e', r = .ok e' → e'.c = fb.c) : (XRes.ofUpdate out fx fs fb r).ent.c = fb.c := by
  cases r with
  | ok e' => exact h e' rfl
  | error x => rfl

theorem uploadSynced_c_otype (o : XOracle) (fs : FS) (e : XEntry) : (uploadSynced o fs e).ent.c.otype = e.c.otype := by
  unfold uploadSynced
  cases e.c.temp with
  | none => rfl
  | some l =>
    simp only
    cases fs.find l false with
    | none => rfl
    | some b =>
      simp only
      cases o.up <;> (try simp only)
      all_goals first
        | rfl
        | (rw [ofUpdate_c _ _ _ _ _ (fun e' he => updateSynced_c _ e' _ _ _ he)])
        | (by_cases hi : o.infoAfterFnf = true <;> simp [hi])

theorem ofUpdate_fs (out : XOut) (fx : List XEff) (fs : FS) (fb : XEntry) (r : Except XExc XEntry) :
    (XRes.ofUpdate out fx fs fb r).fs = fs := by cases r <;> rfl

theorem uploadSynced_fs (o : XOracle) (fs : FS) (e : XEntry) : (uploadSynced o fs e).fs = fs := by
  unfold uploadSynced
  cases e.c.temp with
  | none => rfl
  | some l =>
    simp only
    cases fs.find l false with
    | none => rfl
    | some b =>
      simp only
      cases o.up <;> (try simp only)
      all_goals first
        | rfl
        | exact ofUpdate_fs _ _ _ _ _
        | (by_cases hi : o.infoAfterFnf = true <;> simp [hi])

/-- the transfer keeps the temp directory well-formed and the type of the changed side -/
theorem transferUpload_wf (o : XOracle) (fs : FS) (e : XEntry) (hw : fs.wf) (hd : e.c.otype ≠ .dir) :
    (transferUpload o fs e).fs.wf ∧ (transferUpload o fs e).ent.c.otype = e.c.otype := by
  have hany := downloadChanged_any o fs e hw hd
  have hfs' := uploadSynced_fs o (downloadChanged o fs e).fs (downloadChanged o fs e).ent
  have hot := uploadSynced_c_otype o (downloadChanged o fs e).fs (downloadChanged o fs e).ent
  unfold transferUpload
  simp only
  cases hout : (downloadChanged o fs e).out with
  | bool bb =>
    cases bb with
    | false => exact ⟨hany.1, hany.2.2.1⟩
    | true =>
      simp only
      split <;> simp only [hfs', hot] <;> exact ⟨hany.1, hany.2.2.1⟩
  | code r => exact ⟨hany.1, hany.2.2.1⟩
  | unit => exact ⟨hany.1, hany.2.2.1⟩
  | raised x => exact ⟨hany.1, hany.2.2.1⟩

end CS.Engine.Xfer
