import Csverif.Proofs.StateHook
/-
C11: the `_kids_moving` stack (fix C) is a stack: every operation of the model leaves it as it found it, on every outcome.
-/
namespace CS.State

/-- `m` leaves `_kids_moving` unchanged, whatever the outcome -/
def Mov {α} (m : M α) : Prop := ∀ st, (m st).2.moving = st.moving

namespace Mov
variable {α β : Type}

theorem pure (a : α) : Mov (Pure.pure a : M α) := fun _ => rfl
theorem bind {m : M α} {f : α → M β} (h1 : Mov m) (h2 : ∀ a, Mov (f a)) : Mov (m >>= f) := by
  intro st
  simp only [M.bind_apply]
  have := h1 st
  cases hm : m st with
  | mk r st' =>
    rw [hm] at this
    cases r with
    | ok a => exact (h2 a st').trans this
    | error x => exact this
theorem getSt : Mov getSt := fun _ => rfl
theorem modify {f : St → St} (h : ∀ st, (f st).moving = st.moving) : Mov (modifySt f) := fun st => h st
theorem throw (x : Exc) : Mov (throwE x : M α) := fun _ => rfl
theorem assert (b : Bool) : Mov (assertM b) := by intro st; rw [assertM_apply]; split <;> rfl
theorem when {c : Bool} {m : M Unit} (h : Mov m) : Mov (whenM c m) := by
  unfold whenM; cases c
  · exact pure ()
  · exact h
theorem ite {c : Prop} [Decidable c] {a b : M α} (h : Mov a) (h' : Mov b) : Mov (if c then a else b) := by split <;> assumption
theorem finally_ {m : M α} {f g : St → St} (h : ∀ st, ((modifySt g >>= fun _ => m) st).2.moving = (g st).moving)
    (hfg : ∀ st st', st'.moving = (g st).moving → (f st').moving = st.moving) :
    Mov (finallyM (modifySt g >>= fun _ => m) f) := by
  intro st
  unfold finallyM
  have := h st
  cases hm : (modifySt g >>= fun _ => m) st with
  | mk r st' => rw [hm] at this; exact hfg st st' this
end Mov

section movproj
variable (st : St)
@[simp] theorem moving_setIx (s : Sd) (x) : (st.setIx s x).moving = st.moving := by cases s <;> rfl
@[simp] theorem moving_setOids (s : Sd) (o) : (st.setOids s o).moving = st.moving := by simp [St.setOids]
@[simp] theorem moving_setPaths (s : Sd) (o) : (st.setPaths s o).moving = st.moving := by simp [St.setPaths]
@[simp] theorem moving_modEnt (i : Nat) (f) : (st.modEnt i f).moving = st.moving := rfl
@[simp] theorem moving_modSide (i : Nat) (s : Sd) (f) : (st.modSide i s f).moving = st.moving := rfl
@[simp] theorem moving_csAdd (i : Nat) : (st.csAdd i).moving = st.moving := rfl
@[simp] theorem moving_csDiscard (i : Nat) : (st.csDiscard i).moving = st.moving := rfl
@[simp] theorem moving_dirtyAdd (i : Nat) : (st.dirtyAdd i).moving = st.moving := rfl
@[simp] theorem moving_popPathSlot (s : Sd) (p k) : (st.popPathSlot s p k).moving = st.moving := by
  unfold St.popPathSlot; split
  · rfl
  · dsimp only; split <;> simp
@[simp] theorem moving_setPathSlot (s : Sd) (p k) (i : Nat) : (st.setPathSlot s p k i).moving = st.moving := by simp [St.setPathSlot]
@[simp] theorem moving_unindex (s r p) : (unindex st s r p).moving = st.moving := by unfold unindex; split <;> simp
@[simp] theorem moving_indexOid (e s k) : (indexOid st e s k).moving = st.moving := by unfold indexOid; simp only []; split <;> simp
@[simp] theorem moving_oidCsRule (e s k) : (oidCsRule st e s k).moving = st.moving := by unfold oidCsRule; split <;> split <;> simp
@[simp] theorem moving_ignoredState (e v) : (ignoredState st e v).moving = st.moving := by
  unfold ignoredState; split
  · rfl
  · simp only; split <;> simp
@[simp] theorem moving_existsState (e s v) : (existsState st e s v).moving = st.moving := by
  unfold existsState; simp only; split
  · simp
  · split <;> simp
@[simp] theorem moving_hashState (e s v) : (hashState st e s v).moving = st.moving := by
  unfold hashState; simp only; split <;> simp
end movproj

/-- a setter that keeps the stack -/
def MovF (setF : SetF) : Prop := ∀ e s fv, Mov (setF e s fv)

theorem mov_removeOne {setF : SetF} (h : MovF setF) (s e r) : Mov (removeOne setF s e r) := by
  unfold removeOne
  refine Mov.bind Mov.getSt (fun st => ?_)
  split
  · exact Mov.pure _
  · exact Mov.bind (Mov.modify (fun st => by simp)) (fun _ => Mov.when (h _ _ _))

theorem mov_changeOid {setF : SetF} (h : MovF setF) (s e oid) : Mov (changeOid setF s e oid) := by
  unfold changeOid
  refine Mov.bind Mov.getSt (fun st => ?_)
  refine Mov.bind (mov_removeOne h _ _ _) (fun _ => ?_)
  refine Mov.bind (Mov.when (mov_removeOne h _ _ _)) (fun _ => ?_)
  refine Mov.bind (Mov.when ?_) (fun _ => Mov.modify (fun st => by simp))
  exact Mov.bind (Mov.modify (fun st => by simp)) (fun _ => Mov.bind Mov.getSt (fun _ => Mov.assert _))

theorem mov_bumpChanged {setF : SetF} (h : MovF setF) (cfg e s) : Mov (bumpChanged setF cfg e s) := by
  unfold bumpChanged
  refine Mov.bind Mov.getSt (fun st => ?_)
  split
  · exact Mov.when (h _ _ _)
  · exact Mov.pure _

theorem mov_setPriority {setF : SetF} (h : MovF setF) (cfg e v) : Mov (setPriority setF cfg e v) := by
  unfold setPriority
  refine Mov.bind Mov.getSt (fun st => Mov.when ?_)
  refine Mov.bind (Mov.when (Mov.bind (mov_bumpChanged h _ _ _) (fun _ => mov_bumpChanged h _ _ _))) (fun _ => Mov.modify (fun st => by simp))

theorem mov_fixSyncPath {setF : SetF} (h : MovF setF) (cfg s sub prior path) : Mov (fixSyncPath setF cfg s sub prior path) := by
  unfold fixSyncPath
  refine Mov.bind Mov.getSt (fun st => ?_)
  split
  · split
    · exact h _ _ _
    · exact Mov.pure _
  · exact Mov.pure _

theorem mov_moveKid {setF : SetF} (h : MovF setF) (cfg s sub prior path rel) : Mov (moveKid setF cfg s sub prior path rel) := by
  unfold moveKid
  simp only
  refine Mov.bind (Mov.when ?_) (fun _ => Mov.bind (h _ _ _) (fun _ => mov_fixSyncPath h _ _ _ _ _))
  split
  · exact h _ _ _
  · exact Mov.pure _

theorem mov_kidsLoop {setF : SetF} (h : MovF setF) (cfg s prior path) : ∀ l, Mov (kidsLoop setF cfg s prior path l)
  | [] => Mov.pure _
  | sub :: rest => by
    unfold kidsLoop
    refine Mov.bind Mov.getSt (fun st => ?_)
    split
    · exact mov_kidsLoop h cfg s prior path rest
    · split
      · exact mov_kidsLoop h cfg s prior path rest
      · exact Mov.bind (mov_moveKid h _ _ _ _ _ _) (fun _ => mov_kidsLoop h cfg s prior path rest)

theorem mov_updateKidsOf {setF : SetF} (h : MovF setF) (cfg s e prior path) : Mov (updateKidsOf setF cfg s e prior path) := by
  unfold updateKidsOf
  refine Mov.bind Mov.getSt (fun st => ?_)
  split
  · exact Mov.pure _
  · exact Mov.when (mov_kidsLoop h _ _ _ _ _)

theorem mov_updateKids {setF : SetF} (h : MovF setF) (cfg s e prior path) : Mov (updateKids setF cfg s e prior path) := by
  unfold updateKids
  apply Mov.finally_
  · intro st
    simp only [M.bind_apply, modifySt_apply]
    exact mov_updateKidsOf h cfg s e prior path _
  · intro st st' hm
    simp only [hm, List.tail_cons]

theorem mov_oustPathOwner (s e pth) : Mov (oustPathOwner s e pth) := by
  unfold oustPathOwner
  refine Mov.bind Mov.getSt (fun st => ?_)
  split
  · exact Mov.bind (Mov.assert _) (fun _ => Mov.modify (fun st => by simp))
  · exact Mov.pure _

theorem mov_changePath {setF : SetF} (h : MovF setF) (cfg s e path) : Mov (changePath setF cfg s e path) := by
  unfold changePath
  refine Mov.bind Mov.getSt (fun st => Mov.bind (Mov.assert _) (fun _ => ?_))
  simp only
  apply Mov.ite (Mov.pure _)
  refine Mov.bind (Mov.modify (fun st => by split <;> simp)) (fun _ => ?_)
  split
  · refine Mov.bind (mov_oustPathOwner _ _ _) (fun _ => Mov.bind (Mov.modify (fun st => by simp)) (fun _ => ?_))
    exact Mov.bind (mov_updateKids h _ _ _ _ _) (fun _ => mov_setPriority h _ _ _)
  · exact Mov.pure _

theorem mov_changedRule (s e v) : Mov (changedRule s e v) := by
  unfold changedRule
  refine Mov.bind Mov.getSt (fun st => ?_)
  simp only
  apply Mov.ite (Mov.modify (fun st => by first | rfl | simp))
  exact Mov.modify (fun st => by split <;> first | rfl | simp)

theorem mov_updatedSide {setF : SetF} (h : MovF setF) (cfg e s fv) : Mov (updatedSide setF cfg e s fv) := by
  unfold updatedSide
  refine Mov.bind ?_ (fun _ => Mov.modify (fun st => by simp))
  split
  · exact mov_changePath h _ _ _ _
  · exact mov_changeOid h _ _ _
  · exact mov_changedRule _ _ _
  · exact Mov.pure _

theorem mov_sideSetBody {setF : SetF} (h : MovF setF) (cfg e s fv) : Mov (sideSetBody setF cfg e s fv) := by
  unfold sideSetBody
  split
  all_goals first
    | exact Mov.bind (mov_updatedSide h _ _ _ _) (fun _ => Mov.modify (fun st => by simp))
    | exact Mov.modify (fun st => by simp)

theorem movF_sideSet (cfg : Cfg) : ∀ n, MovF (sideSet cfg n)
  | 0 => fun _ _ _ => Mov.throw _
  | n + 1 => fun e s fv => mov_sideSetBody (movF_sideSet cfg n) cfg e s fv

/-- `ent[side].<attr> = v` leaves `_kids_moving` as it found it, on every outcome -/
theorem sideSet_moving (cfg : Cfg) (n : Nat) (e : Nat) (s : Sd) (fv : FV) (st : St) :
    (sideSet cfg n e s fv st).2.moving = st.moving := movF_sideSet cfg n e s fv st


end CS.State
