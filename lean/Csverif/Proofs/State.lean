import Csverif.Model.State
/-
Helper lemmas for C11 (sync-state index integrity): dictionary algebra, state projections, the invariant
`Inv X Y` with its exemption sets, and the Hoare-style rules used to walk the model.
-/
namespace CS.State

/-! ### association lists -/
namespace AL
variable {κ β : Type} [DecidableEq κ]

@[simp] theorem get_nil (k : κ) : get ([] : List (κ × β)) k = none := rfl

theorem get_erase (l : List (κ × β)) (k k' : κ) : get (erase l k) k' = if k' = k then none else get l k' := by
  induction l with
  | nil => simp [erase]
  | cons a t ih =>
    obtain ⟨ka, va⟩ := a
    by_cases h : ka = k
    · subst h
      simp only [erase, if_true, ih, get]
      by_cases h2 : k' = ka
      · simp [h2]
      · have : ¬ ka = k' := fun h => h2 h.symm
        simp [h2, this]
    · simp only [erase, h, if_false, get, ih]
      by_cases h2 : ka = k'
      · subst h2; simp [h]
      · simp [h2]

theorem get_set (l : List (κ × β)) (k k' : κ) (v : β) : get (set l k v) k' = if k' = k then some v else get l k' := by
  induction l with
  | nil =>
    by_cases h : k = k'
    · subst h; simp [set, get]
    · have : ¬ k' = k := fun h' => h h'.symm
      simp [set, get, h, this]
  | cons a t ih =>
    obtain ⟨ka, va⟩ := a
    by_cases h : ka = k
    · subst h
      simp only [set, if_true, get]
      by_cases h2 : ka = k'
      · subst h2; simp
      · have : ¬ k' = ka := fun h' => h2 h'.symm
        simp [h2, this]
    · simp only [set, h, if_false, get, ih]
      by_cases h2 : ka = k'
      · subst h2
        have : ¬ ka = k := h
        simp [this]
      · simp [h2]

theorem erase_eq_nil_of_get (l : List (κ × β)) (k : κ) (h : erase l k = []) (k' : κ) (hk : k' ≠ k) : get l k' = none := by
  have := get_erase l k k'
  rw [h] at this
  simpa [hk] using this.symm

theorem get_ne_none_of_ne_nil_erase (l : List (κ × β)) (k : κ) (h : erase l k ≠ []) : ∃ k' v, k' ≠ k ∧ get l k' = some v := by
  induction l with
  | nil => simp [erase] at h
  | cons a t ih =>
    obtain ⟨ka, va⟩ := a
    by_cases hk : ka = k
    · subst hk
      simp only [erase, if_true] at h
      obtain ⟨k', v, h1, h2⟩ := ih h
      refine ⟨k', v, h1, ?_⟩
      have : ¬ ka = k' := fun h' => h1 h'.symm
      simp [get, this, h2]
    · exact ⟨ka, va, hk, by simp [get]⟩

theorem ne_nil_of_get {l : List (κ × β)} {k : κ} {v : β} (h : get l k = some v) : l ≠ [] := by
  intro hl; subst hl; simp at h

theorem set_ne_nil (l : List (κ × β)) (k : κ) (v : β) : set l k v ≠ [] := by
  cases l with
  | nil => simp [set]
  | cons a t =>
    obtain ⟨ka, va⟩ := a
    simp only [set]; split <;> simp

theorem mem_of_get {l : List (κ × β)} {k : κ} {v : β} (h : get l k = some v) : (k, v) ∈ l := by
  induction l with
  | nil => simp at h
  | cons a t ih =>
    obtain ⟨ka, va⟩ := a
    simp only [get] at h
    split at h
    · next hk => subst hk; cases h; simp
    · exact List.mem_cons_of_mem _ (ih h)

theorem mem_of_mem_set {l : List (κ × β)} {k : κ} {v : β} {x : κ × β} (h : x ∈ set l k v) : x = (k, v) ∨ x ∈ l := by
  induction l with
  | nil => simp [set] at h; exact Or.inl h
  | cons a t ih =>
    obtain ⟨ka, va⟩ := a
    simp only [set] at h
    split at h
    · rcases List.mem_cons.1 h with h | h
      · exact Or.inl h
      · exact Or.inr (List.mem_cons_of_mem _ h)
    · rcases List.mem_cons.1 h with h | h
      · exact Or.inr (by rw [h]; exact List.mem_cons_self ..)
      · rcases ih h with h | h
        · exact Or.inl h
        · exact Or.inr (List.mem_cons_of_mem _ h)

theorem mem_of_mem_erase {l : List (κ × β)} {k : κ} {x : κ × β} (h : x ∈ erase l k) : x ∈ l := by
  induction l with
  | nil => simp [erase] at h
  | cons a t ih =>
    obtain ⟨ka, va⟩ := a
    simp only [erase] at h
    split at h
    · exact List.mem_cons_of_mem _ (ih h)
    · rcases List.mem_cons.1 h with h | h
      · rw [h]; exact List.mem_cons_self ..
      · exact List.mem_cons_of_mem _ (ih h)

end AL

/-! ### projections of the state modifiers -/
section proj
variable (st : St)

@[simp] theorem oids_setOids (s s' : Sd) (o) : (st.setOids s o).oids s' = if s' = s then o else st.oids s' := by
  cases s <;> cases s' <;> simp [St.setOids, St.oids, St.setIx, St.ix]
@[simp] theorem paths_setOids (s s' : Sd) (o) : (st.setOids s o).paths s' = st.paths s' := by
  cases s <;> cases s' <;> simp [St.setOids, St.paths, St.setIx, St.ix]
@[simp] theorem ents_setOids (s : Sd) (o) : (st.setOids s o).ents = st.ents := by
  cases s <;> simp [St.setOids, St.setIx]
@[simp] theorem cs_setOids (s : Sd) (o) : (st.setOids s o).cs = st.cs := by
  cases s <;> simp [St.setOids, St.setIx]
@[simp] theorem oids_setPaths (s s' : Sd) (o) : (st.setPaths s o).oids s' = st.oids s' := by
  cases s <;> cases s' <;> simp [St.setPaths, St.oids, St.setIx, St.ix]
@[simp] theorem paths_setPaths (s s' : Sd) (o) : (st.setPaths s o).paths s' = if s' = s then o else st.paths s' := by
  cases s <;> cases s' <;> simp [St.setPaths, St.paths, St.setIx, St.ix]
@[simp] theorem ents_setPaths (s : Sd) (o) : (st.setPaths s o).ents = st.ents := by
  cases s <;> simp [St.setPaths, St.setIx]
@[simp] theorem cs_setPaths (s : Sd) (o) : (st.setPaths s o).cs = st.cs := by
  cases s <;> simp [St.setPaths, St.setIx]

@[simp] theorem ent_setOids (s : Sd) (o) (i : Nat) : (st.setOids s o).ent i = st.ent i := by simp [St.ent]
@[simp] theorem ent_setPaths (s : Sd) (o) (i : Nat) : (st.setPaths s o).ent i = st.ent i := by simp [St.ent]
@[simp] theorem side_setOids (s : Sd) (o) (i : Nat) (s' : Sd) : (st.setOids s o).side i s' = st.side i s' := by simp [St.side]
@[simp] theorem side_setPaths (s : Sd) (o) (i : Nat) (s' : Sd) : (st.setPaths s o).side i s' = st.side i s' := by simp [St.side]

@[simp] theorem oids_modEnt (i : Nat) (f) (s : Sd) : (st.modEnt i f).oids s = st.oids s := by
  cases s <;> simp [St.modEnt, St.oids, St.ix]
@[simp] theorem paths_modEnt (i : Nat) (f) (s : Sd) : (st.modEnt i f).paths s = st.paths s := by
  cases s <;> simp [St.modEnt, St.paths, St.ix]
@[simp] theorem cs_modEnt (i : Nat) (f) : (st.modEnt i f).cs = st.cs := rfl
@[simp] theorem len_modEnt (i : Nat) (f) : (st.modEnt i f).ents.length = st.ents.length := by simp [St.modEnt]
theorem ent_modEnt (i j : Nat) (f) : (st.modEnt i f).ent j = if j = i ∧ i < st.ents.length then f (st.ent i) else st.ent j := by
  unfold St.modEnt St.ent
  by_cases h : j = i
  · subst h
    by_cases h2 : j < st.ents.length
    · simp [h2, List.getD_eq_getElem?_getD]
    · simp [h2, List.getD_eq_getElem?_getD, List.getElem?_eq_none (Nat.le_of_not_lt h2)]
  · have : ¬ i = j := fun h' => h h'.symm
    simp [h, List.getD_eq_getElem?_getD, List.getElem?_set, this]

@[simp] theorem oids_modSide (i : Nat) (s' : Sd) (f) (s : Sd) : (st.modSide i s' f).oids s = st.oids s := by simp [St.modSide]
@[simp] theorem paths_modSide (i : Nat) (s' : Sd) (f) (s : Sd) : (st.modSide i s' f).paths s = st.paths s := by simp [St.modSide]
@[simp] theorem cs_modSide (i : Nat) (s' : Sd) (f) : (st.modSide i s' f).cs = st.cs := rfl
@[simp] theorem len_modSide (i : Nat) (s' : Sd) (f) : (st.modSide i s' f).ents.length = st.ents.length := by simp [St.modSide]

@[simp] theorem side_setSide (e : Entry) (s s' : Sd) (x : Side) : (e.setSide s x).side s' = if s' = s then x else e.side s' := by
  cases s <;> cases s' <;> simp [Entry.setSide, Entry.side]

theorem side_modSide (i j : Nat) (s s' : Sd) (f) :
    (st.modSide i s f).side j s' = if j = i ∧ s' = s ∧ i < st.ents.length then f (st.side i s) else st.side j s' := by
  unfold St.modSide St.side
  rw [ent_modEnt]
  by_cases h : j = i ∧ i < st.ents.length
  · obtain ⟨h1, h2⟩ := h
    subst h1
    by_cases h3 : s' = s
    · simp [h2, h3]
    · simp [h2, h3]
  · have : ¬ (j = i ∧ s' = s ∧ i < st.ents.length) := fun ⟨a, _, c⟩ => h ⟨a, c⟩
    simp [h, this]

@[simp] theorem oids_csAdd (i : Nat) (s : Sd) : (st.csAdd i).oids s = st.oids s := by cases s <;> rfl
@[simp] theorem paths_csAdd (i : Nat) (s : Sd) : (st.csAdd i).paths s = st.paths s := by cases s <;> rfl
@[simp] theorem ents_csAdd (i : Nat) : (st.csAdd i).ents = st.ents := rfl
@[simp] theorem side_csAdd (i j : Nat) (s : Sd) : (st.csAdd i).side j s = st.side j s := rfl
@[simp] theorem oids_csDiscard (i : Nat) (s : Sd) : (st.csDiscard i).oids s = st.oids s := by cases s <;> rfl
@[simp] theorem paths_csDiscard (i : Nat) (s : Sd) : (st.csDiscard i).paths s = st.paths s := by cases s <;> rfl
@[simp] theorem ents_csDiscard (i : Nat) : (st.csDiscard i).ents = st.ents := rfl
@[simp] theorem side_csDiscard (i j : Nat) (s : Sd) : (st.csDiscard i).side j s = st.side j s := rfl
@[simp] theorem oids_dirtyAdd (i : Nat) (s : Sd) : (st.dirtyAdd i).oids s = st.oids s := by cases s <;> rfl
@[simp] theorem paths_dirtyAdd (i : Nat) (s : Sd) : (st.dirtyAdd i).paths s = st.paths s := by cases s <;> rfl
@[simp] theorem ents_dirtyAdd (i : Nat) : (st.dirtyAdd i).ents = st.ents := rfl
@[simp] theorem cs_dirtyAdd (i : Nat) : (st.dirtyAdd i).cs = st.cs := rfl
@[simp] theorem side_dirtyAdd (i j : Nat) (s : Sd) : (st.dirtyAdd i).side j s = st.side j s := rfl

theorem mem_setAdd (l : List Nat) (i j : Nat) : j ∈ setAdd l i ↔ j = i ∨ j ∈ l := by
  unfold setAdd; split
  · constructor
    · exact Or.inr
    · rintro (h | h)
      · subst h; assumption
      · exact h
  · simp [List.mem_append, or_comm]
theorem mem_setDiscard (l : List Nat) (i j : Nat) : j ∈ setDiscard l i ↔ j ≠ i ∧ j ∈ l := by
  simp [setDiscard, List.mem_filter, and_comm]
@[simp] theorem mem_csAdd (i j : Nat) : j ∈ (st.csAdd i).cs ↔ j = i ∨ j ∈ st.cs := mem_setAdd ..
@[simp] theorem mem_csDiscard (i j : Nat) : j ∈ (st.csDiscard i).cs ↔ j ≠ i ∧ j ∈ st.cs := mem_setDiscard ..

end proj

end CS.State
