import Csverif.Model.Path
/- helper lemmas for Props/C13.lean -/
namespace CS.Path

/-! ### rstrip / lstrip / strip -/

theorem rstrip_spec (c : Char) (s : Str) : ∃ k, s = rstrip c s ++ List.replicate k c := by
  induction s with
  | nil => exact ⟨0, rfl⟩
  | cons x xs ih =>
    obtain ⟨k, hk⟩ := ih
    simp only [rstrip]
    split
    · rename_i h
      simp only [Bool.and_eq_true, List.isEmpty_iff, beq_iff_eq] at h
      refine ⟨k+1, ?_⟩
      rw [h.1] at hk
      simp only [List.nil_append] at hk
      simp [hk, h.2, List.replicate_succ]
    · exact ⟨k, by simp [← hk]⟩

theorem rstrip_getLast? (c : Char) (s : Str) : (rstrip c s).getLast? ≠ some c := by
  induction s with
  | nil => simp [rstrip]
  | cons x xs ih =>
    simp only [rstrip]
    split
    · simp
    · rename_i h
      cases hr : rstrip c xs with
      | nil => simp [hr] at h; simpa using h
      | cons y ys => rw [hr] at ih; simpa [List.getLast?_cons_cons] using ih

theorem rstrip_eq_self (c : Char) (s : Str) (h : s.getLast? ≠ some c) : rstrip c s = s := by
  induction s with
  | nil => rfl
  | cons x xs ih =>
    simp only [rstrip]
    cases xs with
    | nil => simp at h; simp [rstrip]; intro h'; exact absurd h' h
    | cons y ys =>
      rw [List.getLast?_cons_cons] at h
      rw [ih h]; simp

theorem rstrip_idem (c : Char) (s : Str) : rstrip c (rstrip c s) = rstrip c s :=
  rstrip_eq_self c _ (rstrip_getLast? c s)

theorem rstrip_append_of_ne (c x : Char) (a t : Str) (hx : x ≠ c) :
    rstrip c (a ++ x :: t) = a ++ x :: rstrip c t := by
  induction a with
  | nil => simp [rstrip, hx]
  | cons y ys ih => simp [rstrip, ih]

theorem mem_rstrip {c x : Char} {s : Str} (h : x ∈ rstrip c s) : x ∈ s := by
  obtain ⟨k, hk⟩ := rstrip_spec c s
  rw [hk]; exact List.mem_append_left _ h

theorem rstrip_head? (c : Char) (s : Str) (h : s.head? ≠ some c) : (rstrip c s).head? ≠ some c := by
  cases s with
  | nil => simp [rstrip]
  | cons x xs =>
    simp at h
    simp only [rstrip]
    split
    · simp
    · simpa using h

theorem lstrip_spec (c : Char) (s : Str) : ∃ k, s = List.replicate k c ++ lstrip c s := by
  induction s with
  | nil => exact ⟨0, rfl⟩
  | cons x xs ih =>
    obtain ⟨k, hk⟩ := ih
    simp only [lstrip]
    split
    · rename_i h
      simp only [beq_iff_eq] at h
      exact ⟨k+1, by rw [List.replicate_succ, h]; simp [← hk]⟩
    · exact ⟨0, rfl⟩

theorem lstrip_head? (c : Char) (s : Str) : (lstrip c s).head? ≠ some c := by
  induction s with
  | nil => simp [lstrip]
  | cons x xs ih =>
    simp only [lstrip]
    split
    · exact ih
    · rename_i h; simpa using h

theorem lstrip_eq_self (c : Char) (s : Str) (h : s.head? ≠ some c) : lstrip c s = s := by
  cases s with
  | nil => rfl
  | cons x xs => simp at h; simp [lstrip, h]

theorem mem_lstrip {c x : Char} {s : Str} (h : x ∈ lstrip c s) : x ∈ s := by
  obtain ⟨k, hk⟩ := lstrip_spec c s
  rw [hk]; exact List.mem_append_right _ h

theorem strip_head? (c : Char) (s : Str) : (strip c s).head? ≠ some c :=
  rstrip_head? c _ (lstrip_head? c s)

theorem strip_getLast? (c : Char) (s : Str) : (strip c s).getLast? ≠ some c :=
  rstrip_getLast? c _

theorem mem_strip {c x : Char} {s : Str} (h : x ∈ strip c s) : x ∈ s :=
  mem_lstrip (mem_rstrip h)

theorem strip_eq_self (c : Char) (s : Str) (h1 : s.head? ≠ some c) (h2 : s.getLast? ≠ some c) :
    strip c s = s := by
  unfold strip; rw [lstrip_eq_self c s h1, rstrip_eq_self c s h2]

/-! ### fields and components -/

def prependHead (pre : Str) : List Str → List Str
  | [] => [pre]
  | f :: fs => (pre ++ f) :: fs

/-- all fields of `s` split at every single `sep` (never empty as a list) -/
def splitAll (sep : Char) : Str → List Str
  | [] => [[]]
  | x :: xs => if x == sep then [] :: splitAll sep xs else prependHead [x] (splitAll sep xs)

/-- drop empty strings -/
def ne (l : List Str) : List Str := l.filter (fun s => !s.isEmpty)

/-- the non-empty fields: path components -/
def comps (sep : Char) (s : Str) : List Str := ne (splitAll sep s)

theorem ne_append (a b : List Str) : ne (a ++ b) = ne a ++ ne b := by simp [ne]
@[simp] theorem ne_nil : ne [] = [] := rfl
@[simp] theorem ne_cons_nil (l : List Str) : ne ([] :: l) = ne l := by simp [ne]
theorem ne_cons_of_ne {s : Str} (h : s ≠ []) (l : List Str) : ne (s :: l) = s :: ne l := by
  cases s with
  | nil => exact absurd rfl h
  | cons x xs => simp [ne]

theorem splitAll_ne_nil (sep : Char) (s : Str) : splitAll sep s ≠ [] := by
  cases s with
  | nil => simp [splitAll]
  | cons x xs =>
    simp only [splitAll]
    split
    · simp
    · cases splitAll sep xs <;> simp [prependHead]

theorem prependHead_append (pre : Str) (a b : List Str) (h : a ≠ []) :
    prependHead pre (a ++ b) = prependHead pre a ++ b := by
  cases a with
  | nil => exact absurd rfl h
  | cons f fs => simp [prependHead]

theorem splitAll_append_sep (sep : Char) (a b : Str) :
    splitAll sep (a ++ sep :: b) = splitAll sep a ++ splitAll sep b := by
  induction a with
  | nil => simp [splitAll]
  | cons x xs ih =>
    simp only [List.cons_append, splitAll]
    split
    · simp [ih]
    · rw [ih, prependHead_append _ _ _ (splitAll_ne_nil sep xs)]

theorem comps_append_sep (sep : Char) (a b : Str) :
    comps sep (a ++ sep :: b) = comps sep a ++ comps sep b := by
  simp [comps, splitAll_append_sep, ne_append]

@[simp] theorem comps_nil (sep : Char) : comps sep [] = [] := by simp [comps, splitAll]

@[simp] theorem comps_sep_cons (sep : Char) (s : Str) : comps sep (sep :: s) = comps sep s := by
  simp [comps, splitAll]

theorem comps_replicate_append (sep : Char) (k : Nat) (s : Str) :
    comps sep (List.replicate k sep ++ s) = comps sep s := by
  induction k with
  | zero => simp
  | succ k ih => simp [List.replicate_succ, ih]

theorem comps_append_replicate (sep : Char) (k : Nat) (s : Str) :
    comps sep (s ++ List.replicate k sep) = comps sep s := by
  induction k generalizing s with
  | zero => simp
  | succ k ih =>
    have := comps_replicate_append sep k []
    simp only [List.append_nil, comps_nil] at this
    rw [List.replicate_succ, comps_append_sep, this]
    simp

theorem comps_rstrip (sep : Char) (s : Str) : comps sep (rstrip sep s) = comps sep s := by
  obtain ⟨k, hk⟩ := rstrip_spec sep s
  conv => rhs; rw [hk]
  rw [comps_append_replicate]

theorem comps_lstrip (sep : Char) (s : Str) : comps sep (lstrip sep s) = comps sep s := by
  obtain ⟨k, hk⟩ := lstrip_spec sep s
  conv => rhs; rw [hk]
  rw [comps_replicate_append]

theorem comps_strip (sep : Char) (s : Str) : comps sep (strip sep s) = comps sep s := by
  unfold strip; rw [comps_rstrip, comps_lstrip]

/-- a string without separator is its own single field -/
theorem splitAll_of_not_mem (sep : Char) (s : Str) (h : sep ∉ s) : splitAll sep s = [s] := by
  induction s with
  | nil => rfl
  | cons x xs ih =>
    simp only [List.mem_cons, not_or] at h
    have hx : (x == sep) = false := by simpa using fun e => h.1 e.symm
    simp [splitAll, hx, ih h.2, prependHead]

theorem comps_of_not_mem (sep : Char) (s : Str) (h : sep ∉ s) (hs : s ≠ []) : comps sep s = [s] := by
  simp [comps, splitAll_of_not_mem sep s h, ne_cons_of_ne hs]

theorem mem_prependHead {pre f : Str} {l : List Str} (h : f ∈ prependHead pre l) :
    (∃ g, f = pre ++ g ∧ (g ∈ l ∨ (l = [] ∧ g = []))) ∨ f ∈ l := by
  cases l with
  | nil => simp [prependHead] at h; left; exact ⟨[], by simp [h], Or.inr ⟨rfl, rfl⟩⟩
  | cons a as =>
    simp [prependHead] at h
    rcases h with h | h
    · left; exact ⟨a, h, Or.inl (by simp)⟩
    · right; simp [h]

/-- fields contain no separator and only characters of the string -/
theorem mem_splitAll {sep : Char} {s f : Str} (h : f ∈ splitAll sep s) :
    sep ∉ f ∧ ∀ x ∈ f, x ∈ s := by
  induction s generalizing f with
  | nil => simp [splitAll] at h; simp [h]
  | cons x xs ih =>
    simp only [splitAll] at h
    split at h
    · simp at h
      rcases h with h | h
      · simp [h]
      · have := ih h; exact ⟨this.1, fun y hy => List.mem_cons_of_mem _ (this.2 y hy)⟩
    · rename_i hx
      have hx' : x ≠ sep := by simpa using hx
      rcases mem_prependHead h with ⟨g, rfl, hg⟩ | h
      · rcases hg with hg | ⟨hl, _⟩
        · have := ih hg
          refine ⟨?_, ?_⟩
          · simp [this.1]; exact fun e => hx' e.symm
          · intro y hy; simp at hy; rcases hy with rfl | hy
            · simp
            · exact List.mem_cons_of_mem _ (this.2 y hy)
        · exact absurd hl (splitAll_ne_nil sep xs)
      · have := ih h; exact ⟨this.1, fun y hy => List.mem_cons_of_mem _ (this.2 y hy)⟩

theorem mem_comps {sep : Char} {s f : Str} (h : f ∈ comps sep s) :
    f ≠ [] ∧ sep ∉ f ∧ ∀ x ∈ f, x ∈ s := by
  simp only [comps, ne, List.mem_filter] at h
  refine ⟨?_, mem_splitAll h.1⟩
  intro e; simp [e] at h

/-! ### intercalate and the canonical form -/

theorem comps_intercalate (sep : Char) (n : List Str) :
    comps sep (intercalate sep n) = n.flatMap (comps sep) := by
  induction n with
  | nil => simp [intercalate]
  | cons p rest ih =>
    cases rest with
    | nil => simp [intercalate]
    | cons q rest => rw [intercalate, comps_append_sep, ih]; simp

theorem splitAll_intercalate (sep : Char) (l : List Str) (hl : l ≠ []) (h : ∀ f ∈ l, sep ∉ f) :
    splitAll sep (intercalate sep l) = l := by
  induction l with
  | nil => exact absurd rfl hl
  | cons p rest ih =>
    cases rest with
    | nil => simp [intercalate]; exact splitAll_of_not_mem sep p (h p (by simp))
    | cons q rest =>
      rw [intercalate, splitAll_append_sep, ih (by simp) (fun f hf => h f (List.mem_cons_of_mem _ hf)),
        splitAll_of_not_mem sep p (h p (by simp))]
      rfl

theorem intercalate_splitAll (sep : Char) (s : Str) : intercalate sep (splitAll sep s) = s := by
  induction s with
  | nil => rfl
  | cons x xs ih =>
    simp only [splitAll]
    split
    · rename_i hx
      have : x = sep := by simpa using hx
      cases h : splitAll sep xs with
      | nil => exact absurd h (splitAll_ne_nil sep xs)
      | cons f fs => rw [h] at ih; simp [intercalate, ih, this]
    · cases h : splitAll sep xs with
      | nil => exact absurd h (splitAll_ne_nil sep xs)
      | cons f fs =>
        rw [h] at ih
        cases fs with
        | nil => simp [intercalate, prependHead] at ih ⊢; exact ih
        | cons g gs => simp [intercalate, prependHead] at ih ⊢; exact ih

/-- canonical absolute path with the given components -/
def canon (sep : Char) (l : List Str) : Str := sep :: intercalate sep l

/-- well-formed component list: non-empty, separator-free strings -/
def GoodComps (sep : Char) (l : List Str) : Prop := ∀ f ∈ l, f ≠ [] ∧ sep ∉ f

theorem goodComps_comps (sep : Char) (s : Str) : GoodComps sep (comps sep s) :=
  fun _ hf => ⟨(mem_comps hf).1, (mem_comps hf).2.1⟩

theorem ne_of_good {sep : Char} {l : List Str} (h : GoodComps sep l) : ne l = l := by
  simp only [ne, List.filter_eq_self]
  intro f hf
  have := (h f hf).1
  cases f with
  | nil => exact absurd rfl this
  | cons _ _ => rfl

theorem comps_intercalate_good (sep : Char) (l : List Str) (h : GoodComps sep l) :
    comps sep (intercalate sep l) = l := by
  cases l with
  | nil => simp [intercalate]
  | cons p rest =>
    rw [comps, splitAll_intercalate sep _ (by simp) (fun f hf => (h f hf).2), ne_of_good h]

theorem comps_canon (sep : Char) (l : List Str) (h : GoodComps sep l) :
    comps sep (canon sep l) = l := by
  simp [canon, comps_intercalate_good sep l h]

/-! ### configuration guard (same fields as `Cfg.WF` in Props/C13.lean) -/

structure Cfg.Ok (c : Cfg) : Prop where
  alt_ne_sep : ∀ a, c.alt = some a → a ≠ c.sep
  lower_idem : ∀ x, c.lower (c.lower x) = c.lower x
  lower_sep  : ∀ x, c.lower x = c.sep ↔ x = c.sep
  noWin      : c.win = false

/-! ### character maps that respect the separator -/

theorem prependHead_map (g : Char → Char) (pre : Str) (l : List Str) :
    (prependHead pre l).map (List.map g) = prependHead (pre.map g) (l.map (List.map g)) := by
  cases l <;> simp [prependHead]

theorem splitAll_map (sep : Char) (g : Char → Char) (hg : ∀ x, g x = sep ↔ x = sep) (s : Str) :
    splitAll sep (s.map g) = (splitAll sep s).map (List.map g) := by
  induction s with
  | nil => rfl
  | cons x xs ih =>
    simp only [List.map_cons, splitAll]
    by_cases hx : x = sep
    · have : g x = sep := (hg x).2 hx
      simp [hx, ih]
      simp [← hx, this]
    · have : g x ≠ sep := fun e => hx ((hg x).1 e)
      simp [hx, this, ih, prependHead_map]

theorem ne_map (g : Char → Char) (l : List Str) : ne (l.map (List.map g)) = (ne l).map (List.map g) := by
  induction l with
  | nil => rfl
  | cons f fs ih =>
    cases f with
    | nil => simpa using ih
    | cons x xs => rw [List.map_cons, ne_cons_of_ne (by simp), ne_cons_of_ne (by simp), ih]; rfl

theorem comps_map (sep : Char) (g : Char → Char) (hg : ∀ x, g x = sep ↔ x = sep) (s : Str) :
    comps sep (s.map g) = (comps sep s).map (List.map g) := by
  simp [comps, splitAll_map sep g hg, ne_map]

theorem intercalate_map (sep : Char) (g : Char → Char) (l : List Str) :
    (intercalate sep l).map g = intercalate (g sep) (l.map (List.map g)) := by
  induction l with
  | nil => rfl
  | cons p rest ih =>
    cases rest with
    | nil => rfl
    | cons q rest => simp only [intercalate, List.map_append, List.map_cons, ih]

theorem canon_map (sep : Char) (g : Char → Char) (hg : g sep = sep) (l : List Str) :
    (canon sep l).map g = canon sep (l.map (List.map g)) := by
  simp [canon, intercalate_map, hg]

/-- the case folding used by comparisons: identity when case sensitive -/
def cfold (c : Cfg) (x : Char) : Char := if c.cs then x else c.lower x

def fold (c : Cfg) (s : Str) : Str := s.map (cfold c)

theorem fold_eq (c : Cfg) (s : Str) : (if c.cs then s else lowerStr c s) = fold c s := by
  unfold fold cfold lowerStr
  cases c.cs <;> simp

theorem cfold_sep {c : Cfg} (h : c.Ok) (x : Char) : cfold c x = c.sep ↔ x = c.sep := by
  unfold cfold; cases c.cs <;> simp [h.lower_sep]

theorem cfold_idem {c : Cfg} (h : c.Ok) (x : Char) : cfold c (cfold c x) = cfold c x := by
  unfold cfold; cases c.cs <;> simp [h.lower_idem]

theorem lower_sep_self {c : Cfg} (h : c.Ok) : c.lower c.sep = c.sep := (h.lower_sep _).2 rfl

@[simp] theorem fold_length (c : Cfg) (s : Str) : (fold c s).length = s.length := by simp [fold]

/-! ### alternate separator replacement and `normSeps` -/

def replaceAlt (c : Cfg) (p : Str) : Str :=
  match c.alt with
  | some a => replaceChar a c.sep p
  | none => p

def AltFree (c : Cfg) (s : Str) : Prop := ∀ a, c.alt = some a → a ∉ s

theorem normSeps_def (c : Cfg) (p : Str) :
    normSeps c p = if p.isEmpty then p else
      if replaceAlt c p == [c.sep] then replaceAlt c p else rstrip c.sep (replaceAlt c p) := by
  unfold normSeps replaceAlt; rfl

@[simp] theorem normSeps_nil (c : Cfg) : normSeps c [] = [] := by simp [normSeps]

@[simp] theorem replaceAlt_nil (c : Cfg) : replaceAlt c [] = [] := by
  unfold replaceAlt; cases c.alt <;> simp [replaceChar]

theorem replaceAlt_append (c : Cfg) (a b : Str) :
    replaceAlt c (a ++ b) = replaceAlt c a ++ replaceAlt c b := by
  unfold replaceAlt; cases c.alt <;> simp [replaceChar]

theorem replaceAlt_cons (c : Cfg) (x : Char) (s : Str) :
    replaceAlt c (x :: s) = (if c.alt = some x then c.sep else x) :: replaceAlt c s := by
  unfold replaceAlt
  cases h : c.alt with
  | none => simp
  | some a => simp [replaceChar]; by_cases hxa : x = a <;> simp [hxa, eq_comm]

@[simp] theorem replaceAlt_length (c : Cfg) (s : Str) : (replaceAlt c s).length = s.length := by
  unfold replaceAlt; cases c.alt <;> simp [replaceChar]

theorem replaceAlt_eq_nil {c : Cfg} {s : Str} : replaceAlt c s = [] ↔ s = [] := by
  rw [← List.length_eq_zero_iff, replaceAlt_length, List.length_eq_zero_iff]

theorem replaceAlt_of_altFree {c : Cfg} {s : Str} (h : AltFree c s) : replaceAlt c s = s := by
  unfold replaceAlt
  cases ha : c.alt with
  | none => rfl
  | some a =>
    have := h a ha
    simp only [replaceChar]
    conv => rhs; rw [← List.map_id s]
    apply List.map_congr_left
    intro x hx
    have : x ≠ a := fun e => this (e ▸ hx)
    simp [this]

theorem altFree_replaceAlt {c : Cfg} (h : c.Ok) (s : Str) : AltFree c (replaceAlt c s) := by
  intro a ha
  unfold replaceAlt
  simp only [ha, replaceChar, List.mem_map, not_exists, not_and]
  intro x _
  split
  · exact fun e => h.alt_ne_sep a ha e.symm
  · rename_i hx; exact fun e => hx (by simp [e])

theorem AltFree.mono {c : Cfg} {s t : Str} (h : AltFree c s) (hs : ∀ x ∈ t, x ∈ s) : AltFree c t :=
  fun a ha hm => h a ha (hs a hm)

theorem altFree_nil (c : Cfg) : AltFree c [] := fun _ _ => by simp

theorem altFree_append {c : Cfg} {s t : Str} : AltFree c (s ++ t) ↔ AltFree c s ∧ AltFree c t := by
  unfold AltFree
  constructor
  · intro h; exact ⟨fun a ha hm => h a ha (by simp [hm]), fun a ha hm => h a ha (by simp [hm])⟩
  · intro h a ha hm
    rcases List.mem_append.1 hm with hm | hm
    · exact h.1 a ha hm
    · exact h.2 a ha hm

theorem altFree_cons {c : Cfg} {x : Char} {s : Str} :
    AltFree c (x :: s) ↔ c.alt ≠ some x ∧ AltFree c s := by
  unfold AltFree
  constructor
  · intro h; exact ⟨fun e => h x e (by simp), fun a ha hm => h a ha (by simp [hm])⟩
  · intro h a ha hm
    rcases List.mem_cons.1 hm with rfl | hm
    · exact h.1 ha
    · exact h.2 a ha hm

theorem altFree_sep {c : Cfg} (h : c.Ok) : c.alt ≠ some c.sep := fun e => h.alt_ne_sep _ e rfl

theorem normSeps_altFree {c : Cfg} (h : c.Ok) (p : Str) : AltFree c (normSeps c p) := by
  rw [normSeps_def]
  split
  · rename_i hp; simp at hp; subst hp; exact altFree_nil c
  · split
    · exact altFree_replaceAlt h p
    · exact (altFree_replaceAlt h p).mono (fun x hx => mem_rstrip hx)

theorem normSeps_shape (c : Cfg) (p : Str) :
    normSeps c p = [c.sep] ∨ (normSeps c p).getLast? ≠ some c.sep := by
  rw [normSeps_def]
  split
  · rename_i hp; simp at hp; subst hp; simp
  · split
    · rename_i h; left; simpa using h
    · right; exact rstrip_getLast? _ _

theorem normSeps_eq_self {c : Cfg} {s : Str} (ha : AltFree c s)
    (hs : s = [c.sep] ∨ s.getLast? ≠ some c.sep) : normSeps c s = s := by
  rw [normSeps_def, replaceAlt_of_altFree ha]
  split
  · rfl
  · split
    · rfl
    · rename_i h
      rcases hs with hs | hs
      · simp [hs] at h
      · exact rstrip_eq_self _ _ hs

theorem normSeps_idem' {c : Cfg} (h : c.Ok) (p : Str) : normSeps c (normSeps c p) = normSeps c p :=
  normSeps_eq_self (normSeps_altFree h p) (normSeps_shape c p)

theorem comps_eq_nil {sep : Char} {s : Str} (h : comps sep s = []) : ∀ x ∈ s, x = sep := by
  induction s with
  | nil => simp
  | cons x xs ih =>
    by_cases hx : x = sep
    · subst hx; simp at h; simpa using ih h
    · exfalso
      simp only [comps, splitAll, beq_iff_eq, hx, if_false] at h
      cases hs : splitAll sep xs with
      | nil => exact splitAll_ne_nil _ _ hs
      | cons f fs => rw [hs, prependHead, ne_cons_of_ne (by simp)] at h; simp at h

theorem comps_normSeps (c : Cfg) (p : Str) :
    comps c.sep (normSeps c p) = comps c.sep (replaceAlt c p) := by
  rw [normSeps_def]
  split
  · rename_i hp; simp at hp; subst hp; simp
  · split
    · rfl
    · exact comps_rstrip _ _

/-! ### `join` without drive letters -/

theorem join_def (c : Cfg) (hw : c.win = false) (ps : List Str) :
    join c ps = if (stripList c (normList c ps)).isEmpty then [c.sep]
      else addLead c (intercalate c.sep (stripList c (normList c ps))) := by
  simp [join, hw]

theorem comps_addLead (c : Cfg) (j : Str) : comps c.sep (addLead c j) = comps c.sep j := by
  unfold addLead
  split
  · simp
  · split <;> simp

theorem flatMap_comps_ne (sep : Char) (l : List Str) :
    (ne l).flatMap (comps sep) = l.flatMap (comps sep) := by
  induction l with
  | nil => rfl
  | cons f fs ih =>
    cases f with
    | nil => simpa using ih
    | cons x xs => rw [ne_cons_of_ne (by simp)]; simp [ih]

theorem flatMap_comps_stripList (c : Cfg) (l : List Str) :
    (stripList c l).flatMap (comps c.sep) = l.flatMap (comps c.sep) := by
  cases l with
  | nil => rfl
  | cons p rest =>
    simp only [stripList, List.flatMap_append, List.flatMap_cons]
    congr 1
    · split
      · rename_i h
        have := comps_rstrip c.sep p
        simp only [List.isEmpty_iff] at h
        rw [h] at this; simp [← this]
      · simp [comps_rstrip]
    · have := flatMap_comps_ne c.sep (rest.map (strip c.sep))
      simp only [ne] at this
      rw [this, List.flatMap_map]
      simp [comps_strip]

theorem flatMap_comps_normList (c : Cfg) (ps : List Str) :
    (normList c ps).flatMap (comps c.sep) = ps.flatMap (fun p => comps c.sep (replaceAlt c p)) := by
  have := flatMap_comps_ne c.sep (ps.map (normSeps c))
  simp only [ne] at this
  rw [normList, this, List.flatMap_map]
  simp [comps_normSeps]

theorem comps_join (c : Cfg) (hw : c.win = false) (ps : List Str) :
    comps c.sep (join c ps) = ps.flatMap (fun p => comps c.sep (replaceAlt c p)) := by
  rw [join_def c hw, ← flatMap_comps_normList, ← flatMap_comps_stripList]
  split
  · rename_i h
    simp only [List.isEmpty_iff] at h
    rw [h]; simp
  · rw [comps_addLead, comps_intercalate]

/-! ### `reSplitRuns` yields the components -/

theorem ne_cons (a : Str) (l : List Str) : ne (a :: l) = ne [a] ++ ne l := ne_append [a] l

theorem ne_reSplitRuns_go (sep : Char) (xs : Str) :
    (∀ cur, ne (reSplitRuns.go sep cur false xs) = ne (prependHead cur.reverse (splitAll sep xs))) ∧
    ne (reSplitRuns.go sep [] true xs) = ne (splitAll sep xs) := by
  induction xs with
  | nil => simp [reSplitRuns.go, splitAll, prependHead]
  | cons x xs ih =>
    by_cases hx : x = sep
    · subst hx
      constructor
      · intro cur
        simp only [reSplitRuns.go, splitAll, beq_self_eq_true, if_true, prependHead, List.append_nil,
          Bool.false_eq_true, if_false]
        rw [ne_cons, ih.2, ← ne_cons]
      · simp [reSplitRuns.go, splitAll, ih.2]
    · have hx' : (x == sep) = false := by simpa using hx
      constructor
      · intro cur
        simp only [reSplitRuns.go, splitAll, hx', if_false, Bool.false_eq_true]
        rw [ih.1]
        cases splitAll sep xs <;> simp [prependHead]
      · simp only [reSplitRuns.go, splitAll, hx', if_false, Bool.false_eq_true]
        rw [ih.1]; rfl

theorem ne_reSplitRuns (sep : Char) (q : Str) : ne (reSplitRuns sep q) = comps sep q := by
  have := (ne_reSplitRuns_go sep q).1 []
  unfold reSplitRuns comps
  rw [this]
  cases splitAll sep q <;> simp [prependHead]

theorem getLast?_ne_of_not_mem {sep : Char} {f : Str} (h : sep ∉ f) : f.getLast? ≠ some sep :=
  fun e => h (List.mem_of_getLast? e)

theorem head?_ne_of_not_mem {sep : Char} {f : Str} (h : sep ∉ f) : f.head? ≠ some sep :=
  fun e => h (List.mem_of_head? e)

theorem stripList_good (c : Cfg) (l : List Str) (h : GoodComps c.sep l) : stripList c l = l := by
  cases l with
  | nil => rfl
  | cons p rest =>
    have hp := h p (by simp)
    have h1 : rstrip c.sep p = p := rstrip_eq_self _ _ (getLast?_ne_of_not_mem hp.2)
    have h2 : rest.map (strip c.sep) = rest := by
      conv => rhs; rw [← List.map_id rest]
      apply List.map_congr_left
      intro f hf
      have := h f (List.mem_cons_of_mem _ hf)
      exact strip_eq_self _ _ (head?_ne_of_not_mem this.2) (getLast?_ne_of_not_mem this.2)
    have h3 : GoodComps c.sep rest := fun f hf => h f (List.mem_cons_of_mem _ hf)
    have h4 := ne_of_good h3
    simp only [ne] at h4
    simp only [stripList, h1, h2, h4]
    cases p with
    | nil => exact absurd rfl hp.1
    | cons _ _ => simp

theorem addLead_intercalate_good (c : Cfg) (l : List Str) (h : GoodComps c.sep l) (hl : l ≠ []) :
    addLead c (intercalate c.sep l) = canon c.sep l := by
  cases l with
  | nil => exact absurd rfl hl
  | cons p rest =>
    have hp := h p (by simp)
    cases p with
    | nil => exact absurd rfl hp.1
    | cons x xs =>
      have hx : x ≠ c.sep := fun e => hp.2 (by simp [e])
      cases rest <;> simp [intercalate, addLead, canon, hx]

theorem normSeps_of_sepFree {c : Cfg} {f : Str} (ha : AltFree c f) (hs : c.sep ∉ f) : normSeps c f = f :=
  normSeps_eq_self ha (Or.inr (getLast?_ne_of_not_mem hs))

/-- joining well-formed components gives the canonical path -/
theorem join_good {c : Cfg} (h : c.Ok) (l : List Str) (hg : GoodComps c.sep l)
    (ha : ∀ f ∈ l, AltFree c f) : join c l = canon c.sep l := by
  have h1 : normList c l = l := by
    have : l.map (normSeps c) = l := by
      conv => rhs; rw [← List.map_id l]
      apply List.map_congr_left
      intro f hf
      exact normSeps_of_sepFree (ha f hf) (hg f hf).2
    have h4 := ne_of_good hg
    simp only [ne] at h4
    rw [normList, this, h4]
  rw [join_def c h.noWin, h1, stripList_good c l hg]
  cases l with
  | nil => rfl
  | cons p rest => simpa using addLead_intercalate_good c (p :: rest) hg (by simp)

theorem normList_ne (c : Cfg) (ps : List Str) : normList c (ne ps) = normList c ps := by
  induction ps with
  | nil => rfl
  | cons f fs ih =>
    cases f with
    | nil => simpa [normList] using ih
    | cons x xs =>
      rw [ne_cons_of_ne (by simp)]
      simp only [normList, List.map_cons, List.filter_cons] at ih ⊢
      rw [ih]

theorem join_ne (c : Cfg) (ps : List Str) : join c (ne ps) = join c ps := by
  simp only [join, normList_ne]

theorem join_reSplitRuns {c : Cfg} (h : c.Ok) (q : Str) (hq : AltFree c q) :
    join c (reSplitRuns c.sep q) = canon c.sep (comps c.sep q) := by
  rw [← join_ne, ne_reSplitRuns]
  exact join_good h _ (goodComps_comps _ _) (fun f hf => hq.mono (mem_comps hf).2.2)

/-! ### `normalizePath` in terms of components -/

/-- components of a raw path: alternate separators count as separators -/
def C (c : Cfg) (p : Str) : List Str := comps c.sep (replaceAlt c p)

/-- the case-sensitive normal form -/
def nrm (c : Cfg) (p : Str) : Str := join c (reSplitRuns c.sep (normSeps c p))

theorem nrm_eq {c : Cfg} (h : c.Ok) (p : Str) : nrm c p = canon c.sep (C c p) := by
  rw [nrm, join_reSplitRuns h _ (normSeps_altFree h p), comps_normSeps]; rfl

theorem normalizePath_false (c : Cfg) (p : Str) : normalizePath c p false = fold c (nrm c p) := by
  rw [← fold_eq]; simp only [normalizePath, nrm]; cases c.cs <;> simp

theorem goodComps_C (c : Cfg) (p : Str) : GoodComps c.sep (C c p) := goodComps_comps _ _

theorem altFree_of_mem_C {c : Cfg} (h : c.Ok) {p f : Str} (hf : f ∈ C c p) : AltFree c f :=
  (altFree_replaceAlt h p).mono (mem_comps hf).2.2

theorem C_of_altFree {c : Cfg} {s : Str} (h : AltFree c s) : C c s = comps c.sep s := by
  rw [C, replaceAlt_of_altFree h]

theorem C_normSeps {c : Cfg} (h : c.Ok) (p : Str) : C c (normSeps c p) = C c p := by
  rw [C_of_altFree (normSeps_altFree h p), comps_normSeps]; rfl

theorem mem_intercalate {sep x : Char} {l : List Str} (h : x ∈ intercalate sep l) :
    x = sep ∨ ∃ f ∈ l, x ∈ f := by
  induction l with
  | nil => simp [intercalate] at h
  | cons p rest ih =>
    cases rest with
    | nil => right; exact ⟨p, by simp, by simpa [intercalate] using h⟩
    | cons q rest =>
      simp only [intercalate, List.mem_append, List.mem_cons] at h
      rcases h with h | h | h
      · right; exact ⟨p, by simp, h⟩
      · left; exact h
      · rcases ih h with h | ⟨f, hf, hx⟩
        · left; exact h
        · right; exact ⟨f, List.mem_cons_of_mem _ hf, hx⟩

theorem mem_stripList {c : Cfg} {l : List Str} {f : Str} (h : f ∈ stripList c l) :
    ∃ g ∈ l, ∀ x ∈ f, x ∈ g := by
  cases l with
  | nil => simp [stripList] at h
  | cons p rest =>
    simp only [stripList, List.mem_append, List.mem_filter, List.mem_map] at h
    rcases h with h | ⟨⟨g, hg, rfl⟩, _⟩
    · split at h
      · simp at h
      · simp at h; subst h; exact ⟨p, by simp, fun x hx => mem_rstrip hx⟩
    · exact ⟨g, List.mem_cons_of_mem _ hg, fun x hx => mem_strip hx⟩

theorem altFree_join {c : Cfg} (h : c.Ok) (ps : List Str) : AltFree c (join c ps) := by
  intro a ha hm
  rw [join_def c h.noWin] at hm
  have hne : a ≠ c.sep := h.alt_ne_sep a ha
  split at hm
  · simp at hm; exact hne hm
  · have hm' : a ∈ intercalate c.sep (stripList c (normList c ps)) := by
      unfold addLead at hm
      split at hm
      · simp at hm; exact absurd hm hne
      · split at hm
        · exact hm
        · simp at hm; rcases hm with hm | hm
          · exact absurd hm hne
          · simpa using hm
    rcases mem_intercalate hm' with e | ⟨f, hf, hx⟩
    · exact hne e
    · obtain ⟨g, hg, hsub⟩ := mem_stripList hf
      simp only [normList, List.mem_filter, List.mem_map] at hg
      obtain ⟨⟨p, _, rfl⟩, _⟩ := hg
      exact normSeps_altFree h p a ha (hsub a hx)

theorem C_join {c : Cfg} (h : c.Ok) (ps : List Str) : C c (join c ps) = ps.flatMap (C c) := by
  have : AltFree c (join c ps) := altFree_join h ps
  rw [C_of_altFree this, comps_join c h.noWin]; rfl

theorem pathsMatch_false_of {c : Cfg} (h : c.Ok) (a b : Str)
    (hab : (C c a).map (fold c) = (C c b).map (fold c)) :
    pathsMatch c (some a) (some b) false = true := by
  have hs : cfold c c.sep = c.sep := (cfold_sep h _).2 rfl
  simp only [pathsMatch, normalizePath_false, nrm_eq h, beq_iff_eq]
  unfold fold at hab ⊢
  rw [canon_map _ _ hs, canon_map _ _ hs, hab]

/-! ### joining a folder and a relative part -/

/-- the relative part as `join` sees it -/
def relPart (c : Cfg) (rel : Str) : Str := strip c.sep (normSeps c rel)

theorem rstrip_absolute {c : Cfg} {nf t : Str} (hshape : nf = [c.sep] ∨ nf.getLast? ≠ some c.sep)
    (hf : nf = c.sep :: t) : rstrip c.sep nf = if t = [] then [] else nf := by
  split
  · rename_i ht; subst ht; subst hf; simp [rstrip]
  · rename_i ht
    rcases hshape with hs | hs
    · rw [hf] at hs; simp at hs; exact absurd hs ht
    · exact rstrip_eq_self _ _ hs

theorem join_two {c : Cfg} (h : c.Ok) (f rel t : Str) (hf : normSeps c f = c.sep :: t) :
    join c [f, rel] =
      if relPart c rel = [] then normSeps c f
      else (if t = [] then [] else normSeps c f) ++ c.sep :: relPart c rel := by
  have hr := rstrip_absolute (normSeps_shape c f) hf
  have hn : stripList c (normList c [f, rel]) =
      (if t = [] then [] else [normSeps c f]) ++ (if relPart c rel = [] then [] else [relPart c rel]) := by
    by_cases hnr : normSeps c rel = []
    · have : relPart c rel = [] := by simp [relPart, hnr, strip, lstrip, rstrip]
      simp only [normList, List.map_cons, List.map_nil, hnr, this, if_true]
      rw [hf] at hr ⊢
      simp only [List.filter_cons, List.isEmpty_cons, Bool.not_false, if_true, List.isEmpty_nil,
        Bool.not_true, Bool.false_eq_true, if_false, List.filter_nil, stripList, hr, List.map_nil]
      split <;> simp
    · have hnr' : (normSeps c rel).isEmpty = false := by simpa using hnr
      simp only [normList, List.map_cons, List.map_nil]
      rw [hf] at hr ⊢
      simp only [List.filter_cons, List.isEmpty_cons, Bool.not_false, if_true, hnr', 
        List.filter_nil, stripList, hr, List.map_cons, List.map_nil]
      congr 1
      · split <;> simp
      · show (if (!(relPart c rel).isEmpty) = true then [relPart c rel] else []) = _
        by_cases hs : relPart c rel = [] <;> simp [hs]
  rw [join_def c h.noWin, hn]
  by_cases ht : t = [] <;> by_cases hs : relPart c rel = []
  · simp [ht, hs, hf]
  · have hh := strip_head? c.sep (normSeps c rel)
    simp only [ht, hs, if_true, if_false, List.nil_append, List.isEmpty_cons, Bool.false_eq_true,
      intercalate]
    unfold relPart at hs ⊢
    cases hsr : strip c.sep (normSeps c rel) with
    | nil => exact absurd hsr hs
    | cons x xs => rw [hsr] at hh; simp at hh; simp [addLead, hh]
  · simp [ht, hs, hf, intercalate, addLead]
  · simp [ht, hs, hf, intercalate, addLead]

/-! ### `isSubpath` -/

theorem isPrefix_iff (a b : Str) : isPrefix a b = true ↔ a <+: b := by
  induction a generalizing b with
  | nil => simp [isPrefix]
  | cons x xs ih =>
    cases b with
    | nil => simp [isPrefix]
    | cons y ys => simp [isPrefix, ih, List.cons_prefix_cons]

theorem isSubpath_def (c : Cfg) (f t : Str) (strict : Bool) :
    isSubpath c f t strict =
      if f.isEmpty || t.isEmpty then .no else
      if fold c (normSeps c f) == fold c (normSeps c t) then (if strict then .no else .rel [c.sep])
      else if fold c (normSeps c f) == [c.sep] && isPrefix [c.sep] (fold c (normSeps c t)) then
        .rel (normSeps c t)
      else if (normSeps c t).length > (normSeps c f).length
          && (normSeps c t)[(normSeps c f).length]? == some c.sep then
        (if isPrefix (fold c (normSeps c f)) (fold c (normSeps c t)) then
          .rel ((normSeps c t).drop (normSeps c f).length) else .no)
      else .no := by
  unfold isSubpath; simp only [fold_eq]

theorem fold_sep {c : Cfg} (h : c.Ok) : fold c [c.sep] = [c.sep] := by
  simp [fold, (cfold_sep h _).2]

theorem fold_eq_sep {c : Cfg} (h : c.Ok) {s : Str} (hs : fold c s = [c.sep]) : s = [c.sep] := by
  cases s with
  | nil => simp [fold] at hs
  | cons x xs =>
    cases xs with
    | nil => simp [fold] at hs; simp [(cfold_sep h _).1 hs]
    | cons _ _ => simp [fold] at hs

theorem fold_append (c : Cfg) (a b : Str) : fold c (a ++ b) = fold c a ++ fold c b := by simp [fold]
theorem fold_cons (c : Cfg) (x : Char) (b : Str) : fold c (x :: b) = cfold c x :: fold c b := by simp [fold]

theorem normSeps_ne_nil_of {c : Cfg} {f t : Str} (hf : normSeps c f = c.sep :: t) : f ≠ [] := by
  intro e; subst e; simp at hf

theorem relPart_altFree {c : Cfg} (h : c.Ok) (rel : Str) : AltFree c (relPart c rel) :=
  (normSeps_altFree h rel).mono (fun _ hx => mem_strip hx)

theorem isSubpath_join_gen {c : Cfg} (h : c.Ok) (f rel t : Str) (hf : normSeps c f = c.sep :: t) :
    isSubpath c f (join c [f, rel]) false = .rel (c.sep :: relPart c rel) := by
  have hfne : f.isEmpty = false := by simpa using normSeps_ne_nil_of hf
  have hj := join_two h f rel t hf
  have hJa := altFree_join h [f, rel]
  rw [isSubpath_def]
  by_cases hs : relPart c rel = []
  · rw [hs] at hj ⊢
    simp only [if_true] at hj
    rw [hj, normSeps_idem' h]
    have : (normSeps c f).isEmpty = false := by simp [hf]
    simp [hfne, this]
  · simp only [hs, if_false] at hj
    have hlast : (relPart c rel).getLast? ≠ some c.sep := strip_getLast? _ _
    by_cases ht : t = []
    · subst ht
      simp only [if_true, List.nil_append] at hj
      have hnJ : normSeps c (join c [f, rel]) = join c [f, rel] := by
        apply normSeps_eq_self hJa
        right; rw [hj]
        cases hr : relPart c rel with
        | nil => exact absurd hr hs
        | cons x xs => rw [hr] at hlast; simpa [List.getLast?_cons_cons] using hlast
      rw [hnJ, hj, hf, fold_sep h, fold_cons, (cfold_sep h _).2 rfl]
      have : (fold c (relPart c rel)) ≠ [] := by simpa [fold] using hs
      simp [hfne, isPrefix, this]
    · simp only [ht, if_false] at hj
      have hnJ : normSeps c (join c [f, rel]) = join c [f, rel] := by
        apply normSeps_eq_self hJa
        right; rw [hj]
        cases hr : relPart c rel with
        | nil => exact absurd hr hs
        | cons x xs =>
          rw [hr] at hlast
          rw [List.getLast?_append]
          simpa [List.getLast?_cons_cons] using hlast
      rw [hnJ, hj, fold_append]
      have h1 : (fold c (normSeps c f) == fold c (normSeps c f) ++ fold c (c.sep :: relPart c rel)) = false := by
        simp [fold_cons]
      have h2 : (fold c (normSeps c f) == [c.sep]) = false := by
        simp only [beq_eq_false_iff_ne]
        intro e
        have := fold_eq_sep h e
        rw [hf] at this; simp at this; exact ht this
      have h3 : isPrefix (fold c (normSeps c f)) (fold c (normSeps c f) ++ fold c (c.sep :: relPart c rel)) = true := by
        rw [isPrefix_iff]; exact List.prefix_append _ _
      simp [hfne, h1, h2, h3]

theorem isSubpath_rel_ne_nil {c : Cfg} {f p r : Str} {strict : Bool}
    (h : isSubpath c f p strict = .rel r) : r ≠ [] := by
  rw [isSubpath_def] at h
  split at h
  · cases h
  · split at h
    · split at h
      · cases h
      · cases h; simp
    · split at h
      · rename_i h2
        cases h
        simp only [Bool.and_eq_true] at h2
        have := h2.2
        intro e
        rw [e] at this
        simp [fold, isPrefix] at this
      · split at h
        · rename_i h3
          split at h
          · cases h
            simp only [Bool.and_eq_true, decide_eq_true_eq] at h3
            intro e
            have := List.drop_eq_nil_iff.1 e
            omega
          · cases h
        · cases h

theorem isSubpath_prefix_sibling' {c : Cfg} (h : c.Ok) (f t : Str) (x : Char) (strict : Bool)
    (hf : normSeps c f ≠ []) (hroot : normSeps c f ≠ [c.sep]) (hx : x ≠ c.sep ∧ c.alt ≠ some x) :
    isSubpath c f (normSeps c f ++ x :: t) strict = .no := by
  have hfne : f.isEmpty = false := by
    cases f with
    | nil => simp at hf
    | cons _ _ => rfl
  have hnt : normSeps c (normSeps c f ++ x :: t) = normSeps c f ++ x :: rstrip c.sep (replaceAlt c t) := by
    rw [normSeps_def, replaceAlt_append, replaceAlt_of_altFree (normSeps_altFree h f), replaceAlt_cons]
    simp only [hx.2, if_false]
    rw [rstrip_append_of_ne _ _ _ _ hx.1]
    have : ((normSeps c f ++ x :: t).isEmpty) = false := by simp
    rw [this]
    simp only [Bool.false_eq_true, if_false]
    split
    · rename_i h1
      simp only [beq_iff_eq] at h1
      have := congrArg List.length h1
      simp at this
      have : (normSeps c f).length = 0 := by omega
      exact absurd (List.length_eq_zero_iff.1 this) hf
    · rfl
  rw [isSubpath_def, hnt]
  have h1 : (fold c (normSeps c f) == fold c (normSeps c f ++ x :: rstrip c.sep (replaceAlt c t))) = false := by
    simp only [beq_eq_false_iff_ne]
    intro e
    have := congrArg List.length e
    simp at this
  have h2 : (fold c (normSeps c f) == [c.sep]) = false := by
    simp only [beq_eq_false_iff_ne]
    exact fun e => hroot (fold_eq_sep h e)
  have h3 : ((normSeps c f ++ x :: rstrip c.sep (replaceAlt c t))[(normSeps c f).length]? == some c.sep) = false := by
    simp [hx.1]
  simp only [hfne, h1, h2, h3, Bool.and_false, Bool.false_and, Bool.false_or,
    Bool.false_eq_true, if_false]
  split <;> rfl

theorem toNat_ofNat_small (n : Nat) (h : n < 55296) : (Char.ofNat n).toNat = n := by
  have hv : n.isValidChar := Or.inl h
  rw [Char.ofNat, dif_pos hv]
  simp [Char.ofNatAux, Char.toNat]

theorem simpleLower_toNat (x : Char) :
    (simpleLower x).toNat =
      if (65 ≤ x.toNat ∧ x.toNat ≤ 90) ∨ (192 ≤ x.toNat ∧ x.toNat ≤ 222 ∧ x.toNat ≠ 215)
      then x.toNat + 32 else x.toNat := by
  unfold simpleLower
  simp only
  split
  · rename_i h; rw [toNat_ofNat_small _ (by omega)]
  · rfl

theorem simpleLower_idem (x : Char) : simpleLower (simpleLower x) = simpleLower x := by
  apply Char.toNat_inj.1
  have h1 := simpleLower_toNat x
  have h2 := simpleLower_toNat (simpleLower x)
  generalize (simpleLower (simpleLower x)).toNat = a at *
  generalize (simpleLower x).toNat = b at *
  generalize x.toNat = n at *
  split at h1 <;> split at h2 <;> omega

theorem simpleLower_eq_slash (x : Char) : simpleLower x = '/' ↔ x = '/' := by
  rw [← Char.toNat_inj, ← Char.toNat_inj (c := x), simpleLower_toNat]
  have : '/'.toNat = 47 := by decide
  rw [this]
  split <;> omega

theorem relPart_nil (c : Cfg) : relPart c [] = [] := by simp [relPart, strip, lstrip, rstrip]

theorem relPart_sep_cons {c : Cfg} (h : c.Ok) (rel : Str) :
    relPart c (c.sep :: relPart c rel) = relPart c rel := by
  have ha : AltFree c (c.sep :: relPart c rel) := altFree_cons.2 ⟨altFree_sep h, relPart_altFree h rel⟩
  have hh : (relPart c rel).head? ≠ some c.sep := strip_head? _ _
  have hl : (relPart c rel).getLast? ≠ some c.sep := strip_getLast? _ _
  cases hs : relPart c rel with
  | nil =>
    have : normSeps c [c.sep] = [c.sep] := normSeps_eq_self (by rw [hs] at ha; exact ha) (Or.inl rfl)
    simp [relPart, this, strip, lstrip, rstrip]
  | cons x xs =>
    rw [hs] at ha hh hl
    have : normSeps c (c.sep :: x :: xs) = c.sep :: x :: xs :=
      normSeps_eq_self ha (Or.inr (by simpa [List.getLast?_cons_cons] using hl))
    rw [relPart, this, strip]
    simp only [lstrip, beq_self_eq_true, if_true]
    exact strip_eq_self _ _ hh hl

/-! ### more on `C` -/

@[simp] theorem C_nil (c : Cfg) : C c [] = [] := by simp [C]

theorem C_append_sep {c : Cfg} (h : c.Ok) (a b : Str) : C c (a ++ c.sep :: b) = C c a ++ C c b := by
  simp only [C, replaceAlt_append, replaceAlt_cons, altFree_sep h, if_false, comps_append_sep]

theorem C_sep_cons {c : Cfg} (h : c.Ok) (b : Str) : C c (c.sep :: b) = C c b := by
  simpa using C_append_sep h [] b

theorem C_relPart {c : Cfg} (h : c.Ok) (rel : Str) : C c (relPart c rel) = C c rel := by
  rw [C_of_altFree (relPart_altFree h rel), relPart, comps_strip, comps_normSeps]; rfl

theorem relPart_ne_nil_of_hasName {c : Cfg} (h : c.Ok) {rel : Str}
    (hr : ∃ x ∈ rel, x ≠ c.sep ∧ c.alt ≠ some x) : relPart c rel ≠ [] := by
  intro e
  have h1 := C_relPart h rel
  rw [e, C_nil] at h1
  obtain ⟨x, hx, hxs, hxa⟩ := hr
  have := comps_eq_nil h1.symm
  obtain ⟨pre, post, rfl⟩ := List.append_of_mem hx
  rw [replaceAlt_append, replaceAlt_cons] at this
  simp only [hxa, if_false] at this
  exact hxs (this x (by simp))

/-! ### `rfind` and `split` -/

theorem rfind_go_not_mem (ch : Char) (i : Nat) (best : Option Nat) (s : Str) (h : ch ∉ s) :
    rfind.go ch i best s = best := by
  induction s generalizing i best with
  | nil => rfl
  | cons x xs ih =>
    simp only [List.mem_cons, not_or] at h
    have : (x == ch) = false := by simpa using fun e => h.1 e.symm
    simp [rfind.go, this, ih _ _ h.2]

theorem rfind_go_append (ch : Char) (i : Nat) (best : Option Nat) (pre a : Str) (h : ch ∉ a) :
    rfind.go ch i best (pre ++ ch :: a) = some (i + pre.length) := by
  induction pre generalizing i best with
  | nil => simp [rfind.go, rfind_go_not_mem _ _ _ _ h]
  | cons x xs ih => simp only [List.cons_append, rfind.go, ih, List.length_cons]; congr 1; omega

theorem last_occurrence (ch : Char) (s : Str) : ch ∉ s ∨ ∃ pre a, s = pre ++ ch :: a ∧ ch ∉ a := by
  induction s with
  | nil => left; simp
  | cons x xs ih =>
    rcases ih with h | ⟨pre, a, rfl, ha⟩
    · by_cases hx : x = ch
      · right; exact ⟨[], xs, by simp [hx], h⟩
      · left; simp [h]; exact fun e => hx e.symm
    · right; exact ⟨x :: pre, a, rfl, ha⟩

theorem split_cases (c : Cfg) (p : Str) :
    (c.sep ∉ normSeps c p ∧ split c p = ([], normSeps c p)) ∨
    ∃ pre a, normSeps c p = pre ++ c.sep :: a ∧ c.sep ∉ a ∧
      split c p = (if pre = [] then [c.sep] else pre, a) := by
  rcases last_occurrence c.sep (normSeps c p) with h | ⟨pre, a, hq, ha⟩
  · left; refine ⟨h, ?_⟩
    simp [split, rfind, rfind_go_not_mem _ _ _ _ h]
  · right; refine ⟨pre, a, hq, ha, ?_⟩
    simp only [split, rfind, hq, rfind_go_append _ _ _ _ _ ha, Nat.zero_add]
    cases pre with
    | nil => simp
    | cons x xs => simp

theorem split_C {c : Cfg} (h : c.Ok) (p : Str) : C c (split c p).1 ++ C c (split c p).2 = C c p := by
  rw [← C_normSeps h p]
  rcases split_cases c p with ⟨_, hs⟩ | ⟨pre, a, hq, _, hs⟩
  · simp [hs]
  · rw [hs, hq, C_append_sep h]
    by_cases hp : pre = []
    · simp [hp, C_sep_cons h]
    · simp [hp]

/-! ### canonical paths: closure properties -/

/-- well-formed component list for configuration `c` -/
def Comps (c : Cfg) (l : List Str) : Prop := GoodComps c.sep l ∧ ∀ f ∈ l, AltFree c f

theorem comps_C' {c : Cfg} (h : c.Ok) (p : Str) : Comps c (C c p) :=
  ⟨goodComps_C c p, fun _ hf => altFree_of_mem_C h hf⟩

theorem Comps.append {c : Cfg} {l m : List Str} (hl : Comps c l) (hm : Comps c m) : Comps c (l ++ m) :=
  ⟨fun f hf => (List.mem_append.1 hf).elim (hl.1 f) (hm.1 f),
   fun f hf => (List.mem_append.1 hf).elim (hl.2 f) (hm.2 f)⟩

theorem Comps.left {c : Cfg} {l m : List Str} (h : Comps c (l ++ m)) : Comps c l :=
  ⟨fun f hf => h.1 f (List.mem_append_left _ hf), fun f hf => h.2 f (List.mem_append_left _ hf)⟩

theorem Comps.right {c : Cfg} {l m : List Str} (h : Comps c (l ++ m)) : Comps c m :=
  ⟨fun f hf => h.1 f (List.mem_append_right _ hf), fun f hf => h.2 f (List.mem_append_right _ hf)⟩

theorem comps_nil' (c : Cfg) : Comps c [] := ⟨fun _ h => by simp at h, fun _ h => by simp at h⟩

theorem altFree_canon {c : Cfg} (h : c.Ok) {l : List Str} (hl : Comps c l) : AltFree c (canon c.sep l) := by
  intro a ha hm
  simp only [canon, List.mem_cons] at hm
  rcases hm with e | hm
  · exact h.alt_ne_sep a ha e
  · rcases mem_intercalate hm with e | ⟨f, hf, hx⟩
    · exact h.alt_ne_sep a ha e
    · exact hl.2 f hf a ha hx

theorem C_canon {c : Cfg} (h : c.Ok) {l : List Str} (hl : Comps c l) : C c (canon c.sep l) = l := by
  rw [C_of_altFree (altFree_canon h hl), comps_canon _ _ hl.1]

theorem intercalate_concat (sep : Char) (init : List Str) (a : Str) (hi : init ≠ []) :
    intercalate sep (init ++ [a]) = intercalate sep init ++ sep :: a := by
  induction init with
  | nil => exact absurd rfl hi
  | cons p rest ih =>
    cases rest with
    | nil => simp [intercalate]
    | cons q rest =>
      have := ih (by simp)
      simp only [List.cons_append] at this ⊢
      simp only [intercalate, this, List.append_assoc, List.cons_append]

theorem canon_concat (sep : Char) (init : List Str) (a : Str) :
    canon sep (init ++ [a]) = (if init = [] then [] else canon sep init) ++ sep :: a := by
  by_cases hi : init = []
  · simp [hi, canon, intercalate]
  · simp [hi, canon, intercalate_concat sep init a hi]

theorem normSeps_canon {c : Cfg} (h : c.Ok) {l : List Str} (hl : Comps c l) :
    normSeps c (canon c.sep l) = canon c.sep l := by
  apply normSeps_eq_self (altFree_canon h hl)
  rcases List.eq_nil_or_concat l with rfl | ⟨init, a, rfl⟩
  · left; rfl
  · right
    rw [List.concat_eq_append] at hl ⊢
    have ha := hl.1 a (by simp)
    rw [canon_concat, List.getLast?_append]
    cases a with
    | nil => exact absurd rfl ha.1
    | cons x xs =>
      have := getLast?_ne_of_not_mem ha.2
      simpa [List.getLast?_cons_cons] using this

theorem nrm_canon {c : Cfg} (h : c.Ok) {l : List Str} (hl : Comps c l) : nrm c (canon c.sep l) = canon c.sep l := by
  rw [nrm_eq h, C_canon h hl]

/-- `split` of a string whose normal form has its last separator at a known place -/
theorem split_of_decomp (c : Cfg) (p pre a : Str) (hq : normSeps c p = pre ++ c.sep :: a) (ha : c.sep ∉ a) :
    split c p = (if pre = [] then [c.sep] else pre, a) := by
  simp only [split, rfind, hq, rfind_go_append _ _ _ _ _ ha, Nat.zero_add]
  cases pre with
  | nil => simp
  | cons x xs => simp

theorem split_canon_nil {c : Cfg} (h : c.Ok) : split c (canon c.sep []) = ([c.sep], []) := by
  have := split_of_decomp c (canon c.sep []) [] [] (by rw [normSeps_canon h (comps_nil' c)]; rfl) (by simp)
  simpa using this

theorem split_canon_concat {c : Cfg} (h : c.Ok) (init : List Str) (a : Str) (hl : Comps c (init ++ [a])) :
    split c (canon c.sep (init ++ [a])) = (canon c.sep init, a) := by
  have ha := hl.1 a (by simp)
  rw [split_of_decomp c _ (if init = [] then [] else canon c.sep init) a
    (by rw [normSeps_canon h hl, canon_concat]) ha.2]
  by_cases hi : init = []
  · simp [hi, canon, intercalate]
  · simp [hi, canon]

theorem join_canon_concat {c : Cfg} (h : c.Ok) (init : List Str) (a : Str) (hl : Comps c (init ++ [a])) :
    join c [canon c.sep init, a] = canon c.sep (init ++ [a]) := by
  have ha := hl.1 a (by simp)
  have haf := hl.2 a (by simp)
  have hra : relPart c a = a := by
    rw [relPart, normSeps_of_sepFree haf ha.2]
    exact strip_eq_self _ _ (head?_ne_of_not_mem ha.2) (getLast?_ne_of_not_mem ha.2)
  have hn := normSeps_canon h hl.left
  rw [join_two h _ a (intercalate c.sep init) (by rw [hn]; rfl), hra, hn, canon_concat]
  simp only [ha.1, if_false]
  congr 1
  by_cases hi : init = []
  · simp [hi, intercalate]
  · have : intercalate c.sep init ≠ [] := by
      cases init with
      | nil => exact absurd rfl hi
      | cons p rest =>
        have hp := (hl.1 p (by simp)).1
        cases rest with
        | nil => simpa [intercalate] using hp
        | cons q rest => simp [intercalate]
    simp [hi, this]

/-! ### case folding of canonical paths, display form -/

/-- case folding never produces the alternate separator from another character -/
def LowerAltOk (c : Cfg) : Prop := ∀ a, c.alt = some a → ∀ x, c.lower x = a → x = a

theorem fold_eq_lowerStr {c : Cfg} (hcs : c.cs = false) (s : Str) : fold c s = lowerStr c s := by
  rw [← fold_eq, hcs]; rfl

theorem fold_eq_self {c : Cfg} (hcs : c.cs = true) (s : Str) : fold c s = s := by
  rw [← fold_eq, hcs]; rfl

theorem Comps.mapLower {c : Cfg} (h : c.Ok) (hla : LowerAltOk c) {l : List Str} (hl : Comps c l) :
    Comps c (l.map (lowerStr c)) := by
  constructor
  · intro f hf
    obtain ⟨g, hg, rfl⟩ := List.mem_map.1 hf
    refine ⟨by simpa [lowerStr] using (hl.1 g hg).1, ?_⟩
    intro hm
    obtain ⟨x, hx, hxs⟩ := List.mem_map.1 hm
    exact (hl.1 g hg).2 ((h.lower_sep x).1 hxs ▸ hx)
  · intro f hf a ha hm
    obtain ⟨g, hg, rfl⟩ := List.mem_map.1 hf
    obtain ⟨x, hx, hxa⟩ := List.mem_map.1 hm
    exact hl.2 g hg a ha (hla a ha x hxa ▸ hx)

theorem Comps.mapFold {c : Cfg} (h : c.Ok) (hla : c.cs = false → LowerAltOk c) {l : List Str}
    (hl : Comps c l) : Comps c (l.map (fold c)) := by
  cases hcs : c.cs with
  | true =>
    have : l.map (fold c) = l := by
      conv => rhs; rw [← List.map_id l]
      exact List.map_congr_left (fun s _ => fold_eq_self hcs s)
    rw [this]; exact hl
  | false =>
    have : l.map (fold c) = l.map (lowerStr c) := List.map_congr_left (fun s _ => fold_eq_lowerStr hcs s)
    rw [this]; exact hl.mapLower h (hla hcs)

theorem normalizePath_cs {c : Cfg} (hcs : c.cs = true) (p : Str) (fd : Bool) :
    normalizePath c p fd = nrm c p := by
  simp [normalizePath, nrm, hcs]

theorem normalizePath_false_form {c : Cfg} (h : c.Ok) (p : Str) :
    normalizePath c p false = canon c.sep ((C c p).map (fold c)) := by
  have hs : cfold c c.sep = c.sep := (cfold_sep h _).2 rfl
  rw [normalizePath_false, nrm_eq h]
  unfold fold
  rw [canon_map _ _ hs]

theorem lowerStr_canon {c : Cfg} (h : c.Ok) (l : List Str) :
    lowerStr c (canon c.sep l) = canon c.sep (l.map (lowerStr c)) := by
  unfold lowerStr
  rw [canon_map _ _ (lower_sep_self h)]

/-- components of the display form: everything but the leaf is case folded -/
def dispComps (c : Cfg) (l : List Str) : List Str :=
  l.dropLast.map (lowerStr c) ++ l.getLast?.toList

@[simp] theorem dispComps_nil (c : Cfg) : dispComps c [] = [] := rfl

@[simp] theorem dispComps_concat (c : Cfg) (init : List Str) (a : Str) :
    dispComps c (init ++ [a]) = init.map (lowerStr c) ++ [a] := by
  simp [dispComps]

theorem Comps.disp {c : Cfg} (h : c.Ok) (hla : LowerAltOk c) {l : List Str} (hl : Comps c l) :
    Comps c (dispComps c l) := by
  rcases List.eq_nil_or_concat l with rfl | ⟨init, a, rfl⟩
  · exact hl
  · rw [List.concat_eq_append] at hl ⊢
    rw [dispComps_concat]
    exact (hl.left.mapLower h hla).append hl.right

theorem lowerStr_idem {c : Cfg} (h : c.Ok) (s : Str) : lowerStr c (lowerStr c s) = lowerStr c s := by
  simp [lowerStr, h.lower_idem]

theorem map_lowerStr_idem {c : Cfg} (h : c.Ok) (l : List Str) :
    (l.map (lowerStr c)).map (lowerStr c) = l.map (lowerStr c) := by
  simp [lowerStr_idem h]

theorem dispComps_idem {c : Cfg} (h : c.Ok) (l : List Str) : dispComps c (dispComps c l) = dispComps c l := by
  rcases List.eq_nil_or_concat l with rfl | ⟨init, a, rfl⟩
  · rfl
  · rw [List.concat_eq_append, dispComps_concat, dispComps_concat, map_lowerStr_idem h]

theorem map_lowerStr_dispComps {c : Cfg} (h : c.Ok) (l : List Str) :
    (dispComps c l).map (lowerStr c) = l.map (lowerStr c) := by
  rcases List.eq_nil_or_concat l with rfl | ⟨init, a, rfl⟩
  · rfl
  · rw [List.concat_eq_append, dispComps_concat, List.map_append, map_lowerStr_idem h, List.map_append]

theorem normalizePath_true_form {c : Cfg} (h : c.Ok) (hcs : c.cs = false) (hla : LowerAltOk c) (p : Str) :
    normalizePath c p true = canon c.sep (dispComps c (C c p)) := by
  have hn : normalizePath c p true =
      join c [lowerStr c (dirname c (nrm c p)), basename c (nrm c p)] := by
    simp [normalizePath, nrm, hcs]
  rw [hn, nrm_eq h]
  have hl := comps_C' h p
  rcases List.eq_nil_or_concat (C c p) with e | ⟨init, a, e⟩
  · rw [e, dirname, basename, split_canon_nil h]
    simp only [dispComps_nil]
    have h1 : lowerStr c [c.sep] = [c.sep] := by simp [lowerStr, lower_sep_self h]
    have h2 : normSeps c [c.sep] = [c.sep] := normSeps_canon h (comps_nil' c)
    rw [h1, join_two h [c.sep] [] [] h2, relPart_nil]
    simp only [if_true]; exact h2
  · rw [List.concat_eq_append] at e
    rw [e] at hl ⊢
    rw [dirname, basename, split_canon_concat h init a hl, dispComps_concat, lowerStr_canon h]
    exact join_canon_concat h _ a ((hl.left.mapLower h hla).append hl.right)

theorem basename_canon {c : Cfg} (h : c.Ok) {l : List Str} (hl : Comps c l) :
    basename c (canon c.sep l) = (l.getLast?.getD []) := by
  rcases List.eq_nil_or_concat l with rfl | ⟨init, a, rfl⟩
  · rw [basename, split_canon_nil h]; rfl
  · rw [List.concat_eq_append] at hl ⊢
    rw [basename, split_canon_concat h init a hl]; simp

theorem getLast?_dispComps (c : Cfg) (l : List Str) : (dispComps c l).getLast? = l.getLast? := by
  rcases List.eq_nil_or_concat l with rfl | ⟨init, a, rfl⟩
  · rfl
  · rw [List.concat_eq_append, dispComps_concat]; simp

/-! ### what `isSubpath` returns, in components -/

theorem C_eq_comps_normSeps (c : Cfg) (p : Str) : C c p = comps c.sep (normSeps c p) :=
  (comps_normSeps c p).symm

theorem comps_fold {c : Cfg} (h : c.Ok) (s : Str) :
    comps c.sep (fold c s) = (comps c.sep s).map (fold c) :=
  comps_map c.sep (cfold c) (cfold_sep h) s

theorem altFree_singleton_sep {c : Cfg} (h : c.Ok) : AltFree c [c.sep] :=
  altFree_cons.2 ⟨altFree_sep h, altFree_nil c⟩

theorem isSubpath_rel_spec {c : Cfg} (h : c.Ok) {f p r : Str}
    (hr : isSubpath c f p false = .rel r) :
    AltFree c r ∧ (C c f).map (fold c) ++ (comps c.sep r).map (fold c) = (C c p).map (fold c) := by
  rw [isSubpath_def] at hr
  rw [C_eq_comps_normSeps c f, C_eq_comps_normSeps c p]
  split at hr
  · cases hr
  · split at hr
    · rename_i h1
      simp only [Bool.false_eq_true, if_false, SubRes.rel.injEq] at hr
      subst hr
      refine ⟨altFree_singleton_sep h, ?_⟩
      simp only [beq_iff_eq] at h1
      rw [← comps_fold h (normSeps c f), ← comps_fold h (normSeps c p), h1]
      simp
    · split at hr
      · rename_i h2
        simp only [SubRes.rel.injEq] at hr
        subst hr
        simp only [Bool.and_eq_true, beq_iff_eq] at h2
        refine ⟨normSeps_altFree h p, ?_⟩
        rw [fold_eq_sep h h2.1]
        simp
      · split at hr
        · rename_i h3
          split at hr
          · rename_i h4
            simp only [SubRes.rel.injEq] at hr
            subst hr
            simp only [Bool.and_eq_true, decide_eq_true_eq, beq_iff_eq] at h3
            obtain ⟨hlen, hget⟩ := h3
            obtain ⟨hlt, hge⟩ := List.getElem?_eq_some_iff.1 hget
            have hdrop := List.drop_eq_getElem_cons hlt
            rw [hge] at hdrop
            refine ⟨(normSeps_altFree h p).mono (fun x hx => List.mem_of_mem_drop hx), ?_⟩
            have hdec : normSeps c p = (normSeps c p).take (normSeps c f).length
                ++ c.sep :: (normSeps c p).drop ((normSeps c f).length + 1) := by
              rw [← hdrop, List.take_append_drop]
            rw [isPrefix_iff, List.prefix_iff_eq_take] at h4
            simp only [fold_length] at h4
            have h5 : fold c (normSeps c f) = fold c ((normSeps c p).take (normSeps c f).length) := by
              rw [h4]; simp [fold, List.map_take]
            rw [hdrop, comps_sep_cons]
            conv => rhs; rw [hdec, comps_append_sep, List.map_append]
            rw [← comps_fold h, h5, comps_fold h]
          · cases hr
        · cases hr

theorem mem_normSeps_of_altFree {c : Cfg} {r : Str} (h : AltFree c r) {x : Char}
    (hx : x ∈ normSeps c r) : x ∈ r := by
  rw [normSeps_def, replaceAlt_of_altFree h] at hx
  split at hx
  · exact hx
  · split at hx
    · exact hx
    · exact mem_rstrip hx

/-- a relative part normalised on one side, read by the other side -/
theorem C_relPart_other {cF cT : Cfg} (hsep : cT.sep = cF.sep) {r : Str}
    (hF : AltFree cF r) (hT : AltFree cT r) : C cF (relPart cT r) = comps cF.sep r := by
  have h1 : AltFree cF (relPart cT r) :=
    hF.mono (fun x hx => mem_normSeps_of_altFree hT (mem_strip hx))
  rw [C_of_altFree h1, relPart, ← hsep, comps_strip, comps_normSeps, replaceAlt_of_altFree hT]

theorem simpleLower_eq_backslash (x : Char) : simpleLower x = '\\' ↔ x = '\\' := by
  rw [← Char.toNat_inj, ← Char.toNat_inj (c := x), simpleLower_toNat]
  have : '\\'.toNat = 92 := by decide
  rw [this]
  split <;> omega

/-- joining anything with a single well-formed component ends with that component -/
theorem join_ends {c : Cfg} (h : c.Ok) (X a : Str) (ha : Comps c [a]) :
    ∃ pre, join c [X, a] = pre ++ c.sep :: a := by
  have ha1 := ha.1 a (by simp)
  have ha2 := ha.2 a (by simp)
  have hna : normSeps c a = a := normSeps_of_sepFree ha2 ha1.2
  have hsa : strip c.sep a = a :=
    strip_eq_self _ _ (head?_ne_of_not_mem ha1.2) (getLast?_ne_of_not_mem ha1.2)
  have hra : rstrip c.sep a = a := rstrip_eq_self _ _ (getLast?_ne_of_not_mem ha1.2)
  have hae : a.isEmpty = false := by simpa using ha1.1
  have hlead : addLead c a = c.sep :: a := by
    cases a with
    | nil => exact absurd rfl ha1.1
    | cons x xs =>
      have : x ≠ c.sep := fun e => ha1.2 (by simp [e])
      simp [addLead, this]
  rw [join_def c h.noWin]
  by_cases hX : normSeps c X = []
  · refine ⟨[], ?_⟩
    simp [normList, hX, hna, hae, stripList, hra, intercalate, hlead]
  · have hXe : (normSeps c X).isEmpty = false := by simpa using hX
    by_cases hrX : rstrip c.sep (normSeps c X) = []
    · refine ⟨[], ?_⟩
      simp [normList, hXe, hna, hae, stripList, hrX, hsa, intercalate, hlead]
    · have hrXe : (rstrip c.sep (normSeps c X)).isEmpty = false := by simpa using hrX
      have hn : stripList c (normList c [X, a]) = [rstrip c.sep (normSeps c X), a] := by
        simp [normList, hXe, hna, hae, stripList, hrXe, hsa]
      rw [hn]
      simp only [List.isEmpty_cons, Bool.false_eq_true, if_false, intercalate]
      unfold addLead
      cases hj : rstrip c.sep (normSeps c X) with
      | nil => exact absurd hj hrX
      | cons x xs =>
        simp only [List.cons_append]
        split
        · exact ⟨x :: xs, rfl⟩
        · exact ⟨c.sep :: x :: xs, rfl⟩

theorem basename_join_ends {c : Cfg} (h : c.Ok) (X a : Str) (ha : Comps c [a]) :
    basename c (join c [X, a]) = a := by
  obtain ⟨pre, hp⟩ := join_ends h X a ha
  have ha1 := ha.1 a (by simp)
  have hn : normSeps c (join c [X, a]) = pre ++ c.sep :: a := by
    rw [normSeps_eq_self (altFree_join h _) ?_, hp]
    right
    rw [hp, List.getLast?_append]
    cases a with
    | nil => exact absurd rfl ha1.1
    | cons x xs =>
      have := getLast?_ne_of_not_mem ha1.2
      simpa [List.getLast?_cons_cons] using this
  rw [basename, split_of_decomp c _ pre a hn ha1.2]

/-- the display form keeps the leaf of the case-sensitive normal form (no assumption on how
    case folding treats the alternate separator) -/
theorem basename_display {c : Cfg} (h : c.Ok) (hcs : c.cs = false) (p : Str) :
    basename c (normalizePath c p true) = basename c (nrm c p) := by
  have hn : normalizePath c p true =
      join c [lowerStr c (dirname c (nrm c p)), basename c (nrm c p)] := by
    simp [normalizePath, nrm, hcs]
  rw [hn, nrm_eq h]
  have hl := comps_C' h p
  rcases List.eq_nil_or_concat (C c p) with e | ⟨init, a, e⟩
  · have hd : dirname c (canon c.sep []) = [c.sep] := congrArg Prod.fst (split_canon_nil h)
    have hb : basename c (canon c.sep []) = [] := congrArg Prod.snd (split_canon_nil h)
    have h1 : lowerStr c [c.sep] = [c.sep] := by simp [lowerStr, lower_sep_self h]
    have h2 : normSeps c [c.sep] = [c.sep] := normSeps_canon h (comps_nil' c)
    rw [e, hd, hb, h1, join_two h [c.sep] [] [] h2, relPart_nil]
    simp only [if_true]
    rw [h2]
    exact hb
  · rw [List.concat_eq_append] at e
    rw [e] at hl ⊢
    have hd : dirname c (canon c.sep (init ++ [a])) = canon c.sep init :=
      congrArg Prod.fst (split_canon_concat h init a hl)
    have hb : basename c (canon c.sep (init ++ [a])) = a :=
      congrArg Prod.snd (split_canon_concat h init a hl)
    rw [hd, hb]
    exact basename_join_ends h _ a hl.right


/-! ### both flag values of `normalizePath` / `pathsMatch`, optional arguments (follow-up R4) -/

theorem mem_replaceAlt {c : Cfg} {p : Str} {x : Char} (hx : x ∈ replaceAlt c p) : x = c.sep ∨ x ∈ p := by
  unfold replaceAlt at hx
  cases ha : c.alt with
  | none => rw [ha] at hx; exact Or.inr hx
  | some a =>
    rw [ha] at hx
    simp only [replaceChar, List.mem_map] at hx
    obtain ⟨y, hy, rfl⟩ := hx
    split
    · left; rfl
    · right; exact hy
theorem mem_canon {sep x : Char} {l : List Str} (hx : x ∈ canon sep l) : x = sep ∨ ∃ f ∈ l, x ∈ f := by
  simp only [canon, List.mem_cons] at hx
  rcases hx with e | hm
  · exact Or.inl e
  · exact mem_intercalate hm
theorem mem_nrm {c : Cfg} (h : c.Ok) {p : Str} {x : Char} (hx : x ∈ nrm c p) : x = c.sep ∨ x ∈ p := by
  rw [nrm_eq h] at hx
  rcases mem_canon hx with e | ⟨f, hf, hxf⟩
  · exact Or.inl e
  · exact mem_replaceAlt ((mem_comps hf).2.2 x hxf)
theorem dirname_canon {c : Cfg} (h : c.Ok) {l : List Str} (hl : Comps c l) :
    dirname c (canon c.sep l) = canon c.sep l.dropLast := by
  rcases List.eq_nil_or_concat l with rfl | ⟨init, a, rfl⟩
  · rw [dirname, split_canon_nil h]; rfl
  · rw [List.concat_eq_append] at hl ⊢
    rw [dirname, split_canon_concat h init a hl]; simp
theorem dropLast_dispComps (c : Cfg) (l : List Str) :
    (dispComps c l).dropLast = l.dropLast.map (lowerStr c) := by
  rcases List.eq_nil_or_concat l with rfl | ⟨init, a, rfl⟩
  · rfl
  · rw [List.concat_eq_append, dispComps_concat]; simp
theorem nrm_eq_cs (c : Cfg) (p : Str) : normalizePath { c with cs := true } p false = nrm c p := by
  rw [normalizePath_cs (c := { c with cs := true }) rfl]; rfl
theorem normalizePath_true_def {c : Cfg} (hcs : c.cs = false) (p : Str) :
    normalizePath c p true = join c [lowerStr c (dirname c (nrm c p)), basename c (nrm c p)] := by
  simp [normalizePath, nrm, hcs]

theorem flattenArgs_append (l r : List JArg) : flattenArgs (l ++ r) = flattenArgs l ++ flattenArgs r := by
  induction l with
  | nil => simp [flattenArgs]
  | cons a as ih => simp [flattenArgs, ih]

theorem flattenArgs_strs (ps : List Str) : flattenArgs (ps.map JArg.str) = ps := by
  induction ps with
  | nil => rfl
  | cons p ps ih => simp [flattenArgs, JArg.flatten, ih]

end CS.Path
