import Csverif.Proofs.Event
/-
Whole do() calls of the EventManager model: what an undisturbed do() has done when it returns.
-/
namespace CS.Event
set_option linter.unusedVariables false

theorem finish_of_idle (n : Nat) (s : St) (h : s.pcIdle = true) : finish n s = s := by
  cases n <;> simp [finish, h]

theorem finish_succ (n : Nat) (s : St) (h : s.pcIdle = false) : finish (n+1) s = finish n (apply s .step) := by
  simp [finish, h]

/-- the do() is past `_do_first_init`, nobody asked it to stop, and if it is about to save the cursor the
    event loop has drained the feed -/
def LateOk (s : St) (m : Mem) : Prop :=
  m.pc.late = true ∧ m.stopping = false ∧ (m.pc = .save → s.prov.latest ≤ s.prov.cur)

theorem late_not_idle (s : St) (m : Mem) (hm : s.mem = some m) (hl : m.pc.late = true) : s.pcIdle = false := by
  simp only [St.pcIdle, hm]
  cases hpc : m.pc <;> simp_all [PC.late]

theorem late_step (s : St) (m : Mem) (hm : s.mem = some m) (hl : LateOk s m) (hu : UpInv s m) :
    ∃ m1, (stepUp s m).mem = some m1 ∧ (stepUp s m).prov.latest = s.prov.latest ∧
      (stepUp s m).ghost.base = s.ghost.base ∧
      (LateOk (stepUp s m) m1 ∨
        (m1.pc = .idle ∧ m1.queue = [] ∧ m1.stopping = false ∧ m1.firstDo = false ∧
          s.prov.latest ≤ (stepUp s m).prov.cur)) := by
  obtain ⟨hlate, hst, hsave⟩ := hl
  cases hpc : m.pc with
  | idle => simp [hpc, PC.late] at hlate
  | firstInit => simp [hpc, PC.late] at hlate
  | errReset => simp [hpc, PC.late] at hlate
  | errForget => simp [hpc, PC.late] at hlate
  | seedSave => simp [hpc, PC.late] at hlate
  | errSave => simp [hpc, PC.late] at hlate
  | walkItem k =>
    cases k <;> simp [stepUp, hpc, LateOk, PC.late, hst]
  | queueLoop r =>
    cases r <;> simp [stepUp, hpc, LateOk, PC.late, hst, deliver]
  | events =>
    by_cases hlt : s.prov.cur < s.prov.latest
    · simp [stepUp, hpc, LateOk, PC.late, hst, hlt]
    · simp [stepUp, hpc, LateOk, PC.late, hst, hlt]
      omega
  | fetched i =>
    simp [stepUp, hpc, LateOk, PC.late, hst, deliver]
  | save =>
    have hq : m.queue = [] := hu.u6 (by simp [hpc, PC.evLoop])
    have hfd : m.firstDo = false := hu.u3a (by simp [hpc, PC.late])
    have hle := hsave hpc
    by_cases hne : some (CVal.int s.prov.cur) = m.cursor
    · simp [stepUp, hpc, LateOk, PC.late, hst, hne, hq, hfd, hle]
    · simp [stepUp, hpc, LateOk, PC.late, hst, hne, hq, hfd, hle]

/-- an undisturbed do() that is past first-init runs to its end, drains the feed, and keeps any property
    its steps keep -/
theorem finish_late (P : St → Prop)
    (hP : ∀ s m, s.mem = some m → LateOk s m → Inv s → P s → P (stepUp s m))
    (n : Nat) (s : St) (m : Mem) (hinv : Inv s) (hm : s.mem = some m) (hl : LateOk s m) (hp : P s)
    (hμ : measure s ≤ n) :
    ∃ m', (finish n s).mem = some m' ∧ m'.pc = .idle ∧ m'.queue = [] ∧ m'.stopping = false ∧
      m'.firstDo = false ∧ (finish n s).prov.latest = s.prov.latest ∧
      s.prov.latest ≤ (finish n s).prov.cur ∧ (finish n s).ghost.base = s.ghost.base ∧
      Inv (finish n s) ∧ P (finish n s) := by
  induction n generalizing s m with
  | zero =>
    have hni := late_not_idle s m hm hl.1
    have := measure_step s hni
    omega
  | succ n ih =>
    have hni := late_not_idle s m hm hl.1
    rw [finish_succ n s hni]
    have hstep : apply s .step = stepUp s m := by simp [apply, hm]
    have hinv1 : Inv (stepUp s m) := hstep ▸ inv_apply s .step hinv
    have hp1 := hP s m hm hl hinv hp
    have hμ1 : measure (stepUp s m) ≤ n := by
      have := measure_step s hni
      rw [hstep] at this
      omega
    obtain ⟨m1, hm1, hlat, hbase, hcase⟩ := late_step s m hm hl (hinv.up m hm)
    rw [hstep]
    rcases hcase with hl1 | ⟨hpc1, hq1, hst1, hfd1, hle1⟩
    · obtain ⟨m', h1, h2, h3, h4, h5, h6, h7, h8, h9, h10⟩ := ih (stepUp s m) m1 hinv1 hm1 hl1 hp1 hμ1
      exact ⟨m', h1, h2, h3, h4, h5, by rw [h6, hlat], by rw [← hlat]; exact h7, by rw [h8, hbase], h9, h10⟩
    · have hidle : (stepUp s m).pcIdle = true := by simp [St.pcIdle, hm1, hpc1]
      rw [finish_of_idle n _ hidle]
      exact ⟨m1, hm1, hpc1, hq1, hst1, hfd1, hlat, hle1, hbase, hinv1, hp1⟩


/-- the new engine validates its root already in the constructor (roots given with both path and id, a
    rootless sync, or a provider whose root is already set - i.e. every restart over the same providers) -/
def validatesAtStart (s : St) : Prop := s.cfg = .both ∨ s.cfg = .noRoot ∨ s.prov.rootSet = true

theorem start_mem (s : St) (hdown : s.mem = none) (hv : validatesAtStart s) :
    ∃ m0, (apply s .start) = { s with mem := some m0, ghost := { s.ghost with fresh := [] } } ∧
      m0.validated = true ∧ m0.cursor = s.store.cursor ∧ m0.firstDo = true ∧ m0.queue = [] ∧ m0.pc = .idle ∧
      m0.stopping = false ∧
      (m0.rootOid = true → m0.needWalk = (s.store.cursor.isNone || !s.store.walked)) ∧
      (s.cfg ≠ .noRoot → m0.rootOid = true) := by
  refine ⟨validateRoot s.prov s.store (newMem s.cfg), by simp [apply, hdown], ?_⟩
  rcases hv with h | h | h
  · simp [validateRoot, newMem, h]
  · cases hr : s.prov.rootSet <;> simp [validateRoot, newMem, h, hr]
  · cases hc : s.cfg <;> simp [validateRoot, newMem, h, hc]

/-- `doAll` on an engine whose first do() finds an acceptable integer cursor `c`: the provider is put on `c`,
    and when the do() returns every event after `c` has been delivered -/
theorem doAll_accepted (s : St) (m : Mem) (c : Int) (hinv : Inv s) (hm : s.mem = some m) (hval : m.validated = true)
    (hidle : m.pc = .idle) (hst : m.stopping = false) (hfd : m.firstDo = true) (hc : m.cursor = some (.int c))
    (hacc : s.prov.minValid ≤ c) (P : St → Prop)
    (hP : ∀ s m, s.mem = some m → LateOk s m → Inv s → P s → P (stepUp s m))
    (hP0 : P { s with prov := { s.prov with cur := c },
                      mem := some { m with firstDo := false, pc := afterInit { m with firstDo := false } s.prov },
                      ghost := { s.ghost with base := c } }) :
    ∃ m', (doAll s).mem = some m' ∧ m'.pc = .idle ∧ m'.queue = [] ∧ m'.stopping = false ∧ m'.firstDo = false ∧
      (doAll s).prov.latest = s.prov.latest ∧ s.prov.latest ≤ (doAll s).prov.cur ∧ (doAll s).ghost.base = c ∧
      Inv (doAll s) ∧ P (doAll s) := by
  have hvr : validateRoot s.prov s.store m = m := by simp [validateRoot, hval]
  have hs1 : apply s .callDo = { s with mem := some { m with pc := .firstInit } } := by
    simp [apply, hm, hidle, hst, hvr, hval]
  have hinv1 : Inv (apply s .callDo) := inv_apply s .callDo hinv
  have hni : (apply s .callDo).pcIdle = false := by simp [hs1, St.pcIdle]
  have hμ := measure_step _ hni
  obtain ⟨k, hk⟩ : ∃ k, measure (apply s .callDo) = k + 1 := ⟨measure (apply s .callDo) - 1, by omega⟩
  have hinv2 : Inv (apply (apply s .callDo) .step) := inv_apply _ .step hinv1
  have hacc' : s.prov.accept? (.int c) = some c := by simp [Prov.accept?, hacc]
  have hs2 : apply (apply s .callDo) .step =
      { s with prov := { s.prov with cur := c },
               mem := some { m with firstDo := false, pc := afterInit { m with firstDo := false } s.prov },
               ghost := { s.ghost with base := c } } := by
    rw [hs1]
    simp [apply, stepUp, hfd, hc, hacc', afterInit]
  simp only [doAll]
  rw [hk, finish_succ k _ hni]
  rw [hs2] at hinv2 hμ ⊢
  have hl : LateOk
      { s with prov := { s.prov with cur := c },
               mem := some { m with firstDo := false, pc := afterInit { m with firstDo := false } s.prov },
               ghost := { s.ghost with base := c } }
      { m with firstDo := false, pc := afterInit { m with firstDo := false } s.prov } := by
    simp only [LateOk, afterInit]
    split <;> simp [PC.late, hst]
  obtain ⟨m', h1, h2, h3, h4, h5, h6, h7, h8, h9, h10⟩ :=
    finish_late P hP k _ _ hinv2 rfl hl hP0 (by omega)
  exact ⟨m', h1, h2, h3, h4, h5, h6, h7, h8, h9, h10⟩


/-- `doAll` on an engine that starts without a cursor: the stored walk marker is dropped (if a walk is needed),
    then the provider's position is persisted, and (with a root) the walk runs before anything else -/
theorem doAll_seed (s : St) (m : Mem) (hinv : Inv s) (hm : s.mem = some m) (hval : m.validated = true)
    (hidle : m.pc = .idle) (hst : m.stopping = false) (hfd : m.firstDo = true) (hc : m.cursor = none)
    (P : St → Prop)
    (hP : ∀ s m, s.mem = some m → LateOk s m → Inv s → P s → P (stepUp s m))
    (hP0 : P { s with store := { cursor := some (.int s.prov.cur),
                                 walked := s.store.walked && !(m.needWalk && m.rootOid), log := s.store.log },
                      mem := some { m with cursor := some (.int s.prov.cur), firstDo := false,
                                           pc := afterInit { m with firstDo := false } s.prov },
                      ghost := { s.ghost with seed := s.prov.cur, walkDue := true, base := s.prov.cur } }) :
    ∃ m', (doAll s).mem = some m' ∧ m'.pc = .idle ∧ m'.queue = [] ∧ m'.stopping = false ∧ m'.firstDo = false ∧
      (doAll s).prov.latest = s.prov.latest ∧ s.prov.latest ≤ (doAll s).prov.cur ∧
      (doAll s).ghost.base = s.prov.cur ∧ Inv (doAll s) ∧ P (doAll s) := by
  have hvr : validateRoot s.prov s.store m = m := by simp [validateRoot, hval]
  have hs1 : apply s .callDo = { s with mem := some { m with pc := .firstInit } } := by
    simp [apply, hm, hidle, hst, hvr, hval]
  have hinv1 : Inv (apply s .callDo) := inv_apply s .callDo hinv
  have hni : (apply s .callDo).pcIdle = false := by simp [hs1, St.pcIdle]
  have hμ := measure_step _ hni
  have hinv2 : Inv (apply (apply s .callDo) .step) := inv_apply _ .step hinv1
  have hs2 : apply (apply s .callDo) .step =
      { s with store := { s.store with walked := s.store.walked && !(m.needWalk && m.rootOid) },
               mem := some { m with cursor := some (.int s.prov.cur), pc := .seedSave },
               ghost := { s.ghost with seed := s.prov.cur } } := by
    rw [hs1]
    simp [apply, stepUp, hfd, hc]
  have hni2 : (apply (apply s .callDo) .step).pcIdle = false := by simp [hs2, St.pcIdle]
  have hμ2 := measure_step _ hni2
  have hinv3 : Inv (apply (apply (apply s .callDo) .step) .step) := inv_apply _ .step hinv2
  have hs3 : apply (apply (apply s .callDo) .step) .step =
      { s with store := { cursor := some (.int s.prov.cur),
                          walked := s.store.walked && !(m.needWalk && m.rootOid), log := s.store.log },
               mem := some { m with cursor := some (.int s.prov.cur), firstDo := false,
                                    pc := afterInit { m with firstDo := false } s.prov },
               ghost := { s.ghost with seed := s.prov.cur, walkDue := true, base := s.prov.cur } } := by
    rw [hs2]
    simp [apply, stepUp, afterInit]
  obtain ⟨k, hk⟩ : ∃ k, measure (apply s .callDo) = k + 2 := ⟨measure (apply s .callDo) - 2, by omega⟩
  simp only [doAll]
  rw [hk, finish_succ (k+1) _ hni, finish_succ k _ hni2]
  rw [hs3] at hinv3 hμ2 ⊢
  have hl : LateOk
      { s with store := { cursor := some (.int s.prov.cur),
                          walked := s.store.walked && !(m.needWalk && m.rootOid), log := s.store.log },
               mem := some { m with cursor := some (.int s.prov.cur), firstDo := false,
                                    pc := afterInit { m with firstDo := false } s.prov },
               ghost := { s.ghost with seed := s.prov.cur, walkDue := true, base := s.prov.cur } }
      { m with cursor := some (.int s.prov.cur), firstDo := false,
               pc := afterInit { m with firstDo := false } s.prov } := by
    simp only [LateOk, afterInit]
    split <;> simp [PC.late, hst]
  obtain ⟨m', h1, h2, h3, h4, h5, h6, h7, h8, h9, h10⟩ :=
    finish_late P hP k _ _ hinv3 rfl hl hP0 (by omega)
  exact ⟨m', h1, h2, h3, h4, h5, h6, h7, h8, h9, h10⟩

/-- `doAll` on an engine whose first do() finds a cursor the provider rejects: four effects (need_walk if no
    marker; provider reset to the newest position; stored walk marker deleted; reset cursor persisted and need_walk
    set), nothing delivered -/
theorem doAll_rejected (s : St) (m : Mem) (v : CVal) (hm : s.mem = some m) (hval : m.validated = true)
    (hidle : m.pc = .idle) (hst : m.stopping = false) (hfd : m.firstDo = true) (hc : m.cursor = some v)
    (hrej : s.prov.accept? v = none) (hne : some (CVal.int s.prov.latest) ≠ m.cursor) :
    doAll s =
      { s with prov := { s.prov with cur := s.prov.latest },
               store := { s.store with cursor := some (.int s.prov.latest), walked := s.store.walked && !m.rootOid },
               mem := some { m with cursor := some (.int s.prov.latest), needWalk := true, pc := .idle },
               ghost := { s.ghost with seed := s.prov.latest, walkDue := true } } := by
  have hvr : validateRoot s.prov s.store m = m := by simp [validateRoot, hval]
  have hs1 : apply s .callDo = { s with mem := some { m with pc := .firstInit } } := by
    simp [apply, hm, hidle, hst, hvr, hval]
  have h8 : ∃ k, measure (apply s .callDo) = k + 5 := by
    refine ⟨measure (apply s .callDo) - 5, ?_⟩
    rw [hs1]
    simp only [measure]
    omega
  obtain ⟨k, hk⟩ := h8
  simp only [doAll]
  rw [hk, hs1]
  simp [finish, St.pcIdle, apply, stepUp, hfd, hc, hrej, hne]
  intro h
  exact absurd (by simp [hc, h]) hne

/-- the walk's post-condition, as something every later step of the same do() keeps -/
def WalkDone (s : St) : Prop :=
  (∃ m k, s.mem = some m ∧ m.pc = .walkItem k) ∨
  (s.store.walked = true ∧ s.ghost.walkDue = false ∧ ∀ m, s.mem = some m → m.needWalk = false)

theorem walkDone_step (s : St) (m : Mem) (hm : s.mem = some m) (hl : LateOk s m) (hinv : Inv s) (hp : WalkDone s) :
    WalkDone (stepUp s m) := by
  obtain ⟨hlate, hst, _⟩ := hl
  rcases hp with ⟨m0, k, hm0, hpc0⟩ | ⟨hw, hd, hn⟩
  · rw [hm] at hm0
    simp only [Option.some.injEq] at hm0
    subst hm0
    cases k with
    | zero => right; simp [stepUp, hpc0]
    | succ k => left; simp [stepUp, hpc0, hst]
  · have hn' := hn m hm
    right
    cases hpc : m.pc with
    | idle => simp [stepUp, hpc, hw, hd, hm, hn']
    | firstInit => simp [hpc, PC.late] at hlate
    | errReset => simp [hpc, PC.late] at hlate
    | errForget => simp [hpc, PC.late] at hlate
    | seedSave => simp [hpc, PC.late] at hlate
    | errSave => simp [hpc, PC.late] at hlate
    | walkItem k => cases k <;> simp [stepUp, hpc, hw, hd, hn', hst]
    | queueLoop r => cases r <;> simp [stepUp, hpc, hw, hd, hn', deliver]
    | events => by_cases h : s.prov.cur < s.prov.latest <;> simp [stepUp, hpc, hw, hd, hn', h]
    | fetched i => simp [stepUp, hpc, hw, hd, hn', hst, deliver]
    | save => by_cases h : some (CVal.int s.prov.cur) = m.cursor <;> simp [stepUp, hpc, hw, hd, hn', h]

end CS.Event
