import Csverif.Model.Hints
/-
Helper lemmas for Props/C14.lean (model: Model/Hints.lean).
-/
namespace CS.Hints
set_option linter.unusedVariables false

/-! ### field lemmas for the setters -/

section setters
variable (s : Side) (v : Ex) (h : Option Hash)

@[simp] theorem setEx_oid : (setEx s v).oid = s.oid := by unfold setEx; (repeat' split) <;> rfl
@[simp] theorem setEx_path : (setEx s v).path = s.path := by unfold setEx; (repeat' split) <;> rfl
@[simp] theorem setEx_hash : (setEx s v).hash = s.hash := by unfold setEx; (repeat' split) <;> rfl
@[simp] theorem setEx_otype : (setEx s v).otype = s.otype := by unfold setEx; (repeat' split) <;> rfl
@[simp] theorem setEx_changed : (setEx s v).changed = s.changed := by unfold setEx; (repeat' split) <;> rfl
@[simp] theorem setEx_lastGotten : (setEx s v).lastGotten = s.lastGotten := by unfold setEx; (repeat' split) <;> rfl
@[simp] theorem setEx_ign : (setEx s v).ign = s.ign := by unfold setEx; (repeat' split) <;> rfl

@[simp] theorem uncorrupt_oid : (uncorrupt s).oid = s.oid := by unfold uncorrupt; split <;> rfl
@[simp] theorem uncorrupt_path : (uncorrupt s).path = s.path := by unfold uncorrupt; split <;> rfl
@[simp] theorem uncorrupt_hash : (uncorrupt s).hash = s.hash := by unfold uncorrupt; split <;> rfl
@[simp] theorem uncorrupt_otype : (uncorrupt s).otype = s.otype := by unfold uncorrupt; split <;> rfl
@[simp] theorem uncorrupt_changed : (uncorrupt s).changed = s.changed := by unfold uncorrupt; split <;> rfl
@[simp] theorem uncorrupt_lastGotten : (uncorrupt s).lastGotten = s.lastGotten := by unfold uncorrupt; split <;> rfl
@[simp] theorem uncorrupt_ign : (uncorrupt s).ign = s.ign := by unfold uncorrupt; split <;> rfl

@[simp] theorem setHash_oid : (setHash s h).oid = s.oid := by unfold setHash; simp only []; split <;> simp
@[simp] theorem setHash_path : (setHash s h).path = s.path := by unfold setHash; simp only []; split <;> simp
@[simp] theorem setHash_hash : (setHash s h).hash = h := by unfold setHash; rfl
@[simp] theorem setHash_otype : (setHash s h).otype = s.otype := by unfold setHash; simp only []; split <;> simp
@[simp] theorem setHash_changed : (setHash s h).changed = s.changed := by unfold setHash; simp only []; split <;> simp
@[simp] theorem setHash_lastGotten : (setHash s h).lastGotten = s.lastGotten := by unfold setHash; simp only []; split <;> simp
@[simp] theorem setHash_ign : (setHash s h).ign = s.ign := by unfold setHash; simp only []; split <;> simp

@[simp] theorem touch_oid (n : Nat) : (touch s n).oid = s.oid := by unfold touch; split <;> rfl
@[simp] theorem touch_path (n : Nat) : (touch s n).path = s.path := by unfold touch; split <;> rfl
@[simp] theorem touch_hash (n : Nat) : (touch s n).hash = s.hash := by unfold touch; split <;> rfl
@[simp] theorem touch_ex (n : Nat) : (touch s n).ex = s.ex := by unfold touch; split <;> rfl
@[simp] theorem touch_saved (n : Nat) : (touch s n).saved = s.saved := by unfold touch; split <;> rfl
@[simp] theorem touch_otype (n : Nat) : (touch s n).otype = s.otype := by unfold touch; split <;> rfl
@[simp] theorem touch_lastGotten (n : Nat) : (touch s n).lastGotten = s.lastGotten := by unfold touch; split <;> rfl
@[simp] theorem touch_ign (n : Nat) : (touch s n).ign = s.ign := by unfold touch; split <;> rfl

end setters

/-! ### the non-corrupt fragment: setters are plain assignments -/

theorem setEx_of_ne (s : Side) (v : Ex) (hs : s.ex ≠ .corrupt) (hv : v ≠ .corrupt) :
    setEx s v = { s with ex := v } := by
  unfold setEx; simp [hs, hv]

theorem setEx_ex_of_ne (s : Side) (v : Ex) (hs : s.ex ≠ .corrupt) (hv : v ≠ .corrupt) :
    (setEx s v).ex = v := by rw [setEx_of_ne s v hs hv]

theorem setEx_ne_corrupt (s : Side) (v : Ex) (hs : s.ex ≠ .corrupt) (hv : v ≠ .corrupt) :
    (setEx s v).ex ≠ .corrupt := by rw [setEx_ex_of_ne s v hs hv]; exact hv

theorem setHash_of_ne (s : Side) (h : Option Hash) (hs : s.ex ≠ .corrupt) :
    setHash s h = { s with hash := h } := by
  unfold setHash; simp [hs]

theorem setHash_ex_of_ne (s : Side) (h : Option Hash) (hs : s.ex ≠ .corrupt) : (setHash s h).ex = s.ex := by
  rw [setHash_of_ne s h hs]

/-- un-corrupting never yields the corrupt state again only if the saved value is not corrupt; in general
    the setters keep the state inside {corrupt} ∪ what was assigned -/
theorem setEx_ex_cases (s : Side) (v : Ex) : (setEx s v).ex = v ∨ (setEx s v).ex = .corrupt := by
  unfold setEx
  split
  · right; rfl
  · split
    · right; rename_i h; exact h.2
    · left; rfl

theorem translate_ne_corrupt (b : Option Bool) : translate b ≠ .corrupt := by
  cases b with
  | none => simp [translate]
  | some b => cases b <;> simp [translate]

end CS.Hints

namespace CS.Hints
set_option linter.unusedVariables false

/-! ### stage lemmas: `applyEvent` -/
section stages
variable (ip : Bool) (norm : Path → Path) (s : Side) (e : Event) (t now : Nat) (info : Info) (T : Truth) (o : Oid)

@[simp] theorem aType_oid : (aType s e).oid = s.oid := by unfold aType; split <;> rfl
@[simp] theorem aType_path : (aType s e).path = s.path := by unfold aType; split <;> rfl
@[simp] theorem aType_hash : (aType s e).hash = s.hash := by unfold aType; split <;> rfl
@[simp] theorem aType_ex : (aType s e).ex = s.ex := by unfold aType; split <;> rfl
@[simp] theorem aType_saved : (aType s e).saved = s.saved := by unfold aType; split <;> rfl
@[simp] theorem aType_changed : (aType s e).changed = s.changed := by unfold aType; split <;> rfl
@[simp] theorem aType_lastGotten : (aType s e).lastGotten = s.lastGotten := by unfold aType; split <;> rfl
@[simp] theorem aType_ign : (aType s e).ign = s.ign := by unfold aType; split <;> rfl
@[simp] theorem aType_otype : (aType s e).otype = e.otype := by
  unfold aType; split
  · rfl
  · rename_i h; simp at h; exact h.symm

@[simp] theorem aPath_oid : (aPath norm s e).oid = s.oid := by unfold aPath; (repeat' split) <;> rfl
@[simp] theorem aPath_hash : (aPath norm s e).hash = s.hash := by unfold aPath; (repeat' split) <;> rfl
@[simp] theorem aPath_ex : (aPath norm s e).ex = s.ex := by unfold aPath; (repeat' split) <;> rfl
@[simp] theorem aPath_saved : (aPath norm s e).saved = s.saved := by unfold aPath; (repeat' split) <;> rfl
@[simp] theorem aPath_otype : (aPath norm s e).otype = s.otype := by unfold aPath; (repeat' split) <;> rfl
@[simp] theorem aPath_changed : (aPath norm s e).changed = s.changed := by unfold aPath; (repeat' split) <;> rfl
@[simp] theorem aPath_lastGotten : (aPath norm s e).lastGotten = s.lastGotten := by unfold aPath; (repeat' split) <;> rfl
@[simp] theorem aPath_ign : (aPath norm s e).ign = s.ign := by unfold aPath; (repeat' split) <;> rfl
theorem aPath_path : (aPath norm s e).path = (match e.path with | some p => some (norm p) | none => s.path) := by
  unfold aPath
  cases hp : e.path with
  | none => rfl
  | some p =>
    simp only []
    split
    · rfl
    · rename_i h; simp at h; exact h.symm

@[simp] theorem aHash_oid : (aHash s e).oid = s.oid := by unfold aHash; (repeat' split) <;> simp
@[simp] theorem aHash_path : (aHash s e).path = s.path := by unfold aHash; (repeat' split) <;> simp
@[simp] theorem aHash_otype : (aHash s e).otype = s.otype := by unfold aHash; (repeat' split) <;> simp
@[simp] theorem aHash_changed : (aHash s e).changed = s.changed := by unfold aHash; (repeat' split) <;> simp
@[simp] theorem aHash_lastGotten : (aHash s e).lastGotten = s.lastGotten := by unfold aHash; (repeat' split) <;> simp
@[simp] theorem aHash_ign : (aHash s e).ign = s.ign := by unfold aHash; (repeat' split) <;> simp
theorem aHash_hash : (aHash s e).hash = (match e.hash with | some h => some h | none => s.hash) := by
  unfold aHash
  cases hp : e.hash with
  | none => rfl
  | some p =>
    simp only []
    split
    · simp
    · rename_i h; simp at h; exact h.symm

@[simp] theorem aEx_oid : (aEx s e).oid = s.oid := by unfold aEx; split <;> simp
@[simp] theorem aEx_path : (aEx s e).path = s.path := by unfold aEx; split <;> simp
@[simp] theorem aEx_hash : (aEx s e).hash = s.hash := by unfold aEx; split <;> simp
@[simp] theorem aEx_otype : (aEx s e).otype = s.otype := by unfold aEx; split <;> simp
@[simp] theorem aEx_changed : (aEx s e).changed = s.changed := by unfold aEx; split <;> simp
@[simp] theorem aEx_lastGotten : (aEx s e).lastGotten = s.lastGotten := by unfold aEx; split <;> simp
@[simp] theorem aEx_ign : (aEx s e).ign = s.ign := by unfold aEx; split <;> simp

@[simp] theorem aChanged_oid : (aChanged s e t).oid = s.oid := by unfold aChanged; simp only []; split <;> rfl
@[simp] theorem aChanged_path : (aChanged s e t).path = s.path := by unfold aChanged; simp only []; split <;> rfl
@[simp] theorem aChanged_hash : (aChanged s e t).hash = s.hash := by unfold aChanged; simp only []; split <;> rfl
@[simp] theorem aChanged_ex : (aChanged s e t).ex = s.ex := by unfold aChanged; simp only []; split <;> rfl
@[simp] theorem aChanged_saved : (aChanged s e t).saved = s.saved := by unfold aChanged; simp only []; split <;> rfl
@[simp] theorem aChanged_otype : (aChanged s e t).otype = s.otype := by unfold aChanged; simp only []; split <;> rfl
@[simp] theorem aChanged_ign : (aChanged s e t).ign = s.ign := by unfold aChanged; simp only []; split <;> rfl
@[simp] theorem aChanged_changed : (aChanged s e t).changed = t := by unfold aChanged; simp only []; split <;> rfl

/-! ### stage lemmas: the known branch of `get_latest` -/

@[simp] theorem kHash_oid : (kHash info now s).oid = s.oid := by unfold kHash; split <;> simp
@[simp] theorem kHash_path : (kHash info now s).path = s.path := by unfold kHash; split <;> simp
@[simp] theorem kHash_otype : (kHash info now s).otype = s.otype := by unfold kHash; split <;> simp
@[simp] theorem kHash_lastGotten : (kHash info now s).lastGotten = s.lastGotten := by unfold kHash; split <;> simp
@[simp] theorem kHash_ign : (kHash info now s).ign = s.ign := by unfold kHash; split <;> simp
@[simp] theorem kHash_hash : (kHash info now s).hash = info.hash := by
  unfold kHash; split
  · simp
  · rename_i h; simp at h; exact h

@[simp] theorem kType_oid : (kType info s).oid = s.oid := by simp [kType]
@[simp] theorem kType_path : (kType info s).path = s.path := by simp [kType]
@[simp] theorem kType_hash : (kType info s).hash = s.hash := by simp [kType]
@[simp] theorem kType_otype : (kType info s).otype = info.otype := by simp [kType]
@[simp] theorem kType_changed : (kType info s).changed = s.changed := by simp [kType]
@[simp] theorem kType_lastGotten : (kType info s).lastGotten = s.lastGotten := by simp [kType]
@[simp] theorem kType_ign : (kType info s).ign = s.ign := by simp [kType]
@[simp] theorem kType_ex : (kType info s).ex = (setEx s .present).ex := by simp [kType]
@[simp] theorem kType_saved : (kType info s).saved = (setEx s .present).saved := by simp [kType]

@[simp] theorem kFile_oid : (kFile T o s).oid = s.oid := by unfold kFile; (repeat' split) <;> simp
@[simp] theorem kFile_path : (kFile T o s).path = s.path := by unfold kFile; (repeat' split) <;> simp
@[simp] theorem kFile_otype : (kFile T o s).otype = s.otype := by unfold kFile; (repeat' split) <;> simp
@[simp] theorem kFile_changed : (kFile T o s).changed = s.changed := by unfold kFile; (repeat' split) <;> simp
@[simp] theorem kFile_lastGotten : (kFile T o s).lastGotten = s.lastGotten := by unfold kFile; (repeat' split) <;> simp
@[simp] theorem kFile_ign : (kFile T o s).ign = s.ign := by unfold kFile; (repeat' split) <;> simp
theorem kFile_hash : (kFile T o s).hash = (if s.otype = .file ∧ s.hash = none then T.hashOid o else s.hash) := by
  unfold kFile; (repeat' split) <;> simp_all

@[simp] theorem kPath_oid : (kPath norm info now s).oid = s.oid := by unfold kPath; split <;> simp
@[simp] theorem kPath_hash : (kPath norm info now s).hash = s.hash := by unfold kPath; split <;> simp
@[simp] theorem kPath_ex : (kPath norm info now s).ex = s.ex := by unfold kPath; split <;> simp
@[simp] theorem kPath_saved : (kPath norm info now s).saved = s.saved := by unfold kPath; split <;> simp
@[simp] theorem kPath_otype : (kPath norm info now s).otype = s.otype := by unfold kPath; split <;> simp
@[simp] theorem kPath_lastGotten : (kPath norm info now s).lastGotten = s.lastGotten := by unfold kPath; split <;> simp
@[simp] theorem kPath_ign : (kPath norm info now s).ign = s.ign := by unfold kPath; split <;> simp
@[simp] theorem kPath_path : (kPath norm info now s).path = some (norm info.path) := by
  unfold kPath; split
  · simp
  · rename_i h; simp at h; exact h

end stages

/-! ### non-corruptness is preserved -/

theorem uncorrupt_ne (s : Side) (h : s.ex ≠ .corrupt) : uncorrupt s = s := by unfold uncorrupt; simp [h]

theorem aHash_ex_of_ne (s : Side) (e : Event) (h : s.ex ≠ .corrupt) : (aHash s e).ex = s.ex := by
  unfold aHash; (repeat' split) <;> simp [setHash_ex_of_ne, h]

theorem aHash_saved_of_ne (s : Side) (e : Event) (h : s.ex ≠ .corrupt) : (aHash s e).saved = s.saved := by
  unfold aHash; (repeat' split) <;> simp [setHash_of_ne, h]

theorem aEx_ne (s : Side) (e : Event) (h : s.ex ≠ .corrupt) : (aEx s e).ex ≠ .corrupt := by
  unfold aEx; split
  · exact setEx_ne_corrupt s _ h (by decide)
  · exact setEx_ne_corrupt s _ h (translate_ne_corrupt _)

theorem kHash_ex_of_ne (info : Info) (now : Nat) (s : Side) (h : s.ex ≠ .corrupt) : (kHash info now s).ex = s.ex := by
  unfold kHash; split <;> simp [setHash_ex_of_ne, h]

theorem kFile_ex_of_ne (T : Truth) (o : Oid) (s : Side) (h : s.ex ≠ .corrupt) : (kFile T o s).ex = s.ex := by
  unfold kFile; (repeat' split) <;> simp [setHash_ex_of_ne, h]

end CS.Hints
