import Csverif.Model.Tree
/- the reference tree as a finite map: lookup after set / erase, membership -/
namespace CS.Tree
set_option linter.unusedVariables false
variable {C : Type}

theorem get_nil (k : Path) : get ([] : T C) k = none := rfl

theorem get_cons (e : Path × Node C) (t : T C) (k : Path) :
    get (e :: t) k = if e.1 = k then some e.2 else get t k := by
  simp only [get, List.find?_cons]
  by_cases h : e.1 = k
  · simp [h]
  · have : (e.1 == k) = false := by simpa using h
    simp [h, this]

theorem get_append (t1 t2 : T C) (k : Path) : get (t1 ++ t2) k = (get t1 k).or (get t2 k) := by
  induction t1 with
  | nil => simp [get_nil]
  | cons e t ih =>
    simp only [List.cons_append, get_cons, ih]
    split <;> simp

theorem get_erase (t : T C) (k k' : Path) : get (erase t k) k' = if k' = k then none else get t k' := by
  induction t with
  | nil => simp [erase, get_nil]
  | cons e t ih =>
    simp only [erase, List.filter_cons] at ih ⊢
    by_cases he : e.1 = k
    · subst he
      simp only [beq_self_eq_true, Bool.not_true, Bool.false_eq_true, if_false, ih, get_cons]
      by_cases hk : k' = e.1
      · simp [hk]
      · have : ¬ e.1 = k' := fun h => hk h.symm
        simp [hk, this]
    · have hb : (e.1 == k) = false := by simpa using he
      simp only [hb, Bool.not_false, if_true, get_cons, ih]
      by_cases hk : e.1 = k'
      · subst hk; simp [he]
      · simp [hk]

theorem get_set (t : T C) (k : Path) (n : Node C) (k' : Path) :
    get (set t k n) k' = if k' = k then some n else get t k' := by
  unfold set
  rw [get_append, get_erase, get_cons, get_nil]
  by_cases hk : k' = k
  · subst hk; simp
  · have : ¬ k = k' := fun h => hk h.symm
    simp [hk, this]

theorem mem_of_get {t : T C} {k : Path} {n : Node C} (h : get t k = some n) : (k, n) ∈ t := by
  induction t with
  | nil => simp [get_nil] at h
  | cons e t ih =>
    rw [get_cons] at h
    by_cases he : e.1 = k
    · simp only [he, if_true, Option.some.injEq] at h
      apply List.mem_cons.2; left
      cases e; simp_all
    · simp only [he, if_false] at h
      exact List.mem_cons_of_mem _ (ih h)

theorem get_of_mem {t : T C} (hn : (t.map (·.1)).Nodup) {k : Path} {n : Node C} (hm : (k, n) ∈ t) :
    get t k = some n := by
  induction t with
  | nil => simp at hm
  | cons e t ih =>
    rw [get_cons]
    simp only [List.map_cons, List.nodup_cons] at hn
    rcases List.mem_cons.1 hm with he | hm'
    · subst he; simp
    · have : e.1 ≠ k := by
        intro heq
        apply hn.1
        rw [heq]
        exact List.mem_map.2 ⟨(k, n), hm', rfl⟩
      simp [this, ih hn.2 hm']

theorem nodup_erase {t : T C} (hn : (t.map (·.1)).Nodup) (k : Path) : ((erase t k).map (·.1)).Nodup :=
  List.Nodup.sublist (List.Sublist.map _ List.filter_sublist) hn

theorem mem_erase {t : T C} {k : Path} {e : Path × Node C} (h : e ∈ erase t k) : e ∈ t ∧ e.1 ≠ k := by
  simp only [erase, List.mem_filter, Bool.not_eq_true', beq_eq_false_iff_ne, ne_eq] at h
  exact h

theorem nodup_set {t : T C} (hn : (t.map (·.1)).Nodup) (k : Path) (n : Node C) : ((set t k n).map (·.1)).Nodup := by
  unfold set
  rw [List.map_append, List.nodup_append]
  refine ⟨nodup_erase hn k, by simp, ?_⟩
  intro a ha b hb
  simp only [List.map_cons, List.map_nil, List.mem_singleton] at hb
  subst hb
  obtain ⟨e, he, rfl⟩ := List.mem_map.1 ha
  exact (mem_erase he).2

theorem mem_set {t : T C} {k : Path} {n : Node C} {e : Path × Node C} (h : e ∈ set t k n) :
    e = (k, n) ∨ (e ∈ t ∧ e.1 ≠ k) := by
  unfold set at h
  rcases List.mem_append.1 h with h | h
  · right; exact mem_erase h
  · left; simpa using h

end CS.Tree
