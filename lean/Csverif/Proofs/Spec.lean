import Csverif.Model.Spec.Sync
/- helper lemmas for Props/C01.lean … C04.lean, C12.lean (abstract sync specifications) -/
namespace CS.Spec

/-! ### nodes, lookups -/

/-- the derived `BEq Node` agrees with equality (needed because `Tree.subset` compares with `==`) -/
instance : LawfulBEq Node where
  rfl := by intro a; cases a <;> simp [BEq.beq, instBEqNode.beq]
  eq_of_beq := by
    intro a b h; cases a <;> cases b <;> simp_all [BEq.beq, instBEqNode.beq]

/-- well-formed tree: every path occurs at most once -/
def Tree.WF (t : Tree) : Prop := (t.map (·.1)).Nodup

instance (t : Tree) : Decidable t.WF := by unfold Tree.WF; infer_instance

theorem Tree.get_nil (p : RPath) : Tree.get [] p = none := rfl

theorem Tree.get_cons (e : RPath × Node) (t : Tree) (p : RPath) :
    Tree.get (e :: t) p = if e.1 = p then some e.2 else Tree.get t p := by
  simp only [Tree.get, List.find?_cons]
  by_cases h : e.1 = p
  · simp [h]
  · have : (e.1 == p) = false := by simp [h]
    simp [this, h]

theorem Tree.get_eq_none_iff (t : Tree) (p : RPath) : t.get p = none ↔ ∀ e ∈ t, e.1 ≠ p := by
  induction t with
  | nil => simp [Tree.get_nil]
  | cons e t ih =>
    rw [Tree.get_cons]
    by_cases h : e.1 = p
    · simp [h]
    · simp [h, ih]

theorem Tree.mem_of_get_eq_some {t : Tree} {p : RPath} {n : Node} (h : t.get p = some n) : (p, n) ∈ t := by
  induction t with
  | nil => simp [Tree.get_nil] at h
  | cons e t ih =>
    rw [Tree.get_cons] at h
    by_cases he : e.1 = p
    · simp only [he, if_true, Option.some.injEq] at h
      have : e = (p, n) := by rw [← he, ← h]
      rw [this]; exact List.mem_cons_self
    · simp only [he, if_false] at h
      exact List.mem_cons_of_mem _ (ih h)

theorem Tree.WF_nil : Tree.WF [] := by simp [Tree.WF]

theorem Tree.WF_cons (e : RPath × Node) (t : Tree) :
    Tree.WF (e :: t) ↔ (∀ x ∈ t, x.1 ≠ e.1) ∧ Tree.WF t := by
  simp only [Tree.WF, List.map_cons, List.nodup_cons, List.mem_map, not_exists, not_and]

theorem Tree.get_eq_some_of_mem {t : Tree} (hw : t.WF) {p : RPath} {n : Node} (h : (p, n) ∈ t) :
    t.get p = some n := by
  induction t with
  | nil => cases h
  | cons e t ih =>
    rw [Tree.WF_cons] at hw
    rw [Tree.get_cons]
    cases h with
    | head => simp
    | tail _ h' =>
      have : e.1 ≠ p := fun he => hw.1 _ h' he.symm
      simp only [this, if_false]
      exact ih hw.2 h'

theorem Tree.get_eq_some_iff {t : Tree} (hw : t.WF) (p : RPath) (n : Node) :
    t.get p = some n ↔ (p, n) ∈ t :=
  ⟨Tree.mem_of_get_eq_some, Tree.get_eq_some_of_mem hw⟩

theorem Tree.has_eq_isSome (t : Tree) (p : RPath) : t.has p = (t.get p).isSome := by
  induction t with
  | nil => rfl
  | cons e t ih =>
    rw [Tree.get_cons]
    simp only [Tree.has, List.any_cons] at ih ⊢
    by_cases h : e.1 = p
    · simp [h]
    · simp [h, ih]

theorem Tree.get_append (t u : Tree) (p : RPath) : (t ++ u).get p = (t.get p).or (u.get p) := by
  induction t with
  | nil => simp [Tree.get_nil]
  | cons e t ih =>
    rw [List.cons_append, Tree.get_cons, Tree.get_cons]
    by_cases h : e.1 = p
    · simp [h]
    · simp [h, ih]

/-- lookup in a tree filtered by a predicate on paths -/
theorem Tree.get_filter_key (f : RPath → Bool) (t : Tree) (p : RPath) :
    Tree.get (t.filter (fun e => f e.1)) p = if f p then t.get p else none := by
  induction t with
  | nil => simp [Tree.get_nil]
  | cons e t ih =>
    rw [List.filter_cons]
    by_cases hf : f e.1 = true
    · rw [if_pos hf, Tree.get_cons, Tree.get_cons, ih]
      by_cases h : e.1 = p
      · subst h; simp [hf]
      · simp [h]
    · rw [if_neg hf, Tree.get_cons, ih]
      by_cases h : e.1 = p
      · subst h; simp [hf]
      · simp [h]

theorem Tree.WF.filter {t : Tree} (hw : t.WF) (f : RPath × Node → Bool) : Tree.WF (t.filter f) :=
  List.Nodup.sublist (List.Sublist.map _ List.filter_sublist) hw

theorem Tree.WF.perm {t u : Tree} (h : t.Perm u) (hw : t.WF) : u.WF :=
  (List.Perm.nodup_iff (h.map (fun e : RPath × Node => e.1))).1 hw

/-- a well-formed tree is determined, as a lookup function, by its set of entries -/
theorem Tree.get_eq_of_perm {t u : Tree} (h : t.Perm u) (hw : t.WF) (p : RPath) : t.get p = u.get p := by
  have hu := hw.perm h
  apply Option.ext
  intro n
  rw [Tree.get_eq_some_iff hw, Tree.get_eq_some_iff hu]
  exact h.mem_iff

/-! ### subset / sameAs -/

theorem Tree.subset_iff (t u : Tree) : t.subset u = true ↔ ∀ e ∈ t, u.get e.1 = some e.2 := by
  simp [Tree.subset, List.all_eq_true]

theorem Tree.sameAs_iff_subsets (t u : Tree) :
    t.sameAs u = true ↔ (∀ e ∈ t, u.get e.1 = some e.2) ∧ (∀ e ∈ u, t.get e.1 = some e.2) := by
  simp only [Tree.sameAs, Bool.and_eq_true, Tree.subset_iff]

/-- `sameAs` forces equal lookups (no well-formedness needed in this direction) -/
theorem Tree.get_eq_of_sameAs {t u : Tree} (h : t.sameAs u = true) (p : RPath) : t.get p = u.get p := by
  rw [Tree.sameAs_iff_subsets] at h
  cases ht : t.get p with
  | some n => exact (h.1 _ (Tree.mem_of_get_eq_some ht)).symm
  | none =>
    cases hu : u.get p with
    | none => rfl
    | some m => have := h.2 _ (Tree.mem_of_get_eq_some hu); simp [ht] at this

theorem Tree.sameAs_of_get_eq {t u : Tree} (ht : t.WF) (hu : u.WF) (h : ∀ p, t.get p = u.get p) :
    t.sameAs u = true := by
  rw [Tree.sameAs_iff_subsets]
  constructor
  · intro e he; rw [← h]; exact Tree.get_eq_some_of_mem ht he
  · intro e he; rw [h]; exact Tree.get_eq_some_of_mem hu he

theorem Tree.sameAs_comm (t u : Tree) : t.sameAs u = u.sameAs t := by
  simp only [Tree.sameAs, Bool.and_comm]

theorem Tree.sameAs_trans {a b c : Tree} (h1 : a.sameAs b = true) (h2 : b.sameAs c = true) :
    a.sameAs c = true := by
  rw [Tree.sameAs_iff_subsets] at h1 h2 ⊢
  constructor
  · intro e he; exact h2.1 _ (Tree.mem_of_get_eq_some (h1.1 e he))
  · intro e he; exact h1.2 _ (Tree.mem_of_get_eq_some (h2.2 e he))

theorem Tree.sameAs_refl {t : Tree} (hw : t.WF) : t.sameAs t = true :=
  Tree.sameAs_of_get_eq hw hw (fun _ => rfl)

/-! ### core (dropping `.conflicted` entries) -/

theorem Tree.core_get (t : Tree) (p : RPath) :
    t.core.get p = if isConflicted p then none else t.get p := by
  have := Tree.get_filter_key (fun q => !isConflicted q) t p
  simp only [Tree.core]
  rw [this]
  cases isConflicted p <;> simp

theorem Tree.WF.core {t : Tree} (hw : t.WF) : t.core.WF := hw.filter _

theorem Tree.mem_core (t : Tree) (e : RPath × Node) : e ∈ t.core ↔ e ∈ t ∧ isConflicted e.1 = false := by
  simp [Tree.core, List.mem_filter]

theorem Tree.core_eq_self {t : Tree} (h : ∀ e ∈ t, isConflicted e.1 = false) : t.core = t := by
  simp only [Tree.core, List.filter_eq_self]
  intro e he; simp [h e he]

/-! ### path prefixes -/

theorem isPrefixOf_iff (a b : RPath) : isPrefixOf a b = true ↔ ∃ r, b = a ++ r := by
  induction a generalizing b with
  | nil => simp [isPrefixOf]
  | cons x xs ih =>
    cases b with
    | nil => simp [isPrefixOf]
    | cons y ys =>
      simp only [isPrefixOf, Bool.and_eq_true, beq_iff_eq, ih, List.cons_append, List.cons.injEq]
      constructor
      · rintro ⟨rfl, r, rfl⟩; exact ⟨r, rfl, rfl⟩
      · rintro ⟨r, rfl, rfl⟩; exact ⟨rfl, r, rfl⟩

theorem isPrefixOf_refl (a : RPath) : isPrefixOf a a = true :=
  (isPrefixOf_iff a a).2 ⟨[], by simp⟩

theorem isPrefixOf_append (a r : RPath) : isPrefixOf a (a ++ r) = true :=
  (isPrefixOf_iff _ _).2 ⟨r, rfl⟩

theorem isPrefixOf_trans {a b c : RPath} (h1 : isPrefixOf a b = true) (h2 : isPrefixOf b c = true) :
    isPrefixOf a c = true := by
  rw [isPrefixOf_iff] at *
  obtain ⟨r1, rfl⟩ := h1
  obtain ⟨r2, rfl⟩ := h2
  exact ⟨r1 ++ r2, by simp⟩

/-- two prefixes of the same path are comparable -/
theorem isPrefixOf_comparable {a b c : RPath} (h1 : isPrefixOf a c = true) (h2 : isPrefixOf b c = true) :
    isPrefixOf a b = true ∨ isPrefixOf b a = true := by
  induction a generalizing b c with
  | nil => left; simp [isPrefixOf]
  | cons x xs ih =>
    cases b with
    | nil => right; simp [isPrefixOf]
    | cons y ys =>
      cases c with
      | nil => simp [isPrefixOf] at h1
      | cons z zs =>
        simp only [isPrefixOf, Bool.and_eq_true, beq_iff_eq] at h1 h2 ⊢
        obtain ⟨rfl, h1⟩ := h1
        obtain ⟨rfl, h2⟩ := h2
        rcases ih h1 h2 with h | h
        · left; exact ⟨rfl, h⟩
        · right; exact ⟨rfl, h⟩

/-! ### the version ledger (C02) -/

theorem live_cons_sub (e : LEv) (es : List LEv) (t : Nat) (h : t ∈ live es) : t ∈ live (e :: es) := by
  cases e with
  | write t' k =>
    simp only [live]
    split
    · exact h
    · exact List.mem_cons_of_mem _ h
  | delete k => simpa [live] using h
  | discard x => simpa [live] using h

theorem live_cons_cases (e : LEv) (es : List LEv) (t : Nat) (h : t ∈ live (e :: es)) :
    (∃ k, e = .write t k ∧ ∀ e' ∈ es, e'.kills ≠ some t) ∨ t ∈ live es := by
  cases e with
  | write t' k =>
    simp only [live] at h
    split at h
    · right; exact h
    · rename_i hany
      rcases List.mem_cons.1 h with rfl | hm'
      · left
        refine ⟨k, rfl, ?_⟩
        intro e' he' hk
        apply hany
        rw [List.any_eq_true]
        exact ⟨e', he', by simp [hk]⟩
      · right; exact hm'
  | delete k => right; simpa [live] using h
  | discard x => right; simpa [live] using h

theorem live_head (t : Nat) (k : Option Nat) (es : List LEv) (h : ∀ e' ∈ es, e'.kills ≠ some t) :
    t ∈ live (.write t k :: es) := by
  have : es.any (fun e' => e'.kills == some t) = false := by
    rw [List.any_eq_false]
    intro e' he'
    simpa using h e' he'
  simp [live, this]

/-- ledger invariant the contract relies on: an object carries at most one version -/
def Ledger.WF (s : Ledger) : Prop := (s.carriers.map (·.1)).Nodup

instance (s : Ledger) : Decidable s.WF := by unfold Ledger.WF; infer_instance
instance (s : Ledger) : Decidable s.safe := by unfold Ledger.safe; infer_instance

/-- run a sequence of engine actions through the contract; `none` as soon as one is rejected -/
def Ledger.run (s : Ledger) : List EAct → Option Ledger
  | [] => some s
  | a :: as => (s.check a).bind (fun s' => s'.run as)

theorem find?_carrier {cs : List (Nat × Nat)} (hw : (cs.map (·.1)).Nodup) {c : Nat × Nat} (hc : c ∈ cs) :
    cs.find? (·.1 == c.1) = some c := by
  induction cs with
  | nil => cases hc
  | cons x xs ih =>
    simp only [List.map_cons, List.nodup_cons, List.mem_map, not_exists, not_and] at hw
    rw [List.find?_cons]
    cases hc with
    | head => simp
    | tail _ h' =>
      have : (x.1 == c.1) = false := by
        simp only [beq_eq_false_iff_ne, ne_eq]
        intro he; exact hw.1 c h' he.symm
      rw [this]
      exact ih hw.2 h'

theorem carriers_filter_nodup {cs : List (Nat × Nat)} (hw : (cs.map (·.1)).Nodup) (o : Nat) :
    ((cs.filter (·.1 != o)).map (·.1)).Nodup :=
  List.Nodup.sublist (List.Sublist.map _ List.filter_sublist) hw

theorem carriers_replace_nodup {cs : List (Nat × Nat)} (hw : (cs.map (·.1)).Nodup) (o t : Nat) :
    ((cs.filter (·.1 != o) ++ [(o, t)]).map (·.1)).Nodup := by
  rw [List.map_append, List.nodup_append]
  refine ⟨carriers_filter_nodup hw o, by simp, ?_⟩
  intro a ha b hb
  simp only [List.map_cons, List.map_nil, List.mem_singleton] at hb
  simp only [List.mem_map, List.mem_filter, bne_iff_ne, ne_eq] at ha
  obtain ⟨c, ⟨_, hc⟩, rfl⟩ := ha
  rw [hb]; exact hc

/-! ### operations on trees (C04) -/

theorem unrelated_iff (a b : RPath) :
    unrelated a b = true ↔ isPrefixOf a b = false ∧ isPrefixOf b a = false := by
  simp [unrelated]

theorem unrelated_comm (a b : RPath) : unrelated a b = unrelated b a := by
  simp only [unrelated, Bool.and_comm]

theorem unrelated_ne {a b : RPath} (h : unrelated a b = true) : a ≠ b := by
  rintro rfl
  rw [unrelated_iff, isPrefixOf_refl] at h
  exact absurd h.1 (by simp)

/-- if `a` and `b` are unrelated, nothing below `b` is below `a` -/
theorem not_prefix_of_unrelated {a b c : RPath} (h : unrelated a b = true) (hb : isPrefixOf b c = true) :
    isPrefixOf a c = false := by
  cases hac : isPrefixOf a c with
  | false => rfl
  | true =>
    rw [unrelated_iff] at h
    rcases isPrefixOf_comparable hac hb with h' | h'
    · rw [h.1] at h'; cases h'
    · rw [h.2] at h'; cases h'

theorem rebase_of_not_prefix {s d k : RPath} (h : isPrefixOf s k = false) : rebase s d k = k := by
  simp [rebase, h]

theorem rebase_append (s d r : RPath) : rebase s d (s ++ r) = d ++ r := by
  simp [rebase, isPrefixOf_append]

theorem rebase_of_prefix {s d k : RPath} (h : isPrefixOf s k = true) :
    ∃ r, k = s ++ r ∧ rebase s d k = d ++ r := by
  obtain ⟨r, rfl⟩ := (isPrefixOf_iff _ _).1 h
  exact ⟨r, rfl, rebase_append s d r⟩

/-- a path unrelated to both ends of a rename is neither moved nor hit by it -/
theorem rebase_eq_iff {s d x : RPath} (hs : unrelated s x = true) (hd : unrelated d x = true) (k : RPath) :
    rebase s d k = x ↔ k = x := by
  cases hk : isPrefixOf s k with
  | false => rw [rebase_of_not_prefix hk]
  | true =>
    obtain ⟨r, rfl, hr⟩ := rebase_of_prefix (d := d) hk
    rw [hr]
    constructor
    · rintro rfl
      rw [unrelated_iff, isPrefixOf_append] at hd
      exact absurd hd.1 (by simp)
    · rintro rfl
      rw [unrelated_iff, isPrefixOf_append] at hs
      exact absurd hs.1 (by simp)

theorem rebase_fix {s d x : RPath} (hs : unrelated s x = true) : rebase s d x = x := by
  apply rebase_of_not_prefix
  rw [unrelated_iff] at hs; exact hs.1

/-- renames of pairwise unrelated subtrees commute on every path -/
theorem rebase_comm {s1 d1 s2 d2 : RPath} (hss : unrelated s1 s2 = true) (hsd : unrelated s1 d2 = true)
    (hds : unrelated d1 s2 = true) (k : RPath) :
    rebase s2 d2 (rebase s1 d1 k) = rebase s1 d1 (rebase s2 d2 k) := by
  cases h1 : isPrefixOf s1 k with
  | true =>
    have h2 : isPrefixOf s2 k = false := not_prefix_of_unrelated (by rw [unrelated_comm]; exact hss) h1
    obtain ⟨r, rfl, hr⟩ := rebase_of_prefix (d := d1) h1
    rw [rebase_of_not_prefix h2, hr]
    apply rebase_of_not_prefix
    exact not_prefix_of_unrelated (by rw [unrelated_comm]; exact hds) (isPrefixOf_append d1 r)
  | false =>
    rw [rebase_of_not_prefix h1]
    cases h2 : isPrefixOf s2 k with
    | false => rw [rebase_of_not_prefix h2, rebase_of_not_prefix h1]
    | true =>
      obtain ⟨r, rfl, hr⟩ := rebase_of_prefix (d := d2) h2
      rw [hr]
      symm
      apply rebase_of_not_prefix
      exact not_prefix_of_unrelated hsd (isPrefixOf_append d2 r)

/-- the renamed tree, as a `map` on entries -/
def renameEntry (s d : RPath) (e : RPath × Node) : RPath × Node := (rebase s d e.1, e.2)

theorem applyOp_rename (t : Tree) (s d : RPath) : applyOp t (.rename s d) = t.map (renameEntry s d) := rfl

/-- lookup after a key map that neither moves `x` nor maps anything else onto it -/
theorem Tree.get_map_key (f : RPath → RPath) (t : Tree) (x : RPath) (h : ∀ k, f k = x ↔ k = x) :
    Tree.get (t.map (fun e => (f e.1, e.2))) x = t.get x := by
  induction t with
  | nil => rfl
  | cons e t ih =>
    rw [List.map_cons, Tree.get_cons, Tree.get_cons, ih]
    by_cases he : e.1 = x
    · simp [he, (h x).2 rfl]
    · have : f e.1 ≠ x := fun hf => he ((h _).1 hf)
      simp [he, this]

theorem Tree.has_map_key (f : RPath → RPath) (t : Tree) (x : RPath) (h : ∀ k, f k = x ↔ k = x) :
    Tree.has (t.map (fun e => (f e.1, e.2))) x = t.has x := by
  rw [Tree.has_eq_isSome, Tree.has_eq_isSome, Tree.get_map_key f t x h]

/-- simple operations: everything except `rename`; they act on one path -/
def UOp.simple : UOp → Bool
  | .rename _ _ => false
  | _ => true

/-- the path a simple operation acts on (for a rename: its source, unused) -/
def UOp.pt : UOp → RPath
  | .create p _ | .write p _ | .mkdir p | .delete p => p
  | .rename s _ => s

/-- effect of a simple operation on the node at its own path -/
def UOp.upd : UOp → Option Node → Option Node
  | .create _ tag, _ => some (.file tag)
  | .write _ tag, o => o.map (fun _ => .file tag)
  | .mkdir _, o => o.or (some .dir)
  | .delete _, _ => none
  | .rename _ _, o => o

theorem UOp.roots_simple {a : UOp} (ha : a.simple = true) : a.roots = [a.pt] := by
  cases a <;> first | rfl | cases ha

theorem UOp.not_simple {a : UOp} (ha : ¬ a.simple = true) : ∃ s d, a = .rename s d := by
  cases a with
  | rename s d => exact ⟨s, d, rfl⟩
  | _ => exact absurd rfl ha

theorem get_create (t : Tree) (p : RPath) (tag : Nat) (q : RPath) :
    (applyOp t (.create p tag)).get q = if q = p then some (.file tag) else t.get q := by
  have h := Tree.get_filter_key (fun k => k != p) t q
  simp only [applyOp, Tree.get_append]
  rw [h, Tree.get_cons, Tree.get_nil]
  by_cases hq : q = p
  · simp [hq]
  · have : p ≠ q := fun h => hq h.symm
    simp [hq, this]

theorem get_delete (t : Tree) (p q : RPath) :
    (applyOp t (.delete p)).get q = if q = p then none else t.get q := by
  have h := Tree.get_filter_key (fun k => k != p) t q
  simp only [applyOp]
  rw [h]
  by_cases hq : q = p
  · simp [hq]
  · simp [hq]

theorem get_write (t : Tree) (p : RPath) (tag : Nat) (q : RPath) :
    (applyOp t (.write p tag)).get q = if q = p then (t.get p).map (fun _ => .file tag) else t.get q := by
  simp only [applyOp]
  induction t with
  | nil => simp [Tree.get_nil]
  | cons e t ih =>
    rw [List.map_cons, Tree.get_cons, Tree.get_cons, Tree.get_cons, ih]
    by_cases he : e.1 = p
    · subst he
      by_cases hq : q = e.1
      · subst hq; simp
      · have : e.1 ≠ q := fun h => hq h.symm
        simp [hq, this]
    · have hb : (e.1 == p) = false := by simp [he]
      simp only [hb]
      by_cases hq : q = p
      · subst hq; simp [he]
      · simp [hq]

theorem get_mkdir (t : Tree) (p q : RPath) :
    (applyOp t (.mkdir p)).get q = if q = p then (t.get p).or (some .dir) else t.get q := by
  simp only [applyOp]
  by_cases hh : t.has p = true
  · rw [if_pos hh]
    by_cases hq : q = p
    · subst hq
      rw [Tree.has_eq_isSome, Option.isSome_iff_exists] at hh
      obtain ⟨n, hn⟩ := hh
      simp [hn]
    · simp [hq]
  · rw [if_neg hh, Tree.get_append, Tree.get_cons, Tree.get_nil]
    by_cases hq : q = p
    · subst hq
      rw [Tree.has_eq_isSome] at hh
      have : Tree.get t q = none := by
        cases hg : Tree.get t q with
        | none => rfl
        | some n => simp [hg] at hh
      simp [this]
    · have : p ≠ q := fun h => hq h.symm
      simp [hq, this]

/-- a simple operation is a point update of the lookup function -/
theorem get_applyOp_simple (t : Tree) {a : UOp} (ha : a.simple = true) (q : RPath) :
    (applyOp t a).get q = if q = a.pt then a.upd (t.get a.pt) else t.get q := by
  cases a with
  | create p tag => exact get_create t p tag q
  | write p tag => exact get_write t p tag q
  | mkdir p => exact get_mkdir t p q
  | delete p => exact get_delete t p q
  | rename s d => cases ha

theorem has_applyOp_simple (t : Tree) {a : UOp} (ha : a.simple = true) {q : RPath} (hq : q ≠ a.pt) :
    (applyOp t a).has q = t.has q := by
  rw [Tree.has_eq_isSome, Tree.has_eq_isSome, get_applyOp_simple t ha, if_neg hq]

/-- a rename does not change the lookup at a path unrelated to both its ends -/
theorem get_rename_unrelated (t : Tree) {s d x : RPath} (hs : unrelated s x = true) (hd : unrelated d x = true) :
    (applyOp t (.rename s d)).get x = t.get x :=
  Tree.get_map_key (rebase s d) t x (rebase_eq_iff hs hd)

/-- two simple operations on different paths commute as lookup functions -/
theorem simple_simple_get (t : Tree) {a b : UOp} (ha : a.simple = true) (hb : b.simple = true)
    (hne : a.pt ≠ b.pt) (x : RPath) :
    (applyOp (applyOp t a) b).get x = (applyOp (applyOp t b) a).get x := by
  simp only [get_applyOp_simple _ hb, get_applyOp_simple _ ha]
  have hne' : b.pt ≠ a.pt := fun h => hne h.symm
  by_cases hxa : x = a.pt
  · subst hxa; simp [hne]
  · by_cases hxb : x = b.pt
    · subst hxb; simp [hne']
    · simp [hxa, hxb]

/-! a simple operation as "rewrite the entries at its path, then append" -/

def UOp.g : UOp → (RPath × Node) → Option (RPath × Node)
  | .create p _ => fun e => if e.1 != p then some e else none
  | .write p tag => fun e => some (if e.1 == p then (p, .file tag) else e)
  | .mkdir _ => fun e => some e
  | .delete p => fun e => if e.1 != p then some e else none
  | .rename _ _ => fun e => some e

def UOp.ext : UOp → Bool → Tree
  | .create p tag, _ => [(p, .file tag)]
  | .mkdir p, h => if h then [] else [(p, .dir)]
  | _, _ => []

theorem filterMap_ite_eq_filter {α : Type} (f : α → Bool) (l : List α) :
    l.filterMap (fun e => if f e then some e else none) = l.filter f := by
  induction l with
  | nil => rfl
  | cons x xs ih =>
    by_cases h : f x = true
    · simp [h, ih]
    · simp [h, ih]

theorem filterMap_eq_self {α : Type} (f : α → Option α) (l : List α) (h : ∀ e ∈ l, f e = some e) :
    l.filterMap f = l := by
  induction l with
  | nil => rfl
  | cons x xs ih =>
    rw [List.filterMap_cons, h x List.mem_cons_self, ih (fun e he => h e (List.mem_cons_of_mem _ he))]

theorem applyOp_simple_eq (t : Tree) {a : UOp} (ha : a.simple = true) :
    applyOp t a = t.filterMap a.g ++ a.ext (t.has a.pt) := by
  cases a with
  | create p tag =>
    simp only [applyOp, UOp.g, UOp.ext]
    rw [filterMap_ite_eq_filter (fun e : RPath × Node => e.1 != p)]
  | write p tag =>
    simp only [applyOp, UOp.g, UOp.ext, List.append_nil, List.filterMap_eq_map']
  | mkdir p =>
    simp only [applyOp, UOp.g, UOp.ext, UOp.pt, List.filterMap_some]
    by_cases h : t.has p = true
    · simp [h]
    · simp [h]
  | delete p =>
    simp only [applyOp, UOp.g, UOp.ext, List.append_nil]
    rw [filterMap_ite_eq_filter (fun e : RPath × Node => e.1 != p)]
  | rename s d => cases ha

theorem UOp.g_of_ne {a : UOp} {e : RPath × Node} (h : e.1 ≠ a.pt) : a.g e = some e := by
  cases a <;> simp_all [UOp.g, UOp.pt]

theorem UOp.g_key {a : UOp} {e e' : RPath × Node} (h : a.g e = some e') : e'.1 = e.1 := by
  cases a with
  | create p tag =>
    simp only [UOp.g, Option.ite_none_right_eq_some, Option.some.injEq] at h
    rw [← h.2]
  | write p tag =>
    simp only [UOp.g, Option.some.injEq] at h
    by_cases he : e.1 = p
    · simp [he] at h; rw [← h, he]
    · simp [he] at h; rw [← h]
  | mkdir p => simp only [UOp.g, Option.some.injEq] at h; rw [← h]
  | delete p =>
    simp only [UOp.g, Option.ite_none_right_eq_some, Option.some.injEq] at h
    rw [← h.2]
  | rename s d => simp only [UOp.g, Option.some.injEq] at h; rw [← h]

theorem UOp.ext_key {a : UOp} (hb : Bool) {e : RPath × Node} (h : e ∈ a.ext hb) : e.1 = a.pt := by
  cases a with
  | create p tag => simp only [UOp.ext, List.mem_singleton] at h; rw [h]; rfl
  | mkdir p =>
    cases hb <;> simp only [UOp.ext] at h
    · simp only [Bool.false_eq_true, if_false, List.mem_singleton] at h; rw [h]; rfl
    · simp at h
  | write p tag => simp [UOp.ext] at h
  | delete p => simp [UOp.ext] at h
  | rename s d => simp [UOp.ext] at h

theorem UOp.g_bind_comm {a b : UOp} (hne : a.pt ≠ b.pt) (e : RPath × Node) :
    (a.g e).bind b.g = (b.g e).bind a.g := by
  by_cases hea : e.1 = a.pt
  · have heb : e.1 ≠ b.pt := fun h => hne (hea.symm.trans h)
    rw [UOp.g_of_ne heb, Option.bind_some]
    cases hg : a.g e with
    | none => rfl
    | some e' =>
      have : e'.1 ≠ b.pt := by rw [UOp.g_key hg]; exact heb
      rw [Option.bind_some, UOp.g_of_ne this]
  · rw [UOp.g_of_ne hea, Option.bind_some]
    cases hg : b.g e with
    | none => rfl
    | some e' =>
      have : e'.1 ≠ a.pt := by rw [UOp.g_key hg]; exact hea
      rw [Option.bind_some, UOp.g_of_ne this]

theorem simple_simple_form (t : Tree) {a b : UOp} (ha : a.simple = true) (hb : b.simple = true)
    (hne : a.pt ≠ b.pt) :
    applyOp (applyOp t a) b =
      t.filterMap (fun e => (a.g e).bind b.g) ++ (a.ext (t.has a.pt) ++ b.ext (t.has b.pt)) := by
  have hne' : b.pt ≠ a.pt := fun h => hne h.symm
  rw [applyOp_simple_eq (applyOp t a) hb, has_applyOp_simple t ha hne', applyOp_simple_eq t ha,
    List.filterMap_append, List.filterMap_filterMap, List.append_assoc]
  congr 2
  apply filterMap_eq_self
  intro e he
  apply UOp.g_of_ne
  rw [UOp.ext_key _ he]; exact hne

/-- two simple operations on different paths commute up to the order of the entries -/
theorem simple_simple_perm (t : Tree) {a b : UOp} (ha : a.simple = true) (hb : b.simple = true)
    (hne : a.pt ≠ b.pt) : (applyOp (applyOp t a) b).Perm (applyOp (applyOp t b) a) := by
  rw [simple_simple_form t ha hb hne, simple_simple_form t hb ha (fun h => hne h.symm)]
  have : (fun e => (a.g e).bind b.g) = (fun e => (b.g e).bind a.g) := funext (UOp.g_bind_comm hne)
  rw [this]
  exact List.Perm.append_left _ List.perm_append_comm

/-- a rename commutes *literally* with a simple operation on a path unrelated to both its ends -/
theorem rename_simple_comm (t : Tree) (s d : RPath) {b : UOp} (hb : b.simple = true)
    (hs : unrelated s b.pt = true) (hd : unrelated d b.pt = true) :
    applyOp (applyOp t (.rename s d)) b = applyOp (applyOp t b) (.rename s d) := by
  have hfix : rebase s d b.pt = b.pt := rebase_fix hs
  have hiff := rebase_eq_iff hs hd
  have hbne : ∀ e : RPath × Node, ((renameEntry s d e).1 != b.pt) = (e.1 != b.pt) := by
    intro e
    have := hiff e.1
    by_cases h : e.1 = b.pt
    · simp [renameEntry, h, hfix]
    · have h' : rebase s d e.1 ≠ b.pt := fun hh => h (this.1 hh)
      simp only [renameEntry]
      rw [bne_iff_ne.2 h', bne_iff_ne.2 h]
  cases b with
  | create p tag =>
    simp only [UOp.pt] at hfix hbne
    simp only [applyOp_rename]
    simp only [applyOp, List.map_append, List.map_cons, List.map_nil, List.filter_map, renameEntry, hfix]
    congr 2
    apply List.filter_congr
    intro e _
    exact hbne e
  | delete p =>
    simp only [UOp.pt] at hfix hbne
    simp only [applyOp_rename]
    simp only [applyOp, List.filter_map]
    congr 1
    apply List.filter_congr
    intro e _
    exact hbne e
  | write p tag =>
    simp only [UOp.pt] at hfix hbne hiff
    simp only [applyOp_rename]
    simp only [applyOp, List.map_map]
    apply List.map_congr_left
    intro e _
    simp only [Function.comp, renameEntry]
    by_cases h : e.1 = p
    · simp [h, hfix]
    · have h' : rebase s d e.1 ≠ p := fun hh => h ((hiff _).1 hh)
      simp [h, h']
  | mkdir p =>
    simp only [UOp.pt] at hfix hbne hiff
    have hhas : Tree.has (applyOp t (.rename s d)) p = t.has p := Tree.has_map_key (rebase s d) t p hiff
    simp only [applyOp] at hhas ⊢
    simp only [hhas]
    by_cases h : t.has p = true
    · simp [h]
    · simp [h, hfix]
  | rename s' d' => cases hb

theorem rename_rename_comm (t : Tree) {s1 d1 s2 d2 : RPath} (hss : unrelated s1 s2 = true)
    (hsd : unrelated s1 d2 = true) (hds : unrelated d1 s2 = true) :
    applyOp (applyOp t (.rename s1 d1)) (.rename s2 d2) = applyOp (applyOp t (.rename s2 d2)) (.rename s1 d1) := by
  simp only [applyOp, List.map_map]
  apply List.map_congr_left
  intro e _
  simp only [Function.comp, rebase_comm hss hsd hds]

theorem disjointOps_comm (a b : UOp) : disjointOps a b = disjointOps b a := by
  cases a <;> cases b <;> simp [disjointOps, UOp.roots, unrelated_comm, Bool.and_comm, Bool.and_assoc, Bool.and_left_comm]

/-- the two shapes of commutation: literally equal trees, or two simple operations on different paths -/
theorem applyOp_comm_cases (t : Tree) (a b : UOp) (hd : disjointOps a b = true) :
    applyOp (applyOp t a) b = applyOp (applyOp t b) a ∨
      (a.simple = true ∧ b.simple = true ∧ a.pt ≠ b.pt) := by
  by_cases ha : a.simple = true
  · by_cases hb : b.simple = true
    · right
      refine ⟨ha, hb, ?_⟩
      rw [disjointOps, UOp.roots_simple ha, UOp.roots_simple hb] at hd
      simp only [List.all_cons, List.all_nil, Bool.and_true] at hd
      exact unrelated_ne hd
    · left
      obtain ⟨s, d, rfl⟩ := UOp.not_simple hb
      rw [disjointOps, UOp.roots_simple ha] at hd
      simp only [UOp.roots, List.all_cons, List.all_nil, Bool.and_true, Bool.and_eq_true] at hd
      exact (rename_simple_comm t s d ha (by rw [unrelated_comm]; exact hd.1)
        (by rw [unrelated_comm]; exact hd.2)).symm
  · obtain ⟨s, d, rfl⟩ := UOp.not_simple ha
    left
    by_cases hb : b.simple = true
    · rw [disjointOps, UOp.roots_simple hb] at hd
      simp only [UOp.roots, List.all_cons, List.all_nil, Bool.and_true, Bool.and_eq_true] at hd
      exact rename_simple_comm t s d hb hd.1 hd.2
    · obtain ⟨s', d', rfl⟩ := UOp.not_simple hb
      simp only [disjointOps, UOp.roots, List.all_cons, List.all_nil,
        Bool.and_true, Bool.and_eq_true] at hd
      exact rename_rename_comm t hd.1.1 hd.1.2 hd.2.1

/-- every operation respects reordering of the entries -/
theorem applyOp_perm {t u : Tree} (h : t.Perm u) (a : UOp) : (applyOp t a).Perm (applyOp u a) := by
  cases a with
  | create p tag => exact List.Perm.append_right _ (h.filter _)
  | write p tag => exact h.map _
  | mkdir p =>
    have hh : t.has p = u.has p := h.any_eq
    simp only [applyOp, hh]
    by_cases hc : u.has p = true
    · simp only [hc, if_true]; exact h
    · simp only [hc]; exact List.Perm.append_right _ h
  | delete p => exact h.filter _
  | rename s d => exact h.map _

theorem applyOps_perm {t u : Tree} (h : t.Perm u) (as : List UOp) : (applyOps t as).Perm (applyOps u as) := by
  induction as generalizing t u with
  | nil => exact h
  | cons a as ih => exact ih (applyOp_perm h a)

theorem applyOps_cons (t : Tree) (a : UOp) (as : List UOp) : applyOps t (a :: as) = applyOps (applyOp t a) as := rfl
theorem applyOps_nil (t : Tree) : applyOps t [] = t := rfl
theorem applyOps_append (t : Tree) (as bs : List UOp) : applyOps t (as ++ bs) = applyOps (applyOps t as) bs := by
  simp [applyOps, List.foldl_append]

/-! ### validity of renames and preservation of well-formedness -/

/-- the only precondition well-formedness needs: a rename's destination is free — no entry at or
    below `dst`, except entries that are themselves being moved (case `src` above `dst`);
    every other operation keeps paths unique unconditionally -/
def Valid (t : Tree) : UOp → Bool
  | .rename s d => t.all (fun e => isPrefixOf s e.1 || !isPrefixOf d e.1)
  | _ => true

def ValidSeq (t : Tree) : List UOp → Bool
  | [] => true
  | a :: as => Valid t a && ValidSeq (applyOp t a) as

theorem rebase_inj_on {t : Tree} {s d : RPath} (hv : Valid t (.rename s d) = true) {k1 k2 : RPath}
    (h1 : k1 ∈ t.map (·.1)) (h2 : k2 ∈ t.map (·.1)) (h : rebase s d k1 = rebase s d k2) : k1 = k2 := by
  simp only [Valid, List.all_eq_true, Bool.or_eq_true, Bool.not_eq_true'] at hv
  simp only [List.mem_map] at h1 h2
  obtain ⟨e1, he1, rfl⟩ := h1
  obtain ⟨e2, he2, rfl⟩ := h2
  cases hp1 : isPrefixOf s e1.1 with
  | true =>
    obtain ⟨r1, hk1, hr1⟩ := rebase_of_prefix (d := d) hp1
    cases hp2 : isPrefixOf s e2.1 with
    | true =>
      obtain ⟨r2, hk2, hr2⟩ := rebase_of_prefix (d := d) hp2
      rw [hr1, hr2, List.append_cancel_left_eq] at h
      rw [hk1, hk2, h]
    | false =>
      rw [hr1, rebase_of_not_prefix hp2] at h
      rcases hv e2 he2 with h' | h'
      · rw [hp2] at h'; cases h'
      · rw [← h, isPrefixOf_append] at h'; cases h'
  | false =>
    cases hp2 : isPrefixOf s e2.1 with
    | true =>
      obtain ⟨r2, hk2, hr2⟩ := rebase_of_prefix (d := d) hp2
      rw [hr2, rebase_of_not_prefix hp1] at h
      rcases hv e1 he1 with h' | h'
      · rw [hp1] at h'; cases h'
      · rw [h, isPrefixOf_append] at h'; cases h'
    | false =>
      rw [rebase_of_not_prefix hp1, rebase_of_not_prefix hp2] at h
      exact h

theorem applyOp_WF {t : Tree} (hw : t.WF) (a : UOp) (hv : Valid t a = true) : (applyOp t a).WF := by
  cases a with
  | create p tag =>
    simp only [applyOp, Tree.WF]
    rw [List.map_append, List.nodup_append]
    refine ⟨hw.filter _, by simp, ?_⟩
    intro x hx y hy
    simp only [List.map_cons, List.map_nil, List.mem_singleton] at hy
    simp only [List.mem_map, List.mem_filter, bne_iff_ne, ne_eq] at hx
    obtain ⟨c, ⟨_, hc⟩, rfl⟩ := hx
    rw [hy]; exact hc
  | write p tag =>
    simp only [applyOp, Tree.WF, List.map_map]
    have : t.map ((fun e : RPath × Node => e.1) ∘ fun e => if e.1 == p then (p, Node.file tag) else e)
        = t.map (·.1) := by
      apply List.map_congr_left
      intro e _
      by_cases h : e.1 = p
      · simp [Function.comp, h]
      · simp [Function.comp, h]
    rw [this]; exact hw
  | mkdir p =>
    simp only [applyOp]
    by_cases h : t.has p = true
    · rw [if_pos h]; exact hw
    · rw [if_neg h]
      simp only [Tree.WF]
      rw [List.map_append, List.nodup_append]
      refine ⟨hw, by simp, ?_⟩
      intro x hx y hy
      simp only [List.map_cons, List.map_nil, List.mem_singleton] at hy
      simp only [List.mem_map] at hx
      obtain ⟨c, hc, rfl⟩ := hx
      rw [hy]
      intro hcp
      apply h
      simp only [Tree.has, List.any_eq_true, beq_iff_eq]
      exact ⟨c, hc, hcp⟩
  | delete p => exact hw.filter _
  | rename s d =>
    simp only [applyOp, Tree.WF, List.map_map]
    have : t.map ((fun e : RPath × Node => e.1) ∘ fun e => (rebase s d e.1, e.2))
        = (t.map (·.1)).map (rebase s d) := by
      rw [List.map_map]; rfl
    rw [this]
    unfold List.Nodup
    rw [List.pairwise_map]
    exact List.Pairwise.imp_of_mem (fun h1 h2 hne heq => hne (rebase_inj_on hv h1 h2 heq)) hw

theorem applyOps_WF {t : Tree} (hw : t.WF) (as : List UOp) (hv : ValidSeq t as = true) : (applyOps t as).WF := by
  induction as generalizing t with
  | nil => exact hw
  | cons a as ih =>
    simp only [ValidSeq, Bool.and_eq_true] at hv
    exact ih (applyOp_WF hw a hv.1) hv.2

end CS.Spec
