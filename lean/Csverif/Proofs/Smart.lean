import Csverif.Model.Smart
import Csverif.Model.Spec.Smart
import Csverif.Proofs.Spec
/- helper lemmas for Props/C20.lean -/
namespace CS.Smart

/-! ### the two sets -/

theorem mem_setAdd (l : List Nat) (e x : Nat) : x ∈ setAdd l e ↔ x ∈ l ∨ x = e := by
  unfold setAdd
  by_cases h : l.contains e = true
  · simp only [h, if_true]
    constructor
    · intro hx; exact Or.inl hx
    · rintro (hx | hx)
      · exact hx
      · subst hx; simpa using h
  · simp only [h]
    simp

theorem mem_setDiscard (l : List Nat) (e x : Nat) : x ∈ setDiscard l e ↔ x ∈ l ∧ x ≠ e := by
  unfold setDiscard
  simp

/-- the invariant: no entry is in both sets -/
def Disjoint (s : Sets) : Prop := ∀ x, ¬ (x ∈ s.req ∧ x ∈ s.excl)

theorem request_mem_req (s : Sets) (e x : Nat) : x ∈ (request s e).req ↔ x ∈ s.req ∨ x = e := by
  simp [request, mem_setAdd]

theorem request_mem_excl (s : Sets) (e x : Nat) : x ∈ (request s e).excl ↔ x ∈ s.excl ∧ x ≠ e := by
  simp [request, mem_setDiscard]

theorem unrequestRaw_mem_req (s : Sets) (e x : Nat) : x ∈ (unrequestRaw s e).req ↔ x ∈ s.req ∧ x ≠ e := by
  simp [unrequestRaw, mem_setDiscard]

theorem unrequestRaw_mem_excl (s : Sets) (e x : Nat) : x ∈ (unrequestRaw s e).excl ↔ x ∈ s.excl ∨ x = e := by
  simp [unrequestRaw, mem_setAdd]

theorem unrequest_mem_req (s : Sets) (e x : Nat) : x ∈ (unrequest s e).req ↔ x ∈ s.req ∧ x ≠ e := by
  unfold unrequest
  by_cases h : s.req.contains e = true
  · simp only [h, if_true]; exact unrequestRaw_mem_req s e x
  · simp only [h]
    have he : e ∉ s.req := by simpa using h
    constructor
    · intro hx; exact ⟨hx, fun hxe => he (hxe ▸ hx)⟩
    · exact fun hx => hx.1

theorem unrequest_mem_excl (s : Sets) (e x : Nat) :
    x ∈ (unrequest s e).excl ↔ x ∈ s.excl ∨ (x = e ∧ e ∈ s.req) := by
  unfold unrequest
  by_cases h : s.req.contains e = true
  · simp only [h, if_true]
    have he : e ∈ s.req := by simpa using h
    rw [unrequestRaw_mem_excl]
    constructor
    · rintro (hx | hx)
      · exact Or.inl hx
      · exact Or.inr ⟨hx, he⟩
    · rintro (hx | ⟨hx, _⟩)
      · exact Or.inl hx
      · exact Or.inr hx
  · simp only [h]
    have he : e ∉ s.req := by simpa using h
    constructor
    · exact fun hx => Or.inl hx
    · rintro (hx | ⟨_, hx⟩)
      · exact hx
      · exact absurd hx he

theorem disjoint_applyCall (s : Sets) (c : Call) (h : Disjoint s) : Disjoint (applyCall s c) := by
  intro x
  cases c with
  | request e =>
    simp only [applyCall, request_mem_req, request_mem_excl]
    rintro ⟨h1 | h1, h2, h3⟩
    · exact h x ⟨h1, h2⟩
    · exact h3 h1
  | unrequest e =>
    simp only [applyCall, unrequest_mem_req, unrequest_mem_excl]
    rintro ⟨⟨h1, h2⟩, h3 | ⟨h3, _⟩⟩
    · exact h x ⟨h1, h3⟩
    · exact h2 h3

theorem runCalls_append (s : Sets) (a b : List Call) : runCalls s (a ++ b) = runCalls (runCalls s a) b := by
  simp [runCalls, List.foldl_append]

theorem runCalls_snoc (s : Sets) (a : List Call) (c : Call) : runCalls s (a ++ [c]) = applyCall (runCalls s a) c := by
  simp [runCalls, List.foldl_append]

theorem disjoint_runCalls (s : Sets) (cs : List Call) (h : Disjoint s) : Disjoint (runCalls s cs) := by
  induction cs generalizing s with
  | nil => exact h
  | cons c cs ih => exact ih _ (disjoint_applyCall s c h)

/-- a call on another entry does not change the membership of `x` -/
theorem applyCall_frame (s : Sets) (c : Call) (x : Nat) (hx : c.entry ≠ x) :
    (x ∈ (applyCall s c).req ↔ x ∈ s.req) ∧ (x ∈ (applyCall s c).excl ↔ x ∈ s.excl) := by
  cases c with
  | request e =>
    have : x ≠ e := fun h => hx (by simp [Call.entry, h])
    simp only [applyCall, request_mem_req, request_mem_excl]
    exact ⟨⟨fun h => h.resolve_right this, Or.inl⟩, ⟨fun h => h.1, fun h => ⟨h, this⟩⟩⟩
  | unrequest e =>
    have : x ≠ e := fun h => hx (by simp [Call.entry, h])
    simp only [applyCall, unrequest_mem_req, unrequest_mem_excl]
    exact ⟨⟨fun h => h.1, fun h => ⟨h, this⟩⟩, ⟨fun h => h.resolve_right (fun h' => this h'.1), Or.inl⟩⟩

/-! ### lists of actions -/

theorem mem_flushPart (e : Nat) (i : UnsyncIn) (a : Act) :
    a ∈ flushPart e i ↔ a = .getLatestLocal e ∨ (i.newer = true ∧ a = .flush e) := by
  unfold flushPart
  cases i.newer <;> simp

theorem mem_statePart (e : Nat) (i : UnsyncIn) (a : Act) :
    a ∈ statePart e i ↔
      (i.localPath = true ∧ (a = .localInfo e ∨ (i.localInfo = true ∧ a = .write .loc .delete e) ∨ a = .clearLocal e))
      ∨ a = .moveToExcluded e := by
  unfold statePart
  cases i.localPath <;> cases i.localInfo <;> simp [or_assoc]

theorem flush_not_mem_statePart (e e' : Nat) (i : UnsyncIn) : Act.flush e' ∉ statePart e i := by
  rw [mem_statePart]; simp

theorem write_not_mem_flushPart (e : Nat) (i : UnsyncIn) (sd : Side) (m : Mutator) (e' : Nat) :
    Act.write sd m e' ∉ flushPart e i := by
  rw [mem_flushPart]; simp

end CS.Smart

namespace CS.Spec.Smart
open CS.Spec

/-! ### association lists -/

theorem getKey_setKey_same {β : Type} (l : List (RPath × β)) (p : RPath) (v : β) : getKey (setKey l p v) p = some v := by
  unfold getKey setKey
  rw [List.find?_append]
  have : (l.filter (·.1 != p)).find? (·.1 == p) = none := by
    rw [List.find?_eq_none]
    intro x hx
    rw [List.mem_filter] at hx
    simpa using hx.2
  simp [this]

theorem find?_filter_ne {β : Type} (l : List (RPath × β)) (p q : RPath) (h : q ≠ p) :
    (l.filter (·.1 != p)).find? (·.1 == q) = l.find? (·.1 == q) := by
  induction l with
  | nil => rfl
  | cons a l ih =>
    by_cases ha : a.1 = p
    · have h1 : (a.1 != p) = false := by simp [ha]
      have h2 : (a.1 == q) = false := by
        rw [ha]; simpa using Ne.symm h
      rw [List.filter_cons_of_neg (by simp [h1]), List.find?_cons_of_neg (by simp [h2])]
      exact ih
    · have h1 : (a.1 != p) = true := by simpa using ha
      rw [List.filter_cons_of_pos (by simp [h1])]
      by_cases hq : a.1 = q
      · have h2 : (a.1 == q) = true := by simpa using hq
        rw [List.find?_cons_of_pos (by simp [h2]), List.find?_cons_of_pos (by simp [h2])]
      · have h2 : (a.1 == q) = false := by simpa using hq
        rw [List.find?_cons_of_neg (by simp [h2]), List.find?_cons_of_neg (by simp [h2])]
        exact ih

theorem getKey_setKey_ne {β : Type} (l : List (RPath × β)) (p q : RPath) (v : β) (h : q ≠ p) :
    getKey (setKey l p v) q = getKey l q := by
  unfold getKey setKey
  rw [List.find?_append, find?_filter_ne l p q h]
  have hpq : (p == q) = false := by simpa using Ne.symm h
  have h2 : [(p, v)].find? (·.1 == q) = none := by
    simp [List.find?, hpq]
  rw [h2]
  simp

theorem mem_setKey {β : Type} (l : List (RPath × β)) (p : RPath) (v : β) : (p, v) ∈ setKey l p v := by
  simp [setKey]

theorem getKey_filter_ne {β : Type} (l : List (RPath × β)) (p q : RPath) (h : q ≠ p) :
    getKey (l.filter (·.1 != p)) q = getKey l q := by
  unfold getKey
  rw [find?_filter_ne l p q h]

/-! ### status -/

/-- the path whose status an operation may change -/
def SOp.statusTarget : SOp → Option RPath
  | .rcreate p _ => some p
  | .lcreate p _ => some p
  | .request p _ => some p
  | .unrequest p _ => some p
  | _ => none

/-- the operations that justify a local copy of `p` -/
def SOp.justifies (auto : List RPath) (p : RPath) : SOp → Bool
  | .rcreate q _ => q == p && auto.contains p
  | .lcreate q _ => q == p
  | .request q r => q == p && r != .nf
  | _ => false

theorem st_setKey_same (s : St) (p : RPath) (v : Status) : ({ s with status := setKey s.status p v } : St).st p = v := by
  simp [St.st, getKey_setKey_same]

theorem st_setKey_ne (s : St) (p q : RPath) (v : Status) (h : q ≠ p) :
    ({ s with status := setKey s.status p v } : St).st q = s.st q := by
  simp [St.st, getKey_setKey_ne _ _ _ _ h]

theorem st_frame (auto : List RPath) (s : St) (op : SOp) (p : RPath) (h : SOp.statusTarget op ≠ some p) :
    (applySOp auto s op).st p = s.st p := by
  cases op with
  | rcreate q t =>
    have hq : p ≠ q := fun e => h (by simp [SOp.statusTarget, e])
    simp only [applySOp]
    exact st_setKey_ne _ _ _ _ hq
  | rwrite q t => rfl
  | rdelete q => rfl
  | rmkdir q => rfl
  | lcreate q t =>
    have hq : p ≠ q := fun e => h (by simp [SOp.statusTarget, e])
    simp only [applySOp]
    exact st_setKey_ne _ _ _ _ hq
  | lwrite q t => rfl
  | lmkdir q => rfl
  | request q r =>
    have hq : p ≠ q := fun e => h (by simp [SOp.statusTarget, e])
    cases r
    · simp only [applySOp]; exact st_setKey_ne _ _ _ _ hq
    · rfl
    · simp only [applySOp]; exact st_setKey_ne _ _ _ _ hq
  | unrequest q r =>
    have hq : p ≠ q := fun e => h (by simp [SOp.statusTarget, e])
    simp only [applySOp]
    cases hst : s.st q
    · rfl
    · simp only []; exact st_setKey_ne _ _ _ _ hq
    · rfl
    · simp only []; exact st_setKey_ne _ _ _ _ hq
    · rfl

theorem run_snoc (auto : List RPath) (ops : List SOp) (op : SOp) :
    run auto (ops ++ [op]) = applySOp auto (run auto ops) op := by
  simp [run, List.foldl_append]

theorem run_append (auto : List RPath) (a b : List SOp) :
    run auto (a ++ b) = b.foldl (applySOp auto) (run auto a) := by
  simp [run, List.foldl_append]

theorem foldl_st_frame (auto : List RPath) (ops : List SOp) (s : St) (p : RPath)
    (h : ∀ op ∈ ops, SOp.statusTarget op ≠ some p) : (ops.foldl (applySOp auto) s).st p = s.st p := by
  induction ops generalizing s with
  | nil => rfl
  | cons op ops ih =>
    simp only [List.foldl_cons]
    rw [ih _ (fun o ho => h o (by simp [ho])), st_frame auto s op p (h op (by simp))]

/-- an operation that does not justify `p` keeps `p` unrequested -/
theorem st_unreq_step (auto : List RPath) (s : St) (op : SOp) (p : RPath) (hs : s.st p = .unreq)
    (hj : SOp.justifies auto p op = false) : (applySOp auto s op).st p = .unreq := by
  by_cases ht : SOp.statusTarget op = some p
  · cases op with
    | rcreate q t =>
      simp [SOp.statusTarget] at ht; subst ht
      simp [SOp.justifies] at hj
      simp [applySOp, St.st, getKey_setKey_same, hj]
    | lcreate q t => simp [SOp.statusTarget] at ht; subst ht; simp [SOp.justifies] at hj
    | request q r =>
      simp [SOp.statusTarget] at ht; subst ht
      cases r
      · simp [SOp.justifies] at hj
      · exact hs
      · simp [SOp.justifies] at hj
    | unrequest q r =>
      simp [SOp.statusTarget] at ht; subst ht
      simp only [applySOp, hs]
    | rwrite q t => simp [SOp.statusTarget] at ht
    | rdelete q => simp [SOp.statusTarget] at ht
    | rmkdir q => simp [SOp.statusTarget] at ht
    | lwrite q t => simp [SOp.statusTarget] at ht
    | lmkdir q => simp [SOp.statusTarget] at ht
  · rw [st_frame auto s op p ht]; exact hs

theorem foldl_st_unreq (auto : List RPath) (ops : List SOp) (s : St) (p : RPath) (hs : s.st p = .unreq)
    (h : ∀ op ∈ ops, SOp.justifies auto p op = false) : (ops.foldl (applySOp auto) s).st p = .unreq := by
  induction ops generalizing s with
  | nil => exact hs
  | cons op ops ih =>
    simp only [List.foldl_cons]
    exact ih _ (st_unreq_step auto s op p hs (h op (by simp))) (fun o ho => h o (by simp [ho]))

theorem firstBad_ok_iff (l : List QuietVerdict) : firstBad l = .ok ↔ ∀ v ∈ l, v = .ok := by
  induction l with
  | nil => simp [firstBad]
  | cons v vs ih =>
    simp only [firstBad, List.mem_cons, forall_eq_or_imp]
    by_cases hv : v = .ok
    · simp [hv, ih]
    · have : (v == QuietVerdict.ok) = false := by simpa using hv
      simp [this, hv]

theorem erase_get_self (t : Tree) (p : RPath) : (Tree.erase t p).get p = none := by
  unfold Tree.erase
  rw [Tree.get_eq_none_iff]
  intro e he
  rw [List.mem_filter] at he
  simpa using he.2

end CS.Spec.Smart
