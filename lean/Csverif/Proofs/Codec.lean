import Csverif.Model.Codec
/- helper lemmas for Props/C08.lean: decidable equality of values, the msgpack normal form, and the
   codec round trip of one side. -/
namespace CS.Codec

/-! ### `Val.beq` is equality -/

mutual
theorem Val.beq_eq : ∀ (a b : Val), Val.beq a b = true → a = b
  | .nil, b, h => by cases b <;> simp_all [Val.beq]
  | .bool x, b, h => by cases b <;> simp_all [Val.beq]
  | .int x, b, h => by cases b <;> simp_all [Val.beq]
  | .float x, b, h => by cases b <;> simp_all [Val.beq]
  | .str x, b, h => by cases b <;> simp_all [Val.beq]
  | .bin x, b, h => by cases b <;> simp_all [Val.beq]
  | .arr l xs, b, h => by
    cases b <;> simp_all [Val.beq]
    exact Val.beqList_eq _ _ h.2
  | .map xs, b, h => by
    cases b <;> simp_all [Val.beq]
    exact Val.beqKvs_eq _ _ h
theorem Val.beqList_eq : ∀ (a b : List Val), Val.beqList a b = true → a = b
  | [], b, h => by cases b <;> simp_all [Val.beqList]
  | x :: xs, b, h => by
    cases b with
    | nil => simp [Val.beqList] at h
    | cons y ys =>
      simp only [Val.beqList, Bool.and_eq_true] at h
      rw [Val.beq_eq x y h.1, Val.beqList_eq xs ys h.2]
theorem Val.beqKvs_eq : ∀ (a b : List (Key × Val)), Val.beqKvs a b = true → a = b
  | [], b, h => by cases b <;> simp_all [Val.beqKvs]
  | (k, x) :: xs, b, h => by
    cases b with
    | nil => simp [Val.beqKvs] at h
    | cons y ys =>
      obtain ⟨l, y⟩ := y
      simp only [Val.beqKvs, Bool.and_eq_true, beq_iff_eq] at h
      rw [h.1.1, Val.beq_eq x y h.1.2, Val.beqKvs_eq xs ys h.2]
end

mutual
theorem Val.beq_refl : ∀ (a : Val), Val.beq a a = true
  | .nil => by simp [Val.beq]
  | .bool _ => by simp [Val.beq]
  | .int _ => by simp [Val.beq]
  | .float _ => by simp [Val.beq]
  | .str _ => by simp [Val.beq]
  | .bin _ => by simp [Val.beq]
  | .arr _ xs => by simp [Val.beq, Val.beqList_refl xs]
  | .map xs => by simp [Val.beq, Val.beqKvs_refl xs]
theorem Val.beqList_refl : ∀ (a : List Val), Val.beqList a a = true
  | [] => by simp [Val.beqList]
  | x :: xs => by simp [Val.beqList, Val.beq_refl x, Val.beqList_refl xs]
theorem Val.beqKvs_refl : ∀ (a : List (Key × Val)), Val.beqKvs a a = true
  | [] => by simp [Val.beqKvs]
  | (k, x) :: xs => by simp [Val.beqKvs, Val.beq_refl x, Val.beqKvs_refl xs]
end

instance : DecidableEq Val := fun a b =>
  if h : Val.beq a b = true then isTrue (Val.beq_eq a b h)
  else isFalse (fun e => h (e ▸ Val.beq_refl a))

theorem Val.beq_iff (a b : Val) : (a == b) = true ↔ a = b :=
  ⟨Val.beq_eq a b, fun e => e ▸ Val.beq_refl a⟩

instance : LawfulBEq Val where
  eq_of_beq := Val.beq_eq _ _
  rfl := Val.beq_refl _

deriving instance DecidableEq for Side
deriving instance DecidableEq for Entry

/-! ### the msgpack normal form -/

mutual
theorem norm_idem : ∀ (v : Val), norm (norm v) = norm v
  | .nil => rfl
  | .bool _ => rfl
  | .int _ => rfl
  | .float _ => rfl
  | .str _ => rfl
  | .bin _ => rfl
  | .arr _ xs => by simp [norm, normList_idem xs]
  | .map xs => by simp [norm, normKvs_idem xs]
theorem normList_idem : ∀ (a : List Val), normList (normList a) = normList a
  | [] => rfl
  | x :: xs => by simp [normList, norm_idem x, normList_idem xs]
theorem normKvs_idem : ∀ (a : List (Key × Val)), normKvs (normKvs a) = normKvs a
  | [] => rfl
  | (k, x) :: xs => by simp [normKvs, norm_idem x, normKvs_idem xs]
end

mutual
/-- a value without Python lists is a fixed point: the round trip returns it unchanged -/
theorem norm_of_noList : ∀ (v : Val), noList v = true → norm v = v
  | .nil, _ => rfl
  | .bool _, _ => rfl
  | .int _, _ => rfl
  | .float _, _ => rfl
  | .str _, _ => rfl
  | .bin _, _ => rfl
  | .arr l xs, h => by
    simp only [noList, Bool.and_eq_true, Bool.not_eq_true'] at h
    simp [norm, normList_of_noList xs h.2, h.1]
  | .map xs, h => by
    simp only [noList] at h
    simp [norm, normKvs_of_noList xs h]
theorem normList_of_noList : ∀ (a : List Val), noListList a = true → normList a = a
  | [], _ => rfl
  | x :: xs, h => by
    simp only [noListList, Bool.and_eq_true] at h
    simp [normList, norm_of_noList x h.1, normList_of_noList xs h.2]
theorem normKvs_of_noList : ∀ (a : List (Key × Val)), noListKvs a = true → normKvs a = a
  | [], _ => rfl
  | (k, x) :: xs, h => by
    simp only [noListKvs, Bool.and_eq_true] at h
    simp [normKvs, norm_of_noList x h.1, normKvs_of_noList xs h.2]
end

mutual
/-- what comes out of a round trip contains no list -/
theorem noList_norm : ∀ (v : Val), noList (norm v) = true
  | .nil => rfl
  | .bool _ => rfl
  | .int _ => rfl
  | .float _ => rfl
  | .str _ => rfl
  | .bin _ => rfl
  | .arr _ xs => by simp [norm, noList, noListList_norm xs]
  | .map xs => by simp [norm, noList, noListKvs_norm xs]
theorem noListList_norm : ∀ (a : List Val), noListList (normList a) = true
  | [] => rfl
  | x :: xs => by simp [normList, noListList, noList_norm x, noListList_norm xs]
theorem noListKvs_norm : ∀ (a : List (Key × Val)), noListKvs (normKvs a) = true
  | [] => rfl
  | (k, x) :: xs => by simp [normKvs, noListKvs, noList_norm x, noListKvs_norm xs]
end

theorem norm_truthy (v : Val) : (norm v).truthy = v.truthy := by
  cases v with
  | arr l xs => cases xs <;> simp [norm, normList, Val.truthy]
  | map kvs =>
    cases kvs with
    | nil => simp [norm, normKvs, Val.truthy]
    | cons a r => obtain ⟨k, x⟩ := a; simp [norm, normKvs, Val.truthy]
  | _ => rfl

theorem norm_isNone (v : Val) : (norm v).isNone = v.isNone := by
  cases v <;> simp [norm, Val.isNone]

theorem norm_isNumOrNone (v : Val) : (norm v).isNumOrNone = v.isNumOrNone := by
  cases v <;> simp [norm, Val.isNumOrNone]

/-! ### enum tables -/

theorem Exists.ofValue_value (e : Exists) : Exists.ofValue e.value = some e := by cases e <;> decide
theorem Ignore.ofValue_value (e : Ignore) : Ignore.ofValue e.value = some e := by cases e <;> decide
theorem OType.ofValue_value (e : OType) : OType.ofValue e.value = some e := by cases e <;> decide

theorem Exists.value_ne_empty (e : Exists) : (e.value != "") = true := by cases e <;> decide
theorem Ignore.value_ne_empty (e : Ignore) : (e.value != "") = true := by cases e <;> decide
theorem Ignore.value_ne_trashed (e : Ignore) : (Val.str e.value == Val.str "trashed") = false := by
  cases e <;> decide

theorem translateExists_value (e : Exists) : translateExists (.raw (.str e.value)) = .ok e := by
  cases e <;> rfl

/-! ### one side through the codec -/

/-- what a side looks like after `serialize`, msgpack, `deserialize` -/
def Side.normed (s : Side) : Side :=
  { s with side := norm s.side, hash := norm s.hash, changed := norm s.changed, syncHash := norm s.syncHash,
           syncPath := norm s.syncPath, path := norm s.path, oid := norm s.oid, tempFile := norm s.tempFile,
           size := norm s.size, mtime := norm s.mtime, forceSync := .bool false }

theorem Side.deserialize_serialize (s : Side) (i : Int) (hm : s.mtime.isNumOrNone = true) :
    Side.deserialize i (norm s.serialize) = .ok s.normed := by
  obtain ⟨ot, sd, h, c, sh, sp, p, o, ex, tf, sz, mt, sv, fs⟩ := s
  have hmn : (norm mt).isNumOrNone = true := by rw [norm_isNumOrNone]; exact hm
  simp only [Side.serialize, norm, normKvs, Side.deserialize, Val.getItem, Val.getD, lookupKey]
  simp [OType.ofVal, OType.ofValue_value, Side.plainPost, Side.store, Side.fresh, Val.isNone, Side.loadExists,
    Side.existsPre, ExV.isCorruptMember, Side.isCorrupt, Side.existsPost, translateExists_value, Side.mtimePost, hmn,
    Side.normed, bind, Except.bind, pure, Except.pure]
  cases sv with
  | none => simp [norm, Val.truthy]
  | some e => simp [norm, Val.truthy, Exists.ofVal, Exists.ofValue_value, Exists.value_ne_empty]

end CS.Codec
