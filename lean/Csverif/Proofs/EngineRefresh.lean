import Csverif.Model.EngineRefresh
import Csverif.Proofs.Engine
import Mathlib.Tactic.SplitIfs
/-
ENG, part 4 — helper lemmas for the refresh scopes: `unconditionally_get_latest` never touches the `_last_gotten` marks, which
sides `get_latest` re-reads for each of the scopes the engine uses, what a re-read that finds a new hash leaves behind.
-/
namespace CS.Engine.Refresh
open CS.Hints (Ex OT Ign)
open CS.Engine

/-- `max([self[side].changed or 0 for side in sides])` -/
def maxStamp (r : RE) (scope : List Sd) : Nat := (scope.map r.ch).foldl max 0

theorem maxStamp_full (r : RE) : maxStamp r [.loc, .rem] = max r.chL r.chR := by
  simp [maxStamp, RE.ch]

theorem maxStamp_one (r : RE) (s : Sd) : maxStamp r [s] = r.ch s := by
  simp [maxStamp]

/-! ### the marks are written by `get_latest` only -/

theorem stampIfQuiet_lg (r : RE) (s t : Sd) : (stampIfQuiet r s).lg t = r.lg t := by
  unfold stampIfQuiet
  split_ifs
  · cases s <;> cases t <;> rfl
  · rfl

theorem hashStep_lg (r : RE) (s t : Sd) (ha : Ans) : (hashStep r s ha).lg t = r.lg t := by
  unfold hashStep
  dsimp only
  split_ifs <;> first | rfl | (rw [stampIfQuiet_lg]; cases t <;> rfl)

theorem existStep_lg (r : RE) (s t : Sd) (ot : OT) : (existStep r s ot).lg t = r.lg t := by
  cases t <;> rfl

theorem pathStep_lg (r : RE) (s t : Sd) (pa : Ans) : (pathStep r s pa).lg t = r.lg t := by
  unfold pathStep
  dsimp only
  split_ifs <;> first | rfl | (rw [stampIfQuiet_lg]; cases t <;> rfl)

theorem uncond_lg (w : World) (r : RE) (s t : Sd) : (uncond w r s).lg t = r.lg t := by
  unfold uncond
  dsimp only
  cases w.probe s with
  | absent => dsimp only; split_ifs <;> cases t <;> rfl
  | present ha pa ot =>
    dsimp only
    split_ifs
    · cases t <;> rfl
    · rfl
    · rw [pathStep_lg, existStep_lg, hashStep_lg]

theorem setLg_lg_self (r : RE) (s : Sd) (m : Nat) : (r.setLg s m).lg s = m := by cases s <;> rfl

theorem setLg_lg_other (r : RE) (s t : Sd) (m : Nat) (h : s ≠ t) : (r.setLg s m).lg t = r.lg t := by
  cases s <;> cases t <;> first | rfl | exact absurd rfl h

/-! ### which sides are re-read -/

/-- the trigger of state.py 641: `force or max_changed > self[side]._last_gotten` -/
def fires (force : Bool) (m lg : Nat) : Prop := force = true ∨ lg < m

instance (force : Bool) (m lg : Nat) : Decidable (fires force m lg) := by unfold fires; infer_instance

def glStep (w : World) (force : Bool) (m : Nat) (acc : RE × List Sd) (s : Sd) : RE × List Sd :=
  if force || m > acc.1.lg s then ((uncond w acc.1 s).setLg s m, acc.2 ++ [s]) else acc

theorem getLatest_eq (w : World) (r : RE) (scope : List Sd) (force : Bool) :
    getLatest w r scope force = scope.foldl (glStep w force (maxStamp r scope)) (r, []) := rfl

theorem glStep_snd (w : World) (force : Bool) (m : Nat) (acc : RE × List Sd) (s : Sd) :
    (glStep w force m acc s).2 = acc.2 ++ (if fires force m (acc.1.lg s) then [s] else []) := by
  unfold glStep fires
  by_cases hf : force = true <;> by_cases hm : acc.1.lg s < m <;> simp [hf, hm]

theorem glStep_lg (w : World) (force : Bool) (m : Nat) (acc : RE × List Sd) (s t : Sd) :
    (glStep w force m acc s).1.lg t = if fires force m (acc.1.lg s) ∧ t = s then m else acc.1.lg t := by
  unfold glStep fires
  by_cases hts : t = s
  · subst hts
    by_cases hf : force = true <;> by_cases hm : acc.1.lg t < m <;> simp [hf, hm, setLg_lg_self]
  · have hst : s ≠ t := fun h => hts h.symm
    by_cases hf : force = true <;> by_cases hm : acc.1.lg s < m <;> simp [hf, hm, hts, setLg_lg_other _ _ _ _ hst, uncond_lg]

theorem getLatest_one_reread (w : World) (r : RE) (a : Sd) (force : Bool) :
    (getLatest w r [a] force).2 = if fires force (r.ch a) (r.lg a) then [a] else [] := by
  rw [getLatest_eq, maxStamp_one]
  simp [glStep_snd]

theorem getLatest_two_reread (w : World) (r : RE) (a b : Sd) (hab : a ≠ b) (force : Bool) :
    (getLatest w r [a, b] force).2 =
      (if fires force (max (r.ch a) (r.ch b)) (r.lg a) then [a] else []) ++ (if fires force (max (r.ch a) (r.ch b)) (r.lg b) then [b] else []) := by
  have hba : ¬ b = a := fun h => hab h.symm
  have hm : maxStamp r [a, b] = max (r.ch a) (r.ch b) := by simp [maxStamp]
  rw [getLatest_eq, hm]
  simp only [List.foldl, glStep_snd, glStep_lg, hba, and_false, if_false, List.nil_append]

/-- the marks after `get_latest`: a side that was re-read carries the newest stamp of the scope, the others keep theirs -/
theorem getLatest_two_marks (w : World) (r : RE) (a b : Sd) (hab : a ≠ b) (force : Bool) (t : Sd) :
    (getLatest w r [a, b] force).1.lg t =
      if fires force (max (r.ch a) (r.ch b)) (r.lg t) then max (r.ch a) (r.ch b) else r.lg t := by
  have hba : ¬ b = a := fun h => hab h.symm
  have hm : maxStamp r [a, b] = max (r.ch a) (r.ch b) := by simp [maxStamp]
  have ht : t = a ∨ t = b := by cases t <;> cases a <;> cases b <;> simp_all
  rw [getLatest_eq, hm]
  simp only [List.foldl, glStep_lg, hba, and_false, if_false]
  rcases ht with h | h
  · subst h; simp [hab]
  · subst h; simp [hba]

/-! ### what a re-read leaves behind -/

/-- flagged, identified, and the hash differs from the synced one: `needs_sync()` -/
def Dirty (x : Side) : Prop := x.changed = true ∧ x.oid = true ∧ x.h.same = false

theorem Dirty.needsSync {x : Side} (h : Dirty x) : x.needsSync = true := by
  obtain ⟨h1, h2, h3⟩ := h
  simp [Side.needsSync, h1, h2, h3]

/-- the flag of side `s` says what its stamp says -/
def StampOk (r : RE) (s : Sd) : Prop := (r.e.get s).changed = (r.ch s != 0)

theorem setPrio_zero_get (e : Entry) (x : Sd) : (e.setPrio 0).get x = e.get x := by
  cases x <;> (unfold Entry.setPrio; by_cases h1 : e.prio = 0 <;> simp [h1, Entry.get])

theorem stamp_e (r : RE) (s : Sd) (t : Nat) (e' : Entry) :
    (({ r with e := e', clock := t } : RE).setCh s t).dropCleared.e = e' := by cases s <;> rfl

theorem stamp_ch (r : RE) (s x : Sd) (t : Nat) (e' : Entry) :
    (({ r with e := e', clock := t } : RE).setCh s t).dropCleared.ch x =
      if (e'.get x).changed then (if x = s then t else r.ch x) else 0 := by
  cases s <;> cases x <;> simp [RE.setCh, RE.dropCleared, RE.ch, Entry.get]
  all_goals rfl

theorem stampIfQuiet_self (r : RE) (s : Sd) :
    (stampIfQuiet r s).e.get s = { r.e.get s with changed := (r.e.get s).changed || (r.e.ign == .no && r.ch s == 0) } := by
  unfold stampIfQuiet
  split_ifs with h
  · rw [stamp_e, setChanged_get_self]
    simp only [Bool.and_eq_true, beq_iff_eq] at h
    simp [When.flag, h.1, h.2]
  · have : (r.e.ign == .no && r.ch s == 0) = false := by simpa using h
    rw [this]; simp

theorem stampIfQuiet_ign (r : RE) (s : Sd) : (stampIfQuiet r s).e.ign = r.e.ign := by
  unfold stampIfQuiet
  split_ifs
  · rw [stamp_e]; simp
  · rfl

/-- stamping side `s.other` leaves an identified side `s` alone -/
theorem stampIfQuiet_other (r : RE) (s : Sd) (ho : (r.e.get s).oid = true) :
    (stampIfQuiet r s.other).e.get s = r.e.get s ∧ (StampOk r s → StampOk (stampIfQuiet r s.other) s) := by
  unfold stampIfQuiet
  split_ifs with h
  · have hg : (r.e.setChanged s.other .now).get s = r.e.get s := by
      have := setChanged_get_other r.e s.other .now
      rw [Sd.other_other] at this
      rw [this, ho]; simp
    refine ⟨by rw [stamp_e, hg], ?_⟩
    intro hs
    unfold StampOk at hs ⊢
    rw [stamp_e, stamp_ch, hg]
    have hne : ¬ s = s.other := Sd.ne_other s
    cases hc : (r.e.get s).changed
    · simp
    · simp only [if_true, hne, if_false]; rw [← hs, hc]
  · exact ⟨rfl, id⟩

/-- side `s` identified, the entry not ignored, flag and stamp agree -/
def Pre (r : RE) (s : Sd) : Prop := (r.e.get s).oid = true ∧ r.e.ign = .no ∧ StampOk r s

theorem hashStep_other (r : RE) (s : Sd) (ha : Ans) (ho : (r.e.get s).oid = true) :
    (hashStep r s.other ha).e.get s = r.e.get s ∧ (hashStep r s.other ha).e.ign = r.e.ign ∧
      (StampOk r s → StampOk (hashStep r s.other ha) s) := by
  unfold hashStep
  dsimp only
  split_ifs
  all_goals first
    | exact ⟨rfl, rfl, id⟩
    | (refine ⟨?_, ?_, ?_⟩
       · rw [(stampIfQuiet_other _ s (by simpa using ho)).1]; simp
       · rw [stampIfQuiet_ign]; simp
       · intro hs
         refine (stampIfQuiet_other _ s (by simpa using ho)).2 ?_
         unfold StampOk at hs ⊢
         simpa [RE.ch] using hs)

theorem existStep_other (r : RE) (s : Sd) (ot : OT) :
    (existStep r s.other ot).e.get s = r.e.get s ∧ (existStep r s.other ot).e.ign = r.e.ign ∧
      (StampOk r s → StampOk (existStep r s.other ot) s) := by
  unfold existStep StampOk
  refine ⟨by simp, by simp, ?_⟩
  intro hs
  simpa [RE.ch] using hs

theorem pathStep_other (r : RE) (s : Sd) (pa : Ans) (ho : (r.e.get s).oid = true) :
    (pathStep r s.other pa).e.get s = r.e.get s ∧ (pathStep r s.other pa).e.ign = r.e.ign ∧
      (StampOk r s → StampOk (pathStep r s.other pa) s) := by
  unfold pathStep
  dsimp only
  split_ifs
  · have hg : ((r.e.set s.other { r.e.get s.other with p := (applyAns (r.e.get s.other).p pa).1 }).pathMoved true).get s = r.e.get s := by
      simp [Entry.pathMoved, setPrio_zero_get]
    refine ⟨?_, ?_, ?_⟩
    · rw [(stampIfQuiet_other _ s (by rw [hg]; exact ho)).1, hg]
    · rw [stampIfQuiet_ign]; simp [Entry.pathMoved]
    · intro hs
      refine (stampIfQuiet_other _ s (by rw [hg]; exact ho)).2 ?_
      unfold StampOk at hs ⊢
      rw [hg]
      simpa [RE.ch] using hs
  · exact ⟨rfl, rfl, id⟩

/-- re-reading side `s.other` leaves an identified side `s`, the ignore reason and the agreement of flag and stamp alone -/
theorem uncond_other (w : World) (r : RE) (s : Sd) (ho : (r.e.get s).oid = true) :
    (uncond w r s.other).e.get s = r.e.get s ∧ (uncond w r s.other).e.ign = r.e.ign ∧
      (StampOk r s → StampOk (uncond w r s.other) s) := by
  unfold uncond
  dsimp only
  cases w.probe s.other with
  | absent =>
    dsimp only
    split_ifs
    · refine ⟨by simp, by simp, ?_⟩; intro hs; unfold StampOk at hs ⊢; simpa [RE.ch] using hs
    · exact ⟨rfl, rfl, id⟩
    · refine ⟨by simp, by simp, ?_⟩; intro hs; unfold StampOk at hs ⊢; simpa [RE.ch] using hs
  | present ha pa ot =>
    dsimp only
    split_ifs
    · refine ⟨by simp, by simp, ?_⟩; intro hs; unfold StampOk at hs ⊢; simpa [RE.ch] using hs
    · exact ⟨rfl, rfl, id⟩
    · have h1 := hashStep_other r s ha ho
      have h2 := existStep_other (hashStep r s.other ha) s ot
      have ho2 : ((existStep (hashStep r s.other ha) s.other ot).e.get s).oid = true := by rw [h2.1, h1.1]; exact ho
      have h3 := pathStep_other (existStep (hashStep r s.other ha) s.other ot) s pa ho2
      refine ⟨by rw [h3.1, h2.1, h1.1], by rw [h3.2.1, h2.2.1, h1.2.1], fun hs => h3.2.2 (h2.2.2 (h1.2.2 hs))⟩

theorem uncond_other_pre (w : World) (r : RE) (s : Sd) (h : Pre r s) : Pre (uncond w r s.other) s := by
  obtain ⟨h1, h2, h3⟩ := h
  have := uncond_other w r s h1
  exact ⟨by rw [this.1]; exact h1, by rw [this.2.1]; exact h2, this.2.2 h3⟩

theorem uncond_other_dirty (w : World) (r : RE) (s : Sd) (h : Dirty (r.e.get s)) : Dirty ((uncond w r s.other).e.get s) := by
  rw [(uncond_other w r s h.2.1).1]; exact h

/-! the re-read that finds another hash -/

theorem applyAns_newOther (rel : Rel) : (applyAns rel .newOther).2 = true ∧ (applyAns rel .newOther).1.same = false := by
  cases rel <;> simp [applyAns, Rel.sync, Rel.same]

theorem hashStep_edit (r : RE) (s : Sd) (h : Pre r s) : Dirty ((hashStep r s .newOther).e.get s) := by
  obtain ⟨h1, h2, h3⟩ := h
  unfold StampOk at h3
  have ha := applyAns_newOther (r.e.get s).h
  unfold hashStep
  dsimp only
  rw [ha.1]
  simp only [if_true]
  rw [stampIfQuiet_self]
  refine ⟨?_, ?_, ?_⟩
  · simp only [get_set_same, set_ign, h2, beq_self_eq_true, Bool.true_and]
    split_ifs
    · simp only [uncorrupt_changed, h3, RE.ch]
      cases s <;> simp <;> omega
    · simp only [h3, RE.ch]
      cases s <;> simp <;> omega
  · simp only [get_set_same]; split_ifs <;> simp [h1]
  · simp only [get_set_same]; exact ha.2

theorem existStep_dirty (r : RE) (s : Sd) (ot : OT) (h : Dirty (r.e.get s)) : Dirty ((existStep r s ot).e.get s) := by
  unfold existStep Dirty at *
  simpa using h

theorem pathStep_dirty (r : RE) (s : Sd) (pa : Ans) (h : Dirty (r.e.get s)) : Dirty ((pathStep r s pa).e.get s) := by
  unfold pathStep
  dsimp only
  split_ifs
  · rw [stampIfQuiet_self]
    unfold Dirty at *
    simp only [Entry.pathMoved, if_true, setPrio_zero_get, get_set_same]
    exact ⟨by simp [h.1], h.2.1, h.2.2⟩
  · exact h

/-- re-reading an identified side of an entry that is not ignored, whose object now has a hash the entry does not record: the side
    ends up flagged with a hash that differs from the synced one — `needs_sync()` -/
theorem uncond_edit_dirty (w : World) (r : RE) (s : Sd) (pa : Ans) (ot : OT) (h : Pre r s)
    (hp : w.probe s = .present .newOther pa ot) : Dirty ((uncond w r s).e.get s) := by
  unfold uncond
  dsimp only
  rw [hp]
  simp only [h.1, Bool.not_true, Bool.false_eq_true, if_false]
  exact pathStep_dirty _ _ _ (existStep_dirty _ _ _ (hashStep_edit r s h))

end CS.Engine.Refresh
