import Csverif.Proofs.MockRename
/- From one step to whole call sequences: guard, lock-step run, initial state. -/
namespace CS.MockFS
open CS.Path
open CS.Tree (Kind Err)
set_option linter.unusedVariables false
variable {C H : Type}

/-- the reference-tree call a provider call stands for: paths are parsed into names, ids are resolved to the
    place the object lives at (`none` when they resolve to nothing).  Hash, event and cursor calls do not
    concern the tree. -/
def toTreeOp (c : Cfg) (s : St C) : Op C → Option (Tree.Op C)
  | .create p d => some (.create (Path.C c p) d)
  | .mkdir p => some (.mkdir (Path.C c p))
  | .upload o d => some (.upload (resolve c s o) d)
  | .download o => some (.download (resolve c s o))
  | .rename o p => some (.rename (resolve c s o) (Path.C c p))
  | .delete o => some (.delete (resolve c s o))
  | .infoPath p => some (.infoPath (Path.C c p))
  | .infoOid o => some (.infoOid (resolve c s o))
  | .existsPath p => some (.existsPath (Path.C c p))
  | .existsOid o => some (.existsOid (resolve c s o))
  | .listdir o => some (.listdir (resolve c s o))
  | _ => none

/-- Hypotheses on one call (evaluated in the state it is made in):
    * path arguments are clean (`Clean`);
    * `rename`: the destination is not the root, an id-style provider is handed an id (not a path), and —
      the stated subset of this proof — the object being renamed is a file.  Renaming folders (children
      re-filed without events, rename over an empty folder) is covered by the model and the correspondence. -/
def OpOk (c : Cfg) (fl : Flavour) (s : St C) : Op C → Prop
  | .create p _ => Clean c fl p
  | .mkdir p => Clean c fl p
  | .infoPath p => Clean c fl p
  | .existsPath p => Clean c fl p
  | .rename oid p => Clean c fl p ∧ Path.C c p ≠ [] ∧ (fl.oip = false → oid.head? ≠ some '/') ∧
      (∀ (h : Nat) (o : Obj C), pv s oid = some (h, o) → o.kind = .file)
  | _ => True

def treeStep (c : Cfg) (fl : Flavour) (s : St C) (t : Tree.T C) (op : Op C) : Tree.T C × Option (Tree.Res C) :=
  match toTreeOp c s op with
  | some top => ((Tree.step (tcfg c fl) t top).1, some (Tree.step (tcfg c fl) t top).2)
  | none => (t, none)

def Guarded (c : Cfg) (fl : Flavour) (hcfg : HashCfg C H) : St C → List (Op C) → Prop
  | _, [] => True
  | s, op :: ops => OpOk c fl s op ∧ Guarded c fl hcfg (step c fl hcfg s op).1 ops

/-- along the run: every result is related to the tree's result and the object table keeps describing the tree -/
def Agree (c : Cfg) (fl : Flavour) (hcfg : HashCfg C H) : St C → Tree.T C → List (Op C) → Prop
  | s, t, [] => Rel c s t
  | s, t, op :: ops =>
    Rel c s t ∧
    (match (treeStep c fl s t op).2 with
     | some tr => ResRel c fl hcfg (step c fl hcfg s op).2 tr
     | none => True) ∧
    Agree c fl hcfg (step c fl hcfg s op).1 (treeStep c fl s t op).1 ops

theorem tree_listdir_fst (cfg : Tree.Cfg) (t : Tree.T C) (tg : Option Tree.Path) :
    (Tree.step cfg t (.listdir tg)).1 = t := by
  simp only [Tree.step, Tree.listdir]
  split
  · rfl
  · split <;> rfl

theorem sim_step {c : Cfg} (hc : COk2 c) {fl : Flavour} (hfs : c.sep ∉ fl.forbidden) (hcfg : HashCfg C H)
    {s : St C} {t : Tree.T C} (hi : Inv c fl s) (hr : Rel c s t) (op : Op C) (hok : OpOk c fl s op) :
    Inv c fl (step c fl hcfg s op).1 ∧ Rel c (step c fl hcfg s op).1 (treeStep c fl s t op).1 ∧
    (match (treeStep c fl s t op).2 with
     | some tr => ResRel c fl hcfg (step c fl hcfg s op).2 tr
     | none => True) := by
  cases op with
  | create p d => exact sim_create hc hfs hcfg hi hr hok d
  | mkdir p => exact sim_mkdir hc hfs hcfg hi hr hok
  | upload o d => exact sim_upload hc hcfg hi hr o d
  | download o => exact sim_download hc hcfg hi hr o
  | rename o p => exact (sim_rename_file hc hcfg hi hr o p hok.1 hok.2.1 hok.2.2.1 hok.2.2.2).2
  | delete o => exact sim_delete hc hcfg hi hr o
  | infoPath p => exact ⟨hi, hr, (sim_infoPath hc hcfg hi hr hok).1⟩
  | infoOid o => exact ⟨hi, hr, (sim_infoOid hc hcfg hi hr o).1⟩
  | existsPath p => exact ⟨hi, hr, (sim_infoPath hc hcfg hi hr hok).2⟩
  | existsOid o => exact ⟨hi, hr, (sim_infoOid hc hcfg hi hr o).2⟩
  | listdir o =>
    refine ⟨hi, ?_, sim_listdir hc hcfg hi hr o⟩
    show Rel c s (Tree.step (tcfg c fl) t (.listdir (resolve c s o))).1
    rw [tree_listdir_fst]; exact hr
  | hashOid o => exact ⟨hi, hr, trivial⟩
  | hashData d => exact ⟨hi, hr, trivial⟩
  | events => exact ⟨inv_of_same (s := s) rfl rfl rfl hi, rel_of_same (s := s) rfl rfl hr, trivial⟩
  | latestCursor => exact ⟨hi, hr, trivial⟩
  | currentCursor => exact ⟨hi, hr, trivial⟩
  | setCursor v =>
    cases v with
    | none => exact ⟨inv_of_same (s := s) rfl rfl rfl hi, rel_of_same (s := s) rfl rfl hr, trivial⟩
    | some n => exact ⟨inv_of_same (s := s) rfl rfl rfl hi, rel_of_same (s := s) rfl rfl hr, trivial⟩

theorem agree_of_inv {c : Cfg} (hc : COk2 c) {fl : Flavour} (hfs : c.sep ∉ fl.forbidden) (hcfg : HashCfg C H)
    (ops : List (Op C)) {s : St C} {t : Tree.T C} (hi : Inv c fl s) (hr : Rel c s t)
    (hg : Guarded c fl hcfg s ops) :
    Agree c fl hcfg s t ops ∧ Inv c fl (run c fl hcfg s ops).1 := by
  induction ops generalizing s t with
  | nil => exact ⟨hr, hi⟩
  | cons op ops ih =>
    obtain ⟨h1, h2, h3⟩ := sim_step hc hfs hcfg hi hr op hg.1
    obtain ⟨h4, h5⟩ := ih h1 h2 hg.2
    exact ⟨⟨hr, h3, h4⟩, h5⟩

/-! ### the initial state -/

def emptySt : St C := { heap := [], dict := [], events := [], cursor := 0, nextId := 0 }

theorem inv_empty (c : Cfg) (fl : Flavour) : Inv c fl (emptySt : St C) := by
  refine ⟨by simp [emptySt], ?_, ?_, ?_, ?_, ?_, ?_, ?_, ?_, ?_, ?_⟩ <;>
    intros <;> simp_all [emptySt, dget_nil]

theorem rel_empty (c : Cfg) : Rel c (emptySt : St C) ([] : Tree.T C) := by
  refine ⟨?_, by simp, by simp⟩
  intro k _
  simp [Tree.get_nil, pv, getObj, emptySt, dget_nil]

theorem clean_root {c : Cfg} (hc : COk2 c) (fl : Flavour) : Clean c fl ['/'] :=
  ⟨[], comps_nil' c, by simp [canon, intercalate, hc.sep], fun _ => rfl⟩

theorem init_inv_rel {c : Cfg} (hc : COk2 c) (fl : Flavour) :
    Inv c fl (init c fl : St C) ∧ Rel c (init c fl : St C) (Tree.init : Tree.T C) := by
  have hp := clean_root hc fl
  have hfree : infoPath c (emptySt : St C) ['/'] = none := by
    simp [infoPath, getByPath, getObj, emptySt, dget_nil]
  obtain ⟨h1, h2, h3, h4, h5, h6, _⟩ := sim_alloc hc (inv_empty c fl) (rel_empty c) hp hfree .dir none
  refine ⟨h1, ?_⟩
  have hC : Path.C c ['/'] = [] := by
    have := C_canon hc.ok (comps_nil' c)
    simpa [canon, intercalate, hc.sep] using this
  have hnode : nodeOf c (allocStore c fl (emptySt : St C) ['/'] Kind.dir none).2.2 =
      { kind := .dir, content := none, disp := [] } := by
    simp only [nodeOf, h5, h6, h3, hC]
  rw [hnode, hC] at h2
  exact h2

end CS.MockFS
