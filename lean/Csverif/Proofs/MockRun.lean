import Csverif.Proofs.MockDir
/- From one step to whole call sequences: guard, lock-step run, initial state. -/
namespace CS.MockFS
open CS.Path
open CS.Tree (Kind Err)
set_option linter.unusedVariables false
variable {C H : Type}

/-- the reference-tree call a provider call stands for: paths are parsed into names, ids are resolved to the
    place the object lives at (`none` when they resolve to nothing).  Hash, event and cursor calls do not
    concern the tree. -/
def toTreeOp (c : Cfg) (s : St C) : Op C → Option (Tree.Op C)
  | .create p d => some (.create (Path.C c p) d)
  | .mkdir p => some (.mkdir (Path.C c p))
  | .upload o d => some (.upload (resolve c s o) d)
  | .download o => some (.download (resolve c s o))
  | .rename o p => some (.rename (resolve c s o) (Path.C c p))
  | .delete o => some (.delete (resolve c s o))
  | .infoPath p => some (.infoPath (Path.C c p))
  | .infoOid o => some (.infoOid (resolve c s o))
  | .existsPath p => some (.existsPath (Path.C c p))
  | .existsOid o => some (.existsOid (resolve c s o))
  | .listdir o => some (.listdir (resolve c s o))
  | _ => none

/-- Hypotheses on one call (evaluated in the state it is made in):
    * path arguments are clean (`Clean`);
    * `delete` does not target the root;
    * `rename`: the destination is not the root, an id-style provider is handed an id (not a path), and the destination
      does not lie strictly beneath the object being renamed (see the open finding mock-rename-into-own-subtree). -/
def OpOk (c : Cfg) (fl : Flavour) (s : St C) : Op C → Prop
  | .create p _ => Clean c fl p
  | .mkdir p => Clean c fl p
  | .infoPath p => Clean c fl p
  | .existsPath p => Clean c fl p
  | .delete oid => resolve c s oid ≠ some []
  | .rename oid p => Clean c fl p ∧ Path.C c p ≠ [] ∧ (fl.oip = false → oid.head? ≠ some '/') ∧
      (∀ (h : Nat) (o : Obj C), pv s oid = some (h, o) →
        foldL c (Path.C c o.path) <+: foldL c (Path.C c p) → foldL c (Path.C c o.path) = foldL c (Path.C c p))
  | _ => True

def treeStep (c : Cfg) (fl : Flavour) (s : St C) (t : Tree.T C) (op : Op C) : Tree.T C × Option (Tree.Res C) :=
  match toTreeOp c s op with
  | some top => ((Tree.step (tcfg c fl) t top).1, some (Tree.step (tcfg c fl) t top).2)
  | none => (t, none)

def Guarded (c : Cfg) (fl : Flavour) (hcfg : HashCfg C H) : St C → List (Op C) → Prop
  | _, [] => True
  | s, op :: ops => OpOk c fl s op ∧ Guarded c fl hcfg (step c fl hcfg s op).1 ops

/-- along the run: every result is related to the tree's result and the object table keeps describing the tree -/
def Agree (c : Cfg) (fl : Flavour) (hcfg : HashCfg C H) : St C → Tree.T C → List (Op C) → Prop
  | s, t, [] => Rel c s t ∧ Tree.TWf t
  | s, t, op :: ops =>
    Rel c s t ∧ Tree.TWf t ∧
    (match (treeStep c fl s t op).2 with
     | some tr => ResRel c fl hcfg (step c fl hcfg s op).2 tr
     | none => True) ∧
    Agree c fl hcfg (step c fl hcfg s op).1 (treeStep c fl s t op).1 ops

theorem tree_listdir_fst (cfg : Tree.Cfg) (t : Tree.T C) (tg : Option Tree.Path) :
    (Tree.step cfg t (.listdir tg)).1 = t := by
  simp only [Tree.step, Tree.listdir]
  split
  · rfl
  · split <;> rfl

/-- `rename` of whatever the id resolves to: a file moves alone, a folder with everything beneath it -/
theorem sim_rename {c : Cfg} (hc : COk2 c) {fl : Flavour} (hcfg : HashCfg C H)
    {s : St C} {t : Tree.T C} (hi : Inv c fl s) (hr : Rel c s t) (hw : Tree.TWf t) (oid p : Str)
    (hok : OpOk c fl s (.rename oid p)) :
    RenameOk (rename c fl hcfg s oid p) p ∧
    Sim c fl hcfg (rename c fl hcfg s oid p) (Tree.rename (tcfg c fl) t (resolve c s oid) (Path.C c p)) := by
  obtain ⟨hp, hpn, harg, hg⟩ := hok
  cases hpv : pv s oid with
  | none =>
    exact sim_rename_file hc hcfg hi hr oid p hp hpn harg (fun h o e => by rw [hpv] at e; cases e)
  | some ho =>
    obtain ⟨h, o⟩ := ho
    cases hk : o.kind with
    | file =>
      exact sim_rename_file hc hcfg hi hr oid p hp hpn harg
        (fun h' o' e => by rw [hpv] at e; cases e; exact hk)
    | dir =>
      exact sim_rename_dir hc hcfg hi hr hw oid p hp hpn harg
        (fun h' o' e => by rw [hpv] at e; cases e; exact hk) hg

/-- the tree-side guard follows from the call's guard -/
theorem tguard_of_opOk {c : Cfg} (hc : COk2 c) {fl : Flavour} {s : St C} (hi : Inv c fl s) (op : Op C) (hok : OpOk c fl s op)
    (top : Tree.Op C) (ht : toTreeOp c s op = some top) : Tree.TGuard (tcfg c fl) top := by
  cases op with
  | delete o =>
    simp only [toTreeOp, Option.some.injEq] at ht; subst ht
    intro p hp e; subst e; exact hok hp
  | rename o p =>
    simp only [toTreeOp, Option.some.injEq] at ht; subst ht
    obtain ⟨_, hpn, _, hg⟩ := hok
    refine ⟨hpn, ?_⟩
    intro pth hpth
    unfold resolve at hpth
    cases hpv : pv s o with
    | none => rw [hpv] at hpth; cases hpth
    | some ho =>
      obtain ⟨h, ob⟩ := ho
      rw [hpv] at hpth
      simp only [Option.map_some, Option.some.injEq] at hpth
      subst hpth
      rw [tfold_eq, tfold_eq]
      exact hg h ob hpv
  | create p d => simp only [toTreeOp, Option.some.injEq] at ht; subst ht; trivial
  | mkdir p => simp only [toTreeOp, Option.some.injEq] at ht; subst ht; trivial
  | upload o d => simp only [toTreeOp, Option.some.injEq] at ht; subst ht; trivial
  | download o => simp only [toTreeOp, Option.some.injEq] at ht; subst ht; trivial
  | infoPath p => simp only [toTreeOp, Option.some.injEq] at ht; subst ht; trivial
  | infoOid o => simp only [toTreeOp, Option.some.injEq] at ht; subst ht; trivial
  | existsPath p => simp only [toTreeOp, Option.some.injEq] at ht; subst ht; trivial
  | existsOid o => simp only [toTreeOp, Option.some.injEq] at ht; subst ht; trivial
  | listdir o => simp only [toTreeOp, Option.some.injEq] at ht; subst ht; trivial
  | hashOid o => simp [toTreeOp] at ht
  | hashData d => simp [toTreeOp] at ht
  | events => simp [toTreeOp] at ht
  | latestCursor => simp [toTreeOp] at ht
  | currentCursor => simp [toTreeOp] at ht
  | setCursor v => simp [toTreeOp] at ht

theorem twf_treeStep {c : Cfg} (hc : COk2 c) {fl : Flavour} {s : St C} {t : Tree.T C} (hi : Inv c fl s) (hr : Rel c s t)
    (hw : Tree.TWf t) (op : Op C) (hok : OpOk c fl s op) : Tree.TWf (treeStep c fl s t op).1 := by
  unfold treeStep
  cases ht : toTreeOp c s op with
  | none => exact hw
  | some top => exact Tree.twf_step hw hr.tnodup top (tguard_of_opOk hc hi op hok top ht)

theorem sim_step {c : Cfg} (hc : COk2 c) {fl : Flavour} (hfs : c.sep ∉ fl.forbidden) (hcfg : HashCfg C H)
    {s : St C} {t : Tree.T C} (hi : Inv c fl s) (hr : Rel c s t) (hw : Tree.TWf t) (op : Op C) (hok : OpOk c fl s op) :
    Inv c fl (step c fl hcfg s op).1 ∧ Rel c (step c fl hcfg s op).1 (treeStep c fl s t op).1 ∧
    (match (treeStep c fl s t op).2 with
     | some tr => ResRel c fl hcfg (step c fl hcfg s op).2 tr
     | none => True) := by
  cases op with
  | create p d => exact sim_create hc hfs hcfg hi hr hok d
  | mkdir p => exact sim_mkdir hc hfs hcfg hi hr hok
  | upload o d => exact sim_upload hc hcfg hi hr o d
  | download o => exact sim_download hc hcfg hi hr o
  | rename o p => exact (sim_rename hc hcfg hi hr hw o p hok).2
  | delete o => exact sim_delete hc hcfg hi hr o
  | infoPath p => exact ⟨hi, hr, (sim_infoPath hc hcfg hi hr hok).1⟩
  | infoOid o => exact ⟨hi, hr, (sim_infoOid hc hcfg hi hr o).1⟩
  | existsPath p => exact ⟨hi, hr, (sim_infoPath hc hcfg hi hr hok).2⟩
  | existsOid o => exact ⟨hi, hr, (sim_infoOid hc hcfg hi hr o).2⟩
  | listdir o =>
    refine ⟨hi, ?_, sim_listdir hc hcfg hi hr o⟩
    show Rel c s (Tree.step (tcfg c fl) t (.listdir (resolve c s o))).1
    rw [tree_listdir_fst]; exact hr
  | hashOid o => exact ⟨hi, hr, trivial⟩
  | hashData d => exact ⟨hi, hr, trivial⟩
  | events => exact ⟨inv_of_same (s := s) rfl rfl rfl hi, rel_of_same (s := s) rfl rfl hr, trivial⟩
  | latestCursor => exact ⟨hi, hr, trivial⟩
  | currentCursor => exact ⟨hi, hr, trivial⟩
  | setCursor v =>
    cases v with
    | none => exact ⟨inv_of_same (s := s) rfl rfl rfl hi, rel_of_same (s := s) rfl rfl hr, trivial⟩
    | int n => exact ⟨inv_of_same (s := s) rfl rfl rfl hi, rel_of_same (s := s) rfl rfl hr, trivial⟩
    | other => exact ⟨hi, hr, trivial⟩

theorem agree_of_inv {c : Cfg} (hc : COk2 c) {fl : Flavour} (hfs : c.sep ∉ fl.forbidden) (hcfg : HashCfg C H)
    (ops : List (Op C)) {s : St C} {t : Tree.T C} (hi : Inv c fl s) (hr : Rel c s t) (hw : Tree.TWf t)
    (hg : Guarded c fl hcfg s ops) :
    Agree c fl hcfg s t ops ∧ Inv c fl (run c fl hcfg s ops).1 := by
  induction ops generalizing s t with
  | nil => exact ⟨⟨hr, hw⟩, hi⟩
  | cons op ops ih =>
    obtain ⟨h1, h2, h3⟩ := sim_step hc hfs hcfg hi hr hw op hg.1
    have hw' := twf_treeStep hc hi hr hw op hg.1
    obtain ⟨h4, h5⟩ := ih h1 h2 hw' hg.2
    exact ⟨⟨hr, hw, h3, h4⟩, h5⟩

/-! ### the initial state -/

def emptySt : St C := { heap := [], dict := [], events := [], cursor := 0, nextId := 0 }

theorem inv_empty (c : Cfg) (fl : Flavour) : Inv c fl (emptySt : St C) := by
  refine ⟨by simp [emptySt], ?_, ?_, ?_, ?_, ?_, ?_, ?_, ?_, ?_, ?_, ?_, ?_⟩ <;>
    intros <;> simp_all [emptySt, dget_nil]

theorem rel_empty (c : Cfg) : Rel c (emptySt : St C) ([] : Tree.T C) := by
  refine ⟨?_, by simp, by simp⟩
  intro k _
  simp [Tree.get_nil, pv, getObj, emptySt, dget_nil]

theorem clean_root {c : Cfg} (hc : COk2 c) (fl : Flavour) : Clean c fl ['/'] :=
  ⟨[], comps_nil' c, by simp [canon, intercalate, hc.sep], fun _ => rfl⟩

theorem init_inv_rel {c : Cfg} (hc : COk2 c) (fl : Flavour) :
    Inv c fl (init c fl : St C) ∧ Rel c (init c fl : St C) (Tree.init : Tree.T C) := by
  have hp := clean_root hc fl
  have hfree : infoPath c (emptySt : St C) ['/'] = none := by
    simp [infoPath, getByPath, getObj, emptySt, dget_nil]
  obtain ⟨h1, h2, h3, h4, h5, h6, _⟩ := sim_alloc hc (inv_empty c fl) (rel_empty c) hp hfree .dir none
  refine ⟨h1, ?_⟩
  have hC : Path.C c ['/'] = [] := by
    have := C_canon hc.ok (comps_nil' c)
    simpa [canon, intercalate, hc.sep] using this
  have hnode : nodeOf c (allocStore c fl (emptySt : St C) ['/'] Kind.dir none).2.2 =
      { kind := .dir, content := none, disp := [] } := by
    simp only [nodeOf, h5, h6, h3, hC]
  rw [hnode, hC] at h2
  exact h2

end CS.MockFS
