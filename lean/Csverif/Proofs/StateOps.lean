import Csverif.Proofs.StateSet
/-
C11: the operations above the hook — `mark_changed`, `SideState.clear`, `ignored`, `__setitem__`, `split`,
`update_entry`, `update`.
-/
namespace CS.State

/-- invariant + number of entries -/
def InvL (L : Nat) (st : St) : Prop := Inv st ∧ st.ents.length = L ∧ st.moving = []

/-- a hooked assignment as one step of a sequence -/
theorem sideSet_keeps (cfg : Cfg) (fuel : Nat) (e : Nat) (s : Sd) (fv : FV) (L : Nat) (hlt : e < L) (G : St → Prop)
    (hG : ∀ st, G st → InvL L st) :
    Tr G (sideSet cfg fuel e s fv) (fun _ st' => InvL L st') Inv := by
  apply Tr.intro_st; intro st1
  apply Tr.with_pre (φ := G st1) (fun st (h : st = st1 ∧ _) => h.1 ▸ h.2)
  intro hg
  obtain ⟨hi, hl, hmv⟩ := hG st1 hg
  refine (((sideSet_inv cfg fuel e s fv st1 hi (hl ▸ hlt) (by rw [hmv]; simp)).with_mov (movF_sideSet cfg fuel e s fv) [])).conseq ?_ ?_ ?_
  · rintro st ⟨h0, _⟩; exact ⟨h0, h0 ▸ hmv⟩
  · exact fun _ st' h => ⟨h.1.1, h.1.2.trans hl, h.2⟩
  · exact fun st' h => h.1.1

theorem plainRel_last (st : St) (c : Int) : PlainRel st { st with last := c } :=
  ⟨rfl, fun s => by cases s <;> rfl, fun s => by cases s <;> rfl, rfl, fun _ _ => ⟨rfl, rfl, rfl⟩, rfl⟩
theorem plainRel_now (st : St) (c : Int) : PlainRel st { st with now := c } :=
  ⟨rfl, fun s => by cases s <;> rfl, fun s => by cases s <;> rfl, rfl, fun _ _ => ⟨rfl, rfl, rfl⟩, rfl⟩
theorem plainRel_dirty (st : St) (d : List Nat) : PlainRel st { st with dirty := d } :=
  ⟨rfl, fun s => by cases s <;> rfl, fun s => by cases s <;> rfl, rfl, fun _ _ => ⟨rfl, rfl, rfl⟩, rfl⟩

theorem InvL.plain {L st st'} (h : InvL L st) (hr : PlainRel st st') : InvL L st' := ⟨hr.inv h.1, hr.len.trans h.2.1, hr.mov.trans h.2.2⟩

/-- state.py:1028-1038 `mark_changed` -/
theorem markChanged_tr (cfg : Cfg) (fuel : Nat) (s : Sd) (e : Nat) (L : Nat) (hlt : e < L) :
    Tr (InvL L) (markChanged cfg fuel s e) (fun _ st' => InvL L st') Inv := by
  unfold markChanged
  apply Tr.getSt_bind; intro st0
  refine Tr.bind (R := fun _ => InvL L) (sideSet_keeps cfg fuel e s _ L hlt _ (fun st ⟨_, h⟩ => h)) (fun _ => ?_)
  refine Tr.bind (R := fun _ => InvL L) ?_ (fun _ => ?_)
  · unfold bumpPastLast
    apply Tr.getSt_bind; intro st1
    split
    · apply Tr.when
      · intro _; exact sideSet_keeps cfg fuel e s _ L hlt _ (fun st ⟨_, h⟩ => h)
      · rintro _ st ⟨_, h⟩; exact h
    · exact Tr.pure (fun st ⟨_, h⟩ => h)
  · apply Tr.modify
    intro st h
    split
    · exact h.plain (plainRel_last ..)
    · exact h

/-- state.py:169-178 `SideState.clear` -/
theorem clearSide_tr (cfg : Cfg) (fuel : Nat) (e : Nat) (s : Sd) (L : Nat) (hlt : e < L) :
    Tr (InvL L) (clearSide cfg fuel e s) (fun _ st' => InvL L st') Inv := by
  unfold clearSide
  have step : ∀ fv, Tr (InvL L) (sideSet cfg fuel e s fv) (fun _ st' => InvL L st') Inv :=
    fun fv => sideSet_keeps cfg fuel e s fv L hlt _ (fun st h => h)
  refine Tr.bind (step _) (fun _ => ?_)
  refine Tr.bind (step _) (fun _ => ?_)
  refine Tr.bind (step _) (fun _ => ?_)
  refine Tr.bind (step _) (fun _ => ?_)
  refine Tr.bind (step _) (fun _ => ?_)
  refine Tr.bind (step _) (fun _ => ?_)
  refine Tr.bind (step _) (fun _ => ?_)
  refine Tr.bind (step _) (fun _ => ?_)
  exact step _

/-- `ent.ignored = v` (state.py:355-362, 782-786) -/
theorem ignoredState_inv (st : St) (e : Nat) (v : Ign) (L : Nat) (h : InvL L st) : InvL L (ignoredState st e v) := by
  unfold ignoredState
  split
  · exact h
  · simp only
    have hent : ∀ (st1 : St), PlainRel st1 ((st1.dirtyAdd e).modEnt e (fun x => { x with ignored := v })) := fun st1 =>
      (plainRel_dirtyAdd st1 e).trans (plainRel_modEnt _ e _ (fun x s => by cases s <;> rfl))
    split
    · refine InvL.plain ?_ (hent _)
      have hrel : ChgRel e st (((st.modSide e .L (fun x => { x with changed := .fls })).modSide e .R
          (fun x => { x with changed := .fls })).csDiscard e) :=
        ((chgRel_setChanged e .L .fls st).trans (chgRel_setChanged e .R .fls _)).trans (chgRel_csDiscard e _)
      refine ⟨⟨hrel.idx h.1.1, hrel.pend h.1.2 ?_⟩, hrel.len.trans h.2.1, hrel.mov.trans h.2.2⟩
      rintro ⟨s, h1, _⟩
      exfalso
      have hf : ∀ s', ((((st.modSide e .L (fun x => { x with changed := .fls })).modSide e .R
          (fun x => { x with changed := .fls })).csDiscard e).side e s').changed.truthy = false := by
        intro s'
        by_cases hl : e < st.ents.length
        · cases s' <;> st_norm <;> simp [hl, Chg.truthy]
        · rw [changed_oob _ e s' (by simpa using hl)]; rfl
      rw [hf s] at h1; cases h1
    · exact h.plain (hent _)

end CS.State
