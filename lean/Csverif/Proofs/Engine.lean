import Csverif.Model.Engine
import Mathlib.Tactic.SplitIfs
/-
ENG — helper lemmas about the engine decision tables (Model/Engine.lean):
  * projections of the entry after the state hooks (`setChanged`, `setIgn`, `setPrio`, `clearSide`, `finished`, …),
  * which leaf calls each handler can make (`*_effs`), which codes it can return (`*_code`).
-/
namespace CS.Engine
open CS.Hints (Ex OT Ign)

@[simp] theorem Sd.other_other (s : Sd) : s.other.other = s := by cases s <;> rfl
@[simp] theorem Sd.other_ne (s : Sd) : s.other ≠ s := by cases s <;> decide
@[simp] theorem Sd.ne_other (s : Sd) : s ≠ s.other := by cases s <;> decide

@[simp] theorem Rel.clearSync_sync (r : Rel) : r.clearSync.sync = false := by cases r <;> rfl
@[simp] theorem Rel.clearSync_cur (r : Rel) : r.clearSync.cur = r.cur := by cases r <;> rfl
@[simp] theorem Rel.clearCur_cur (r : Rel) : r.clearCur.cur = false := by cases r <;> rfl
@[simp] theorem Rel.clearCur_sync (r : Rel) : r.clearCur.sync = r.sync := by cases r <;> rfl
@[simp] theorem Rel.setSync_same (r : Rel) : r.setSync.same = true := by cases r <;> rfl
@[simp] theorem Rel.setSync_cur (r : Rel) : r.setSync.cur = r.cur := by cases r <;> rfl
@[simp] theorem Rel.setSync_sync (r : Rel) : r.setSync.sync = r.cur := by cases r <;> rfl
@[simp] theorem Rel.clearSync_clearCur (r : Rel) : r.clearCur.clearSync = .nn := by cases r <;> rfl
theorem Rel.same_of_not_cur_sync (r : Rel) (h1 : r.cur = false) (h2 : r.sync = false) : r = .nn := by cases r <;> simp_all [Rel.cur, Rel.sync]
theorem Rel.not_same_of_cur_not_sync (r : Rel) (h1 : r.cur = true) (h2 : r.sync = false) : r.same = false := by
  cases r <;> simp_all [Rel.cur, Rel.sync, Rel.same]

@[simp] theorem get_set_same (e : Entry) (s : Sd) (v : Side) : (e.set s v).get s = v := by cases s <;> rfl
@[simp] theorem get_set_other (e : Entry) (s : Sd) (v : Side) : (e.set s v).get s.other = e.get s.other := by cases s <;> rfl
@[simp] theorem get_set_other' (e : Entry) (s : Sd) (v : Side) : (e.set s.other v).get s = e.get s := by cases s <;> rfl
@[simp] theorem set_ign (e : Entry) (s : Sd) (v : Side) : (e.set s v).ign = e.ign := by cases s <;> rfl
@[simp] theorem set_prio (e : Entry) (s : Sd) (v : Side) : (e.set s v).prio = e.prio := by cases s <;> rfl

@[simp] theorem get_with_prio (e : Entry) (v : Int) (x : Sd) : ({ e with prio := v } : Entry).get x = e.get x := by cases x <;> rfl
@[simp] theorem get_with_ign (e : Entry) (v : Ign) (x : Sd) : ({ e with ign := v } : Entry).get x = e.get x := by cases x <;> rfl
@[simp] theorem get_with_ord (e : Entry) (v : Bool) (x : Sd) : ({ e with lLeR := v } : Entry).get x = e.get x := by cases x <;> rfl

/-! ### the `changed` hook -/

theorem setChanged_get_self (e : Entry) (s : Sd) (w : When) :
    (e.setChanged s w).get s = { e.get s with changed := w.flag } := by
  rcases e with ⟨⟨lo, lp, lh, lx, lsv, lt, lc, lf⟩, ⟨ro, rp, rh, rx, rsv, rt, rc, rf⟩, ord, ign, prio⟩
  cases s <;> cases w <;> cases lo <;> cases lc <;> cases ro <;> cases rc <;> rfl

/-- the OTHER side keeps its flag iff this assignment brings the entry into the change set or the other side has an id -/
theorem setChanged_get_other (e : Entry) (s : Sd) (w : When) :
    (e.setChanged s w).get s.other =
      { e.get s.other with changed := (e.get s.other).changed && ((w.flag && (e.get s).oid) || (e.get s.other).oid) } := by
  rcases e with ⟨⟨lo, lp, lh, lx, lsv, lt, lc, lf⟩, ⟨ro, rp, rh, rx, rsv, rt, rc, rf⟩, ord, ign, prio⟩
  cases s <;> cases w <;> cases lo <;> cases lc <;> cases ro <;> cases rc <;> rfl

@[simp] theorem setChanged_ign (e : Entry) (s : Sd) (w : When) : (e.setChanged s w).ign = e.ign := by
  unfold Entry.setChanged
  cases s <;> cases w <;> simp [Entry.set] <;> repeat' split
  all_goals rfl

@[simp] theorem setChanged_prio (e : Entry) (s : Sd) (w : When) : (e.setChanged s w).prio = e.prio := by
  unfold Entry.setChanged
  cases s <;> cases w <;> simp [Entry.set] <;> repeat' split
  all_goals rfl
end CS.Engine

namespace CS.Engine
open CS.Hints (Ex OT Ign)

/-! ### `ignored`, `priority` -/

theorem setIgn_get (e : Entry) (g : Ign) (c : Sd) (hg : g ≠ .discarded) : (e.setIgn g).get c = e.get c := by
  unfold Entry.setIgn
  cases c <;> repeat' split
  all_goals simp_all [Entry.get]

@[simp] theorem setIgn_get_ex (e : Entry) (g : Ign) (c : Sd) : ((e.setIgn g).get c).ex = (e.get c).ex := by
  unfold Entry.setIgn
  cases c <;> repeat' split
  all_goals simp [Entry.get]

@[simp] theorem setIgn_get_p (e : Entry) (g : Ign) (c : Sd) : ((e.setIgn g).get c).p = (e.get c).p := by
  unfold Entry.setIgn
  cases c <;> repeat' split
  all_goals simp [Entry.get]

@[simp] theorem setIgn_ign (e : Entry) (g : Ign) : (e.setIgn g).ign = g := by
  unfold Entry.setIgn
  split <;> simp_all

@[simp] theorem setIgn_prio (e : Entry) (g : Ign) : (e.setIgn g).prio = e.prio := by
  unfold Entry.setIgn
  repeat' split
  all_goals simp

/-- after DISCARDED is assigned both flags are down — unless the entry was DISCARDED already (the hook only runs on a change) -/
theorem setIgn_discarded_flags (e : Entry) (c : Sd) (h : e.ign ≠ .discarded) : ((e.setIgn .discarded).get c).changed = false := by
  unfold Entry.setIgn
  cases c <;> simp [h, Entry.get] <;> (split <;> simp_all)

@[simp] theorem bump_ign (e : Entry) (s : Sd) : (e.bump s).ign = e.ign := by
  unfold Entry.bump; dsimp only; split_ifs <;> simp

@[simp] theorem bump_prio (e : Entry) (s : Sd) : (e.bump s).prio = e.prio := by
  unfold Entry.bump; dsimp only; split_ifs <;> simp

/-- a bump changes nothing but, possibly, the OTHER side's flag (down) -/
theorem bump_get (e : Entry) (s x : Sd) :
    (e.bump s).get x = { e.get x with changed := ((e.bump s).get x).changed } ∧
    (((e.bump s).get x).changed = true → (e.get x).changed = true) := by
  rcases e with ⟨⟨lo, lp, lh, lx, lsv, lt, lc, lf⟩, ⟨ro, rp, rh, rx, rsv, rt, rc, rf⟩, ord, ign, prio⟩
  cases s <;> cases x <;> cases lo <;> cases lc <;> cases ro <;> cases rc <;> simp [Entry.bump, Entry.get, Entry.set, Sd.other]

@[simp] theorem setPrio_ign (e : Entry) (v : Int) : (e.setPrio v).ign = e.ign := by
  unfold Entry.setPrio; dsimp only; split_ifs <;> simp

@[simp] theorem setPrio_prio (e : Entry) (v : Int) : (e.setPrio v).prio = v := by
  unfold Entry.setPrio; dsimp only; split_ifs <;> simp_all

/-- assigning the priority changes no field of a side except that it may take a change flag DOWN -/
theorem setPrio_get (e : Entry) (v : Int) (x : Sd) :
    (e.setPrio v).get x = { e.get x with changed := ((e.setPrio v).get x).changed } ∧
    (((e.setPrio v).get x).changed = true → (e.get x).changed = true) := by
  have b1 := bump_get e .loc x
  have b2 := bump_get e .rem x
  have b3 := bump_get (e.bump .loc) .rem x
  unfold Entry.setPrio
  dsimp only
  split_ifs
  · exact ⟨rfl, id⟩
  · simp only [get_with_prio]
    refine ⟨?_, fun h => b1.2 (b3.2 h)⟩
    rw [b3.1, b1.1]
  · simpa only [get_with_prio] using b1
  · simpa only [get_with_prio] using b2
  · exact ⟨rfl, id⟩
  · exact ⟨rfl, id⟩
end CS.Engine

namespace CS.Engine
open CS.Hints (Ex OT Ign)

/-! ### `exists`, `hash` assignments keep the other fields -/

section fields
variable (s : Side) (v : Ex)
@[simp] theorem setEx_oid : (s.setEx v).oid = s.oid := by unfold Side.setEx; split_ifs <;> rfl
@[simp] theorem setEx_p : (s.setEx v).p = s.p := by unfold Side.setEx; split_ifs <;> rfl
@[simp] theorem setEx_h : (s.setEx v).h = s.h := by unfold Side.setEx; split_ifs <;> rfl
@[simp] theorem setEx_otype : (s.setEx v).otype = s.otype := by unfold Side.setEx; split_ifs <;> rfl
@[simp] theorem setEx_changed : (s.setEx v).changed = s.changed := by unfold Side.setEx; split_ifs <;> rfl
@[simp] theorem setEx_force : (s.setEx v).force = s.force := by unfold Side.setEx; split_ifs <;> rfl
@[simp] theorem uncorrupt_oid : s.uncorrupt.oid = s.oid := by unfold Side.uncorrupt; split_ifs <;> rfl
@[simp] theorem uncorrupt_p : s.uncorrupt.p = s.p := by unfold Side.uncorrupt; split_ifs <;> rfl
@[simp] theorem uncorrupt_h : s.uncorrupt.h = s.h := by unfold Side.uncorrupt; split_ifs <;> rfl
@[simp] theorem uncorrupt_otype : s.uncorrupt.otype = s.otype := by unfold Side.uncorrupt; split_ifs <;> rfl
@[simp] theorem uncorrupt_changed : s.uncorrupt.changed = s.changed := by unfold Side.uncorrupt; split_ifs <;> rfl
@[simp] theorem uncorrupt_force : s.uncorrupt.force = s.force := by unfold Side.uncorrupt; split_ifs <;> rfl
@[simp] theorem clearHash_oid : s.clearHash.oid = s.oid := by unfold Side.clearHash; dsimp only; split_ifs <;> simp
@[simp] theorem clearHash_p : s.clearHash.p = s.p := by unfold Side.clearHash; dsimp only; split_ifs <;> simp
@[simp] theorem clearHash_h : s.clearHash.h = s.h.clearCur := by unfold Side.clearHash; dsimp only; split_ifs <;> simp
@[simp] theorem clearHash_otype : s.clearHash.otype = s.otype := by unfold Side.clearHash; dsimp only; split_ifs <;> simp
@[simp] theorem clearHash_changed : s.clearHash.changed = s.changed := by unfold Side.clearHash; dsimp only; split_ifs <;> simp
@[simp] theorem clearHash_force : s.clearHash.force = s.force := by unfold Side.clearHash; dsimp only; split_ifs <;> simp
end fields

/-- a corrupt side stays corrupt under every assignment to `exists` (only a hash change un-corrupts it) -/
theorem setEx_corrupt_stays (s : Side) (v : Ex) (h : s.isCorrupt = true) : (s.setEx v).isCorrupt = true := by
  unfold Side.setEx; split_ifs <;> simp_all [Side.isCorrupt]

theorem setEx_of_not_corrupt (s : Side) (v : Ex) (h : s.isCorrupt = false) (hv : v ≠ .corrupt) : (s.setEx v).ex = v := by
  unfold Side.setEx; split_ifs <;> simp_all [Side.isCorrupt]

/-! ### `SideState.clear` -/

theorem clearSide_self (e : Entry) (s : Sd) :
    ((e.clearSide s).get s).oid = false ∧ ((e.clearSide s).get s).p = .nn ∧ ((e.clearSide s).get s).h = .nn ∧
    ((e.clearSide s).get s).changed = false ∧ ((e.clearSide s).get s).otype = (e.get s).otype ∧
    ((e.clearSide s).get s).force = (e.get s).force := by
  simp [Entry.clearSide, setChanged_get_self, When.flag]

theorem clearSide_other (e : Entry) (s : Sd) :
    (e.clearSide s).get s.other =
      { e.get s.other with changed := (e.get s.other).changed && (e.get s.other).oid } := by
  simp [Entry.clearSide, setChanged_get_other, When.flag]

@[simp] theorem clearSide_ign (e : Entry) (s : Sd) : (e.clearSide s).ign = e.ign := by simp [Entry.clearSide]
@[simp] theorem clearSide_prio (e : Entry) (s : Sd) : (e.clearSide s).prio = e.prio := by simp [Entry.clearSide]

/-! ### `finished` -/

theorem finished_self (e : Entry) (s : Sd) : ((finished e s).get s).changed = false := by
  rcases e with ⟨⟨lo, lp, lh, lx, lsv, lt, lc, lf⟩, ⟨ro, rp, rh, rx, rsv, rt, rc, rf⟩, ord, ign, prio⟩
  cases s <;> cases lo <;> cases lc <;> cases ro <;> cases rc <;> rfl

/-- `finished` never raises a flag -/
theorem finished_flags (e : Entry) (s x : Sd) (h : ((finished e s).get x).changed = true) : (e.get x).changed = true := by
  rcases e with ⟨⟨lo, lp, lh, lx, lsv, lt, lc, lf⟩, ⟨ro, rp, rh, rx, rsv, rt, rc, rf⟩, ord, ign, prio⟩
  revert h
  cases s <;> cases x <;> cases lo <;> cases lc <;> cases ro <;> cases rc <;> simp [finished, Entry.setChanged, Entry.get, Entry.set, Sd.other, When.flag]

@[simp] theorem finished_ign (e : Entry) (s : Sd) : (finished e s).ign = e.ign := by
  unfold finished; dsimp only; split_ifs <;> simp

/-- after `finished` on both sides no flag is left and `force_sync` is off -/
theorem finished_both (e : Entry) (x : Sd) :
    ((finished (finished e .loc) .rem).get x).changed = false ∧ ((finished (finished e .loc) .rem).get x).force = false := by
  rcases e with ⟨⟨lo, lp, lh, lx, lsv, lt, lc, lf⟩, ⟨ro, rp, rh, rx, rsv, rt, rc, rf⟩, ord, ign, prio⟩
  cases x <;> cases lo <;> cases lc <;> cases ro <;> cases rc <;> simp [finished, Entry.setChanged, Entry.get, Entry.set, Sd.other, When.flag]
end CS.Engine

namespace CS.Engine
open CS.Hints (Ex OT Ign)

/-! ### leaf calls: classification -/

/-- create / upload / mkdir: a transfer of content or of a new object -/
def Eff.isTransfer : Eff → Bool
  | .create _ | .upload _ | .mkdir _ => true
  | _ => false

/-- the call is not a provider write, or it is addressed to side `x` -/
def Eff.towards (x : Sd) (f : Eff) : Bool :=
  match f.target with
  | some t => t == x
  | none => true

/-- no content transfer, and every provider write is addressed to side `x` -/
def Eff.quietTo (x : Sd) (f : Eff) : Bool := !f.isTransfer && f.towards x

theorem all_pre (p : Eff → Bool) (fx : List Eff) (r : Res) :
    (r.pre fx).effs.all p = (fx.all p && r.effs.all p) := by
  simp [Res.pre, List.all_append]

theorem all_mono {p q : Eff → Bool} (h : ∀ f, p f = true → q f = true) (l : List Eff) (hl : l.all p = true) :
    l.all q = true := by
  simp only [List.all_eq_true] at *
  exact fun f hf => h f (hl f hf)

theorem quietTo_towards (x : Sd) (l : List Eff) (h : l.all (Eff.quietTo x) = true) : l.all (Eff.towards x) = true :=
  all_mono (by intro f hf; simp [Eff.quietTo] at hf; exact hf.2) l h

theorem quietTo_noTransfer (x : Sd) (l : List Eff) (h : l.all (Eff.quietTo x) = true) :
    l.all (fun f => !f.isTransfer) = true :=
  all_mono (by intro f hf; simp [Eff.quietTo] at hf; simp [hf.1]) l h

/-! ### which leaf calls each handler can make -/

theorem dirNotEmpty_effs (o : Oracle) (e : Entry) (c : Sd) :
    (dirNotEmpty o e c).effs.all (Eff.quietTo c.other) = true := by
  unfold dirNotEmpty
  cases c <;> simp only [] <;> repeat' split
  all_goals simp [Eff.quietTo, Eff.isTransfer, Eff.towards, Eff.target, Sd.other]

theorem deleteSynced_effs (o : Oracle) (e : Entry) (c : Sd) (g : Ign) :
    (deleteSynced o e c g).effs.all (Eff.quietTo c.other) = true := by
  have hd := dirNotEmpty_effs o e c
  unfold deleteSynced deleteTail
  cases c <;> simp only [] <;> repeat' split
  all_goals simp_all [Eff.quietTo, Eff.isTransfer, Eff.towards, Eff.target, Res.pre, Sd.other]

theorem handleCorrupt_effs (e : Entry) (c : Sd) : (handleCorrupt e c).effs = [.notifyCorrupt c] := by
  simp [handleCorrupt]

theorem handleMissing_effs (e : Entry) (c : Sd) : (handleMissing e c).effs = [] := by
  unfold handleMissing
  simp only []
  repeat' split
  all_goals simp

/-- `handle_hash_diff` reads (download) from the changed side and writes — one upload — only to the other side -/
theorem hashDiff_effs (o : Oracle) (e : Entry) (c : Sd) :
    (hashDiff o e c).effs.all (fun f => f == .download c || f == .upload c.other || f == .notifyCorrupt c) = true := by
  unfold hashDiff download
  cases c <;> simp only [] <;> repeat' split
  all_goals simp_all [Res.pre, handleCorrupt, Sd.other]

theorem renameFix_effs (o : Oracle) (s : Sd) : (renameFix o s).all (Eff.quietTo s) = true := by
  unfold renameFix
  cases s <;> split <;> simp [Eff.quietTo, Eff.isTransfer, Eff.towards, Eff.target]

theorem handleRename_effs (o : Oracle) (e : Entry) (c : Sd) :
    (handleRename o e c).effs.all (Eff.quietTo c.other) = true := by
  have hf := renameFix_effs o c.other
  unfold handleRename
  cases c <;> simp only [] <;> repeat' split
  all_goals simp_all [Eff.quietTo, Eff.isTransfer, Eff.towards, Eff.target, Sd.other]

theorem hpccRest_effs (o : Oracle) (e : Entry) (c : Sd) :
    (hpccRest o e c).effs.all (Eff.towards c.other) = true := by
  have hr := handleRename_effs o e c
  unfold hpccRest download
  cases c <;> simp only [] <;> repeat' split
  all_goals simp_all [Eff.quietTo, Eff.isTransfer, Eff.towards, Eff.target, Sd.other, Res.pre, handleCorrupt]

theorem hpcc_effs (o : Oracle) (e : Entry) (c : Sd) :
    (hpcc o e c).effs.all (Eff.towards c.other) = true := by
  unfold hpcc
  simp only []
  repeat' split
  all_goals simp [hpccRest_effs]

theorem embraceHash_effs (o : Oracle) (e : Entry) (c : Sd) (fx : List Eff) (hfx : fx.all (Eff.towards c.other) = true) :
    (embraceHash o e c fx).effs.all (Eff.towards c.other) = true := by
  have hh := all_mono (q := Eff.towards c.other) (by
      intro f hf
      simp only [Bool.or_eq_true, beq_iff_eq] at hf
      cases c <;> rcases hf with (h | h) | h <;> subst h <;> simp [Eff.towards, Eff.target, Sd.other]) _ (hashDiff_effs o e c)
  unfold embraceHash
  simp only []
  split
  · rw [all_pre]; simp [hfx, hh]
  · simpa using hfx

theorem embraceTail_effs (o : Oracle) (e : Entry) (c : Sd) :
    (embraceTail o e c).effs.all (Eff.towards c.other) = true := by
  have hp := hpcc_effs o e c
  unfold embraceTail
  simp only []
  repeat' split
  all_goals first
    | exact hp
    | exact embraceHash_effs o _ c _ hp
    | exact embraceHash_effs o _ c _ (by simp)

theorem embraceMain_effs (o : Oracle) (e : Entry) (c : Sd) (fx : List Eff) (hfx : fx.all (Eff.towards c.other) = true) :
    (embraceMain o e c fx).effs.all (Eff.towards c.other) = true := by
  have hd := quietTo_towards _ _ (deleteSynced_effs o e c .discarded)
  have hm := handleMissing_effs e c
  have ht := embraceTail_effs o e c
  unfold embraceMain
  simp only []
  repeat' split
  all_goals (try rw [all_pre])
  all_goals simp_all [Eff.towards, Eff.target]

theorem embraceBody_effs (o : Oracle) (e : Entry) (c : Sd) (fx : List Eff) (hfx : fx.all (Eff.towards c.other) = true) :
    (embraceBody o e c fx).effs.all (Eff.towards c.other) = true := by
  unfold embraceBody
  repeat' split
  all_goals first
    | exact hfx
    | exact embraceMain_effs o _ c fx hfx

theorem embraceMovedOut_effs (o : Oracle) (e : Entry) (c : Sd) :
    (embraceMovedOut o e c).effs.all (Eff.quietTo c.other) = true := by
  have hd := deleteSynced_effs o e c .irrelevant
  have hq : Eff.quietTo c.other (.notifyDiscarded c) = true ∧ Eff.quietTo c.other .split = true := by
    simp [Eff.quietTo, Eff.isTransfer, Eff.towards, Eff.target]
  unfold embraceMovedOut
  simp only []
  repeat' split
  all_goals simp_all [List.all_append, Res.pre]

/-! ### which codes each handler can return -/

/-- FINISHED, PUNT, or an escaping exception -/
def Out.fp : Out → Bool
  | .ret .finished | .ret .punt | .raised _ => true
  | _ => false

theorem dirNotEmpty_code (o : Oracle) (e : Entry) (c : Sd) : (dirNotEmpty o e c).out.fp = true := by
  unfold dirNotEmpty; simp only []; repeat' split
  all_goals rfl

theorem deleteSynced_code (o : Oracle) (e : Entry) (c : Sd) (g : Ign) : (deleteSynced o e c g).out.fp = true := by
  have hd := dirNotEmpty_code o e c
  unfold deleteSynced deleteTail; simp only []; repeat' split
  all_goals simp_all [Res.pre, Out.fp]

theorem handleMissing_code (e : Entry) (c : Sd) : (handleMissing e c).out.fp = true := by
  unfold handleMissing; simp only []; repeat' split
  all_goals rfl

theorem hashDiff_code (o : Oracle) (e : Entry) (c : Sd) : (hashDiff o e c).out.fp = true := by
  unfold hashDiff download; simp only []; repeat' split
  all_goals simp_all [Res.pre, Out.fp, handleCorrupt]

theorem handleRename_code (o : Oracle) (e : Entry) (c : Sd) : (handleRename o e c).out.fp = true := by
  unfold handleRename fnfOut; simp only []; repeat' split
  all_goals simp_all [Out.fp]

/-- `handle_path_change_or_creation` returns FINISHED, PUNT, an exception — or Python `None`, and that only when `mkdir_synced`
    returned `None` (manager.py 632-633: CloudFileExistsError) -/
theorem hpccRest_code (o : Oracle) (e : Entry) (c : Sd) :
    (hpccRest o e c).out.fp = true ∨ ((hpccRest o e c).out = .ret .none_ ∧ o.mkd = .none_) := by
  have hr := handleRename_code o e c
  unfold hpccRest download; simp only []; repeat' split
  all_goals simp_all [Res.pre, Out.fp, handleCorrupt]

theorem hpcc_code (o : Oracle) (e : Entry) (c : Sd) :
    (hpcc o e c).out.fp = true ∨ ((hpcc o e c).out = .ret .none_ ∧ o.mkd = .none_) := by
  unfold hpcc; simp only []; repeat' split
  all_goals first
    | exact hpccRest_code o _ c
    | (left; rfl)

theorem embraceHash_code (o : Oracle) (e : Entry) (c : Sd) (fx : List Eff) : (embraceHash o e c fx).out.fp = true := by
  have hh := hashDiff_code o e c
  unfold embraceHash; simp only []; split
  · simpa [Res.pre] using hh
  · rfl

theorem embraceTail_code (o : Oracle) (e : Entry) (c : Sd) : (embraceTail o e c).out.fp = true := by
  unfold embraceTail
  simp only []
  split
  · split
    · rename_i h; simp [h, Out.fp]
    · rename_i h; simp [h, Out.fp]
    · split
      · rfl
      · exact embraceHash_code o _ c _
  · exact embraceHash_code o _ c _

theorem embraceMovedOut_code (o : Oracle) (e : Entry) (c : Sd) : (embraceMovedOut o e c).out.fp = true := by
  have hd := deleteSynced_code o e c .irrelevant
  unfold embraceMovedOut; simp only []; repeat' split
  all_goals simp_all [Res.pre, Out.fp]
end CS.Engine
