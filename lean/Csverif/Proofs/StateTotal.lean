import Csverif.Proofs.StateSet
/-
C11: termination of the hook after fix C.  `sideSet cfg n` runs out of fuel (the model's `RecursionError`) only if `n` is smaller than
the number of entries that are not on the `_kids_moving` stack, plus 3: every nested `_update_kids` pushes one more entry, and an
entry on the stack is never moved again.
-/
namespace CS.State

/-- `m` does not run out of fuel from `P` -/
def NR {α} (P : St → Prop) (m : M α) : Prop := ∀ st, P st → (m st).1 ≠ .error .recursion

theorem Tr.trivial {α} {P : St → Prop} (m : M α) : Tr P m (fun _ _ => True) (fun _ => True) :=
  fun _ _ => ⟨fun _ _ => True.intro, fun _ _ _ => True.intro⟩

namespace NR
variable {α β : Type} {P P' : St → Prop}

theorem pure {a : α} : NR P (Pure.pure a : M α) := by intro st _ h; simp at h
theorem modify {f : St → St} : NR P (modifySt f) := by intro st _ h; simp at h
theorem assert {b : Bool} : NR P (assertM b) := by
  intro st _ h; rw [assertM_apply] at h; cases b <;> simp at h

theorem bind {m : M α} {f : α → M β} {R : α → St → Prop} {E : St → Prop} (h0 : NR P m) (h1 : Tr P m R E)
    (h2 : ∀ a, NR (R a) (f a)) : NR P (m >>= f) := by
  intro st hp
  have h0' := h0 st hp
  have h1' := h1 st hp
  simp only [M.bind_apply]
  cases hm : m st with
  | mk r st' =>
    rw [hm] at h0' h1'
    cases r with
    | ok a => exact h2 a st' (h1'.1 a rfl)
    | error x => simpa using h0'

theorem getSt_bind {f : St → M β} (h : ∀ st0, NR (fun st => st = st0 ∧ P st) (f st0)) : NR P (getSt >>= f) :=
  fun st hp => h st st ⟨rfl, hp⟩

theorem when {c : Bool} {m : M Unit} (h : c = true → NR P m) : NR P (whenM c m) := by
  unfold whenM
  cases c with
  | true => exact h rfl
  | false => exact NR.pure

theorem ite {c : Prop} [Decidable c] {a b : M α} (h : c → NR P a) (h' : ¬ c → NR P b) : NR P (if c then a else b) := by
  split
  · next hc => exact h hc
  · next hc => exact h' hc

theorem pre {m : M α} (h : NR P m) (hP : ∀ st, P' st → P st) : NR P' m := fun st hp => h st (hP st hp)

theorem with_pre {m : M α} {φ : Prop} (hφ : ∀ st, P st → φ) (h : φ → NR P m) : NR P m := fun st hp => h (hφ st hp) st hp

theorem finally_ {m : M α} {f : St → St} (h : NR P m) : NR P (finallyM m f) := by
  intro st hp
  rw [finallyM_apply]
  exact h st hp

end NR

/-! ### the measure -/

/-- the number of entries that are not on the stack -/
def budgetOf (L : Nat) (M : List Nat) : Nat := (List.range L).countP (fun i => !M.contains i)

theorem countP_lt {p q : Nat → Bool} (hpq : ∀ x, p x = true → q x = true) (x : Nat) (hq : q x = true) (hp : p x = false) :
    ∀ l : List Nat, x ∈ l → l.countP p + 1 ≤ l.countP q
  | [], h => by cases h
  | y :: t, h => by
    rw [List.countP_cons, List.countP_cons]
    by_cases hxy : x = y
    · subst hxy
      have : t.countP p ≤ t.countP q := List.countP_mono_left (fun z _ => hpq z)
      simp only [hq, hp, if_true, Bool.false_eq_true, if_false]
      omega
    · have hmem : x ∈ t := by
        cases h with
        | head => exact absurd rfl hxy
        | tail _ h' => exact h'
      have ih := countP_lt hpq x hq hp t hmem
      by_cases hpy : p y = true
      · simp only [hpy, hpq y hpy, if_true]; omega
      · have hpy' : p y = false := by simpa using hpy
        simp only [hpy', Bool.false_eq_true, if_false]
        split <;> omega

theorem budget_cons {L : Nat} {M : List Nat} {e : Nat} (hlt : e < L) (hm : e ∉ M) : budgetOf L (e :: M) + 1 ≤ budgetOf L M := by
  unfold budgetOf
  apply countP_lt (x := e)
  · intro x hx
    simp only [Bool.not_eq_true', List.contains_eq_mem, List.mem_cons, decide_eq_false_iff_not, not_or] at hx ⊢
    simpa using hx.2
  · simpa using hm
  · simp
  · exact List.mem_range.2 hlt

theorem budget_le (L : Nat) (M : List Nat) : budgetOf L M ≤ L := by
  unfold budgetOf
  exact Nat.le_trans List.countP_le_length (by simp)

/-! ### no fuel exhaustion -/

def Total (cfg : Cfg) (n : Nat) : Prop :=
  ∀ e s fv st, Inv st → e < st.ents.length → e ∉ st.moving → budgetOf st.ents.length st.moving + 3 ≤ n →
    (sideSet cfg n e s fv st).1 ≠ .error .recursion

theorem bumpChanged_nr (cfg : Cfg) (n : Nat) (e : Nat) (s : Sd) (P : St → Prop) : NR P (bumpChanged (sideSet cfg (n + 1)) cfg e s) := by
  unfold bumpChanged
  apply NR.getSt_bind; intro st1
  cases (st1.side e s).changed with
  | num m =>
    simp only
    apply NR.when; intro _
    intro st _ h
    rw [chg_total] at h; cases h
  | none => exact NR.pure
  | fls => exact NR.pure

theorem setPriority_nr (cfg : Cfg) (n : Nat) (e : Nat) (v : Int) (P : St → Prop) : NR P (setPriority (sideSet cfg (n + 1)) cfg e v) := by
  unfold setPriority
  apply NR.getSt_bind; intro st1
  apply NR.when; intro _
  refine NR.bind (R := fun _ _ => True) ?_ (Tr.trivial _) (fun _ => NR.modify)
  apply NR.when; intro _
  exact NR.bind (R := fun _ _ => True) (bumpChanged_nr cfg n e .L _) (Tr.trivial _) (fun _ => bumpChanged_nr cfg n e .R _)

/-- a hooked assignment on a kid inside the loop keeps the loop invariant -/
theorem kidStep_tr (cfg : Cfg) (n : Nat) (s : Sd) (sub : Nat) (L : Nat) (M : List Nat) (st0 : St) (hsub : sub ∉ M) (hlt : sub < L) (fv : FV) :
    Tr (KidsJ L M st0) (sideSet cfg n sub s fv) (fun _ => KidsJ L M st0) (KidsJ L M st0) := by
  apply Tr.intro_st; intro st1
  apply Tr.with_pre (φ := KidsJ L M st0 st1) (fun st (h : st = st1 ∧ _) => h.1 ▸ h.2)
  rintro ⟨hi1, hl1, hm1, hk1⟩
  have hg := good_all cfg n sub s fv st1 hi1 (hl1 ▸ hlt) (hm1 ▸ hsub)
  refine ((hg.with_mov (movF_sideSet cfg n sub s fv) M)).conseq ?_ ?_ ?_
  · rintro st ⟨rfl, _⟩; exact ⟨rfl, hm1⟩
  · rintro _ st' ⟨⟨h1, h2, h3⟩, h4⟩; exact ⟨h1, h2.trans hl1, h4, hk1.trans (hm1 ▸ h3)⟩
  · rintro st' ⟨⟨h1, h2, h3⟩, h4⟩; exact ⟨h1, h2.trans hl1, h4, hk1.trans (hm1 ▸ h3)⟩

theorem moveKid_nr (cfg : Cfg) (n : Nat) (hT : Total cfg n) (s : Sd) (sub : Nat) (prior path rel : Path.Str) (L : Nat) (M : List Nat)
    (st0 : St) (hsub : sub ∉ M) (hlt : sub < L) (hb : budgetOf L M + 3 ≤ n) :
    NR (KidsJ L M st0) (moveKid (sideSet cfg n) cfg s sub prior path rel) := by
  have step : ∀ fv, NR (KidsJ L M st0) (sideSet cfg n sub s fv) := by
    rintro fv st ⟨hi, hl, hm, _⟩
    exact hT sub s fv st hi (hl ▸ hlt) (hm ▸ hsub) (by rw [hl, hm]; exact hb)
  unfold moveKid
  simp only
  refine NR.bind (R := fun _ => KidsJ L M st0) (E := KidsJ L M st0) ?_ ?_ (fun _ => ?_)
  · apply NR.when; intro _
    split
    · exact step _
    · exact NR.pure
  · apply Tr.when
    · intro _
      split
      · exact kidStep_tr cfg n s sub L M st0 hsub hlt _
      · exact Tr.pure (fun _ h => h)
    · exact fun _ _ h => h
  refine NR.bind (R := fun _ => KidsJ L M st0) (step _) (kidStep_tr cfg n s sub L M st0 hsub hlt _) (fun _ => ?_)
  unfold fixSyncPath
  apply NR.getSt_bind; intro st3
  split
  · split
    · exact (step _).pre (fun _ h => h.2)
    · exact NR.pure
  · exact NR.pure

theorem kidsLoop_nr (cfg : Cfg) (n : Nat) (hT : Total cfg n) (s : Sd) (prior pth : Path.Str) (L : Nat) (M : List Nat) (st0 : St)
    (hb : budgetOf L M + 3 ≤ n) :
    ∀ l : List Nat, NR (KidsJ L M st0) (kidsLoop (sideSet cfg n) cfg s prior pth l)
  | [] => NR.pure
  | sub :: rest => by
    unfold kidsLoop
    apply NR.getSt_bind; intro st1
    cases hk : kidRel cfg st1 s prior sub with
    | none => exact (kidsLoop_nr cfg n hT s prior pth L M st0 hb rest).pre (fun st h => h.2)
    | some rel =>
      simp only
      apply NR.with_pre (φ := KidsJ L M st0 st1) (fun st (h : st = st1 ∧ _) => h.1 ▸ h.2)
      rintro ⟨hi1, hl1, hm1, hk1⟩
      by_cases hc : st1.moving.contains sub = true
      · simp only [hc, if_true]
        exact (kidsLoop_nr cfg n hT s prior pth L M st0 hb rest).pre (fun st h => h.2)
      · simp only [hc, Bool.false_eq_true, if_false]
        have hsub : sub ∉ M := by
          intro hmem; apply hc; rw [hm1]; simpa using hmem
        have hsublt : sub < L := by
          rw [← hl1]
          apply Decidable.byContradiction; intro hge
          unfold kidRel at hk; rw [path_oob st1 sub s hge] at hk; cases hk
        exact NR.bind (R := fun _ => KidsJ L M st0)
          ((moveKid_nr cfg n hT s sub prior pth rel L M st0 hsub hsublt hb).pre (fun st h => h.2))
          ((moveKid_tr cfg n (good_all cfg n) s sub prior pth rel L M st0 hsub hsublt).pre (fun st h => h.2))
          (fun _ => kidsLoop_nr cfg n hT s prior pth L M st0 hb rest)

theorem updateKids_nr (cfg : Cfg) (n : Nat) (hT : Total cfg n) (s : Sd) (e : Nat) (prior : Option Path.Str) (pth : Path.Str) (st4 : St)
    (hi4 : Inv st4) (hlt : e < st4.ents.length) (hm : e ∉ st4.moving) (hb : budgetOf st4.ents.length st4.moving + 3 ≤ n + 1) :
    NR (fun st => st = st4) (updateKids (sideSet cfg n) cfg s e prior pth) := by
  unfold updateKids
  apply NR.finally_
  have hb' : budgetOf st4.ents.length (e :: st4.moving) + 3 ≤ n := by
    have := budget_cons hlt hm; omega
  refine NR.bind (R := fun _ => KidsJ st4.ents.length (e :: st4.moving) { st4 with moving := e :: st4.moving })
    (E := fun _ => True) NR.modify ?_ (fun _ => ?_)
  · apply Tr.modify
    rintro st rfl
    exact ⟨inv_setMoving hi4 _, rfl, rfl, KeepPaths.refl _ _⟩
  · unfold updateKidsOf
    apply NR.getSt_bind; intro st1
    cases prior with
    | none => exact NR.pure
    | some pr =>
      simp only
      apply NR.when
      intro _; exact (kidsLoop_nr cfg n hT s pr pth _ _ _ hb' _).pre (fun _ h => h.2)

/-- every hooked assignment terminates within `(#entries not on the stack) + 3` levels -/
theorem total_all (cfg : Cfg) : ∀ n, Total cfg n
  | 0 => by intro e s fv st _ _ _ hb; omega
  | n + 1 => by
    have hT := total_all cfg n
    intro e s fv st hi hlt hm hb
    by_cases hpl : fv.plain = true
    · obtain ⟨st', heq, _⟩ := sideSetBody_plain (sideSet cfg n) cfg e s fv hpl st
      have hstep : sideSet cfg (n + 1) e s fv st = (.ok (), st') := heq
      rw [hstep]; intro h; cases h
    obtain ⟨m, rfl⟩ : ∃ m, n = m + 1 := ⟨n - 1, by omega⟩
    cases fv with
    | oid v =>
      rcases sideSet_oid_spec (oustOk_sideSet_succ cfg m) cfg hi.1 hi.2 e s v hlt with ⟨hf, _⟩ | ⟨hok, _⟩
      · exact hf.elim
      · have hok' : (sideSet cfg (m + 1 + 1) e s (.oid v) st).1 = .ok () := hok
        intro h; rw [hok'] at h; cases h
    | changed v => intro h; rw [chg_total] at h; cases h
    | path v =>
      have hcp : (changePath (sideSet cfg (m + 1)) cfg s e v st).1 ≠ .error .recursion := by
        rw [changePath_eq]
        by_cases ha : (!truthyS v || truthyS (st.side e s).oid) = false
        · rw [if_pos ha]; intro h; cases h
        · rw [if_neg ha]
          by_cases hp : (st.side e s).path = v
          · rw [if_pos hp]; intro h; cases h
          · rw [if_neg hp]
            cases v with
            | none => intro h; cases h
            | some q =>
              cases q with
              | nil => intro h; cases h
              | cons c p =>
                simp only
                have ho : truthyS (st.side e s).oid = true := by
                  cases hb' : (!truthyS (some (c :: p)) || truthyS (st.side e s).oid) with
                  | false => exact absurd hb' ha
                  | true => simpa [truthyS] using hb'
                have hfree : (popPrior st s e).slot s (some (c :: p)) ((popPrior st s e).side e s).oid = none := by
                  rw [side_popPrior]
                  exact (hi.1.popPrior s e).2.2 _ (by intro hh; rw [hh] at ho; cases ho) (fun hh => hp hh.symm)
                simp only [M.bind_apply, oustPathOwner_eq _ _ _ _ hfree, modifySt_apply]
                obtain ⟨hinv4, hfr4, _⟩ := Inv.putPath hi.1 hi.2 s e (c :: p) rfl ho hp hlt
                have hl4 : (putPath (popPrior st s e) s e (c :: p)).ents.length = st.ents.length := hfr4.1
                have hm4 : (putPath (popPrior st s e) s e (c :: p)).moving = st.moving := by simp
                have := NR.bind (P := fun st4 => st4 = putPath (popPrior st s e) s e (c :: p)) (R := fun _ _ => True)
                  (updateKids_nr cfg (m + 1) hT s e (st.side e s).path (c :: p) _ hinv4 (by rw [hl4]; exact hlt) (by rw [hm4]; exact hm)
                    (by rw [hl4, hm4]; exact hb))
                  (Tr.trivial _) (fun _ => setPriority_nr cfg m e (cfg.prio s (c :: p)) _) _ rfl
                simpa only [M.bind_apply] using this
      rw [sideSet_path_eq]
      cases hr : changePath (sideSet cfg (m + 1)) cfg s e v st with
      | mk r s' =>
        rw [hr] at hcp
        cases r with
        | error x => exact hcp
        | ok u => intro h; cases h
    | exists_ v => exact absurd rfl hpl
    | hash v => exact absurd rfl hpl
    | syncHash v => exact absurd rfl hpl
    | syncPath v => exact absurd rfl hpl
    | otype v => exact absurd rfl hpl
    | size v => exact absurd rfl hpl
    | mtime v => exact absurd rfl hpl

/-- **termination** (fix C): at an operation boundary, `#entries + 3` levels of the hook are enough for any assignment -/
theorem sideSet_total (cfg : Cfg) (n : Nat) (e : Nat) (s : Sd) (fv : FV) (st : St) (hi : Inv st) (hlt : e < st.ents.length)
    (hm : st.moving = []) (hn : st.ents.length + 3 ≤ n) : (sideSet cfg n e s fv st).1 ≠ .error .recursion :=
  total_all cfg n e s fv st hi hlt (by rw [hm]; simp) (by have := budget_le st.ents.length st.moving; omega)

end CS.State
