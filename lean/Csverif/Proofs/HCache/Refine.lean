import Csverif.Proofs.HCache.DictL
/- C19 helper lemmas, part 16: the cache refines the dictionary specification, operation by operation. -/
namespace CS.HCache
open CS.Path CS.HDict
set_option linter.unusedSimpArgs false
set_option linter.unusedVariables false

/-- the abstraction relation: the dictionary answers every key as the cache's view does -/
def Abs (s : HC) (d : D) : Prop := dlook d = view s

/-- no entry carries the falsy-but-not-None id (the empty string) -/
def NoFalsyV (v : V) : Prop := ∀ q t, v q ≠ some (t, some 0)

/-! ### deleting the root: everything but the root entry goes (given no falsy ids) -/

theorem Coherent.kid_lookup_hit {c : Cfg} (g : CfgGood c) {s : HC} (hc : Coherent c s) {ky : List Str} {ch : Nat}
    (h : res s ky = some ch) (hno : (s.nd ch).oid ≠ some 0) :
    getNode c s (s.nd ch).oid (some (canon c.sep ky)) = .ok (some ch) := by
  cases ho : (s.nd ch).oid with
  | none => rw [getNode_canon g s (hc.ksOk h), h]
  | some o =>
    obtain ⟨r, hr, _, h2⟩ := hc.getNode_oid o (some (canon c.sep ky))
    have h0 : o ≠ 0 := fun e => hno (by rw [ho, e])
    rw [hr, h2 h0 ch ⟨_, h⟩ ho]

/-- the children loop of `delete` removes every child whose id is not the falsy one -/
theorem delLoop_gone {c : Cfg} (g : CfgGood c) (f : Nat) (kx : List Str) :
    ∀ (kl : List (Str × Nat)) (t : HC), Coherent c t → (keys kl).Nodup →
      (∀ e ∈ kl, res t (kx ++ [e.1]) = some e.2) → (∀ e ∈ kl, Shallow t e.2 f) → (kl ≠ [] → 0 < f) →
      (∀ e ∈ kl, (t.nd e.2).oid ≠ some 0) →
      ∀ e ∈ kl, ∀ q, (kx ++ [e.1]) <+: q → res (delLoop c (deleteRec c f) (kl.map (·.2)) t).1 q = none := by
  intro kl
  induction kl with
  | nil => intro t _ _ _ _ _ _ e he; simp at he
  | cons e0 rest ih =>
    obtain ⟨k, ch⟩ := e0
    intro t hc hnd hres hsh hpos hnof e he q hq
    have hf : 0 < f := hpos (by simp)
    have hch : res t (kx ++ [k]) = some ch := hres (k, ch) List.mem_cons_self
    have hlook := hc.kid_lookup_hit g hch (hnof (k, ch) List.mem_cons_self)
    have hspec := deleteRec_spec g f t (t.nd ch).oid (some (canon c.sep (kx ++ [k]))) hc
    have hno := deleteRec_nofuel g f t (t.nd ch).oid (some (canon c.sep (kx ++ [k]))) hc
      (fun x hx => by rw [hlook] at hx; cases hx; exact hsh (k, ch) List.mem_cons_self) hf
    have hresult : (deleteRec c f (t.nd ch).oid (some (canon c.sep (kx ++ [k]))) t).2 = .ok () := by
      rcases hspec.2.2.2 with h | h | ⟨e', he', _⟩
      · exact h
      · exact absurd h hno
      · rw [hlook] at he'; simp at he'
    have hch0 : ch ≠ 0 := fun e' => by
      rw [e'] at hch
      have := hc.res_root hch; simp at this
    obtain ⟨hout, hgone, _⟩ := hspec.2.1 ch _ hlook hch
    simp only [List.map_cons, delLoop_cons, hc.fullPath g hch]
    cases hout1 : deleteRec c f (t.nd ch).oid (some (canon c.sep (kx ++ [k]))) t with
    | mk t1 r1 =>
      rw [hout1] at hspec hout hgone hresult
      simp only at hspec hout hgone hresult
      subst hresult
      simp only
      simp only [keys_cons, List.nodup_cons] at hnd
      have hne : ∀ e' ∈ rest, ¬ (kx ++ [k]) <+: (kx ++ [e'.1]) := by
        intro e' he' hp
        have : k = e'.1 := prefix_snoc_ne (kx := kx) (r := []) (by simpa using hp)
        exact hnd.1 (this ▸ mem_keys_of_mem (show (e'.1, e'.2) ∈ rest from he'))
      have hres1 : ∀ e' ∈ rest, res t1 (kx ++ [e'.1]) = some e'.2 := fun e' he' => by
        rw [hout _ (hne e' he')]; exact hres e' (List.mem_cons_of_mem _ he')
      have hsh1 : ∀ e' ∈ rest, Shallow t1 e'.2 f := by
        intro e' he' q' m hm
        apply hsh e' (List.mem_cons_of_mem _ he') q' m
        have h1 : res t1 (kx ++ [e'.1] ++ q') = some m := res_of_resFrom (hres1 e' he') hm
        have h2 : res t (kx ++ [e'.1] ++ q') = some m := by
          rcases hspec.1.shrink (kx ++ [e'.1] ++ q') with a | a
          · rw [a] at h1; simp at h1
          · rw [← a]; exact h1
        obtain ⟨y, hy, hr⟩ := res_prefix h2
        rw [hres e' (List.mem_cons_of_mem _ he')] at hy
        cases hy; exact hr
      have hnof1 : ∀ e' ∈ rest, (t1.nd e'.2).oid ≠ some 0 := fun e' he' => by
        rw [(hspec.1.fields e'.2).2.1]; exact hnof e' (List.mem_cons_of_mem _ he')
      rcases List.mem_cons.1 he with rfl | he'
      · -- the kid just deleted stays deleted: later iterations only shrink
        have hnow : res t1 q = none := hgone rfl hch0 q hq
        obtain ⟨p1, _, _⟩ := delLoop_spec g (deleteRec c f) (deleteRec_spec g f) kx rest t1 hspec.1.coh hnd.2 hres1
        rcases p1.shrink q with a | a
        · exact a
        · rw [a]; exact hnow
      · exact ih t1 hspec.1.coh hnd.2 hres1 hsh1 (fun _ => hf) hnof1 e he' q hq

/-- `delete` of the root clears the dictionary (the root entry stays) -/
theorem delete_root_view {c : Cfg} (g : CfgGood c) {s : HC} (hc : Coherent c s) (hnf : NoFalsyV (view s))
    (oid : Option Oid) (path : Option Str) (hlook : getNode c s oid path = .ok (some 0)) :
    view (delete c oid path s).1 = rmV [] (view s) := by
  have hdp := (delete_spec g s oid path hc).1
  funext q
  simp only [rmV, List.nil_prefix, true_and]
  by_cases hq : q = []
  · subst hq
    simp only [ne_eq, not_true_eq_false, if_false, view, res_nil, Option.map_some, entOf, (hdp.fields 0).1, (hdp.fields 0).2.1]
  · rw [if_pos hq]
    apply view_none
    -- the first key of q either was no child of the root, or that child has been deleted
    cases q with
    | nil => exact absurd rfl hq
    | cons k r =>
      cases hk : res s [k] with
      | none =>
        cases hr : res (delete c oid path s).1 (k :: r) with
        | none => rfl
        | some m =>
          exfalso
          rcases hdp.shrink (k :: r) with a | a
          · rw [a] at hr; simp at hr
          · rw [a] at hr
            obtain ⟨y, hy, _⟩ := res_prefix (a := [k]) (b := r) hr
            rw [hk] at hy; simp at hy
      | some ch =>
        have hrun : delete c oid path s = deleteRec c (s.heap.length + 1) oid path s := by simp [delete, bind_run]
        rw [hrun, deleteRec_succ, hlook]
        simp only
        have hr0 : Reach s 0 := Reach.root s
        have hkids : ∀ e ∈ (s.nd 0).children, res s ([] ++ [e.1]) = some e.2 := fun e he => by
          rw [res_snoc]; simp; exact dget_of_mem (hc.keys_nodup hr0) he
        have hmem : (k, ch) ∈ (s.nd 0).children := by
          obtain ⟨p0, hp0, hd0⟩ := res_snoc_some (q := []) (k := k) (by simpa using hk)
          simp at hp0; subst hp0
          exact dget_mem hd0
        have hsh : ∀ e ∈ (s.nd 0).children, Shallow s e.2 s.heap.length := fun e he q' m hm => by
          have := hc.depth_lt (res_of_resFrom (hkids e he) hm)
          simp at this; omega
        have hnof : ∀ e ∈ (s.nd 0).children, (s.nd e.2).oid ≠ some 0 := fun e he ho => by
          have := hnf [e.1] (s.nd e.2).type
          rw [view_some (by simpa using hkids e he)] at this
          exact this (by simp [entOf, ho])
        have hpos : (s.nd 0).children ≠ [] → 0 < s.heap.length := fun _ => hc.root_valid
        have hgone := delLoop_gone g s.heap.length [] (s.nd 0).children s hc (hc.keys_nodup hr0) hkids hsh hpos hnof
          (k, ch) hmem (k :: r) (by simp)
        have hloopok := delLoop_nofuel g s.heap.length (deleteRec_spec g _) (deleteRec_nofuel g _) []
          (s.nd 0).children s hc (hc.keys_nodup hr0) hkids hsh hpos
        obtain ⟨p1, p2, _⟩ := delLoop_spec g (deleteRec c s.heap.length) (deleteRec_spec g _) [] (s.nd 0).children s hc
          (hc.keys_nodup hr0) hkids
        simp only [hc.root_type, if_true]
        cases hl : delLoop c (deleteRec c s.heap.length) ((s.nd 0).children.map (·.2)) s with
        | mk t rl =>
          rw [hl] at hgone hloopok p1 p2
          simp only at hgone hloopok p1 p2
          subst hloopok
          simp only
          have ht0 : res t [] = some 0 := rfl
          simp only [p1.coh.fullPath g ht0]
          rw [deleteNode_root c t 0 p1.coh.root_isRoot]
          exact hgone

/-! ### no falsy ids: preserved by the view-level operations -/

theorem NoFalsyV.rm {v : V} (h : NoFalsyV v) (k : Key) : NoFalsyV (rmV k v) := by
  intro q t; simp only [rmV]; split
  · simp
  · exact h q t

theorem NoFalsyV.put {v : V} (h : NoFalsyV v) (k : Key) {x : HDict.Ent} (hx : x.2 ≠ some 0) : NoFalsyV (putV k x v) := by
  intro q t; simp only [putV]; split
  · intro e
    have := Option.some.inj e
    exact hx (by rw [this])
  · exact h q t

theorem NoFalsyV.ensureR {v : V} (h : NoFalsyV v) : ∀ (rks : List Str) (v : V), NoFalsyV v → NoFalsyV (CS.HCache.ensureR rks v) := by
  intro rks
  induction rks with
  | nil => intro v hv; exact hv
  | cons b r ih =>
    intro v hv
    simp only [CS.HCache.ensureR]
    split
    · exact hv
    · exact (ih _ (hv.rm _)).put _ (by simp)

theorem NoFalsyV.ensure {v : V} (h : NoFalsyV v) (ks : Key) : NoFalsyV (ensureV ks v) := NoFalsyV.ensureR h _ v h

theorem NoFalsyV.graft {v t : V} (h : NoFalsyV v) (ht : NoFalsyV t) (k : Key) : NoFalsyV (graftV k t v) := by
  intro q x; simp only [graftV]; split
  · exact ht _ x
  · exact h q x

theorem NoFalsyV.leaf {x : HDict.Ent} (hx : x.2 ≠ some 0) : NoFalsyV (leafV x) := by
  intro q t; simp only [leafV]; split
  · intro e
    have := Option.some.inj e
    exact hx (by rw [this])
  · simp

theorem EvictV.noFalsy {v W : V} {ks : Key} {oid : Option Oid} (hW : EvictV v ks oid W) (h : NoFalsyV v)
    (hex : ∀ o, oid = some o → o ≠ 0 → (∃ kx, HolderV (rmV ks v) o kx) ∨ (∀ k, ¬ HolderV (rmV ks v) o k)) :
    NoFalsyV W := by
  cases oid with
  | none => rw [hW.1 rfl]; exact h.rm _
  | some o =>
    cases o with
    | zero => rw [hW.1 rfl]; exact h.rm _
    | succ n =>
      rcases hex (n + 1) rfl (by simp) with ⟨kx, hk⟩ | hno
      · rw [(hW.2 (n + 1) rfl (by simp)).1 kx hk]; exact (h.rm _).rm _
      · rw [(hW.2 (n + 1) rfl (by simp)).2 hno]; exact h.rm _

/-- outcome of an operation in the specification's terms -/
def ResAgree (r : Except Err Unit) : SRes → Prop
  | .ok => r = .ok ()
  | .valueError => r = .error .value
  | .assertionError => r = .error .assertion

/-! ### `__make_node` refines `insertD` -/

theorem refine_makeNode {c : Cfg} (g : CfgGood c) {s : HC} {d : D} (hc : Coherent c s) (habs : Abs s d)
    (otype : OType) (path : Str) (oid : Option Oid) (hne : tcomps c path ≠ [])
    (hroot : ∀ o, oid = some o → o ≠ 0 → (s.nd 0).oid ≠ some o) (hoid : oid ≠ some 0) :
    ∀ out, makeNode c otype path oid s = out →
      (∃ i, out.2 = .ok i) ∧ Abs out.1 (insertD (pcomps c path) (otype, oid) d) ∧ Coherent c out.1 := by
  intro out hout
  obtain ⟨hct, _, _, _, hview, htot, _, _⟩ := makeNode_spec g hc otype path oid hne hroot out hout
  obtain ⟨i, hi⟩ := htot hoid
  obtain ⟨W, hW, hv⟩ := hview i hi
  refine ⟨⟨i, hi⟩, ?_, hct⟩
  unfold Abs
  rw [pcomps_eq g, hv]
  exact dlook_insertD hne hW habs

theorem refine_mkdir {c : Cfg} (g : CfgGood c) {s : HC} {d : D} (hc : Coherent c s) (habs : Abs s d)
    (p : Str) (o : Option Oid) (hg : InsGuard c s p o) (hoid : o ≠ some 0) :
    (mkdir c p o s).2 = .ok () ∧ Abs (mkdir c p o s).1 (insertD (pcomps c p) (.dir, o) d) := by
  obtain ⟨⟨i, hi⟩, ha, _⟩ := refine_makeNode g hc habs .dir p o hg.1 hg.2 hoid _ rfl
  simp only [mkdir, bind_run]
  cases h : makeNode c .dir p o s with
  | mk t r =>
    rw [h] at hi ha
    simp only at hi ha
    subst hi
    exact ⟨rfl, ha⟩

theorem refine_create {c : Cfg} (g : CfgGood c) {s : HC} {d : D} (hc : Coherent c s) (habs : Abs s d)
    (p : Str) (o : Option Oid) (hg : InsGuard c s p o) (hoid : o ≠ some 0) :
    (create c p o s).2 = .ok () ∧ Abs (create c p o s).1 (insertD (pcomps c p) (.file, o) d) := by
  obtain ⟨⟨i, hi⟩, ha, _⟩ := refine_makeNode g hc habs .file p o hg.1 hg.2 hoid _ rfl
  simp only [create, bind_run]
  cases h : makeNode c .file p o s with
  | mk t r =>
    rw [h] at hi ha
    simp only at hi ha
    subst hi
    exact ⟨rfl, ha⟩

/-! ### `delete` refines the specification -/

/-- a holder in the view is a reachable node carrying the id -/
theorem holderV_view {s : HC} {o : Oid} {k : Key} (h : HolderV (view s) o k) : ∃ x, res s k = some x ∧ (s.nd x).oid = some o := by
  obtain ⟨t, ht⟩ := h
  obtain ⟨x, hx, he⟩ := view_eq_some ht
  exact ⟨x, hx, by have := congrArg Prod.snd he; simpa [entOf] using this⟩

theorem refine_delete {c : Cfg} (g : CfgGood c) {s : HC} {d : D} (hc : Coherent c s) (habs : Abs s d)
    (hnf : NoFalsyV (view s)) (oid : Option Oid) (path : Option Str) :
    ResAgree (delete c oid path s).2 (specStep c d (.delete oid path)).2 ∧
      Abs (delete c oid path s).1 (specStep c d (.delete oid path)).1 := by
  have hdv := delete_view g hc oid path
  -- the general pattern: the target x at kx (root or not) is removed as rmD kx
  have htarget : ∀ x kx, getNode c s oid path = .ok (some x) → res s kx = some x →
      (delete c oid path s).2 = .ok () ∧ view (delete c oid path s).1 = rmV kx (view s) := by
    intro x kx hx hkx
    have harg : oid.isSome ∨ path.isSome := by
      cases oid with
      | some o => exact Or.inl rfl
      | none =>
        cases path with
        | some p => exact Or.inr rfl
        | none => simp [getNode] at hx
    refine ⟨delete_total g hc oid path harg, ?_⟩
    by_cases hx0 : x = 0
    · subst hx0
      rw [hc.res_root hkx]
      exact delete_root_view g hc hnf oid path hx
    · exact funext (hdv.1 x kx hx hkx hx0)
  cases oid with
  | some o =>
    obtain ⟨r, hr, hr1, hr2⟩ := hc.getNode_oid o path
    simp only [specStep]
    cases hh : holderD d o with
    | some kx =>
      simp only
      obtain ⟨x, hx, hox⟩ := holderV_view (habs ▸ holderD_some hh)
      have h0 : o ≠ 0 := fun e => by
        subst e
        exact hnf kx (s.nd x).type (by rw [view_some hx]; simp [entOf, hox])
      have hrx := hr2 h0 x ⟨_, hx⟩ hox
      obtain ⟨a1, a2⟩ := htarget x kx (by rw [hr, hrx]) hx
      exact ⟨a1, by unfold Abs; rw [dlook_rmD, habs, a2]⟩
    | none =>
      simp only
      have hnone : r = none := by
        cases r with
        | none => rfl
        | some x =>
          exfalso
          obtain ⟨⟨kx, hkx⟩, hox⟩ := hr1 x rfl
          exact holderD_none hh kx ⟨(s.nd x).type, by rw [habs, view_some hkx]; simp [entOf, hox]⟩
      have hsame := hdv.2 (fun x hx => by rw [hr, hnone] at hx; simp at hx)
      refine ⟨?_, by rw [hsame]; exact habs⟩
      exact delete_total g hc (some o) path (Or.inl rfl)
  | none =>
    cases path with
    | none =>
      simp only [specStep]
      have hrun : delete c none none s = deleteRec c (s.heap.length + 1) none none s := by simp [delete, bind_run]
      rw [hrun, deleteRec_succ]
      simp only [getNode]
      exact ⟨rfl, habs⟩
    | some p =>
      simp only [specStep]
      have hlk := getNode_path g s p
      rw [pcomps_eq g]
      cases hx : res s (tcomps c p) with
      | some x =>
        have hsome : (dlook d (tcomps c p)).isSome = true := by rw [habs, view_some hx]; rfl
        rw [if_pos hsome]
        obtain ⟨a1, a2⟩ := htarget x _ (by rw [hlk, hx]) hx
        exact ⟨a1, by unfold Abs; rw [dlook_rmD, habs, a2]⟩
      | none =>
        have hnone : (dlook d (tcomps c p)).isSome = false := by rw [habs, view_none hx]; rfl
        rw [if_neg (by rw [hnone]; simp)]
        have hsame := hdv.2 (fun x hx' => by rw [hlk, hx] at hx'; simp at hx')
        exact ⟨delete_total g hc none (some p) (Or.inr rfl), by rw [hsame]; exact habs⟩

end CS.HCache
