import Csverif.Proofs.HCache.RefineRen
/- C19 helper lemmas, part 18: `set_oid` and `update` refine the specification. -/
namespace CS.HCache
open CS.Path CS.HDict
set_option linter.unusedSimpArgs false
set_option linter.unusedVariables false

/-- `_check` of a parentless non-root node: no assertion, `full_path()` is None -/
theorem checkFull_parentless (c : Cfg) (s : HC) (n : Nat) (hp : (s.nd n).parent = none) (hr : (s.nd n).isRoot = false) :
    checkFull c n s = (s, .ok ()) := by
  have hck : checkOk s n = true := by simp [checkOk, hp]
  have hfp : fullPath c s n = .ok none := by
    simp [fullPath, fullPathNodes, hck, hp, hr]
  simp only [checkFull, bind_run, check, hck, if_true, fullPathM_run, hfp]

/-- nodes below a node whose parent link has been cut (in a state that otherwise kept their parent links or
    cut them, and kept their ids): `_check` passes and `full_path()` is None -/
theorem check_detached {c : Cfg} {s s' : HC} {kx : List Str} {x : Nat} (hc : Coherent c s)
    (hx : res s kx = some x) (hx0 : x ≠ 0) (hlen : s.heap.length ≤ s'.heap.length)
    (hpar : ∀ r m, res s (kx ++ r) = some m → (s'.nd m).parent = (s.nd m).parent ∨ (s'.nd m).parent = none)
    (hoid : ∀ r m, res s (kx ++ r) = some m → (s'.nd m).oid = (s.nd m).oid)
    (hxpar : (s'.nd x).parent = none)
    (hnr : ∀ r m, res s (kx ++ r) = some m → (s'.nd m).isRoot = false) :
    ∀ r n, res s (kx ++ r) = some n → fullPath c s' n = .ok none ∧ checkFull c n s' = (s', .ok ()) := by
  have hck : ∀ r n, res s (kx ++ r) = some n → checkOk s' n = true := by
    intro r n hn
    rcases hpar r n hn with a | a
    · rcases List.eq_nil_or_concat r with rfl | ⟨r', k, rfl⟩
      · rw [List.append_nil, hx] at hn; cases hn
        simp [checkOk, hxpar]
      · rw [List.concat_eq_append, ← List.append_assoc] at hn
        obtain ⟨p', hp', hk⟩ := res_snoc_some hn
        have l := hc.link ⟨_, hp'⟩ (dget_mem hk)
        have hne := hc.child_ne hp' hk
        have hn' : res s (kx ++ (r' ++ [k])) = some n := by rw [← List.append_assoc]; exact hn
        simp only [checkOk, a, l.2.1, hoid _ n hn', hoid r' p' hp']
        rcases l.2.2.2.2.2 with h1 | h1
        · simp [h1, hne]
        · simp [h1, hne]
    · simp [checkOk, a]
  have key : ∀ r n, res s (kx ++ r) = some n → ∀ f seen, r.length < f →
      ∃ h t, fullPathNodes s' f n seen = .ok (h :: t) ∧ (s'.nd h).isRoot = false := by
    intro r
    induction r using snoc_induction with
    | hnil =>
      intro n hn f seen hf
      have hn' := hn
      rw [List.append_nil, hx] at hn'; cases hn'
      cases f with
      | zero => omega
      | succ f =>
        refine ⟨x, seen, ?_, hnr [] x hn⟩
        simp [fullPathNodes, hck [] x hn, hxpar]
    | hsnoc r' k ih =>
      intro n hn f seen hf
      have hn2 := hn
      rw [← List.append_assoc] at hn2
      obtain ⟨p', hp', hk⟩ := res_snoc_some hn2
      cases f with
      | zero => omega
      | succ f =>
        simp only [List.length_append, List.length_singleton] at hf
        simp only [fullPathNodes, hck _ n hn, Bool.not_true, Bool.false_eq_true, if_false]
        rcases hpar _ n hn with a | a
        · rw [a, (hc.link ⟨_, hp'⟩ (dget_mem hk)).2.1]
          exact ih p' hp' f _ (by omega)
        · rw [a]
          exact ⟨n, seen, rfl, hnr _ n hn⟩
  intro r n hn
  have hfuel : r.length < s'.heap.length + 1 := by
    have := hc.depth_lt hn
    simp at this; omega
  obtain ⟨h, t, hl, hr⟩ := key r n hn _ [] hfuel
  have hfp : fullPath c s' n = .ok none := by simp [fullPath, hl, hr]
  refine ⟨hfp, ?_⟩
  simp only [checkFull, bind_run, check, hck r n hn, if_true, fullPathM_run, hfp]

theorem res_assign {c : Cfg} {s : HC} (hc : Coherent c s) {n : Nat} (hnr : Reach s n) (o : Oid) (q : Key) :
    res ({ s.setNd n { s.nd n with oid := some o } with idmap := dset s.idmap o n } : HC) q = res s q := by
  have hnlt := hc.valid hnr
  exact res_congr_reach (fun m _ => by
    show ((s.setNd n _).nd m).children = _
    rw [nd_setNd]
    by_cases e : n = m
    · subst e; simp [hnlt]
    · simp [e]) q

/-- the view after writing an id into a reachable id-less node -/
theorem view_assign {c : Cfg} {s : HC} (hc : Coherent c s) {kn : Key} {n : Nat} (hn : res s kn = some n) (o : Oid) :
    view ({ s.setNd n { s.nd n with oid := some o } with idmap := dset s.idmap o n } : HC) =
      putV kn ((s.nd n).type, some o) (view s) := by
  have hnlt := hc.valid ⟨_, hn⟩
  have hnd : ∀ m, ({ s.setNd n { s.nd n with oid := some o } with idmap := dset s.idmap o n } : HC).nd m =
      if m = n then { s.nd n with oid := some o } else s.nd m := by
    intro m
    show (s.setNd n _).nd m = _
    rw [nd_setNd]
    by_cases e : n = m
    · subst e; simp [hnlt]
    · simp [e, Ne.symm e]
  have hres : ∀ q, res ({ s.setNd n { s.nd n with oid := some o } with idmap := dset s.idmap o n } : HC) q = res s q :=
    res_congr_reach (fun m _ => by rw [hnd]; split
                                   · next e => subst e; rfl
                                   · rfl)
  funext q
  simp only [view, hres, putV]
  by_cases hq : q = kn
  · subst hq
    rw [if_pos rfl, hn]
    simp [entOf, hnd]
  · rw [if_neg hq]
    cases hr : res s q with
    | none => rfl
    | some m =>
      have : m ≠ n := fun e => hq (hc.res_inj (e ▸ hr) hn)
      simp [entOf, hnd, this]

/-- **the view after `_set_oid`** on the reachable non-root node `n` whose id differs from `o` -/
theorem setOidNode_view {c : Cfg} (g : CfgGood c) {s : HC} {n : Nat} {kn : Key} {o : Oid} (hc : Coherent c s)
    (hn : res s kn = some n) (hne : kn ≠ []) (h0 : o ≠ 0) (hroot : (s.nd 0).oid ≠ some o) (hcond : (s.nd n).oid ≠ some o) :
    ∀ out, setOidNode c n o s = out →
      out.2 = .ok () ∧ checkFull c n out.1 = (out.1, .ok ()) ∧ Coherent c out.1 ∧
      ∃ v1 : V, (∀ kx, HolderV (view s) o kx → v1 = rmV kx (view s)) ∧ ((∀ k, ¬ HolderV (view s) o k) → v1 = view s) ∧
        (((s.nd n).oid = none ∧ (v1 kn).isSome = true) → view out.1 = putV kn ((s.nd n).type, some o) v1) ∧
        (¬ ((s.nd n).oid = none ∧ (v1 kn).isSome = true) →
          ∃ W, EvictV v1 kn (some o) W ∧
            view out.1 = graftV kn (leafV ((s.nd n).type, some o)) (ensureV kn.dropLast W)) := by
  intro out hout
  rw [setOidNode_run, if_neg hcond] at hout
  simp only [hc.fullPath g hn] at hout
  have htot := delete_total g hc (some o) none (Or.inl rfl)
  have hdspec := delete_spec g s (some o) none hc
  have hdv := delete_view g hc (some o) none
  obtain ⟨r, hr, hr1, hr2⟩ := hc.getNode_oid o none
  cases hrun : delete c (some o) none s with
  | mk s1 r1 =>
    rw [hrun] at htot hout hdspec hdv
    simp only at htot hdv
    subst htot
    obtain ⟨dp, e2, e3, _⟩ := hdspec
    simp only at dp e2 e3 hout
    have hgone := delete_oid_gone g hc h0 hroot hrun rfl
    have hk := hc.ksOk hn
    have hroot1 : (s1.nd 0).oid ≠ some o := by rw [(dp.fields 0).2.1]; exact hroot
    have hty : (s1.nd n).type = (s.nd n).type := (dp.fields n).1
    have hoidn : (s1.nd n).oid = (s.nd n).oid := (dp.fields n).2.1
    -- the view after the eviction of the previous owner of `o`
    have hv1a : ∀ kx, HolderV (view s) o kx → view s1 = rmV kx (view s) := by
      intro kx hh
      obtain ⟨x, hx, hox⟩ := holderV_view hh
      have hrx := hr2 h0 x ⟨_, hx⟩ hox
      have hx0 : x ≠ 0 := fun e => hroot (e ▸ hox)
      exact funext (hdv.1 x kx (by rw [hr, hrx]) hx hx0)
    have hv1b : (∀ k, ¬ HolderV (view s) o k) → view s1 = view s := by
      intro hno
      have hnone : r = none := by
        cases r with
        | none => rfl
        | some x =>
          exfalso
          obtain ⟨⟨kx, hkx⟩, hox⟩ := hr1 x rfl
          exact hno kx ⟨(s.nd x).type, by rw [view_some hkx]; simp [entOf, hox]⟩
      rw [hdv.2 (fun x hx => by rw [hr, hnone] at hx; simp at hx)]
    -- is the node still in place?
    have hsome_iff : (view s1 kn).isSome = true ↔ res s1 kn = some n := by
      constructor
      · intro h
        cases hx : res s1 kn with
        | none => rw [view_none hx] at h; simp at h
        | some m =>
          rcases dp.shrink kn with a | a
          · rw [a] at hx; simp at hx
          · rw [a, hn] at hx; exact hx.symm
      · intro h; rw [view_some h]; rfl
    -- when the node is no longer in place, it went away with the evicted owner, an ancestor
    have hB : res s1 kn ≠ some n → ∃ x kx, res s kx = some x ∧ kx <+: kn ∧ x ≠ 0 ∧ (s1.nd x).parent = none ∧
        (∀ q, kx <+: q → res s1 q = none) := by
      intro hnot
      cases r with
      | none =>
        exfalso; apply hnot
        rw [e3 (fun y hy => by rw [hr] at hy; simp at hy)]; exact hn
      | some x =>
        obtain ⟨⟨kx, hkx⟩, hox⟩ := hr1 x rfl
        have hx0 : x ≠ 0 := fun e => hroot (e ▸ hox)
        obtain ⟨a1, a2, a3⟩ := e2 x kx hr hkx
        refine ⟨x, kx, hkx, ?_, hx0, a3 trivial hx0, a2 trivial hx0⟩
        exact Classical.byContradiction (fun hp => hnot (by rw [a1 kn hp]; exact hn))
    -- `_check` of nodes that went away with the evicted owner, in s1 or any later state that left them alone
    have hdet : ∀ t', (∀ m, m < s1.heap.length → ¬ Reach s1 m → t'.nd m = s1.nd m) → s1.heap.length ≤ t'.heap.length →
        res s1 kn ≠ some n → fullPath c t' n = .ok none ∧ checkFull c n t' = (t', .ok ()) := by
      intro t' hframe hlen hnot
      obtain ⟨x, kx, hkx, ⟨r', hr'⟩, hx0, hxp, hgone'⟩ := hB hnot
      have hunr : ∀ rr m, res s (kx ++ rr) = some m → t'.nd m = s1.nd m := by
        intro rr m hm
        apply hframe m (by rw [dp.len]; exact hc.valid ⟨_, hm⟩)
        rintro ⟨q, hq⟩
        rcases dp.shrink q with a | a
        · rw [a] at hq; simp at hq
        · rw [a] at hq
          have := hc.res_inj hq hm
          subst this
          rw [hgone' _ (List.prefix_append _ _)] at a
          rw [hm] at a; simp at a
      have hnroot : ∀ rr m, res s (kx ++ rr) = some m → (s.nd m).isRoot = false := by
        intro rr m hm
        have hne' : kx ++ rr ≠ [] := by
          intro e
          have : kx = [] := (List.append_eq_nil_iff.1 e).1
          rw [this] at hkx; simp at hkx; exact hx0 hkx.symm
        obtain ⟨i', k', hk'⟩ := snoc_of_ne_nil hne'
        rw [hk'] at hm
        obtain ⟨p', hp', hkk⟩ := res_snoc_some hm
        exact (hc.link ⟨_, hp'⟩ (dget_mem hkk)).2.2.2.1
      exact check_detached hc hkx hx0 (by rw [← dp.len]; exact hlen)
        (fun rr m hm => by rw [hunr rr m hm]; exact dp.parents m)
        (fun rr m hm => by rw [hunr rr m hm]; exact (dp.fields m).2.1)
        (by rw [hunr [] x (by simpa using hkx)]; exact hxp)
        (fun rr m hm => by rw [hunr rr m hm, (dp.fields m).2.2.2]; exact hnroot rr m hm)
        r' n (by rw [hr']; exact hn)
    have hnroot_n : (s1.nd n).isRoot = false := by
      rw [(dp.fields n).2.2.2]
      obtain ⟨i', k', hk'⟩ := snoc_of_ne_nil hne
      rw [hk'] at hn
      obtain ⟨p', hp', hkk⟩ := res_snoc_some hn
      exact (hc.link ⟨_, hp'⟩ (dget_mem hkk)).2.2.2.1
    -- the re-make branch
    have hmake : ∀ out', (match makeNode c (s1.nd n).type (canon c.sep kn) (some o) s1 with
            | (t, Except.error e) => ((t, Except.error e) : HC × Except Err Unit)
            | (t, Except.ok _) => (t, Except.ok ())) = out' →
          out'.2 = .ok () ∧ checkFull c n out'.1 = (out'.1, .ok ()) ∧ Coherent c out'.1 ∧
          ∃ W, EvictV (view s1) kn (some o) W ∧
            view out'.1 = graftV kn (leafV ((s.nd n).type, some o)) (ensureV kn.dropLast W) := by
      intro out' ho'
      have hm := makeNode_spec g dp.coh (s1.nd n).type (canon c.sep kn) (some o)
        (by rw [tcomps_canon g hk]; exact hne) (fun o' ho'' _ => by cases ho''; exact hroot1) _ rfl
      rw [tcomps_canon g hk] at hm
      cases hmk : makeNode c (s1.nd n).type (canon c.sep kn) (some o) s1 with
      | mk t r' =>
        rw [hmk] at hm ho'
        obtain ⟨hct, hsucc, _, _, hview, htot', hframe, htgt⟩ := hm
        simp only at hct hsucc hview htot' hframe htgt
        obtain ⟨i, hi⟩ := htot' (by intro e; exact h0 (by cases e; rfl))
        subst hi
        simp only at ho'; subst ho'
        obtain ⟨W, hW, hv⟩ := hview i rfl
        have hlen : s1.heap.length ≤ t.heap.length := by
          have := hct.valid ⟨_, (hsucc i rfl).1⟩
          rw [(hsucc i rfl).2.2.2.2] at this; omega
        refine ⟨rfl, ?_, hct, W, hW, by rw [hv, hty]⟩
        by_cases hA : res s1 kn = some n
        · obtain ⟨b1, b2⟩ := htgt i rfl n hA
          exact checkFull_parentless c t n b1 (by rw [b2]; exact hnroot_n)
        · exact (hdet t hframe hlen hA).2
    have hfinal : out.2 = .ok () ∧ checkFull c n out.1 = (out.1, .ok ()) ∧ Coherent c out.1 ∧
        (((s.nd n).oid = none ∧ (view s1 kn).isSome = true) → view out.1 = putV kn ((s.nd n).type, some o) (view s1)) ∧
        (¬ ((s.nd n).oid = none ∧ (view s1 kn).isSome = true) →
          ∃ W, EvictV (view s1) kn (some o) W ∧
            view out.1 = graftV kn (leafV ((s.nd n).type, some o)) (ensureV kn.dropLast W)) := by
      cases ho : (s1.nd n).oid with
      | none =>
        rw [ho] at hout
        simp only at hout
        have hon : (s.nd n).oid = none := by rw [← hoidn]; exact ho
        by_cases hA : res s1 kn = some n
        · simp only [dp.coh.fullPath g hA, Option.isSome_some] at hout
          have hck : checkOk s1 n = true := dp.coh.checkOk ⟨_, hA⟩
          rw [hck] at hout
          simp only [if_true] at hout
          subst hout
          have hcA := dp.coh.assignOid ⟨kn, hA⟩ ho h0 hgone
          have hreach : Reach ({ s1.setNd n { s1.nd n with oid := some o } with idmap := dset s1.idmap o n } : HC) n :=
            ⟨kn, by rw [res_assign dp.coh ⟨kn, hA⟩]; exact hA⟩
          refine ⟨rfl, checkFull_ok g hcA hreach, hcA, fun _ => ?_, fun hnot => absurd ⟨hon, hsome_iff.2 hA⟩ hnot⟩
          show view ({ s1.setNd n { s1.nd n with oid := some o } with idmap := dset s1.idmap o n } : HC) = _
          rw [view_assign dp.coh hA o, hty]
        · have hfp := (hdet s1 (fun _ _ _ => rfl) (Nat.le_refl _) hA).1
          simp only [hfp, Option.isSome_none] at hout
          obtain ⟨a, b, c', W, hW, hv⟩ := hmake _ hout
          exact ⟨a, b, c', fun hcond' => absurd (hsome_iff.1 hcond'.2) hA, fun _ => ⟨W, hW, hv⟩⟩
      | some o1 =>
        rw [ho] at hout
        simp only at hout
        obtain ⟨a, b, c', W, hW, hv⟩ := hmake _ hout
        have hon : (s.nd n).oid ≠ none := by rw [← hoidn, ho]; simp
        exact ⟨a, b, c', fun hcond' => absurd hcond'.1 hon, fun _ => ⟨W, hW, hv⟩⟩
    exact ⟨hfinal.1, hfinal.2.1, hfinal.2.2.1, view s1, hv1a, hv1b, hfinal.2.2.2.1, hfinal.2.2.2.2⟩

end CS.HCache

namespace CS.HCache
open CS.Path CS.HDict
set_option linter.unusedSimpArgs false
set_option linter.unusedVariables false

/-- `_set_oid` refines `setOidD` -/
theorem refine_setOidNode {c : Cfg} (g : CfgGood c) {s : HC} {d : D} (hc : Coherent c s) (habs : Abs s d)
    {n : Nat} {kn : Key} {o : Oid} (hn : res s kn = some n) (hne : kn ≠ []) (h0 : o ≠ 0) (hroot : (s.nd 0).oid ≠ some o) :
    ∀ out, setOidNode c n o s = out →
      out.2 = .ok () ∧ checkFull c n out.1 = (out.1, .ok ()) ∧ Coherent c out.1 ∧
      Abs out.1 (setOidD kn (s.nd n).type (s.nd n).oid o d) := by
  intro out hout
  by_cases hcond : (s.nd n).oid = some o
  · rw [setOidNode_run, if_pos hcond] at hout
    subst hout
    refine ⟨rfl, checkFull_ok g hc ⟨_, hn⟩, hc, ?_⟩
    simp only [setOidD, hcond, if_true]
    exact habs
  · obtain ⟨a1, a2, a3, v1, hv1a, hv1b, hput, hmk⟩ := setOidNode_view g hc hn hne h0 hroot hcond out hout
    refine ⟨a1, a2, a3, ?_⟩
    simp only [setOidD, if_neg hcond]
    -- the dictionary after the eviction of the previous owner
    have hd1 : dlook (evictOidD o d) = v1 := by
      unfold evictOidD
      cases hh : holderD d o with
      | some kx => simp only; rw [dlook_rmD, habs, hv1a kx (habs ▸ holderD_some hh)]
      | none => simp only; rw [habs, hv1b (fun k => habs ▸ holderD_none hh k)]
    by_cases hc' : (s.nd n).oid = none ∧ (v1 kn).isSome = true
    · rw [if_pos (by rw [hd1]; exact hc')]
      unfold Abs
      rw [dlook_putD, hd1, hput hc']
    · rw [if_neg (by rw [hd1]; exact hc')]
      obtain ⟨W, hW, hv⟩ := hmk hc'
      unfold Abs
      rw [hv]
      exact dlook_insertD hne hW hd1

theorem refine_setOid {c : Cfg} (g : CfgGood c) {s : HC} {d : D} (hc : Coherent c s) (habs : Abs s d)
    (p : Str) (oid : Option Oid) (t : OType) (hg : InsGuard c s p oid) :
    ResAgree (setOid c p oid t s).2 (specStep c d (.setOid p oid t)).2 ∧
      Abs (setOid c p oid t s).1 (specStep c d (.setOid p oid t)).1 ∧ Coherent c (setOid c p oid t s).1 := by
  rw [setOid_run]
  simp only [specStep]
  by_cases hcond : (!truthy oid || p.isEmpty) = true
  · rw [if_pos hcond, if_pos hcond]; exact ⟨rfl, habs, hc⟩
  · rw [if_neg hcond, if_neg hcond]
    cases oid with
    | none => exact ⟨rfl, habs, hc⟩
    | some o =>
      have h0 : o ≠ 0 := by
        intro e; subst e; simp [truthy] at hcond
      simp only [getNode_path g, pcomps_eq g]
      cases hr : res s (tcomps c p) with
      | some n =>
        have hd : dlook d (tcomps c p) = some ((s.nd n).type, (s.nd n).oid) := by rw [habs, view_some hr]; rfl
        rw [hd]
        simp only
        obtain ⟨a1, _, a3, a4⟩ := refine_setOidNode g hc habs hr hg.1 h0 (hg.2 o rfl h0) _ rfl
        exact ⟨a1, a4, a3⟩
      | none =>
        have hd : dlook d (tcomps c p) = none := by rw [habs, view_none hr]
        rw [hd]
        simp only
        obtain ⟨⟨i, hi⟩, ha, hct⟩ := refine_makeNode g hc habs t p (some o) hg.1 hg.2
          (by intro e; exact h0 (by cases e; rfl)) _ rfl
        rw [pcomps_eq g] at ha
        cases hmk : makeNode c t p (some o) s with
        | mk t' r =>
          rw [hmk] at hi ha hct
          simp only at hi ha hct
          subst hi
          exact ⟨rfl, ha, hct⟩

theorem refine_update {c : Cfg} (g : CfgGood c) {s : HC} {d : D} (hc : Coherent c s) (habs : Abs s d)
    (p : Str) (t : OType) (oid : Option Oid) (hg : InsGuard c s p oid) (hoid : oid ≠ some 0) :
    (update c p t oid s).2 = .ok () ∧ Abs (update c p t oid s).1 (specStep c d (.update p t oid)).1 ∧
      Coherent c (update c p t oid s).1 := by
  rw [update_run, getNode_path g]
  simp only [specStep, pcomps_eq g]
  -- `__make_node` followed by `_check(new node)`
  have hmake : ∀ s' d', Coherent c s' → Abs s' d' → (∀ o', oid = some o' → o' ≠ 0 → (s'.nd 0).oid ≠ some o') →
      ((match makeNode c t p oid s' with
        | (t', Except.error e) => ((t', Except.error e) : HC × Except Err Unit)
        | (t', Except.ok i) => checkFull c i t').2 = .ok ()) ∧
      Abs (match makeNode c t p oid s' with
        | (t', Except.error e) => ((t', Except.error e) : HC × Except Err Unit)
        | (t', Except.ok i) => checkFull c i t').1 (insertD (tcomps c p) (t, oid) d') ∧
      Coherent c (match makeNode c t p oid s' with
        | (t', Except.error e) => ((t', Except.error e) : HC × Except Err Unit)
        | (t', Except.ok i) => checkFull c i t').1 := by
    intro s' d' hc' habs' hr'
    obtain ⟨⟨i, hi⟩, ha, hct⟩ := refine_makeNode g hc' habs' t p oid hg.1 hr' hoid _ rfl
    have hsucc := (makeNode_spec g hc' t p oid hg.1 hr' _ rfl).2.1
    rw [pcomps_eq g] at ha
    cases hmk : makeNode c t p oid s' with
    | mk t' r =>
      rw [hmk] at hi ha hct hsucc
      simp only at hi ha hct hsucc
      subst hi
      simp only
      rw [checkFull_ok g hct ⟨_, (hsucc i rfl).1⟩]
      exact ⟨rfl, ha, hct⟩
  cases hr : res s (tcomps c p) with
  | none =>
    have hd : dlook d (tcomps c p) = none := by rw [habs, view_none hr]
    rw [hd]
    exact hmake s d hc habs hg.2
  | some n =>
    have hd : dlook d (tcomps c p) = some ((s.nd n).type, (s.nd n).oid) := by rw [habs, view_some hr]; rfl
    rw [hd]
    simp only
    by_cases ht : (s.nd n).type ≠ t
    · rw [if_pos ht, if_pos ht]
      obtain ⟨init, a, hk⟩ := snoc_of_ne_nil hg.1
      have hr' := hr
      rw [hk] at hr'
      obtain ⟨pp, hp, hkk⟩ := res_snoc_some hr'
      have dd : DelCtx c s init a pp n := ⟨g, hc, hp, hkk⟩
      rw [deleteNode_ctx dd]
      simp only
      exact hmake _ (rmD (tcomps c p) d) dd.coherent_detach
        (by unfold Abs; rw [dlook_rmD, habs, hk, dd.view_detach])
        (fun o' ho' h0' => by rw [(dd.delPost.fields 0).2.1]; exact hg.2 o' ho' h0')
    · rw [if_neg ht, if_neg ht]
      simp only
      by_cases hto : truthy oid = true
      · rw [if_pos hto, if_pos hto]
        cases oid with
        | none => simp [truthy] at hto
        | some o =>
          have h0 : o ≠ 0 := by intro e; subst e; simp [truthy] at hto
          simp only
          obtain ⟨a1, a2, a3, a4⟩ := refine_setOidNode g hc habs hr hg.1 h0 (hg.2 o rfl h0) _ rfl
          cases hrun : setOidNode c n o s with
          | mk t' r' =>
            rw [hrun] at a1 a2 a3 a4
            simp only at a1 a2 a3 a4
            subst a1
            simp only
            rw [a2]
            exact ⟨rfl, a4, a3⟩
      · rw [if_neg hto, if_neg hto]
        simp only [pure_run]
        rw [checkFull_ok g hc ⟨_, hr⟩]
        exact ⟨rfl, habs, hc⟩

end CS.HCache
