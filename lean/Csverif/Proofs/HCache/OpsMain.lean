import Csverif.Proofs.HCache.Ops
/- C19 helper lemmas, part 12: every public operation preserves coherence under its guard. -/
namespace CS.HCache
open CS.Path
set_option linter.unusedSimpArgs false
set_option linter.unusedVariables false

theorem setOid_run (c : Cfg) (path : Str) (oid : Option Oid) (otype : OType) (s : HC) :
    setOid c path oid otype s =
      if (!truthy oid || path.isEmpty) = true then (s, .error .assertion) else
        match oid with
        | none => (s, .error .assertion)
        | some o =>
          match getNode c s none (some path) with
          | .error e => (s, .error e)
          | .ok (some n) => setOidNode c n o s
          | .ok none =>
            match makeNode c otype path (some o) s with
            | (t, .error e) => (t, .error e)
            | (t, .ok _) => (t, .ok ()) := by
  simp only [setOid]
  split
  · rfl
  · cases oid with
    | none => rfl
    | some o =>
      simp only [bind_run, getNodeM_run]
      cases getNode c s none (some path) with
      | error e => rfl
      | ok r =>
        cases r with
        | some n => rfl
        | none =>
          simp only [bind_run]
          cases makeNode c otype path (some o) s with
          | mk t r => cases r <;> rfl

theorem update_run (c : Cfg) (path : Str) (otype : OType) (oid : Option Oid) (s : HC) :
    update c path otype oid s =
      match getNode c s none (some path) with
      | .error e => (s, .error e)
      | .ok r =>
        let afterDel : HC × Except Err (Option Nat) :=
          match r with
          | some n =>
            if (s.nd n).type ≠ otype then
              match deleteNode c (some n) s with
              | (t, .error e) => (t, .error e)
              | (t, .ok _) => (t, .ok none)
            else (s, .ok (some n))
          | none => (s, .ok none)
        match afterDel with
        | (t, .error e) => (t, .error e)
        | (t, .ok none) =>
          match makeNode c otype path oid t with
          | (t', .error e) => (t', .error e)
          | (t', .ok i) => checkFull c i t'
        | (t, .ok (some n)) =>
          match (if truthy oid then
                  match oid with
                  | some o => setOidNode c n o
                  | none => pure ()
                else pure ()) t with
          | (t', .error e) => (t', .error e)
          | (t', .ok _) => checkFull c n t' := by
  simp only [update, bind_run, getNodeM_run, getS_run]
  cases getNode c s none (some path) with
  | error e => rfl
  | ok r =>
    simp only
    cases r with
    | none =>
      simp only [pure_run, bind_run]
      cases makeNode c otype path oid s with
      | mk t' r' => cases r' <;> rfl
    | some n =>
      simp only
      by_cases ht : (s.nd n).type ≠ otype
      · simp only [ht, if_true, ne_eq, not_false_eq_true, bind_run]
        cases deleteNode c (some n) s with
        | mk t r =>
          cases r with
          | error e => rfl
          | ok _ =>
            simp only [pure_run, bind_run]
            cases makeNode c otype path oid t with
            | mk t' r' => cases r' <;> rfl
      · simp only [ht, if_false, pure_run, bind_run]
        cases (if truthy oid then
                  match oid with
                  | some o => setOidNode c n o
                  | none => pure ()
                else pure () : M Unit) s with
        | mk t' r' => cases r' <;> rfl

theorem rename_run (c : Cfg) (old new : Str) (s : HC) :
    rename c old new s =
      match getNode c s none (some old) with
      | .error e => (s, .error e)
      | .ok none => delete c none (some new) s
      | .ok (some n) =>
        if (s.nd n).isRoot then (s, .error .value) else
          match deleteNode c (some n) s with
          | (s1, .error e) => (s1, .error e)
          | (s1, .ok _) =>
            match delete c none (some new) s1 with
            | (s2, .error e) => (s2, .error e)
            | (s2, .ok _) =>
              match insert c n (normalizePath c new false) s2 with
              | (s3, .error e) => (s3, .error e)
              | (s3, .ok _) => checkFull c n s3 := by
  simp only [rename, bind_run, getNodeM_run, getS_run]
  cases getNode c s none (some old) with
  | error e => rfl
  | ok r =>
    cases r with
    | none => rfl
    | some n =>
      simp only
      split
      · rfl
      · simp only [bind_run]
        cases deleteNode c (some n) s with
        | mk s1 r1 =>
          cases r1 with
          | error e => rfl
          | ok _ =>
            simp only
            cases delete c none (some new) s1 with
            | mk s2 r2 =>
              cases r2 with
              | error e => rfl
              | ok _ =>
                simp only
                cases insert c n (normalizePath c new false) s2 with
                | mk s3 r3 => cases r3 <;> rfl

/-- guard of an id-assigning operation: the target is not the root and the id is not the root's id -/
def InsGuard (c : Cfg) (s : HC) (path : Str) (oid : Option Oid) : Prop :=
  tcomps c path ≠ [] ∧ ∀ o, oid = some o → o ≠ 0 → (s.nd 0).oid ≠ some o

/-- guard of the coherence theorem, per operation -/
def OpGuard (c : Cfg) (s : HC) : Op → Prop
  | .mkdir p o => InsGuard c s p o
  | .create p o => InsGuard c s p o
  | .delete _ _ => True
  | .rename _ new => tcomps c new ≠ []
  | .setOid p o _ => InsGuard c s p o
  | .update p _ o => InsGuard c s p o

theorem insertSafe_iff {c : Cfg} (g : CfgGood c) (s : HC) (p : Str) (oid : Option Oid) :
    insertSafe c s p oid = true ↔ InsGuard c s p oid := by
  simp only [insertSafe, pcomps_eq g, InsGuard, Bool.and_eq_true, Bool.not_eq_true', List.isEmpty_eq_false_iff]
  constructor
  · rintro ⟨h1, h2⟩
    refine ⟨h1, fun o ho h0 => ?_⟩
    subst ho
    cases o with
    | zero => exact absurd rfl h0
    | succ k => simpa using h2
  · rintro ⟨h1, h2⟩
    refine ⟨h1, ?_⟩
    cases oid with
    | none => rfl
    | some o =>
      cases o with
      | zero => rfl
      | succ k => simpa using h2 _ rfl (by simp)

/-- the executable guard the driver evaluates is the guard of the theorem -/
theorem opSafe_iff {c : Cfg} (g : CfgGood c) (s : HC) (op : Op) : opSafe c s op = true ↔ OpGuard c s op := by
  cases op with
  | mkdir p o => exact insertSafe_iff g s p o
  | create p o => exact insertSafe_iff g s p o
  | delete o p => simp [opSafe, OpGuard]
  | rename a b => simp [opSafe, OpGuard, pcomps_eq g]
  | setOid p o t => exact insertSafe_iff g s p o
  | update p t o => exact insertSafe_iff g s p o

theorem mkdir_coherent {c : Cfg} (g : CfgGood c) {s : HC} (hc : Coherent c s) (p : Str) (o : Option Oid)
    (hg : InsGuard c s p o) : Coherent c (mkdir c p o s).1 := by
  have := (makeNode_spec g hc .dir p o hg.1 hg.2 _ rfl).1
  simp only [mkdir, bind_run]
  cases h : makeNode c .dir p o s with
  | mk t r => rw [h] at this; cases r <;> exact this

theorem create_coherent {c : Cfg} (g : CfgGood c) {s : HC} (hc : Coherent c s) (p : Str) (o : Option Oid)
    (hg : InsGuard c s p o) : Coherent c (create c p o s).1 := by
  have := (makeNode_spec g hc .file p o hg.1 hg.2 _ rfl).1
  simp only [create, bind_run]
  cases h : makeNode c .file p o s with
  | mk t r => rw [h] at this; cases r <;> exact this

theorem delete_coherent {c : Cfg} (g : CfgGood c) {s : HC} (hc : Coherent c s) (o : Option Oid) (p : Option Str) :
    Coherent c (delete c o p s).1 := (delete_spec g s o p hc).1.coh

/-- `_set_oid` on the reachable non-root node `n` with an id other than the root's -/
theorem setOidNode_spec {c : Cfg} (g : CfgGood c) {s : HC} {n : Nat} {kn : List Str} {o : Oid} (hc : Coherent c s)
    (hn : res s kn = some n) (hne : kn ≠ []) (h0 : o ≠ 0) (hroot : (s.nd 0).oid ≠ some o) :
    ∀ out, setOidNode c n o s = out → Coherent c out.1 ∧ out.2 ≠ .error .fuel := by
  intro out hout
  rw [setOidNode_run] at hout
  by_cases hcond : (s.nd n).oid = some o
  · rw [if_pos hcond] at hout; subst hout; exact ⟨hc, by simp⟩
  · rw [if_neg hcond] at hout
    simp only [hc.fullPath g hn] at hout
    have htot := delete_total g hc (some o) none (Or.inl rfl)
    cases hrun : delete c (some o) none s with
    | mk s1 r1 =>
      rw [hrun] at htot hout
      simp only at htot
      subst htot
      obtain ⟨dp, hgone, hcase⟩ := delete_oid_cases g hc h0 hroot hn hcond hrun
      have hk := hc.ksOk hn
      have hroot1 : (s1.nd 0).oid ≠ some o := by rw [(dp.fields 0).2.1]; exact hroot
      have hmake : ∀ out', (match makeNode c (s1.nd n).type (canon c.sep kn) (some o) s1 with
            | (t, Except.error e) => ((t, Except.error e) : HC × Except Err Unit)
            | (t, Except.ok _) => (t, Except.ok ())) = out' → Coherent c out'.1 ∧ out'.2 ≠ .error .fuel := by
        intro out' ho'
        have hm := makeNode_spec g dp.coh (s1.nd n).type (canon c.sep kn) (some o)
          (by rw [tcomps_canon g hk]; exact hne) (fun o' ho'' _ => by cases ho''; exact hroot1) _ rfl
        cases hmk : makeNode c (s1.nd n).type (canon c.sep kn) (some o) s1 with
        | mk t r =>
          rw [hmk] at hm ho'
          cases r with
          | error e => subst ho'; exact ⟨hm.1, by simpa using hm.2.2.1⟩
          | ok _ => subst ho'; exact ⟨hm.1, by simp⟩
      simp only at hout
      cases ho : (s1.nd n).oid with
      | none =>
        rw [ho] at hout
        simp only at hout
        cases hfp : fullPath c s1 n with
        | error e =>
          rw [hfp] at hout
          simp only at hout; subst hout
          refine ⟨dp.coh, ?_⟩
          have := fullPath_ne_fuel c s1 n
          rw [hfp] at this
          simpa using this
        | ok fp1 =>
          rw [hfp] at hout
          cases fp1 with
          | some p1 =>
            simp only [Option.isSome_some] at hout
            rcases hcase with hn1 | ⟨hbad, _⟩
            · cases hck : checkOk s1 n with
              | false => rw [hck] at hout; simp only [Bool.false_eq_true, if_false] at hout; subst hout; exact ⟨dp.coh, by simp⟩
              | true =>
                rw [hck] at hout; simp only [if_true] at hout; subst hout
                exact ⟨dp.coh.assignOid ⟨kn, hn1⟩ ho h0 hgone, by simp⟩
            · exact absurd hfp (hbad p1)
          | none =>
            simp only [Option.isSome_none] at hout
            exact hmake _ hout
      | some o1 =>
        rw [ho] at hout
        simp only at hout
        exact hmake _ hout

theorem setOidNode_coherent {c : Cfg} (g : CfgGood c) {s : HC} {n : Nat} {kn : List Str} {o : Oid} (hc : Coherent c s)
    (hn : res s kn = some n) (hne : kn ≠ []) (h0 : o ≠ 0) (hroot : (s.nd 0).oid ≠ some o) :
    Coherent c (setOidNode c n o s).1 := (setOidNode_spec g hc hn hne h0 hroot _ rfl).1

theorem setOid_coherent {c : Cfg} (g : CfgGood c) {s : HC} (hc : Coherent c s) (p : Str) (o : Option Oid) (t : OType)
    (hg : InsGuard c s p o) : Coherent c (setOid c p o t s).1 := by
  rw [setOid_run]
  split
  · exact hc
  · cases o with
    | none => exact hc
    | some o' =>
      simp only [getNode_path g]
      have h0 : o' ≠ 0 := by
        intro e; subst e
        rename_i hcond
        simp [truthy] at hcond
      cases hr : res s (tcomps c p) with
      | some n => exact setOidNode_coherent g hc hr hg.1 h0 (hg.2 o' rfl h0)
      | none =>
        simp only
        have hm := (makeNode_spec g hc t p (some o') hg.1 hg.2 _ rfl).1
        cases hmk : makeNode c t p (some o') s with
        | mk t' r => rw [hmk] at hm; cases r <;> exact hm

theorem checkFull_coherent {c : Cfg} {s : HC} (hc : Coherent c s) (i : Nat) : Coherent c (checkFull c i s).1 := by
  rw [checkFull_state]; exact hc

theorem update_coherent {c : Cfg} (g : CfgGood c) {s : HC} (hc : Coherent c s) (p : Str) (t : OType) (o : Option Oid)
    (hg : InsGuard c s p o) : Coherent c (update c p t o s).1 := by
  rw [update_run, getNode_path g]
  simp only
  have hmake : ∀ s', Coherent c s' → (∀ o', o = some o' → o' ≠ 0 → (s'.nd 0).oid ≠ some o') →
      Coherent c (match makeNode c t p o s' with
        | (t', Except.error e) => ((t', Except.error e) : HC × Except Err Unit)
        | (t', Except.ok i) => checkFull c i t').1 := by
    intro s' hc' hf'
    have hm := (makeNode_spec g hc' t p o hg.1 hf' _ rfl).1
    cases hmk : makeNode c t p o s' with
    | mk t' r =>
      rw [hmk] at hm
      cases r with
      | error e => exact hm
      | ok i => exact checkFull_coherent hm i
  cases hr : res s (tcomps c p) with
  | none => exact hmake s hc hg.2
  | some n =>
    simp only
    by_cases ht : (s.nd n).type ≠ t
    · rw [if_pos ht]
      obtain ⟨init, a, hk⟩ := snoc_of_ne_nil hg.1
      rw [hk] at hr
      obtain ⟨pp, hp, hkk⟩ := res_snoc_some hr
      have d : DelCtx c s init a pp n := ⟨g, hc, hp, hkk⟩
      rw [deleteNode_ctx d]
      simp only
      exact hmake _ d.coherent_detach (fun o' ho' h0' => by rw [(d.delPost.fields 0).2.1]; exact hg.2 o' ho' h0')
    · rw [if_neg ht]
      simp only
      have hset : Coherent c ((if truthy o then
                  match o with
                  | some o' => setOidNode c n o'
                  | none => pure ()
                else pure () : M Unit) s).1 := by
        by_cases hto : truthy o = true
        · rw [if_pos hto]
          cases o with
          | none => exact hc
          | some o' =>
            have h0 : o' ≠ 0 := by intro e; subst e; simp [truthy] at hto
            exact setOidNode_coherent g hc hr hg.1 h0 (hg.2 o' rfl h0)
        · rw [if_neg hto]; exact hc
      cases hrun : (if truthy o then
                  match o with
                  | some o' => setOidNode c n o'
                  | none => pure ()
                else pure () : M Unit) s with
      | mk t' r' =>
        rw [hrun] at hset
        cases r' with
        | error e => exact hset
        | ok u => exact checkFull_coherent hset n

theorem rename_coherent {c : Cfg} (g : CfgGood c) {s : HC} (hc : Coherent c s) (old new : Str)
    (hg : tcomps c new ≠ []) : Coherent c (rename c old new s).1 := by
  rw [rename_run, getNode_path g]
  cases hr : res s (tcomps c old) with
  | none => exact delete_coherent g hc none (some new)
  | some n =>
    simp only
    by_cases hroot : (s.nd n).isRoot = true
    · rw [if_pos hroot]; exact hc
    · rw [if_neg hroot]
      have hko : tcomps c old ≠ [] := by
        intro e; rw [e] at hr; simp at hr; subst hr
        exact hroot hc.root_isRoot
      obtain ⟨init, a, hk⟩ := snoc_of_ne_nil hko
      rw [hk] at hr
      obtain ⟨pp, hp, hkk⟩ := res_snoc_some hr
      have d : DelCtx c s init a pp n := ⟨g, hc, hp, hkk⟩
      rw [deleteNode_ctx d]
      simp only
      have hsub1 := d.sub
      have hc1 := d.coherent_detach
      have hd2 := (delete_spec g (detachSt c s pp n a) none (some new) hc1).1
      cases hrun2 : delete c none (some new) (detachSt c s pp n a) with
      | mk s2 r2 =>
        rw [hrun2] at hd2
        simp only at hd2
        cases r2 with
        | error e => exact hd2.coh
        | ok u =>
          simp only
          have hsub2 : Sub c s2 n := hsub1.frame (hd2.frameX (fun _ => False)) (fun _ _ h => h) hd2.idsub
          -- nothing reachable holds the id of the node being moved
          have hfree : ∀ o, (s2.nd n).oid = some o → o ≠ 0 → (s2.nd 0).oid ≠ some o := by
            intro o ho h0 hro
            have e1 : (s.nd 0).oid = some o := by rw [← (d.delPost.fields 0).2.1, ← (hd2.fields 0).2.1]; exact hro
            have e2 : (s.nd n).oid = some o := by rw [← (d.delPost.fields n).2.1, ← (hd2.fields n).2.1]; exact ho
            exact d.n_ne_zero (hc.oid_unique ⟨_, d.hn⟩ (Reach.root s) e2 e1 h0)
          have hins := (insertNode_spec g (tcomps_ok g new) hg hd2.coh hsub2 hfree
            (insFuel (canon c.sep (tcomps c new))) _ rfl).1
          simp only [insert, normalizePath_tcomps g]
          cases hrun3 : insertNode c (insFuel (canon c.sep (tcomps c new))) n (canon c.sep (tcomps c new)) s2 with
          | mk s3 r3 =>
            rw [hrun3] at hins
            cases r3 with
            | error e => exact hins
            | ok u' => exact checkFull_coherent hins n

/-- a successful `rename` of the non-root node `n`: it now sits at the new path with its whole
    subtree, and no node of the subtree changed its id -/
theorem rename_moves {c : Cfg} (g : CfgGood c) {s : HC} (hc : Coherent c s) (old new : Str)
    (hg : tcomps c new ≠ []) {n : Nat} (hn : res s (tcomps c old) = some n) (hroot : (s.nd n).isRoot = false) :
    ∀ out, rename c old new s = out → out.2 = .ok () →
      res out.1 (tcomps c new) = some n ∧ (∀ q, resFrom out.1 n q = resFrom s n q) ∧
      (∀ m, InSub s n m → (out.1.nd m).oid = (s.nd m).oid) := by
  intro out hout hok
  rw [rename_run, getNode_path g, hn] at hout
  simp only [hroot, Bool.false_eq_true, if_false] at hout
  have hko : tcomps c old ≠ [] := by
    intro e; rw [e] at hn; simp at hn; subst hn
    rw [hc.root_isRoot] at hroot; simp at hroot
  obtain ⟨init, a, hk⟩ := snoc_of_ne_nil hko
  rw [hk] at hn
  obtain ⟨pp, hp, hkk⟩ := res_snoc_some hn
  have d : DelCtx c s init a pp n := ⟨g, hc, hp, hkk⟩
  rw [deleteNode_ctx d] at hout
  simp only at hout
  have hsub1 := d.sub
  have hc1 := d.coherent_detach
  have hres1 : ∀ q, resFrom (detachSt c s pp n a) n q = resFrom s n q := fun q =>
    resFrom_congr q n (fun r x hx => by
      rw [d.children_detach]
      have : x ≠ pp := fun e => d.p_not_below r (e ▸ hx)
      simp [this])
  have hd2 := (delete_spec g (detachSt c s pp n a) none (some new) hc1).1
  cases hrun2 : delete c none (some new) (detachSt c s pp n a) with
  | mk s2 r2 =>
    rw [hrun2] at hd2 hout
    simp only at hd2
    cases r2 with
    | error e => simp only at hout; subst hout; simp at hok
    | ok u =>
      simp only at hout
      have hE : ∀ m, InSub (detachSt c s pp n a) n m → ¬ False := fun _ _ h => h
      have hsub2 : Sub c s2 n := hsub1.frame (hd2.frameX (fun _ => False)) hE hd2.idsub
      have hres2 : ∀ q, resFrom s2 n q = resFrom (detachSt c s pp n a) n q :=
        fun q => hsub1.resFrom_frame (hd2.frameX (fun _ => False)) hE q
      have hfree : ∀ o, (s2.nd n).oid = some o → o ≠ 0 → (s2.nd 0).oid ≠ some o := by
        intro o ho h0 hro
        have e1 : (s.nd 0).oid = some o := by rw [← (d.delPost.fields 0).2.1, ← (hd2.fields 0).2.1]; exact hro
        have e2 : (s.nd n).oid = some o := by rw [← (d.delPost.fields n).2.1, ← (hd2.fields n).2.1]; exact ho
        exact d.n_ne_zero (hc.oid_unique ⟨_, d.hn⟩ (Reach.root s) e2 e1 h0)
      have hins := (insertNode_spec g (tcomps_ok g new) hg hd2.coh hsub2 hfree
        (insFuel (canon c.sep (tcomps c new))) _ rfl).2.1
      simp only [insert, normalizePath_tcomps g] at hout
      cases hrun3 : insertNode c (insFuel (canon c.sep (tcomps c new))) n (canon c.sep (tcomps c new)) s2 with
      | mk s3 r3 =>
        rw [hrun3] at hins hout
        cases r3 with
        | error e => simp only at hout; subst hout; simp at hok
        | ok u' =>
          simp only at hout hins
          obtain ⟨a1, a2, _, _, a5⟩ := hins trivial
          have hst := checkFull_state c n s3
          rw [hout] at hst
          rw [hst]
          refine ⟨a1, fun q => by rw [a2, hres2, hres1], fun m hm => ?_⟩
          obtain ⟨r, hr⟩ := hm
          have hm2 : InSub s2 n m := ⟨r, by rw [hres2, hres1]; exact hr⟩
          rw [a5 m hm2, (hd2.fields m).2.1, (d.delPost.fields m).2.1]

theorem tcomps_nil (c : Cfg) : tcomps c [] = [] := by
  have : replaceAlt c [] = [] := replaceAlt_eq_nil.2 rfl
  simp [tcomps, C, this, comps, splitAll, CS.Path.ne]

/-- `set_oid` on a node that already has a different id replaces the node: the replacement carries the
    new id and the old type, has no children, and the ids of all former descendants are forgotten -/
theorem setOid_replace {c : Cfg} (g : CfgGood c) {s : HC} (hc : Coherent c s) (p : Str) (o o1 : Oid) (t : OType) {n : Nat}
    (hn : res s (tcomps c p) = some n) (ho1 : (s.nd n).oid = some o1) (hne : o1 ≠ o) (h0 : o ≠ 0)
    (hg : InsGuard c s p (some o)) :
    ∀ out, setOid c p (some o) t s = out → out.2 = .ok () →
      Coherent c out.1 ∧
      (∃ i, res out.1 (tcomps c p) = some i ∧ (out.1.nd i).oid = some o ∧ (out.1.nd i).type = (s.nd n).type) ∧
      (∀ r, r ≠ [] → res out.1 (tcomps c p ++ r) = none) ∧
      (∀ r m om, r ≠ [] → res s (tcomps c p ++ r) = some m → (s.nd m).oid = some om → om ≠ 0 → om ≠ o →
        dget out.1.idmap om = none) := by
  intro out hout hok
  have hp : p.isEmpty = false := by
    cases p with
    | nil => exact absurd (tcomps_nil c) hg.1
    | cons x xs => rfl
  have ht : truthy (some o) = true := by
    cases o with
    | zero => exact absurd rfl h0
    | succ k => rfl
  have hcond : (s.nd n).oid ≠ some o := by rw [ho1]; intro e; exact hne (Option.some.inj e)
  have hroot := hg.2 o rfl h0
  rw [setOid_run] at hout
  simp only [ht, hp, Bool.not_true, Bool.or_self, Bool.false_eq_true, if_false, getNode_path g, hn] at hout
  rw [setOidNode_run, if_neg hcond] at hout
  simp only [hc.fullPath g hn] at hout
  have htot := delete_total g hc (some o) none (Or.inl rfl)
  cases hrun : delete c (some o) none s with
  | mk s1 r1 =>
    rw [hrun] at htot hout
    simp only at htot
    subst htot
    obtain ⟨dp, _, _⟩ := delete_oid_cases g hc h0 hroot hn hcond hrun
    have ho1' : (s1.nd n).oid = some o1 := by rw [(dp.fields n).2.1]; exact ho1
    have hty : (s1.nd n).type = (s.nd n).type := (dp.fields n).1
    simp only [ho1'] at hout
    have hk := hc.ksOk hn
    have hspec := makeNode_spec g dp.coh (s1.nd n).type (canon c.sep (tcomps c p)) (some o)
      (by rw [tcomps_canon g hk]; exact hg.1)
      (fun o' ho' _ => by cases ho'; rw [(dp.fields 0).2.1]; exact hroot) _ rfl
    cases hmk : makeNode c (s1.nd n).type (canon c.sep (tcomps c p)) (some o) s1 with
    | mk t' r' =>
      rw [hmk] at hspec hout
      obtain ⟨hct, hsucc, _, hkeep, _, _⟩ := hspec
      simp only at hct hsucc hkeep
      cases r' with
      | error e => simp only at hout; subst hout; simp at hok
      | ok i =>
        simp only at hout; subst hout
        obtain ⟨b1, b2, b3, b4, b5⟩ := hsucc i rfl
        rw [tcomps_canon g hk] at b1 b4
        refine ⟨hct, ⟨i, b1, b2, by rw [b3, hty]⟩, b4, fun r m om hr hm hom hom0 homo => ?_⟩
        cases hd : dget t'.idmap om with
        | none => rfl
        | some m' =>
          exfalso
          obtain ⟨⟨q', hq'⟩, hmo, _⟩ := hct.dget_idmap.1 hd
          rcases hkeep q' m' hq' with ⟨k1, k2⟩ | k1 | k1
          · -- m' was reachable before, with the same id: it is the former descendant itself
            have hm's : Reach s m' := dp.reach ⟨q', k1⟩
            have hos : (s.nd m').oid = some om := by rw [← (dp.fields m').2.1, ← k2]; exact hmo
            have := hc.oid_unique hm's ⟨_, hm⟩ hos hom hom0
            subst this
            have hqs : res s q' = some m' := by
              rcases dp.shrink q' with a | a
              · rw [a] at k1; simp at k1
              · rw [← a]; exact k1
            have := hc.res_inj hqs hm
            subst this
            rw [b4 r hr] at hq'; simp at hq'
          · -- the replacement node carries the new id
            rw [k1, ← b5, b2] at hmo
            exact homo (Option.some.inj hmo).symm
          · rw [k1] at hmo; simp at hmo

/-! ### the recursion budgets are never exhausted -/

theorem delete_ne_fuel {c : Cfg} (g : CfgGood c) {s : HC} (hc : Coherent c s) (o : Option Oid) (p : Option Str) :
    (delete c o p s).2 ≠ .error .fuel := by
  by_cases harg : o.isSome ∨ p.isSome
  · rw [delete_total g hc o p harg]; simp
  · have ho : o = none := by cases o <;> simp_all
    have hp : p = none := by cases p <;> simp_all
    subst ho; subst hp
    have : delete c none none s = deleteRec c (s.heap.length + 1) none none s := by simp [delete, bind_run]
    rw [this, deleteRec_succ]
    simp [getNode]

theorem setOidNode_ne_fuel {c : Cfg} (g : CfgGood c) {s : HC} {n : Nat} {kn : List Str} {o : Oid} (hc : Coherent c s)
    (hn : res s kn = some n) (hne : kn ≠ []) (h0 : o ≠ 0) (hroot : (s.nd 0).oid ≠ some o) :
    (setOidNode c n o s).2 ≠ .error .fuel := (setOidNode_spec g hc hn hne h0 hroot _ rfl).2

theorem step_ne_fuel {c : Cfg} (g : CfgGood c) {s : HC} (hc : Coherent c s) (op : Op) (hg : OpGuard c s op) :
    (step c s op).2 ≠ .error .fuel := by
  cases op with
  | mkdir p o =>
    have := (makeNode_spec g hc .dir p o hg.1 hg.2 _ rfl).2.2.1
    simp only [step, mkdir, bind_run]
    cases h : makeNode c .dir p o s with
    | mk t r => rw [h] at this; cases r with
      | error e => simpa using this
      | ok _ => simp
  | create p o =>
    have := (makeNode_spec g hc .file p o hg.1 hg.2 _ rfl).2.2.1
    simp only [step, create, bind_run]
    cases h : makeNode c .file p o s with
    | mk t r => rw [h] at this; cases r with
      | error e => simpa using this
      | ok _ => simp
  | delete o p => exact delete_ne_fuel g hc o p
  | setOid p o t =>
    simp only [step]
    rw [setOid_run]
    split
    · simp
    · cases o with
      | none => simp
      | some o' =>
        simp only [getNode_path g]
        have h0 : o' ≠ 0 := by
          intro e; subst e
          rename_i hcond
          simp [truthy] at hcond
        cases hr : res s (tcomps c p) with
        | some n => exact setOidNode_ne_fuel g hc hr hg.1 h0 (hg.2 o' rfl h0)
        | none =>
          simp only
          have hm := (makeNode_spec g hc t p (some o') hg.1 hg.2 _ rfl).2.2.1
          cases hmk : makeNode c t p (some o') s with
          | mk t' r => rw [hmk] at hm; cases r with
            | error e => simpa using hm
            | ok _ => simp
  | update p t o =>
    simp only [step]
    rw [update_run, getNode_path g]
    simp only
    have hmake : ∀ s', Coherent c s' → (∀ o', o = some o' → o' ≠ 0 → (s'.nd 0).oid ≠ some o') →
        (match makeNode c t p o s' with
          | (t', Except.error e) => ((t', Except.error e) : HC × Except Err Unit)
          | (t', Except.ok i) => checkFull c i t').2 ≠ .error .fuel := by
      intro s' hc' hf'
      have hm := (makeNode_spec g hc' t p o hg.1 hf' _ rfl).2.2.1
      cases hmk : makeNode c t p o s' with
      | mk t' r =>
        rw [hmk] at hm
        cases r with
        | error e => simpa using hm
        | ok i => exact checkFull_ne_fuel c i t'
    cases hr : res s (tcomps c p) with
    | none => exact hmake s hc hg.2
    | some n =>
      simp only
      by_cases ht : (s.nd n).type ≠ t
      · rw [if_pos ht]
        obtain ⟨init, a, hk⟩ := snoc_of_ne_nil hg.1
        rw [hk] at hr
        obtain ⟨pp, hp, hkk⟩ := res_snoc_some hr
        have d : DelCtx c s init a pp n := ⟨g, hc, hp, hkk⟩
        rw [deleteNode_ctx d]
        simp only
        exact hmake _ d.coherent_detach (fun o' ho' h0' => by rw [(d.delPost.fields 0).2.1]; exact hg.2 o' ho' h0')
      · rw [if_neg ht]
        simp only
        have hset : ((if truthy o then
                    match o with
                    | some o' => setOidNode c n o'
                    | none => pure ()
                  else pure () : M Unit) s).2 ≠ .error .fuel := by
          by_cases hto : truthy o = true
          · rw [if_pos hto]
            cases o with
            | none => simp
            | some o' =>
              have h0 : o' ≠ 0 := by intro e; subst e; simp [truthy] at hto
              exact setOidNode_ne_fuel g hc hr hg.1 h0 (hg.2 o' rfl h0)
          · rw [if_neg hto]; simp
        cases hrun : (if truthy o then
                    match o with
                    | some o' => setOidNode c n o'
                    | none => pure ()
                  else pure () : M Unit) s with
        | mk t' r' =>
          rw [hrun] at hset
          cases r' with
          | error e => simpa using hset
          | ok u => exact checkFull_ne_fuel c n t'
  | rename old new =>
    simp only [step]
    have hg' : tcomps c new ≠ [] := hg
    rw [rename_run, getNode_path g]
    cases hr : res s (tcomps c old) with
    | none => exact delete_ne_fuel g hc none (some new)
    | some n =>
      simp only
      by_cases hroot : (s.nd n).isRoot = true
      · rw [if_pos hroot]; simp
      · rw [if_neg hroot]
        have hko : tcomps c old ≠ [] := by
          intro e; rw [e] at hr; simp at hr; subst hr
          exact hroot hc.root_isRoot
        obtain ⟨init, a, hk⟩ := snoc_of_ne_nil hko
        rw [hk] at hr
        obtain ⟨pp, hp, hkk⟩ := res_snoc_some hr
        have d : DelCtx c s init a pp n := ⟨g, hc, hp, hkk⟩
        rw [deleteNode_ctx d]
        simp only
        have hsub1 := d.sub
        have hc1 := d.coherent_detach
        have hd2 := (delete_spec g (detachSt c s pp n a) none (some new) hc1).1
        have htot := delete_total g hc1 none (some new) (Or.inr rfl)
        cases hrun2 : delete c none (some new) (detachSt c s pp n a) with
        | mk s2 r2 =>
          rw [hrun2] at hd2 htot
          simp only at hd2 htot
          subst htot
          simp only
          have hsub2 : Sub c s2 n := hsub1.frame (hd2.frameX (fun _ => False)) (fun _ _ h => h) hd2.idsub
          have hfree : ∀ o, (s2.nd n).oid = some o → o ≠ 0 → (s2.nd 0).oid ≠ some o := by
            intro o ho h0 hro
            have e1 : (s.nd 0).oid = some o := by rw [← (d.delPost.fields 0).2.1, ← (hd2.fields 0).2.1]; exact hro
            have e2 : (s.nd n).oid = some o := by rw [← (d.delPost.fields n).2.1, ← (hd2.fields n).2.1]; exact ho
            exact d.n_ne_zero (hc.oid_unique ⟨_, d.hn⟩ (Reach.root s) e2 e1 h0)
          have hins := (insertNode_spec g (tcomps_ok g new) hg' hd2.coh hsub2 hfree
            (insFuel (canon c.sep (tcomps c new))) _ rfl).2.2.1
            (by have := length_lt_canon (tcomps_ok g new); simp only [insFuel]; omega)
          simp only [insert, normalizePath_tcomps g]
          cases hrun3 : insertNode c (insFuel (canon c.sep (tcomps c new))) n (canon c.sep (tcomps c new)) s2 with
          | mk s3 r3 =>
            rw [hrun3] at hins
            cases r3 with
            | error e => simpa using hins
            | ok u' => exact checkFull_ne_fuel c n s3

/-- **every public operation preserves coherence** (under its guard) -/
theorem step_coherent {c : Cfg} (g : CfgGood c) {s : HC} (hc : Coherent c s) (op : Op) (hg : OpGuard c s op) :
    Coherent c (step c s op).1 := by
  cases op with
  | mkdir p o => exact mkdir_coherent g hc p o hg
  | create p o => exact create_coherent g hc p o hg
  | delete o p => exact delete_coherent g hc o p
  | rename a b => exact rename_coherent g hc a b hg
  | setOid p o t => exact setOid_coherent g hc p o t hg
  | update p t o => exact update_coherent g hc p t o hg

end CS.HCache
