import Csverif.Proofs.HCache.Delete
/- C19 helper lemmas, part 6: the recursive `delete`. -/
namespace CS.HCache
open CS.Path
set_option linter.unusedSimpArgs false

set_option linter.unusedVariables false
theorem deleteRec_succ (c : Cfg) (f : Nat) (oid : Option Oid) (path : Option Str) (s : HC) :
    deleteRec c (f + 1) oid path s =
      match getNode c s oid path with
      | .error e => (s, .error e)
      | .ok none => (s, .ok ())
      | .ok (some n) =>
        match (if (s.nd n).type = .dir then delLoop c (deleteRec c f) ((s.nd n).children.map (·.2)) else pure ()) s with
        | (t, .error e) => (t, .error e)
        | (t, .ok _) =>
          match fullPath c t n with
          | .error e => (t, .error e)
          | .ok _ =>
            match deleteNode c (some n) t with
            | (t', .error e) => (t', .error e)
            | (t', .ok _) => (t', .ok ()) := by
  simp only [deleteRec, bind_run, getNodeM_run]
  cases getNode c s oid path with
  | error e => rfl
  | ok r =>
    cases r with
    | none => rfl
    | some n =>
      simp only [bind_run, getS_run, fullPathM_run, pure_run]
      cases hx : (if (s.nd n).type = .dir then delLoop c (deleteRec c f) ((s.nd n).children.map (·.2)) else pure ()) s with
      | mk t r =>
        cases r with
        | error e => rfl
        | ok _ =>
          simp only
          cases fullPath c t n with
          | error e => rfl
          | ok _ =>
            simp only
            cases deleteNode c (some n) t with
            | mk t' r' => cases r' <;> rfl

theorem delLoop_cons (c : Cfg) (rec : Option Oid → Option Str → M Unit) (ch : Nat) (rest : List Nat) (s : HC) :
    delLoop c rec (ch :: rest) s =
      match fullPath c s ch with
      | .error e => (s, .error e)
      | .ok cp =>
        match rec (s.nd ch).oid cp s with
        | (t, .error e) => (t, .error e)
        | (t, .ok _) => delLoop c rec rest t := by
  simp only [delLoop, bind_run, getS_run, fullPathM_run]
  cases fullPath c s ch with
  | error e => rfl
  | ok cp =>
    simp only
    cases rec (s.nd ch).oid cp s with
    | mk t r => cases r <;> rfl

/-! ### lookups in a coherent cache -/

theorem Coherent.getNode_oid {c : Cfg} {s : HC} (hc : Coherent c s) (o : Oid) (path : Option Str) :
    ∃ r, getNode c s (some o) path = .ok r ∧ (∀ x, r = some x → Reach s x ∧ (s.nd x).oid = some o) ∧
      (o ≠ 0 → ∀ x, Reach s x → (s.nd x).oid = some o → r = some x) := by
  simp only [getNode]
  split
  · next h =>
    refine ⟨some 0, rfl, ?_, ?_⟩
    · intro x hx; cases hx; exact ⟨Reach.root s, h.symm⟩
    · intro h0 x hx ho
      rw [hc.oid_unique hx (Reach.root s) ho h.symm h0]
  · refine ⟨dget s.idmap o, rfl, ?_, ?_⟩
    · intro x hx
      have := hc.dget_idmap.1 hx
      exact ⟨this.1, this.2.1⟩
    · intro h0 x hx ho
      exact hc.dget_idmap.2 ⟨hx, ho, h0⟩

/-- what `delete(oid=child.oid, path=child.full_path())` finds for a reachable node: the node itself
    (or nothing, when its id is the falsy non-None id) -/
theorem Coherent.kid_lookup {c : Cfg} (g : CfgGood c) {s : HC} (hc : Coherent c s) {ky : List Str} {ch : Nat}
    (h : res s ky = some ch) :
    getNode c s (s.nd ch).oid (some (canon c.sep ky)) = .ok none ∨
      getNode c s (s.nd ch).oid (some (canon c.sep ky)) = .ok (some ch) := by
  cases ho : (s.nd ch).oid with
  | none => right; rw [getNode_canon g s (hc.ksOk h), h]
  | some o =>
    obtain ⟨r, hr, h1, h2⟩ := hc.getNode_oid o (some (canon c.sep ky))
    rw [hr]
    by_cases h0 : o = 0
    · left
      cases r with
      | none => rfl
      | some x =>
        -- an id-map hit or the root: both carry a truthy id
        exfalso
        have hx := h1 x rfl
        simp only [getNode] at hr
        split at hr
        · next hroot =>
          obtain ⟨rr, hrr, hr0⟩ := hc.root_oid
          simp only [HC.rootOid, hrr] at hroot
          cases hroot; exact hr0 h0
        · have := hc.dget_idmap.1 (Except.ok.inj hr)
          exact this.2.2 h0
    · right; rw [h2 h0 ch ⟨_, h⟩ ho]

/-! ### what any `delete` guarantees -/

structure DelPost (c : Cfg) (s s' : HC) : Prop where
  coh : Coherent c s'
  len : s'.heap.length = s.heap.length
  frame : ∀ m, ¬ Reach s m → s'.nd m = s.nd m
  shrink : ∀ q, res s' q = none ∨ res s' q = res s q
  fields : ∀ m, (s'.nd m).type = (s.nd m).type ∧ (s'.nd m).oid = (s.nd m).oid ∧
    (s'.nd m).name = (s.nd m).name ∧ (s'.nd m).isRoot = (s.nd m).isRoot
  idsub : ∀ e, e ∈ s'.idmap → e ∈ s.idmap
  parents : ∀ m, (s'.nd m).parent = (s.nd m).parent ∨ (s'.nd m).parent = none

theorem DelPost.refl {c : Cfg} {s : HC} (hc : Coherent c s) : DelPost c s s :=
  ⟨hc, rfl, fun _ _ => rfl, fun _ => Or.inr rfl, fun _ => ⟨rfl, rfl, rfl, rfl⟩, fun _ h => h, fun _ => Or.inl rfl⟩

theorem DelPost.reach {c : Cfg} {s s' : HC} (h : DelPost c s s') {m : Nat} (hm : Reach s' m) : Reach s m := by
  obtain ⟨q, hq⟩ := hm
  rcases h.shrink q with h1 | h1
  · rw [h1] at hq; simp at hq
  · exact ⟨q, by rw [← h1]; exact hq⟩

theorem DelPost.trans {c : Cfg} {s s1 s2 : HC} (h1 : DelPost c s s1) (h2 : DelPost c s1 s2) : DelPost c s s2 where
  coh := h2.coh
  len := h2.len.trans h1.len
  frame := fun m hm => by
    rw [h2.frame m (fun h => hm (h1.reach h)), h1.frame m hm]
  shrink := fun q => by
    rcases h2.shrink q with a | a
    · exact Or.inl a
    · rcases h1.shrink q with b | b
      · left; rw [a, b]
      · right; rw [a, b]
  fields := fun m => by
    have a := h2.fields m
    have b := h1.fields m
    exact ⟨a.1.trans b.1, a.2.1.trans b.2.1, a.2.2.1.trans b.2.2.1, a.2.2.2.trans b.2.2.2⟩
  idsub := fun e he => h1.idsub e (h2.idsub e he)
  parents := fun m => by
    rcases h2.parents m with a | a
    · rcases h1.parents m with b | b
      · exact Or.inl (a.trans b)
      · exact Or.inr (a.trans b)
    · exact Or.inr a

/-- full specification of one `delete(oid, path)` call -/
def DelSpec (c : Cfg) (s : HC) (oid : Option Oid) (path : Option Str) (out : HC × Except Err Unit) : Prop :=
  DelPost c s out.1 ∧
  (∀ x kx, getNode c s oid path = .ok (some x) → res s kx = some x →
      (∀ q, ¬ kx <+: q → res out.1 q = res s q) ∧
      (out.2 = .ok () → x ≠ 0 → ∀ q, kx <+: q → res out.1 q = none) ∧
      (out.2 = .ok () → x ≠ 0 → (out.1.nd x).parent = none)) ∧
  ((∀ x, getNode c s oid path ≠ .ok (some x)) → out.1 = s) ∧
  (out.2 = .ok () ∨ out.2 = .error .fuel ∨ ∃ e, getNode c s oid path = .error e ∧ out.2 = .error e)

theorem prefix_snoc_ne {α} {kx : List α} {k k' : α} {r : List α} (h : (kx ++ [k]) <+: (kx ++ [k'] ++ r)) : k = k' := by
  obtain ⟨t, ht⟩ := h
  simp only [List.append_assoc, List.append_cancel_left_eq, List.cons_append, List.nil_append, List.cons.injEq] at ht
  exact ht.1

/-- the loop over the children snapshot -/
theorem delLoop_spec {c : Cfg} (g : CfgGood c) (rec : Option Oid → Option Str → M Unit)
    (hrec : ∀ t oid path, Coherent c t → DelSpec c t oid path (rec oid path t)) (kx : List Str) :
    ∀ (kl : List (Str × Nat)) (t : HC), Coherent c t → (keys kl).Nodup →
      (∀ e ∈ kl, res t (kx ++ [e.1]) = some e.2) →
      DelPost c t (delLoop c rec (kl.map (·.2)) t).1 ∧
      (∀ q, (∀ e ∈ kl, ¬ (kx ++ [e.1]) <+: q) → res (delLoop c rec (kl.map (·.2)) t).1 q = res t q) ∧
      ((delLoop c rec (kl.map (·.2)) t).2 = .ok () ∨ (delLoop c rec (kl.map (·.2)) t).2 = .error .fuel) := by
  intro kl
  induction kl with
  | nil => intro t hc _ _; exact ⟨DelPost.refl hc, fun _ _ => rfl, Or.inl rfl⟩
  | cons e rest ih =>
    obtain ⟨k, ch⟩ := e
    intro t hc hnd hres
    have hch : res t (kx ++ [k]) = some ch := hres (k, ch) List.mem_cons_self
    simp only [List.map_cons, delLoop_cons, hc.fullPath g hch]
    have hspec := hrec t (t.nd ch).oid (some (canon c.sep (kx ++ [k]))) hc
    -- what the recursive call did outside the kid's subtree
    have hout : ∀ q, ¬ (kx ++ [k]) <+: q → res (rec (t.nd ch).oid (some (canon c.sep (kx ++ [k]))) t).1 q = res t q := by
      intro q hq
      rcases hc.kid_lookup g hch with hl | hl
      · rw [hspec.2.2.1 (fun x hx => by rw [hl] at hx; simp at hx)]
      · exact (hspec.2.1 ch _ hl hch).1 q hq
    have hresult : (rec (t.nd ch).oid (some (canon c.sep (kx ++ [k]))) t).2 = .ok () ∨
        (rec (t.nd ch).oid (some (canon c.sep (kx ++ [k]))) t).2 = .error .fuel := by
      rcases hspec.2.2.2 with h | h | ⟨e, he, _⟩
      · exact Or.inl h
      · exact Or.inr h
      · rcases hc.kid_lookup g hch with hl | hl <;> rw [hl] at he <;> simp at he
    cases hout1 : rec (t.nd ch).oid (some (canon c.sep (kx ++ [k]))) t with
    | mk t1 r1 =>
      rw [hout1] at hspec hout hresult
      simp only at hspec hout hresult
      cases r1 with
      | error e =>
        simp only
        refine ⟨hspec.1, fun q hq => hout q (hq (k, ch) List.mem_cons_self), ?_⟩
        rcases hresult with h | h
        · simp at h
        · exact Or.inr h
      | ok u =>
        simp only
        simp only [keys_cons, List.nodup_cons] at hnd
        have hres1 : ∀ e ∈ rest, res t1 (kx ++ [e.1]) = some e.2 := by
          intro e he
          rw [hout _ (fun hp => hnd.1 ?_)]
          · exact hres e (List.mem_cons_of_mem _ he)
          · have : k = e.1 := prefix_snoc_ne (kx := kx) (r := []) (by simpa using hp)
            exact this ▸ mem_keys_of_mem (show (e.1, e.2) ∈ rest from he)
        obtain ⟨p1, p2, p3⟩ := ih t1 hspec.1.coh hnd.2 hres1
        refine ⟨hspec.1.trans p1, fun q hq => ?_, p3⟩
        rw [p2 q (fun e he => hq e (List.mem_cons_of_mem _ he)), hout q (hq (k, ch) List.mem_cons_self)]

theorem DelCtx.delPost {c : Cfg} {s : HC} {init : List Str} {a : Str} {p n : Nat} (d : DelCtx c s init a p n) :
    DelPost c s (detachSt c s p n a) where
  coh := d.coherent_detach
  len := d.detach_len
  frame := fun m hm => by
    have h1 : m ≠ n := fun e => hm (e ▸ ⟨_, d.hn⟩)
    have h2 : m ≠ p := fun e => hm (e ▸ ⟨_, d.hp⟩)
    rw [d.nd_detach]; simp [h1, h2]
  shrink := fun q => by
    by_cases h : (init ++ [a]) <+: q
    · exact Or.inl (d.res_detach_in q h)
    · exact Or.inr (d.res_detach_out q h)
  fields := fun m => by
    rw [d.nd_detach]
    by_cases h1 : m = n
    · subst h1; simp
    · by_cases h2 : m = p
      · subst h2; simp [h1]
      · simp [h1, h2]
  idsub := fun e he => d.detach_idmap_mem he
  parents := fun m => by
    rw [d.nd_detach]
    by_cases h1 : m = n
    · subst h1; simp
    · by_cases h2 : m = p
      · subst h2; simp [h1]
      · simp [h1, h2]

theorem deleteNode_ctx {c : Cfg} {s : HC} {init : List Str} {a : Str} {p n : Nat} (d : DelCtx c s init a p n) :
    deleteNode c (some n) s = (detachSt c s p n a, .ok (some n)) :=
  deleteNode_eq c s n p a d.lnk.2.2.2.1 d.lnk.2.1 d.lnk.2.2.1 d.hk ⟨_, d.fullPath_s1⟩

theorem Coherent.getNode_reach {c : Cfg} (g : CfgGood c) {s : HC} (hc : Coherent c s) {oid : Option Oid}
    {path : Option Str} {x : Nat} (h : getNode c s oid path = .ok (some x)) : Reach s x := by
  cases oid with
  | some o =>
    obtain ⟨r, hr, h1, _⟩ := hc.getNode_oid o path
    rw [hr] at h
    exact (h1 x (Except.ok.inj h)).1
  | none =>
    cases path with
    | none => simp [getNode] at h
    | some p =>
      rw [getNode_path g] at h
      exact ⟨_, Except.ok.inj h⟩

/-- **specification of the recursive `delete`**, for every recursion budget -/
theorem deleteRec_spec {c : Cfg} (g : CfgGood c) : ∀ (f : Nat) (s : HC) (oid : Option Oid) (path : Option Str),
    Coherent c s → DelSpec c s oid path (deleteRec c f oid path s) := by
  intro f
  induction f with
  | zero =>
    intro s oid path hc
    exact ⟨DelPost.refl hc, fun x kx _ _ => ⟨fun _ _ => rfl, fun h => by simp [deleteRec] at h,
      fun h => by simp [deleteRec] at h⟩, fun _ => rfl, Or.inr (Or.inl rfl)⟩
  | succ f ih =>
    intro s oid path hc
    rw [deleteRec_succ]
    cases hg : getNode c s oid path with
    | error e =>
      exact ⟨DelPost.refl hc, fun x kx h => by rw [hg] at h; simp at h, fun _ => rfl, Or.inr (Or.inr ⟨e, hg, rfl⟩)⟩
    | ok r =>
      cases r with
      | none =>
        exact ⟨DelPost.refl hc, fun x kx h => by rw [hg] at h; simp at h, fun _ => rfl, Or.inl rfl⟩
      | some x =>
        simp only
        obtain ⟨kx, hkx⟩ := hc.getNode_reach g hg
        -- the children loop
        have hloop : ∃ t r, (if (s.nd x).type = .dir then delLoop c (deleteRec c f) ((s.nd x).children.map (·.2)) else pure ()) s = (t, r) ∧
            DelPost c s t ∧ (∀ q, ¬ kx <+: q → res t q = res s q) ∧ res t kx = some x ∧ (r = .ok () ∨ r = .error .fuel) := by
          by_cases hd : (s.nd x).type = .dir
          · simp only [hd, if_true]
            have hr : Reach s x := ⟨_, hkx⟩
            obtain ⟨p1, p2, p3⟩ := delLoop_spec g (deleteRec c f) ih kx (s.nd x).children s hc (hc.keys_nodup hr)
              (fun e he => by rw [res_snoc, hkx]; exact dget_of_mem (hc.keys_nodup hr) he)
            refine ⟨_, _, rfl, p1, fun q hq => p2 q (fun e _ hp => hq ((List.prefix_append _ _).trans hp)), ?_, p3⟩
            rw [p2 kx (fun e _ hp => by have := hp.length_le; simp at this; omega)]
            exact hkx
          · simp only [hd, if_false]
            exact ⟨s, .ok (), rfl, DelPost.refl hc, fun _ _ => rfl, hkx, Or.inl rfl⟩
        obtain ⟨t, r, hrun, hpost, hout, htx, hres⟩ := hloop
        rw [hrun]
        cases r with
        | error e =>
          simp only
          refine ⟨hpost, fun y ky hy hky => ?_, fun h => absurd hg (h x), ?_⟩
          · rw [hg] at hy; cases hy
            rw [hc.res_inj hky hkx]
            exact ⟨hout, fun h => by simp at h, fun h => by simp at h⟩
          · rcases hres with h | h
            · simp at h
            · exact Or.inr (Or.inl h)
        | ok u =>
          simp only [hpost.coh.fullPath g htx]
          rcases List.eq_nil_or_concat kx with rfl | ⟨init, a, rfl⟩
          · -- the root: `_delete` is a no-op
            simp at hkx; subst hkx
            rw [deleteNode_root c t 0 hpost.coh.root_isRoot]
            refine ⟨hpost, fun y ky hy hky => ?_, fun h => absurd hg (h 0), Or.inl rfl⟩
            rw [hg] at hy; cases hy
            rw [hc.res_root hky]
            exact ⟨hout, fun _ h0 => absurd rfl h0, fun _ h0 => absurd rfl h0⟩
          · rw [List.concat_eq_append] at hkx htx hout
            obtain ⟨p, hp, hk⟩ := res_snoc_some htx
            have d : DelCtx c t init a p x := ⟨g, hpost.coh, hp, hk⟩
            rw [deleteNode_ctx d]
            refine ⟨hpost.trans d.delPost, fun y ky hy hky => ?_, fun h => absurd hg (h x), Or.inl rfl⟩
            rw [hg] at hy; cases hy
            rw [hc.res_inj hky hkx]
            refine ⟨fun q hq => ?_, fun _ _ q hq => d.res_detach_in q hq, fun _ _ => by rw [d.nd_detach]; simp⟩
            rw [d.res_detach_out q hq, hout q hq]

theorem delete_spec {c : Cfg} (g : CfgGood c) (s : HC) (oid : Option Oid) (path : Option Str) (hc : Coherent c s) :
    DelSpec c s oid path (delete c oid path s) := by
  have : delete c oid path s = deleteRec c (s.heap.length + 1) oid path s := by
    simp [delete, bind_run]
  rw [this]
  exact deleteRec_spec g _ s oid path hc

end CS.HCache
