import Csverif.Model.HCache
/- C19 helper lemmas, part 1: association-list dictionaries and heap access. -/
namespace CS.HCache
set_option linter.unusedSectionVars false

section dict
variable {κ ν : Type} [DecidableEq κ]

def keys (d : List (κ × ν)) : List κ := d.map (·.1)

@[simp] theorem keys_nil : keys ([] : List (κ × ν)) = [] := rfl
@[simp] theorem keys_cons (a : κ × ν) (d : List (κ × ν)) : keys (a :: d) = a.1 :: keys d := rfl

theorem dget_mem {d : List (κ × ν)} {k : κ} {v : ν} (h : dget d k = some v) : (k, v) ∈ d := by
  induction d with
  | nil => simp [dget] at h
  | cons a d ih =>
    obtain ⟨k', v'⟩ := a
    simp only [dget] at h
    split at h
    · next hk => subst hk; simp at h; subst h; simp
    · exact List.mem_cons_of_mem _ (ih h)

theorem dget_none {d : List (κ × ν)} {k : κ} : dget d k = none ↔ k ∉ keys d := by
  induction d with
  | nil => simp [dget]
  | cons a d ih =>
    obtain ⟨k', v'⟩ := a
    simp only [dget, keys_cons, List.mem_cons, not_or]
    split
    · next hk => subst hk; simp
    · next hk => rw [ih]; constructor
                 · intro h; exact ⟨fun e => hk e.symm, h⟩
                 · intro h; exact h.2

theorem mem_keys_of_mem {d : List (κ × ν)} {k : κ} {v : ν} (h : (k, v) ∈ d) : k ∈ keys d :=
  List.mem_map.2 ⟨(k, v), h, rfl⟩

theorem dget_of_mem {d : List (κ × ν)} (hn : (keys d).Nodup) {k : κ} {v : ν} (h : (k, v) ∈ d) :
    dget d k = some v := by
  induction d with
  | nil => simp at h
  | cons a d ih =>
    obtain ⟨k', v'⟩ := a
    simp only [keys_cons, List.nodup_cons] at hn
    simp only [dget]
    rcases List.mem_cons.1 h with e | h'
    · cases e; simp
    · split
      · next hk => subst hk; exact absurd (mem_keys_of_mem h') hn.1
      · exact ih hn.2 h'

theorem dget_iff_mem {d : List (κ × ν)} (hn : (keys d).Nodup) {k : κ} {v : ν} :
    dget d k = some v ↔ (k, v) ∈ d := ⟨dget_mem, dget_of_mem hn⟩

theorem mem_derase {d : List (κ × ν)} {k : κ} {e : κ × ν} (h : e ∈ derase d k) : e ∈ d := by
  induction d with
  | nil => simp [derase] at h
  | cons a d ih =>
    obtain ⟨k', v'⟩ := a
    simp only [derase] at h
    split at h
    · exact List.mem_cons_of_mem _ h
    · rcases List.mem_cons.1 h with e' | h'
      · exact e' ▸ List.mem_cons_self
      · exact List.mem_cons_of_mem _ (ih h')

theorem keys_derase_sub {d : List (κ × ν)} {k x : κ} (h : x ∈ keys (derase d k)) : x ∈ keys d := by
  obtain ⟨e, he, rfl⟩ := List.mem_map.1 h
  exact List.mem_map.2 ⟨e, mem_derase he, rfl⟩

theorem derase_sublist (d : List (κ × ν)) (k : κ) : (derase d k).Sublist d := by
  induction d with
  | nil => simp [derase]
  | cons a d ih =>
    obtain ⟨k', v'⟩ := a
    simp only [derase]
    split
    · exact List.sublist_cons_self _ _
    · exact ih.cons_cons _

theorem nodup_keys_derase {d : List (κ × ν)} (hn : (keys d).Nodup) (k : κ) : (keys (derase d k)).Nodup :=
  List.Nodup.sublist ((derase_sublist d k).map _) hn

theorem not_mem_keys_derase {d : List (κ × ν)} (hn : (keys d).Nodup) (k : κ) : k ∉ keys (derase d k) := by
  induction d with
  | nil => simp [derase]
  | cons a d ih =>
    obtain ⟨k', v'⟩ := a
    simp only [keys_cons, List.nodup_cons] at hn
    simp only [derase]
    split
    · next hk => subst hk; exact hn.1
    · next hk =>
      simp only [keys_cons, List.mem_cons, not_or]
      exact ⟨fun e => hk e.symm, ih hn.2⟩

theorem mem_derase_of_ne {d : List (κ × ν)} {k : κ} {e : κ × ν} (h : e ∈ d) (hne : e.1 ≠ k) : e ∈ derase d k := by
  induction d with
  | nil => simp at h
  | cons a d ih =>
    obtain ⟨k', v'⟩ := a
    simp only [derase]
    rcases List.mem_cons.1 h with e' | h'
    · subst e'
      rw [if_neg hne]; exact List.mem_cons_self
    · split
      · exact h'
      · exact List.mem_cons_of_mem _ (ih h')

theorem dget_derase_self {d : List (κ × ν)} (hn : (keys d).Nodup) (k : κ) : dget (derase d k) k = none :=
  dget_none.2 (not_mem_keys_derase hn k)

theorem dget_derase_ne {d : List (κ × ν)} {k k' : κ} (hne : k' ≠ k) : dget (derase d k) k' = dget d k' := by
  induction d with
  | nil => simp [derase]
  | cons a d ih =>
    obtain ⟨k1, v1⟩ := a
    simp only [derase]
    split
    · next hk => subst hk; simp [dget, Ne.symm hne]
    · simp only [dget]; rw [ih]

theorem mem_dset {d : List (κ × ν)} (hn : (keys d).Nodup) {k : κ} {v : ν} {e : κ × ν} (h : e ∈ dset d k v) :
    e = (k, v) ∨ (e ∈ d ∧ e.1 ≠ k) := by
  induction d with
  | nil => simp [dset] at h; exact Or.inl h
  | cons a d ih =>
    obtain ⟨k1, v1⟩ := a
    simp only [keys_cons, List.nodup_cons] at hn
    simp only [dset] at h
    split at h
    · next hk =>
      subst hk
      rcases List.mem_cons.1 h with e' | h'
      · exact Or.inl e'
      · refine Or.inr ⟨List.mem_cons_of_mem _ h', fun hk => hn.1 ?_⟩
        exact hk ▸ List.mem_map.2 ⟨e, h', rfl⟩
    · next hk =>
      rcases List.mem_cons.1 h with e' | h'
      · exact Or.inr ⟨e' ▸ List.mem_cons_self, e' ▸ hk⟩
      · rcases ih hn.2 h' with e1 | ⟨h1, h2⟩
        · exact Or.inl e1
        · exact Or.inr ⟨List.mem_cons_of_mem _ h1, h2⟩

theorem dset_of_not_mem {d : List (κ × ν)} {k : κ} (v : ν) (h : k ∉ keys d) : dset d k v = d ++ [(k, v)] := by
  induction d with
  | nil => simp [dset]
  | cons a d ih =>
    obtain ⟨k1, v1⟩ := a
    simp only [keys_cons, List.mem_cons, not_or] at h
    simp only [dset]
    rw [if_neg (fun e => h.1 e.symm), ih h.2]; rfl

theorem dget_dset_self (d : List (κ × ν)) (k : κ) (v : ν) : dget (dset d k v) k = some v := by
  induction d with
  | nil => simp [dset, dget]
  | cons a d ih =>
    obtain ⟨k1, v1⟩ := a
    simp only [dset]
    split
    · next hk => simp [dget, hk]
    · next hk => simp [dget, hk, ih]

theorem dget_dset_ne {d : List (κ × ν)} {k k' : κ} (v : ν) (hne : k' ≠ k) : dget (dset d k v) k' = dget d k' := by
  induction d with
  | nil => simp [dset, dget, Ne.symm hne]
  | cons a d ih =>
    obtain ⟨k1, v1⟩ := a
    simp only [dset]
    split
    · next hk => subst hk; simp [dget, Ne.symm hne]
    · simp only [dget]; rw [ih]

theorem keys_dset_mem {d : List (κ × ν)} {k x : κ} {v : ν} (h : x ∈ keys (dset d k v)) : x = k ∨ x ∈ keys d := by
  induction d with
  | nil => simp [dset] at h; exact Or.inl h
  | cons a d ih =>
    obtain ⟨k1, v1⟩ := a
    simp only [dset] at h
    split at h
    · next hk => simp only [keys_cons, List.mem_cons] at h ⊢; rcases h with h | h
                 · exact Or.inr (Or.inl h)
                 · exact Or.inr (Or.inr h)
    · simp only [keys_cons, List.mem_cons] at h ⊢
      rcases h with h | h
      · exact Or.inr (Or.inl h)
      · rcases ih h with h | h
        · exact Or.inl h
        · exact Or.inr (Or.inr h)

theorem nodup_keys_dset {d : List (κ × ν)} (hn : (keys d).Nodup) (k : κ) (v : ν) : (keys (dset d k v)).Nodup := by
  induction d with
  | nil => simp [dset]
  | cons a d ih =>
    obtain ⟨k1, v1⟩ := a
    simp only [keys_cons, List.nodup_cons] at hn
    simp only [dset]
    split
    · simpa [keys_cons, List.nodup_cons] using hn
    · next hk =>
      simp only [keys_cons, List.nodup_cons]
      refine ⟨fun hm => ?_, ih hn.2⟩
      rcases keys_dset_mem hm with e | hm'
      · exact hk e
      · exact hn.1 hm'

theorem mem_dset_self (d : List (κ × ν)) (k : κ) (v : ν) : (k, v) ∈ dset d k v :=
  dget_mem (dget_dset_self d k v)

theorem mem_dset_of_mem {d : List (κ × ν)} {k : κ} {v : ν} {e : κ × ν} (h : e ∈ d) (hne : e.1 ≠ k) : e ∈ dset d k v := by
  induction d with
  | nil => simp at h
  | cons a d ih =>
    obtain ⟨k1, v1⟩ := a
    simp only [dset]
    rcases List.mem_cons.1 h with e' | h'
    · subst e'; rw [if_neg hne]; exact List.mem_cons_self
    · split
      · exact List.mem_cons_of_mem _ h'
      · exact List.mem_cons_of_mem _ (ih h')

end dict

/-! ### heap access -/

theorem nd_setNd (s : HC) (i j : Nat) (n : Node) :
    (s.setNd i n).nd j = if i = j ∧ i < s.heap.length then n else s.nd j := by
  simp only [HC.nd, HC.setNd, List.getD_eq_getElem?_getD, List.getElem?_set]
  by_cases h : i = j
  · subst h
    by_cases hl : i < s.heap.length
    · simp [hl]
    · simp [hl]
  · simp [h]

@[simp] theorem setNd_len (s : HC) (i : Nat) (n : Node) : (s.setNd i n).heap.length = s.heap.length := by
  simp [HC.setNd]

@[simp] theorem setNd_idmap (s : HC) (i : Nat) (n : Node) : (s.setNd i n).idmap = s.idmap := rfl

theorem nd_dummy_of_ge (s : HC) {i : Nat} (h : s.heap.length ≤ i) : s.nd i = Node.dummy := by
  simp [HC.nd, List.getD_eq_getElem?_getD, List.getElem?_eq_none h]

end CS.HCache
