import Csverif.Proofs.HCache.OpsMain
import Csverif.Model.HDict
/- C19 helper lemmas, part 15: lookups of the dictionary specification in terms of the view-level operations. -/
namespace CS.HCache
open CS.Path CS.HDict
set_option linter.unusedSimpArgs false
set_option linter.unusedVariables false

theorem dlook_cons (e : Key × HDict.Ent) (d : D) (k : Key) : dlook (e :: d) k = if e.1 = k then some e.2 else dlook d k := by
  obtain ⟨k', v⟩ := e
  simp [dlook, dget]

theorem dlook_filter_key (d : D) (p : Key → Bool) (k : Key) :
    dlook (d.filter (fun e => p e.1)) k = if p k then dlook d k else none := by
  induction d with
  | nil => simp [dlook, dget]
  | cons e d ih =>
    simp only [List.filter_cons]
    by_cases hp : p e.1 = true
    · rw [if_pos hp, dlook_cons, dlook_cons, ih]
      by_cases hk : e.1 = k
      · subst hk; simp [hp]
      · simp [hk]
    · rw [if_neg hp, dlook_cons, ih]
      by_cases hk : e.1 = k
      · subst hk; simp [hp]
      · simp [hk]

theorem dlook_rmD (k : Key) (d : D) : dlook (rmD k d) = rmV k (dlook d) := by
  funext q
  have := dlook_filter_key d (fun x => !(decide (k <+: x) && decide (x ≠ []))) q
  simp only [rmD, rmV]
  rw [this]
  by_cases h : k <+: q ∧ q ≠ []
  · simp [h.1, h.2]
  · rw [if_neg h]
    have : (!(decide (k <+: q) && decide (q ≠ []))) = true := by
      simp only [Bool.not_eq_true', Bool.and_eq_false_iff, decide_eq_false_iff_not]
      by_cases h1 : k <+: q
      · exact Or.inr (fun h2 => h ⟨h1, h2⟩)
      · exact Or.inl h1
    rw [if_pos this]

theorem dlook_putD (k : Key) (x : HDict.Ent) (d : D) : dlook (putD k x d) = putV k x (dlook d) := by
  funext q
  simp only [putD, dlook_cons, putV]
  by_cases h : k = q
  · subst h; simp
  · simp [h, Ne.symm h]

theorem isDirD_eq (x : Option HDict.Ent) : isDirD x = isDirE x := by
  cases x with
  | none => rfl
  | some e => obtain ⟨t, o⟩ := e; cases t <;> rfl

theorem dlook_ensureR : ∀ (rks : List Str) (d : D), dlook (HDict.ensureR rks d) = CS.HCache.ensureR rks (dlook d) := by
  intro rks
  induction rks with
  | nil => intro d; rfl
  | cons b rinit ih =>
    intro d
    simp only [HDict.ensureR, CS.HCache.ensureR, isDirD_eq]
    split
    · rfl
    · rw [dlook_putD, ih, dlook_rmD]

theorem dlook_ensureD (ks : Key) (d : D) : dlook (ensureD ks d) = ensureV ks (dlook d) :=
  dlook_ensureR ks.reverse d

theorem dlook_mem {d : D} {k : Key} {x : HDict.Ent} (h : dlook d k = some x) : (k, x) ∈ d := dget_mem h

theorem holderD_some {d : D} {o : Oid} {k : Key} (h : holderD d o = some k) : HolderV (dlook d) o k := by
  simp only [holderD, Option.map_eq_some_iff] at h
  obtain ⟨e, he, rfl⟩ := h
  have := List.find?_some he
  simp only [Bool.and_eq_true, decide_eq_true_eq] at this
  refine ⟨e.2.1, ?_⟩
  rw [this.2, ← this.1]

theorem holderD_none {d : D} {o : Oid} (h : holderD d o = none) : ∀ k, ¬ HolderV (dlook d) o k := by
  intro k ⟨t, hk⟩
  simp only [holderD, Option.map_eq_none_iff, List.find?_eq_none] at h
  have := h (k, (t, some o)) (dlook_mem hk)
  simp [hk] at this

/-- the dictionary after `evictD` is the one the cache's eviction phase produces -/
theorem dlook_evictD {v : V} {ks : Key} {oid : Option Oid} {W : V} (hW : EvictV v ks oid W) {d : D} (hd : dlook d = v) :
    dlook (evictD ks oid d) = W := by
  have hd1 : dlook (rmD ks d) = rmV ks v := by rw [dlook_rmD, hd]
  simp only [evictD]
  cases oid with
  | none => rw [hW.1 rfl]; exact hd1
  | some o =>
    cases o with
    | zero => rw [hW.1 rfl]; exact hd1
    | succ n =>
      simp only
      obtain ⟨h1, h2⟩ := hW.2 (n + 1) rfl (by simp)
      cases hh : holderD (rmD ks d) (n + 1) with
      | some kx =>
        simp only
        rw [h1 kx (hd1 ▸ holderD_some hh), dlook_rmD, hd1]
      | none =>
        simp only
        rw [h2 (fun k => hd1 ▸ holderD_none hh k)]; exact hd1

theorem graft_leaf {ks : Key} (hne : ks ≠ []) (x : HDict.Ent) (w : V) : graftV ks (leafV x) w = putV ks x (rmV ks w) := by
  funext q
  simp only [graftV, leafV, putV, rmV]
  by_cases hp : ks <+: q
  · rw [if_pos hp]
    have hq : q ≠ [] := fun e => by rw [e] at hp; exact hne (List.prefix_nil.1 hp)
    by_cases he : q = ks
    · subst he; simp
    · rw [if_neg he, if_pos (show ks <+: q ∧ q ≠ [] from ⟨hp, hq⟩)]
      obtain ⟨r, rfl⟩ := hp
      have : r ≠ [] := fun e => he (by rw [e]; simp)
      rw [List.drop_left, if_neg this]
  · rw [if_neg hp]
    have he : q ≠ ks := fun e => hp (e ▸ List.prefix_refl _)
    rw [if_neg he, if_neg (fun h => hp h.1)]

theorem dlook_insertD {v : V} {ks : Key} {x : HDict.Ent} {W : V} (hne : ks ≠ []) (hW : EvictV v ks x.2 W) {d : D} (hd : dlook d = v) :
    dlook (insertD ks x d) = graftV ks (leafV x) (ensureV ks.dropLast W) := by
  rw [graft_leaf hne]
  simp only [insertD]
  rw [dlook_putD, dlook_rmD, dlook_ensureD, dlook_evictD hW hd]

end CS.HCache
