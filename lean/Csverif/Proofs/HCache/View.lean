import Csverif.Proofs.HCache.Fuel
/- C19 helper lemmas, part 14: the dictionary view of a cache (`path ↦ (type, id?)`) and the view-level
   operations the refinement is phrased with. -/
namespace CS.HCache
open CS.Path
set_option linter.unusedSimpArgs false
set_option linter.unusedVariables false

/-- a dictionary entry: type and optional id -/
abbrev Ent := OType × Option Oid

/-- a dictionary as a lookup function on key paths -/
abbrev V := List Str → Option Ent

def entOf (s : HC) (n : Nat) : Ent := ((s.nd n).type, (s.nd n).oid)

/-- **the abstraction**: what the cache holds at each key path reachable from the root -/
def view (s : HC) : V := fun q => (res s q).map (entOf s)

/-- the same below an arbitrary node (used for detached subtrees) -/
def subview (s : HC) (i : Nat) : V := fun r => (resFrom s i r).map (entOf s)

/-- invalidate the subtree at `k` (the root entry itself is never removed) -/
def rmV (k : List Str) (v : V) : V := fun q => if k <+: q ∧ q ≠ [] then none else v q

def putV (k : List Str) (x : Ent) (v : V) : V := fun q => if q = k then some x else v q

/-- put the dictionary `t` at `k` (keys of `t` are relative to `k`) -/
def graftV (k : List Str) (t : V) (v : V) : V := fun q => if k <+: q then t (q.drop k.length) else v q

def isDirE : Option Ent → Bool
  | some (.dir, _) => true
  | _ => false

/-- make sure every prefix of the (reversed) path is a folder: a missing or file entry is replaced by an
    id-less folder, parents first — the dictionary reading of `_mkdir(parent_path, None)` -/
def ensureR : List Str → V → V
  | [], v => v
  | b :: rinit, v =>
    if isDirE (v (b :: rinit).reverse) then v
    else putV (b :: rinit).reverse (.dir, none) (ensureR rinit (rmV (b :: rinit).reverse v))

def ensureV (ks : List Str) (v : V) : V := ensureR ks.reverse v

theorem ensureV_nil (v : V) : ensureV [] v = v := rfl

theorem ensureV_snoc (init : List Str) (b : Str) (v : V) :
    ensureV (init ++ [b]) v =
      if isDirE (v (init ++ [b])) then v else putV (init ++ [b]) (.dir, none) (ensureV init (rmV (init ++ [b]) v)) := by
  simp only [ensureV, List.reverse_append, List.reverse_cons, List.reverse_nil, List.nil_append, List.singleton_append,
    ensureR, List.reverse_reverse]

/-- the entry (if any) holding the id `o` -/
def HolderV (v : V) (o : Oid) (k : List Str) : Prop := ∃ t, v k = some (t, some o)

theorem view_some {s : HC} {q : List Str} {n : Nat} (h : res s q = some n) : view s q = some (entOf s n) := by
  simp [view, h]

theorem view_none {s : HC} {q : List Str} (h : res s q = none) : view s q = none := by simp [view, h]

theorem view_eq_some {s : HC} {q : List Str} {x : Ent} (h : view s q = some x) : ∃ n, res s q = some n ∧ entOf s n = x := by
  simp only [view] at h
  cases hr : res s q with
  | none => rw [hr] at h; simp at h
  | some n => rw [hr] at h; exact ⟨n, rfl, by simpa using h⟩

/-- the view after any `delete`, exactly -/
theorem delete_view {c : Cfg} (g : CfgGood c) {s : HC} (hc : Coherent c s) (oid : Option Oid) (path : Option Str) :
    (∀ x kx, getNode c s oid path = .ok (some x) → res s kx = some x → x ≠ 0 →
      ∀ q, view (delete c oid path s).1 q = rmV kx (view s) q) ∧
    ((∀ x, getNode c s oid path ≠ .ok (some x)) → (delete c oid path s).1 = s) := by
  obtain ⟨dp, e2, e3, _⟩ := delete_spec g s oid path hc
  refine ⟨fun x kx hx hkx hx0 q => ?_, e3⟩
  have harg : oid.isSome ∨ path.isSome := by
    cases oid with
    | some o => exact Or.inl rfl
    | none =>
      cases path with
      | some p => exact Or.inr rfl
      | none => simp [getNode] at hx
  have hok := delete_total g hc oid path harg
  obtain ⟨a1, a2, _⟩ := e2 x kx hx hkx
  have hkne : kx ≠ [] := fun e => by rw [e] at hkx; simp at hkx; exact hx0 hkx.symm
  simp only [rmV]
  by_cases hp : kx <+: q
  · have hq : q ≠ [] := fun e => by rw [e] at hp; exact hkne (List.prefix_nil.1 hp)
    rw [if_pos ⟨hp, hq⟩]
    exact view_none (a2 hok hx0 q hp)
  · rw [if_neg (fun h => hp h.1)]
    simp only [view, a1 q hp]
    cases hr : res s q with
    | none => rfl
    | some n =>
      simp only [Option.map_some, entOf, (dp.fields n).1, (dp.fields n).2.1]

/-! ### `ensureV` -/

theorem ensureR_none : ∀ (rks : List Str) (v : V) (q : List Str), v q = none → ¬ q <+: rks.reverse → ensureR rks v q = none := by
  intro rks
  induction rks with
  | nil => intro v q h _; exact h
  | cons b rinit ih =>
    intro v q h hq
    simp only [ensureR]
    split
    · exact h
    · simp only [putV]
      have hne : q ≠ (b :: rinit).reverse := fun e => hq (e ▸ List.prefix_refl _)
      rw [if_neg hne]
      apply ih
      · simp only [rmV]; split
        · rfl
        · exact h
      · intro hp
        apply hq
        rw [List.reverse_cons]
        exact hp.trans (List.prefix_append _ _)

theorem ensureV_none (ks : List Str) (v : V) (q : List Str) (h : v q = none) (hq : ¬ q <+: ks) : ensureV ks v q = none :=
  ensureR_none ks.reverse v q h (by rw [List.reverse_reverse]; exact hq)

/-- after `ensureV ks` there is a folder at `ks` (given the root is one) -/
theorem ensureV_isDir (ks : List Str) (v : V) (hroot : isDirE (v []) = true) : isDirE (ensureV ks v ks) = true := by
  induction ks using snoc_induction generalizing v with
  | hnil => exact hroot
  | hsnoc init b ih =>
    rw [ensureV_snoc]
    split
    · next h => exact h
    · simp [putV, isDirE]

theorem isDirE_iff {x : Option Ent} : isDirE x = true ↔ ∃ o, x = some (.dir, o) := by
  cases x with
  | none => simp [isDirE]
  | some e =>
    obtain ⟨t, o⟩ := e
    cases t <;> simp [isDirE]

theorem view_root {c : Cfg} {s : HC} (hc : Coherent c s) : isDirE (view s []) = true := by
  simp [view, entOf, hc.root_type, isDirE]

/-- `_check(node)` succeeds on every reachable node of a coherent cache -/
theorem checkFull_ok {c : Cfg} (g : CfgGood c) {s : HC} (hc : Coherent c s) {i : Nat} (hi : Reach s i) :
    checkFull c i s = (s, .ok ()) := by
  obtain ⟨q, hq⟩ := hi
  simp only [checkFull, bind_run, check, hc.checkOk ⟨q, hq⟩, if_true, fullPathM_run, hc.fullPath g hq]

end CS.HCache
