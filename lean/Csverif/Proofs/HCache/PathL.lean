import Csverif.Proofs.HCache.Tree
/- C19 helper lemmas, part 3: the cache's path helpers on canonical paths. -/
namespace CS.HCache
open CS.Path

/-- configuration guard of the C19 theorems (same as C13's): `Cfg.Ok` plus, for case-insensitive
    providers, case folding does not produce the alternate separator -/
structure CfgGood (c : Cfg) : Prop where
  ok : c.Ok
  la : c.cs = false → LowerAltOk c

def KsOk (c : Cfg) (ks : List Str) : Prop := ∀ k ∈ ks, NameOk c k

/-- components of `normalize_path(p)` -/
def tcomps (c : Cfg) (p : Str) : List Str := (C c p).map (fold c)

theorem KsOk.comps {c : Cfg} {ks : List Str} (h : KsOk c ks) : Comps c ks :=
  ⟨fun f hf => (h f hf).1.1 f (by simp), fun f hf => (h f hf).1.2 f (by simp)⟩

theorem KsOk.map_fold {c : Cfg} {ks : List Str} (h : KsOk c ks) : ks.map (fold c) = ks := by
  conv => rhs; rw [← List.map_id ks]
  exact List.map_congr_left (fun k hk => (h k hk).2)

theorem KsOk.append {c : Cfg} {a b : List Str} (ha : KsOk c a) (hb : KsOk c b) : KsOk c (a ++ b) :=
  fun k hk => (List.mem_append.1 hk).elim (ha k) (hb k)

theorem KsOk.left {c : Cfg} {a b : List Str} (h : KsOk c (a ++ b)) : KsOk c a :=
  fun k hk => h k (List.mem_append_left _ hk)

theorem KsOk.right {c : Cfg} {a b : List Str} (h : KsOk c (a ++ b)) : KsOk c b :=
  fun k hk => h k (List.mem_append_right _ hk)

theorem ksOk_nil (c : Cfg) : KsOk c [] := fun _ h => by simp at h

theorem ksOk_single {c : Cfg} {k : Str} (h : NameOk c k) : KsOk c [k] := fun x hx => by
  simp at hx; subst hx; exact h

theorem fold_idem {c : Cfg} (h : c.Ok) (s : Str) : fold c (fold c s) = fold c s := by
  simp only [fold, List.map_map]
  apply List.map_congr_left
  intro x _
  exact cfold_idem h x

theorem tcomps_ok {c : Cfg} (g : CfgGood c) (p : Str) : KsOk c (tcomps c p) := by
  have hC : Comps c (tcomps c p) := Comps.mapFold g.ok g.la (comps_C' g.ok p)
  intro k hk
  refine ⟨⟨fun f hf => ?_, fun f hf => ?_⟩, ?_⟩
  · simp at hf; subst hf; exact hC.1 _ hk
  · simp at hf; subst hf; exact hC.2 _ hk
  · obtain ⟨k0, _, rfl⟩ := List.mem_map.1 hk
    exact fold_idem g.ok k0

theorem normalizePath_tcomps {c : Cfg} (g : CfgGood c) (p : Str) :
    normalizePath c p false = canon c.sep (tcomps c p) := normalizePath_false_form g.ok p

theorem tcomps_canon {c : Cfg} (g : CfgGood c) {ks : List Str} (h : KsOk c ks) : tcomps c (canon c.sep ks) = ks := by
  rw [tcomps, C_canon g.ok h.comps, h.map_fold]

theorem normalizePath_canon {c : Cfg} (g : CfgGood c) {ks : List Str} (h : KsOk c ks) :
    normalizePath c (canon c.sep ks) false = canon c.sep ks := by
  rw [normalizePath_tcomps g, tcomps_canon g h]

theorem canon_inj {c : Cfg} (g : CfgGood c) {a b : List Str} (ha : KsOk c a) (hb : KsOk c b)
    (h : canon c.sep a = canon c.sep b) : a = b := by
  have := congrArg (C c) h
  rwa [C_canon g.ok ha.comps, C_canon g.ok hb.comps] at this

theorem length_le_intercalate (sep : Char) (l : List Str) (h : GoodComps sep l) :
    l.length ≤ (intercalate sep l).length := by
  induction l with
  | nil => simp
  | cons p rest ih =>
    have hp : 1 ≤ p.length := by
      have := (h p (by simp)).1
      cases p with
      | nil => exact absurd rfl this
      | cons _ _ => simp
    cases rest with
    | nil => simpa [intercalate] using hp
    | cons q rest =>
      have := ih (fun f hf => h f (List.mem_cons_of_mem _ hf))
      simp only [intercalate, List.length_append, List.length_cons] at this ⊢
      omega

theorem length_lt_canon {c : Cfg} {ks : List Str} (h : KsOk c ks) : ks.length < (canon c.sep ks).length + 2 := by
  have := length_le_intercalate c.sep ks h.comps.1
  simp only [canon, List.length_cons]; omega

/-! ### `_path_is_root`, `_split` -/

theorem pathIsRoot_canon_nil {c : Cfg} (g : CfgGood c) : pathIsRoot c (canon c.sep []) = true := by
  simp only [pathIsRoot, split_canon_nil g.ok]
  simp [canon, intercalate]

theorem pathIsRoot_canon_snoc {c : Cfg} (g : CfgGood c) {init : List Str} {a : Str} (h : KsOk c (init ++ [a])) :
    pathIsRoot c (canon c.sep (init ++ [a])) = false := by
  simp only [pathIsRoot, split_canon_concat g.ok init a h.comps, beq_eq_false_iff_ne, ne_eq]
  intro e
  have := canon_inj g h.left h e
  simpa using congrArg List.length this

theorem hsplit_canon_snoc {c : Cfg} (g : CfgGood c) {init : List Str} {a : Str} (h : KsOk c (init ++ [a])) :
    hsplit c (canon c.sep (init ++ [a])) = (canon c.sep init, a) := by
  have ha : a ≠ [] := (h a (by simp)).1.1 a (by simp) |>.1
  simp only [hsplit, splitLoop, split_canon_concat g.ok init a h.comps]
  cases a with
  | nil => exact absurd rfl ha
  | cons x xs => simp

/-! ### `_unsafe_path_to_node`, `_get_node` -/

theorem unsafePathToNode_canon {c : Cfg} (g : CfgGood c) (s : HC) :
    ∀ (ks : List Str), KsOk c ks → ∀ f, ks.length < f → unsafePathToNode c s f (canon c.sep ks) = .ok (res s ks) := by
  intro ks
  induction ks using snoc_induction with
  | hnil =>
    intro _ f hf
    cases f with
    | zero => omega
    | succ f => simp [unsafePathToNode, pathIsRoot_canon_nil g]
  | hsnoc init a ih =>
    intro h f hf
    cases f with
    | zero => omega
    | succ f =>
      simp only [List.length_append, List.length_singleton] at hf
      simp only [unsafePathToNode, pathIsRoot_canon_snoc g h, hsplit_canon_snoc g h, Bool.false_eq_true, if_false]
      rw [ih h.left f (by omega), res_snoc]
      cases res s init <;> rfl

theorem getNode_path {c : Cfg} (g : CfgGood c) (s : HC) (p : Str) :
    getNode c s none (some p) = .ok (res s (tcomps c p)) := by
  have hk := tcomps_ok g p
  simp only [getNode, normalizePath_tcomps g]
  split
  · next hr =>
    rcases List.eq_nil_or_concat (tcomps c p) with e | ⟨i, a, e⟩
    · rw [e]; rfl
    · rw [List.concat_eq_append] at e
      rw [e] at hr hk
      rw [pathIsRoot_canon_snoc g hk] at hr
      exact absurd hr (by simp)
  · exact unsafePathToNode_canon g s _ hk _ (length_lt_canon hk)

theorem getNode_canon {c : Cfg} (g : CfgGood c) (s : HC) {ks : List Str} (h : KsOk c ks) :
    getNode c s none (some (canon c.sep ks)) = .ok (res s ks) := by
  rw [getNode_path g, tcomps_canon g h]

/-! ### the executable guard's components -/

theorem compsAux_canon {c : Cfg} (g : CfgGood c) :
    ∀ (ks : List Str), KsOk c ks → ∀ f acc, ks.length < f → compsAux c f (canon c.sep ks) acc = ks ++ acc := by
  intro ks
  induction ks using snoc_induction with
  | hnil =>
    intro _ f acc hf
    cases f with
    | zero => omega
    | succ f => simp [compsAux, pathIsRoot_canon_nil g]
  | hsnoc init a ih =>
    intro h f acc hf
    cases f with
    | zero => omega
    | succ f =>
      simp only [List.length_append, List.length_singleton] at hf
      simp only [compsAux, pathIsRoot_canon_snoc g h, hsplit_canon_snoc g h, Bool.false_eq_true, if_false]
      rw [ih h.left f _ (by omega)]; simp

theorem pcomps_eq {c : Cfg} (g : CfgGood c) (p : Str) : pcomps c p = tcomps c p := by
  simp only [pcomps, normalizePath_tcomps g]
  rw [compsAux_canon g _ (tcomps_ok g p) _ _ (length_lt_canon (tcomps_ok g p))]; simp

/-! ### `full_path`'s join -/

theorem join_root_names {c : Cfg} (g : CfgGood c) {ks : List Str} (h : KsOk c ks) :
    join c ([] :: ks) = canon c.sep ks := by
  have : ne ([] :: ks) = ks := by
    rw [ne_cons]
    simp only [ne, List.filter_cons, List.isEmpty_nil, Bool.not_true, Bool.false_eq_true, if_false,
      List.filter_nil, List.nil_append]
    exact ne_of_good h.comps.1
  rw [← join_ne, this]
  exact join_good g.ok ks h.comps.1 h.comps.2

/-- `provider.join(parent_path, child_name)` on canonical paths (the paths `walk` reports) -/
theorem joinOpt_canon {c : Cfg} (g : CfgGood c) {init : List Str} {a : Str} (h : KsOk c (init ++ [a])) :
    joinOpt c (some (canon c.sep init)) a = canon c.sep (init ++ [a]) :=
  join_canon_concat g.ok init a h.comps

theorem mkCfg_good (cs : Bool) : CfgGood (mkCfg cs false) where
  ok := { alt_ne_sep := by intro a ha; simp [mkCfg] at ha ⊢; subst ha; decide
          lower_idem := simpleLower_idem
          lower_sep := simpleLower_eq_slash
          noWin := rfl }
  la := fun _ a ha x hx => by
    simp [mkCfg] at ha hx
    subst ha
    exact (simpleLower_eq_backslash x).1 hx

end CS.HCache
