import Csverif.Proofs.HCache.Refine
/- C19 helper lemmas, part 17: `rename` refines the specification. -/
namespace CS.HCache
open CS.Path CS.HDict
set_option linter.unusedSimpArgs false
set_option linter.unusedVariables false

theorem DelCtx.view_detach {c : Cfg} {s : HC} {init : List Str} {a : Str} {p n : Nat} (d : DelCtx c s init a p n) :
    view (detachSt c s p n a) = rmV (init ++ [a]) (view s) := by
  funext q
  simp only [rmV]
  by_cases hp : (init ++ [a]) <+: q
  · have hq : q ≠ [] := fun e => by rw [e] at hp; have := hp.length_le; simp at this
    rw [if_pos ⟨hp, hq⟩]
    exact view_none (d.res_detach_in q hp)
  · rw [if_neg (fun h => hp h.1)]
    simp only [view, d.res_detach_out q hp]
    cases hr : res s q with
    | none => rfl
    | some m => simp only [Option.map_some, entOf, (d.delPost.fields m).1, (d.delPost.fields m).2.1]

theorem rmV_idem (k : Key) (v : V) : rmV k (rmV k v) = rmV k v := by
  funext q; simp only [rmV]; split <;> simp_all

/-- the view after a `delete(path=p)` whose target is not the root: `rmV`, whether or not something was there -/
theorem delete_path_view {c : Cfg} (g : CfgGood c) {s : HC} (hc : Coherent c s) (p : Str) (hne : tcomps c p ≠ []) :
    (delete c none (some p) s).2 = .ok () ∧ view (delete c none (some p) s).1 = rmV (tcomps c p) (view s) := by
  refine ⟨delete_total g hc none (some p) (Or.inr rfl), ?_⟩
  have hdv := delete_view g hc none (some p)
  have hlk := getNode_path g s p
  cases hx : res s (tcomps c p) with
  | some x =>
    have hx0 : x ≠ 0 := fun e => by subst e; exact hne (hc.res_root hx)
    exact funext (hdv.1 x _ (by rw [hlk, hx]) hx hx0)
  | none =>
    rw [hdv.2 (fun x hx' => by rw [hlk, hx] at hx'; simp at hx')]
    exact (funext (rmV_of_none hx)).symm

/-- **the view after a successful-by-construction `rename`** of a non-root node to a non-root path -/
theorem rename_view {c : Cfg} (g : CfgGood c) {s : HC} (hc : Coherent c s) (hnf : NoFalsyV (view s)) (old new : Str)
    (hg : tcomps c new ≠ []) {n : Nat} (hn : res s (tcomps c old) = some n) (hroot : (s.nd n).isRoot = false) :
    (rename c old new s).2 = .ok () ∧
      view (rename c old new s).1 =
        graftV (tcomps c new) (fun r => view s (tcomps c old ++ r))
          (ensureV (tcomps c new).dropLast (rmV (tcomps c new) (rmV (tcomps c old) (view s)))) := by
  have hko : tcomps c old ≠ [] := by
    intro e; rw [e] at hn; simp at hn; subst hn
    rw [hc.root_isRoot] at hroot; simp at hroot
  obtain ⟨init, a, hk⟩ := snoc_of_ne_nil hko
  have hn' := hn
  rw [hk] at hn'
  obtain ⟨pp, hp, hkk⟩ := res_snoc_some hn'
  have d : DelCtx c s init a pp n := ⟨g, hc, hp, hkk⟩
  have hsub1 := d.sub
  have hc1 := d.coherent_detach
  have hv1 : view (detachSt c s pp n a) = rmV (tcomps c old) (view s) := by rw [hk]; exact d.view_detach
  have hres1 : ∀ q, resFrom (detachSt c s pp n a) n q = resFrom s n q := fun q =>
    resFrom_congr q n (fun r x hx => by
      rw [d.children_detach]
      have : x ≠ pp := fun e => d.p_not_below r (e ▸ hx)
      simp [this])
  obtain ⟨hok2, hv2⟩ := delete_path_view g hc1 new hg
  have hd2 := (delete_spec g (detachSt c s pp n a) none (some new) hc1).1
  rw [rename_run, getNode_path g, hn]
  simp only [hroot, Bool.false_eq_true, if_false]
  rw [deleteNode_ctx d]
  simp only
  cases hrun2 : delete c none (some new) (detachSt c s pp n a) with
  | mk s2 r2 =>
    rw [hrun2] at hd2 hok2 hv2
    simp only at hd2 hok2 hv2
    subst hok2
    simp only
    have hE : ∀ m, InSub (detachSt c s pp n a) n m → ¬ False := fun _ _ h => h
    have hsub2 : Sub c s2 n := hsub1.frame (hd2.frameX (fun _ => False)) hE hd2.idsub
    have hres2 : ∀ q, resFrom s2 n q = resFrom (detachSt c s pp n a) n q :=
      fun q => hsub1.resFrom_frame (hd2.frameX (fun _ => False)) hE q
    have hoidn : (s2.nd n).oid = (s.nd n).oid := by rw [(hd2.fields n).2.1, (d.delPost.fields n).2.1]
    -- nothing reachable holds the id of the node being moved
    have hnoholder : ∀ o, (s2.nd n).oid = some o → o ≠ 0 → ∀ m, Reach s2 m → (s2.nd m).oid ≠ some o := by
      intro o ho h0 m hm hmo
      have hm1 : Reach (detachSt c s pp n a) m := hd2.reach hm
      have hm0 : Reach s m := d.reach_detach_old hm1
      have e1 : (s.nd m).oid = some o := by
        rw [← (d.delPost.fields m).2.1, ← (hd2.fields m).2.1]; exact hmo
      have e2 : (s.nd n).oid = some o := by rw [← hoidn]; exact ho
      have := hc.oid_unique hm0 ⟨_, d.hn⟩ e1 e2 h0
      subst this
      exact hsub1.unreach [] m rfl hm1
    have hfree : ∀ o, (s2.nd n).oid = some o → o ≠ 0 → (s2.nd 0).oid ≠ some o :=
      fun o ho h0 => hnoholder o ho h0 0 (Reach.root s2)
    have hno0 : (s2.nd n).oid ≠ some 0 := by
      rw [hoidn]
      intro e
      exact hnf (tcomps c old) (s.nd n).type (by rw [view_some hn]; simp [entOf, e])
    obtain ⟨hct, hsucc, _, _, hview, htot, _, _⟩ := insertNode_spec g (tcomps_ok g new) hg hd2.coh hsub2 hfree
      (insFuel (canon c.sep (tcomps c new))) _ rfl
    have hfuel : (tcomps c new).length ≤ insFuel (canon c.sep (tcomps c new)) := by
      have := length_lt_canon (tcomps_ok g new); simp only [insFuel]; omega
    have hev := insertPre_evict g (tcomps_ok g new) hg hd2.coh hsub2 hfree
    simp only [insert, normalizePath_tcomps g]
    cases hrun3 : insertNode c (insFuel (canon c.sep (tcomps c new))) n (canon c.sep (tcomps c new)) s2 with
    | mk s3 r3 =>
      rw [hrun3] at hct hsucc hview htot
      simp only at hct hsucc hview htot
      have hr3 := htot hfuel hno0
      subst hr3
      simp only
      rw [checkFull_ok g hct ⟨_, (hsucc rfl).1⟩]
      refine ⟨rfl, ?_⟩
      -- the evictions inside `__insert_node` find nothing more to evict
      have hW : view (insertPre c n (canon c.sep (tcomps c new)) s2).1 = rmV (tcomps c new) (view s2) := by
        cases hon : (s2.nd n).oid with
        | none => exact hev.1 (by rw [hon]; rfl)
        | some o =>
          cases o with
          | zero => exact absurd hon hno0
          | succ k =>
            refine ((hev.2 (k + 1) hon (by simp)).2 ?_)
            rintro kx ⟨t, ht⟩
            simp only [rmV] at ht
            split at ht
            · simp at ht
            · obtain ⟨x, hx, he⟩ := view_eq_some ht
              have : (s2.nd x).oid = some (k + 1) := by have := congrArg Prod.snd he; simpa [entOf] using this
              exact hnoholder (k + 1) hon (by simp) x ⟨_, hx⟩ this
      rw [hview rfl, hW, hv2, rmV_idem, hv1]
      congr 1
      funext r
      simp only [subview, view, hres2, hres1]
      have hsplit : res s (tcomps c old ++ r) = resFrom s n r := by
        unfold res
        rw [resFrom_append]
        have : resFrom s 0 (tcomps c old) = some n := hn
        rw [this]; rfl
      rw [hsplit]
      cases hr : resFrom s n r with
      | none => rfl
      | some m =>
        simp only [Option.map_some, entOf, (hd2.fields m).1, (hd2.fields m).2.1, (d.delPost.fields m).1, (d.delPost.fields m).2.1]

end CS.HCache

namespace CS.HCache
open CS.Path CS.HDict
set_option linter.unusedSimpArgs false
set_option linter.unusedVariables false

/-! ### lookups of `subD` and `graftD` -/

theorem dlook_map_prefix (k : Key) : ∀ (t : D) (r : Key), dlook (t.map (fun e => (k ++ e.1, e.2))) (k ++ r) = dlook t r := by
  intro t
  induction t with
  | nil => intro r; rfl
  | cons e t ih =>
    intro r
    simp only [List.map_cons, dlook_cons, List.append_cancel_left_eq, ih]

theorem dlook_map_prefix_out (k : Key) : ∀ (t : D) (q : Key), ¬ k <+: q → dlook (t.map (fun e => (k ++ e.1, e.2))) q = none := by
  intro t
  induction t with
  | nil => intro q _; rfl
  | cons e t ih =>
    intro q hq
    simp only [List.map_cons, dlook_cons]
    rw [if_neg (fun h : k ++ e.1 = q => hq (by rw [← h]; exact List.prefix_append _ _)), ih q hq]

theorem dlook_append (a b : D) (q : Key) : dlook (a ++ b) q = (dlook a q).or (dlook b q) := by
  induction a with
  | nil => simp [dlook, dget]
  | cons e a ih =>
    simp only [List.cons_append, dlook_cons]
    split
    · simp
    · exact ih

theorem dlook_graftD {k : Key} (hk : k ≠ []) (t w : D) : dlook (graftD k t w) = graftV k (dlook t) (dlook w) := by
  funext q
  simp only [graftD, dlook_append, graftV]
  by_cases hp : k <+: q
  · rw [if_pos hp]
    obtain ⟨r, rfl⟩ := hp
    rw [dlook_map_prefix, List.drop_left, dlook_rmD]
    have hq : k ++ r ≠ [] := by simp [hk]
    simp only [rmV, List.prefix_append, true_and, hq, ne_eq, not_false_eq_true, if_true, Option.or_none]
  · rw [if_neg hp, dlook_map_prefix_out k t q hp, dlook_rmD]
    simp only [Option.none_or, rmV]
    rw [if_neg (fun h => hp h.1)]

theorem dlook_filterMap_sub (k : Key) (d : D) : ∀ (l : D), (∀ e ∈ l, e ∈ d) → ∀ r,
    dlook (l.filterMap (fun e => if k <+: e.1 ∧ dlook d e.1 = some e.2 then some (e.1.drop k.length, e.2) else none)) r =
      ((l.find? (fun e => decide (e.1 = k ++ r) && decide (dlook d e.1 = some e.2))).map (·.2)) := by
  intro l
  induction l with
  | nil => intro _ r; rfl
  | cons e l ih =>
    intro hl r
    have ihl := ih (fun e' he' => hl e' (List.mem_cons_of_mem _ he')) r
    simp only [List.filterMap_cons, List.find?_cons]
    by_cases heff : k <+: e.1 ∧ dlook d e.1 = some e.2
    · rw [if_pos heff]
      simp only [dlook_cons]
      obtain ⟨r', hr'⟩ := heff.1
      by_cases hk : e.1 = k ++ r
      · have h1 : e.1.drop k.length = r := by rw [hk, List.drop_left]
        have h2 : (decide (e.1 = k ++ r) && decide (dlook d e.1 = some e.2)) = true := by
          simp only [Bool.and_eq_true, decide_eq_true_eq]; exact ⟨hk, heff.2⟩
        rw [if_pos h1, h2]; rfl
      · have : e.1.drop k.length ≠ r := by
          rw [← hr', List.drop_left]
          intro e'; exact hk (by rw [← hr', e'])
        have h2 : (decide (e.1 = k ++ r) && decide (dlook d e.1 = some e.2)) = false := by
          simp only [Bool.and_eq_false_iff, decide_eq_false_iff_not]; exact Or.inl hk
        rw [if_neg this, h2]
        exact ihl
    · rw [if_neg heff]
      simp only
      have : (decide (e.1 = k ++ r) && decide (dlook d e.1 = some e.2)) = false := by
        simp only [Bool.and_eq_false_iff, decide_eq_false_iff_not]
        by_cases hk : e.1 = k ++ r
        · right; intro h; exact heff ⟨hk ▸ List.prefix_append _ _, h⟩
        · exact Or.inl hk
      rw [this]
      exact ihl

theorem dlook_subD (k : Key) (d : D) (r : Key) : dlook (subD k d) r = dlook d (k ++ r) := by
  rw [subD, dlook_filterMap_sub k d d (fun _ h => h) r]
  cases hf : d.find? (fun e => decide (e.1 = k ++ r) && decide (dlook d e.1 = some e.2)) with
  | some e =>
    have := List.find?_some hf
    simp only [Bool.and_eq_true, decide_eq_true_eq] at this
    rw [← this.1, this.2]; rfl
  | none =>
    cases hd : dlook d (k ++ r) with
    | none => rfl
    | some x =>
      exfalso
      rw [List.find?_eq_none] at hf
      have := hf (k ++ r, x) (dlook_mem hd)
      simp [hd] at this

theorem refine_rename {c : Cfg} (g : CfgGood c) {s : HC} {d : D} (hc : Coherent c s) (habs : Abs s d)
    (hnf : NoFalsyV (view s)) (old new : Str) (hg : tcomps c new ≠ []) :
    ResAgree (rename c old new s).2 (specStep c d (.rename old new)).2 ∧
      Abs (rename c old new s).1 (specStep c d (.rename old new)).1 := by
  simp only [specStep, pcomps_eq g]
  cases hn : res s (tcomps c old) with
  | none =>
    have : dlook d (tcomps c old) = none := by rw [habs, view_none hn]
    rw [this]
    simp only
    rw [rename_run, getNode_path g, hn]
    simp only
    obtain ⟨a1, a2⟩ := delete_path_view g hc new hg
    exact ⟨a1, by unfold Abs; rw [dlook_rmD, habs, a2]⟩
  | some n =>
    have : dlook d (tcomps c old) = some (entOf s n) := by rw [habs, view_some hn]
    rw [this]
    simp only
    by_cases hko : tcomps c old = []
    · rw [if_pos hko]
      rw [hko] at hn; simp at hn; subst hn
      rw [rename_run, getNode_path g, hko]
      simp only [res_nil, hc.root_isRoot, if_true]
      exact ⟨rfl, habs⟩
    · rw [if_neg hko]
      have hroot : (s.nd n).isRoot = false := by
        obtain ⟨init, a, hk⟩ := snoc_of_ne_nil hko
        rw [hk] at hn
        obtain ⟨p, hp, hkk⟩ := res_snoc_some hn
        exact (hc.link ⟨_, hp⟩ (dget_mem hkk)).2.2.2.1
      obtain ⟨a1, a2⟩ := rename_view g hc hnf old new hg hn hroot
      refine ⟨a1, ?_⟩
      unfold Abs
      rw [a2, dlook_graftD hg, dlook_ensureD, dlook_rmD, dlook_rmD, habs]
      congr 1
      funext r
      rw [dlook_subD, habs]

end CS.HCache
