import Csverif.Proofs.HCache.Walk
/- C19 helper lemmas, part 5: `_delete` (detach a child with its subtree and pop the subtree's ids). -/
namespace CS.HCache
open CS.Path
set_option linter.unusedSimpArgs false
set_option linter.unusedVariables false

/-- state after `_delete` of the child `n` (key `a`) of `p` -/
def detachSt (c : Cfg) (s : HC) (p n : Nat) (a : Str) : HC :=
  let s1 := s.setNd p { s.nd p with children := derase (s.nd p).children a }
  let w := walkNodes c s1 (s1.heap.length + 1) n (match fullPath c s1 n with | .ok x => x | .error _ => none)
  let s2 : HC := { s1 with idmap := eraseAll s1.idmap (oidsOf s1 w) }
  s2.setNd n { s2.nd n with parent := none }

theorem deleteNode_eq (c : Cfg) (s : HC) (n p : Nat) (a : Str) (h1 : (s.nd n).isRoot = false) (h2 : (s.nd n).parent = some p)
    (h3 : (s.nd n).name = a) (h4 : dget (s.nd p).children a = some n)
    (h5 : ∃ x, fullPath c (s.setNd p { s.nd p with children := derase (s.nd p).children a }) n = .ok x) :
    deleteNode c (some n) s = (detachSt c s p n a, .ok (some n)) := by
  obtain ⟨x, hx⟩ := h5
  simp only [deleteNode, bind_run, getS_run, h1, h2, h3, h4, modS_run, walkM_run, Bool.false_eq_true, if_false,
    walk, hx, popIds_run, ne_eq, not_true_eq_false, pure_run, detachSt, walkNodes]

theorem deleteNode_none (c : Cfg) (s : HC) : deleteNode c none s = (s, .ok none) := rfl

theorem deleteNode_root (c : Cfg) (s : HC) (n : Nat) (h : (s.nd n).isRoot = true) :
    deleteNode c (some n) s = (s, .ok none) := by
  simp [deleteNode, bind_run, h]

/-- `resFrom` only reads the children of the nodes it passes -/
theorem resFrom_congr {s s' : HC} : ∀ (q : List Str) (m : Nat),
    (∀ r x, resFrom s m r = some x → (s'.nd x).children = (s.nd x).children) → resFrom s' m q = resFrom s m q := by
  intro q
  induction q with
  | nil => intro m _; rfl
  | cons k r ih =>
    intro m h
    simp only [resFrom, h [] m rfl]
    cases hd : dget (s.nd m).children k with
    | none => rfl
    | some ch => exact ih ch (fun r x hx => h (k :: r) x (by simp [resFrom, hd, hx]))

/-- the situation in which `_delete` is called: `n` is the child with key `a` of the node `p` at `init` -/
structure DelCtx (c : Cfg) (s : HC) (init : List Str) (a : Str) (p n : Nat) : Prop where
  g  : CfgGood c
  hc : Coherent c s
  hp : res s init = some p
  hk : dget (s.nd p).children a = some n

namespace DelCtx
variable {c : Cfg} {s : HC} {init : List Str} {a : Str} {p n : Nat}

theorem hn (d : DelCtx c s init a p n) : res s (init ++ [a]) = some n := by
  rw [res_snoc, d.hp]; exact d.hk

theorem lnk (d : DelCtx c s init a p n) :
    n < s.heap.length ∧ (s.nd n).parent = some p ∧ (s.nd n).name = a ∧ (s.nd n).isRoot = false ∧
      NameOk c a ∧ ((s.nd n).oid = none ∨ (s.nd n).oid ≠ (s.nd p).oid) :=
  d.hc.link ⟨init, d.hp⟩ (dget_mem d.hk)

theorem pne (d : DelCtx c s init a p n) : p ≠ n := d.hc.child_ne d.hp d.hk

theorem plt (d : DelCtx c s init a p n) : p < s.heap.length := d.hc.valid ⟨_, d.hp⟩

theorem nlt (d : DelCtx c s init a p n) : n < s.heap.length := d.lnk.1

theorem n_ne_zero (d : DelCtx c s init a p n) : n ≠ 0 := by
  intro e
  have := d.hn
  rw [e] at this
  have := d.hc.res_root this
  simp at this

/-- nodes below `n`: `p` is not among them -/
theorem p_not_below (d : DelCtx c s init a p n) : ∀ r, resFrom s n r ≠ some p := by
  intro r h
  have h2 := res_of_resFrom d.hn h
  have := d.hc.res_inj d.hp h2
  have := congrArg List.length this
  simp at this

def s1 (s : HC) (p : Nat) (a : Str) : HC := s.setNd p { s.nd p with children := derase (s.nd p).children a }

theorem nd_s1 (d : DelCtx c s init a p n) (m : Nat) :
    (s1 s p a).nd m = if m = p then { s.nd p with children := derase (s.nd p).children a } else s.nd m := by
  simp only [s1, nd_setNd, d.plt, and_true]
  by_cases h : p = m
  · subst h; simp
  · simp [h, Ne.symm h]

theorem fullPath_s1 (d : DelCtx c s init a p n) : fullPath c (s1 s p a) n = .ok (some (canon c.sep (init ++ [a]))) := by
  rw [fullPath_congr c (s := s) (s' := s1 s p a) (by simp [s1]) (fun i => by rw [d.nd_s1]; split <;> simp_all)]
  exact d.hc.fullPath d.g d.hn

theorem resFrom_s1 (d : DelCtx c s init a p n) (q : List Str) : resFrom (s1 s p a) n q = resFrom s n q :=
  resFrom_congr q n (fun r x hx => by
    rw [d.nd_s1]
    have : x ≠ p := fun e => d.p_not_below r (e ▸ hx)
    simp [this])

theorem subOk (d : DelCtx c s init a p n) : SubOk s n := fun q m h =>
  have hr : Reach s m := ⟨_, res_of_resFrom d.hn h⟩
  ⟨d.hc.keys_nodup hr, d.hc.file_leaf hr⟩

theorem subOk_s1 (d : DelCtx c s init a p n) : SubOk (s1 s p a) n := by
  intro q m h
  rw [d.resFrom_s1] at h
  have hm : m ≠ p := fun e => d.p_not_below q (e ▸ h)
  rw [d.nd_s1]; simp only [hm, if_false]
  exact d.subOk q m h

/-- the ids popped by `_delete`: exactly the truthy ids of the nodes below `n` -/
theorem mem_popped (d : DelCtx c s init a p n) (o : Oid) :
    o ∈ oidsOf (s1 s p a) (walkNodes c (s1 s p a) ((s1 s p a).heap.length + 1) n
        (match fullPath c (s1 s p a) n with | .ok x => x | .error _ => none)) ↔
      ∃ r m, resFrom s n r = some m ∧ (s.nd m).oid = some o ∧ o ≠ 0 := by
  rw [mem_oidsOf]
  constructor
  · rintro ⟨m, hm, ho, h0⟩
    obtain ⟨r, hr⟩ := walkNodes_sound c _ _ _ _ m (fun q x hx => (d.subOk_s1 q x hx).1) hm
    rw [d.resFrom_s1] at hr
    refine ⟨r, m, hr, ?_, h0⟩
    rw [d.nd_s1] at ho
    have : m ≠ p := fun e => d.p_not_below r (e ▸ hr)
    simpa [this] using ho
  · rintro ⟨r, m, hr, ho, h0⟩
    refine ⟨m, ?_, ?_, h0⟩
    · apply walkNodes_complete c _ r _ _ _ _ d.subOk_s1 (by rw [d.resFrom_s1]; exact hr)
      have := d.hc.depth_lt (res_of_resFrom d.hn hr)
      simp only [s1, setNd_len, List.length_append, List.length_singleton] at this ⊢
      omega
    · rw [d.nd_s1]
      have : m ≠ p := fun e => d.p_not_below r (e ▸ hr)
      simpa [this] using ho

theorem detach_len (d : DelCtx c s init a p n) : (detachSt c s p n a).heap.length = s.heap.length := by
  simp [detachSt]

theorem nd_with_idmap (s : HC) (dd : List (Oid × Nat)) (m : Nat) : ({ s with idmap := dd } : HC).nd m = s.nd m := rfl

theorem nd_detach (d : DelCtx c s init a p n) (m : Nat) :
    (detachSt c s p n a).nd m =
      if m = n then { s.nd n with parent := none }
      else if m = p then { s.nd p with children := derase (s.nd p).children a }
      else s.nd m := by
  simp only [detachSt, nd_setNd, setNd_len, d.nlt, d.plt, and_true, nd_with_idmap]
  by_cases h : n = m
  · subst h; simp [d.pne]
  · by_cases h2 : p = m
    · subst h2; simp [h, Ne.symm h]
    · simp [h, h2, Ne.symm h, Ne.symm h2]

theorem detach_idmap_mem (d : DelCtx c s init a p n) {e : Oid × Nat} (h : e ∈ (detachSt c s p n a).idmap) : e ∈ s.idmap := by
  simp only [detachSt, setNd_idmap] at h
  exact mem_eraseAll h

theorem detach_idmap_keys (d : DelCtx c s init a p n) : (keys (detachSt c s p n a).idmap).Nodup := by
  simp only [detachSt, setNd_idmap]
  exact nodup_eraseAll d.hc.map_keys _

theorem detach_dget_in (d : DelCtx c s init a p n) {o : Oid}
    (h : ∃ r m, resFrom s n r = some m ∧ (s.nd m).oid = some o ∧ o ≠ 0) : dget (detachSt c s p n a).idmap o = none := by
  simp only [detachSt, setNd_idmap]
  have := d.mem_popped o
  simp only [s1] at this
  exact dget_eraseAll_of_mem d.hc.map_keys (this.2 h)

theorem detach_dget_out (d : DelCtx c s init a p n) {o : Oid}
    (h : ¬ ∃ r m, resFrom s n r = some m ∧ (s.nd m).oid = some o ∧ o ≠ 0) :
    dget (detachSt c s p n a).idmap o = dget s.idmap o := by
  simp only [detachSt, setNd_idmap]
  have := d.mem_popped o
  simp only [s1] at this
  exact dget_eraseAll_of_not_mem (fun hm => h (this.1 hm))

/-- children after the detach -/
theorem children_detach (d : DelCtx c s init a p n) (m : Nat) :
    ((detachSt c s p n a).nd m).children = if m = p then derase (s.nd p).children a else (s.nd m).children := by
  rw [d.nd_detach]
  by_cases h1 : m = n
  · subst h1; simp [Ne.symm d.pne]
  · by_cases h2 : m = p
    · subst h2; simp [h1]
    · simp [h1, h2]

/-- resolution after the detach: everything at or below `init ++ [a]` is gone, the rest is unchanged -/
theorem res_detach_out (d : DelCtx c s init a p n) : ∀ (q : List Str), ¬ (init ++ [a]) <+: q →
    res (detachSt c s p n a) q = res s q := by
  intro q
  induction q using snoc_induction with
  | hnil => intro _; rfl
  | hsnoc i k ih =>
    intro hq
    have hi : ¬ (init ++ [a]) <+: i := fun h => hq (h.trans (List.prefix_append _ _))
    rw [res_snoc, res_snoc, ih hi]
    cases hm : res s i with
    | none => rfl
    | some m =>
      simp only [Option.bind_some, d.children_detach]
      split
      · next hmp =>
        subst hmp
        have : i = init := d.hc.res_inj hm d.hp
        subst this
        have : k ≠ a := fun e => hq (e ▸ List.prefix_refl _)
        exact dget_derase_ne this
      · rfl

theorem res_detach_in (d : DelCtx c s init a p n) (q : List Str) (h : (init ++ [a]) <+: q) :
    res (detachSt c s p n a) q = none := by
  obtain ⟨r, rfl⟩ := h
  have hinit : res (detachSt c s p n a) init = some p := by
    rw [d.res_detach_out init (fun h => by have := h.length_le; simp at this; omega), d.hp]
  have : res (detachSt c s p n a) (init ++ [a]) = none := by
    rw [res_snoc, hinit]
    simp only [Option.bind_some, d.children_detach, if_true]
    exact dget_derase_self (d.hc.keys_nodup ⟨_, d.hp⟩) a
  unfold res at this ⊢
  rw [resFrom_append, this]; rfl

theorem reach_detach (d : DelCtx c s init a p n) {m : Nat} :
    Reach (detachSt c s p n a) m ↔ ∃ q, ¬ (init ++ [a]) <+: q ∧ res s q = some m := by
  constructor
  · rintro ⟨q, hq⟩
    by_cases h : (init ++ [a]) <+: q
    · rw [d.res_detach_in q h] at hq; simp at hq
    · exact ⟨q, h, by rw [← d.res_detach_out q h]; exact hq⟩
  · rintro ⟨q, h, hq⟩
    exact ⟨q, by rw [d.res_detach_out q h]; exact hq⟩

theorem reach_detach_old (d : DelCtx c s init a p n) {m : Nat} (h : Reach (detachSt c s p n a) m) : Reach s m := by
  obtain ⟨q, _, hq⟩ := d.reach_detach.1 h
  exact ⟨q, hq⟩

/-- a node that survives the detach is not below `n` -/
theorem not_below_of_reach (d : DelCtx c s init a p n) {m : Nat} (h : Reach (detachSt c s p n a) m) :
    ∀ r, resFrom s n r ≠ some m := by
  intro r hr
  obtain ⟨q, hq, hm⟩ := d.reach_detach.1 h
  have := d.hc.res_inj hm (res_of_resFrom d.hn hr)
  exact hq (this ▸ List.prefix_append _ _)

/-- **`_delete` preserves coherence** -/
theorem coherent_detach (d : DelCtx c s init a p n) : Coherent c (detachSt c s p n a) := by
  have hc := d.hc
  have hn0 := d.n_ne_zero
  have nd0 : ∀ m, m ≠ n → ((detachSt c s p n a).nd m).isRoot = (s.nd m).isRoot ∧
      ((detachSt c s p n a).nd m).parent = (s.nd m).parent ∧ ((detachSt c s p n a).nd m).type = (s.nd m).type ∧
      ((detachSt c s p n a).nd m).name = (s.nd m).name ∧ ((detachSt c s p n a).nd m).oid = (s.nd m).oid := by
    intro m hm
    rw [d.nd_detach]
    by_cases h2 : m = p
    · subst h2; simp [hm]
    · simp [hm, h2]
  have oid_all : ∀ m, ((detachSt c s p n a).nd m).oid = (s.nd m).oid := by
    intro m
    by_cases hm : m = n
    · subst hm; rw [d.nd_detach]; simp
    · exact (nd0 m hm).2.2.2.2
  have type_all : ∀ m, ((detachSt c s p n a).nd m).type = (s.nd m).type := by
    intro m
    by_cases hm : m = n
    · subst hm; rw [d.nd_detach]; simp
    · exact (nd0 m hm).2.2.1
  have ch_sub : ∀ m e, e ∈ ((detachSt c s p n a).nd m).children → e ∈ (s.nd m).children := by
    intro m e he
    rw [d.children_detach] at he
    split at he
    · next h => subst h; exact mem_derase he
    · exact he
  refine ⟨by rw [d.detach_len]; exact hc.root_valid, ?_, ?_, ?_, ?_, ?_, ?_, ?_, ?_, d.detach_idmap_keys, ?_, ?_⟩
  · rw [(nd0 0 (Ne.symm hn0)).1]; exact hc.root_isRoot
  · rw [(nd0 0 (Ne.symm hn0)).2.1]; exact hc.root_parent
  · rw [type_all]; exact hc.root_type
  · rw [(nd0 0 (Ne.symm hn0)).2.2.2.1]; exact hc.root_name
  · rw [oid_all]; exact hc.root_oid
  · intro p' k ch hp' hmem
    have hp's := d.reach_detach_old hp'
    have hmem_s := ch_sub p' (k, ch) hmem
    have l := hc.link hp's hmem_s
    have hch : ch ≠ n := by
      intro e
      subst e
      -- then p' = p and k = a, but the key a has been erased from p
      have e1 : p' = p := Option.some.inj (l.2.1.symm.trans d.lnk.2.1)
      have e2 : k = a := l.2.2.1.symm.trans d.lnk.2.2.1
      subst e1; subst e2
      rw [d.children_detach] at hmem
      simp only [if_true] at hmem
      exact not_mem_keys_derase (hc.keys_nodup hp's) k (mem_keys_of_mem hmem)
    have z := nd0 ch hch
    rw [d.detach_len, z.2.1, z.2.2.2.1, z.1, oid_all, oid_all]
    exact l
  · intro p' hp'
    have hp's := d.reach_detach_old hp'
    rw [d.children_detach]
    split
    · next h => subst h; exact nodup_keys_derase (hc.keys_nodup hp's) a
    · exact hc.keys_nodup hp's
  · intro p' hp' ht
    have hp's := d.reach_detach_old hp'
    rw [type_all] at ht
    have := hc.file_leaf hp's ht
    rw [d.children_detach]
    split
    · next h => subst h; rw [this]; rfl
    · exact this
  · intro o m hm
    have hs := hc.map_sound (d.detach_idmap_mem hm)
    rw [oid_all]
    refine ⟨?_, hs.2⟩
    obtain ⟨q, hq⟩ := hs.1
    apply d.reach_detach.2
    refine ⟨q, ?_, hq⟩
    intro hpre
    obtain ⟨r, rfl⟩ := hpre
    obtain ⟨x, hx, hr⟩ := res_prefix hq
    rw [d.hn] at hx
    cases hx
    have hg := d.detach_dget_in ⟨r, m, hr, hs.2.1, hs.2.2⟩
    rw [dget_of_mem d.detach_idmap_keys hm] at hg
    simp at hg
  · intro m o hm ho h0
    rw [oid_all] at ho
    have hms := d.reach_detach_old hm
    have hin := hc.map_complete hms ho h0
    apply dget_mem
    rw [d.detach_dget_out, dget_of_mem hc.map_keys hin]
    rintro ⟨r, m', hr, ho', _⟩
    have hm' : Reach s m' := ⟨_, res_of_resFrom d.hn hr⟩
    have := hc.oid_unique hm' hms ho' ho h0
    subst this
    exact d.not_below_of_reach hm r hr

end DelCtx
end CS.HCache
