import Csverif.Proofs.HCache.Insert
/- C19 helper lemmas, part 10: parent auto-creation, `__insert_node` as a whole, `__make_node`. -/
namespace CS.HCache
open CS.Path
set_option linter.unusedSimpArgs false
set_option linter.unusedVariables false

theorem check_state (i : Nat) (s : HC) : (check i s).1 = s := by
  simp only [check]; split <;> rfl

theorem checkFull_state (c : Cfg) (i : Nat) (s : HC) : (checkFull c i s).1 = s := by
  simp only [checkFull, bind_run, check, fullPathM_run]
  cases checkOk s i with
  | false => rfl
  | true =>
    simp only [if_true]
    cases fullPath c s i with
    | error e => rfl
    | ok _ => simp only; split <;> rfl

theorem fullPathNodes_ne_fuel (s : HC) : ∀ f i seen, fullPathNodes s f i seen ≠ .error .fuel := by
  intro f
  induction f with
  | zero => intro i seen; simp [fullPathNodes]
  | succ f ih =>
    intro i seen
    simp only [fullPathNodes]
    split
    · simp
    · split
      · exact ih _ _
      · simp

theorem fullPath_ne_fuel (c : Cfg) (s : HC) (i : Nat) : fullPath c s i ≠ .error .fuel := by
  simp only [fullPath]
  have := fullPathNodes_ne_fuel s (s.heap.length + 1) i []
  cases h : fullPathNodes s (s.heap.length + 1) i [] with
  | error e => rw [h] at this; simpa using this
  | ok l =>
    cases l with
    | nil => simp
    | cons r rest => simp only; split <;> simp

theorem checkFull_ne_fuel (c : Cfg) (i : Nat) (s : HC) : (checkFull c i s).2 ≠ .error .fuel := by
  simp only [checkFull, bind_run, check, fullPathM_run]
  cases checkOk s i with
  | false => simp
  | true =>
    simp only [if_true]
    have := fullPath_ne_fuel c s i
    cases h : fullPath c s i with
    | error e => rw [h] at this; simpa using this
    | ok _ => simp only; split <;> simp

theorem makeNodeWith_run (c : Cfg) (ins : Nat → Str → M Unit) (otype : OType) (path : Str) (oid : Option Oid) (s : HC) :
    makeNodeWith c ins otype path oid s =
      match ins s.heap.length (normalizePath c path false)
          { s with heap := s.heap ++ [{ name := (split c path).2, type := otype, oid := oid, parent := none,
                                        children := [], isRoot := false }] } with
      | (t, .error e) => (t, .error e)
      | (t, .ok _) =>
        match checkFull c s.heap.length t with
        | (t', .error e) => (t', .error e)
        | (t', .ok _) => (t', .ok s.heap.length) := by
  simp only [makeNodeWith, bind_run, alloc_run]
  cases ins s.heap.length (normalizePath c path false)
      { s with heap := s.heap ++ [{ name := (split c path).2, type := otype, oid := oid, parent := none,
                                    children := [], isRoot := false }] } with
  | mk t r =>
    cases r with
    | error e => rfl
    | ok _ =>
      simp only
      cases checkFull c s.heap.length t with
      | mk t' r' => cases r' <;> rfl

theorem ensurePar_run (c : Cfg) (f : Nat) (pp : Str) (s : HC) :
    ensurePar c f pp s =
      match getNode c s none (some pp) with
      | .error e => (s, .error e)
      | .ok (some p) =>
        if (s.nd p).type = .file then makeNodeWith c (insertNode c f) .dir pp none s else (s, .ok p)
      | .ok none => makeNodeWith c (insertNode c f) .dir pp none s := by
  simp only [ensurePar, bind_run, getNodeM_run, getS_run]
  cases getNode c s none (some pp) with
  | error e => rfl
  | ok r =>
    cases r with
    | none => rfl
    | some p => simp only; split <;> rfl

/-- every node resolving in `s'` resolved at the same place in `s` with the same id, or is an id-less
    node at a prefix of `ks` (an auto-created folder) -/
def Keep (s s' : HC) (ks : List Str) : Prop :=
  ∀ q m, res s' q = some m →
    (res s q = some m ∧ (s'.nd m).oid = (s.nd m).oid) ∨ (q <+: ks ∧ (s'.nd m).oid = none)

theorem Keep.refl (s : HC) (ks : List Str) : Keep s s ks := fun _ _ h => Or.inl ⟨h, rfl⟩

theorem Keep.trans {s s1 s2 : HC} {ks : List Str} (h1 : Keep s s1 ks) (h2 : Keep s1 s2 ks) : Keep s s2 ks := by
  intro q m hm
  rcases h2 q m hm with ⟨a, b⟩ | a
  · rcases h1 q m a with ⟨a', b'⟩ | ⟨a', b'⟩
    · exact Or.inl ⟨a', b.trans b'⟩
    · exact Or.inr ⟨a', b.trans b'⟩
  · exact Or.inr a

theorem Keep.mono {s s' : HC} {ks ks' : List Str} (h : Keep s s' ks) (hp : ks <+: ks') : Keep s s' ks' := by
  intro q m hm
  rcases h q m hm with a | ⟨a, b⟩
  · exact Or.inl a
  · exact Or.inr ⟨a.trans hp, b⟩

theorem DelPost.keep {c : Cfg} {s s' : HC} (h : DelPost c s s') (ks : List Str) : Keep s s' ks := by
  intro q m hm
  rcases h.shrink q with a | a
  · rw [a] at hm; simp at hm
  · exact Or.inl ⟨by rw [← a]; exact hm, (h.fields m).2.1⟩

/-- what parent auto-creation at `ks` guarantees -/
structure EnsPost (c : Cfg) (s s' : HC) (ks : List Str) : Prop where
  coh : Coherent c s'
  frameX : FrameX s s' (fun m => s.heap.length ≤ m)
  keep : Keep s s' ks
  idsub : ∀ e, e ∈ s'.idmap → e ∈ s.idmap

theorem EnsPost.refl {c : Cfg} {s : HC} (hc : Coherent c s) (ks : List Str) : EnsPost c s s ks :=
  ⟨hc, FrameX.refl s _, Keep.refl s ks, fun _ h => h⟩

theorem EnsPost.step {c : Cfg} {s s1 s2 : HC} {E : Nat → Prop} {ks : List Str} (h1 : EnsPost c s s1 ks) (coh2 : Coherent c s2)
    (f2 : FrameX s1 s2 E) (hE : ∀ m, E m → s.heap.length ≤ m) (k2 : Keep s1 s2 ks)
    (i2 : ∀ e, e ∈ s2.idmap → e ∈ s1.idmap) : EnsPost c s s2 ks :=
  ⟨coh2, h1.frameX.trans (f2.mono hE), h1.keep.trans k2, fun e he => h1.idsub e (i2 e he)⟩

/-- allocation as an `EnsPost` step -/
theorem EnsPost.alloc {c : Cfg} {s : HC} (hc : Coherent c s) (n : Node) (ks : List Str) :
    EnsPost c s { s with heap := s.heap ++ [n] } ks := by
  refine ⟨hc.alloc n, ⟨by simp, ?_, ?_, fun e he => Or.inl he⟩, ?_, fun e he => he⟩
  · intro m hm _ _
    rw [nd_alloc]; simp [Nat.ne_of_lt hm]
  · intro m _ hr
    exact Or.inl ((reach_alloc hc n m).1 hr)
  · intro q m hm
    rw [res_alloc hc] at hm
    refine Or.inl ⟨hm, ?_⟩
    rw [nd_alloc]
    have := hc.valid ⟨q, hm⟩
    simp [Nat.ne_of_lt this]

/-- the linking step for a fresh, childless, id-less node, as an `EnsPost` step -/
theorem corePost_fresh {c : Cfg} {sb sc : HC} {init : List Str} {b : Str} {j' : Nat} (hcb : Coherent c sb)
    (hch : (sb.nd j').children = []) (hoid : (sb.nd j').oid = none) (cp : CorePost c sb init b j' sc) :
    (∀ m, InSub sb j' m → m = j') ∧ Keep sb sc (init ++ [b]) ∧ (∀ e, e ∈ sc.idmap → e ∈ sb.idmap) := by
  have hin : ∀ r m, resFrom sb j' r = some m → r = [] ∧ m = j' := by
    intro r m hr
    cases r with
    | nil => simp [resFrom] at hr; exact ⟨rfl, hr.symm⟩
    | cons k ks => simp [resFrom, hch, dget] at hr
  have hin' : ∀ m, InSub sb j' m → m = j' := fun m ⟨r, hr⟩ => (hin r m hr).2
  have hoc : (sc.nd j').oid = none := by rw [cp.oid_same]; exact hoid
  refine ⟨hin', ?_, ?_⟩
  · intro q m hm
    rcases cp.shrink q m hm with h | ⟨r, hq, hr⟩
    · exact Or.inl ⟨h, cp.oid_same m⟩
    · obtain ⟨hr0, hmj⟩ := hin r m hr
      subst hr0; subst hmj
      exact Or.inr ⟨by rw [hq]; simp, hoc⟩
  · intro e he
    rcases cp.frameX.ids e he with h | h
    · exact h
    · exfalso
      have : e.2 = j' := hin' e.2 h
      have hs := cp.coh.map_sound (o := e.1) (n := e.2) he
      rw [this, hoc] at hs
      simp at hs

theorem ensureV_of_dir (ks : List Str) (v : V) (h : isDirE (v ks) = true) : ensureV ks v = v := by
  rcases List.eq_nil_or_concat ks with rfl | ⟨i, b, rfl⟩
  · rfl
  · rw [List.concat_eq_append] at h ⊢
    rw [ensureV_snoc, if_pos h]

theorem view_alloc {c : Cfg} {s : HC} (hc : Coherent c s) (n : Node) : view ({ s with heap := s.heap ++ [n] } : HC) = view s := by
  funext q
  simp only [view, res_alloc hc]
  cases hr : res s q with
  | none => rfl
  | some m =>
    have := hc.valid ⟨q, hr⟩
    simp [entOf, nd_alloc, Nat.ne_of_lt this]

theorem isDirE_view {s : HC} {q : List Str} {p : Nat} (h : res s q = some p) : isDirE (view s q) = true ↔ (s.nd p).type = .dir := by
  rw [view_some h]
  simp only [entOf]
  cases (s.nd p).type <;> simp [isDirE]

theorem ensurePar_spec {c : Cfg} (g : CfgGood c) : ∀ (f : Nat) (s : HC) (ks : List Str), KsOk c ks → Coherent c s →
    ∀ out, ensurePar c f (canon c.sep ks) s = out →
      EnsPost c s out.1 ks ∧ (∀ j, out.2 = .ok j → res out.1 ks = some j) ∧ (ks.length ≤ f → out.2 ≠ .error .fuel) ∧
      (∀ j, out.2 = .ok j → view out.1 = ensureV ks (view s)) ∧ (ks.length ≤ f → ∃ j, out.2 = .ok j) := by
  intro f
  induction f with
  | zero =>
    intro s ks hk hc out hout
    rw [ensurePar_run, getNode_canon g s hk] at hout
    -- with no budget left `__insert_node` stops at once; the allocated node stays unlinked
    have hmk : ∀ out, makeNodeWith c (insertNode c 0) .dir (canon c.sep ks) none s = out →
        EnsPost c s out.1 ks ∧ (∀ j, out.2 = .ok j → res out.1 ks = some j) := by
      intro out hout
      rw [makeNodeWith_run] at hout
      simp only [insertNode, raise_run] at hout
      subst hout
      exact ⟨EnsPost.alloc hc _ ks, fun j h => by simp at h⟩
    have hmk0 : ∀ out, makeNodeWith c (insertNode c 0) .dir (canon c.sep ks) none s = out → ∀ j, out.2 ≠ .ok j := by
      intro out hout j
      rw [makeNodeWith_run] at hout
      simp only [insertNode, raise_run] at hout
      subst hout; simp
    cases hr : res s ks with
    | none =>
      rw [hr] at hout
      have habs : ¬ ks.length ≤ 0 := fun hl => by
        have : ks = [] := List.length_eq_zero_iff.1 (Nat.le_zero.1 hl)
        rw [this] at hr; simp at hr
      exact ⟨(hmk out hout).1, (hmk out hout).2, fun hl => absurd hl habs, fun j h => absurd h (hmk0 out hout j),
        fun hl => absurd hl habs⟩
    | some p =>
      rw [hr] at hout
      simp only at hout
      by_cases hf : (s.nd p).type = .file
      · rw [if_pos hf] at hout
        have habs : ¬ ks.length ≤ 0 := fun hl => by
          have : ks = [] := List.length_eq_zero_iff.1 (Nat.le_zero.1 hl)
          rw [this] at hr; simp at hr; subst hr
          rw [hc.root_type] at hf; simp at hf
        exact ⟨(hmk out hout).1, (hmk out hout).2, fun hl => absurd hl habs, fun j h => absurd h (hmk0 out hout j),
          fun hl => absurd hl habs⟩
      · rw [if_neg hf] at hout; subst hout
        have hd : isDirE (view s ks) = true := (isDirE_view hr).2 (by cases ht : (s.nd p).type with
          | file => exact absurd ht hf
          | dir => rfl)
        exact ⟨EnsPost.refl hc ks, fun j h => by cases h; exact hr, fun _ => by simp,
          fun j _ => (ensureV_of_dir ks _ hd).symm, fun _ => ⟨p, rfl⟩⟩
  | succ f ih =>
    intro s ks hk hc out hout
    rw [ensurePar_run, getNode_canon g s hk] at hout
    have hmk : ks ≠ [] → isDirE (view s ks) = false → ∀ out, makeNodeWith c (insertNode c (f + 1)) .dir (canon c.sep ks) none s = out →
        EnsPost c s out.1 ks ∧ (∀ j, out.2 = .ok j → res out.1 ks = some j) ∧
          (ks.length ≤ f + 1 → out.2 ≠ .error .fuel) ∧
          (∀ j, out.2 = .ok j → view out.1 = ensureV ks (view s)) ∧ (ks.length ≤ f + 1 → ∃ j, out.2 = .ok j) := by
      intro hne hnodir out hout
      obtain ⟨init, b, rfl⟩ : ∃ init b, ks = init ++ [b] := by
        rcases List.eq_nil_or_concat ks with e | ⟨i, b, e⟩
        · exact absurd e hne
        · exact ⟨i, b, by rw [e, List.concat_eq_append]⟩
      rw [makeNodeWith_run, normalizePath_canon g hk, insertNode_succ] at hout
      -- allocation
      generalize hnn : ({ name := (split c (canon c.sep (init ++ [b]))).2, type := OType.dir, oid := none, parent := none,
                            children := [], isRoot := false } : Node) = nnode at hout
      have hnch : nnode.children = [] := by rw [← hnn]
      have hnoid : nnode.oid = none := by rw [← hnn]
      have hnroot : nnode.isRoot = false := by rw [← hnn]
      have hca : Coherent c { s with heap := s.heap ++ [nnode] } := hc.alloc nnode
      have hsuba : Sub c { s with heap := s.heap ++ [nnode] } s.heap.length := Sub.fresh hc nnode hnch hnroot
      have epa : EnsPost c s { s with heap := s.heap ++ [nnode] } (init ++ [b]) := EnsPost.alloc hc nnode _
      have hlen_a : ({ s with heap := s.heap ++ [nnode] } : HC).heap.length = s.heap.length + 1 := by simp
      have hnda : ({ s with heap := s.heap ++ [nnode] } : HC).nd s.heap.length = nnode := by rw [nd_alloc]; simp
      rw [bind_run] at hout
      -- eviction at the path of the folder to be created (a file in the way, or nothing)
      obtain ⟨dpd, hokd, hnoned, _⟩ := insertPre_spec g hk hne hca hsuba
        (fun o ho _ => by rw [hnda, hnoid] at ho; simp at ho) _ rfl
      cases hpre : insertPre c s.heap.length (canon c.sep (init ++ [b])) { s with heap := s.heap ++ [nnode] } with
      | mk sd rd =>
        rw [hpre] at hout dpd hokd hnoned
        simp only at dpd hokd hnoned
        subst hokd
        simp only at hout
        rw [bind_run, hsplit_canon_snoc g hk] at hout
        simp only at hout
        have ep_sd : EnsPost c s sd (init ++ [b]) :=
          epa.step dpd.coh (dpd.frameX (fun _ => False)) (fun _ h => h.elim) (dpd.keep _) dpd.idsub
        have hsubd : Sub c sd s.heap.length := hsuba.frame (dpd.frameX (fun _ => False)) (fun _ _ h => h) dpd.idsub
        have hndd : sd.nd s.heap.length = nnode := by rw [dpd.frame _ (hsuba.unreach [] _ rfl)]; exact hnda
        have hlen_d : sd.heap.length = s.heap.length + 1 := by rw [dpd.len]; exact hlen_a
        have hvd : view sd = rmV (init ++ [b]) (view s) := by
          have := (insertPre_view g hk hne hca hsuba (fun o ho _ => by rw [hnda, hnoid] at ho; simp at ho)).2
            (by rw [hnda, hnoid]; rfl)
          rw [hpre] at this
          funext q
          rw [this q, view_alloc hc]
        -- the parent, recursively
        obtain ⟨epb, hjb, hfb, hvb, htb⟩ := ih sd init hk.left dpd.coh _ rfl
        cases hens : ensurePar c f (canon c.sep init) sd with
        | mk sb rb =>
          rw [hens] at hout epb hjb hfb hvb htb
          simp only at epb hjb hfb hvb htb
          have ep_sb : EnsPost c s sb (init ++ [b]) :=
            ep_sd.step epb.coh epb.frameX (fun m hm => by rw [hlen_d] at hm; omega)
              (epb.keep.mono (List.prefix_append _ _)) epb.idsub
          cases rb with
          | error e =>
            simp only at hout; subst hout
            exact ⟨ep_sb, fun j h => by simp at h, fun hl => by simpa using hfb (by simp at hl; omega),
              fun j h => by simp at h, fun hl => by obtain ⟨j, hj⟩ := htb (by simp at hl; omega); simp at hj⟩
          | ok j =>
            simp only at hout
            have hj : res sb init = some j := hjb j rfl
            have hvb' : view sb = ensureV init (view sd) := hvb j rfl
            have hjdir : (sb.nd j).type = .dir := by
              rw [← isDirE_view hj, hvb']
              exact ensureV_isDir init _ (view_root dpd.coh)
            have hndb : sb.nd s.heap.length = nnode := by
              rw [epb.frameX.nd s.heap.length (by rw [hlen_d]; omega) (hsubd.unreach [] _ rfl) (by rw [hlen_d]; omega)]
              exact hndd
            have hsubb : Sub c sb s.heap.length :=
              hsubd.frame epb.frameX (fun m ⟨r, hr⟩ hm => by
                have := hsubd.valid_all r m hr
                omega) epb.idsub
            have hnoneb : res sb (init ++ [b]) = none := by
              cases hx : res sb (init ++ [b]) with
              | none => rfl
              | some m =>
                exfalso
                rcases epb.keep _ m hx with ⟨h1, _⟩ | ⟨h1, _⟩
                · rw [hnoned] at h1; simp at h1
                · have := h1.length_le; simp at this; omega
            have hcore := insertTail_spec g epb.coh hsubb hk hj hnoneb
              (fun o ho _ => by rw [hndb, hnoid] at ho; simp at ho)
            cases htail : insertTail c s.heap.length b j sb with
            | mk sc rc =>
              obtain ⟨cp, hsucc, hnf, htot⟩ := hcore _ htail
              simp only at cp hsucc hnf htot
              have hrc : rc = .ok () := htot hjdir (Or.inl (by rw [hndb]; exact hnoid))
              subst hrc
              obtain ⟨hin, hkeep, hids⟩ := corePost_fresh epb.coh (by rw [hndb]; exact hnch) (by rw [hndb]; exact hnoid) cp
              have ep_sc : EnsPost c s sc (init ++ [b]) :=
                ep_sb.step cp.coh cp.frameX (fun m hm => by rw [hin m hm]; exact Nat.le_refl _) hkeep hids
              rw [htail] at hout
              simp only at hout
              obtain ⟨hat, hsubres, hresc⟩ := hsucc rfl
              rw [checkFull_ok g cp.coh ⟨_, hat⟩] at hout
              simp only at hout; subst hout
              refine ⟨ep_sc, fun j h => by cases h; exact hat, fun _ => by simp, fun _ _ => ?_, fun _ => ⟨_, rfl⟩⟩
              -- the view: a new id-less folder at init ++ [b] over the ensured parents
              rw [ensureV_snoc, if_neg (by rw [hnodir]; simp), ← hvd, ← hvb']
              funext q
              have hent : ∀ m, entOf sc m = entOf sb m := fun m => by
                simp only [entOf, cp.type_same, cp.oid_same]
              simp only [view, hresc q, putV]
              by_cases hp : (init ++ [b]) <+: q
              · rw [if_pos hp]
                obtain ⟨r, rfl⟩ := hp
                rw [List.drop_left]
                cases r with
                | nil =>
                  simp only [List.append_nil, resFrom, Option.map_some, if_true, entOf]
                  rw [cp.type_same, cp.oid_same, hndb, ← hnn]
                | cons k r' =>
                  have hnone : resFrom sb s.heap.length (k :: r') = none := by
                    simp [resFrom, hndb, hnch, dget]
                  rw [hnone]
                  have hne' : init ++ [b] ++ k :: r' ≠ init ++ [b] := by
                    intro e; have := congrArg List.length e; simp at this
                  rw [if_neg hne']
                  symm
                  simp only [Option.map_none]
                  show view sb (init ++ [b] ++ k :: r') = none
                  rw [hvb']
                  apply ensureV_none
                  · rw [hvd]; simp [rmV]
                  · intro hpre; have := hpre.length_le; simp at this; omega
              · rw [if_neg hp]
                have hne' : q ≠ init ++ [b] := fun e => hp (e ▸ List.prefix_refl _)
                rw [if_neg hne']
                cases hr : res sb q with
                | none => rfl
                | some m => simp only [Option.map_some, hent]
    cases hr : res s ks with
    | none =>
      rw [hr] at hout
      exact hmk (fun e => by rw [e] at hr; simp at hr) (by rw [view_none hr]; rfl) out hout
    | some p =>
      rw [hr] at hout
      simp only at hout
      by_cases hf : (s.nd p).type = .file
      · rw [if_pos hf] at hout
        refine hmk (fun e => ?_) ?_ out hout
        · rw [e] at hr; simp at hr; subst hr
          rw [hc.root_type] at hf; simp at hf
        · rw [view_some hr]; simp [entOf, hf, isDirE]
      · rw [if_neg hf] at hout; subst hout
        have hd : isDirE (view s ks) = true := (isDirE_view hr).2 (by cases ht : (s.nd p).type with
          | file => exact absurd ht hf
          | dir => rfl)
        exact ⟨EnsPost.refl hc ks, fun j h => by cases h; exact hr, fun _ => by simp,
          fun j _ => (ensureV_of_dir ks _ hd).symm, fun _ => ⟨p, rfl⟩⟩

end CS.HCache
