import Csverif.Proofs.HCache.Ensure
/- C19 helper lemmas, part 11: `__insert_node` / `__make_node` as a whole and the public operations. -/
namespace CS.HCache
open CS.Path
set_option linter.unusedSimpArgs false
set_option linter.unusedVariables false

theorem Sub.resFrom_frame {c : Cfg} {s s' : HC} {i : Nat} {E : Nat → Prop} (h : Sub c s i) (hf : FrameX s s' E)
    (hE : ∀ m, InSub s i m → ¬ E m) (q : List Str) : resFrom s' i q = resFrom s i q :=
  resFrom_congr q i (fun r x hx => by
    rw [hf.nd x (h.valid_all r x hx) (h.unreach r x hx) (hE x ⟨r, hx⟩)])

theorem snoc_of_ne_nil {α : Type} {l : List α} (h : l ≠ []) : ∃ init a, l = init ++ [a] := by
  rcases List.eq_nil_or_concat l with e | ⟨i, b, e⟩
  · exact absurd e h
  · exact ⟨i, b, by rw [e, List.concat_eq_append]⟩

/-- the dictionary after the eviction of the previous owners of the path `ks` and of the id `oid` -/
def EvictV (v : V) (ks : List Str) (oid : Option Oid) (W : V) : Prop :=
  (truthy oid = false → W = rmV ks v) ∧
  (∀ o, oid = some o → o ≠ 0 →
    (∀ kx, HolderV (rmV ks v) o kx → W = rmV kx (rmV ks v)) ∧ ((∀ k, ¬ HolderV (rmV ks v) o k) → W = rmV ks v))

/-- a one-entry dictionary -/
def leafV (x : Ent) : V := fun r => if r = [] then some x else none

theorem insertPre_evict {c : Cfg} (g : CfgGood c) {s : HC} {i : Nat} {ks : List Str} (hk : KsOk c ks) (hne : ks ≠ [])
    (hc : Coherent c s) (hsub : Sub c s i)
    (hroot : ∀ o, (s.nd i).oid = some o → o ≠ 0 → (s.nd 0).oid ≠ some o) :
    EvictV (view s) ks (s.nd i).oid (view (insertPre c i (canon c.sep ks) s).1) := by
  obtain ⟨h1, h2⟩ := insertPre_view g hk hne hc hsub hroot
  exact ⟨fun hf => funext (h2 hf), fun o ho h0 =>
    ⟨fun kx hh => funext ((h1 o ho h0).1 kx hh), fun hno => funext ((h1 o ho h0).2 hno)⟩⟩

/-- **`__insert_node`** of a detached subtree at a non-root path; the node's id is not the root's -/
theorem insertNode_spec {c : Cfg} (g : CfgGood c) {s : HC} {i : Nat} {ks : List Str} (hk : KsOk c ks) (hne : ks ≠ [])
    (hc : Coherent c s) (hsub : Sub c s i)
    (hroot : ∀ o, (s.nd i).oid = some o → o ≠ 0 → (s.nd 0).oid ≠ some o) :
    ∀ f out, insertNode c f i (canon c.sep ks) s = out →
      Coherent c out.1 ∧ (out.2 = .ok () → res out.1 ks = some i ∧ (∀ q, resFrom out.1 i q = resFrom s i q) ∧
        (out.1.nd i).oid = (s.nd i).oid ∧ (out.1.nd i).type = (s.nd i).type ∧
        (∀ m, InSub s i m → (out.1.nd m).oid = (s.nd m).oid)) ∧ (ks.length ≤ f → out.2 ≠ .error .fuel) ∧
      (∀ q m, res out.1 q = some m →
        (res s q = some m ∧ (out.1.nd m).oid = (s.nd m).oid) ∨ InSub s i m ∨ (out.1.nd m).oid = none) ∧
      (out.2 = .ok () → view out.1 =
        graftV ks (subview s i) (ensureV ks.dropLast (view (insertPre c i (canon c.sep ks) s).1))) ∧
      (ks.length ≤ f → (s.nd i).oid ≠ some 0 → out.2 = .ok ()) ∧
      (∀ m, m < s.heap.length → ¬ Reach s m → ¬ InSub s i m → out.1.nd m = s.nd m) ∧
      (out.2 = .ok () → ∀ x, res s ks = some x → (out.1.nd x).parent = none ∧ (out.1.nd x).isRoot = (s.nd x).isRoot) := by
  intro f out hout
  cases f with
  | zero =>
    simp only [insertNode, raise_run] at hout
    subst hout
    exact ⟨hc, fun h => by simp at h, fun hl => absurd (List.length_eq_zero_iff.1 (Nat.le_zero.1 hl)) hne,
      fun q m h => Or.inl ⟨h, rfl⟩, fun h => by simp at h,
      fun hl => absurd (List.length_eq_zero_iff.1 (Nat.le_zero.1 hl)) hne, fun _ _ _ _ => rfl, fun h => by simp at h⟩
  | succ f =>
    obtain ⟨init, a, rfl⟩ := snoc_of_ne_nil hne
    rw [insertNode_succ, bind_run] at hout
    obtain ⟨dp, hok2, hnone2, hfresh2, htgt2⟩ := insertPre_spec g hk hne hc hsub hroot _ rfl
    cases hpre : insertPre c i (canon c.sep (init ++ [a])) s with
    | mk s2 r2 =>
      rw [hpre] at hout dp hok2 hnone2 hfresh2 htgt2
      simp only at dp hok2 hnone2 hfresh2 htgt2
      subst hok2
      simp only at hout
      rw [bind_run, hsplit_canon_snoc g hk] at hout
      simp only at hout
      have hE0 : ∀ m, InSub s i m → ¬ False := fun _ _ h => h
      have hsub2 : Sub c s2 i := hsub.frame (dp.frameX (fun _ => False)) hE0 dp.idsub
      have hres2 : ∀ q, resFrom s2 i q = resFrom s i q := hsub.resFrom_frame (dp.frameX (fun _ => False)) hE0
      have hnd2 : ∀ m, InSub s i m → s2.nd m = s.nd m := fun m ⟨r, hr⟩ => dp.frame m (hsub.unreach r m hr)
      obtain ⟨epb, hjb, hfb, hvb, htb⟩ := ensurePar_spec g f s2 init hk.left dp.coh _ rfl
      simp only [List.dropLast_concat]
      cases hens : ensurePar c f (canon c.sep init) s2 with
      | mk sb rb =>
        rw [hens] at hout epb hjb hfb hvb htb
        simp only at epb hjb hfb hvb htb
        have hframe_b : ∀ m, m < s.heap.length → ¬ Reach s2 m → sb.nd m = s2.nd m := fun m hm hr =>
          epb.frameX.nd m (by rw [dp.len]; exact hm) hr (by rw [dp.len]; omega)
        have hframe2 : ∀ m, ¬ Reach s m → s2.nd m = s.nd m := fun m hr => dp.frame m hr
        have hkeep_b : ∀ q m, res sb q = some m →
            (res s q = some m ∧ (sb.nd m).oid = (s.nd m).oid) ∨ (sb.nd m).oid = none := by
          intro q m h
          rcases epb.keep q m h with ⟨a1, a2⟩ | ⟨_, a1⟩
          · rcases dp.keep init q m a1 with ⟨b1, b2⟩ | ⟨_, b1⟩
            · exact Or.inl ⟨b1, a2.trans b2⟩
            · exact Or.inr (a2.trans b1)
          · exact Or.inr a1
        cases rb with
        | error e =>
          simp only at hout; subst hout
          refine ⟨epb.coh, fun h => by simp at h, fun hl => by simpa using hfb (by simp at hl; omega), fun q m h => ?_,
            fun h => by simp at h, fun hl _ => by obtain ⟨j, hj⟩ := htb (by simp at hl; omega); simp at hj,
            fun m hm hr _ => by rw [hframe_b m hm (fun h => hr (dp.reach h)), hframe2 m hr], fun h => by simp at h⟩
          rcases hkeep_b q m h with a1 | a1
          · exact Or.inl a1
          · exact Or.inr (Or.inr a1)
        | ok j =>
          simp only at hout
          have hE : ∀ m, InSub s2 i m → ¬ (s2.heap.length ≤ m) := fun m ⟨r, hr⟩ hm => by
            have := hsub2.valid_all r m hr; omega
          have hsubb : Sub c sb i := hsub2.frame epb.frameX hE epb.idsub
          have hndb : ∀ m, InSub s i m → sb.nd m = s.nd m := fun m hm => by
            obtain ⟨r, hr⟩ := hm
            have hm2 : InSub s2 i m := ⟨r, by rw [hres2]; exact hr⟩
            obtain ⟨r2, hr2⟩ := hm2
            rw [epb.frameX.nd m (hsub2.valid_all r2 m hr2) (hsub2.unreach r2 m hr2) (hE m ⟨r2, hr2⟩)]
            exact hnd2 m ⟨r, hr⟩
          have hndi : sb.nd i = s.nd i := hndb i ⟨[], rfl⟩
          have hnoneb : res sb (init ++ [a]) = none := by
            cases hx : res sb (init ++ [a]) with
            | none => rfl
            | some m =>
              exfalso
              rcases epb.keep _ m hx with ⟨h1, _⟩ | ⟨h1, _⟩
              · rw [hnone2] at h1; simp at h1
              · have := h1.length_le; simp at this; omega
          have hfreshb : ∀ o, (sb.nd i).oid = some o → o ≠ 0 → dget sb.idmap o = none := by
            intro o ho h0
            have := hfresh2 o (by rw [← hndi]; exact ho) h0
            rw [dget_none] at this ⊢
            intro hk'
            obtain ⟨e, he, rfl⟩ := List.mem_map.1 hk'
            exact this (List.mem_map.2 ⟨e, epb.idsub e he, rfl⟩)
          obtain ⟨cp, hsucc, hnf, htot⟩ := insertTail_spec g epb.coh hsubb hk (hjb j rfl) hnoneb hfreshb _ hout
          have hresb : ∀ q, resFrom sb i q = resFrom s i q := fun q => by
            rw [hsub2.resFrom_frame epb.frameX hE, hres2]
          have hvb' : view sb = ensureV init (view s2) := hvb j rfl
          have hjdir : (sb.nd j).type = .dir := by
            rw [← isDirE_view (hjb j rfl), hvb']
            exact ensureV_isDir init _ (view_root dp.coh)
          have hcore_frame : ∀ m, m < s.heap.length → ¬ Reach s2 m → ¬ InSub s i m → out.1.nd m = s2.nd m := by
            intro m hm hr hin
            have hmb : m < sb.heap.length := Nat.lt_of_lt_of_le (by rw [dp.len]; exact hm) epb.frameX.len
            have hrb : ¬ Reach sb m := fun h => by
              rcases epb.frameX.reach m (by rw [dp.len]; exact hm) h with a | a
              · exact hr a
              · rw [dp.len] at a; omega
            have hinb : ¬ InSub sb i m := fun ⟨r, hr'⟩ => hin ⟨r, by rw [← hresb]; exact hr'⟩
            rw [cp.frameX.nd m hmb hrb hinb, hframe_b m hm hr]
          refine ⟨cp.coh, fun h => ⟨(hsucc h).1, fun q => ?_, by rw [cp.fi.1, hndi], by rw [cp.fi.2, hndi], fun m hm => ?_⟩,
            fun _ => hnf, fun q m h => ?_, fun h => ?_, fun _ hno0 => ?_,
            fun m hm hr hin => by rw [hcore_frame m hm (fun h => hr (dp.reach h)) hin, hframe2 m hr],
            fun _ x hx => by
              obtain ⟨a1, a2⟩ := htgt2 x hx
              have hxin : ¬ InSub s i x := fun ⟨r, hr'⟩ => hsub.unreach r x hr' ⟨_, hx⟩
              rw [hcore_frame x (hc.valid ⟨_, hx⟩) a2 hxin]; exact ⟨a1, (dp.fields x).2.2.2⟩⟩
          rotate_left 3
          · -- the view: the subtree grafted at ks over the ensured parents
            obtain ⟨_, _, hresc⟩ := hsucc h
            rw [← hvb']
            funext q
            have hent : ∀ m, entOf out.1 m = entOf sb m := fun m => by
              simp only [entOf, cp.type_same, cp.oid_same]
            simp only [view, hresc q, graftV, subview]
            by_cases hp : (init ++ [a]) <+: q
            · rw [if_pos hp, if_pos hp, hresb]
              cases hr : resFrom s i (q.drop (init ++ [a]).length) with
              | none => rfl
              | some m =>
                simp only [Option.map_some, hent]
                rw [show entOf sb m = entOf s m from by simp only [entOf, hndb m ⟨_, hr⟩]]
            · rw [if_neg hp, if_neg hp]
              cases hr : res sb q with
              | none => rfl
              | some m => simp only [Option.map_some, hent]
          · -- totality
            apply htot hjdir
            rw [hndi]
            cases hoi : (s.nd i).oid with
            | none => exact Or.inl rfl
            | some o =>
              right
              have h0 : o ≠ 0 := fun e => hno0 (by rw [hoi, e])
              intro e
              have := epb.coh.dget_idmap.2 ⟨⟨_, hjb j rfl⟩, e.symm, h0⟩
              rw [hfreshb o (by rw [hndi]; exact hoi) h0] at this
              simp at this
          · rw [(hsucc h).2.1 q, hresb]
          · rw [cp.oid_same m, hndb m hm]
          · rcases cp.shrink q m h with b1 | ⟨r, _, hr⟩
            · rcases hkeep_b q m b1 with ⟨a1, a2⟩ | a1
              · exact Or.inl ⟨a1, by rw [cp.oid_same]; exact a2⟩
              · exact Or.inr (Or.inr (by rw [cp.oid_same]; exact a1))
            · exact Or.inr (Or.inl ⟨r, by rw [← hresb]; exact hr⟩)

/-- **`__make_node`** at a non-root path, under the id guard -/
theorem makeNode_spec {c : Cfg} (g : CfgGood c) {s : HC} (hc : Coherent c s) (otype : OType) (path : Str) (oid : Option Oid)
    (hne : tcomps c path ≠ [])
    (hroot : ∀ o, oid = some o → o ≠ 0 → (s.nd 0).oid ≠ some o) :
    ∀ out, makeNode c otype path oid s = out →
      Coherent c out.1 ∧ (∀ i, out.2 = .ok i → res out.1 (tcomps c path) = some i ∧ (out.1.nd i).oid = oid ∧
        (out.1.nd i).type = otype ∧ (∀ r, r ≠ [] → res out.1 (tcomps c path ++ r) = none) ∧ i = s.heap.length) ∧
      out.2 ≠ .error .fuel ∧
      (∀ q m, res out.1 q = some m →
        (res s q = some m ∧ (out.1.nd m).oid = (s.nd m).oid) ∨ m = s.heap.length ∨ (out.1.nd m).oid = none) ∧
      (∀ i, out.2 = .ok i → ∃ W, EvictV (view s) (tcomps c path) oid W ∧
        view out.1 = graftV (tcomps c path) (leafV (otype, oid)) (ensureV (tcomps c path).dropLast W)) ∧
      (oid ≠ some 0 → ∃ i, out.2 = .ok i) ∧
      (∀ m, m < s.heap.length → ¬ Reach s m → out.1.nd m = s.nd m) ∧
      (∀ i, out.2 = .ok i → ∀ x, res s (tcomps c path) = some x →
        (out.1.nd x).parent = none ∧ (out.1.nd x).isRoot = (s.nd x).isRoot) := by
  intro out hout
  unfold makeNode at hout
  rw [makeNodeWith_run, normalizePath_tcomps g] at hout
  generalize hnn : ({ name := (split c path).2, type := otype, oid := oid, parent := none,
                      children := [], isRoot := false } : Node) = nnode at hout
  have h1 : nnode.children = [] := by rw [← hnn]
  have h2 : nnode.oid = oid := by rw [← hnn]
  have h3 : nnode.isRoot = false := by rw [← hnn]
  have h4 : nnode.type = otype := by rw [← hnn]
  have hca : Coherent c { s with heap := s.heap ++ [nnode] } := hc.alloc nnode
  have hsuba : Sub c { s with heap := s.heap ++ [nnode] } s.heap.length := Sub.fresh hc nnode h1 h3
  have hnda : ({ s with heap := s.heap ++ [nnode] } : HC).nd s.heap.length = nnode := by rw [nd_alloc]; simp
  have hfa : ∀ o, (({ s with heap := s.heap ++ [nnode] } : HC).nd s.heap.length).oid = some o → o ≠ 0 →
      (({ s with heap := s.heap ++ [nnode] } : HC).nd 0).oid ≠ some o := by
    intro o ho h0
    rw [hnda, h2] at ho
    rw [nd_alloc]
    simp only [Nat.ne_of_lt hc.root_valid, if_false]
    exact hroot o ho h0
  have hins := insertNode_spec g (tcomps_ok g path) hne hca hsuba hfa
  simp only [insert] at hout
  cases hrun : insertNode c (insFuel (canon c.sep (tcomps c path))) s.heap.length (canon c.sep (tcomps c path))
      { s with heap := s.heap ++ [nnode] } with
  | mk t r =>
    obtain ⟨hct, hsucc, hnf, hkeep0, hview0, htot0, hframe0, htgt0⟩ := hins _ _ hrun
    have hfuel : (tcomps c path).length ≤ insFuel (canon c.sep (tcomps c path)) := by
      have := length_lt_canon (tcomps_ok g path); simp only [insFuel]; omega
    have hnf' := hnf hfuel
    have htot' : oid ≠ some 0 → r = .ok () := fun h => htot0 hfuel (by rw [hnda, h2]; exact h)
    have hev := insertPre_evict g (tcomps_ok g path) hne hca hsuba hfa
    rw [view_alloc hc, hnda, h2] at hev
    have hleaf : subview ({ s with heap := s.heap ++ [nnode] } : HC) s.heap.length = leafV (otype, oid) := by
      funext r
      cases r with
      | nil => simp [subview, resFrom, leafV, entOf, hnda, h2, h4]
      | cons k ks => simp [subview, resFrom, leafV, hnda, h1, dget]
    rw [hrun] at hout
    simp only at hct hsucc hnf' hkeep0 hview0 hframe0 htgt0
    have hframe : ∀ m, m < s.heap.length → ¬ Reach s m → t.nd m = s.nd m := by
      intro m hm hr
      rw [hframe0 m (by simp; omega) (fun h => hr ((reach_alloc hc nnode m).1 h)) ?_, nd_alloc]
      · simp [Nat.ne_of_lt hm]
      · rintro ⟨r, hr'⟩
        cases r with
        | nil => simp [resFrom] at hr'; omega
        | cons k ks => simp [resFrom, hnda, h1, dget] at hr'
    have htgt : r = .ok () → ∀ x, res s (tcomps c path) = some x →
        (t.nd x).parent = none ∧ (t.nd x).isRoot = (s.nd x).isRoot := fun h x hx => by
      obtain ⟨a1, a2⟩ := htgt0 h x (by rw [res_alloc hc]; exact hx)
      refine ⟨a1, ?_⟩
      rw [a2, nd_alloc]
      have := hc.valid ⟨_, hx⟩
      simp [Nat.ne_of_lt this]
    have hinsub : ∀ m, InSub ({ s with heap := s.heap ++ [nnode] } : HC) s.heap.length m → m = s.heap.length := by
      rintro m ⟨r, hr⟩
      cases r with
      | nil => simp [resFrom] at hr; exact hr.symm
      | cons k ks => simp [resFrom, hnda, h1, dget] at hr
    have hkeep : ∀ q m, res t q = some m →
        (res s q = some m ∧ (t.nd m).oid = (s.nd m).oid) ∨ m = s.heap.length ∨ (t.nd m).oid = none := by
      intro q m h
      rcases hkeep0 q m h with ⟨a, b⟩ | a | a
      · left
        rw [res_alloc hc nnode] at a
        refine ⟨a, ?_⟩
        rw [b, nd_alloc]
        have := hc.valid ⟨q, a⟩
        simp [Nat.ne_of_lt this]
      · exact Or.inr (Or.inl (hinsub m a))
      · exact Or.inr (Or.inr a)
    cases r with
    | error e =>
      simp only at hout; subst hout
      exact ⟨hct, fun i h => by simp at h, by simpa using hnf', hkeep, fun i h => by simp at h,
        fun h => by have := htot' h; simp at this, hframe, fun i h => by simp at h⟩
    | ok u =>
      simp only at hout
      have hst := checkFull_state c s.heap.length t
      have hcnf := checkFull_ne_fuel c s.heap.length t
      cases hcf : checkFull c s.heap.length t with
      | mk t' r' =>
        rw [hcf] at hout hst hcnf
        simp only at hst hcnf
        subst hst
        have hck := checkFull_ok g hct ⟨_, (hsucc rfl).1⟩
        rw [hcf] at hck
        cases r' with
        | error e => simp at hck
        | ok u' =>
          simp only at hout; subst hout
          refine ⟨hct, fun i h => ?_, by simp, hkeep, fun i _ => ⟨_, hev, by rw [hview0 rfl, hleaf]⟩, fun _ => ⟨_, rfl⟩,
            hframe, fun i _ => htgt rfl⟩
          cases h
          obtain ⟨a1, a2, a3, a4, _⟩ := hsucc rfl
          refine ⟨a1, by rw [a3, hnda, h2], by rw [a4, hnda, h4], fun r hr => ?_, rfl⟩
          unfold res at a1 ⊢
          rw [resFrom_append, a1]
          simp only [Option.bind_some]
          rw [a2]
          cases r with
          | nil => exact absurd rfl hr
          | cons k ks => simp [resFrom, hnda, h1, dget]

theorem setOidNode_run (c : Cfg) (n : Nat) (oid : Oid) (s : HC) :
    setOidNode c n oid s =
      if (s.nd n).oid = some oid then (s, .ok ()) else
        match fullPath c s n with
        | .error e => (s, .error e)
        | .ok fp0 =>
          match delete c (some oid) none s with
          | (s1, .error e) => (s1, .error e)
          | (s1, .ok _) =>
            match (match (s1.nd n).oid with
                    | none => (match fullPath c s1 n with
                                | .error e => (.error e : Except Err Bool)
                                | .ok fp1 => .ok fp1.isSome)
                    | some _ => .ok false) with
            | .error e => (s1, .error e)
            | .ok true =>
              if checkOk s1 n then
                ({ s1.setNd n { s1.nd n with oid := some oid } with
                    idmap := dset (s1.setNd n { s1.nd n with oid := some oid }).idmap oid n }, .ok ())
              else (s1, .error .assertion)
            | .ok false =>
              match fp0 with
              | none => (s1, .error .type)
              | some p =>
                match makeNode c (s1.nd n).type p (some oid) s1 with
                | (t, .error e) => (t, .error e)
                | (t, .ok _) => (t, .ok ()) := by
  simp only [setOidNode, bind_run, getS_run]
  by_cases hcond : (s.nd n).oid = some oid
  · simp only [hcond, if_true]; rfl
  · simp only [hcond, if_false, bind_run, fullPathM_run]
    cases fullPath c s n with
    | error e => rfl
    | ok fp0 =>
      simp only [bind_run]
      cases delete c (some oid) none s with
      | mk s1 r1 =>
        cases r1 with
        | error e => rfl
        | ok _ =>
          simp only [bind_run, getS_run]
          cases ho : (s1.nd n).oid with
          | none =>
            simp only [bind_run, fullPathM_run]
            cases fullPath c s1 n with
            | error e => rfl
            | ok fp1 =>
              simp only [pure_run]
              cases fp1 with
              | some p1 =>
                simp only [Option.isSome_some, if_true, bind_run, check, modS_run]
                cases checkOk s1 n <;> simp
              | none =>
                simp only [Option.isSome_none, Bool.false_eq_true, if_false]
                cases fp0 with
                | none => rfl
                | some p =>
                  simp only [bind_run]
                  cases makeNode c (s1.nd n).type p (some oid) s1 with
                  | mk t r => cases r <;> rfl
          | some o1 =>
            simp only [pure_run, Bool.false_eq_true, if_false]
            cases fp0 with
            | none => rfl
            | some p =>
              simp only [bind_run]
              cases makeNode c (s1.nd n).type p (some oid) s1 with
              | mk t r => cases r <;> rfl

/-- writing a fresh id into a reachable id-less node and indexing it -/
theorem Coherent.assignOid {c : Cfg} {s : HC} {n : Nat} {o : Oid} (hc : Coherent c s) (hn : Reach s n)
    (hnone : (s.nd n).oid = none) (h0 : o ≠ 0) (hfresh : dget s.idmap o = none) :
    Coherent c { s.setNd n { s.nd n with oid := some o } with idmap := dset s.idmap o n } := by
  have hnlt := hc.valid hn
  have hnd : ∀ m, ({ s.setNd n { s.nd n with oid := some o } with idmap := dset s.idmap o n } : HC).nd m =
      if m = n then { s.nd n with oid := some o } else s.nd m := by
    intro m
    show (s.setNd n _).nd m = _
    rw [nd_setNd]
    by_cases e : n = m
    · subst e; simp [hnlt]
    · simp [e, Ne.symm e]
  have hres : ∀ q, res ({ s.setNd n { s.nd n with oid := some o } with idmap := dset s.idmap o n } : HC) q = res s q :=
    res_congr_reach (fun m _ => by rw [hnd]; split
                                   · next e => subst e; rfl
                                   · rfl)
  have hreach : ∀ m, Reach ({ s.setNd n { s.nd n with oid := some o } with idmap := dset s.idmap o n } : HC) m ↔ Reach s m :=
    fun m => ⟨fun ⟨q, hq⟩ => ⟨q, by rw [← hres]; exact hq⟩, fun ⟨q, hq⟩ => ⟨q, by rw [hres]; exact hq⟩⟩
  have hnoholder : ∀ m, Reach s m → (s.nd m).oid ≠ some o := by
    intro m hm ho
    have := hc.dget_idmap.2 ⟨hm, ho, h0⟩
    rw [hfresh] at this; simp at this
  have hn0 : n ≠ 0 := by
    intro e; subst e
    obtain ⟨r, hr, _⟩ := hc.root_oid
    rw [hr] at hnone; simp at hnone
  have hnd0 := hnd 0
  rw [if_neg (Ne.symm hn0)] at hnd0
  refine ⟨by show (s.setNd n _).heap.length > 0; simp; exact hc.root_valid, by rw [hnd0]; exact hc.root_isRoot,
    by rw [hnd0]; exact hc.root_parent, by rw [hnd0]; exact hc.root_type, by rw [hnd0]; exact hc.root_name,
    by rw [hnd0]; exact hc.root_oid, ?_, ?_, ?_, nodup_keys_dset hc.map_keys o n, ?_, ?_⟩
  · intro p k ch hp hmem
    have hp' := (hreach p).1 hp
    have hmem' : (k, ch) ∈ (s.nd p).children := by
      rw [hnd] at hmem; split at hmem
      · next e => subst e; exact hmem
      · exact hmem
    have l := hc.link hp' hmem'
    have hch := hc.child hp' hmem'
    have hpc : p ≠ ch := by
      obtain ⟨q, hq⟩ := hp'
      exact hc.child_ne hq (dget_of_mem (hc.keys_nodup ⟨q, hq⟩) hmem')
    show ch < (s.setNd n _).heap.length ∧ _
    rw [setNd_len, hnd ch, hnd p]
    by_cases e1 : ch = n
    · subst e1
      have : p ≠ ch := hpc
      simp only [if_true, this, if_false]
      exact ⟨l.1, l.2.1, l.2.2.1, l.2.2.2.1, l.2.2.2.2.1, Or.inr (fun e => hnoholder p hp' e.symm)⟩
    · simp only [e1, if_false]
      by_cases e2 : p = n
      · subst e2
        simp only [if_true]
        refine ⟨l.1, l.2.1, l.2.2.1, l.2.2.2.1, l.2.2.2.2.1, ?_⟩
        cases hco : (s.nd ch).oid with
        | none => exact Or.inl rfl
        | some o' => exact Or.inr (fun e => hnoholder ch hch (by rw [hco, e]))
      · simp only [e2, if_false]; exact l
  · intro p hp
    rw [hnd]; split
    · next e => subst e; exact hc.keys_nodup ((hreach _).1 hp)
    · exact hc.keys_nodup ((hreach _).1 hp)
  · intro p hp ht
    rw [hnd] at ht ⊢; split
    · next e => subst e; simp only [if_true] at ht; exact hc.file_leaf ((hreach _).1 hp) ht
    · next e => simp only [e, if_false] at ht; exact hc.file_leaf ((hreach _).1 hp) ht
  · intro o' m hm
    show Reach _ m ∧ _
    rcases mem_dset hc.map_keys hm with e | ⟨h1, h2⟩
    · cases e
      refine ⟨(hreach _).2 hn, ?_, h0⟩
      rw [hnd]; simp
    · have hs := hc.map_sound h1
      have : m ≠ n := fun e => by rw [e, hnone] at hs; simp at hs
      refine ⟨(hreach m).2 hs.1, ?_, hs.2.2⟩
      rw [hnd]; simp only [this, if_false]; exact hs.2.1
  · intro m o' hm ho h0'
    show (o', m) ∈ dset s.idmap o n
    rw [hnd] at ho
    by_cases e : m = n
    · subst e
      simp only [if_true] at ho
      cases ho
      exact mem_dset_self _ _ _
    · simp only [e, if_false] at ho
      have hm' := (hreach m).1 hm
      exact mem_dset_of_mem (hc.map_complete hm' ho h0') (fun e' => hnoholder m hm' (by rw [ho]; exact congrArg some e'))

/-- the subtree cut off by `_delete` is a detached subtree of the new state -/
theorem DelCtx.sub {c : Cfg} {s : HC} {init : List Str} {a : Str} {p n : Nat} (d : DelCtx c s init a p n) :
    Sub c (detachSt c s p n a) n := by
  have hc := d.hc
  have hres : ∀ q, resFrom (detachSt c s p n a) n q = resFrom s n q := fun q =>
    resFrom_congr q n (fun r x hx => by
      rw [d.children_detach]
      have : x ≠ p := fun e => d.p_not_below r (e ▸ hx)
      simp [this])
  have hreach : ∀ q m, resFrom s n q = some m → Reach s m := fun q m h => ⟨_, res_of_resFrom d.hn h⟩
  have hndsame : ∀ q m, q ≠ [] → resFrom s n q = some m → (detachSt c s p n a).nd m = s.nd m := by
    intro q m hq hm
    rw [d.nd_detach]
    have h1 : m ≠ n := by
      intro e; subst e
      have := hc.res_inj (res_of_resFrom d.hn hm) d.hn
      simp at this; exact hq this
    have h2 : m ≠ p := fun e => d.p_not_below q (e ▸ hm)
    simp [h1, h2]
  have hoid : ∀ m, ((detachSt c s p n a).nd m).oid = (s.nd m).oid := fun m => (d.delPost.fields m).2.1
  have htype : ∀ m, ((detachSt c s p n a).nd m).type = (s.nd m).type := fun m => (d.delPost.fields m).1
  have hchild : ∀ q m, resFrom s n q = some m → ((detachSt c s p n a).nd m).children = (s.nd m).children := by
    intro q m hm
    rw [d.children_detach]
    have : m ≠ p := fun e => d.p_not_below q (e ▸ hm)
    simp [this]
  refine ⟨by rw [d.detach_len]; exact d.nlt, by rw [(d.delPost.fields n).2.2.2]; exact d.lnk.2.2.2.1, ?_, ?_, ?_, ?_, ?_, ?_, ?_⟩
  · intro q m hm hr
    rw [hres] at hm
    exact d.not_below_of_reach hr q hm
  · intro q m k ch hm hmem
    rw [hres] at hm
    rw [hchild q m hm] at hmem
    have l := hc.link (hreach q m hm) hmem
    have hch : resFrom s n (q ++ [k]) = some ch := by
      rw [resFrom_snoc, hm]; exact dget_of_mem (hc.keys_nodup (hreach q m hm)) hmem
    rw [hndsame (q ++ [k]) ch (by simp) hch, hoid m, d.detach_len]
    exact l
  · intro q m hm
    rw [hres] at hm; rw [hchild q m hm]; exact hc.keys_nodup (hreach q m hm)
  · intro q m hm ht
    rw [hres] at hm; rw [htype] at ht; rw [hchild q m hm]; exact hc.file_leaf (hreach q m hm) ht
  · intro q1 q2 m h1 h2
    rw [hres] at h1 h2
    have := hc.res_inj (res_of_resFrom d.hn h1) (res_of_resFrom d.hn h2)
    exact List.append_cancel_left this
  · intro q1 q2 m1 m2 o h1 h2 o1 o2 h0
    rw [hres] at h1 h2; rw [hoid] at o1 o2
    exact hc.oid_unique (hreach q1 m1 h1) (hreach q2 m2 h2) o1 o2 h0
  · intro q m o _ hm ho h0
    rw [hres] at hm; rw [hoid] at ho
    exact d.detach_dget_in ⟨q, m, hm, ho, h0⟩

/-! ### facts about `delete(oid=…)` used by `_set_oid` -/

/-- a node below a node whose parent link has been cut does not lead to the root any more: `full_path()` of it
    is None (or raises), never a path -/
theorem fullPath_below_detached {c : Cfg} {s s1 : HC} {kx : List Str} {x : Nat} (hc : Coherent c s) (dp : DelPost c s s1)
    (hx : res s kx = some x) (hx0 : x ≠ 0) (hpar : (s1.nd x).parent = none) :
    ∀ r n, res s (kx ++ r) = some n → ∀ p, fullPath c s1 n ≠ .ok (some p) := by
  have hnotroot : ∀ q m, q ≠ [] → res s q = some m → (s1.nd m).isRoot = false := by
    intro q m hq hm
    obtain ⟨i, k, rfl⟩ := snoc_of_ne_nil hq
    obtain ⟨p', hp', hk⟩ := res_snoc_some hm
    rw [(dp.fields m).2.2.2]
    exact (hc.link ⟨_, hp'⟩ (dget_mem hk)).2.2.2.1
  have hkx : kx ≠ [] := fun e => by rw [e] at hx; simp at hx; exact hx0 hx.symm
  have key : ∀ r n, res s (kx ++ r) = some n → ∀ f seen l, fullPathNodes s1 f n seen = .ok l →
      ∃ h t, l = h :: t ∧ (s1.nd h).isRoot = false := by
    intro r
    induction r using snoc_induction with
    | hnil =>
      intro n hn f seen l hl
      rw [List.append_nil, hx] at hn; cases hn
      cases f with
      | zero => simp [fullPathNodes] at hl
      | succ f =>
        simp only [fullPathNodes, hpar] at hl
        split at hl
        · simp at hl
        · cases hl
          exact ⟨x, seen, rfl, hnotroot kx x hkx hx⟩
    | hsnoc r' k ih =>
      intro n hn f seen l hl
      rw [← List.append_assoc] at hn
      obtain ⟨p', hp', hk⟩ := res_snoc_some hn
      have hnr : (s1.nd n).isRoot = false := hnotroot _ n (by simp) hn
      cases f with
      | zero => simp [fullPathNodes] at hl
      | succ f =>
        simp only [fullPathNodes] at hl
        split at hl
        · simp at hl
        · rcases dp.parents n with a | a
          · rw [a, (hc.link ⟨_, hp'⟩ (dget_mem hk)).2.1] at hl
            exact ih p' hp' f _ l hl
          · rw [a] at hl
            cases hl
            exact ⟨n, seen, rfl, hnr⟩
  intro r n hn p hfp
  simp only [fullPath] at hfp
  cases hl : fullPathNodes s1 (s1.heap.length + 1) n [] with
  | error e => rw [hl] at hfp; simp at hfp
  | ok l =>
    rw [hl] at hfp
    obtain ⟨h, t, rfl, hr⟩ := key r n hn _ _ l hl
    simp [hr] at hfp

/-- what `delete(oid=o)` does to another node `n`: it is still where it was, or it no longer leads to the root -/
theorem delete_oid_cases {c : Cfg} (g : CfgGood c) {s : HC} (hc : Coherent c s) {o : Oid} (h0 : o ≠ 0)
    (hroot : (s.nd 0).oid ≠ some o) {kn : List Str} {n : Nat} (hn : res s kn = some n) (hno : (s.nd n).oid ≠ some o)
    {s1 : HC} (hrun : delete c (some o) none s = (s1, .ok ())) :
    DelPost c s s1 ∧ dget s1.idmap o = none ∧
      (res s1 kn = some n ∨ ((∀ p, fullPath c s1 n ≠ .ok (some p)) ∧ ¬ Reach s1 n)) := by
  have hd := delete_spec g s (some o) none hc
  rw [hrun] at hd
  obtain ⟨e1, e2, e3, _⟩ := hd
  simp only at e1 e2 e3
  refine ⟨e1, delete_oid_gone g hc h0 hroot hrun rfl, ?_⟩
  obtain ⟨x, hx, hx1, _⟩ := hc.getNode_oid o none
  cases x with
  | none => left; rw [e3 (fun y hy => by rw [hx] at hy; simp at hy)]; exact hn
  | some y =>
    obtain ⟨ky, hky⟩ := (hx1 y rfl).1
    obtain ⟨a1, a2, a3⟩ := e2 y ky hx hky
    by_cases hp : ky <+: kn
    · right
      have hy0 : y ≠ 0 := fun e => hroot (by rw [← e]; exact (hx1 y rfl).2)
      obtain ⟨r, rfl⟩ := hp
      refine ⟨fullPath_below_detached hc e1 hky hy0 (a3 trivial hy0) r n hn, ?_⟩
      rintro ⟨q, hq⟩
      rcases e1.shrink q with b | b
      · rw [b] at hq; simp at hq
      · rw [b] at hq
        have := hc.res_inj hq hn
        subst this
        rw [a2 trivial hy0 _ (List.prefix_append _ _)] at b
        rw [hn] at b; simp at b
    · left; rw [a1 kn hp]; exact hn

end CS.HCache
