import Csverif.Proofs.HCache.PathL
/- C19 helper lemmas, part 4: the monad, `full_path`, `_walk`, id popping. -/
namespace CS.HCache
open CS.Path

/-! ### the monad -/

theorem bind_run {α β} (m : M α) (f : α → M β) (s : HC) :
    (m >>= f) s = match m s with
      | (s', .ok a) => f a s'
      | (s', .error e) => (s', .error e) := rfl

@[simp] theorem pure_run {α} (a : α) (s : HC) : (pure a : M α) s = (s, .ok a) := rfl
@[simp] theorem getS_run (s : HC) : getS s = (s, .ok s) := rfl
@[simp] theorem modS_run (f : HC → HC) (s : HC) : modS f s = (f s, .ok ()) := rfl
@[simp] theorem raise_run {α} (e : Err) (s : HC) : (raise e : M α) s = (s, .error e) := rfl
@[simp] theorem fullPathM_run (c : Cfg) (i : Nat) (s : HC) : fullPathM c i s = (s, fullPath c s i) := rfl
@[simp] theorem getNodeM_run (c : Cfg) (o : Option Oid) (p : Option Str) (s : HC) :
    getNodeM c o p s = (s, getNode c s o p) := rfl
@[simp] theorem walkM_run (c : Cfg) (n : Nat) (s : HC) : walkM c n s = (s, walk c s n) := rfl

theorem bind_ok {α β} {m : M α} {f : α → M β} {s s' : HC} {a : α} (h : m s = (s', .ok a)) :
    (m >>= f) s = f a s' := by rw [bind_run, h]

theorem bind_err {α β} {m : M α} {f : α → M β} {s s' : HC} {e : Err} (h : m s = (s', .error e)) :
    (m >>= f) s = (s', .error e) := by rw [bind_run, h]

/-! ### names along a resolving path -/

theorem Coherent.ksOk {c : Cfg} {s : HC} (hc : Coherent c s) : ∀ {ks : List Str} {n : Nat}, res s ks = some n → KsOk c ks := by
  intro ks
  induction ks using snoc_induction with
  | hnil => intro _ _; exact ksOk_nil c
  | hsnoc init a ih =>
    intro n h
    obtain ⟨p, hp, hk⟩ := res_snoc_some h
    exact (ih hp).append (ksOk_single (hc.link ⟨init, hp⟩ (dget_mem hk)).2.2.2.2.1)

/-- nodes visited when following `ks` from `n` (including `n`) -/
def chainFrom (s : HC) : Nat → List Str → List Nat
  | n, [] => [n]
  | n, k :: ks =>
    match dget (s.nd n).children k with
    | none => [n]
    | some ch => n :: chainFrom s ch ks

theorem chainFrom_snoc {s : HC} : ∀ {n : Nat} {init : List Str} {a : Str} {p m : Nat},
    resFrom s n init = some p → dget (s.nd p).children a = some m →
    chainFrom s n (init ++ [a]) = chainFrom s n init ++ [m] := by
  intro n init
  induction init generalizing n with
  | nil =>
    intro a p m h1 h2
    simp [resFrom] at h1; subst h1
    simp [chainFrom, h2]
  | cons k ks ih =>
    intro a p m h1 h2
    simp only [resFrom] at h1
    cases hd : dget (s.nd n).children k with
    | none => simp [hd] at h1
    | some ch =>
      simp only [hd] at h1
      simp [chainFrom, hd, ih h1 h2]

theorem chainFrom_head (s : HC) (n : Nat) (ks : List Str) : ∃ t, chainFrom s n ks = n :: t := by
  cases ks with
  | nil => exact ⟨[], rfl⟩
  | cons k ks =>
    simp only [chainFrom]
    cases dget (s.nd n).children k with
    | none => exact ⟨[], rfl⟩
    | some ch => exact ⟨_, rfl⟩

theorem Coherent.chain_names {c : Cfg} {s : HC} (hc : Coherent c s) : ∀ {ks : List Str} {n : Nat},
    res s ks = some n → (chainFrom s 0 ks).map (fun j => (s.nd j).name) = [] :: ks := by
  intro ks
  induction ks using snoc_induction with
  | hnil => intro _ _; simp [chainFrom, hc.root_name]
  | hsnoc init a ih =>
    intro n h
    obtain ⟨p, hp, hk⟩ := res_snoc_some h
    rw [chainFrom_snoc hp hk, List.map_append, ih hp]
    simp [(hc.link ⟨init, hp⟩ (dget_mem hk)).2.2.1]

/-- a child is not its own parent -/
theorem Coherent.child_ne {c : Cfg} {s : HC} (hc : Coherent c s) {q : List Str} {k : Str} {p n : Nat}
    (hp : res s q = some p) (hk : dget (s.nd p).children k = some n) : p ≠ n := by
  intro e
  subst e
  have h2 : res s (q ++ [k]) = some p := by rw [res_snoc, hp]; exact hk
  have := hc.res_inj hp h2
  simpa using congrArg List.length this

theorem Coherent.checkOk {c : Cfg} {s : HC} (hc : Coherent c s) {n : Nat} (h : Reach s n) : checkOk s n = true := by
  obtain ⟨q, hq⟩ := h
  rcases List.eq_nil_or_concat q with rfl | ⟨i, k, rfl⟩
  · simp at hq; subst hq; simp [CS.HCache.checkOk, hc.root_parent]
  · rw [List.concat_eq_append] at hq
    obtain ⟨p, hp, hk⟩ := res_snoc_some hq
    have l := hc.link ⟨i, hp⟩ (dget_mem hk)
    have hne := hc.child_ne hp hk
    simp only [CS.HCache.checkOk, l.2.1]
    rcases l.2.2.2.2.2 with h1 | h1
    · simp [h1, hne]
    · simp [h1, hne]

theorem Coherent.fullPathNodes {c : Cfg} {s : HC} (hc : Coherent c s) : ∀ {ks : List Str} {n : Nat},
    res s ks = some n → ∀ f seen, ks.length < f → fullPathNodes s f n seen = .ok (chainFrom s 0 ks ++ seen) := by
  intro ks
  induction ks using snoc_induction with
  | hnil =>
    intro n h f seen hf
    simp at h; subst h
    cases f with
    | zero => omega
    | succ f => simp [CS.HCache.fullPathNodes, hc.checkOk (Reach.root s), hc.root_parent, chainFrom]
  | hsnoc init a ih =>
    intro n h f seen hf
    obtain ⟨p, hp, hk⟩ := res_snoc_some h
    cases f with
    | zero => omega
    | succ f =>
      simp only [List.length_append, List.length_singleton] at hf
      have l := hc.link ⟨init, hp⟩ (dget_mem hk)
      simp only [CS.HCache.fullPathNodes, hc.checkOk ⟨_, h⟩, l.2.1, Bool.not_true, Bool.false_eq_true, if_false]
      rw [ih hp f _ (by omega), chainFrom_snoc hp hk]; simp

/-- `full_path()` of a reachable node is the canonical path of its keys -/
theorem Coherent.fullPath {c : Cfg} (g : CfgGood c) {s : HC} (hc : Coherent c s) {ks : List Str} {n : Nat}
    (h : res s ks = some n) : fullPath c s n = .ok (some (canon c.sep ks)) := by
  have hn := hc.fullPathNodes h (s.heap.length + 1) [] (by have := hc.depth_lt h; omega)
  obtain ⟨t, ht⟩ := chainFrom_head s 0 ks
  simp only [CS.HCache.fullPath, hn, List.append_nil, ht, hc.root_isRoot, Bool.not_true, Bool.false_eq_true, if_false]
  rw [← ht, hc.chain_names h, join_root_names g (hc.ksOk h)]

/-- `full_path` only reads parent links, ids, names and root flags -/
theorem fullPathNodes_congr {s s' : HC}
    (h : ∀ i, (s'.nd i).parent = (s.nd i).parent ∧ (s'.nd i).oid = (s.nd i).oid) :
    ∀ f i seen, fullPathNodes s' f i seen = fullPathNodes s f i seen := by
  intro f
  induction f with
  | zero => intro i seen; rfl
  | succ f ih =>
    intro i seen
    have hck : checkOk s' i = checkOk s i := by
      simp only [checkOk, (h i).1, (h i).2]
      cases (s.nd i).parent with
      | none => rfl
      | some p => simp [(h p).2]
    simp only [fullPathNodes, hck, (h i).1, ih]

theorem fullPath_congr (c : Cfg) {s s' : HC} (hl : s'.heap.length = s.heap.length)
    (h : ∀ i, (s'.nd i).parent = (s.nd i).parent ∧ (s'.nd i).oid = (s.nd i).oid ∧
      (s'.nd i).name = (s.nd i).name ∧ (s'.nd i).isRoot = (s.nd i).isRoot) (n : Nat) :
    fullPath c s' n = fullPath c s n := by
  simp only [fullPath, hl, fullPathNodes_congr (fun i => ⟨(h i).1, (h i).2.1⟩)]
  cases fullPathNodes s (s.heap.length + 1) n [] with
  | error e => rfl
  | ok l =>
    cases l with
    | nil => rfl
    | cons r rest =>
      simp only [(h r).2.2.2]
      have : (r :: rest).map (fun j => (s'.nd j).name) = (r :: rest).map (fun j => (s.nd j).name) :=
        List.map_congr_left (fun j _ => (h j).2.2.1)
      rw [this]

/-! ### `_walk` -/

/-- local well-formedness of the subtree below `n` (holds for reachable nodes of a coherent cache and
    for a detached subtree) -/
def SubOk (s : HC) (n : Nat) : Prop :=
  ∀ q m, resFrom s n q = some m →
    (keys (s.nd m).children).Nodup ∧ ((s.nd m).type = .file → (s.nd m).children = [])

def walkNodes (c : Cfg) (s : HC) (f n : Nat) (p : Option Str) : List Nat := (walkAux c s f n p).map (·.1)

theorem walkNodes_succ (c : Cfg) (s : HC) (f n : Nat) (p : Option Str) :
    walkNodes c s (f + 1) n p = n :: (if (s.nd n).type = .file then [] else
      (s.nd n).children.flatMap (fun kc =>
        if (s.nd kc.2).type = .dir then walkNodes c s f kc.2 (some (joinOpt c p kc.1)) else [kc.2])) := by
  simp only [walkNodes, walkAux, List.map_cons]
  congr 1
  split
  · rfl
  · rw [List.map_flatMap]
    congr 1
    funext kc
    split <;> rfl

/-- every node `walk` yields is below the start node -/
theorem walkNodes_sound (c : Cfg) (s : HC) :
    ∀ f n p m, (∀ q x, resFrom s n q = some x → (keys (s.nd x).children).Nodup) →
      m ∈ walkNodes c s f n p → ∃ q, resFrom s n q = some m := by
  intro f
  induction f with
  | zero => intro n p m _ hm; simp [walkNodes, walkAux] at hm
  | succ f ih =>
    intro n p m hnd hm
    rw [walkNodes_succ] at hm
    rcases List.mem_cons.1 hm with rfl | hm
    · exact ⟨[], rfl⟩
    · split at hm
      · simp at hm
      · obtain ⟨kc, hkc, hm⟩ := List.mem_flatMap.1 hm
        have hd : dget (s.nd n).children kc.1 = some kc.2 := dget_of_mem (hnd [] n rfl) hkc
        split at hm
        · obtain ⟨q, hq⟩ := ih kc.2 _ m (fun q x hx => hnd (kc.1 :: q) x (by simp [resFrom, hd, hx])) hm
          exact ⟨kc.1 :: q, by simp [resFrom, hd, hq]⟩
        · simp at hm; subst hm
          exact ⟨[kc.1], by simp [resFrom, hd]⟩

/-- with enough fuel `walk` yields every node below the start node -/
theorem walkNodes_complete (c : Cfg) (s : HC) :
    ∀ (q : List Str) (f n : Nat) (p : Option Str) (m : Nat), SubOk s n → resFrom s n q = some m → q.length < f →
      m ∈ walkNodes c s f n p := by
  intro q
  induction q with
  | nil =>
    intro f n p m _ h hf
    simp [resFrom] at h; subst h
    cases f with
    | zero => omega
    | succ f => rw [walkNodes_succ]; exact List.mem_cons_self
  | cons k r ih =>
    intro f n p m hok h hf
    cases f with
    | zero => simp at hf
    | succ f =>
      simp only [List.length_cons] at hf
      simp only [resFrom] at h
      cases hd : dget (s.nd n).children k with
      | none => simp [hd] at h
      | some ch =>
        simp only [hd] at h
        have hmem := dget_mem hd
        rw [walkNodes_succ]
        refine List.mem_cons_of_mem _ ?_
        have hnf : (s.nd n).type ≠ .file := by
          intro e
          have := (hok [] n rfl).2 e
          rw [this] at hmem; simp at hmem
        rw [if_neg hnf]
        refine List.mem_flatMap.2 ⟨(k, ch), hmem, ?_⟩
        have hsub : SubOk s ch := fun q x hx => hok (k :: q) x (by simp [resFrom, hd, hx])
        by_cases hdir : (s.nd ch).type = .dir
        · simp only [hdir, if_true]
          exact ih f ch _ m hsub h (by omega)
        · simp only [hdir, if_false, List.mem_singleton]
          have hfile : (s.nd ch).type = .file := by
            cases ht : (s.nd ch).type with
            | file => rfl
            | dir => exact absurd ht hdir
          have hnil := (hsub [] ch rfl).2 hfile
          cases r with
          | nil => simp [resFrom] at h; exact h.symm
          | cons k2 r2 => simp [resFrom, hnil, dget] at h

/-! ### popping ids -/

/-- the truthy ids of a list of nodes -/
def oidsOf (s : HC) (l : List Nat) : List Oid :=
  l.filterMap (fun n => if truthy (s.nd n).oid then (s.nd n).oid else none)

def eraseAll (d : List (Oid × Nat)) : List Oid → List (Oid × Nat)
  | [] => d
  | o :: os => eraseAll (derase d o) os

theorem oidsOf_idmap (s : HC) (d : List (Oid × Nat)) (l : List Nat) : oidsOf { s with idmap := d } l = oidsOf s l := rfl

theorem popIds_run (l : List Nat) (s : HC) :
    popIds l s = ({ s with idmap := eraseAll s.idmap (oidsOf s l) }, .ok ()) := by
  induction l generalizing s with
  | nil => simp [popIds, oidsOf, eraseAll]
  | cons n rest ih =>
    simp only [popIds, bind_run, modS_run]
    rw [ih]
    by_cases ht : truthy (s.nd n).oid = true
    · cases ho : (s.nd n).oid with
      | none => rw [ho] at ht; simp [truthy] at ht
      | some o =>
        rw [ho] at ht
        have e1 : oidsOf s (n :: rest) = o :: oidsOf s rest := by
          simp [oidsOf, List.filterMap_cons, ho, ht]
        simp only [ho, ht, if_true, e1, eraseAll, oidsOf_idmap]
    · have e1 : oidsOf s (n :: rest) = oidsOf s rest := by
        simp [oidsOf, List.filterMap_cons, ht]
      simp only [ht, Bool.false_eq_true, if_false, e1]

theorem mem_eraseAll {d : List (Oid × Nat)} {os : List Oid} {e : Oid × Nat} (h : e ∈ eraseAll d os) : e ∈ d := by
  induction os generalizing d with
  | nil => exact h
  | cons o os ih => exact mem_derase (ih h)

theorem nodup_eraseAll {d : List (Oid × Nat)} (hn : (keys d).Nodup) (os : List Oid) : (keys (eraseAll d os)).Nodup := by
  induction os generalizing d with
  | nil => exact hn
  | cons o os ih => exact ih (nodup_keys_derase hn o)

theorem dget_eraseAll_of_mem {d : List (Oid × Nat)} (hn : (keys d).Nodup) {os : List Oid} {o : Oid} (h : o ∈ os) :
    dget (eraseAll d os) o = none := by
  induction os generalizing d with
  | nil => simp at h
  | cons o' os ih =>
    simp only [eraseAll]
    rcases List.mem_cons.1 h with rfl | h'
    · rw [dget_none]
      intro hm
      obtain ⟨e, he, rfl⟩ := List.mem_map.1 hm
      have := mem_keys_of_mem (mem_eraseAll he)
      exact not_mem_keys_derase hn _ this
    · exact ih (nodup_keys_derase hn o') h'

theorem dget_eraseAll_of_not_mem {d : List (Oid × Nat)} {os : List Oid} {o : Oid} (h : o ∉ os) :
    dget (eraseAll d os) o = dget d o := by
  induction os generalizing d with
  | nil => rfl
  | cons o' os ih =>
    simp only [List.mem_cons, not_or] at h
    simp only [eraseAll]
    rw [ih h.2, dget_derase_ne h.1]

theorem mem_oidsOf {s : HC} {l : List Nat} {o : Oid} : o ∈ oidsOf s l ↔ ∃ n ∈ l, (s.nd n).oid = some o ∧ o ≠ 0 := by
  simp only [oidsOf, List.mem_filterMap]
  constructor
  · rintro ⟨n, hn, h⟩
    split at h
    · next ht =>
      refine ⟨n, hn, h, ?_⟩
      rw [h] at ht
      intro e; subst e; simp [truthy] at ht
    · simp at h
  · rintro ⟨n, hn, h, h0⟩
    refine ⟨n, hn, ?_⟩
    have : truthy (some o) = true := by
      cases o with
      | zero => exact absurd rfl h0
      | succ k => rfl
    simp [h, this]

end CS.HCache
