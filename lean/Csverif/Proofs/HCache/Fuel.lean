import Csverif.Proofs.HCache.DeleteRec
/- C19 helper lemmas, part 13: the recursion budget of `delete` is never exhausted in a coherent cache. -/
namespace CS.HCache
open CS.Path
set_option linter.unusedSimpArgs false
set_option linter.unusedVariables false

/-- every node below `x` is fewer than `F` links away -/
def Shallow (s : HC) (x F : Nat) : Prop := ∀ q m, resFrom s x q = some m → q.length < F

theorem delLoop_nofuel {c : Cfg} (g : CfgGood c) (f : Nat)
    (hrec : ∀ t oid path, Coherent c t → DelSpec c t oid path (deleteRec c f oid path t))
    (hnf : ∀ t oid path, Coherent c t → (∀ x, getNode c t oid path = .ok (some x) → Shallow t x f) → 0 < f →
      (deleteRec c f oid path t).2 ≠ .error .fuel)
    (kx : List Str) :
    ∀ (kl : List (Str × Nat)) (t : HC), Coherent c t → (keys kl).Nodup →
      (∀ e ∈ kl, res t (kx ++ [e.1]) = some e.2) → (∀ e ∈ kl, Shallow t e.2 f) → (kl ≠ [] → 0 < f) →
      (delLoop c (deleteRec c f) (kl.map (·.2)) t).2 = .ok () := by
  intro kl
  induction kl with
  | nil => intro t _ _ _ _ _; rfl
  | cons e rest ih =>
    obtain ⟨k, ch⟩ := e
    intro t hc hnd hres hsh hpos
    have hf : 0 < f := hpos (by simp)
    have hch : res t (kx ++ [k]) = some ch := hres (k, ch) List.mem_cons_self
    simp only [List.map_cons, delLoop_cons, hc.fullPath g hch]
    have hspec := hrec t (t.nd ch).oid (some (canon c.sep (kx ++ [k]))) hc
    have hlook := hc.kid_lookup g hch
    have hno := hnf t (t.nd ch).oid (some (canon c.sep (kx ++ [k]))) hc (fun x hx => by
      rcases hlook with hl | hl
      · rw [hl] at hx; simp at hx
      · rw [hl] at hx; cases hx; exact hsh (k, ch) List.mem_cons_self) hf
    have hout : ∀ q, ¬ (kx ++ [k]) <+: q → res (deleteRec c f (t.nd ch).oid (some (canon c.sep (kx ++ [k]))) t).1 q = res t q := by
      intro q hq
      rcases hlook with hl | hl
      · rw [hspec.2.2.1 (fun x hx => by rw [hl] at hx; simp at hx)]
      · exact (hspec.2.1 ch _ hl hch).1 q hq
    have hresult : (deleteRec c f (t.nd ch).oid (some (canon c.sep (kx ++ [k]))) t).2 = .ok () := by
      rcases hspec.2.2.2 with h | h | ⟨e, he, _⟩
      · exact h
      · exact absurd h hno
      · rcases hlook with hl | hl <;> rw [hl] at he <;> simp at he
    cases hout1 : deleteRec c f (t.nd ch).oid (some (canon c.sep (kx ++ [k]))) t with
    | mk t1 r1 =>
      rw [hout1] at hspec hout hresult
      simp only at hspec hout hresult
      subst hresult
      simp only
      simp only [keys_cons, List.nodup_cons] at hnd
      have hne : ∀ e ∈ rest, ¬ (kx ++ [k]) <+: (kx ++ [e.1]) := by
        intro e he hp
        have : k = e.1 := prefix_snoc_ne (kx := kx) (r := []) (by simpa using hp)
        exact hnd.1 (this ▸ mem_keys_of_mem (show (e.1, e.2) ∈ rest from he))
      have hres1 : ∀ e ∈ rest, res t1 (kx ++ [e.1]) = some e.2 := by
        intro e he
        rw [hout _ (hne e he)]
        exact hres e (List.mem_cons_of_mem _ he)
      apply ih t1 hspec.1.coh hnd.2 hres1 ?_ (fun _ => hf)
      intro e he q m hm
      apply hsh e (List.mem_cons_of_mem _ he) q m
      -- the subtree of a remaining kid can only have shrunk
      have h1 : res t1 (kx ++ [e.1] ++ q) = some m := res_of_resFrom (hres1 e he) hm
      have h2 : res t (kx ++ [e.1] ++ q) = some m := by
        rcases hspec.1.shrink (kx ++ [e.1] ++ q) with a | a
        · rw [a] at h1; simp at h1
        · rw [← a]; exact h1
      obtain ⟨y, hy, hr⟩ := res_prefix h2
      rw [hres e (List.mem_cons_of_mem _ he)] at hy
      cases hy; exact hr

theorem deleteRec_nofuel {c : Cfg} (g : CfgGood c) : ∀ (f : Nat) (s : HC) (oid : Option Oid) (path : Option Str),
    Coherent c s → (∀ x, getNode c s oid path = .ok (some x) → Shallow s x f) → 0 < f →
    (deleteRec c f oid path s).2 ≠ .error .fuel := by
  intro f
  induction f with
  | zero => intro s oid path _ _ h; omega
  | succ f ih =>
    intro s oid path hc hsh _
    rw [deleteRec_succ]
    cases hg : getNode c s oid path with
    | error e =>
      simp only
      intro h
      -- a lookup error is a ValueError, never the budget
      cases oid with
      | some o =>
        obtain ⟨r, hr, _, _⟩ := hc.getNode_oid o path
        rw [hr] at hg; simp at hg
      | none =>
        cases path with
        | some p => rw [getNode_path g] at hg; simp at hg
        | none => simp [getNode] at hg; subst hg; simp at h
    | ok r =>
      cases r with
      | none => simp
      | some x =>
        simp only
        obtain ⟨kx, hkx⟩ := hc.getNode_reach g hg
        have hshx := hsh x hg
        -- the children loop succeeds
        have hloop : ∃ t, (if (s.nd x).type = .dir then delLoop c (deleteRec c f) ((s.nd x).children.map (·.2)) else pure ()) s = (t, .ok ()) ∧
            Coherent c t ∧ res t kx = some x := by
          by_cases hd : (s.nd x).type = .dir
          · simp only [hd, if_true]
            have hr : Reach s x := ⟨_, hkx⟩
            have hkids : ∀ e ∈ (s.nd x).children, res s (kx ++ [e.1]) = some e.2 := fun e he => by
              rw [res_snoc, hkx]; exact dget_of_mem (hc.keys_nodup hr) he
            have hok := delLoop_nofuel g f (deleteRec_spec g f) ih kx (s.nd x).children s hc (hc.keys_nodup hr) hkids
              (fun e he q m hm => by
                have hd' : dget (s.nd x).children e.1 = some e.2 := dget_of_mem (hc.keys_nodup hr) he
                have := hshx (e.1 :: q) m (by simp [resFrom, hd', hm])
                simp at this; omega)
              (fun hne => by
                cases hch : (s.nd x).children with
                | nil => exact absurd hch hne
                | cons e rest =>
                  have hd' : dget (s.nd x).children e.1 = some e.2 :=
                    dget_of_mem (hc.keys_nodup hr) (by rw [hch]; exact List.mem_cons_self)
                  have := hshx [e.1] e.2 (by simp [resFrom, hd'])
                  simp at this; omega)
            obtain ⟨p1, p2, _⟩ := delLoop_spec g (deleteRec c f) (deleteRec_spec g f) kx (s.nd x).children s hc
              (hc.keys_nodup hr) hkids
            refine ⟨(delLoop c (deleteRec c f) ((s.nd x).children.map (·.2)) s).1, ?_, p1.coh, ?_⟩
            · rw [← hok]
            · rw [p2 kx (fun e _ hp => by have := hp.length_le; simp at this; omega)]; exact hkx
          · simp only [hd, if_false]
            exact ⟨s, rfl, hc, hkx⟩
        obtain ⟨t, hrun, hct, htx⟩ := hloop
        rw [hrun]
        simp only [hct.fullPath g htx]
        rcases List.eq_nil_or_concat kx with rfl | ⟨init, a, rfl⟩
        · simp at htx; subst htx
          rw [deleteNode_root c t 0 hct.root_isRoot]; simp
        · rw [List.concat_eq_append] at htx
          obtain ⟨p, hp, hk⟩ := res_snoc_some htx
          have d : DelCtx c t init a p x := ⟨g, hct, hp, hk⟩
          rw [deleteNode_ctx d]; simp

/-- **`delete` always completes in a coherent cache** (it returns normally unless called without
    arguments): the recursion budget `heap size + 1` is never exhausted -/
theorem delete_total {c : Cfg} (g : CfgGood c) {s : HC} (hc : Coherent c s) (oid : Option Oid) (path : Option Str)
    (harg : oid.isSome ∨ path.isSome) : (delete c oid path s).2 = .ok () := by
  have hspec := delete_spec g s oid path hc
  have hrun : delete c oid path s = deleteRec c (s.heap.length + 1) oid path s := by simp [delete, bind_run]
  have hno : (delete c oid path s).2 ≠ .error .fuel := by
    rw [hrun]
    apply deleteRec_nofuel g _ s oid path hc ?_ (by omega)
    intro x hx q m hm
    obtain ⟨kx, hkx⟩ := hc.getNode_reach g hx
    have := hc.depth_lt (res_of_resFrom hkx hm)
    simp at this; omega
  rcases hspec.2.2.2 with h | h | ⟨e, he, _⟩
  · exact h
  · exact absurd h hno
  · exfalso
    cases oid with
    | some o =>
      obtain ⟨r, hr, _, _⟩ := hc.getNode_oid o path
      rw [hr] at he; simp at he
    | none =>
      cases path with
      | some p => rw [getNode_path g] at he; simp at he
      | none => simp at harg

end CS.HCache
