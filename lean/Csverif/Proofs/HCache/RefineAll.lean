import Csverif.Proofs.HCache.RefineSet
/- C19 helper lemmas, part 19: one refinement step for every operation, preservation of "no falsy ids", and the
   lookups of the cache in terms of the dictionary. -/
namespace CS.HCache
open CS.Path CS.HDict
set_option linter.unusedSimpArgs false
set_option linter.unusedVariables false

/-- the id argument of an operation is None or truthy (never the empty string) -/
def OpOidOk : Op → Prop
  | .mkdir _ o => o ≠ some 0
  | .create _ o => o ≠ some 0
  | .update _ _ o => o ≠ some 0
  | _ => True

def opOidOk : Op → Bool
  | .mkdir _ o => decide (o ≠ some 0)
  | .create _ o => decide (o ≠ some 0)
  | .update _ _ o => decide (o ≠ some 0)
  | _ => true

theorem opOidOk_iff (op : Op) : opOidOk op = true ↔ OpOidOk op := by
  cases op <;> simp [opOidOk, OpOidOk]

/-! ### the specification never introduces a falsy id -/

theorem noFalsy_rmD {d : D} (h : NoFalsyV (dlook d)) (k : Key) : NoFalsyV (dlook (rmD k d)) := by
  rw [dlook_rmD]; exact h.rm k

theorem noFalsy_evictD {d : D} (h : NoFalsyV (dlook d)) (ks : Key) (oid : Option Oid) : NoFalsyV (dlook (evictD ks oid d)) := by
  simp only [evictD]
  cases oid with
  | none => exact noFalsy_rmD h ks
  | some o =>
    cases o with
    | zero => exact noFalsy_rmD h ks
    | succ n =>
      simp only
      cases holderD (rmD ks d) (n + 1) with
      | some kx => exact noFalsy_rmD (noFalsy_rmD h ks) kx
      | none => exact noFalsy_rmD h ks

theorem noFalsy_insertD {d : D} (h : NoFalsyV (dlook d)) (ks : Key) (x : HDict.Ent) (hx : x.2 ≠ some 0) :
    NoFalsyV (dlook (insertD ks x d)) := by
  simp only [insertD]
  rw [dlook_putD, dlook_rmD, dlook_ensureD]
  exact (((noFalsy_evictD h ks x.2).ensure _).rm ks).put ks hx

theorem noFalsy_evictOidD {d : D} (h : NoFalsyV (dlook d)) (o : Oid) : NoFalsyV (dlook (evictOidD o d)) := by
  simp only [evictOidD]
  cases holderD d o with
  | some kx => exact noFalsy_rmD h kx
  | none => exact h

theorem noFalsy_setOidD {d : D} (h : NoFalsyV (dlook d)) (k : Key) (t0 : OType) (i0 : Option Oid) {o : Oid} (h0 : o ≠ 0) :
    NoFalsyV (dlook (setOidD k t0 i0 o d)) := by
  have hx : ((t0, some o) : HDict.Ent).2 ≠ some 0 := by intro e; exact h0 (by cases e; rfl)
  simp only [setOidD]
  split
  · exact h
  · split
    · rw [dlook_putD]; exact (noFalsy_evictOidD h o).put k hx
    · exact noFalsy_insertD (noFalsy_evictOidD h o) k _ hx

theorem specStep_noFalsy {c : Cfg} (g : CfgGood c) {d : D} (h : NoFalsyV (dlook d)) (op : Op) (hoid : OpOidOk op)
    (hren : ∀ a b, op = .rename a b → tcomps c b ≠ []) : NoFalsyV (dlook (specStep c d op).1) := by
  cases op with
  | mkdir p o => exact noFalsy_insertD h _ _ hoid
  | create p o => exact noFalsy_insertD h _ _ hoid
  | delete oid path =>
    simp only [specStep]
    cases oid with
    | some o =>
      simp only
      cases holderD d o with
      | some kx => exact noFalsy_rmD h kx
      | none => exact h
    | none =>
      cases path with
      | some p => simp only; split
                  · exact noFalsy_rmD h _
                  · exact h
      | none => exact h
  | rename a b =>
    simp only [specStep]
    cases dlook d (pcomps c a) with
    | none => exact noFalsy_rmD h _
    | some e =>
      simp only
      split
      · exact h
      · have hb : pcomps c b ≠ [] := by rw [pcomps_eq g]; exact hren a b rfl
        rw [dlook_graftD hb, dlook_ensureD]
        refine ((noFalsy_rmD (noFalsy_rmD h _) _).ensure _).graft ?_ _
        intro r t
        rw [dlook_subD]; exact h _ t
  | setOid p oid t =>
    simp only [specStep]
    split
    · exact h
    · next hcond =>
      cases oid with
      | none => exact h
      | some o =>
        have h0 : o ≠ 0 := by intro e; subst e; simp [truthy] at hcond
        simp only
        cases dlook d (pcomps c p) with
        | some e => obtain ⟨t0, i0⟩ := e; exact noFalsy_setOidD h _ t0 i0 h0
        | none => exact noFalsy_insertD h _ _ (by intro e; exact h0 (by cases e; rfl))
  | update p t oid =>
    simp only [specStep]
    cases dlook d (pcomps c p) with
    | none => exact noFalsy_insertD h _ _ hoid
    | some e =>
      obtain ⟨t0, i0⟩ := e
      simp only
      split
      · exact noFalsy_insertD (noFalsy_rmD h _) _ _ hoid
      · split
        · next hto =>
          cases oid with
          | none => exact h
          | some o =>
            have h0 : o ≠ 0 := by intro e; subst e; simp [truthy] at hto
            exact noFalsy_setOidD h _ t0 i0 h0
        · exact h

theorem specStep_update_ok (c : Cfg) (d : D) (p : Str) (t : OType) (o : Option Oid) :
    (specStep c d (.update p t o)).2 = .ok := by
  simp only [specStep]
  cases dlook d (pcomps c p) with
  | none => rfl
  | some e =>
    obtain ⟨t0, i0⟩ := e
    simp only
    split
    · rfl
    · split
      · cases o <;> rfl
      · rfl

/-! ### one refinement step -/

/-- **every guarded operation refines its dictionary specification**: the outcome is the specified one and the
    abstraction relation, coherence and the absence of falsy ids are re-established -/
theorem refine_step {c : Cfg} (g : CfgGood c) {s : HC} {d : D} (hc : Coherent c s) (habs : Abs s d)
    (hnf : NoFalsyV (view s)) (op : Op) (hg : OpGuard c s op) (hoid : OpOidOk op) :
    ResAgree (step c s op).2 (specStep c d op).2 ∧ Abs (step c s op).1 (specStep c d op).1 ∧
      Coherent c (step c s op).1 ∧ NoFalsyV (view (step c s op).1) := by
  have hstep : ResAgree (step c s op).2 (specStep c d op).2 ∧ Abs (step c s op).1 (specStep c d op).1 := by
    cases op with
    | mkdir p o => exact refine_mkdir g hc habs p o hg hoid
    | create p o => exact refine_create g hc habs p o hg hoid
    | delete o p => exact refine_delete g hc habs hnf o p
    | rename a b => exact refine_rename g hc habs hnf a b hg
    | setOid p o t => exact ⟨(refine_setOid g hc habs p o t hg).1, (refine_setOid g hc habs p o t hg).2.1⟩
    | update p t o =>
      refine ⟨?_, (refine_update g hc habs p t o hg hoid).2.1⟩
      rw [specStep_update_ok]
      exact (refine_update g hc habs p t o hg hoid).1
  refine ⟨hstep.1, hstep.2, step_coherent g hc op hg, ?_⟩
  rw [← hstep.2]
  apply specStep_noFalsy g (by rw [show dlook d = view s from habs]; exact hnf) op hoid
  intro a b e
  subst e
  exact hg

/-! ### the lookups answer as the dictionary does -/

theorem getOid_refines {c : Cfg} (g : CfgGood c) {s : HC} {d : D} (habs : Abs s d) (p : Str) :
    getOid c s p = .ok (getOidD c d p) := by
  have hd : dlook d = view s := habs
  simp only [getOid, getNode_path g, getOidD, pcomps_eq g, hd]
  cases hr : res s (tcomps c p) with
  | none => simp [view, hr]
  | some n => simp [view, hr, entOf]

theorem getType_refines {c : Cfg} (g : CfgGood c) {s : HC} {d : D} (habs : Abs s d) (p : Str) :
    getType c s none (some p) = .ok (getTypeD c d p) := by
  have hd : dlook d = view s := habs
  simp only [getType, getNode_path g, getTypeD, pcomps_eq g, hd]
  cases hr : res s (tcomps c p) with
  | none => simp [view, hr]
  | some n => simp [view, hr, entOf]

theorem getPath_refines {c : Cfg} (g : CfgGood c) {s : HC} {d : D} (hc : Coherent c s) (habs : Abs s d)
    (hnf : NoFalsyV (view s)) (o : Oid) :
    getPath c s o = .ok ((getPathD d o).map (canon c.sep)) := by
  simp only [getPath, getPathD]
  cases hh : holderD d o with
  | some k =>
    obtain ⟨x, hx, hox⟩ := holderV_view (habs ▸ holderD_some hh)
    have h0 : o ≠ 0 := fun e => by
      subst e; exact hnf k (s.nd x).type (by rw [view_some hx]; simp [entOf, hox])
    rw [hc.dget_idmap.2 ⟨⟨_, hx⟩, hox, h0⟩]
    simp only [Option.map_some]
    exact hc.fullPath g hx
  | none =>
    cases hd : dget s.idmap o with
    | none => rfl
    | some n =>
      exfalso
      obtain ⟨⟨k, hk⟩, hon, _⟩ := hc.dget_idmap.1 hd
      exact holderD_none hh k ⟨(s.nd n).type, by rw [habs, view_some hk]; simp [entOf, hon]⟩

/-- `listdir(path)` as a set: a name is listed iff the dictionary has an entry directly below the path -/
theorem listdir_refines {c : Cfg} (g : CfgGood c) {s : HC} {d : D} (hc : Coherent c s) (habs : Abs s d) (p : Str) :
    ∃ l, listdir c s none (some p) = .ok l ∧ ∀ a, a ∈ l ↔ hasChildD d (pcomps c p) a = true := by
  have hd : dlook d = view s := habs
  simp only [listdir, getNode_path g, hasChildD, pcomps_eq g, hd]
  cases hr : res s (tcomps c p) with
  | none =>
    refine ⟨[], rfl, fun a => ?_⟩
    have : res s (tcomps c p ++ [a]) = none := by rw [res_snoc, hr]; rfl
    simp [view, this]
  | some n =>
    refine ⟨_, rfl, fun a => ?_⟩
    have hrn : Reach s n := ⟨_, hr⟩
    simp only [view, res_snoc, hr, Option.bind_some, List.mem_map]
    constructor
    · rintro ⟨kc, hkc, rfl⟩
      have l := hc.link hrn hkc
      rw [l.2.2.1, dget_of_mem (hc.keys_nodup hrn) hkc]; rfl
    · intro h
      cases hd : dget (s.nd n).children a with
      | none => rw [hd] at h; simp at h
      | some ch =>
        have hm := dget_mem hd
        exact ⟨(a, ch), hm, (hc.link hrn hm).2.2.1⟩

/-- the initial cache is abstracted by the initial dictionary -/
theorem abs_init (r : Oid) : Abs (CS.HCache.init r) (HDict.init r) := by
  unfold Abs
  funext q
  cases q with
  | nil => simp [HDict.init, dlook, dget, view, entOf, CS.HCache.init, HC.nd]
  | cons k ks => simp [HDict.init, dlook, dget, view, res, resFrom, CS.HCache.init, HC.nd]

theorem noFalsy_init (r : Oid) (hr : r ≠ 0) : NoFalsyV (view (CS.HCache.init r)) := by
  rw [← abs_init r]
  intro q t
  cases q with
  | nil =>
    simp only [HDict.init, dlook, dget, if_true]
    intro e
    have := Option.some.inj e
    exact hr (by cases this; rfl)
  | cons k ks => simp [HDict.init, dlook, dget]

end CS.HCache
