import Csverif.Proofs.HCache.Frame
/- C19 helper lemmas, part 8: re-labelling the root of a detached subtree, attaching it under a
   reachable directory, and re-indexing its ids. -/
namespace CS.HCache
open CS.Path
set_option linter.unusedSimpArgs false
set_option linter.unusedVariables false

/-! ### modifying an unreachable node -/

theorem Coherent.setNd_unreach {c : Cfg} {s : HC} (hc : Coherent c s) {i : Nat} (hi : ¬ Reach s i) (n' : Node) :
    Coherent c (s.setNd i n') :=
  hc.congr (by simp) rfl (fun m hm => by
    rw [nd_setNd]
    have : i ≠ m := fun e => hi (e ▸ hm)
    simp [this])

theorem res_setNd_unreach {s : HC} {i : Nat} (hi : ¬ Reach s i) (n' : Node) (q : List Str) :
    res (s.setNd i n') q = res s q :=
  res_congr_reach (fun m hm => by
    rw [nd_setNd]
    have : i ≠ m := fun e => hi (e ▸ hm)
    simp [this]) q

theorem reach_setNd_unreach {s : HC} {i : Nat} (hi : ¬ Reach s i) (n' : Node) (m : Nat) :
    Reach (s.setNd i n') m ↔ Reach s m :=
  ⟨fun ⟨q, hq⟩ => ⟨q, by rw [← res_setNd_unreach hi n']; exact hq⟩,
   fun ⟨q, hq⟩ => ⟨q, by rw [res_setNd_unreach hi n']; exact hq⟩⟩

/-- the root of a detached subtree may be renamed / re-parented -/
theorem Sub.setRoot {c : Cfg} {s : HC} {i : Nat} (h : Sub c s i) (n' : Node)
    (h1 : n'.children = (s.nd i).children) (h2 : n'.oid = (s.nd i).oid) (h3 : n'.type = (s.nd i).type)
    (h4 : n'.isRoot = (s.nd i).isRoot) : Sub c (s.setNd i n') i := by
  have hi : ¬ Reach s i := h.unreach [] i rfl
  have hnd : ∀ m, (s.setNd i n').nd m = if m = i then n' else s.nd m := by
    intro m
    rw [nd_setNd]
    by_cases e : i = m
    · subst e; simp [h.valid]
    · simp [e, Ne.symm e]
  have hch : ∀ m, ((s.setNd i n').nd m).children = (s.nd m).children := by
    intro m; rw [hnd]; split
    · next e => subst e; exact h1
    · rfl
  have hoid : ∀ m, ((s.setNd i n').nd m).oid = (s.nd m).oid := by
    intro m; rw [hnd]; split
    · next e => subst e; exact h2
    · rfl
  have htype : ∀ m, ((s.setNd i n').nd m).type = (s.nd m).type := by
    intro m; rw [hnd]; split
    · next e => subst e; exact h3
    · rfl
  have hres : ∀ q, resFrom (s.setNd i n') i q = resFrom s i q := fun q =>
    resFrom_congr q i (fun r x _ => hch x)
  -- a child inside the subtree is never the subtree's root
  have hchild_ne : ∀ q m k ch, resFrom s i q = some m → (k, ch) ∈ (s.nd m).children → ch ≠ i := by
    intro q m k ch hm hmem e
    subst e
    have h2' : resFrom s ch (q ++ [k]) = some ch := by
      rw [resFrom_snoc, hm]; exact dget_of_mem (h.keys_nodup q m hm) hmem
    have := h.inj (q ++ [k]) [] ch h2' rfl
    simp at this
  refine ⟨by simp [h.valid], by rw [hnd]; simp [h4, h.notRoot], ?_, ?_, ?_, ?_, ?_, ?_, ?_⟩
  · intro q m hm hr
    rw [hres] at hm
    exact h.unreach q m hm ((reach_setNd_unreach hi n' m).1 hr)
  · intro q m k ch hm hmem
    rw [hres] at hm
    rw [hch] at hmem
    have hne := hchild_ne q m k ch hm hmem
    have l := h.link q m k ch hm hmem
    rw [hoid, hoid, hnd ch]
    simp only [hne, if_false, setNd_len]
    exact l
  · intro q m hm
    rw [hres] at hm; rw [hch]; exact h.keys_nodup q m hm
  · intro q m hm ht
    rw [hres] at hm; rw [htype] at ht; rw [hch]; exact h.file_leaf q m hm ht
  · intro q1 q2 m a b
    rw [hres] at a b; exact h.inj q1 q2 m a b
  · intro q1 q2 m1 m2 o a b o1 o2 h0
    rw [hres] at a b; rw [hoid] at o1 o2
    exact h.ids_inj q1 q2 m1 m2 o a b o1 o2 h0
  · intro q m o hq hm ho h0
    rw [hres] at hm; rw [hoid] at ho
    exact h.ids_fresh q m o hq hm ho h0

/-! ### attaching -/

/-- everything `add_child` + the re-index loop need to know -/
structure AttachCtx (c : Cfg) (s : HC) (init : List Str) (a : Str) (j i : Nat) : Prop where
  g : CfgGood c
  hc : Coherent c s
  hsub : Sub c s i
  hj : res s init = some j
  hdir : (s.nd j).type = .dir
  hnone : dget (s.nd j).children a = none
  hname : (s.nd i).name = a
  hpar : (s.nd i).parent = some j
  hok : NameOk c a
  hoid : (s.nd i).oid = none ∨ (s.nd i).oid ≠ (s.nd j).oid
  hfresh : ∀ o, (s.nd i).oid = some o → o ≠ 0 → dget s.idmap o = none

/-- state after `parent.add_child(node)` -/
def attachSt (s : HC) (j i : Nat) (a : Str) : HC :=
  s.setNd j { s.nd j with children := dset (s.nd j).children a i }

namespace AttachCtx
variable {c : Cfg} {s : HC} {init : List Str} {a : Str} {j i : Nat}

theorem jlt (x : AttachCtx c s init a j i) : j < s.heap.length := x.hc.valid ⟨_, x.hj⟩
theorem jreach (x : AttachCtx c s init a j i) : Reach s j := ⟨_, x.hj⟩
theorem j_not_sub (x : AttachCtx c s init a j i) : ∀ r, resFrom s i r ≠ some j :=
  fun r h => x.hsub.unreach r j h x.jreach
theorem ji (x : AttachCtx c s init a j i) : j ≠ i := fun e => x.j_not_sub [] (by rw [e]; rfl)

theorem nd_attach (x : AttachCtx c s init a j i) (m : Nat) :
    (attachSt s j i a).nd m = if m = j then { s.nd j with children := dset (s.nd j).children a i } else s.nd m := by
  simp only [attachSt, nd_setNd, x.jlt, and_true]
  by_cases h : j = m
  · subst h; simp
  · simp [h, Ne.symm h]

theorem children_attach (x : AttachCtx c s init a j i) (m : Nat) :
    ((attachSt s j i a).nd m).children = if m = j then (s.nd j).children ++ [(a, i)] else (s.nd m).children := by
  rw [x.nd_attach]
  split
  · simp only; exact dset_of_not_mem i (dget_none.1 x.hnone)
  · rfl

theorem fields_attach (x : AttachCtx c s init a j i) (m : Nat) :
    ((attachSt s j i a).nd m).type = (s.nd m).type ∧ ((attachSt s j i a).nd m).oid = (s.nd m).oid ∧
    ((attachSt s j i a).nd m).name = (s.nd m).name ∧ ((attachSt s j i a).nd m).isRoot = (s.nd m).isRoot ∧
    ((attachSt s j i a).nd m).parent = (s.nd m).parent := by
  rw [x.nd_attach]; split
  · next e => subst e; simp
  · simp

theorem resFrom_sub_attach (x : AttachCtx c s init a j i) (q : List Str) :
    resFrom (attachSt s j i a) i q = resFrom s i q :=
  resFrom_congr q i (fun r m hm => by
    rw [x.children_attach]
    have : m ≠ j := fun e => x.j_not_sub r (e ▸ hm)
    simp [this])

theorem res_attach_out (x : AttachCtx c s init a j i) : ∀ (q : List Str), ¬ (init ++ [a]) <+: q →
    res (attachSt s j i a) q = res s q := by
  intro q
  induction q using snoc_induction with
  | hnil => intro _; rfl
  | hsnoc q k ih =>
    intro hq
    have hi : ¬ (init ++ [a]) <+: q := fun h => hq (h.trans (List.prefix_append _ _))
    rw [res_snoc, res_snoc, ih hi]
    cases hm : res s q with
    | none => rfl
    | some m =>
      simp only [Option.bind_some, x.children_attach]
      split
      · next hmj =>
        subst hmj
        have : q = init := x.hc.res_inj hm x.hj
        subst this
        have hka : k ≠ a := fun e => hq (e ▸ List.prefix_refl _)
        rw [← dset_of_not_mem i (dget_none.1 x.hnone)]
        exact dget_dset_ne i hka
      · rfl

theorem res_attach_at (x : AttachCtx c s init a j i) : res (attachSt s j i a) (init ++ [a]) = some i := by
  have h1 : res (attachSt s j i a) init = some j := by
    rw [x.res_attach_out init (fun h => by have := h.length_le; simp at this; omega), x.hj]
  rw [res_snoc, h1]
  simp only [Option.bind_some, x.children_attach, if_true]
  rw [← dset_of_not_mem i (dget_none.1 x.hnone)]
  exact dget_dset_self _ _ _

theorem res_attach_in (x : AttachCtx c s init a j i) (r : List Str) :
    res (attachSt s j i a) (init ++ [a] ++ r) = resFrom s i r := by
  unfold res
  rw [resFrom_append]
  have := x.res_attach_at
  unfold res at this
  rw [this]
  exact x.resFrom_sub_attach r

theorem reach_attach (x : AttachCtx c s init a j i) {m : Nat} :
    Reach (attachSt s j i a) m ↔ Reach s m ∨ InSub s i m := by
  constructor
  · rintro ⟨q, hq⟩
    by_cases h : (init ++ [a]) <+: q
    · obtain ⟨r, rfl⟩ := h
      rw [x.res_attach_in] at hq
      exact Or.inr ⟨r, hq⟩
    · rw [x.res_attach_out q h] at hq
      exact Or.inl ⟨q, hq⟩
  · rintro (⟨q, hq⟩ | ⟨r, hr⟩)
    · refine ⟨q, ?_⟩
      rw [x.res_attach_out q ?_]; exact hq
      intro hpre
      obtain ⟨r, rfl⟩ := hpre
      -- in `s` nothing resolves at init ++ [a]
      obtain ⟨y, hy, _⟩ := res_prefix hq
      rw [res_snoc, x.hj] at hy
      simp only [Option.bind_some, x.hnone] at hy
      exact absurd hy (by simp)
    · exact ⟨init ++ [a] ++ r, by rw [x.res_attach_in]; exact hr⟩

theorem res_with_idmap (s : HC) (dd : List (Oid × Nat)) (q : List Str) : res ({ s with idmap := dd } : HC) q = res s q :=
  res_congr_reach (s := s) (s' := { s with idmap := dd }) (fun _ _ => rfl) q

theorem reach_with_idmap (s : HC) (dd : List (Oid × Nat)) (m : Nat) : Reach ({ s with idmap := dd } : HC) m ↔ Reach s m :=
  ⟨fun ⟨q, hq⟩ => ⟨q, by rw [← res_with_idmap s dd]; exact hq⟩, fun ⟨q, hq⟩ => ⟨q, by rw [res_with_idmap]; exact hq⟩⟩

/-- **attaching a detached subtree and indexing its ids yields a coherent cache** -/
theorem coherent (x : AttachCtx c s init a j i) (M' : List (Oid × Nat)) (hk : (keys M').Nodup)
    (hM : ∀ o m, (o, m) ∈ M' ↔ ((o, m) ∈ s.idmap ∨ (InSub s i m ∧ (s.nd m).oid = some o ∧ o ≠ 0))) :
    Coherent c { attachSt s j i a with idmap := M' } := by
  have hc := x.hc
  have hsub := x.hsub
  have hreach : ∀ m, Reach ({ attachSt s j i a with idmap := M' } : HC) m ↔ Reach s m ∨ InSub s i m := by
    intro m
    rw [reach_with_idmap]; exact x.reach_attach
  have hnd : ∀ m, ({ attachSt s j i a with idmap := M' } : HC).nd m = (attachSt s j i a).nd m := fun m => rfl
  have hf := x.fields_attach
  have i0 : (0 : Nat) ≠ i := fun e => hsub.unreach [] i rfl (e ▸ Reach.root s)
  refine ⟨by simp [attachSt]; exact hc.root_valid, ?_, ?_, ?_, ?_, ?_, ?_, ?_, ?_, hk, ?_, ?_⟩
  · rw [hnd, (hf 0).2.2.2.1]; exact hc.root_isRoot
  · rw [hnd, (hf 0).2.2.2.2]; exact hc.root_parent
  · rw [hnd, (hf 0).1]; exact hc.root_type
  · rw [hnd, (hf 0).2.2.1]; exact hc.root_name
  · rw [hnd, (hf 0).2.1]; exact hc.root_oid
  · intro p k ch hp hmem
    rw [hnd, x.children_attach] at hmem
    rw [hnd, hnd, (hf ch).2.2.2.2, (hf ch).2.2.1, (hf ch).2.2.2.1, (hf ch).2.1, (hf p).2.1]
    simp only [attachSt, setNd_len]
    rcases (hreach p).1 hp with hp' | ⟨r, hr⟩
    · by_cases hpj : p = j
      · subst hpj
        simp only [if_true, List.mem_append, List.mem_singleton, Prod.mk.injEq] at hmem
        rcases hmem with hmem | ⟨rfl, rfl⟩
        · exact hc.link hp' hmem
        · exact ⟨hsub.valid, x.hpar, x.hname, hsub.notRoot, x.hok, x.hoid⟩
      · simp only [hpj, if_false] at hmem
        exact hc.link hp' hmem
    · have hpj : p ≠ j := fun e => x.j_not_sub r (e ▸ hr)
      simp only [hpj, if_false] at hmem
      exact hsub.link r p k ch hr hmem
  · intro p hp
    rw [hnd, x.nd_attach]
    rcases (hreach p).1 hp with hp' | ⟨r, hr⟩
    · split
      · next e => subst e; exact nodup_keys_dset (hc.keys_nodup hp') a i
      · exact hc.keys_nodup hp'
    · have hpj : p ≠ j := fun e => x.j_not_sub r (e ▸ hr)
      simp only [hpj, if_false]
      exact hsub.keys_nodup r p hr
  · intro p hp ht
    rw [hnd, (hf p).1] at ht
    rw [hnd, x.children_attach]
    rcases (hreach p).1 hp with hp' | ⟨r, hr⟩
    · split
      · next e => subst e; rw [x.hdir] at ht; exact absurd ht (by simp)
      · exact hc.file_leaf hp' ht
    · have hpj : p ≠ j := fun e => x.j_not_sub r (e ▸ hr)
      simp only [hpj, if_false]
      exact hsub.file_leaf r p hr ht
  · intro o m hm
    rw [hnd, (hf m).2.1]
    rcases (hM o m).1 hm with h | ⟨h1, h2, h3⟩
    · have := hc.map_sound h
      exact ⟨(hreach m).2 (Or.inl this.1), this.2⟩
    · exact ⟨(hreach m).2 (Or.inr h1), h2, h3⟩
  · intro m o hm ho h0
    rw [hnd, (hf m).2.1] at ho
    apply (hM o m).2
    rcases (hreach m).1 hm with h | h
    · exact Or.inl (hc.map_complete h ho h0)
    · exact Or.inr ⟨h, ho, h0⟩

end AttachCtx

/-! ### the re-index loop -/

theorem delete_miss (c : Cfg) (s : HC) (o : Oid) (h1 : some o ≠ s.rootOid) (h2 : dget s.idmap o = none) :
    delete c (some o) none s = (s, .ok ()) := by
  have : delete c (some o) none s = deleteRec c (s.heap.length + 1) (some o) none s := by simp [delete, bind_run]
  rw [this, deleteRec_succ]
  simp [getNode, h1, h2]

/-- one iteration of the re-index loop, for the state `s0` read at its start -/
def reindexStep (c : Cfg) (cur : Nat) (s0 : HC) : M Unit :=
  if truthy (s0.nd cur).oid then
    match (s0.nd cur).oid with
    | some o => do
      if dget s0.idmap o ≠ some cur then delete c (some o) none
      modS (fun s => { s with idmap := dset s.idmap o cur })
    | none => pure ()
  else pure ()

theorem reindex_cons (c : Cfg) (cur : Nat) (rest : List Nat) (s : HC) :
    reindex c (cur :: rest) s =
      match reindexStep c cur s s with
      | (t, .error e) => (t, .error e)
      | (t, .ok _) => reindex c rest t := by
  simp only [reindex, bind_run, getS_run, reindexStep]
  cases (if truthy (s.nd cur).oid = true then
        match (s.nd cur).oid with
        | some o => do
          if dget s.idmap o ≠ some cur then delete c (some o) none
          modS fun s => { heap := s.heap, idmap := dset s.idmap o cur }
        | none => pure ()
      else pure () : M Unit) s with
  | mk t r => cases r <;> rfl

theorem reindexStep_skip (c : Cfg) (cur : Nat) (s : HC) (h : truthy (s.nd cur).oid = false) :
    reindexStep c cur s s = (s, .ok ()) := by
  simp [reindexStep, h]

theorem reindexStep_add (c : Cfg) (cur : Nat) (s : HC) (o : Oid) (ho : (s.nd cur).oid = some o) (h0 : o ≠ 0)
    (hroot : some o ≠ s.rootOid) (hf : dget s.idmap o = none ∨ dget s.idmap o = some cur) :
    reindexStep c cur s s = ({ s with idmap := dset s.idmap o cur }, .ok ()) := by
  have ht : truthy (some o) = true := by
    cases o with
    | zero => exact absurd rfl h0
    | succ k => rfl
  simp only [reindexStep, ho, ht, if_true]
  rcases hf with h | h
  · rw [if_pos (by rw [h]; simp), bind_ok (delete_miss c s o hroot h)]; rfl
  · rw [if_neg (by rw [h]; simp)]; rfl

theorem reindex_spec (c : Cfg) : ∀ (l : List Nat) (s : HC),
    (∀ m ∈ l, ∀ o, (s.nd m).oid = some o → o ≠ 0 → some o ≠ s.rootOid) →
    (∀ m ∈ l, ∀ o, (s.nd m).oid = some o → o ≠ 0 → dget s.idmap o = none ∨ dget s.idmap o = some m) →
    (∀ m1 ∈ l, ∀ m2 ∈ l, ∀ o, (s.nd m1).oid = some o → (s.nd m2).oid = some o → o ≠ 0 → m1 = m2) →
    (keys s.idmap).Nodup →
    ∃ M', reindex c l s = ({ s with idmap := M' }, .ok ()) ∧ (keys M').Nodup ∧
      ∀ o m, (o, m) ∈ M' ↔ ((o, m) ∈ s.idmap ∨ (m ∈ l ∧ (s.nd m).oid = some o ∧ o ≠ 0)) := by
  intro l
  induction l with
  | nil =>
    intro s _ _ _ hk
    exact ⟨s.idmap, rfl, hk, fun o m => by simp⟩
  | cons cur rest ih =>
    intro s hroot hfresh hinj hk
    rw [reindex_cons]
    have hrest : ∃ M', reindex c rest s = ({ s with idmap := M' }, .ok ()) ∧ (keys M').Nodup ∧
        ∀ o m, (o, m) ∈ M' ↔ ((o, m) ∈ s.idmap ∨ (m ∈ rest ∧ (s.nd m).oid = some o ∧ o ≠ 0)) :=
      ih s (fun m hm => hroot m (List.mem_cons_of_mem _ hm)) (fun m hm => hfresh m (List.mem_cons_of_mem _ hm))
        (fun m1 h1 m2 h2 => hinj m1 (List.mem_cons_of_mem _ h1) m2 (List.mem_cons_of_mem _ h2)) hk
    by_cases ht : truthy (s.nd cur).oid = true
    · cases ho : (s.nd cur).oid with
      | none => rw [ho] at ht; simp [truthy] at ht
      | some o =>
        have h0 : o ≠ 0 := by
          intro e; subst e; rw [ho] at ht; simp [truthy] at ht
        rw [reindexStep_add c cur s o ho h0 (hroot cur List.mem_cons_self o ho h0) (hfresh cur List.mem_cons_self o ho h0)]
        simp only
        -- the rest of the loop runs on the extended id map
        obtain ⟨M', hrun, hk', hM'⟩ := ih { s with idmap := dset s.idmap o cur }
          (fun m hm => hroot m (List.mem_cons_of_mem _ hm))
          (fun m hm o' ho' h0' => by
            show dget (dset s.idmap o cur) o' = none ∨ dget (dset s.idmap o cur) o' = some m
            by_cases e : o' = o
            · subst e
              have := hinj m (List.mem_cons_of_mem _ hm) cur List.mem_cons_self o' ho' ho h0'
              subst this
              exact Or.inr (dget_dset_self _ _ _)
            · rw [dget_dset_ne cur e]
              exact hfresh m (List.mem_cons_of_mem _ hm) o' ho' h0')
          (fun m1 h1 m2 h2 => hinj m1 (List.mem_cons_of_mem _ h1) m2 (List.mem_cons_of_mem _ h2))
          (nodup_keys_dset hk o cur)
        refine ⟨M', hrun, hk', fun o' m => ?_⟩
        rw [hM' o' m]
        show ((o', m) ∈ dset s.idmap o cur ∨ _) ↔ _
        constructor
        · rintro (h | ⟨h1, h2, h3⟩)
          · rcases mem_dset hk h with e | ⟨e1, _⟩
            · cases e
              exact Or.inr ⟨List.mem_cons_self, ho, h0⟩
            · exact Or.inl e1
          · exact Or.inr ⟨List.mem_cons_of_mem _ h1, h2, h3⟩
        · rintro (h | ⟨h1, h2, h3⟩)
          · by_cases e : o' = o
            · subst e
              -- an existing entry under this id is the entry of `cur`
              rcases hfresh cur List.mem_cons_self o' ho h0 with hn | hs
              · exact absurd (mem_keys_of_mem h) (dget_none.1 hn)
              · have := dget_of_mem hk h
                rw [hs] at this
                cases this
                exact Or.inl (mem_dset_self _ _ _)
            · exact Or.inl (mem_dset_of_mem h e)
          · rcases List.mem_cons.1 h1 with e | h1'
            · subst e
              rw [ho] at h2; cases h2
              exact Or.inl (mem_dset_self _ _ _)
            · exact Or.inr ⟨h1', h2, h3⟩
    · rw [reindexStep_skip c cur s (by simpa using ht)]
      simp only
      obtain ⟨M', hrun, hk', hM'⟩ := hrest
      refine ⟨M', hrun, hk', fun o m => ?_⟩
      rw [hM' o m]
      constructor
      · rintro (h | ⟨h1, h2, h3⟩)
        · exact Or.inl h
        · exact Or.inr ⟨List.mem_cons_of_mem _ h1, h2, h3⟩
      · rintro (h | ⟨h1, h2, h3⟩)
        · exact Or.inl h
        · rcases List.mem_cons.1 h1 with e | h1'
          · subst e
            rw [h2] at ht
            exfalso; apply ht
            cases o with
            | zero => exact absurd rfl h3
            | succ k => rfl
          · exact Or.inr ⟨h1', h2, h3⟩

end CS.HCache
