import Csverif.Proofs.HCache.Dict
import Csverif.Proofs.Path
/- C19 helper lemmas, part 2: resolution of key paths, reachability, the coherence invariant,
   uniqueness of paths and the depth bound. -/
namespace CS.HCache
open CS.Path

/-- follow the keys `ks` down from node `n` -/
def resFrom (s : HC) : Nat → List Str → Option Nat
  | n, [] => some n
  | n, k :: ks =>
    match dget (s.nd n).children k with
    | none => none
    | some ch => resFrom s ch ks

/-- the node a key path resolves to from the root -/
def res (s : HC) (ks : List Str) : Option Nat := resFrom s 0 ks

/-- reachable from the root along child links -/
def Reach (s : HC) (n : Nat) : Prop := ∃ ks, res s ks = some n

/-- a key is a normalised path component of the provider configuration -/
def NameOk (c : Cfg) (k : Str) : Prop := Comps c [k] ∧ fold c k = k

/-- **The coherence invariant of the hierarchical cache.**
The part of the heap reachable from the root is a tree whose child links carry the matching parent
link and whose child keys equal the child names (and are normalised path components); the id map
contains exactly the reachable nodes that have a (truthy) id, each under its own id. -/
structure Coherent (c : Cfg) (s : HC) : Prop where
  root_valid  : 0 < s.heap.length
  root_isRoot : (s.nd 0).isRoot = true
  root_parent : (s.nd 0).parent = none
  root_type   : (s.nd 0).type = .dir
  root_name   : (s.nd 0).name = []
  root_oid    : ∃ r, (s.nd 0).oid = some r ∧ r ≠ 0
  link : ∀ {p k ch}, Reach s p → (k, ch) ∈ (s.nd p).children →
    ch < s.heap.length ∧ (s.nd ch).parent = some p ∧ (s.nd ch).name = k ∧ (s.nd ch).isRoot = false ∧
      NameOk c k ∧ ((s.nd ch).oid = none ∨ (s.nd ch).oid ≠ (s.nd p).oid)
  keys_nodup : ∀ {p}, Reach s p → (keys (s.nd p).children).Nodup
  file_leaf : ∀ {p}, Reach s p → (s.nd p).type = .file → (s.nd p).children = []
  map_keys : (keys s.idmap).Nodup
  map_sound : ∀ {o n}, (o, n) ∈ s.idmap → Reach s n ∧ (s.nd n).oid = some o ∧ o ≠ 0
  map_complete : ∀ {n o}, Reach s n → (s.nd n).oid = some o → o ≠ 0 → (o, n) ∈ s.idmap

theorem snoc_induction {α : Type} {P : List α → Prop} (hnil : P [])
    (hsnoc : ∀ l a, P l → P (l ++ [a])) : ∀ l, P l := by
  have : ∀ l : List α, P l.reverse := by
    intro l
    induction l with
    | nil => exact hnil
    | cons a l ih => rw [List.reverse_cons]; exact hsnoc _ _ ih
  intro l
  rw [← List.reverse_reverse l]; exact this _

/-! ### resolution -/

theorem resFrom_append (s : HC) (n : Nat) (a b : List Str) :
    resFrom s n (a ++ b) = (resFrom s n a).bind (fun m => resFrom s m b) := by
  induction a generalizing n with
  | nil => simp [resFrom]
  | cons k ks ih =>
    simp only [List.cons_append, resFrom]
    cases dget (s.nd n).children k with
    | none => simp
    | some ch => simp [ih]

theorem res_snoc (s : HC) (q : List Str) (k : Str) :
    res s (q ++ [k]) = (res s q).bind (fun p => dget (s.nd p).children k) := by
  unfold res
  rw [resFrom_append]
  congr 1
  funext m
  simp only [resFrom]
  cases dget (s.nd m).children k <;> rfl

@[simp] theorem res_nil (s : HC) : res s [] = some 0 := rfl

theorem Reach.root (s : HC) : Reach s 0 := ⟨[], rfl⟩

theorem Reach.child_dget {s : HC} {p ch : Nat} {k : Str} (hp : Reach s p) (h : dget (s.nd p).children k = some ch) :
    Reach s ch := by
  obtain ⟨q, hq⟩ := hp
  exact ⟨q ++ [k], by rw [res_snoc, hq]; exact h⟩

theorem Coherent.child {c : Cfg} {s : HC} (hc : Coherent c s) {p ch : Nat} {k : Str} (hp : Reach s p)
    (h : (k, ch) ∈ (s.nd p).children) : Reach s ch :=
  hp.child_dget (dget_of_mem (hc.keys_nodup hp) h)

theorem Coherent.valid {c : Cfg} {s : HC} (hc : Coherent c s) {n : Nat} (h : Reach s n) : n < s.heap.length := by
  obtain ⟨q, hq⟩ := h
  rcases List.eq_nil_or_concat q with rfl | ⟨q', k, rfl⟩
  · simp at hq; subst hq; exact hc.root_valid
  · rw [List.concat_eq_append, res_snoc] at hq
    cases hp : res s q' with
    | none => simp [hp] at hq
    | some p =>
      simp only [hp, Option.bind_some] at hq
      exact (hc.link ⟨q', hp⟩ (dget_mem hq)).1

/-- decomposition of a resolution ending in a key -/
theorem res_snoc_some {s : HC} {q : List Str} {k : Str} {n : Nat} (h : res s (q ++ [k]) = some n) :
    ∃ p, res s q = some p ∧ dget (s.nd p).children k = some n := by
  rw [res_snoc] at h
  cases hp : res s q with
  | none => simp [hp] at h
  | some p => exact ⟨p, rfl, by simpa [hp] using h⟩

/-- the root is nobody's child -/
theorem Coherent.res_root {c : Cfg} {s : HC} (hc : Coherent c s) {q : List Str} (h : res s q = some 0) : q = [] := by
  rcases List.eq_nil_or_concat q with rfl | ⟨q', k, rfl⟩
  · rfl
  · rw [List.concat_eq_append] at h
    obtain ⟨p, hp, hk⟩ := res_snoc_some h
    have := (hc.link ⟨q', hp⟩ (dget_mem hk)).2.2.2.1
    rw [hc.root_isRoot] at this
    exact absurd this (by simp)

/-- **tree**: a node is reached along exactly one key path -/
theorem Coherent.res_inj {c : Cfg} {s : HC} (hc : Coherent c s) :
    ∀ {q1 q2 : List Str} {n : Nat}, res s q1 = some n → res s q2 = some n → q1 = q2 := by
  intro q1
  induction q1 using snoc_induction with
  | hnil =>
    intro q2 n h1 h2
    simp at h1; subst h1
    exact (hc.res_root h2).symm
  | hsnoc i1 k1 ih =>
    intro q2 n h1 h2
    obtain ⟨p1, hp1, hk1⟩ := res_snoc_some h1
    have l1 := hc.link ⟨i1, hp1⟩ (dget_mem hk1)
    rcases List.eq_nil_or_concat q2 with rfl | ⟨i2, k2, rfl⟩
    · simp at h2; subst h2
      rw [hc.root_isRoot] at l1
      exact absurd l1.2.2.2.1 (by simp)
    · rw [List.concat_eq_append] at h2 ⊢
      obtain ⟨p2, hp2, hk2⟩ := res_snoc_some h2
      have l2 := hc.link ⟨i2, hp2⟩ (dget_mem hk2)
      have hp : p1 = p2 := by
        have := l1.2.1.symm.trans l2.2.1
        exact Option.some.inj this
      subst hp
      have hk : k1 = k2 := l1.2.2.1.symm.trans l2.2.2.1
      subst hk
      rw [ih hp1 hp2]

/-- prefixes of a resolving path resolve -/
theorem res_prefix {s : HC} {a b : List Str} {n : Nat} (h : res s (a ++ b) = some n) :
    ∃ m, res s a = some m ∧ resFrom s m b = some n := by
  unfold res at h ⊢
  rw [resFrom_append] at h
  cases hm : resFrom s 0 a with
  | none => simp [hm] at h
  | some m => exact ⟨m, rfl, by simpa [hm] using h⟩

theorem res_of_resFrom {s : HC} {a b : List Str} {m n : Nat} (ha : res s a = some m) (hb : resFrom s m b = some n) :
    res s (a ++ b) = some n := by
  unfold res at ha ⊢
  rw [resFrom_append, ha]; exact hb

/-! ### pigeonhole: a resolving path is shorter than the heap -/

theorem inj_bound : ∀ (N n : Nat) (f : Nat → Nat), (∀ i, i ≤ n → f i < N) →
    (∀ i j, i ≤ n → j ≤ n → f i = f j → i = j) → n < N := by
  intro N
  induction N with
  | zero => intro n f hb _; exact absurd (hb 0 (Nat.zero_le _)) (by omega)
  | succ N ih =>
    intro n f hb hinj
    cases n with
    | zero => omega
    | succ n =>
      -- remove the value N from the range by swapping it with f (n+1)
      let g : Nat → Nat := fun i => if f i = N then f (n + 1) else f i
      have hg : ∀ i, i ≤ n → g i < N := by
        intro i hi
        show (if f i = N then f (n + 1) else f i) < N
        split
        · next h =>
          have h1 := hb (n + 1) (Nat.le_refl _)
          have : f (n + 1) ≠ N := by
            intro e
            have := hinj i (n + 1) (by omega) (Nat.le_refl _) (h.trans e.symm)
            omega
          omega
        · next h => have := hb i (by omega); omega
      have hginj : ∀ i j, i ≤ n → j ≤ n → g i = g j → i = j := by
        intro i j hi hj he
        simp only [g] at he
        split at he <;> split at he
        · next h1 h2 => exact hinj i j (by omega) (by omega) (h1.trans h2.symm)
        · next h1 h2 =>
          have := hinj (n + 1) j (Nat.le_refl _) (by omega) he
          omega
        · next h1 h2 =>
          have := hinj i (n + 1) (by omega) (Nat.le_refl _) he
          omega
        · exact hinj i j (by omega) (by omega) he
      have := ih n g hg hginj
      omega

theorem Coherent.depth_lt {c : Cfg} {s : HC} (hc : Coherent c s) {q : List Str} {n : Nat} (h : res s q = some n) :
    q.length < s.heap.length := by
  -- the nodes at the prefixes of q are pairwise distinct valid indices
  have hpre : ∀ i, i ≤ q.length → ∃ m, res s (q.take i) = some m := by
    intro i _
    have : q = q.take i ++ q.drop i := (List.take_append_drop i q).symm
    rw [this] at h
    obtain ⟨m, hm, _⟩ := res_prefix h
    exact ⟨m, hm⟩
  let f : Nat → Nat := fun i => (res s (q.take i)).getD 0
  apply inj_bound s.heap.length q.length f
  · intro i hi
    obtain ⟨m, hm⟩ := hpre i hi
    show (res s (q.take i)).getD 0 < _
    rw [hm]; exact hc.valid ⟨_, hm⟩
  · intro i j hi hj he
    obtain ⟨m, hm⟩ := hpre i hi
    obtain ⟨m', hm'⟩ := hpre j hj
    simp only [f, hm, hm', Option.getD_some] at he
    subst he
    have := hc.res_inj hm hm'
    have hl := congrArg List.length this
    simp only [List.length_take] at hl
    omega

/-! ### ids -/

theorem Coherent.dget_idmap {c : Cfg} {s : HC} (hc : Coherent c s) {o n : Nat} :
    dget s.idmap o = some n ↔ (Reach s n ∧ (s.nd n).oid = some o ∧ o ≠ 0) := by
  rw [dget_iff_mem hc.map_keys]
  exact ⟨hc.map_sound, fun ⟨h1, h2, h3⟩ => hc.map_complete h1 h2 h3⟩

/-- no id is held by two reachable nodes -/
theorem Coherent.oid_unique {c : Cfg} {s : HC} (hc : Coherent c s) {n m o : Nat} (hn : Reach s n) (hm : Reach s m)
    (h1 : (s.nd n).oid = some o) (h2 : (s.nd m).oid = some o) (ho : o ≠ 0) : n = m := by
  have a := hc.dget_idmap.2 ⟨hn, h1, ho⟩
  have b := hc.dget_idmap.2 ⟨hm, h2, ho⟩
  exact Option.some.inj (a.symm.trans b)

/-- the initial cache is coherent -/
theorem coherent_init (c : Cfg) (r : Oid) (hr : r ≠ 0) : Coherent c (init r) := by
  have hres : ∀ q n, res (init r) q = some n → n = 0 ∧ q = [] := by
    intro q n h
    cases q with
    | nil => simp at h; exact ⟨h.symm, rfl⟩
    | cons k ks => simp [res, resFrom, init, HC.nd, dget] at h
  have hreach : ∀ n, Reach (init r) n → n = 0 := fun n ⟨q, hq⟩ => (hres q n hq).1
  refine ⟨by simp [init], rfl, rfl, rfl, rfl, ⟨r, rfl, hr⟩, ?_, ?_, ?_, ?_, ?_, ?_⟩
  · intro p k ch hp hm
    rw [hreach p hp] at hm
    simp [init, HC.nd] at hm
  · intro p hp
    rw [hreach p hp]; simp [init, HC.nd]
  · intro p hp _
    rw [hreach p hp]; simp [init, HC.nd]
  · simp [init]
  · intro o n h
    simp [init] at h
    obtain ⟨rfl, rfl⟩ := h
    exact ⟨Reach.root _, rfl, hr⟩
  · intro n o hn ho _
    rw [hreach n hn] at ho ⊢
    simp [init, HC.nd] at ho
    simp [init, ho]

end CS.HCache
