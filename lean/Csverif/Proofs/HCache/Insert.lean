import Csverif.Proofs.HCache.Attach
import Csverif.Proofs.HCache.Fuel
import Csverif.Proofs.HCache.View
/- C19 helper lemmas, part 9: `__insert_node`. -/
namespace CS.HCache
open CS.Path
set_option linter.unusedSimpArgs false
set_option linter.unusedVariables false

/-- `__insert_node`: eviction of the previous owners of the path and of the id (210-212) -/
def insertPre (c : Cfg) (i : Nat) (path : Str) : M Unit := do
  delete c none (some path)
  let s ← getS
  (if truthy (s.nd i).oid then delete c (s.nd i).oid none else pure ())

/-- `__insert_node` from `parent_node.add_child(node)` on (224-231) -/
def insertRest (c : Cfg) (i : Nat) (par : Nat) : M Unit := do
  addChild par i
  let w ← walkM c i
  reindex c (w.map (·.1))

/-- the part of `__insert_node` after the parent has been determined (219-231) -/
def insertTail (c : Cfg) (i : Nat) (name : Str) (par : Nat) : M Unit := do
  modS (fun s => s.setNd i { s.nd i with name := name })
  if par = i then raise .assertion else
    modS (fun s => s.setNd i { s.nd i with parent := some par })
    insertRest c i par

/-- the parent lookup / auto-creation of `__insert_node` (214-217) -/
def ensurePar (c : Cfg) (f : Nat) (pp : Str) : M Nat := do
  let pn ← getNodeM c none (some pp)
  let s ← getS
  (match pn with
    | some p => if (s.nd p).type = .file then makeNodeWith c (insertNode c f) .dir pp none else pure p
    | none => makeNodeWith c (insertNode c f) .dir pp none)

theorem insertNode_succ (c : Cfg) (f i : Nat) (path : Str) :
    insertNode c (f + 1) i path = (do
      insertPre c i path
      let par ← ensurePar c f (hsplit c path).1
      insertTail c i (hsplit c path).2 par) := by
  funext s
  simp only [insertNode, insertPre, ensurePar, insertTail, insertRest, bind_run, getNodeM_run, getS_run]
  cases delete c none (some path) s with
  | mk s1 r1 =>
    cases r1 with
    | error e => rfl
    | ok _ =>
      simp only
      cases (if truthy (s1.nd i).oid then delete c (s1.nd i).oid none else pure ()) s1 with
      | mk s2 r2 =>
        cases r2 with
        | error e => rfl
        | ok _ =>
          simp only
          cases getNode c s2 none (some (hsplit c path).1) with
          | error e => rfl
          | ok pn =>
            cases pn with
            | none => rfl
            | some p => rfl

/-- the state after `node.name = name; node.wr_parent = ref(parent)` -/
def labelSt (s : HC) (i : Nat) (a : Str) (j : Nat) : HC :=
  (s.setNd i { s.nd i with name := a }).setNd i { (s.setNd i { s.nd i with name := a }).nd i with parent := some j }


theorem insertTail_run (c : Cfg) (i : Nat) (name : Str) (par : Nat) (s : HC) :
    insertTail c i name par s =
      if par = i then (s.setNd i { s.nd i with name := name }, .error .assertion) else
        insertRest c i par (labelSt s i name par) := by
  simp only [insertTail, bind_run, modS_run, labelSt]
  by_cases hp : par = i
  · simp [hp]
  · simp only [hp, if_false, bind_run, modS_run]

theorem insertRest_run (c : Cfg) (i : Nat) (par : Nat) (s4 : HC) :
    insertRest c i par s4 =
      match addChild par i s4 with
      | (s5, .error e) => (s5, .error e)
      | (s5, .ok _) =>
        match walk c s5 i with
        | .error e => (s5, .error e)
        | .ok w => reindex c (w.map (·.1)) s5 := by
  simp only [insertRest, bind_run]
  cases addChild par i s4 with
  | mk s5 r5 =>
    cases r5 with
    | error e => rfl
    | ok _ =>
      simp only [walkM_run]
      cases walk c s5 i <;> rfl

theorem insertPre_run (c : Cfg) (i : Nat) (path : Str) (s : HC) :
    insertPre c i path s =
      match delete c none (some path) s with
      | (s1, .error e) => (s1, .error e)
      | (s1, .ok _) => (if truthy (s1.nd i).oid then delete c (s1.nd i).oid none else pure ()) s1 := by
  simp only [insertPre, bind_run, getS_run]
  cases delete c none (some path) s with
  | mk s1 r1 => cases r1 <;> rfl

theorem addChild_run (par ch : Nat) (s : HC) :
    addChild par ch s =
      if checkOk s par = false then (s, .error .assertion)
      else if checkOk s ch = false then (s, .error .assertion)
      else if (s.nd par).type ≠ .dir then (s, .error .assertion)
      else (s.setNd par { s.nd par with children := dset (s.nd par).children (s.nd ch).name ch }, .ok ()) := by
  cases h1 : checkOk s par
  · simp [addChild, bind_run, check, h1]
  · cases h2 : checkOk s ch
    · simp [addChild, bind_run, check, h1, h2]
    · by_cases h3 : (s.nd par).type = .dir
      · simp [addChild, bind_run, check, h1, h2, h3]
      · simp [addChild, bind_run, check, h1, h2, h3]

/-! ### the core of `__insert_node` -/

/-- invariants that hold at every point of `insertTail` before the node is linked to its parent -/
structure Stage (c : Cfg) (s : HC) (init : List Str) (a : Str) (j i : Nat) (t : HC) : Prop where
  coh : Coherent c t
  sub : Sub c t i
  hj : res t init = some j
  len : t.heap.length = s.heap.length
  idsub : ∀ e, e ∈ t.idmap → e ∈ s.idmap
  shrink : ∀ q m, res t q = some m → res s q = some m
  fields : ∀ m, m ≠ i → (t.nd m).type = (s.nd m).type ∧ (t.nd m).oid = (s.nd m).oid
  ndi : t.nd i = { s.nd i with name := a, parent := some j }
  subres : ∀ q, resFrom t i q = resFrom s i q
  frame : ∀ m, ¬ Reach s m → m ≠ i → t.nd m = s.nd m

namespace Stage
variable {c : Cfg} {s : HC} {init : List Str} {a : Str} {j i : Nat} {t : HC}

theorem reach_old (h : Stage c s init a j i t) {m : Nat} (hm : Reach t m) : Reach s m := by
  obtain ⟨q, hq⟩ := hm; exact ⟨q, h.shrink q m hq⟩

theorem frameX (h : Stage c s init a j i t) : FrameX s t (InSub s i) :=
  ⟨Nat.le_of_eq h.len.symm,
   fun m _ hr hE => h.frame m hr (fun e => hE ⟨[], by rw [e]; rfl⟩),
   fun m _ hm => Or.inl (h.reach_old hm), fun e he => Or.inl (h.idsub e he)⟩

theorem del (h : Stage c s init a j i t) {t' : HC} (hd : DelPost c t t') (hj' : res t' init = some j) :
    Stage c s init a j i t' := by
  have hti : ¬ Reach t i := h.sub.unreach [] i rfl
  have hsubnd : ∀ m, InSub t i m → t'.nd m = t.nd m := fun m ⟨r, hr⟩ => hd.frame m (h.sub.unreach r m hr)
  refine ⟨hd.coh, h.sub.frame (hd.frameX (fun _ => False)) (fun _ _ hf => hf) hd.idsub, hj', hd.len.trans h.len,
    fun e he => h.idsub e (hd.idsub e he), ?_, ?_, ?_, ?_, ?_⟩
  · intro q m hm
    rcases hd.shrink q with a1 | a1
    · rw [a1] at hm; simp at hm
    · exact h.shrink q m (by rw [← a1]; exact hm)
  · intro m hm
    have a1 := hd.fields m
    have a2 := h.fields m hm
    exact ⟨a1.1.trans a2.1, a1.2.1.trans a2.2⟩
  · rw [hd.frame i hti]; exact h.ndi
  · intro q
    rw [← h.subres q]
    exact resFrom_congr q i (fun r x hx => by rw [hsubnd x ⟨r, hx⟩])
  · intro m hm hmi
    rw [hd.frame m (fun hr => hm (h.reach_old hr)), h.frame m hm hmi]

end Stage

theorem nd_labelSt (s : HC) (i : Nat) (a : Str) (j : Nat) (hi : i < s.heap.length) (m : Nat) :
    (labelSt s i a j).nd m = if m = i then { s.nd i with name := a, parent := some j } else s.nd m := by
  simp only [labelSt, nd_setNd, setNd_len, hi, and_true]
  by_cases h : i = m
  · subst h; simp
  · simp [h, Ne.symm h]

theorem Stage.start {c : Cfg} {s : HC} {init : List Str} {a : Str} {j i : Nat} (hc : Coherent c s) (hsub : Sub c s i)
    (hj : res s init = some j) : Stage c s init a j i (labelSt s i a j) := by
  have hi : ¬ Reach s i := hsub.unreach [] i rfl
  have hnd := nd_labelSt s i a j hsub.valid
  have hres : ∀ q, res (labelSt s i a j) q = res s q :=
    res_congr_reach (fun m hm => by rw [hnd]; have : m ≠ i := fun e => hi (e ▸ hm); simp [this])
  have hi1 : ¬ Reach (s.setNd i { s.nd i with name := a }) i := fun h => hi ((reach_setNd_unreach hi _ i).1 h)
  refine ⟨(hc.setNd_unreach hi _).setNd_unreach hi1 _, ?_, by rw [hres]; exact hj, by simp [labelSt],
    fun e he => he, fun q m hm => by rw [← hres]; exact hm, fun m hm => by rw [hnd]; simp [hm], by rw [hnd]; simp, ?_,
    fun m _ hm => by rw [hnd]; simp [hm]⟩
  · have s1 : Sub c (s.setNd i { s.nd i with name := a }) i := hsub.setRoot _ rfl rfl rfl rfl
    exact s1.setRoot _ rfl rfl rfl rfl
  · intro q
    exact resFrom_congr q i (fun r x _ => by
      rw [hnd]; split
      · next e => subst e; rfl
      · rfl)

theorem res_labelSt {c : Cfg} {s : HC} {i : Nat} (hsub : Sub c s i) (a : Str) (j : Nat) (q : List Str) :
    res (labelSt s i a j) q = res s q := by
  have hi : ¬ Reach s i := hsub.unreach [] i rfl
  have hnd := nd_labelSt s i a j hsub.valid
  exact res_congr_reach (fun m hm => by rw [hnd]; have : m ≠ i := fun e => hi (e ▸ hm); simp [this]) q

theorem flatMap_congr' {α β : Type} {l : List α} {f g : α → List β} (h : ∀ a ∈ l, f a = g a) :
    l.flatMap f = l.flatMap g := by
  induction l with
  | nil => rfl
  | cons a l ih =>
    simp only [List.flatMap_cons]
    rw [h a List.mem_cons_self, ih (fun b hb => h b (List.mem_cons_of_mem _ hb))]

theorem walkNodes_path_irrel (c : Cfg) (s : HC) : ∀ (f n : Nat) (p p' : Option Str),
    walkNodes c s f n p = walkNodes c s f n p' := by
  intro f
  induction f with
  | zero => intro n p p'; rfl
  | succ f ih =>
    intro n p p'
    rw [walkNodes_succ, walkNodes_succ]
    congr 1
    split
    · rfl
    · apply flatMap_congr'
      intro kc _
      split
      · exact ih _ _ _
      · rfl

/-- after a successful `delete(oid=o)` nothing holds the id `o` any more -/
theorem delete_oid_gone {c : Cfg} (g : CfgGood c) {s : HC} (hc : Coherent c s) {o : Oid} (h0 : o ≠ 0)
    (hroot : (s.nd 0).oid ≠ some o) {s1 : HC} {r : Except Err Unit} (hrun : delete c (some o) none s = (s1, r))
    (hok : r = .ok ()) : dget s1.idmap o = none := by
  have hd := delete_spec g s (some o) none hc
  rw [hrun] at hd
  obtain ⟨e1, e2, e3, e4⟩ := hd
  simp only at e1 e2 e3 e4
  obtain ⟨x, hx, hx1, hx2⟩ := hc.getNode_oid o none
  cases hg : dget s1.idmap o with
  | none => rfl
  | some m =>
    exfalso
    have hm := e1.coh.dget_idmap.1 hg
    have hm0 : Reach s m := e1.reach hm.1
    have ho0 : (s.nd m).oid = some o := by rw [← (e1.fields m).2.1]; exact hm.2.1
    have hxm := hx2 h0 m hm0 ho0
    subst hxm
    obtain ⟨km, hkm⟩ := hm0
    have hmne : m ≠ 0 := fun e => hroot (e ▸ ho0)
    have hgone := (e2 m km hx hkm).2.1 hok hmne
    obtain ⟨q, hq⟩ := hm.1
    rcases e1.shrink q with h | h
    · rw [h] at hq; simp at hq
    · rw [h] at hq
      have := hc.res_inj hq hkm
      subst this
      rw [hgone q (List.prefix_refl _)] at h
      rw [hkm] at h; simp at h

/-- the eviction phase of `__insert_node`: afterwards nothing resolves at the target and nothing holds
    the node's id -/
theorem insertPre_spec {c : Cfg} (g : CfgGood c) {s : HC} {i : Nat} {ks : List Str} (hk : KsOk c ks) (hne : ks ≠ [])
    (hc : Coherent c s) (hsub : Sub c s i)
    (hroot : ∀ o, (s.nd i).oid = some o → o ≠ 0 → (s.nd 0).oid ≠ some o) :
    ∀ out, insertPre c i (canon c.sep ks) s = out →
      DelPost c s out.1 ∧ out.2 = .ok () ∧ res out.1 ks = none ∧
      (∀ o, (s.nd i).oid = some o → o ≠ 0 → dget out.1.idmap o = none) ∧
      (∀ x, res s ks = some x → (out.1.nd x).parent = none ∧ ¬ Reach out.1 x) := by
  intro out hout
  rw [insertPre_run] at hout
  have hi : ¬ Reach s i := hsub.unreach [] i rfl
  have hd := delete_spec g s none (some (canon c.sep ks)) hc
  have htot := delete_total g hc none (some (canon c.sep ks)) (Or.inr rfl)
  have hlook := getNode_canon g s hk
  cases hrun1 : delete c none (some (canon c.sep ks)) s with
  | mk s1 r1 =>
    rw [hrun1] at hd hout htot
    simp only at htot
    subst htot
    obtain ⟨d1, d2, d3, _⟩ := hd
    simp only at d1 d2 d3 hout
    have hnone1 : res s1 ks = none := by
      cases hx : res s ks with
      | none => rw [d3 (fun x hx' => by rw [hlook, hx] at hx'; simp at hx')]; exact hx
      | some x =>
        have hx0 : x ≠ 0 := by
          intro e; subst e
          exact hne (hc.res_root hx)
        exact (d2 x _ (by rw [hlook, hx]) hx).2.1 trivial hx0 _ (List.prefix_refl _)
    have hndi : s1.nd i = s.nd i := d1.frame i hi
    have hx1 : ∀ x, res s ks = some x → (s1.nd x).parent = none ∧ ¬ Reach s1 x := by
      intro x hx
      have hx0 : x ≠ 0 := by intro e; subst e; exact hne (hc.res_root hx)
      refine ⟨(d2 x _ (by rw [hlook, hx]) hx).2.2 trivial hx0, ?_⟩
      rintro ⟨q, hq⟩
      rcases d1.shrink q with a | a
      · rw [a] at hq; simp at hq
      · rw [a] at hq
        have := hc.res_inj hq hx
        subst this
        rw [hnone1] at a; rw [hx] at a; simp at a
    by_cases ht : truthy (s1.nd i).oid = true
    · rw [if_pos ht] at hout
      cases ho : (s1.nd i).oid with
      | none => rw [ho] at ht; simp [truthy] at ht
      | some o =>
        have h0 : o ≠ 0 := by intro e; subst e; rw [ho] at ht; simp [truthy] at ht
        rw [ho] at hout
        have ho' : (s.nd i).oid = some o := by rw [← hndi]; exact ho
        have hr1 : (s1.nd 0).oid ≠ some o := by rw [(d1.fields 0).2.1]; exact hroot o ho' h0
        have hd' := (delete_spec g s1 (some o) none d1.coh).1
        have htot' := delete_total g d1.coh (some o) none (Or.inl rfl)
        cases hrun2 : delete c (some o) none s1 with
        | mk s2 r2 =>
          rw [hrun2] at hd' htot' hout
          simp only at hd' htot'
          subst htot'
          subst hout
          refine ⟨d1.trans hd', rfl, ?_, fun o' ho'' h0' => ?_, fun x hx => ?_⟩
          rotate_left 2
          · obtain ⟨a1, a2⟩ := hx1 x hx
            exact ⟨by rw [hd'.frame x a2]; exact a1, fun h => a2 (hd'.reach h)⟩
          · rcases hd'.shrink ks with a | a
            · exact a
            · rw [a]; exact hnone1
          · rw [ho'] at ho''; cases ho''
            exact delete_oid_gone g d1.coh h0 hr1 hrun2 rfl
    · rw [if_neg ht] at hout
      subst hout
      refine ⟨d1, rfl, hnone1, fun o ho h0 => ?_, hx1⟩
      exfalso; apply ht
      rw [hndi, ho]
      cases o with
      | zero => exact absurd rfl h0
      | succ k => rfl

theorem rmV_of_none {s : HC} {ks : List Str} (h : res s ks = none) (q : List Str) : rmV ks (view s) q = view s q := by
  simp only [rmV]
  split
  · next hp =>
    obtain ⟨r, rfl⟩ := hp.1
    symm; apply view_none
    cases hr : res s (ks ++ r) with
    | none => rfl
    | some m => obtain ⟨y, hy, _⟩ := res_prefix hr; rw [h] at hy; simp at hy
  · rfl

/-- the dictionary view after the eviction phase of `__insert_node`, exactly -/
theorem insertPre_view {c : Cfg} (g : CfgGood c) {s : HC} {i : Nat} {ks : List Str} (hk : KsOk c ks) (hne : ks ≠ [])
    (hc : Coherent c s) (hsub : Sub c s i)
    (hroot : ∀ o, (s.nd i).oid = some o → o ≠ 0 → (s.nd 0).oid ≠ some o) :
    (∀ o, (s.nd i).oid = some o → o ≠ 0 →
      (∀ kx, HolderV (rmV ks (view s)) o kx →
        ∀ q, view (insertPre c i (canon c.sep ks) s).1 q = rmV kx (rmV ks (view s)) q) ∧
      ((∀ k, ¬ HolderV (rmV ks (view s)) o k) →
        ∀ q, view (insertPre c i (canon c.sep ks) s).1 q = rmV ks (view s) q)) ∧
    (truthy (s.nd i).oid = false → ∀ q, view (insertPre c i (canon c.sep ks) s).1 q = rmV ks (view s) q) := by
  have hi : ¬ Reach s i := hsub.unreach [] i rfl
  have hlook := getNode_canon g s hk
  have hdv := delete_view g hc none (some (canon c.sep ks))
  have hd := (delete_spec g s none (some (canon c.sep ks)) hc).1
  have htot := delete_total g hc none (some (canon c.sep ks)) (Or.inr rfl)
  rw [insertPre_run]
  cases hrun1 : delete c none (some (canon c.sep ks)) s with
  | mk s1 r1 =>
    rw [hrun1] at hdv hd htot
    simp only at hdv hd htot
    subst htot
    simp only
    have hv1 : ∀ q, view s1 q = rmV ks (view s) q := by
      intro q
      cases hx : res s ks with
      | none =>
        rw [hdv.2 (fun x hx' => by rw [hlook, hx] at hx'; simp at hx'), rmV_of_none hx]
      | some x =>
        have hx0 : x ≠ 0 := by intro e; subst e; exact hne (hc.res_root hx)
        exact hdv.1 x ks (by rw [hlook, hx]) hx hx0 q
    have hndi : s1.nd i = s.nd i := hd.frame i hi
    refine ⟨fun o ho h0 => ?_, fun hf => ?_⟩
    · have ht : truthy (s1.nd i).oid = true := by
        rw [hndi, ho]
        cases o with
        | zero => exact absurd rfl h0
        | succ k => rfl
      rw [if_pos ht, hndi, ho]
      have hdv2 := delete_view g hd.coh (some o) none
      obtain ⟨r, hr, hr1, hr2⟩ := hd.coh.getNode_oid o none
      have hr0 : (s1.nd 0).oid ≠ some o := by rw [(hd.fields 0).2.1]; exact hroot o ho h0
      refine ⟨fun kx hh q => ?_, fun hno q => ?_⟩
      · obtain ⟨t, ht'⟩ := hh
        rw [← hv1 kx] at ht'
        obtain ⟨x', hx', he⟩ := view_eq_some ht'
        have hox : (s1.nd x').oid = some o := by
          have := congrArg Prod.snd he; simpa [entOf] using this
        have hrx := hr2 h0 x' ⟨_, hx'⟩ hox
        have hx0 : x' ≠ 0 := fun e => hr0 (e ▸ hox)
        rw [hdv2.1 x' kx (by rw [hr, hrx]) hx' hx0 q]
        simp only [rmV, hv1]
      · have hnone : r = none := by
          cases r with
          | none => rfl
          | some x' =>
            exfalso
            obtain ⟨⟨kx, hkx⟩, hox⟩ := hr1 x' rfl
            exact hno kx ⟨(s1.nd x').type, by rw [← hv1, view_some hkx]; simp [entOf, hox]⟩
        rw [hdv2.2 (fun x hx => by rw [hr, hnone] at hx; simp at hx)]
        exact hv1 q
    · have ht : ¬ truthy (s1.nd i).oid = true := by rw [hndi, hf]; simp
      rw [if_neg ht]
      exact hv1

/-- what `insertTail` guarantees whatever its outcome -/
structure CorePost (c : Cfg) (s : HC) (init : List Str) (a : Str) (i : Nat) (s' : HC) : Prop where
  coh : Coherent c s'
  frameX : FrameX s s' (InSub s i)
  fi : (s'.nd i).oid = (s.nd i).oid ∧ (s'.nd i).type = (s.nd i).type
  shrink : ∀ q m, res s' q = some m → res s q = some m ∨ ∃ r, q = init ++ [a] ++ r ∧ resFrom s i r = some m
  oid_same : ∀ m, (s'.nd m).oid = (s.nd m).oid
  type_same : ∀ m, (s'.nd m).type = (s.nd m).type

theorem Stage.corePost {c : Cfg} {s : HC} {init : List Str} {a : Str} {j i : Nat} {t : HC}
    (h : Stage c s init a j i t) (hi : ¬ Reach s i) : CorePost c s init a i t :=
  ⟨h.coh, h.frameX, by rw [h.ndi]; exact ⟨rfl, rfl⟩, fun q m hm => Or.inl (h.shrink q m hm),
   fun m => by
    by_cases e : m = i
    · subst e; rw [h.ndi]
    · exact (h.fields m e).2,
   fun m => by
    by_cases e : m = i
    · subst e; rw [h.ndi]
    · exact (h.fields m e).1⟩

/-- **linking a detached subtree under its parent and re-indexing it** (the part of `__insert_node`
    after the parent is known): nothing resolves at the target yet and the node's id is free -/
theorem insertTail_spec {c : Cfg} (g : CfgGood c) {s : HC} {init : List Str} {a : Str} {j i : Nat}
    (hc : Coherent c s) (hsub : Sub c s i) (hk : KsOk c (init ++ [a])) (hj : res s init = some j)
    (hnone : res s (init ++ [a]) = none)
    (hfresh : ∀ o, (s.nd i).oid = some o → o ≠ 0 → dget s.idmap o = none) :
    ∀ out, insertTail c i a j s = out →
    CorePost c s init a i out.1 ∧
      (out.2 = .ok () → res out.1 (init ++ [a]) = some i ∧ (∀ q, resFrom out.1 i q = resFrom s i q) ∧
        (∀ q, res out.1 q = if (init ++ [a]) <+: q then resFrom s i (q.drop (init ++ [a]).length) else res s q)) ∧
      out.2 ≠ .error .fuel ∧
      ((s.nd j).type = .dir → ((s.nd i).oid = none ∨ (s.nd i).oid ≠ (s.nd j).oid) → out.2 = .ok ()) := by
  intro out hout
  have hi : ¬ Reach s i := hsub.unreach [] i rfl
  have hji : j ≠ i := fun e => hi (e ▸ ⟨_, hj⟩)
  have hinit : ¬ (init ++ [a]) <+: init := fun h => by have := h.length_le; simp at this; omega
  rw [insertTail_run, if_neg hji, insertRest_run] at hout
  have st2 : Stage c s init a j i (labelSt s i a j) := Stage.start hc hsub hj
  obtain ⟨s4, hs4⟩ : ∃ s4, s4 = labelSt s i a j := ⟨_, rfl⟩
  rw [← hs4] at hout st2
  have st4 := st2
  have hnone4 : res s4 (init ++ [a]) = none := by
    cases hx : res s4 (init ++ [a]) with
    | none => rfl
    | some m => have := st4.shrink _ m hx; rw [hnone] at this; simp at this
  have hfresh4 : ∀ o, (s4.nd i).oid = some o → o ≠ 0 → dget s4.idmap o = none := by
    intro o ho h0
    have hid : s4.idmap = s.idmap := by rw [hs4]; simp [labelSt]
    rw [hid]
    apply hfresh o _ h0
    rw [st4.ndi] at ho; exact ho
  -- add_child
  rw [addChild_run] at hout
  have hckj : checkOk s4 j = true := st4.coh.checkOk ⟨_, st4.hj⟩
  simp only [hckj, Bool.true_eq_false, if_false] at hout
  cases hcki : checkOk s4 i with
  | false =>
    rw [hcki] at hout
    simp only [if_true] at hout
    subst hout
    refine ⟨st4.corePost hi, fun h => by simp at h, by simp, fun _ hoidh => ?_⟩
    exfalso
    have hj4 : (s4.nd j).oid = (s.nd j).oid := (st4.fields j hji).2
    unfold checkOk at hcki
    rw [st4.ndi] at hcki
    simp only at hcki
    rw [hj4] at hcki
    rcases hoidh with h1 | h1
    · simp [h1, hji] at hcki
    · have : ((s.nd i).oid != (s.nd j).oid) = true := by simpa using h1
      simp [this, hji] at hcki
  | true =>
    rw [hcki] at hout
    simp only [Bool.true_eq_false, if_false] at hout
    by_cases hdir : (s4.nd j).type = .dir
    · have hnm : (s4.nd i).name = a := by rw [st4.ndi]
      have hpr : (s4.nd i).parent = some j := by rw [st4.ndi]
      rw [if_neg (fun h : (s4.nd j).type ≠ .dir => h hdir), hnm] at hout
      simp only at hout
      have hdn : dget (s4.nd j).children a = none := by
        have := hnone4
        rw [res_snoc, st4.hj] at this
        exact this
      have hoidij : (s4.nd i).oid = none ∨ (s4.nd i).oid ≠ (s4.nd j).oid := by
        unfold checkOk at hcki
        rw [hpr] at hcki
        simp only [Bool.and_eq_true, Bool.or_eq_true, Option.isNone_iff_eq_none, bne_iff_ne, ne_eq] at hcki
        exact hcki.1
      have x : AttachCtx c s4 init a j i :=
        ⟨g, st4.coh, st4.sub, st4.hj, hdir, hdn, hnm, hpr, hk a (by simp), hoidij, hfresh4⟩
      change (match walk c (attachSt s4 j i a) i with
        | Except.error e => (attachSt s4 j i a, Except.error e)
        | Except.ok w => reindex c (w.map (fun y : Nat × Option Str => y.1)) (attachSt s4 j i a)) = out at hout
      -- the nodes `walk` yields are exactly the subtree
      have hsubok5 : SubOk (attachSt s4 j i a) i := by
        intro q m hm
        rw [x.resFrom_sub_attach] at hm
        have hmj : m ≠ j := fun e => x.j_not_sub q (e ▸ hm)
        rw [x.nd_attach]; simp only [hmj, if_false]
        exact st4.sub.subOk q m hm
      have hwalk : ∀ pth m, m ∈ walkNodes c (attachSt s4 j i a) ((attachSt s4 j i a).heap.length + 1) i pth ↔
          InSub s4 i m := by
        intro pth m
        constructor
        · intro hm
          obtain ⟨q, hq⟩ := walkNodes_sound c _ _ _ _ m (fun q y hy => (hsubok5 q y hy).1) hm
          exact ⟨q, by rw [← x.resFrom_sub_attach]; exact hq⟩
        · rintro ⟨q, hq⟩
          apply walkNodes_complete c _ q _ _ _ _ hsubok5 (by rw [x.resFrom_sub_attach]; exact hq)
          have := st4.sub.depth_lt hq
          simp only [attachSt, setNd_len]; omega
      have hoid5 : ∀ m, ((attachSt s4 j i a).nd m).oid = (s4.nd m).oid := fun m => (x.fields_attach m).2.1
      have hfresh_all : ∀ m, InSub s4 i m → ∀ o, (s4.nd m).oid = some o → o ≠ 0 → dget s4.idmap o = none := by
        rintro m ⟨q, hq⟩ o ho h0
        cases q with
        | nil => simp [resFrom] at hq; subst hq; exact hfresh4 o ho h0
        | cons k q' => exact st4.sub.ids_fresh (k :: q') m o (by simp) hq ho h0
      obtain ⟨M', hrun, hkM, hM⟩ := reindex_spec c
        (walkNodes c (attachSt s4 j i a) ((attachSt s4 j i a).heap.length + 1) i none) (attachSt s4 j i a)
        (fun m hm o ho h0 hroot => by
          rw [hoid5] at ho
          have hf := hfresh_all m ((hwalk none m).1 hm) o ho h0
          obtain ⟨rr, hrr, hr0⟩ := st4.coh.root_oid
          have : HC.rootOid (attachSt s4 j i a) = some rr := by
            simp only [HC.rootOid, hoid5, hrr]
          rw [this] at hroot
          cases hroot
          have := st4.coh.dget_idmap.2 ⟨Reach.root s4, hrr, hr0⟩
          rw [hf] at this; simp at this)
        (fun m hm o ho h0 => by
          rw [hoid5] at ho
          exact Or.inl (hfresh_all m ((hwalk none m).1 hm) o ho h0))
        (fun m1 h1 m2 h2 o o1 o2 h0 => by
          rw [hoid5] at o1 o2
          obtain ⟨q1, hq1⟩ := (hwalk none m1).1 h1
          obtain ⟨q2, hq2⟩ := (hwalk none m2).1 h2
          exact st4.sub.ids_inj q1 q2 m1 m2 o hq1 hq2 o1 o2 h0)
        st4.coh.map_keys
      have hM' : ∀ o m, (o, m) ∈ M' ↔ ((o, m) ∈ s4.idmap ∨ (InSub s4 i m ∧ (s4.nd m).oid = some o ∧ o ≠ 0)) := by
        intro o m
        rw [hM o m, hwalk none m, hoid5]
        rfl
      have hc6 : Coherent c { attachSt s4 j i a with idmap := M' } := x.coherent M' hkM hM'
      have hres6 : res ({ attachSt s4 j i a with idmap := M' } : HC) (init ++ [a]) = some i := by
        rw [AttachCtx.res_with_idmap]; exact x.res_attach_at
      have hfp : fullPath c (attachSt s4 j i a) i = .ok (some (canon c.sep (init ++ [a]))) := by
        rw [← hc6.fullPath g hres6]
        exact (fullPath_congr c (s := attachSt s4 j i a) (s' := { attachSt s4 j i a with idmap := M' }) rfl
          (fun _ => ⟨rfl, rfl, rfl, rfl⟩) i).symm
      simp only [walk, hfp] at hout
      have hlist : (walkAux c (attachSt s4 j i a) ((attachSt s4 j i a).heap.length + 1) i
          (some (canon c.sep (init ++ [a])))).map (·.1) =
          walkNodes c (attachSt s4 j i a) ((attachSt s4 j i a).heap.length + 1) i none :=
        walkNodes_path_irrel c _ _ _ _ _
      rw [hlist, hrun] at hout
      subst hout
      have hsubeq : ∀ m, InSub s4 i m ↔ InSub s i m := fun m =>
        ⟨fun ⟨q, hq⟩ => ⟨q, by rw [← st4.subres]; exact hq⟩, fun ⟨q, hq⟩ => ⟨q, by rw [st4.subres]; exact hq⟩⟩
      have hoid_all : ∀ m, (s4.nd m).oid = (s.nd m).oid := fun m => by
        by_cases e : m = i
        · subst e; rw [st4.ndi]
        · exact (st4.fields m e).2
      refine ⟨⟨hc6, ⟨?_, ?_, ?_, ?_⟩, ?_, ?_, ?_, ?_⟩, fun _ => ⟨hres6, fun q => ?_, fun q => ?_⟩, by simp, fun _ _ => rfl⟩
      · simp only [attachSt, setNd_len]; exact Nat.le_of_eq st4.len.symm
      · intro m hm hr hE
        have hmi : m ≠ i := fun e => hE ⟨[], by rw [e]; rfl⟩
        have hmj : m ≠ j := fun e => hr (e ▸ ⟨_, hj⟩)
        show (attachSt s4 j i a).nd m = s.nd m
        rw [x.nd_attach]; simp only [hmj, if_false]
        exact st4.frame m hr hmi
      · intro m hm hr
        rcases (x.reach_attach).1 ((AttachCtx.reach_with_idmap _ _ _).1 hr) with h | h
        · exact Or.inl (st4.reach_old h)
        · exact Or.inr ((hsubeq m).1 h)
      · intro e he
        rcases (hM' e.1 e.2).1 he with h | ⟨h, _⟩
        · exact Or.inl (st4.idsub e h)
        · exact Or.inr ((hsubeq e.2).1 h)
      · show ((attachSt s4 j i a).nd i).oid = _ ∧ ((attachSt s4 j i a).nd i).type = _
        rw [hoid5, (x.fields_attach i).1, st4.ndi]; exact ⟨rfl, rfl⟩
      · intro q m hm
        rw [AttachCtx.res_with_idmap] at hm
        by_cases hp : (init ++ [a]) <+: q
        · obtain ⟨r, rfl⟩ := hp
          rw [x.res_attach_in] at hm
          exact Or.inr ⟨r, rfl, by rw [← st4.subres]; exact hm⟩
        · rw [x.res_attach_out q hp] at hm
          exact Or.inl (st4.shrink q m hm)
      · intro m
        show ((attachSt s4 j i a).nd m).oid = _
        rw [hoid5]; exact hoid_all m
      · intro m
        show ((attachSt s4 j i a).nd m).type = _
        rw [(x.fields_attach m).1]
        by_cases e : m = i
        · subst e; rw [st4.ndi]
        · exact (st4.fields m e).1
      · have e1 : resFrom ({ attachSt s4 j i a with idmap := M' } : HC) i q = resFrom (attachSt s4 j i a) i q :=
          resFrom_congr (s := attachSt s4 j i a) (s' := { attachSt s4 j i a with idmap := M' }) q i (fun _ _ _ => rfl)
        exact e1.trans (by rw [x.resFrom_sub_attach, st4.subres])
      · rw [AttachCtx.res_with_idmap]
        by_cases hp : (init ++ [a]) <+: q
        · rw [if_pos hp]
          obtain ⟨r, rfl⟩ := hp
          rw [x.res_attach_in, List.drop_left, st4.subres]
        · rw [if_neg hp, x.res_attach_out q hp, hs4, res_labelSt hsub]
    · rw [if_pos hdir] at hout
      subst hout
      refine ⟨st4.corePost hi, fun h => by simp at h, by simp, fun hd _ => ?_⟩
      exact absurd ((st4.fields j hji).1.trans hd) hdir

end CS.HCache
