import Csverif.Proofs.HCache.Attach
import Csverif.Proofs.HCache.Fuel
/- C19 helper lemmas, part 9: `__insert_node`. -/
namespace CS.HCache
open CS.Path
set_option linter.unusedSimpArgs false

/-- `__insert_node` from `self.delete(path=path)` on (218-229) -/
def insertRest (c : Cfg) (i : Nat) (path : Str) (par : Nat) : M Unit := do
  delete c none (some path)
  let s ← getS
  (if truthy (s.nd i).oid then delete c (s.nd i).oid none else pure ())
  addChild par i
  let w ← walkM c i
  reindex c (w.map (·.1))

/-- the part of `__insert_node` after the parent has been determined (213-229) -/
def insertTail (c : Cfg) (i : Nat) (path name : Str) (par : Nat) : M Unit := do
  modS (fun s => s.setNd i { s.nd i with name := name })
  if par = i then raise .assertion else
    modS (fun s => s.setNd i { s.nd i with parent := some par })
    insertRest c i path par

/-- the parent lookup / auto-creation of `__insert_node` (208-211) -/
def ensurePar (c : Cfg) (f : Nat) (pp : Str) : M Nat := do
  let pn ← getNodeM c none (some pp)
  let s ← getS
  (match pn with
    | some p => if (s.nd p).type = .file then makeNodeWith c (insertNode c f) .dir pp none else pure p
    | none => makeNodeWith c (insertNode c f) .dir pp none)

theorem insertNode_succ (c : Cfg) (f i : Nat) (path : Str) :
    insertNode c (f + 1) i path = (do
      let par ← ensurePar c f (hsplit c path).1
      insertTail c i path (hsplit c path).2 par) := by
  funext s
  simp only [insertNode, ensurePar, insertTail, bind_run, getNodeM_run, getS_run]
  cases getNode c s none (some (hsplit c path).1) with
  | error e => rfl
  | ok pn =>
    simp only
    cases pn with
    | none => rfl
    | some p => rfl
set_option linter.unusedVariables false

/-- the state after `node.name = name; node.wr_parent = ref(parent)` -/
def labelSt (s : HC) (i : Nat) (a : Str) (j : Nat) : HC :=
  (s.setNd i { s.nd i with name := a }).setNd i { (s.setNd i { s.nd i with name := a }).nd i with parent := some j }

theorem insertTail_run (c : Cfg) (i : Nat) (path name : Str) (par : Nat) (s : HC) :
    insertTail c i path name par s =
      if par = i then (s.setNd i { s.nd i with name := name }, .error .assertion) else
        insertRest c i path par (labelSt s i name par) := by
  simp only [insertTail, bind_run, modS_run, labelSt]
  by_cases hp : par = i
  · simp [hp]
  · simp only [hp, if_false, bind_run, modS_run]

theorem insertRest_run (c : Cfg) (i : Nat) (path : Str) (par : Nat) (s2 : HC) :
    insertRest c i path par s2 =
        match delete c none (some path) s2 with
        | (s3, .error e) => (s3, .error e)
        | (s3, .ok _) =>
          match (if truthy (s3.nd i).oid then delete c (s3.nd i).oid none else pure ()) s3 with
          | (s4, .error e) => (s4, .error e)
          | (s4, .ok _) =>
            match addChild par i s4 with
            | (s5, .error e) => (s5, .error e)
            | (s5, .ok _) =>
              match walk c s5 i with
              | .error e => (s5, .error e)
              | .ok w => reindex c (w.map (·.1)) s5 := by
  simp only [insertRest, bind_run]
  cases delete c none (some path) s2 with
  | mk s3 r3 =>
    cases r3 with
    | error e => rfl
    | ok _ =>
      simp only [getS_run]
      cases (if truthy (s3.nd i).oid then delete c (s3.nd i).oid none else pure ()) s3 with
      | mk s4 r4 =>
        cases r4 with
        | error e => rfl
        | ok _ =>
          simp only
          cases addChild par i s4 with
          | mk s5 r5 =>
            cases r5 with
            | error e => rfl
            | ok _ =>
              simp only [walkM_run]
              cases walk c s5 i <;> rfl

theorem addChild_run (par ch : Nat) (s : HC) :
    addChild par ch s =
      if checkOk s par = false then (s, .error .assertion)
      else if checkOk s ch = false then (s, .error .assertion)
      else if (s.nd par).type ≠ .dir then (s, .error .assertion)
      else (s.setNd par { s.nd par with children := dset (s.nd par).children (s.nd ch).name ch }, .ok ()) := by
  cases h1 : checkOk s par
  · simp [addChild, bind_run, check, h1]
  · cases h2 : checkOk s ch
    · simp [addChild, bind_run, check, h1, h2]
    · by_cases h3 : (s.nd par).type = .dir
      · simp [addChild, bind_run, check, h1, h2, h3]
      · simp [addChild, bind_run, check, h1, h2, h3]

/-! ### the id guard along the parent chain -/

/-- no node on the existing part of the chain to `ks` (any prefix, `ks` included) holds the id `o` -/
def ChainFree (s : HC) (o : Oid) (ks : List Str) : Prop :=
  ∀ q, q <+: ks → ∀ m, res s q = some m → (s.nd m).oid ≠ some o

/-- every node on the chain to `ks` in `s'` was there in `s` with the same id, or has no id -/
def ChainKeep (s s' : HC) (ks : List Str) : Prop :=
  ∀ q, q <+: ks → ∀ m, res s' q = some m →
    (res s q = some m ∧ (s'.nd m).oid = (s.nd m).oid) ∨ (s'.nd m).oid = none

theorem ChainFree.keep {s s' : HC} {o : Oid} {ks : List Str} (h : ChainFree s o ks) (hk : ChainKeep s s' ks) :
    ChainFree s' o ks := by
  intro q hq m hm
  rcases hk q hq m hm with ⟨h1, h2⟩ | h1
  · rw [h2]; exact h q hq m h1
  · rw [h1]; simp

theorem ChainKeep.refl (s : HC) (ks : List Str) : ChainKeep s s ks := fun _ _ _ h => Or.inl ⟨h, rfl⟩

theorem ChainKeep.trans {s s1 s2 : HC} {ks : List Str} (h1 : ChainKeep s s1 ks) (h2 : ChainKeep s1 s2 ks) :
    ChainKeep s s2 ks := by
  intro q hq m hm
  rcases h2 q hq m hm with ⟨a, b⟩ | a
  · rcases h1 q hq m a with ⟨a', b'⟩ | a'
    · exact Or.inl ⟨a', b.trans b'⟩
    · exact Or.inr (b.trans a')
  · exact Or.inr a

theorem ChainKeep.prefix {s s' : HC} {ks ks' : List Str} (h : ChainKeep s s' ks) (hp : ks' <+: ks) : ChainKeep s s' ks' :=
  fun q hq => h q (hq.trans hp)

/-- the executable guard `ancFree` decides `ChainFree` -/
theorem ancFree_from (s : HC) (o : Oid) : ∀ (ks : List Str) (n : Nat),
    ancFree s o n ks = true ↔ ∀ q, q <+: ks → ∀ m, resFrom s n q = some m → (s.nd m).oid ≠ some o := by
  intro ks
  induction ks with
  | nil =>
    intro n
    simp only [ancFree, decide_eq_true_eq, List.prefix_nil]
    constructor
    · intro h q hq m hm; subst hq; simp [resFrom] at hm; subst hm; exact h
    · intro h; exact h [] rfl n rfl
  | cons k ks ih =>
    intro n
    simp only [ancFree, Bool.and_eq_true, decide_eq_true_eq]
    constructor
    · rintro ⟨h1, h2⟩ q hq m hm
      cases q with
      | nil => simp [resFrom] at hm; subst hm; exact h1
      | cons k' q' =>
        have hk : k' = k ∧ q' <+: ks := by simpa using hq
        obtain ⟨rfl, hq'⟩ := hk
        simp only [resFrom] at hm
        cases hd : dget (s.nd n).children k' with
        | none => simp [hd] at hm
        | some ch =>
          simp only [hd] at hm h2
          exact (ih ch).1 h2 q' hq' m hm
    · intro h
      refine ⟨h [] (List.nil_prefix) n rfl, ?_⟩
      cases hd : dget (s.nd n).children k with
      | none => rfl
      | some ch =>
        simp only
        apply (ih ch).2
        intro q hq m hm
        exact h (k :: q) (by simpa using hq) m (by simp [resFrom, hd, hm])

theorem ancFree_iff (s : HC) (o : Oid) (ks : List Str) : ancFree s o 0 ks = true ↔ ChainFree s o ks :=
  ancFree_from s o ks 0

/-! ### the core of `__insert_node` -/

/-- invariants that hold at every point of `insertTail` before the node is linked to its parent -/
structure Stage (c : Cfg) (s : HC) (init : List Str) (a : Str) (j i : Nat) (t : HC) : Prop where
  coh : Coherent c t
  sub : Sub c t i
  hj : res t init = some j
  len : t.heap.length = s.heap.length
  idsub : ∀ e, e ∈ t.idmap → e ∈ s.idmap
  shrink : ∀ q m, res t q = some m → res s q = some m
  fields : ∀ m, m ≠ i → (t.nd m).type = (s.nd m).type ∧ (t.nd m).oid = (s.nd m).oid
  ndi : t.nd i = { s.nd i with name := a, parent := some j }
  subres : ∀ q, resFrom t i q = resFrom s i q
  frame : ∀ m, ¬ Reach s m → m ≠ i → t.nd m = s.nd m

namespace Stage
variable {c : Cfg} {s : HC} {init : List Str} {a : Str} {j i : Nat} {t : HC}

theorem reach_old (h : Stage c s init a j i t) {m : Nat} (hm : Reach t m) : Reach s m := by
  obtain ⟨q, hq⟩ := hm; exact ⟨q, h.shrink q m hq⟩

theorem frameX (h : Stage c s init a j i t) : FrameX s t (InSub s i) :=
  ⟨Nat.le_of_eq h.len.symm,
   fun m _ hr hE => h.frame m hr (fun e => hE ⟨[], by rw [e]; rfl⟩),
   fun m _ hm => Or.inl (h.reach_old hm), fun e he => Or.inl (h.idsub e he)⟩

theorem chainKeep (h : Stage c s init a j i t) (hi : ¬ Reach s i) (ks : List Str) : ChainKeep s t ks := by
  intro q _ m hm
  have hs := h.shrink q m hm
  have : m ≠ i := fun e => hi (e ▸ ⟨q, hs⟩)
  exact Or.inl ⟨hs, (h.fields m this).2⟩

theorem del (h : Stage c s init a j i t) {t' : HC} (hd : DelPost c t t') (hj' : res t' init = some j) :
    Stage c s init a j i t' := by
  have hti : ¬ Reach t i := h.sub.unreach [] i rfl
  have hsubnd : ∀ m, InSub t i m → t'.nd m = t.nd m := fun m ⟨r, hr⟩ => hd.frame m (h.sub.unreach r m hr)
  refine ⟨hd.coh, h.sub.frame (hd.frameX (fun _ => False)) (fun _ _ hf => hf) hd.idsub, hj', hd.len.trans h.len,
    fun e he => h.idsub e (hd.idsub e he), ?_, ?_, ?_, ?_, ?_⟩
  · intro q m hm
    rcases hd.shrink q with a1 | a1
    · rw [a1] at hm; simp at hm
    · exact h.shrink q m (by rw [← a1]; exact hm)
  · intro m hm
    have a1 := hd.fields m
    have a2 := h.fields m hm
    exact ⟨a1.1.trans a2.1, a1.2.1.trans a2.2⟩
  · rw [hd.frame i hti]; exact h.ndi
  · intro q
    rw [← h.subres q]
    exact resFrom_congr q i (fun r x hx => by rw [hsubnd x ⟨r, hx⟩])
  · intro m hm hmi
    rw [hd.frame m (fun hr => hm (h.reach_old hr)), h.frame m hm hmi]

end Stage

theorem nd_labelSt (s : HC) (i : Nat) (a : Str) (j : Nat) (hi : i < s.heap.length) (m : Nat) :
    (labelSt s i a j).nd m = if m = i then { s.nd i with name := a, parent := some j } else s.nd m := by
  simp only [labelSt, nd_setNd, setNd_len, hi, and_true]
  by_cases h : i = m
  · subst h; simp
  · simp [h, Ne.symm h]

theorem Stage.start {c : Cfg} {s : HC} {init : List Str} {a : Str} {j i : Nat} (hc : Coherent c s) (hsub : Sub c s i)
    (hj : res s init = some j) : Stage c s init a j i (labelSt s i a j) := by
  have hi : ¬ Reach s i := hsub.unreach [] i rfl
  have hnd := nd_labelSt s i a j hsub.valid
  have hres : ∀ q, res (labelSt s i a j) q = res s q :=
    res_congr_reach (fun m hm => by rw [hnd]; have : m ≠ i := fun e => hi (e ▸ hm); simp [this])
  have hi1 : ¬ Reach (s.setNd i { s.nd i with name := a }) i := fun h => hi ((reach_setNd_unreach hi _ i).1 h)
  refine ⟨(hc.setNd_unreach hi _).setNd_unreach hi1 _, ?_, by rw [hres]; exact hj, by simp [labelSt],
    fun e he => he, fun q m hm => by rw [← hres]; exact hm, fun m hm => by rw [hnd]; simp [hm], by rw [hnd]; simp, ?_,
    fun m _ hm => by rw [hnd]; simp [hm]⟩
  · have s1 : Sub c (s.setNd i { s.nd i with name := a }) i := hsub.setRoot _ rfl rfl rfl rfl
    exact s1.setRoot _ rfl rfl rfl rfl
  · intro q
    exact resFrom_congr q i (fun r x _ => by
      rw [hnd]; split
      · next e => subst e; rfl
      · rfl)

theorem flatMap_congr' {α β : Type} {l : List α} {f g : α → List β} (h : ∀ a ∈ l, f a = g a) :
    l.flatMap f = l.flatMap g := by
  induction l with
  | nil => rfl
  | cons a l ih =>
    simp only [List.flatMap_cons]
    rw [h a List.mem_cons_self, ih (fun b hb => h b (List.mem_cons_of_mem _ hb))]

theorem walkNodes_path_irrel (c : Cfg) (s : HC) : ∀ (f n : Nat) (p p' : Option Str),
    walkNodes c s f n p = walkNodes c s f n p' := by
  intro f
  induction f with
  | zero => intro n p p'; rfl
  | succ f ih =>
    intro n p p'
    rw [walkNodes_succ, walkNodes_succ]
    congr 1
    split
    · rfl
    · apply flatMap_congr'
      intro kc _
      split
      · exact ih _ _ _
      · rfl

/-- what `insertTail` guarantees whatever its outcome -/
structure CorePost (c : Cfg) (s : HC) (init : List Str) (i : Nat) (s' : HC) : Prop where
  coh : Coherent c s'
  frameX : FrameX s s' (InSub s i)
  chain : ChainKeep s s' init
  fi : (s'.nd i).oid = (s.nd i).oid ∧ (s'.nd i).type = (s.nd i).type
  shrink : ∀ q m, res s' q = some m → res s q = some m ∨ InSub s i m
  oid_same : ∀ m, (s'.nd m).oid = (s.nd m).oid

theorem Stage.corePost {c : Cfg} {s : HC} {init : List Str} {a : Str} {j i : Nat} {t : HC}
    (h : Stage c s init a j i t) (hi : ¬ Reach s i) : CorePost c s init i t :=
  ⟨h.coh, h.frameX, h.chainKeep hi init, by rw [h.ndi]; exact ⟨rfl, rfl⟩, fun q m hm => Or.inl (h.shrink q m hm),
   fun m => by
    by_cases e : m = i
    · subst e; rw [h.ndi]
    · exact (h.fields m e).2⟩

theorem insertTail_spec {c : Cfg} (g : CfgGood c) {s : HC} {init : List Str} {a : Str} {j i : Nat}
    (hc : Coherent c s) (hsub : Sub c s i) (hk : KsOk c (init ++ [a])) (hj : res s init = some j)
    (hfree : ∀ o, (s.nd i).oid = some o → o ≠ 0 → ChainFree s o init) :
    ∀ out, insertTail c i (canon c.sep (init ++ [a])) a j s = out →
    CorePost c s init i out.1 ∧
      (out.2 = .ok () → res out.1 (init ++ [a]) = some i ∧ ∀ q, resFrom out.1 i q = resFrom s i q) ∧
      out.2 ≠ .error .fuel := by
  intro out hout
  have hi : ¬ Reach s i := hsub.unreach [] i rfl
  have hji : j ≠ i := fun e => hi (e ▸ ⟨_, hj⟩)
  have hinit : ¬ (init ++ [a]) <+: init := fun h => by have := h.length_le; simp at this; omega
  rw [insertTail_run, if_neg hji, insertRest_run] at hout
  have st2 : Stage c s init a j i (labelSt s i a j) := Stage.start hc hsub hj
  -- delete(path=path)
  have hd := delete_spec g (labelSt s i a j) none (some (canon c.sep (init ++ [a]))) st2.coh
  have hlook := getNode_canon g (labelSt s i a j) hk
  cases hout3 : delete c none (some (canon c.sep (init ++ [a]))) (labelSt s i a j) with
  | mk s3 r3 =>
    rw [hout3] at hd hout
    obtain ⟨hd1, hd2, hd3, hd4⟩ := hd
    simp only at hd1 hd2 hd3 hd4
    have hout : ∀ q, ¬ (init ++ [a]) <+: q → res s3 q = res (labelSt s i a j) q := by
      intro q hq
      cases hx : res (labelSt s i a j) (init ++ [a]) with
      | none => rw [hd3 (fun x hx' => by rw [hlook, hx] at hx'; simp at hx')]
      | some x => exact (hd2 x _ (by rw [hlook, hx]) hx).1 q hq
    have st3 : Stage c s init a j i s3 := st2.del hd1 (by rw [hout init hinit]; exact st2.hj)
    have hr3 : r3 = .ok () := by
      have := delete_total g st2.coh none (some (canon c.sep (init ++ [a]))) (Or.inr rfl)
      rw [hout3] at this; exact this
    cases r3 with
    | error e => simp at hr3
    | ok u3 =>
      simp only at hout
      have hnone3 : res s3 (init ++ [a]) = none := by
        cases hx : res (labelSt s i a j) (init ++ [a]) with
        | none => rw [hd3 (fun x hx' => by rw [hlook, hx] at hx'; simp at hx')]; exact hx
        | some x =>
          have hx0 : x ≠ 0 := by
            intro e; subst e
            have := st2.coh.res_root hx
            simp at this
          exact (hd2 x _ (by rw [hlook, hx]) hx).2 rfl hx0 _ (List.prefix_refl _)
      -- delete(oid=node.oid) when the id is truthy
      have step4 : ∃ s4 r4, (if truthy (s3.nd i).oid then delete c (s3.nd i).oid none else pure ()) s3 = (s4, r4) ∧
          Stage c s init a j i s4 ∧ r4 = .ok () ∧ (r4 = .ok () → res s4 (init ++ [a]) = none ∧
            ∀ o, (s4.nd i).oid = some o → o ≠ 0 → dget s4.idmap o = none) := by
        have hoid3 : (s3.nd i).oid = (s.nd i).oid := by rw [st3.ndi]
        by_cases ht : truthy (s3.nd i).oid = true
        · cases ho : (s3.nd i).oid with
          | none => rw [ho] at ht; simp [truthy] at ht
          | some o =>
            have h0 : o ≠ 0 := by intro e; subst e; rw [ho] at ht; simp [truthy] at ht
            have ht' : truthy (some o) = true := ho ▸ ht
            rw [if_pos ht']
            have hcf : ChainFree s3 o init := (hfree o (by rw [← hoid3, ho]) h0).keep (st3.chainKeep hi init)
            have hd' := delete_spec g s3 (some o) none st3.coh
            obtain ⟨r, hr, hr1, hr2⟩ := st3.coh.getNode_oid o none
            cases hout4 : delete c (some o) none s3 with
            | mk s4 r4 =>
              rw [hout4] at hd'
              obtain ⟨e1, e2, e3, e4⟩ := hd'
              simp only at e1 e2 e3 e4
              have hj4 : res s4 init = some j := by
                cases r with
                | none => rw [e3 (fun x hx => by rw [hr] at hx; simp at hx)]; exact st3.hj
                | some x =>
                  obtain ⟨kx, hkx⟩ := (hr1 x rfl).1
                  rw [(e2 x kx hr hkx).1 init (fun hp => hcf kx hp x hkx (hr1 x rfl).2)]
                  exact st3.hj
              have st4 := st3.del e1 hj4
              have hr4 : r4 = .ok () := by
                have := delete_total g st3.coh (some o) none (Or.inl rfl)
                rw [hout4] at this; exact this
              refine ⟨s4, r4, rfl, st4, hr4, fun hok => ⟨?_, fun o' ho' h0' => ?_⟩⟩
              · rcases e1.shrink (init ++ [a]) with h | h
                · exact h
                · rw [h]; exact hnone3
              · have : o' = o := by
                  have : (s4.nd i).oid = some o := by rw [st4.ndi, ← hoid3, ho]
                  rw [this] at ho'; exact (Option.some.inj ho').symm
                subst this
                -- a surviving holder would have been reachable before, hence the deleted one
                cases hg : dget s4.idmap o' with
                | none => rfl
                | some m =>
                  exfalso
                  have hm := st4.coh.dget_idmap.1 hg
                  have hm3 : Reach s3 m := e1.reach hm.1
                  have ho3 : (s3.nd m).oid = some o' := by rw [← (e1.fields m).2.1]; exact hm.2.1
                  have hrm := hr2 h0 m hm3 ho3
                  subst hrm
                  obtain ⟨km, hkm⟩ := hm3
                  have hm0 : m ≠ 0 := by
                    intro e; subst e
                    exact hcf [] List.nil_prefix 0 rfl ho3
                  have hgone := (e2 m km hr hkm).2 hok hm0
                  obtain ⟨q, hq⟩ := hm.1
                  rcases e1.shrink q with h | h
                  · rw [h] at hq; simp at hq
                  · rw [h] at hq
                    have := st3.coh.res_inj hq hkm
                    subst this
                    rw [hgone q (List.prefix_refl _)] at h
                    rw [hkm] at h; simp at h
        · simp only [ht, Bool.false_eq_true, if_false]
          refine ⟨s3, .ok (), rfl, st3, rfl, fun _ => ⟨hnone3, fun o ho h0 => ?_⟩⟩
          exfalso; apply ht
          rw [ho]
          cases o with
          | zero => exact absurd rfl h0
          | succ k => rfl
      obtain ⟨s4, r4, hrun4, st4, hr4, hok4⟩ := step4
      rw [hrun4] at hout
      cases r4 with
      | error e => simp at hr4
      | ok u4 =>
        simp only at hout
        obtain ⟨hnone4, hfresh4⟩ := hok4 rfl
        -- add_child
        rw [addChild_run] at hout
        have hckj : checkOk s4 j = true := st4.coh.checkOk ⟨_, st4.hj⟩
        simp only [hckj, Bool.true_eq_false, if_false] at hout
        cases hcki : checkOk s4 i with
        | false =>
          rw [hcki] at hout
          simp only [if_true] at hout
          subst hout; exact ⟨st4.corePost hi, fun h => by simp at h, by simp⟩
        | true =>
          rw [hcki] at hout
          simp only [Bool.true_eq_false, if_false] at hout
          by_cases hdir : (s4.nd j).type = .dir
          · have hnm : (s4.nd i).name = a := by rw [st4.ndi]
            have hpr : (s4.nd i).parent = some j := by rw [st4.ndi]
            rw [if_neg (fun h : (s4.nd j).type ≠ .dir => h hdir), hnm] at hout
            simp only at hout
            have hdn : dget (s4.nd j).children a = none := by
              have := hnone4
              rw [res_snoc, st4.hj] at this
              exact this
            have hoidij : (s4.nd i).oid = none ∨ (s4.nd i).oid ≠ (s4.nd j).oid := by
              unfold checkOk at hcki
              rw [hpr] at hcki
              simp only [Bool.and_eq_true, Bool.or_eq_true, Option.isNone_iff_eq_none, bne_iff_ne, ne_eq] at hcki
              exact hcki.1
            have x : AttachCtx c s4 init a j i :=
              ⟨g, st4.coh, st4.sub, st4.hj, hdir, hdn, hnm, hpr, hk a (by simp), hoidij, hfresh4⟩
            change (match walk c (attachSt s4 j i a) i with
              | Except.error e => (attachSt s4 j i a, Except.error e)
              | Except.ok w => reindex c (w.map (fun y : Nat × Option Str => y.1)) (attachSt s4 j i a)) = out at hout
            -- the nodes `walk` yields are exactly the subtree
            have hsubok5 : SubOk (attachSt s4 j i a) i := by
              intro q m hm
              rw [x.resFrom_sub_attach] at hm
              have hmj : m ≠ j := fun e => x.j_not_sub q (e ▸ hm)
              rw [x.nd_attach]; simp only [hmj, if_false]
              exact st4.sub.subOk q m hm
            have hwalk : ∀ pth m, m ∈ walkNodes c (attachSt s4 j i a) ((attachSt s4 j i a).heap.length + 1) i pth ↔
                InSub s4 i m := by
              intro pth m
              constructor
              · intro hm
                obtain ⟨q, hq⟩ := walkNodes_sound c _ _ _ _ m (fun q y hy => (hsubok5 q y hy).1) hm
                exact ⟨q, by rw [← x.resFrom_sub_attach]; exact hq⟩
              · rintro ⟨q, hq⟩
                apply walkNodes_complete c _ q _ _ _ _ hsubok5 (by rw [x.resFrom_sub_attach]; exact hq)
                have := st4.sub.depth_lt hq
                simp only [attachSt, setNd_len]; omega
            have hoid5 : ∀ m, ((attachSt s4 j i a).nd m).oid = (s4.nd m).oid := fun m => (x.fields_attach m).2.1
            have hfresh_all : ∀ m, InSub s4 i m → ∀ o, (s4.nd m).oid = some o → o ≠ 0 → dget s4.idmap o = none := by
              rintro m ⟨q, hq⟩ o ho h0
              cases q with
              | nil => simp [resFrom] at hq; subst hq; exact hfresh4 o ho h0
              | cons k q' => exact st4.sub.ids_fresh (k :: q') m o (by simp) hq ho h0
            obtain ⟨M', hrun, hkM, hM⟩ := reindex_spec c
              (walkNodes c (attachSt s4 j i a) ((attachSt s4 j i a).heap.length + 1) i none) (attachSt s4 j i a)
              (fun m hm o ho h0 hroot => by
                rw [hoid5] at ho
                have hf := hfresh_all m ((hwalk none m).1 hm) o ho h0
                obtain ⟨rr, hrr, hr0⟩ := st4.coh.root_oid
                have : HC.rootOid (attachSt s4 j i a) = some rr := by
                  simp only [HC.rootOid, hoid5, hrr]
                rw [this] at hroot
                cases hroot
                have := st4.coh.dget_idmap.2 ⟨Reach.root s4, hrr, hr0⟩
                rw [hf] at this; simp at this)
              (fun m hm o ho h0 => by
                rw [hoid5] at ho
                exact Or.inl (hfresh_all m ((hwalk none m).1 hm) o ho h0))
              (fun m1 h1 m2 h2 o o1 o2 h0 => by
                rw [hoid5] at o1 o2
                obtain ⟨q1, hq1⟩ := (hwalk none m1).1 h1
                obtain ⟨q2, hq2⟩ := (hwalk none m2).1 h2
                exact st4.sub.ids_inj q1 q2 m1 m2 o hq1 hq2 o1 o2 h0)
              st4.coh.map_keys
            have hM' : ∀ o m, (o, m) ∈ M' ↔ ((o, m) ∈ s4.idmap ∨ (InSub s4 i m ∧ (s4.nd m).oid = some o ∧ o ≠ 0)) := by
              intro o m
              rw [hM o m, hwalk none m, hoid5]
              rfl
            have hc6 : Coherent c { attachSt s4 j i a with idmap := M' } := x.coherent M' hkM hM'
            have hres6 : res ({ attachSt s4 j i a with idmap := M' } : HC) (init ++ [a]) = some i := by
              rw [AttachCtx.res_with_idmap]; exact x.res_attach_at
            have hfp : fullPath c (attachSt s4 j i a) i = .ok (some (canon c.sep (init ++ [a]))) := by
              rw [← hc6.fullPath g hres6]
              exact (fullPath_congr c (s := attachSt s4 j i a) (s' := { attachSt s4 j i a with idmap := M' }) rfl
                (fun _ => ⟨rfl, rfl, rfl, rfl⟩) i).symm
            simp only [walk, hfp] at hout
            have hlist : (walkAux c (attachSt s4 j i a) ((attachSt s4 j i a).heap.length + 1) i
                (some (canon c.sep (init ++ [a])))).map (·.1) =
                walkNodes c (attachSt s4 j i a) ((attachSt s4 j i a).heap.length + 1) i none :=
              walkNodes_path_irrel c _ _ _ _ _
            rw [hlist, hrun] at hout
            subst hout
            have hsubeq : ∀ m, InSub s4 i m ↔ InSub s i m := fun m =>
              ⟨fun ⟨q, hq⟩ => ⟨q, by rw [← st4.subres]; exact hq⟩, fun ⟨q, hq⟩ => ⟨q, by rw [st4.subres]; exact hq⟩⟩
            have hoid_all : ∀ m, (s4.nd m).oid = (s.nd m).oid := fun m => by
              by_cases e : m = i
              · subst e; rw [st4.ndi]
              · exact (st4.fields m e).2
            refine ⟨⟨hc6, ⟨?_, ?_, ?_, ?_⟩, ?_, ?_, ?_, ?_⟩, fun _ => ⟨hres6, fun q => ?_⟩, by simp⟩
            · simp only [attachSt, setNd_len]; exact Nat.le_of_eq st4.len.symm
            · intro m hm hr hE
              have hmi : m ≠ i := fun e => hE ⟨[], by rw [e]; rfl⟩
              have hmj : m ≠ j := fun e => hr (e ▸ ⟨_, hj⟩)
              show (attachSt s4 j i a).nd m = s.nd m
              rw [x.nd_attach]; simp only [hmj, if_false]
              exact st4.frame m hr hmi
            · intro m hm hr
              rcases (x.reach_attach).1 ((AttachCtx.reach_with_idmap _ _ _).1 hr) with h | h
              · exact Or.inl (st4.reach_old h)
              · exact Or.inr ((hsubeq m).1 h)
            · intro e he
              rcases (hM' e.1 e.2).1 he with h | ⟨h, _⟩
              · exact Or.inl (st4.idsub e h)
              · exact Or.inr ((hsubeq e.2).1 h)
            · intro q hq m hm
              rw [AttachCtx.res_with_idmap, x.res_attach_out q (fun hp => hinit (hp.trans hq))] at hm
              have hs := st4.shrink q m hm
              have hmi : m ≠ i := fun e => hi (e ▸ ⟨q, hs⟩)
              refine Or.inl ⟨hs, ?_⟩
              show ((attachSt s4 j i a).nd m).oid = _
              rw [hoid5]; exact (st4.fields m hmi).2
            · show ((attachSt s4 j i a).nd i).oid = _ ∧ ((attachSt s4 j i a).nd i).type = _
              rw [hoid5, (x.fields_attach i).1, st4.ndi]; exact ⟨rfl, rfl⟩
            · intro q m hm
              rw [AttachCtx.res_with_idmap] at hm
              by_cases hp : (init ++ [a]) <+: q
              · obtain ⟨r, rfl⟩ := hp
                rw [x.res_attach_in] at hm
                exact Or.inr ((hsubeq m).1 ⟨r, hm⟩)
              · rw [x.res_attach_out q hp] at hm
                exact Or.inl (st4.shrink q m hm)
            · intro m
              show ((attachSt s4 j i a).nd m).oid = _
              rw [hoid5]; exact hoid_all m
            · have e1 : resFrom ({ attachSt s4 j i a with idmap := M' } : HC) i q = resFrom (attachSt s4 j i a) i q :=
                resFrom_congr (s := attachSt s4 j i a) (s' := { attachSt s4 j i a with idmap := M' }) q i (fun _ _ _ => rfl)
              exact e1.trans (by rw [x.resFrom_sub_attach, st4.subres])
          · rw [if_pos hdir] at hout
            subst hout
            exact ⟨st4.corePost hi, fun h => by simp at h, by simp⟩

end CS.HCache
