import Csverif.Proofs.HCache.DeleteRec
/- C19 helper lemmas, part 7: frames, detached subtrees, allocation. -/
namespace CS.HCache
open CS.Path
set_option linter.unusedSimpArgs false
set_option linter.unusedVariables false

/-! ### changing only unreachable nodes -/

theorem res_congr_reach {s s' : HC} (h : ∀ m, Reach s m → (s'.nd m).children = (s.nd m).children) (q : List Str) :
    res s' q = res s q :=
  resFrom_congr q 0 (fun r x hx => h x ⟨r, hx⟩)

/-- a state that agrees with a coherent one on all reachable nodes and on the id map is coherent -/
theorem Coherent.congr {c : Cfg} {s s' : HC} (hc : Coherent c s) (hlen : s.heap.length ≤ s'.heap.length)
    (hid : s'.idmap = s.idmap) (hnd : ∀ m, Reach s m → s'.nd m = s.nd m) : Coherent c s' := by
  have hres : ∀ q, res s' q = res s q := res_congr_reach (fun m hm => by rw [hnd m hm])
  have hreach : ∀ m, Reach s' m ↔ Reach s m := fun m =>
    ⟨fun ⟨q, hq⟩ => ⟨q, by rw [← hres]; exact hq⟩, fun ⟨q, hq⟩ => ⟨q, by rw [hres]; exact hq⟩⟩
  have h0 := hnd 0 (Reach.root s)
  refine ⟨Nat.lt_of_lt_of_le hc.root_valid hlen, by rw [h0]; exact hc.root_isRoot, by rw [h0]; exact hc.root_parent,
    by rw [h0]; exact hc.root_type, by rw [h0]; exact hc.root_name, by rw [h0]; exact hc.root_oid, ?_, ?_, ?_,
    by rw [hid]; exact hc.map_keys, ?_, ?_⟩
  · intro p k ch hp hm
    have hp' := (hreach p).1 hp
    rw [hnd p hp'] at hm ⊢
    have hch := hc.child hp' hm
    rw [hnd ch hch]
    have l := hc.link hp' hm
    exact ⟨Nat.lt_of_lt_of_le l.1 hlen, l.2⟩
  · intro p hp
    rw [hnd p ((hreach p).1 hp)]; exact hc.keys_nodup ((hreach p).1 hp)
  · intro p hp ht
    rw [hnd p ((hreach p).1 hp)] at ht ⊢; exact hc.file_leaf ((hreach p).1 hp) ht
  · intro o n h
    rw [hid] at h
    have := hc.map_sound h
    rw [hnd n this.1]
    exact ⟨(hreach n).2 this.1, this.2⟩
  · intro n o hn ho h0'
    have hn' := (hreach n).1 hn
    rw [hnd n hn'] at ho
    rw [hid]; exact hc.map_complete hn' ho h0'

/-! ### frames -/

/-- `s'` arises from `s` by operations that leave alone every node that was unreachable in `s` and is
    outside the exception set `E`, never make such a node reachable, and add no id-map entries
    except for nodes in `E` -/
structure FrameX (s s' : HC) (E : Nat → Prop) : Prop where
  len : s.heap.length ≤ s'.heap.length
  nd : ∀ m, m < s.heap.length → ¬ Reach s m → ¬ E m → s'.nd m = s.nd m
  reach : ∀ m, m < s.heap.length → Reach s' m → Reach s m ∨ E m
  ids : ∀ e, e ∈ s'.idmap → e ∈ s.idmap ∨ E e.2

theorem FrameX.refl (s : HC) (E : Nat → Prop) : FrameX s s E :=
  ⟨Nat.le_refl _, fun _ _ _ _ => rfl, fun _ _ h => Or.inl h, fun _ h => Or.inl h⟩

theorem FrameX.mono {s s' : HC} {E E' : Nat → Prop} (h : FrameX s s' E) (hE : ∀ m, E m → E' m) : FrameX s s' E' :=
  ⟨h.len, fun m a b c => h.nd m a b (fun e => c (hE m e)), fun m a b => (h.reach m a b).imp id (hE m),
   fun e he => (h.ids e he).imp id (hE e.2)⟩

theorem FrameX.trans {s s1 s2 : HC} {E : Nat → Prop} (h1 : FrameX s s1 E) (h2 : FrameX s1 s2 E) : FrameX s s2 E where
  len := Nat.le_trans h1.len h2.len
  nd := fun m hm hr hE => by
    have hm1 : m < s1.heap.length := Nat.lt_of_lt_of_le hm h1.len
    have hr1 : ¬ Reach s1 m := fun h => (h1.reach m hm h).elim hr hE
    rw [h2.nd m hm1 hr1 hE, h1.nd m hm hr hE]
  reach := fun m hm h => by
    have hm1 : m < s1.heap.length := Nat.lt_of_lt_of_le hm h1.len
    rcases h2.reach m hm1 h with a | a
    · exact h1.reach m hm a
    · exact Or.inr a
  ids := fun e he => by
    rcases h2.ids e he with a | a
    · exact h1.ids e a
    · exact Or.inr a

theorem DelPost.frameX {c : Cfg} {s s' : HC} (h : DelPost c s s') (E : Nat → Prop) : FrameX s s' E :=
  ⟨Nat.le_of_eq h.len.symm, fun m _ hr _ => h.frame m hr, fun m _ hm => Or.inl (h.reach hm), fun e he => Or.inl (h.idsub e he)⟩

/-! ### detached subtrees -/

/-- the subtree hanging off the unreachable node `i` is a well-formed tree none of whose nodes is
    reachable, with pairwise distinct truthy ids; the ids of the strict descendants are not in the
    id map -/
structure Sub (c : Cfg) (s : HC) (i : Nat) : Prop where
  valid : i < s.heap.length
  notRoot : (s.nd i).isRoot = false
  unreach : ∀ q m, resFrom s i q = some m → ¬ Reach s m
  link : ∀ q m k ch, resFrom s i q = some m → (k, ch) ∈ (s.nd m).children →
    ch < s.heap.length ∧ (s.nd ch).parent = some m ∧ (s.nd ch).name = k ∧ (s.nd ch).isRoot = false ∧
      NameOk c k ∧ ((s.nd ch).oid = none ∨ (s.nd ch).oid ≠ (s.nd m).oid)
  keys_nodup : ∀ q m, resFrom s i q = some m → (keys (s.nd m).children).Nodup
  file_leaf : ∀ q m, resFrom s i q = some m → (s.nd m).type = .file → (s.nd m).children = []
  inj : ∀ q1 q2 m, resFrom s i q1 = some m → resFrom s i q2 = some m → q1 = q2
  ids_inj : ∀ q1 q2 m1 m2 o, resFrom s i q1 = some m1 → resFrom s i q2 = some m2 →
    (s.nd m1).oid = some o → (s.nd m2).oid = some o → o ≠ 0 → m1 = m2
  ids_fresh : ∀ q m o, q ≠ [] → resFrom s i q = some m → (s.nd m).oid = some o → o ≠ 0 → dget s.idmap o = none

def InSub (s : HC) (i m : Nat) : Prop := ∃ r, resFrom s i r = some m

theorem resFrom_snoc (s : HC) (n : Nat) (q : List Str) (k : Str) :
    resFrom s n (q ++ [k]) = (resFrom s n q).bind (fun p => dget (s.nd p).children k) := by
  rw [resFrom_append]
  congr 1
  funext m
  simp only [resFrom]
  cases dget (s.nd m).children k <;> rfl

theorem Sub.valid_all {c : Cfg} {s : HC} {i : Nat} (h : Sub c s i) : ∀ q m, resFrom s i q = some m → m < s.heap.length := by
  intro q
  induction q using snoc_induction with
  | hnil => intro m hm; simp [resFrom] at hm; subst hm; exact h.valid
  | hsnoc init a ih =>
    intro m hm
    rw [resFrom_snoc] at hm
    cases hp : resFrom s i init with
    | none => simp [hp] at hm
    | some p =>
      simp only [hp, Option.bind_some] at hm
      exact (h.link init p a m hp (dget_mem hm)).1

theorem Sub.subOk {c : Cfg} {s : HC} {i : Nat} (h : Sub c s i) : SubOk s i :=
  fun q m hm => ⟨h.keys_nodup q m hm, h.file_leaf q m hm⟩

/-- generic pigeonhole: an injective resolution below `n` is shorter than the heap -/
theorem depth_lt_gen (s : HC) (n : Nat) (hinj : ∀ q1 q2 m, resFrom s n q1 = some m → resFrom s n q2 = some m → q1 = q2)
    (hvalid : ∀ q m, resFrom s n q = some m → m < s.heap.length) {q : List Str} {m : Nat} (h : resFrom s n q = some m) :
    q.length < s.heap.length := by
  have hpre : ∀ j, j ≤ q.length → ∃ x, resFrom s n (q.take j) = some x := by
    intro j _
    have : q = q.take j ++ q.drop j := (List.take_append_drop j q).symm
    rw [this, resFrom_append] at h
    cases hx : resFrom s n (q.take j) with
    | none => simp [hx] at h
    | some x => exact ⟨x, rfl⟩
  let f : Nat → Nat := fun j => (resFrom s n (q.take j)).getD 0
  apply inj_bound s.heap.length q.length f
  · intro j hj
    obtain ⟨x, hx⟩ := hpre j hj
    show (resFrom s n (q.take j)).getD 0 < _
    rw [hx]; exact hvalid _ _ hx
  · intro j1 j2 h1 h2 he
    obtain ⟨x, hx⟩ := hpre j1 h1
    obtain ⟨y, hy⟩ := hpre j2 h2
    simp only [f, hx, hy, Option.getD_some] at he
    subst he
    have := hinj _ _ _ hx hy
    have hl := congrArg List.length this
    simp only [List.length_take] at hl
    omega

theorem Sub.depth_lt {c : Cfg} {s : HC} {i : Nat} (h : Sub c s i) {q : List Str} {m : Nat} (hm : resFrom s i q = some m) :
    q.length < s.heap.length :=
  depth_lt_gen s i h.inj h.valid_all hm

/-- a detached subtree survives any frame whose exception set avoids it -/
theorem Sub.frame {c : Cfg} {s s' : HC} {i : Nat} {E : Nat → Prop} (h : Sub c s i) (hf : FrameX s s' E)
    (hE : ∀ m, InSub s i m → ¬ E m) (hids : ∀ e, e ∈ s'.idmap → e ∈ s.idmap) : Sub c s' i := by
  have hsame : ∀ m, InSub s i m → s'.nd m = s.nd m := fun m ⟨r, hr⟩ =>
    hf.nd m (h.valid_all r m hr) (h.unreach r m hr) (hE m ⟨r, hr⟩)
  have hres : ∀ q, resFrom s' i q = resFrom s i q := fun q =>
    resFrom_congr q i (fun r x hx => by rw [hsame x ⟨r, hx⟩])
  refine ⟨Nat.lt_of_lt_of_le h.valid hf.len, by rw [hsame i ⟨[], rfl⟩]; exact h.notRoot, ?_, ?_, ?_, ?_, ?_, ?_, ?_⟩
  · intro q m hm hr
    rw [hres] at hm
    rcases hf.reach m (h.valid_all q m hm) hr with a | a
    · exact h.unreach q m hm a
    · exact hE m ⟨q, hm⟩ a
  · intro q m k ch hm hmem
    rw [hres] at hm
    rw [hsame m ⟨q, hm⟩] at hmem ⊢
    have hch : InSub s i ch := ⟨q ++ [k], by rw [resFrom_snoc, hm]; exact dget_of_mem (h.keys_nodup q m hm) hmem⟩
    rw [hsame ch hch]
    have l := h.link q m k ch hm hmem
    exact ⟨Nat.lt_of_lt_of_le l.1 hf.len, l.2⟩
  · intro q m hm
    rw [hres] at hm; rw [hsame m ⟨q, hm⟩]; exact h.keys_nodup q m hm
  · intro q m hm ht
    rw [hres] at hm; rw [hsame m ⟨q, hm⟩] at ht ⊢; exact h.file_leaf q m hm ht
  · intro q1 q2 m h1 h2
    rw [hres] at h1 h2; exact h.inj q1 q2 m h1 h2
  · intro q1 q2 m1 m2 o h1 h2 o1 o2 h0
    rw [hres] at h1 h2
    rw [hsame m1 ⟨q1, h1⟩] at o1
    rw [hsame m2 ⟨q2, h2⟩] at o2
    exact h.ids_inj q1 q2 m1 m2 o h1 h2 o1 o2 h0
  · intro q m o hq hm ho h0
    rw [hres] at hm
    rw [hsame m ⟨q, hm⟩] at ho
    have := h.ids_fresh q m o hq hm ho h0
    rw [dget_none] at this ⊢
    intro hk
    obtain ⟨e, he, rfl⟩ := List.mem_map.1 hk
    exact this (List.mem_map.2 ⟨e, hids e he, rfl⟩)

/-! ### allocation -/

theorem alloc_run (n : Node) (s : HC) : alloc n s = ({ s with heap := s.heap ++ [n] }, .ok s.heap.length) := rfl

theorem nd_alloc (s : HC) (n : Node) (m : Nat) :
    ({ s with heap := s.heap ++ [n] } : HC).nd m = if m = s.heap.length then n else s.nd m := by
  simp only [HC.nd, List.getD_eq_getElem?_getD]
  by_cases h : m < s.heap.length
  · rw [List.getElem?_append_left h]; simp [Nat.ne_of_lt h]
  · by_cases h2 : m = s.heap.length
    · subst h2; simp
    · rw [List.getElem?_eq_none (by simp; omega), List.getElem?_eq_none (by omega)]; simp [h2]

theorem Coherent.alloc {c : Cfg} {s : HC} (hc : Coherent c s) (n : Node) :
    Coherent c { s with heap := s.heap ++ [n] } :=
  hc.congr (by simp) rfl (fun m hm => by
    rw [nd_alloc]
    have := hc.valid hm
    simp [Nat.ne_of_lt this])

theorem reach_alloc {c : Cfg} {s : HC} (hc : Coherent c s) (n : Node) (m : Nat) :
    Reach ({ s with heap := s.heap ++ [n] } : HC) m ↔ Reach s m := by
  have hres : ∀ q, res ({ s with heap := s.heap ++ [n] } : HC) q = res s q :=
    res_congr_reach (fun x hx => by rw [nd_alloc]; simp [Nat.ne_of_lt (hc.valid hx)])
  exact ⟨fun ⟨q, hq⟩ => ⟨q, by rw [← hres]; exact hq⟩, fun ⟨q, hq⟩ => ⟨q, by rw [hres]; exact hq⟩⟩

theorem res_alloc {c : Cfg} {s : HC} (hc : Coherent c s) (n : Node) (q : List Str) :
    res ({ s with heap := s.heap ++ [n] } : HC) q = res s q :=
  res_congr_reach (fun x hx => by rw [nd_alloc]; simp [Nat.ne_of_lt (hc.valid hx)]) q

/-- a freshly allocated childless node is a (trivial) detached subtree -/
theorem Sub.fresh {c : Cfg} {s : HC} (hc : Coherent c s) (n : Node) (hch : n.children = []) (hr : n.isRoot = false) :
    Sub c { s with heap := s.heap ++ [n] } s.heap.length := by
  have hnd : ({ s with heap := s.heap ++ [n] } : HC).nd s.heap.length = n := by rw [nd_alloc]; simp
  have hres : ∀ q m, resFrom ({ s with heap := s.heap ++ [n] } : HC) s.heap.length q = some m → q = [] ∧ m = s.heap.length := by
    intro q m h
    cases q with
    | nil => simp [resFrom] at h; exact ⟨rfl, h.symm⟩
    | cons k ks => simp [resFrom, hnd, hch, dget] at h
  refine ⟨by simp, by rw [hnd]; exact hr, ?_, ?_, ?_, ?_, ?_, ?_, ?_⟩
  · intro q m h hreach
    obtain ⟨_, rfl⟩ := hres q m h
    have := hc.valid ((reach_alloc hc n _).1 hreach)
    omega
  · intro q m k ch h hmem
    obtain ⟨_, rfl⟩ := hres q m h
    rw [hnd, hch] at hmem; simp at hmem
  · intro q m h
    obtain ⟨_, rfl⟩ := hres q m h
    rw [hnd, hch]; simp
  · intro q m h _
    obtain ⟨_, rfl⟩ := hres q m h
    rw [hnd]; exact hch
  · intro q1 q2 m h1 h2
    rw [(hres q1 m h1).1, (hres q2 m h2).1]
  · intro q1 q2 m1 m2 o h1 h2 _ _ _
    rw [(hres q1 m1 h1).2, (hres q2 m2 h2).2]
  · intro q m o hq h _ _
    exact absurd (hres q m h).1 hq

end CS.HCache
