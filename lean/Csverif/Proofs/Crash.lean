import Csverif.Model.Spec.Crash
/- helper lemmas for Props/C07.lean (effect-log checker of Model/Spec/Crash.lean) -/
namespace CS.Spec.Crash
set_option linter.unusedVariables false

/-! ### guards as propositions -/

theorem covered_iff (x : SideSt) (c : Nat) :
    x.covered c = true ↔ ∀ i, i ≤ c → i ≤ x.base ∨ i ∈ x.handled := by
  simp only [SideSt.covered, List.all_eq_true, List.mem_range, Bool.or_eq_true, decide_eq_true_eq,
    List.contains_iff_mem, Nat.lt_succ_iff]

theorem claimOk_iff (x : SideSt) (o : Option Nat) : x.claimOk o = true ↔ ∀ t, o = some t → t ∈ x.puts := by
  cases o with
  | none => simp [SideSt.claimOk]
  | some u => simp [SideSt.claimOk]

theorem cursorOkB_iff (x : SideSt) : x.cursorOkB = true ↔ x.CursorOk := by
  unfold SideSt.cursorOkB SideSt.CursorOk
  cases hw : x.walked <;> cases hc : x.cursor <;> simp [covered_iff]

theorem consistentB_iff (st : St) : consistentB st = true ↔ Consistent st := by
  simp only [consistentB, Bool.and_eq_true, List.all_eq_true, cursorOkB_iff, claimOk_iff, Consistent,
    Row.Reflected, and_assoc]

instance (st : St) : Decidable (Consistent st) := decidable_of_iff _ (consistentB_iff st)

/-! ### sides -/

@[simp] theorem side_false (st : St) : st.side false = st.l := rfl
@[simp] theorem side_true (st : St) : st.side true = st.r := rfl

@[simp] theorem setSide_rows (st : St) (s : Side) (x : SideSt) : (st.setSide s x).rows = st.rows := by
  cases s <;> rfl

@[simp] theorem setSide_next (st : St) (s : Side) (x : SideSt) : (st.setSide s x).next = st.next := by
  cases s <;> rfl

@[simp] theorem side_setSide (st : St) (s : Side) (x : SideSt) : (st.setSide s x).side s = x := by
  cases s <;> rfl

theorem side_setSide_ne (st : St) (s s' : Side) (x : SideSt) (h : s' ≠ s) : (st.setSide s x).side s' = st.side s' := by
  cases s <;> cases s' <;> simp_all [St.setSide, St.side]

theorem consistent_iff_sides (st : St) :
    Consistent st ↔ (∀ row ∈ st.rows, (∀ t, row.cl = some t → t ∈ (st.side false).puts) ∧
        (∀ t, row.cr = some t → t ∈ (st.side true).puts)) ∧ ∀ s, (st.side s).CursorOk := by
  simp only [Consistent, Row.Reflected, side_false, side_true, Bool.forall_bool]

/-! ### when an effect is accepted -/

theorem violation_rowCreate (st : St) (eid : Nat) (cl cr : Option Nat) :
    violation st (.rowCreate eid cl cr) = none ↔
      st.hasRow eid = false ∧ st.l.claimOk cl = true ∧ st.r.claimOk cr = true := by
  cases h1 : st.hasRow eid <;> cases h2 : st.l.claimOk cl <;> cases h3 : st.r.claimOk cr <;>
    simp [violation, h1, h2, h3]

theorem violation_rowUpdate (st : St) (eid : Nat) (cl cr : Option Nat) :
    violation st (.rowUpdate eid cl cr) = none ↔
      st.hasRow eid = true ∧ st.l.claimOk cl = true ∧ st.r.claimOk cr = true := by
  cases h1 : st.hasRow eid <;> cases h2 : st.l.claimOk cl <;> cases h3 : st.r.claimOk cr <;>
    simp [violation, h1, h2, h3]

theorem violation_cursorWrite (st : St) (s : Side) (c : Nat) :
    violation st (.cursorWrite s c) = none ↔ ((st.side s).walked = true → (st.side s).covered c = true) := by
  cases h1 : (st.side s).walked <;> cases h2 : (st.side s).covered c <;> simp [violation, h1, h2]

theorem violation_eventApplied (st : St) (s : Side) (i eid : Nat) :
    violation st (.eventApplied s i (some eid)) = none ↔ st.hasRow eid = true := by
  cases h1 : st.hasRow eid <;> simp [violation, h1]

theorem step_ok_iff (st st' : St) (e : Eff) : step st e = .ok st' ↔ violation st e = none ∧ st' = effect st e := by
  unfold step
  cases h : violation st e with
  | none => simp [eq_comm]
  | some m => simp

/-! ### running -/

theorem stepN_ok_iff (st st' : St) (x : NEff) :
    stepN st x = .ok st' ↔ x.n = st.next ∧ violation st x.e = none ∧ st' = { effect st x.e with next := st.next + 1 } := by
  unfold stepN
  by_cases hn : x.n = st.next
  · simp only [hn, bne_self_eq_false, Bool.false_eq_true, if_false, true_and]
    cases hs : step st x.e with
    | error m =>
      have : ¬ (violation st x.e = none) := by
        intro hv
        have := (step_ok_iff st (effect st x.e) x.e).2 ⟨hv, rfl⟩
        rw [hs] at this; cases this
      simp [this]
    | ok s2 =>
      obtain ⟨hv, rfl⟩ := (step_ok_iff _ _ _).1 hs
      simp [hv, eq_comm]
  · have : (x.n != st.next) = true := by simp [hn]
    simp [this, hn]

theorem run_nil (st : St) : run st [] = .ok st := rfl

theorem run_cons_ok_iff (st st' : St) (x : NEff) (xs : Log) :
    run st (x :: xs) = .ok st' ↔ ∃ s1, stepN st x = .ok s1 ∧ run s1 xs = .ok st' := by
  simp only [run]
  cases h : stepN st x with
  | error m => simp
  | ok s1 => simp

theorem run_append_ok_iff (st st' : St) (a b : Log) :
    run st (a ++ b) = .ok st' ↔ ∃ s1, run st a = .ok s1 ∧ run s1 b = .ok st' := by
  induction a generalizing st with
  | nil => simp [run_nil]
  | cons x xs ih =>
    simp only [List.cons_append, run_cons_ok_iff, ih]
    constructor
    · rintro ⟨s1, h1, s2, h2, h3⟩; exact ⟨s2, ⟨s1, h1, h2⟩, h3⟩
    · rintro ⟨s2, ⟨s1, h1, h2⟩, h3⟩; exact ⟨s1, h1, s2, h2, h3⟩

theorem check_iff (log : Log) : check log = true ↔ ∃ st, run St.init log = .ok st := by
  unfold check
  cases h : run St.init log with
  | error m => simp
  | ok st => simp

/-- the effect number counts the effects -/
theorem run_next (st st' : St) (log : Log) (h : run st log = .ok st') : st'.next = st.next + log.length := by
  induction log generalizing st with
  | nil => simp [run_nil] at h; subst h; simp
  | cons x xs ih =>
    obtain ⟨s1, h1, h2⟩ := (run_cons_ok_iff _ _ _ _).1 h
    obtain ⟨_, _, rfl⟩ := (stepN_ok_iff _ _ _).1 h1
    rw [ih _ h2]; simp; omega

/-! ### monotonicity of the history summary -/

theorem effect_puts_mono (st : St) (e : Eff) (s : Side) (t : Nat) (h : t ∈ (st.side s).puts) :
    t ∈ ((effect st e).side s).puts := by
  cases e with
  | rowCreate eid cl cr => cases s <;> simpa [effect, St.side] using h
  | rowUpdate eid cl cr => cases s <;> simpa [effect, St.side] using h
  | rowDelete eid => cases s <;> simpa [effect, St.side] using h
  | otherWrite => simpa [effect] using h
  | cursorWrite s' c =>
    by_cases hs : s = s'
    · subst hs; simpa [effect] using h
    · simpa [effect, side_setSide_ne _ _ _ _ hs] using h
  | walkWrite s' =>
    by_cases hs : s = s'
    · subst hs; simpa [effect] using h
    · simpa [effect, side_setSide_ne _ _ _ _ hs] using h
  | providerWrite s' eng put =>
    by_cases hs : s = s'
    · subst hs; simp [effect, h]
    · simpa [effect, side_setSide_ne _ _ _ _ hs] using h
  | eventApplied s' i row =>
    by_cases hs : s = s'
    · subst hs; simpa [effect] using h
    · simpa [effect, side_setSide_ne _ _ _ _ hs] using h

end CS.Spec.Crash
