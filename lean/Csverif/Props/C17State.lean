import Csverif.Proofs.SchedState
import Csverif.Props.C17
/-
C17, state level — the changeset is *derived* from the calls, and `SyncState.change` runs its
fill-in loop first.  Model: Model/Sched.lean (`St`, `applyOp`, `fillIn`, `changeFull`).

* `reachable_inv`            every state reached by any sequence of the modelled calls (events with or
                             without a path, attribute writes on sides with or without an id, mark_changed,
                             punt, priority writes, set_aged, finished, the fill-in loop) satisfies `Inv`:
                             an entry with a changed side that has an id is pending; a pending entry has a
                             changed side; the changeset holds existing entries only.
* `changeSt_sound`, `changeSt_complete`   the selection laws with the derived changeset: what is returned is a
                             pending entry with a real change; a notified change of an identified object that
                             has aged is never left waiting while nothing — or something less urgent — is returned.
* `changeFull_laws`          the selection laws hold for the table AFTER the fill-in loop.
* `fillIn_frame`, `fillIn_not_pending`   the fill-in loop touches only path-less sides whose `exists` is EXISTS or
                             UNKNOWN (and, through a priority that rises, change stamps of the same entry).
* `fillIn_inv`               … and keeps the invariant.
-/
namespace CS.Sched

/-! ## every call preserves the invariant -/

theorem setChanged_inv (st : St) (id : Nat) (s : Bool) (v : Option Rat) (h : Inv st) : Inv (setChanged st id s v) :=
  withE_inv st id _ (pres_setChangedA s v) h

theorem markChanged_inv (st : St) (s : Bool) (id : Nat) (now : Rat) (h : Inv st) : Inv (markChanged st s id now) := by
  simp only [markChanged]
  split
  · exact h
  · exact inv_last _ _ (withE_inv st id _ (pres_markA st.last now s) h)

theorem setPriority_inv (st : St) (id : Nat) (v : Rat) (h : Inv st) : Inv (setPriority st id v) :=
  withE_inv st id _ (pres_setPriorityA st.punt v) h

theorem opPunt_inv (st : St) (id : Nat) (h : Inv st) : Inv (opPunt st id) := by
  simp only [opPunt]
  cases hg : st.get? id with
  | none => rw [withE_none _ _ _ hg]; exact h
  | some e =>
    -- the new priority depends on the entry: same state as writing `e.priority + 1`
    have : st.withE id (fun e => setPriorityA st.punt e (e.priority + 1)) =
        st.withE id (fun x => setPriorityA st.punt x (e.priority + 1)) := by
      simp only [St.withE, hg]
    rw [this]
    exact withE_inv st id _ (pres_setPriorityA st.punt _) h

theorem opSyncPath_inv (st : St) (s : Bool) (id : Nat) (p : String) (h : Inv st) : Inv (opSyncPath st s id p) :=
  withE_inv st id _ (pres_fields _ (fun e => by simp) (fun e t => setSide_keep e s { e.side s with syncPath := some p } rfl rfl t)) h

theorem inv_ite (st : St) (c : Bool) (h : Inv st) : Inv (if c then { st with unmodelled := true } else st) := by
  cases c
  · exact h
  · exact inv_unmodelled _ _ h

theorem opAttach_inv (st : St) (s : Bool) (id : Nat) (oid path : String) (prio : Rat) (h : Inv st) :
    Inv (opAttach st s id oid path prio) := by
  simp only [opAttach]
  exact withE_inv _ id _ (pres_seq (pres_setOidA s oid) (pres_setPathA st.punt s path prio)) (inv_ite _ _ h)

theorem opUpdate_inv (st : St) (s : Bool) (oid : String) (path : Option String) (prio now : Rat) (h : Inv st) :
    Inv (opUpdate st s oid path prio now).1 := by
  cases hl : lookupOid st s oid with
  | some e0 =>
    simp only [opUpdate, hl]
    exact inv_last _ _ (withE_inv _ _ _ (pres_updateA st.punt st.last now s oid path prio) h)
  | none =>
    simp only [opUpdate, hl]
    exact inv_last _ _ (withE_inv _ _ _ (pres_updateA st.punt st.last now s oid path prio) (inv_append st h))

theorem opFinished_inv (dn : String → String) (st : St) (id : Nat) (h : Inv st) : Inv (opFinished dn st id) := by
  simp only [opFinished]
  cases hg : st.get? id with
  | none => exact h
  | some ent =>
    simp only
    split
    · exact h
    · rename_i hch
      simp only [Bool.or_eq_true, not_or, Bool.not_eq_true] at hch
      -- the rewritten table: priorities only
      have hgid : ∀ (P : List Nat) (pp : Rat × Rat) (x : Entry),
          (if P.contains x.id && (decide (x.priority > 0) && related dn ent x) then setPriorityE pp x 0 else x).id = x.id := by
        intro P pp x; split
        · exact setPriorityA_id _ _ _
        · rfl
      have hfields : ∀ (P : List Nat) (pp : Rat × Rat) (x : Entry) (t : Bool),
          ((if P.contains x.id && (decide (x.priority > 0) && related dn ent x) then setPriorityE pp x 0 else x).side t).changed
            = (x.side t).changed ∧
          ((if P.contains x.id && (decide (x.priority > 0) && related dn ent x) then setPriorityE pp x 0 else x).side t).oid
            = (x.side t).oid := by
        intro P pp x t
        split
        · rename_i hc
          simp only [Bool.and_eq_true, decide_eq_true_eq] at hc
          rw [setPriorityE_zero _ _ hc.2.1]
          cases t <;> exact ⟨rfl, rfl⟩
        · exact ⟨rfl, rfl⟩
      have hget : ∀ j, St.get? { st.act id [false] with ents := (st.act id [false]).ents.map (fun e =>
            if (st.act id [false]).pending.contains e.id && (decide (e.priority > 0) && related dn ent e)
            then setPriorityE (st.act id [false]).punt e 0 else e) } j
          = (st.get? j).map (fun e =>
            if (st.act id [false]).pending.contains e.id && (decide (e.priority > 0) && related dn ent e)
            then setPriorityE st.punt e 0 else e) := by
        intro j
        exact find?_map_id st.ents _ (hgid _ _) j
      refine ⟨?_, ?_, ?_⟩
      · intro x hx
        simp only [List.length_map]
        obtain ⟨y, hy, rfl⟩ := List.mem_map.1 hx
        show (if _ then _ else _ : Entry).id < _
        rw [hgid]
        exact h.ids y hy
      · intro j hj
        rw [hget]
        have := (mem_act st id j [false]).1 hj
        by_cases hji : j = id
        · subst hji; simp at this
        · simp only [hji, if_false] at this
          have := h.pend j this
          obtain ⟨e, he⟩ := Option.isSome_iff_exists.1 this
          simp [he]
      · intro j e he
        rw [hget] at he
        obtain ⟨e0, he0, rfl⟩ := Option.map_eq_some_iff.1 he
        show EInv _ (decide (j ∈ (st.act id [false]).pending))
        rw [decide_mem_act]
        apply EInv_congr (hfields _ _ e0)
        by_cases hji : j = id
        · subst hji
          rw [hg] at he0; cases he0
          simp only [if_true, lastAct_single]
          refine ⟨fun hh => ?_, fun hh => absurd hh (by simp)⟩
          rw [hasIdChange_sides] at hh
          obtain ⟨t, ht, _⟩ := hh
          cases t
          · rw [show (ent.side false).changed = ent.l.changed from rfl, hch.2] at ht; exact absurd ht (by simp)
          · rw [show (ent.side true).changed = ent.r.changed from rfl, hch.1] at ht; exact absurd ht (by simp)
        · simp only [hji, if_false]
          exact h.mem j e0 he0

/-! ## the fill-in loop -/

/-- the fold of the fill-in loop, without the membership check -/
def fillFold (orc : Oracle) (now : Rat) (ids : List Nat) (st : St) : St :=
  ids.foldl (fun acc id => acc.withE id (fun e => fillEntryA acc.punt now (orc id false) (orc id true) e)) st

theorem fillIn_eq (orc : Oracle) (now : Rat) (st : St) :
    fillIn orc now st =
      if (fillFold orc now st.pending st).pending != st.pending
      then { fillFold orc now st.pending st with unmodelled := true } else fillFold orc now st.pending st := rfl

theorem fillFold_inv (orc : Oracle) (now : Rat) (ids : List Nat) (st : St) (h : Inv st) :
    Inv (fillFold orc now ids st) := by
  induction ids generalizing st with
  | nil => exact h
  | cons id ids ih =>
    simp only [fillFold, List.foldl_cons]
    exact ih _ (withE_inv st id _ (pres_fillEntryA st.punt now _ _) h)

/-- the fill-in loop preserves the invariant -/
theorem fillIn_inv (orc : Oracle) (now : Rat) (st : St) (h : Inv st) : Inv (fillIn orc now st) := by
  rw [fillIn_eq]
  split
  · exact inv_unmodelled _ _ (fillFold_inv orc now _ st h)
  · exact fillFold_inv orc now _ st h

theorem fillFold_frame (orc : Oracle) (now : Rat) (ids : List Nat) (st : St) (j : Nat) (e : Entry)
    (h : st.get? j = some e) :
    ∃ e', (fillFold orc now ids st).get? j = some e' ∧ FillRel e e' ∧ (j ∉ ids → e' = e) := by
  induction ids generalizing st e with
  | nil => exact ⟨e, h, FillRel.refl e, fun _ => rfl⟩
  | cons id ids ih =>
    simp only [fillFold, List.foldl_cons]
    by_cases hji : j = id
    · subst hji
      have h1 := withE_get?_same st j (fun e => fillEntryA st.punt now (orc j false) (orc j true) e) e h
        (fillEntryA_id _ _ _ _ _)
      obtain ⟨e', he', hr, _⟩ := ih _ _ h1
      exact ⟨e', he', (fillEntryA_fillRel _ _ _ _ e).trans hr, fun hn => absurd List.mem_cons_self hn⟩
    · have h1 : (st.withE id (fun e => fillEntryA st.punt now (orc id false) (orc id true) e)).get? j = some e := by
        rw [withE_get?_other st id j _ (fun e => fillEntryA_id _ _ _ _ e) hji]; exact h
      obtain ⟨e', he', hr, hn⟩ := ih _ _ h1
      exact ⟨e', he', hr, fun hnot => hn (fun hm => hnot (List.mem_cons_of_mem _ hm))⟩

theorem get?_unmodelled (st : St) (b : Bool) (j : Nat) : ({ st with unmodelled := b } : St).get? j = st.get? j := rfl

/-- **the fill-in touches only path-less sides**: for every entry, ids and synced paths are kept; a
    side that has a path (or whose `exists` is neither EXISTS nor UNKNOWN) keeps everything except,
    possibly, its change stamp (shifted when the filled-in path raises the priority); an entry with
    two such sides is untouched -/
theorem fillIn_frame (orc : Oracle) (now : Rat) (st : St) (j : Nat) (e : Entry) (h : st.get? j = some e) :
    ∃ e', (fillIn orc now st).get? j = some e' ∧ FillRel e e' := by
  obtain ⟨e', he', hr, _⟩ := fillFold_frame orc now st.pending st j e h
  rw [fillIn_eq]
  split
  · exact ⟨e', by rw [get?_unmodelled]; exact he', hr⟩
  · exact ⟨e', he', hr⟩

/-- … and entries that are not pending are not looked at -/
theorem fillIn_not_pending (orc : Oracle) (now : Rat) (st : St) (j : Nat) (e : Entry) (h : st.get? j = some e)
    (hj : j ∉ st.pending) : (fillIn orc now st).get? j = some e := by
  obtain ⟨e', he', _, hn⟩ := fillFold_frame orc now st.pending st j e h
  rw [fillIn_eq]
  split
  · rw [get?_unmodelled, he', hn hj]
  · rw [he', hn hj]

/-- **the selection laws hold for the table after the fill-in loop** -/
theorem changeFull_laws (orc : Oracle) (st : St) (now age : Rat) :
    let st' := (changeFull orc st now age).1
    let r := (changeFull orc st now age).2
    st' = fillIn orc now st ∧
    r = pickFirstMin (st'.pendingEntries.filter (fun e => eligible e now age)) ∧
    (r = none ↔ ∀ e ∈ st'.pendingEntries, eligible e now age = false) ∧
    (∀ e, r = some e → e ∈ st'.pendingEntries ∧ eligible e now age = true ∧
      ∀ e' ∈ st'.pendingEntries, eligible e' now age = true → keyLt e' e = false) := by
  refine ⟨rfl, change_eq_pickFirstMin _ _ _, change_none_iff_no_eligible _ _ _, ?_⟩
  intro e he
  have h1 := change_returns_eligible _ now age e he
  exact ⟨h1.1, h1.2, fun e' he' hel => (change_minimal _ now age e he e' he' hel).1⟩

/-! ## folders -/

/-- a write to fields of side `s` other than its stamp and id -/
theorem pres_sideField (s : Bool) (g : Side → Side) (hc : ∀ x, (g x).changed = x.changed) (ho : ∀ x, (g x).oid = x.oid) :
    Pres (fun e : Entry => (e.setSide s (g (e.side s)), ([] : Acts))) :=
  pres_fields _ (fun e => by simp) (fun e t => setSide_keep e s _ (hc _) (ho _) t)

theorem kidStep_inv (recur : St → Nat → String → St) (oipS : Bool) (skip : List Nat) (s : Bool) (pp path : String)
    (acc : St) (sub0 : Entry) (hrec : ∀ a i p, Inv a → Inv (recur a i p)) (h : Inv acc) :
    Inv (kidStep recur oipS skip s pp path acc sub0) := by
  unfold kidStep
  split
  · exact h
  · cases hg : acc.get? sub0.id with
    | none => exact h
    | some sub =>
      simp only
      split
      · exact h
      · have h1 : ∀ np : String, Inv (if oipS = true then acc.withE sub.id (fun e => setOidA e s np) else acc) := by
          intro np; split
          · exact withE_inv acc sub.id _ (pres_setOidA s np) h
          · exact h
        split
        · rename_i srel _
          exact withE_inv _ sub.id _ (pres_sideField s (fun x => { x with syncPath := some (joinRel path srel) })
            (fun _ => rfl) (fun _ => rfl)) (hrec _ _ _ (h1 _))
        · exact hrec _ _ _ (h1 _)

theorem foldl_inv {α : Type} (g : St → α → St) (l : List α) (st : St) (hg : ∀ a x, Inv a → Inv (g a x)) (h : Inv st) :
    Inv (l.foldl g st) := by
  induction l generalizing st with
  | nil => exact h
  | cons x l ih => simp only [List.foldl_cons]; exact ih _ (hg _ _ h)

/-- a path change, with all the descendants it carries along, keeps the changeset invariant -/
theorem changePath_inv (cls : Cls) (oip : Bool × Bool) (fuel : Nat) :
    ∀ (moving : List Nat) (st : St) (id : Nat) (s : Bool) (path : String), Inv st →
      Inv (changePath cls oip fuel moving st id s path) := by
  induction fuel with
  | zero => intro moving st id s path h; exact inv_unmodelled st true h
  | succ fuel ih =>
    intro moving st id s path h
    simp only [changePath]
    cases hg : st.get? id with
    | none => exact h
    | some e =>
      simp only
      split
      · exact h
      · have h1 : Inv (st.withE id (fun e => (e.setSide s { e.side s with path := some path }, ([] : Acts)))) :=
          withE_inv st id _ (pres_sideField s (fun x => { x with path := some path }) (fun _ => rfl) (fun _ => rfl)) h
        split
        · exact h1
        · apply withE_inv _ id _ (pres_setPriorityA _ _)
          split
          · split
            · apply foldl_inv _ _ _ _ h1
              intro a x ha
              exact kidStep_inv _ _ _ _ _ _ _ _ (fun a' i p ha' => ih (id :: moving) a' i s p ha') ha
            · exact h1
          · exact h1

theorem opUpdateDir_inv (cls : Cls) (oip : Bool × Bool) (st : St) (s : Bool) (oid : String) (prior : Option String)
    (path : String) (now : Rat) (h : Inv st) : Inv (opUpdateDir cls oip st s oid prior path now).1 := by
  have step : ∀ (st0 : St) (id : Nat), Inv st0 →
      Inv ((changePath cls oip ((st0.withE id (fun e => setOidA (e.setSide s { e.side s with dir := true }) s oid)).ents.length + 1) []
            (st0.withE id (fun e => setOidA (e.setSide s { e.side s with dir := true }) s oid)) id s path).withE id (fun e =>
          if now != 0 then markA st.last now (e.setSide s { e.side s with
              ex := if (e.side s).ex == .trashed || (e.side s).ex == .likelyTrashed then .likelyTrashed else .exists }) s
          else (e.setSide s { e.side s with
              ex := if (e.side s).ex == .trashed || (e.side s).ex == .likelyTrashed then .likelyTrashed else .exists }, []))) := by
    intro st0 id h0
    have hdir : Pres (fun e : Entry => (e.setSide s { e.side s with dir := true }, ([] : Acts))) :=
      pres_sideField s (fun x => { x with dir := true }) (fun _ => rfl) (fun _ => rfl)
    have hex : Pres (fun e : Entry => (e.setSide s { e.side s with
        ex := if (e.side s).ex == .trashed || (e.side s).ex == .likelyTrashed then Ex.likelyTrashed else Ex.exists }, ([] : Acts))) :=
      pres_sideField s (fun x => { x with
        ex := if x.ex == .trashed || x.ex == .likelyTrashed then Ex.likelyTrashed else Ex.exists }) (fun _ => rfl) (fun _ => rfl)
    apply withE_inv
    · intro e
      by_cases hn : (now != 0) = true
      · simp only [hn, if_true]
        have := pres_seq hex (pres_markA st.last now s) e
        simpa [seqA] using this
      · simp only [hn, Bool.false_eq_true, if_false]
        exact hex e
    · apply changePath_inv
      apply withE_inv st0 id _ _ h0
      intro e
      have := pres_seq hdir (pres_setOidA s oid) e
      simpa [seqA] using this
  cases hf : dirTarget st s oid prior with
  | some e0 =>
    simp only [opUpdateDir, hf]
    exact inv_last _ _ (step _ _ h)
  | none =>
    simp only [opUpdateDir, hf]
    exact inv_last _ _ (step _ _ (inv_append_gen st _ rfl (einv_fresh_dir _) h))

/-! ## every reachable state -/

theorem applyOp_inv (dn : String → String) (st : St) (op : Op) (h : Inv st) : Inv (applyOp dn st op) := by
  cases op with
  | update s oid path prio now => exact opUpdate_inv st s oid path prio now h
  | attach s id oid path prio => exact opAttach_inv st s id oid path prio h
  | mark s id now => exact markChanged_inv st s id now h
  | punt id => exact opPunt_inv st id h
  | setprio id v => exact setPriority_inv st id v h
  | clear s id => exact setChanged_inv st id s _ h
  | setaged s id => exact setChanged_inv st id s _ h
  | syncpath s id p => exact opSyncPath_inv st s id p h
  | finished id => exact opFinished_inv dn st id h
  | fill orc now => exact fillIn_inv orc now st h
  | updateDir cls oip s oid prior path now => exact opUpdateDir_inv cls oip st s oid prior path now h

theorem inv_init (p : Rat × Rat) (last : Rat) : Inv { punt := p, last := last } :=
  ⟨fun _ h => absurd h (by simp), fun _ h => absurd h (by simp), fun _ _ h => by simp [St.get?] at h⟩

/-- the changeset is derived: in every state reached from a fresh `SyncState` by any sequence of the
    modelled calls, membership in the changeset is consistent with the entries' fields -/
theorem reachable_inv (dn : String → String) (p : Rat × Rat) (last : Rat) (ops : List Op) :
    Inv (runOps dn { punt := p, last := last } ops) := by
  suffices ∀ st, Inv st → Inv (runOps dn st ops) from this _ (inv_init p last)
  induction ops with
  | nil => exact fun _ h => h
  | cons op ops ih => exact fun st h => ih _ (applyOp_inv dn st op h)

/-! ## the selection laws over the derived changeset -/

theorem mem_pendingEntries (st : St) (e : Entry) :
    e ∈ st.pendingEntries ↔ ∃ j ∈ st.pending, st.get? j = some e := by
  simp [St.pendingEntries, List.mem_filterMap]

/-- what `change` returns in a reachable state is a pending, eligible entry that really carries a change -/
theorem changeSt_sound (st : St) (h : Inv st) (now age : Rat) (e : Entry) (hc : changeSt st now age = some e) :
    (∃ j ∈ st.pending, st.get? j = some e) ∧ anyChange e = true ∧ eligible e now age = true := by
  have h1 := change_returns_eligible _ now age e hc
  obtain ⟨j, hj, hg⟩ := (mem_pendingEntries st e).1 h1.1
  refine ⟨⟨j, hj, hg⟩, ?_, h1.2⟩
  have := (h.mem j e hg).2
  simpa [hj] using this

/-- nothing identified is forgotten: if some entry has a side with an id whose change was notified at
    least `age` ago, `change` returns an entry, and one at least as urgent -/
theorem changeSt_complete (st : St) (h : Inv st) (now age : Rat) (j : Nat) (e : Entry) (s : Bool)
    (hg : st.get? j = some e) (ho : truthyS (e.side s).oid = true)
    (haged : sideAged (e.side s).changed (now - age) = true) :
    ∃ e', changeSt st now age = some e' ∧
      (e'.priority < e.priority ∨ (e'.priority = e.priority ∧ keyTime e' ≤ keyTime e)) := by
  have hch : truthy (e.side s).changed = true := by
    simp only [sideAged, Bool.and_eq_true] at haged; exact haged.1
  have hid : hasIdChange e = true := (hasIdChange_sides e).2 ⟨s, hch, ho⟩
  have hjp : j ∈ st.pending := by simpa using (h.mem j e hg).1 hid
  have hmem : e ∈ st.pendingEntries := (mem_pendingEntries st e).2 ⟨j, hjp, hg⟩
  have hel : eligible e now age = true := by
    rw [eligible_iff]
    cases s
    · exact Or.inl haged
    · exact Or.inr (Or.inl haged)
  cases hc : changeSt st now age with
  | none =>
    have := (change_none_iff_no_eligible _ now age).1 hc e hmem
    rw [this] at hel; exact absurd hel (by simp)
  | some e' => exact ⟨e', rfl, (change_minimal _ now age e' hc e hmem hel).2⟩

/-- the hypotheses are satisfiable: a reachable state with one pending entry -/
example : ∃ st : St, Inv st ∧ st.pending = [0] :=
  ⟨runOps id { punt := (1/4, 1/4), last := 1000 } [.update false "L1" (some "/f") 0 1001],
   reachable_inv id _ _ _, by decide +kernel⟩

end CS.Sched
