import Csverif.Model.Resolver
/-
C05 — conflict-resolution contract: both sides end up with the resolver's answer.
Model: Model/Resolver.lean (answer handling of `__safe_call_resolver`, `resolve_conflict`,
`__resolver_merge_upload`, `hash_conflict`, the same-hash shortcut of `handle_split_conflict`).
One theorem per clause of the property; one clause is FALSE of the code and is kept as a comment with
kernel-checked witnesses (replayed on the real engine by harness/c05_resolver.py): merged data with
keep=True.  (Falsy non-None answers used to be a second one; repaired in /repo by commit <SHA_A>, the
full-strength `fallback_is_remote_wins_keep` is a theorem now.)
-/
namespace CS.Resolver
set_option linter.unusedVariables false
set_option linter.unusedSectionVars false

variable {α : Type} [DecidableEq α]

@[simp] theorem loc_beq_rem : (Side.loc == Side.rem) = false := by decide
@[simp] theorem rem_beq_loc : (Side.rem == Side.loc) = false := by decide
@[simp] theorem loc_bne_rem : (Side.loc != Side.rem) = true := by decide
@[simp] theorem rem_bne_loc : (Side.rem != Side.loc) = true := by decide
@[simp] theorem side_beq_self (s : Side) : (s == s) = true := by cases s <;> decide
@[simp] theorem side_bne_self (s : Side) : (s != s) = false := by cases s <;> decide
@[simp] theorem file_bne_dir : (OType.file != OType.dir) = true := by decide
@[simp] theorem dir_bne_dir : (OType.dir != OType.dir) = false := by decide

/-! ### when the resolver is called -/

/-- same-hash shortcut, either orientation: with an injective hash function on the replaced side and a
    current hash there, the silent merge happens exactly for identical contents -/
theorem same_hash_shortcut_iff {H : Type} [DecidableEq H] (hashOf : Side → α → H) (rs : Side)
    (hinj : ∀ a b, hashOf rs a = hashOf rs b → a = b) (cDefer cReplace : α) :
    splitDecision hashOf .file rs cDefer (some (hashOf rs cReplace)) = .mergeSilently ↔ cDefer = cReplace := by
  unfold splitDecision
  constructor
  · intro h
    by_cases hh : some (hashOf rs cDefer) = some (hashOf rs cReplace)
    · exact hinj _ _ (Option.some.inj hh)
    · simp [hh] at h
  · intro h; subst h; simp

/-- `SyncManager.sync` on a two-sided FILE entry (manager.py:377-380 → `handle_hash_conflict` → `split`
    → `handle_split_conflict` → `resolve_conflict` → `__safe_call_resolver`): is the application asked? -/
def entryCallsResolver (hashOf : Side → α → Nat) (l r : SideAbs) (cr : α) (b : Behaviour α) : Bool :=
  hashConflict l r &&
    (splitDecision hashOf .file splitSides.2 cr l.hash == .resolve) &&
    (safeCall splitSides.1 .file .file b).2

/-- "When (and only when) the same file has different unsynchronised content on both sides, the
    resolver is called; identical content is merged without calling it."  `hashConflict` is the
    engine's "unsynchronised on both sides"; the local hash is current (`hcur`); hashing is injective. -/
theorem resolver_called_iff_hash_conflict_and_differs (hashOf : Side → α → Nat)
    (hinj : ∀ a b, hashOf .loc a = hashOf .loc b → a = b) (l r : SideAbs) (cl cr : α)
    (hcur : l.hash = some (hashOf .loc cl)) (b : Behaviour α) :
    entryCallsResolver hashOf l r cr b = true ↔ (hashConflict l r = true ∧ cl ≠ cr) := by
  have hsc : (safeCall (α := α) .rem .file .file b).2 = true := by
    cases b with
    | raises => simp [safeCall]
    | raisesTemp => simp [safeCall]
    | returns v => simp only [safeCall]; cases validate v <;> simp
  have hsd := same_hash_shortcut_iff hashOf .loc hinj cr cl
  simp only [entryCallsResolver, hsc, Bool.and_true, Bool.and_eq_true, beq_iff_eq, splitSides, hcur]
  constructor
  · rintro ⟨hc, hd⟩
    refine ⟨hc, fun e => ?_⟩
    have := hsd.2 e.symm
    rw [this] at hd
    cases hd
  · rintro ⟨hc, hne⟩
    refine ⟨hc, ?_⟩
    cases hdec : splitDecision hashOf .file .loc cr (some (hashOf .loc cl)) with
    | resolve => rfl
    | mergeSilently => exact absurd (hsd.1 hdec).symm hne

/-- the predicate itself: a conflict needs both hashes and both paths present, and each side's hash
    different from its last synchronised hash -/
theorem hashConflict_iff (l r : SideAbs) :
    hashConflict l r = true ↔
      (truthy l.hash = true ∧ truthy r.hash = true ∧ truthy l.path = true ∧ truthy r.path = true ∧
        l.hash ≠ l.syncHash ∧ r.hash ≠ r.syncHash) := by
  unfold hashConflict
  by_cases h : (truthy l.hash && truthy r.hash && truthy l.path && truthy r.path) = true
  · simp only [h, if_true, Bool.and_eq_true, bne_iff_ne]
    simp only [Bool.and_eq_true] at h
    obtain ⟨⟨⟨h1, h2⟩, h3⟩, h4⟩ := h
    exact ⟨fun ⟨a, b⟩ => ⟨h1, h2, h3, h4, a, b⟩, fun ⟨_, _, _, _, a, b⟩ => ⟨a, b⟩⟩
  · simp only [h, Bool.false_eq_true, if_false, false_iff]
    rintro ⟨h1, h2, h3, h4, _, _⟩
    exact h (by simp [h1, h2, h3, h4])

/-- in the run model: the resolver is called at the first visit iff the two contents differ -/
theorem first_visit_calls_iff_differs (rf : Bool) (b : Behaviour α) (cl cr : α) :
    (episode rf b (initSt cl cr)).calls = if cl = cr then 0 else 1 := by
  by_cases h : cl = cr
  · simp [episode, initSt, h]
  · simp only [episode, initSt, h, if_false]
    cases hs : (safeCall (fileLikes (sideStates rf cl cr)).1.side (fileLikes (sideStates rf cl cr)).1.otype
        (fileLikes (sideStates rf cl cr)).2.otype b).1 with
    | reraised => simp
    | pair fh keep =>
      simp only
      split <;> simp

/-- identical content is merged without a call, and nothing is parked -/
theorem equal_content_merges_silently (rf : Bool) (bs : List (Behaviour α)) (b : Behaviour α) (c : α) :
    run rf (b :: bs) (initSt c c) =
      { pair := ⟨⟨some c, []⟩, ⟨some c, []⟩⟩, «open» := none, calls := 0, depth := 0 } := by
  have h1 : episode rf b (initSt c c) = { pair := ⟨⟨some c, []⟩, ⟨some c, []⟩⟩, «open» := none, calls := 0, depth := 0 } := by
    simp [episode, initSt]
  simp only [run, List.foldl_cons, h1]
  induction bs with
  | nil => rfl
  | cons x xs ih => simpa [episode] using ih

/-! ### the handles -/

/-- "two readable handles whose bytes and side labels are the actual contents of the two sides" -/
theorem handles_are_the_two_sides (ss : SS α × SS α) (hs : ss.2.side = ss.1.side.other) :
    let fhs := fileLikes ss
    fhs.1.side ≠ fhs.2.side ∧
      (∀ s, ∃ h, (h = fhs.1 ∨ h = fhs.2) ∧ h.side = s) ∧
      (fhs.1.side = ss.1.side ∧ fhs.1.bytes = ss.1.content) ∧ (fhs.2.side = ss.2.side ∧ fhs.2.bytes = ss.2.content) := by
  obtain ⟨⟨s1, t1, c1⟩, ⟨s2, t2, c2⟩⟩ := ss
  simp only at hs
  subst hs
  refine ⟨?_, ?_, ⟨rfl, rfl⟩, ⟨rfl, rfl⟩⟩
  · cases s1 <;> simp [fileLikes, Side.other]
  · intro s
    cases s1 <;> cases s <;> simp [fileLikes, Side.other]

/-- what the engine hands over at a visit: the handle labelled LOCAL carries the local content, the one
    labelled REMOTE the remote content, whichever comes first -/
theorem visit_handles (rf : Bool) (cl cr : α) :
    let fhs := fileLikes (sideStates rf cl cr)
    fhs.2.side = fhs.1.side.other ∧
      fhs.1.bytes = (if fhs.1.side = .loc then cl else cr) ∧ fhs.2.bytes = (if fhs.2.side = .loc then cl else cr) := by
  cases rf <;> simp [fileLikes, sideStates, Side.other]

/-! ### normalisation of the answer -/

/-- a well-formed answer: a 2-tuple whose first element is file-like (one of the handles, or new data) -/
def wellFormed : Behaviour α → Bool
  | .returns (.tuple n f k) => n == 2 && f != .notFile
  | _ => false

/-- the REMOTE handle's position -/
def remotePos (s0 : Side) : Bool := s0 != .rem

/-- "If it returns nothing, raises, or returns garbage, the remote version wins and the local one is kept":
    EVERY answer that is not well-formed and not a CloudTemporaryError — None, any exception, any non-tuple
    (falsy ones included: `0`, `False`, `""`, a bare handle of an empty file), tuples of any other length
    (the empty tuple included), 2-tuples whose first element is not file-like — is normalised to
    `(remote handle, keep=True)`, whatever the handle order. -/
theorem fallback_is_remote_wins_keep (s0 : Side) (b : Behaviour α) (h : wellFormed b = false) (ht : b ≠ .raisesTemp) :
    safeCall s0 .file .file b = (.pair (.handle (remotePos s0)) true, true) := by
  have hf : (fallback s0 : SafeRes α) = .pair (.handle (remotePos s0)) true := by
    cases s0 <;> simp [fallback, remotePos]
  cases b with
  | raises => simp [safeCall, hf]
  | raisesTemp => exact absurd rfl ht
  | returns v =>
    cases v with
    | none => simp [safeCall, validate, hf]
    | falsy => simp [safeCall, validate, hf]
    | truthyNonTuple => simp [safeCall, validate, hf]
    | tuple n f k =>
      by_cases h2 : n = 2
      · subst h2
        cases f with
        | notFile => simp [safeCall, validate, hf]
        | handle i => simp [wellFormed] at h
        | data d => simp [wellFormed] at h
      · simp [safeCall, validate, h2, hf]

/-- ... and a well-formed answer is passed through untouched -/
theorem well_formed_passes (s0 : Side) (f : First α) (k : Bool) (hf : f ≠ .notFile) :
    ∃ c, safeCall s0 .file .file (.returns (.tuple 2 f k)) = (.pair c k, true) ∧
      (match f with | .handle i => c = .handle i | .data d => c = .data d | .notFile => False) := by
  cases f with
  | notFile => exact absurd rfl hf
  | handle i => exact ⟨.handle i, by simp [safeCall, validate], rfl⟩
  | data d => exact ⟨.data d, by simp [safeCall, validate], rfl⟩

/-- the repaired finding `falsy-answer-never-resolved`, as instances: falsy values and the empty tuple fall back,
    for both handle orders (kernel-checked; the real function is replayed on the same values on every run) -/
theorem falsy_answer_falls_back :
    safeCall (α := Nat) .rem .file .file (.returns .falsy) = (.pair (.handle false) true, true) ∧
    safeCall (α := Nat) .loc .file .file (.returns .falsy) = (.pair (.handle true) true, true) ∧
    safeCall (α := Nat) .rem .file .file (.returns (.tuple 0 .notFile false)) = (.pair (.handle false) true, true) := by
  decide

/-- folder against file: the folder's handle with keep=True, and the application is NOT asked,
    whatever it would have answered -/
theorem folder_beats_file (s0 : Side) (t0 t1 : OType) (b : Behaviour α) (h : t0 ≠ t1) :
    safeCall s0 t0 t1 b = (.pair (.handle (t0 != .dir)) true, false) := by
  cases t0 <;> cases t1 <;> simp_all [safeCall]

/-- ... and its effect: the file is parked under a '.conflicted' name on its own side and the folder
    is propagated (content `cd` stands for "a folder") -/
theorem folder_beats_file_outcome (s0 : Side) (cd cf : α) :
    let p : Pair α := (Pair.set (Pair.set ⟨⟨none, []⟩, ⟨none, []⟩⟩ s0 ⟨some cd, []⟩) s0.other ⟨some cf, []⟩)
    let r := resolveStep p s0 cd cf (.handle false) true
    settle r.1 r.2 = Pair.set (Pair.set ⟨⟨none, []⟩, ⟨none, []⟩⟩ s0 ⟨some cd, []⟩) s0.other ⟨some cd, [cf]⟩ := by
  cases s0 <;> simp [resolveStep, replaceLoser, settle, Pair.set, Pair.get, Side.other, Chosen.bytes]

/-! ### outcomes -/

def Pair.content (p : Pair α) (s : Side) : Option α := (p.get s).main
def Pair.parked (p : Pair α) (s : Side) : List α := (p.get s).conf

/-- content of a side -/
def sideContent (cl cr : α) : Side → α
  | .loc => cl
  | .rem => cr

/-- "If it returns one handle, both sides end with that content and the other version is kept as a
    '.conflicted' sibling exactly when keep is true" — one call, settled, for either handle order -/
theorem pick_side_outcome (rf : Bool) (cl cr : α) (h : cl ≠ cr) (side : Side) (keep : Bool) :
    let st := outcome rf cl cr 0 (.pick side keep)
    st.«open» = none ∧ st.calls = 1 ∧
      st.pair.content .loc = some (sideContent cl cr side) ∧ st.pair.content .rem = some (sideContent cl cr side) ∧
      st.pair.parked side = [] ∧
      st.pair.parked side.other = (if keep then [sideContent cl cr side.other] else []) := by
  cases rf <;> cases side <;> cases keep <;>
    simp [outcome, run, episode, initSt, h, Answer.toBehaviour, safeCall, validate, fileLikes, sideStates,
      resolveStep, replaceLoser, settle, Pair.set, Pair.get, Side.other, Chosen.bytes, Pair.content, Pair.parked, sideContent]

/-- "if it returns new merged data with keep false both sides end with the merged data" -/
theorem merged_no_keep_outcome (rf : Bool) (cl cr m : α) (h : cl ≠ cr) :
    outcome rf cl cr 0 (.merged m false) =
      { pair := ⟨⟨some m, []⟩, ⟨some m, []⟩⟩, «open» := none, calls := 1, depth := 0 } := by
  cases rf <;>
    simp [outcome, run, episode, initSt, h, Answer.toBehaviour, safeCall, validate, fileLikes, sideStates,
      resolveStep, replaceLoser, settle, Pair.set, Pair.get, Side.other, Chosen.bytes]

/-- the answers that fall back, indexed by side: everything but a pick, merged data (and a 2-tuple spelled as `wrongLen 2`) -/
def Answer.isGarbage : Answer α → Bool
  | .none | .raises | .falsy | .nonTuple | .notFile _ => true
  | .wrongLen n => true
  | _ => false

/-- "if it returns nothing, raises, or returns garbage, the remote version wins and the local one is
    kept as '.conflicted'": one call, settled, whatever the handle order -/
theorem fallback_outcome (rf : Bool) (cl cr : α) (h : cl ≠ cr) (a : Answer α) (hg : a.isGarbage = true) :
    outcome rf cl cr 0 a =
      { pair := ⟨⟨some cr, [cl]⟩, ⟨some cr, []⟩⟩, «open» := none, calls := 1, depth := 0 } := by
  have key : ∀ b : Behaviour α, wellFormed b = false → b ≠ .raisesTemp →
      run rf [b] (initSt cl cr) = { pair := ⟨⟨some cr, [cl]⟩, ⟨some cr, []⟩⟩, «open» := none, calls := 1, depth := 0 } := by
    intro b hb ht
    cases rf <;>
      simp [run, episode, initSt, h, fileLikes, sideStates, fallback_is_remote_wins_keep _ b hb ht, remotePos,
        resolveStep, replaceLoser, settle, Pair.set, Pair.get, Side.other, Chosen.bytes]
  cases a with
  | pick s k => simp [Answer.isGarbage] at hg
  | merged d k => simp [Answer.isGarbage] at hg
  | falsy => exact key _ rfl (by simp [Answer.toBehaviour])
  | none => exact key _ rfl (by simp [Answer.toBehaviour])
  | raises => exact key _ rfl (by simp [Answer.toBehaviour])
  | nonTuple => exact key _ rfl (by simp [Answer.toBehaviour])
  | notFile k => exact key _ (by simp [wellFormed, Answer.toBehaviour]) (by simp [Answer.toBehaviour])
  | wrongLen n => exact key _ (by simp [wellFormed, Answer.toBehaviour]) (by simp [Answer.toBehaviour])

/-- the handle order the engine happens to use does not matter (for every answer, with retries) -/
theorem outcome_order_independent (cl cr : α) (temp : Nat) (a : Answer α) :
    outcome true cl cr temp a = outcome false cl cr temp a := by
  by_cases h : cl = cr
  · subst h
    cases temp with
    | zero => simp [outcome, equal_content_merges_silently]
    | succ k => simp [outcome, List.replicate_succ, equal_content_merges_silently]
  · have tmp : ∀ (rf : Bool) (k : Nat), episode rf .raisesTemp ({ initSt cl cr with calls := k } : St α)
        = { initSt cl cr with calls := k + 1 } := by
      intro rf k
      cases rf <;> simp [episode, initSt, h, safeCall, fileLikes, sideStates]
    have gen : ∀ (rf : Bool) (n k : Nat) (bs : List (Behaviour α)),
        run rf (List.replicate n .raisesTemp ++ bs) ({ initSt cl cr with calls := k } : St α)
          = run rf bs { initSt cl cr with calls := k + n } := by
      intro rf n
      induction n with
      | zero => intro k bs; rfl
      | succ m ih =>
        intro k bs
        simp only [run, List.replicate_succ, List.cons_append, List.foldl_cons, tmp rf k]
        have := ih (k + 1) bs
        simp only [run] at this
        rw [this]
        congr 2
        omega
    have e1 := gen true temp 0 [a.toBehaviour true]
    have e2 := gen false temp 0 [a.toBehaviour false]
    have i0 : ({ initSt cl cr with calls := 0 } : St α) = initSt cl cr := rfl
    rw [i0] at e1 e2
    simp only [outcome, e1, e2]
    cases a with
    | pick s k =>
      cases s <;> cases k <;>
        simp [run, episode, initSt, h, Answer.toBehaviour, safeCall, validate, fileLikes, sideStates,
          resolveStep, replaceLoser, settle, Pair.set, Pair.get, Side.other, Chosen.bytes]
    | merged d k =>
      cases k <;>
        simp [run, episode, initSt, h, Answer.toBehaviour, safeCall, validate, fileLikes, sideStates,
          resolveStep, replaceLoser, settle, Pair.set, Pair.get, Side.other, Chosen.bytes]
    | none => simp [run, episode, initSt, h, Answer.toBehaviour, safeCall, validate, fileLikes, sideStates,
          resolveStep, replaceLoser, settle, Pair.set, Pair.get, Side.other, Chosen.bytes, fallback]
    | raises => simp [run, episode, initSt, h, Answer.toBehaviour, safeCall, validate, fileLikes, sideStates,
          resolveStep, replaceLoser, settle, Pair.set, Pair.get, Side.other, Chosen.bytes, fallback]
    | falsy => simp [run, episode, initSt, h, Answer.toBehaviour, safeCall, validate, fileLikes, sideStates,
          resolveStep, replaceLoser, settle, Pair.set, Pair.get, Side.other, Chosen.bytes, fallback]
    | nonTuple => simp [run, episode, initSt, h, Answer.toBehaviour, safeCall, validate, fileLikes, sideStates,
          resolveStep, replaceLoser, settle, Pair.set, Pair.get, Side.other, Chosen.bytes, fallback]
    | notFile k => simp [run, episode, initSt, h, Answer.toBehaviour, safeCall, validate, fileLikes, sideStates,
          resolveStep, replaceLoser, settle, Pair.set, Pair.get, Side.other, Chosen.bytes, fallback]
    | wrongLen n =>
      by_cases h0 : n = 0
      · subst h0
        simp [run, episode, initSt, h, Answer.toBehaviour, safeCall, validate, fileLikes, sideStates,
          resolveStep, replaceLoser, settle, Pair.set, Pair.get, Side.other, Chosen.bytes, fallback]
      · by_cases h2 : n = 2
        · subst h2
          simp [run, episode, initSt, h, Answer.toBehaviour, safeCall, validate, fileLikes, sideStates,
            resolveStep, replaceLoser, settle, Pair.set, Pair.get, Side.other, Chosen.bytes, fallback]
        · simp [run, episode, initSt, h, h0, h2, Answer.toBehaviour, safeCall, validate, fileLikes, sideStates,
            resolveStep, replaceLoser, settle, Pair.set, Pair.get, Side.other, Chosen.bytes, fallback]

/-- the call counter is a pure counter: shifting it commutes with a visit -/
theorem episode_calls_shift (rf : Bool) (b : Behaviour α) (st : St α) (k : Nat) :
    episode rf b { st with calls := st.calls + k } = { episode rf b st with calls := (episode rf b st).calls + k } := by
  obtain ⟨pair, op, calls, depth⟩ := st
  cases op with
  | none => simp [episode]
  | some c =>
    obtain ⟨cl, cr⟩ := c
    simp only [episode]
    by_cases h : cl = cr
    · simp [h]
    · simp only [h, if_false]
      cases (safeCall (fileLikes (sideStates rf cl cr)).1.side (fileLikes (sideStates rf cl cr)).1.otype
          (fileLikes (sideStates rf cl cr)).2.otype b).1 with
      | reraised => simp; omega
      | pair fh keep =>
        simp only
        split <;> simp <;> omega

theorem episode_temp (rf : Bool) (cl cr : α) (h : cl ≠ cr) (k : Nat) :
    episode rf .raisesTemp ({ initSt cl cr with calls := k } : St α) = { initSt cl cr with calls := k + 1 } := by
  cases rf <;> simp [episode, initSt, h, safeCall, fileLikes, sideStates]

theorem run_temp_prefix (rf : Bool) (cl cr : α) (h : cl ≠ cr) (n : Nat) :
    ∀ (k : Nat) (bs : List (Behaviour α)),
      run rf (List.replicate n .raisesTemp ++ bs) ({ initSt cl cr with calls := k } : St α)
        = run rf bs { initSt cl cr with calls := k + n } := by
  induction n with
  | zero => intro k bs; rfl
  | succ m ih =>
    intro k bs
    simp only [run, List.replicate_succ, List.cons_append, List.foldl_cons, episode_temp rf cl cr h k]
    have := ih (k + 1) bs
    simp only [run] at this
    rw [this]
    congr 2
    omega

/-- CloudTemporaryError from the resolver is a retry: `k` such visits cost `k` calls and change nothing else -/
theorem temp_is_retry (rf : Bool) (cl cr : α) (h : cl ≠ cr) (k : Nat) (a : Answer α) :
    outcome rf cl cr k a = { outcome rf cl cr 0 a with calls := (outcome rf cl cr 0 a).calls + k } := by
  have e := run_temp_prefix rf cl cr h k 0 [a.toBehaviour rf]
  have i0 : ({ initSt cl cr with calls := 0 } : St α) = initSt cl cr := rfl
  rw [i0] at e
  simp only [outcome, e, List.replicate_zero, List.nil_append]
  have s := episode_calls_shift rf (a.toBehaviour rf) (initSt cl cr) k
  simp only [run, List.foldl_cons, List.foldl_nil]
  have i1 : ({ initSt cl cr with calls := (initSt cl cr).calls + k } : St α) = { initSt cl cr with calls := 0 + k } := rfl
  rw [i1] at s
  exact s

/-! ### merged data with keep = True -/

/- FALSE of the pinned engine (kept for the record): "merged data with keep=True: both sides end with the
   merged data, each side keeps its own old version as a '.conflicted' sibling, one call":
theorem merged_keep_outcome (rf : Bool) (cl cr m : α) (h : cl ≠ cr) :
    ∃ n, (run rf (List.replicate n ((Answer.merged m true).toBehaviour rf)) (initSt cl cr)).«open» = none
   `__resolver_merge_upload` creates the merged file on both sides and leaves the two renamed originals
   untracked under the same '.conflicted' name with different contents: a new conflict, one level deeper,
   between the same two contents — for ever. -/

/-- one visit with (merged, keep=True) on an open conflict whose path is occupied on both sides -/
theorem merged_keep_episode (rf : Bool) (cl cr m : α) (h : cl ≠ cr) (st : St α) (xl xr : α)
    (ho : st.«open» = some (cl, cr)) (hl : st.pair.loc.main = some xl) (hr : st.pair.rem.main = some xr) :
    episode rf ((Answer.merged m true).toBehaviour rf) st =
      { pair := ⟨⟨some m, st.pair.loc.conf ++ [xl]⟩, ⟨some m, st.pair.rem.conf ++ [xr]⟩⟩, «open» := some (cl, cr),
        calls := st.calls + 1, depth := st.depth + 1 } := by
  obtain ⟨⟨⟨ml, cfl⟩, ⟨mr, cfr⟩⟩, op, calls, depth⟩ := st
  simp only at ho hl hr
  subst ho; subst hl; subst hr
  cases rf <;>
    simp [episode, h, Answer.toBehaviour, safeCall, validate, fileLikes, sideStates,
      resolveStep, replaceLoser, Pair.set, Pair.get, Side.other, Chosen.bytes]

/-- after n visits: still open on the same two contents, n calls, n levels deep, and n parked copies on each side -/
theorem merged_keep_never_settles (rf : Bool) (cl cr m : α) (h : cl ≠ cr) (n : Nat) :
    let st := run rf (List.replicate n ((Answer.merged m true).toBehaviour rf)) (initSt cl cr)
    st.«open» = some (cl, cr) ∧ st.calls = n ∧ st.depth = n ∧
      st.pair.loc.conf.length = n ∧ st.pair.rem.conf.length = n := by
  have gen : ∀ (n : Nat) (st : St α), st.«open» = some (cl, cr) → st.pair.loc.main.isSome = true → st.pair.rem.main.isSome = true →
      let st' := run rf (List.replicate n ((Answer.merged m true).toBehaviour rf)) st
      st'.«open» = some (cl, cr) ∧ st'.calls = st.calls + n ∧ st'.depth = st.depth + n ∧
        st'.pair.loc.conf.length = st.pair.loc.conf.length + n ∧ st'.pair.rem.conf.length = st.pair.rem.conf.length + n := by
    intro n
    induction n with
    | zero => intro st ho _ _; simp [run, ho]
    | succ k ih =>
      intro st ho hl hr
      obtain ⟨xl, hxl⟩ := Option.isSome_iff_exists.1 hl
      obtain ⟨xr, hxr⟩ := Option.isSome_iff_exists.1 hr
      have e := merged_keep_episode rf cl cr m h st xl xr ho hxl hxr
      simp only [run, List.replicate_succ, List.foldl_cons, e]
      have := ih { pair := ⟨⟨some m, st.pair.loc.conf ++ [xl]⟩, ⟨some m, st.pair.rem.conf ++ [xr]⟩⟩, «open» := some (cl, cr),
                   calls := st.calls + 1, depth := st.depth + 1 } rfl rfl rfl
      simp only [run, List.length_append, List.length_cons, List.length_nil] at this
      obtain ⟨a1, a2, a3, a4, a5⟩ := this
      refine ⟨a1, ?_, ?_, ?_, ?_⟩ <;> omega
  have := gen n (initSt cl cr) rfl rfl rfl
  simpa [initSt] using this

/-- the clause as the documentation promises it is false -/
theorem merged_keep_outcome_false (rf : Bool) (cl cr m : α) (h : cl ≠ cr) :
    ¬ ∃ n, (run rf (List.replicate n ((Answer.merged m true).toBehaviour rf)) (initSt cl cr)).«open» = none := by
  rintro ⟨n, hn⟩
  have := (merged_keep_never_settles rf cl cr m h n).1
  rw [hn] at this
  cases this

/-- kernel-checked instance (the replayed one: six visits, six calls, six nested copies) -/
theorem merged_keep_witness :
    let st := run true (List.replicate 6 ((Answer.merged 3 true).toBehaviour true)) (initSt 1 2)
    st.«open» = some (1, 2) ∧ st.calls = 6 ∧ st.pair.loc.conf = [1, 3, 3, 3, 3, 3] ∧ st.pair.rem.conf = [2, 3, 3, 3, 3, 3] ∧
      st.pair.loc.main = some 3 := by
  decide

/-! ### the monitor's contract pins the outcome -/

/-- what acceptance means, clause by clause -/
theorem contract_ok (o : Obs) (h : contract o = .ok) :
    (expected o).«open» = none ∧ o.quiet = true ∧ callCountOk (expected o).calls o.faults o.calls.length = true ∧
      o.calls.all callOk = true ∧ (o.faults = 0 → lastCallOk o.cl o.cr o.calls = true) ∧
      o.l.main = (expected o).pair.loc.main ∧ o.r.main = (expected o).pair.rem.main ∧
      o.l.conf.length ≤ 1 ∧ o.r.conf.length ≤ 1 ∧
      sameSet (o.l.conf ++ o.r.conf) ((expected o).pair.loc.conf ++ (expected o).pair.rem.conf) = true := by
  unfold contract at h
  simp only at h
  split at h
  · cases h
  · split at h
    · cases h
    · split at h
      · cases h
      · split at h
        · cases h
        · split at h
          · cases h
          · split at h
            · cases h
            · split at h
              · cases h
              · split at h
                · cases h
                · split at h
                  · cases h
                  · rename_i h1 h2 h3 h4 h4b h5 h6 h7 h8
                    simp only [Bool.not_eq_true, Bool.not_eq_false, bne_iff_ne, ne_eq, Decidable.not_not, Bool.or_eq_true,
                      decide_eq_true_eq, not_or, Nat.not_lt, Bool.not_eq_eq_eq_not, Bool.not_true, Bool.not_false,
                    Option.isSome_eq_false_iff, Option.isNone_iff_eq_none] at h1 h2 h3 h4 h4b h5 h6 h7 h8
                    refine ⟨by simpa using h1, by simpa using h2, by simpa using h3, by simpa using h4, ?_,
                      by simpa using h5, by simpa using h6, h7.1, h7.2, by simpa using h8⟩
                    intro hf
                    rcases h4b with h | h
                    · exact absurd hf (by simpa using h)
                    · exact h

theorem sameSet_iff (a b : List Nat) : sameSet a b = true ↔ ∀ x, x ∈ a ↔ x ∈ b := by
  simp only [sameSet, Bool.and_eq_true, List.all_eq_true, List.contains_iff_mem]
  exact ⟨fun ⟨h1, h2⟩ x => ⟨h1 x, h2 x⟩, fun h => ⟨fun x hx => (h x).1 hx, fun x hx => (h x).2 hx⟩⟩

/-- the expected state does not depend on the handle order observed -/
theorem expected_indep (o1 o2 : Obs) (hb : o1.base = o2.base) (hl : o1.cl = o2.cl) (hr : o1.cr = o2.cr)
    (ht : o1.temp = o2.temp) (ha : o1.ans = o2.ans) : expected o1 = expected o2 := by
  unfold expected
  rw [hb, hl, hr, ht, ha]
  have key : ∀ x y : Bool, outcome x o2.cl o2.cr o2.temp o2.ans = outcome y o2.cl o2.cr o2.temp o2.ans := by
    intro x y
    cases x <;> cases y <;> first | rfl | exact outcome_order_independent _ _ _ _ | exact (outcome_order_independent _ _ _ _).symm
  split <;> first | rfl | exact key _ _

/-- two accepted runs on the same inputs end with the same content at the path on each side and the same
    set of parked versions: "the outcome never depends on how engine steps interleave" is what acceptance means -/
theorem contract_determines_outcome (o1 o2 : Obs) (hb : o1.base = o2.base) (hl : o1.cl = o2.cl) (hr : o1.cr = o2.cr)
    (ht : o1.temp = o2.temp) (ha : o1.ans = o2.ans) (h1 : contract o1 = .ok) (h2 : contract o2 = .ok) :
    o1.l.main = o2.l.main ∧ o1.r.main = o2.r.main ∧
      sameSet (o1.l.conf ++ o1.r.conf) (o2.l.conf ++ o2.r.conf) = true ∧
      (o1.faults = 0 → o2.faults = 0 → o1.calls.length = o2.calls.length) := by
  have e := expected_indep o1 o2 hb hl hr ht ha
  obtain ⟨_, _, c1, _, _, l1, r1, _, _, s1⟩ := contract_ok o1 h1
  obtain ⟨_, _, c2, _, _, l2, r2, _, _, s2⟩ := contract_ok o2 h2
  rw [e] at c1 l1 r1 s1
  refine ⟨l1.trans l2.symm, r1.trans r2.symm, ?_, ?_⟩
  · rw [sameSet_iff] at s1 s2 ⊢
    intro x
    exact (s1 x).trans (s2 x).symm
  · intro f1 f2
    rw [f1] at c1
    rw [f2] at c2
    simp only [callCountOk, Bool.and_eq_true, decide_eq_true_eq] at c1 c2
    have a1 : (if (expected o2).calls = 0 then 0 else 0) = 0 := by split <;> rfl
    omega

/-- the hypotheses are satisfiable: a concrete accepted observation (pick local, keep) -/
example : contract { base := none, cl := 1, cr := 2, temp := 0, ans := .pick .loc true, faults := 0,
                     calls := [⟨.rem, .loc, some 2, some 1, true, 1, 2⟩], quiet := true,
                     l := ⟨some 1, []⟩, r := ⟨some 1, [2]⟩ } = .ok := by decide

example : hashConflict ⟨some 5, some 4, some 1⟩ ⟨some 6, some 4, some 1⟩ = true := by decide

end CS.Resolver
