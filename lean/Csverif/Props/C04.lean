import Csverif.Props.C01
/-
C04 — non-conflicting concurrent changes merge exactly: the reference semantics `applyOp`
(Model/Spec/Sync.lean) of user operations on disjoint objects is order independent, so the tree the
monitor (op `c04`) expects, `mergeExpected base opsL opsR`, does not depend on the side order nor on
how the two sides' operations were interleaved in real time.

Shape of the result.  For a *single* pair of disjoint operations the two orders give the same lookup
function with no hypothesis on the tree at all (`applyOp_comm`); the trees themselves are equal up
to the order of their entries (`applyOp_comm_perm`).  For *sequences* the entry-order form lifts
unconditionally (`applyOps_comm_seq_perm`, `merge_order_independent_perm`); the lookup form needs
the expected tree to have unique paths (`Tree.WF`), because on a tree that lists a path twice a
rename's result depends on the entry order (`rename_not_congr_get`).  `Valid` is the decidable
precondition under which operations keep paths unique (`applyOps_WF`): the destination of a rename
is free.
-/
namespace CS.Spec
set_option linter.unusedVariables false

/-! ### one operation -/

/-- an operation does not change the lookup at a path unrelated to all the paths it touches -/
theorem applyOp_preserves_get_unrelated (t : Tree) (a : UOp) (x : RPath)
    (h : a.roots.all (fun r => unrelated r x) = true) : (applyOp t a).get x = t.get x := by
  by_cases ha : a.simple = true
  · rw [UOp.roots_simple ha] at h
    simp only [List.all_cons, List.all_nil, Bool.and_true] at h
    rw [get_applyOp_simple t ha, if_neg (fun hx => unrelated_ne h hx.symm)]
  · obtain ⟨s, d, rfl⟩ := UOp.not_simple ha
    simp only [UOp.roots, List.all_cons, List.all_nil, Bool.and_true, Bool.and_eq_true] at h
    exact get_rename_unrelated t h.1 h.2

/-- sharper for the four single-path operations: only the path itself is affected … -/
theorem applyOp_preserves_get_ne (t : Tree) (a : UOp) (ha : a.simple = true) (x : RPath) (hx : x ≠ a.pt) :
    (applyOp t a).get x = t.get x := by
  rw [get_applyOp_simple t ha, if_neg hx]

/-- … and there the effect is the expected one -/
theorem applyOp_get_self (t : Tree) :
    (∀ p tag, (applyOp t (.create p tag)).get p = some (.file tag)) ∧
    (∀ p tag, (applyOp t (.write p tag)).get p = (t.get p).map (fun _ => .file tag)) ∧
    (∀ p, (applyOp t (.mkdir p)).get p = (t.get p).or (some .dir)) ∧
    (∀ p, (applyOp t (.delete p)).get p = none) := by
  refine ⟨?_, ?_, ?_, ?_⟩
  · intro p tag; rw [get_create]; simp
  · intro p tag; rw [get_write]; simp
  · intro p; rw [get_mkdir]; simp
  · intro p; rw [get_delete]; simp

/-- a rename moves the subtree: with a free destination, the node at `src ++ r` is found at `dst ++ r` -/
theorem applyOp_rename_get (t : Tree) (hw : t.WF) (s d r : RPath) (hv : Valid t (.rename s d) = true)
    (n : Node) (h : t.get (s ++ r) = some n) : (applyOp t (.rename s d)).get (d ++ r) = some n := by
  apply Tree.get_eq_some_of_mem (applyOp_WF hw _ hv)
  have hm := Tree.mem_of_get_eq_some h
  rw [applyOp_rename]
  simp only [List.mem_map]
  exact ⟨_, hm, by simp [renameEntry, rebase_append]⟩

/-! ### two operations -/

/-- operations on disjoint objects commute: both orders give the same lookup function.
    No hypothesis on the tree (not even unique paths) and no validity of the operations is needed. -/
theorem applyOp_comm (t : Tree) (a b : UOp) (hd : disjointOps a b = true) :
    ∀ p, (applyOp (applyOp t a) b).get p = (applyOp (applyOp t b) a).get p := by
  intro p
  rcases applyOp_comm_cases t a b hd with h | ⟨ha, hb, hne⟩
  · rw [h]
  · exact simple_simple_get t ha hb hne p

/-- … and the same entries (possibly in another order) -/
theorem applyOp_comm_perm (t : Tree) (a b : UOp) (hd : disjointOps a b = true) :
    (applyOp (applyOp t a) b).Perm (applyOp (applyOp t b) a) := by
  rcases applyOp_comm_cases t a b hd with h | ⟨ha, hb, hne⟩
  · rw [h]
  · exact simple_simple_perm t ha hb hne

/-- with a rename involved the two orders give literally the same list -/
theorem applyOp_comm_rename_eq (t : Tree) (s d : RPath) (b : UOp) (hd : disjointOps (.rename s d) b = true) :
    applyOp (applyOp t (.rename s d)) b = applyOp (applyOp t b) (.rename s d) := by
  rcases applyOp_comm_cases t (.rename s d) b hd with h | ⟨ha, _, _⟩
  · exact h
  · cases ha

/-- operations do not look at the order of the entries -/
theorem applyOp_congr_perm (t u : Tree) (h : t.Perm u) (a : UOp) : (applyOp t a).Perm (applyOp u a) :=
  applyOp_perm h a

/- FALSE (kept for the record): operations do not respect mere equality of lookups, so the lookup
   form of commutation cannot be lifted to sequences by itself.
theorem applyOp_congr_get (t u : Tree) (h : ∀ p, t.get p = u.get p) (a : UOp) :
    ∀ p, (applyOp t a).get p = (applyOp u a).get p
-/
/-- counterexample: the same two entries in the two orders are equal as lookup functions, but after
    renaming `s` onto the occupied `d` the entry that is listed first wins -/
theorem rename_not_congr_get :
    let t : Tree := [(["d", "x"], .file 1), (["s", "x"], .file 2)]
    let u : Tree := [(["s", "x"], .file 2), (["d", "x"], .file 1)]
    t.WF ∧ u.WF ∧ (∀ p ∈ [["d", "x"], ["s", "x"]], t.get p = u.get p) ∧ t.Perm u ∧
    (applyOp t (.rename ["s"] ["d"])).get ["d", "x"] = some (.file 1) ∧
    (applyOp u (.rename ["s"] ["d"])).get ["d", "x"] = some (.file 2) := by
  refine ⟨by decide, by decide, by decide, ?_, by decide, by decide⟩
  exact List.Perm.swap _ _ _

/-- the partial version: for trees with unique paths that agree as *sets of entries* -/
theorem applyOp_congr_get_partial (t u : Tree) (h : t.Perm u) (a : UOp) (hw : (applyOp t a).WF) :
    ∀ p, (applyOp t a).get p = (applyOp u a).get p :=
  fun p => Tree.get_eq_of_perm (applyOp_perm h a) hw p

/-! ### validity and unique paths -/

/-- operations keep paths unique provided the destination of every rename is free (`Valid`) -/
theorem applyOp_preserves_WF (t : Tree) (hw : t.WF) (a : UOp) (hv : Valid t a = true) : (applyOp t a).WF :=
  applyOp_WF hw a hv

theorem applyOps_preserves_WF (t : Tree) (hw : t.WF) (as : List UOp) (hv : ValidSeq t as = true) :
    (applyOps t as).WF :=
  applyOps_WF hw as hv

/-- `Valid` cannot be dropped: renaming onto an occupied destination lists a path twice -/
theorem rename_onto_occupied_not_WF :
    let t : Tree := [(["d", "x"], .file 1), (["s", "x"], .file 2)]
    t.WF ∧ Valid t (.rename ["s"] ["d"]) = false ∧ ¬ (applyOp t (.rename ["s"] ["d"])).WF := by
  decide

/-! ### sequences -/

/-- a single operation moves past a sequence of operations it is disjoint from -/
theorem applyOps_comm_one (t : Tree) (b : UOp) (as : List UOp)
    (hd : as.all (fun a => disjointOps a b) = true) :
    (applyOps (applyOp t b) as).Perm (applyOp (applyOps t as) b) := by
  induction as generalizing t with
  | nil => exact List.Perm.refl _
  | cons a as ih =>
    simp only [List.all_cons, Bool.and_eq_true] at hd
    rw [applyOps_cons, applyOps_cons]
    have h1 : (applyOp (applyOp t b) a).Perm (applyOp (applyOp t a) b) :=
      (applyOp_comm_perm t a b hd.1).symm
    exact (applyOps_perm h1 as).trans (ih (applyOp t a) hd.2)

theorem disjointSeqs_cons_right (as : List UOp) (b : UOp) (bs : List UOp) :
    disjointSeqs as (b :: bs) = true ↔
      as.all (fun a => disjointOps a b) = true ∧ disjointSeqs as bs = true := by
  simp only [disjointSeqs, List.all_cons, List.all_eq_true, Bool.and_eq_true]
  constructor
  · intro h; exact ⟨fun a ha => (h a ha).1, fun a ha => (h a ha).2⟩
  · intro h a ha; exact ⟨h.1 a ha, h.2 a ha⟩

theorem disjointSeqs_cons_left (a : UOp) (as bs : List UOp) :
    disjointSeqs (a :: as) bs = true ↔
      bs.all (fun b => disjointOps a b) = true ∧ disjointSeqs as bs = true := by
  simp only [disjointSeqs, List.all_cons, Bool.and_eq_true]

theorem disjointSeqs_comm (as bs : List UOp) : disjointSeqs as bs = disjointSeqs bs as := by
  rw [Bool.eq_iff_iff]
  simp only [disjointSeqs, List.all_eq_true]
  constructor
  · intro h b hb a ha; rw [disjointOps_comm]; exact h a ha b hb
  · intro h a ha b hb; rw [disjointOps_comm]; exact h b hb a ha

/-- two sequences of operations on disjoint objects commute: same entries in both orders
    (no hypothesis on the tree) -/
theorem applyOps_comm_seq_perm (t : Tree) (as bs : List UOp) (hd : disjointSeqs as bs = true) :
    (applyOps (applyOps t as) bs).Perm (applyOps (applyOps t bs) as) := by
  induction bs generalizing t with
  | nil => exact List.Perm.refl _
  | cons b bs ih =>
    rw [disjointSeqs_cons_right] at hd
    rw [applyOps_cons, applyOps_cons]
    have h1 := (applyOps_comm_one t b as hd.1).symm
    exact (applyOps_perm h1 bs).trans (ih (applyOp t b) hd.2)

/-- … hence the same lookup function, as soon as the result has unique paths -/
theorem applyOps_comm_seq (t : Tree) (as bs : List UOp) (hd : disjointSeqs as bs = true)
    (hw : (applyOps (applyOps t as) bs).WF) :
    ∀ p, (applyOps (applyOps t as) bs).get p = (applyOps (applyOps t bs) as).get p :=
  fun p => Tree.get_eq_of_perm (applyOps_comm_seq_perm t as bs hd) hw p

/-- the hypothesis in decidable form: a base tree with unique paths and free rename destinations -/
theorem applyOps_comm_seq_valid (t : Tree) (as bs : List UOp) (hd : disjointSeqs as bs = true)
    (hw : t.WF) (hv : ValidSeq t (as ++ bs) = true) :
    ∀ p, (applyOps (applyOps t as) bs).get p = (applyOps (applyOps t bs) as).get p := by
  apply applyOps_comm_seq t as bs hd
  rw [← applyOps_append]
  exact applyOps_WF hw _ hv

/-- `m` is an interleaving of `as` and `bs` (each keeps its own order) -/
inductive Interleaving : List UOp → List UOp → List UOp → Prop where
  | nil : Interleaving [] [] []
  | left (a : UOp) {as bs m : List UOp} : Interleaving as bs m → Interleaving (a :: as) bs (a :: m)
  | right (b : UOp) {as bs m : List UOp} : Interleaving as bs m → Interleaving as (b :: bs) (b :: m)

theorem Interleaving.nil_left (bs : List UOp) : Interleaving [] bs bs := by
  induction bs with
  | nil => exact .nil
  | cons b bs ih => exact .right b ih

theorem Interleaving.nil_right (as : List UOp) : Interleaving as [] as := by
  induction as with
  | nil => exact .nil
  | cons a as ih => exact .left a ih

theorem Interleaving.append (as bs : List UOp) : Interleaving as bs (as ++ bs) := by
  induction as with
  | nil => exact Interleaving.nil_left bs
  | cons a as ih => exact .left a ih

theorem Interleaving.append' (as bs : List UOp) : Interleaving as bs (bs ++ as) := by
  induction bs with
  | nil => exact Interleaving.nil_right as
  | cons b bs ih => exact .right b ih

theorem Interleaving.length {as bs m : List UOp} (h : Interleaving as bs m) :
    m.length = as.length + bs.length := by
  induction h with
  | nil => rfl
  | left a _ ih => simp only [List.length_cons, ih]; omega
  | right b _ ih => simp only [List.length_cons, ih]; omega

/-- whatever the real-time interleaving of the two sides' operations was, the resulting tree has the
    entries of the expected tree (no hypothesis on the base tree) -/
theorem merge_order_independent_perm (t : Tree) (as bs m : List UOp) (hd : disjointSeqs as bs = true)
    (hm : Interleaving as bs m) : (applyOps t m).Perm (mergeExpected t as bs) := by
  induction hm generalizing t with
  | nil => exact List.Perm.refl _
  | left a _ ih =>
    rw [disjointSeqs_cons_left] at hd
    exact ih (applyOp t a) hd.2
  | @right b as bs m _ ih =>
    rw [disjointSeqs_cons_right] at hd
    have h1 := ih (applyOp t b) hd.2
    have h2 := applyOps_comm_one t b as hd.1
    simp only [mergeExpected] at h1 ⊢
    rw [applyOps_cons (applyOps t as) b bs]
    exact h1.trans (applyOps_perm h2 bs)

/-- … and is the expected tree as a lookup function, when the expected tree has unique paths -/
theorem merge_order_independent (t : Tree) (as bs m : List UOp) (hd : disjointSeqs as bs = true)
    (hm : Interleaving as bs m) (hw : (mergeExpected t as bs).WF) :
    ∀ p, (applyOps t m).get p = (mergeExpected t as bs).get p :=
  fun p => (Tree.get_eq_of_perm (merge_order_independent_perm t as bs m hd hm).symm hw p).symm

/-- decidable form of the hypothesis -/
theorem merge_order_independent_valid (t : Tree) (as bs m : List UOp) (hd : disjointSeqs as bs = true)
    (hm : Interleaving as bs m) (hw : t.WF) (hv : ValidSeq t (as ++ bs) = true) :
    ∀ p, (applyOps t m).get p = (mergeExpected t as bs).get p := by
  apply merge_order_independent t as bs m hd hm
  rw [mergeExpected, ← applyOps_append]
  exact applyOps_WF hw _ hv

/-- the expected tree does not depend on which side is called left -/
theorem mergeExpected_comm (t : Tree) (as bs : List UOp) (hd : disjointSeqs as bs = true)
    (hw : (mergeExpected t as bs).WF) :
    (mergeExpected t bs as).WF ∧ ∀ p, (mergeExpected t as bs).get p = (mergeExpected t bs as).get p :=
  ⟨hw.perm (applyOps_comm_seq_perm t as bs hd), applyOps_comm_seq t as bs hd hw⟩

/-! ### the monitor's verdict -/

theorem Tree.sameAs_congr_right (l e e' : Tree) (hp : e.Perm e') (hw : e.WF) :
    l.sameAs e = l.sameAs e' := by
  have hg : ∀ p, e.get p = e'.get p := fun p => Tree.get_eq_of_perm hp hw p
  simp only [Tree.sameAs, Tree.subset, hg, hp.all_eq]

/-- the verdict does not depend on the side order -/
theorem mergeOk_comm (t : Tree) (as bs : List UOp) (l r : Tree) (hd : disjointSeqs as bs = true)
    (hw : (mergeExpected t as bs).WF) : mergeOk t as bs l r = mergeOk t bs as l r := by
  have hp := applyOps_comm_seq_perm t as bs hd
  simp only [mergeOk, mergeExpected] at hw ⊢
  rw [Tree.sameAs_congr_right l _ _ hp hw, Tree.sameAs_congr_right r _ _ hp hw]

/-- nor on the interleaving: replaying the real-time order of the user operations on the base tree
    is accepted on both sides -/
theorem mergeOk_of_interleaving (t : Tree) (as bs m : List UOp) (hd : disjointSeqs as bs = true)
    (hm : Interleaving as bs m) (hw : (mergeExpected t as bs).WF) :
    mergeOk t as bs (applyOps t m) (applyOps t m) = true := by
  have hp := merge_order_independent_perm t as bs m hd hm
  have hw' : (applyOps t m).WF := hw.perm hp.symm
  have : (applyOps t m).sameAs (mergeExpected t as bs) = true := by
    rw [← Tree.sameAs_congr_right _ _ _ hp hw']
    exact Tree.sameAs_refl hw'
  simp only [mergeOk, this, Bool.and_self]

/-- meaning of the verdict on well-formed snapshots: both sides equal the expected tree -/
theorem mergeOk_iff (t : Tree) (as bs : List UOp) (l r : Tree) (hl : l.WF) (hr : r.WF)
    (hw : (mergeExpected t as bs).WF) :
    mergeOk t as bs l r = true ↔
      (∀ p, l.get p = (mergeExpected t as bs).get p) ∧ (∀ p, r.get p = (mergeExpected t as bs).get p) := by
  simp only [mergeOk, Bool.and_eq_true, sameAs_iff _ _ hl hw, sameAs_iff _ _ hr hw]

/-- C04's verdict implies C01's -/
theorem mergeOk_implies_converged (t : Tree) (as bs : List UOp) (l r : Tree)
    (h : mergeOk t as bs l r = true) : converged l r = true := by
  simp only [mergeOk, Bool.and_eq_true] at h
  apply sameAs_implies_converged
  exact Tree.sameAs_trans h.1 (by rw [Tree.sameAs_comm]; exact h.2)

/-- sanity: nothing done on one side -/
theorem mergeExpected_nil_right (t : Tree) (as : List UOp) : mergeExpected t as [] = applyOps t as := rfl
theorem mergeExpected_nil_left (t : Tree) (bs : List UOp) : mergeExpected t [] bs = applyOps t bs := rfl
theorem mergeOk_nil (t : Tree) (hw : t.WF) : mergeOk t [] [] t t = true := by
  simp [mergeOk, mergeExpected, applyOps, Tree.sameAs_refl hw]

/-- sanity: `create`, `mkdir`, `delete` are idempotent, `write` absorbs -/
theorem applyOp_idem (t : Tree) :
    (∀ p tag, applyOp (applyOp t (.create p tag)) (.create p tag) = applyOp t (.create p tag)) ∧
    (∀ p, applyOp (applyOp t (.mkdir p)) (.mkdir p) = applyOp t (.mkdir p)) ∧
    (∀ p, applyOp (applyOp t (.delete p)) (.delete p) = applyOp t (.delete p)) := by
  refine ⟨?_, ?_, ?_⟩
  · intro p tag
    simp only [applyOp, List.filter_append, List.filter_filter, Bool.and_self]
    simp
  · intro p
    have h : (applyOp t (.mkdir p)).has p = true := by
      rw [Tree.has_eq_isSome, get_mkdir]
      cases h : t.get p <;> simp
    generalize applyOp t (.mkdir p) = u at h ⊢
    simp only [applyOp, h, if_true]
  · intro p
    simp only [applyOp, List.filter_filter, Bool.and_self]

/-- non-vacuity: a base tree, two disjoint op sequences (one with a folder rename, one with create /
    write / delete / mkdir), the hypotheses of the theorems hold, both orders and an interleaving are
    accepted by the monitor's verdict, and a lost write is rejected -/
example :
    let base : Tree := [(["a"], .dir), (["a", "f"], .file 1), (["b"], .dir), (["b", "g"], .file 2), (["h"], .file 3)]
    let opsL : List UOp := [.rename ["a"] ["c"], .write ["c", "f"] 4]
    let opsR : List UOp := [.create ["b", "k"] 5, .write ["b", "g"] 6, .delete ["h"], .mkdir ["e"]]
    let m : List UOp := [.create ["b", "k"] 5, .rename ["a"] ["c"], .write ["b", "g"] 6, .delete ["h"],
      .write ["c", "f"] 4, .mkdir ["e"]]
    base.WF ∧ disjointSeqs opsL opsR = true ∧ ValidSeq base (opsL ++ opsR) = true ∧
    (mergeExpected base opsL opsR).WF ∧
    mergeOk base opsL opsR (applyOps base m) (mergeExpected base opsR opsL) = true ∧
    mergeOk base opsL opsR (applyOps base m) (applyOps base opsL) = false ∧
    (mergeExpected base opsL opsR).get ["c", "f"] = some (.file 4) := by
  decide

example : Interleaving [.rename ["a"] ["c"], .write ["c", "f"] 4] [.create ["b", "k"] 5, .delete ["h"]]
    [.create ["b", "k"] 5, .rename ["a"] ["c"], .delete ["h"], .write ["c", "f"] 4] :=
  .right _ (.left _ (.right _ (.left _ .nil)))

end CS.Spec
