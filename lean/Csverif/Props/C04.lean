import Csverif.Props.C01
import Csverif.Proofs.ObjTree
/-
C04 — non-conflicting concurrent changes merge exactly: the reference semantics `applyOp`
(Model/Spec/Sync.lean) of user operations on disjoint objects is order independent, so the tree the
monitor (op `c04`) expects, `mergeExpected base opsL opsR`, does not depend on the side order nor on
how the two sides' operations were interleaved in real time.

Shape of the result.  For a *single* pair of disjoint operations the two orders give the same lookup
function with no hypothesis on the tree at all (`applyOp_comm`); the trees themselves are equal up
to the order of their entries (`applyOp_comm_perm`).  For *sequences* the entry-order form lifts
unconditionally (`applyOps_comm_seq_perm`, `merge_order_independent_perm`); the lookup form needs
the expected tree to have unique paths (`Tree.WF`), because on a tree that lists a path twice a
rename's result depends on the entry order (`rename_not_congr_get`).  `Valid` is the decidable
precondition under which operations keep paths unique (`applyOps_WF`): the destination of a rename
is free.
-/
namespace CS.Spec
set_option linter.unusedVariables false

/-! ### one operation -/

/-- an operation does not change the lookup at a path unrelated to all the paths it touches -/
theorem applyOp_preserves_get_unrelated (t : Tree) (a : UOp) (x : RPath)
    (h : a.roots.all (fun r => unrelated r x) = true) : (applyOp t a).get x = t.get x := by
  by_cases ha : a.simple = true
  · rw [UOp.roots_simple ha] at h
    simp only [List.all_cons, List.all_nil, Bool.and_true] at h
    rw [get_applyOp_simple t ha, if_neg (fun hx => unrelated_ne h hx.symm)]
  · obtain ⟨s, d, rfl⟩ := UOp.not_simple ha
    simp only [UOp.roots, List.all_cons, List.all_nil, Bool.and_true, Bool.and_eq_true] at h
    exact get_rename_unrelated t h.1 h.2

/-- sharper for the four single-path operations: only the path itself is affected … -/
theorem applyOp_preserves_get_ne (t : Tree) (a : UOp) (ha : a.simple = true) (x : RPath) (hx : x ≠ a.pt) :
    (applyOp t a).get x = t.get x := by
  rw [get_applyOp_simple t ha, if_neg hx]

/-- … and there the effect is the expected one -/
theorem applyOp_get_self (t : Tree) :
    (∀ p tag, (applyOp t (.create p tag)).get p = some (.file tag)) ∧
    (∀ p tag, (applyOp t (.write p tag)).get p = (t.get p).map (fun _ => .file tag)) ∧
    (∀ p, (applyOp t (.mkdir p)).get p = (t.get p).or (some .dir)) ∧
    (∀ p, (applyOp t (.delete p)).get p = none) := by
  refine ⟨?_, ?_, ?_, ?_⟩
  · intro p tag; rw [get_create]; simp
  · intro p tag; rw [get_write]; simp
  · intro p; rw [get_mkdir]; simp
  · intro p; rw [get_delete]; simp

/-- a rename moves the subtree: with a free destination, the node at `src ++ r` is found at `dst ++ r` -/
theorem applyOp_rename_get (t : Tree) (hw : t.WF) (s d r : RPath) (hv : Valid t (.rename s d) = true)
    (n : Node) (h : t.get (s ++ r) = some n) : (applyOp t (.rename s d)).get (d ++ r) = some n := by
  apply Tree.get_eq_some_of_mem (applyOp_WF hw _ hv)
  have hm := Tree.mem_of_get_eq_some h
  rw [applyOp_rename]
  simp only [List.mem_map]
  exact ⟨_, hm, by simp [renameEntry, rebase_append]⟩

/-! ### two operations -/

/-- operations on disjoint objects commute: both orders give the same lookup function.
    No hypothesis on the tree (not even unique paths) and no validity of the operations is needed. -/
theorem applyOp_comm (t : Tree) (a b : UOp) (hd : disjointOps a b = true) :
    ∀ p, (applyOp (applyOp t a) b).get p = (applyOp (applyOp t b) a).get p := by
  intro p
  rcases applyOp_comm_cases t a b hd with h | ⟨ha, hb, hne⟩
  · rw [h]
  · exact simple_simple_get t ha hb hne p

/-- … and the same entries (possibly in another order) -/
theorem applyOp_comm_perm (t : Tree) (a b : UOp) (hd : disjointOps a b = true) :
    (applyOp (applyOp t a) b).Perm (applyOp (applyOp t b) a) := by
  rcases applyOp_comm_cases t a b hd with h | ⟨ha, hb, hne⟩
  · rw [h]
  · exact simple_simple_perm t ha hb hne

/-- with a rename involved the two orders give literally the same list -/
theorem applyOp_comm_rename_eq (t : Tree) (s d : RPath) (b : UOp) (hd : disjointOps (.rename s d) b = true) :
    applyOp (applyOp t (.rename s d)) b = applyOp (applyOp t b) (.rename s d) := by
  rcases applyOp_comm_cases t (.rename s d) b hd with h | ⟨ha, _, _⟩
  · exact h
  · cases ha

/-- operations do not look at the order of the entries -/
theorem applyOp_congr_perm (t u : Tree) (h : t.Perm u) (a : UOp) : (applyOp t a).Perm (applyOp u a) :=
  applyOp_perm h a

/- FALSE (kept for the record): operations do not respect mere equality of lookups, so the lookup
   form of commutation cannot be lifted to sequences by itself.
theorem applyOp_congr_get (t u : Tree) (h : ∀ p, t.get p = u.get p) (a : UOp) :
    ∀ p, (applyOp t a).get p = (applyOp u a).get p
-/
/-- counterexample: the same two entries in the two orders are equal as lookup functions, but after
    renaming `s` onto the occupied `d` the entry that is listed first wins -/
theorem rename_not_congr_get :
    let t : Tree := [(["d", "x"], .file 1), (["s", "x"], .file 2)]
    let u : Tree := [(["s", "x"], .file 2), (["d", "x"], .file 1)]
    t.WF ∧ u.WF ∧ (∀ p ∈ [["d", "x"], ["s", "x"]], t.get p = u.get p) ∧ t.Perm u ∧
    (applyOp t (.rename ["s"] ["d"])).get ["d", "x"] = some (.file 1) ∧
    (applyOp u (.rename ["s"] ["d"])).get ["d", "x"] = some (.file 2) := by
  refine ⟨by decide, by decide, by decide, ?_, by decide, by decide⟩
  exact List.Perm.swap _ _ _

/-- the partial version: for trees with unique paths that agree as *sets of entries* -/
theorem applyOp_congr_get_partial (t u : Tree) (h : t.Perm u) (a : UOp) (hw : (applyOp t a).WF) :
    ∀ p, (applyOp t a).get p = (applyOp u a).get p :=
  fun p => Tree.get_eq_of_perm (applyOp_perm h a) hw p

/-! ### validity and unique paths -/

/-- operations keep paths unique provided the destination of every rename is free (`Valid`) -/
theorem applyOp_preserves_WF (t : Tree) (hw : t.WF) (a : UOp) (hv : Valid t a = true) : (applyOp t a).WF :=
  applyOp_WF hw a hv

theorem applyOps_preserves_WF (t : Tree) (hw : t.WF) (as : List UOp) (hv : ValidSeq t as = true) :
    (applyOps t as).WF :=
  applyOps_WF hw as hv

/-- `Valid` cannot be dropped: renaming onto an occupied destination lists a path twice -/
theorem rename_onto_occupied_not_WF :
    let t : Tree := [(["d", "x"], .file 1), (["s", "x"], .file 2)]
    t.WF ∧ Valid t (.rename ["s"] ["d"]) = false ∧ ¬ (applyOp t (.rename ["s"] ["d"])).WF := by
  decide

/-! ### sequences -/

/-- a single operation moves past a sequence of operations it is disjoint from -/
theorem applyOps_comm_one (t : Tree) (b : UOp) (as : List UOp)
    (hd : as.all (fun a => disjointOps a b) = true) :
    (applyOps (applyOp t b) as).Perm (applyOp (applyOps t as) b) := by
  induction as generalizing t with
  | nil => exact List.Perm.refl _
  | cons a as ih =>
    simp only [List.all_cons, Bool.and_eq_true] at hd
    rw [applyOps_cons, applyOps_cons]
    have h1 : (applyOp (applyOp t b) a).Perm (applyOp (applyOp t a) b) :=
      (applyOp_comm_perm t a b hd.1).symm
    exact (applyOps_perm h1 as).trans (ih (applyOp t a) hd.2)

theorem disjointSeqs_cons_right (as : List UOp) (b : UOp) (bs : List UOp) :
    disjointSeqs as (b :: bs) = true ↔
      as.all (fun a => disjointOps a b) = true ∧ disjointSeqs as bs = true := by
  simp only [disjointSeqs, List.all_cons, List.all_eq_true, Bool.and_eq_true]
  constructor
  · intro h; exact ⟨fun a ha => (h a ha).1, fun a ha => (h a ha).2⟩
  · intro h a ha; exact ⟨h.1 a ha, h.2 a ha⟩

theorem disjointSeqs_cons_left (a : UOp) (as bs : List UOp) :
    disjointSeqs (a :: as) bs = true ↔
      bs.all (fun b => disjointOps a b) = true ∧ disjointSeqs as bs = true := by
  simp only [disjointSeqs, List.all_cons, Bool.and_eq_true]

theorem disjointSeqs_comm (as bs : List UOp) : disjointSeqs as bs = disjointSeqs bs as := by
  rw [Bool.eq_iff_iff]
  simp only [disjointSeqs, List.all_eq_true]
  constructor
  · intro h b hb a ha; rw [disjointOps_comm]; exact h a ha b hb
  · intro h a ha b hb; rw [disjointOps_comm]; exact h b hb a ha

/-- two sequences of operations on disjoint objects commute: same entries in both orders
    (no hypothesis on the tree) -/
theorem applyOps_comm_seq_perm (t : Tree) (as bs : List UOp) (hd : disjointSeqs as bs = true) :
    (applyOps (applyOps t as) bs).Perm (applyOps (applyOps t bs) as) := by
  induction bs generalizing t with
  | nil => exact List.Perm.refl _
  | cons b bs ih =>
    rw [disjointSeqs_cons_right] at hd
    rw [applyOps_cons, applyOps_cons]
    have h1 := (applyOps_comm_one t b as hd.1).symm
    exact (applyOps_perm h1 bs).trans (ih (applyOp t b) hd.2)

/-- … hence the same lookup function, as soon as the result has unique paths -/
theorem applyOps_comm_seq (t : Tree) (as bs : List UOp) (hd : disjointSeqs as bs = true)
    (hw : (applyOps (applyOps t as) bs).WF) :
    ∀ p, (applyOps (applyOps t as) bs).get p = (applyOps (applyOps t bs) as).get p :=
  fun p => Tree.get_eq_of_perm (applyOps_comm_seq_perm t as bs hd) hw p

/-- the hypothesis in decidable form: a base tree with unique paths and free rename destinations -/
theorem applyOps_comm_seq_valid (t : Tree) (as bs : List UOp) (hd : disjointSeqs as bs = true)
    (hw : t.WF) (hv : ValidSeq t (as ++ bs) = true) :
    ∀ p, (applyOps (applyOps t as) bs).get p = (applyOps (applyOps t bs) as).get p := by
  apply applyOps_comm_seq t as bs hd
  rw [← applyOps_append]
  exact applyOps_WF hw _ hv

/-- `m` is an interleaving of `as` and `bs` (each keeps its own order) -/
inductive Interleaving : List UOp → List UOp → List UOp → Prop where
  | nil : Interleaving [] [] []
  | left (a : UOp) {as bs m : List UOp} : Interleaving as bs m → Interleaving (a :: as) bs (a :: m)
  | right (b : UOp) {as bs m : List UOp} : Interleaving as bs m → Interleaving as (b :: bs) (b :: m)

theorem Interleaving.nil_left (bs : List UOp) : Interleaving [] bs bs := by
  induction bs with
  | nil => exact .nil
  | cons b bs ih => exact .right b ih

theorem Interleaving.nil_right (as : List UOp) : Interleaving as [] as := by
  induction as with
  | nil => exact .nil
  | cons a as ih => exact .left a ih

theorem Interleaving.append (as bs : List UOp) : Interleaving as bs (as ++ bs) := by
  induction as with
  | nil => exact Interleaving.nil_left bs
  | cons a as ih => exact .left a ih

theorem Interleaving.append' (as bs : List UOp) : Interleaving as bs (bs ++ as) := by
  induction bs with
  | nil => exact Interleaving.nil_right as
  | cons b bs ih => exact .right b ih

theorem Interleaving.length {as bs m : List UOp} (h : Interleaving as bs m) :
    m.length = as.length + bs.length := by
  induction h with
  | nil => rfl
  | left a _ ih => simp only [List.length_cons, ih]; omega
  | right b _ ih => simp only [List.length_cons, ih]; omega

/-- whatever the real-time interleaving of the two sides' operations was, the resulting tree has the
    entries of the expected tree (no hypothesis on the base tree) -/
theorem merge_order_independent_perm (t : Tree) (as bs m : List UOp) (hd : disjointSeqs as bs = true)
    (hm : Interleaving as bs m) : (applyOps t m).Perm (mergeExpected t as bs) := by
  induction hm generalizing t with
  | nil => exact List.Perm.refl _
  | left a _ ih =>
    rw [disjointSeqs_cons_left] at hd
    exact ih (applyOp t a) hd.2
  | @right b as bs m _ ih =>
    rw [disjointSeqs_cons_right] at hd
    have h1 := ih (applyOp t b) hd.2
    have h2 := applyOps_comm_one t b as hd.1
    simp only [mergeExpected] at h1 ⊢
    rw [applyOps_cons (applyOps t as) b bs]
    exact h1.trans (applyOps_perm h2 bs)

/-- … and is the expected tree as a lookup function, when the expected tree has unique paths -/
theorem merge_order_independent (t : Tree) (as bs m : List UOp) (hd : disjointSeqs as bs = true)
    (hm : Interleaving as bs m) (hw : (mergeExpected t as bs).WF) :
    ∀ p, (applyOps t m).get p = (mergeExpected t as bs).get p :=
  fun p => (Tree.get_eq_of_perm (merge_order_independent_perm t as bs m hd hm).symm hw p).symm

/-- decidable form of the hypothesis -/
theorem merge_order_independent_valid (t : Tree) (as bs m : List UOp) (hd : disjointSeqs as bs = true)
    (hm : Interleaving as bs m) (hw : t.WF) (hv : ValidSeq t (as ++ bs) = true) :
    ∀ p, (applyOps t m).get p = (mergeExpected t as bs).get p := by
  apply merge_order_independent t as bs m hd hm
  rw [mergeExpected, ← applyOps_append]
  exact applyOps_WF hw _ hv

/-- the expected tree does not depend on which side is called left -/
theorem mergeExpected_comm (t : Tree) (as bs : List UOp) (hd : disjointSeqs as bs = true)
    (hw : (mergeExpected t as bs).WF) :
    (mergeExpected t bs as).WF ∧ ∀ p, (mergeExpected t as bs).get p = (mergeExpected t bs as).get p :=
  ⟨hw.perm (applyOps_comm_seq_perm t as bs hd), applyOps_comm_seq t as bs hd hw⟩

/-! ### the monitor's verdict -/

theorem Tree.sameAs_congr_right (l e e' : Tree) (hp : e.Perm e') (hw : e.WF) :
    l.sameAs e = l.sameAs e' := by
  have hg : ∀ p, e.get p = e'.get p := fun p => Tree.get_eq_of_perm hp hw p
  simp only [Tree.sameAs, Tree.subset, hg, hp.all_eq]

/-- the verdict does not depend on the side order -/
theorem mergeOk_comm (t : Tree) (as bs : List UOp) (l r : Tree) (hd : disjointSeqs as bs = true)
    (hw : (mergeExpected t as bs).WF) : mergeOk t as bs l r = mergeOk t bs as l r := by
  have hp := applyOps_comm_seq_perm t as bs hd
  simp only [mergeOk, mergeExpected] at hw ⊢
  rw [Tree.sameAs_congr_right l _ _ hp hw, Tree.sameAs_congr_right r _ _ hp hw]

/-- nor on the interleaving: replaying the real-time order of the user operations on the base tree
    is accepted on both sides -/
theorem mergeOk_of_interleaving (t : Tree) (as bs m : List UOp) (hd : disjointSeqs as bs = true)
    (hm : Interleaving as bs m) (hw : (mergeExpected t as bs).WF) :
    mergeOk t as bs (applyOps t m) (applyOps t m) = true := by
  have hp := merge_order_independent_perm t as bs m hd hm
  have hw' : (applyOps t m).WF := hw.perm hp.symm
  have : (applyOps t m).sameAs (mergeExpected t as bs) = true := by
    rw [← Tree.sameAs_congr_right _ _ _ hp hw']
    exact Tree.sameAs_refl hw'
  simp only [mergeOk, this, Bool.and_self]

/-- meaning of the verdict on well-formed snapshots: both sides equal the expected tree -/
theorem mergeOk_iff (t : Tree) (as bs : List UOp) (l r : Tree) (hl : l.WF) (hr : r.WF)
    (hw : (mergeExpected t as bs).WF) :
    mergeOk t as bs l r = true ↔
      (∀ p, l.get p = (mergeExpected t as bs).get p) ∧ (∀ p, r.get p = (mergeExpected t as bs).get p) := by
  simp only [mergeOk, Bool.and_eq_true, sameAs_iff _ _ hl hw, sameAs_iff _ _ hr hw]

/-- C04's verdict implies C01's -/
theorem mergeOk_implies_converged (t : Tree) (as bs : List UOp) (l r : Tree)
    (h : mergeOk t as bs l r = true) : converged l r = true := by
  simp only [mergeOk, Bool.and_eq_true] at h
  apply sameAs_implies_converged
  exact Tree.sameAs_trans h.1 (by rw [Tree.sameAs_comm]; exact h.2)

/-- sanity: nothing done on one side -/
theorem mergeExpected_nil_right (t : Tree) (as : List UOp) : mergeExpected t as [] = applyOps t as := rfl
theorem mergeExpected_nil_left (t : Tree) (bs : List UOp) : mergeExpected t [] bs = applyOps t bs := rfl
theorem mergeOk_nil (t : Tree) (hw : t.WF) : mergeOk t [] [] t t = true := by
  simp [mergeOk, mergeExpected, applyOps, Tree.sameAs_refl hw]

/-- sanity: `create`, `mkdir`, `delete` are idempotent, `write` absorbs -/
theorem applyOp_idem (t : Tree) :
    (∀ p tag, applyOp (applyOp t (.create p tag)) (.create p tag) = applyOp t (.create p tag)) ∧
    (∀ p, applyOp (applyOp t (.mkdir p)) (.mkdir p) = applyOp t (.mkdir p)) ∧
    (∀ p, applyOp (applyOp t (.delete p)) (.delete p) = applyOp t (.delete p)) := by
  refine ⟨?_, ?_, ?_⟩
  · intro p tag
    simp only [applyOp, List.filter_append, List.filter_filter, Bool.and_self]
    simp
  · intro p
    have h : (applyOp t (.mkdir p)).has p = true := by
      rw [Tree.has_eq_isSome, get_mkdir]
      cases h : t.get p <;> simp
    generalize applyOp t (.mkdir p) = u at h ⊢
    simp only [applyOp, h, if_true]
  · intro p
    simp only [applyOp, List.filter_filter, Bool.and_self]

/-- non-vacuity: a base tree, two disjoint op sequences (one with a folder rename, one with create /
    write / delete / mkdir), the hypotheses of the theorems hold, both orders and an interleaving are
    accepted by the monitor's verdict, and a lost write is rejected -/
example :
    let base : Tree := [(["a"], .dir), (["a", "f"], .file 1), (["b"], .dir), (["b", "g"], .file 2), (["h"], .file 3)]
    let opsL : List UOp := [.rename ["a"] ["c"], .write ["c", "f"] 4]
    let opsR : List UOp := [.create ["b", "k"] 5, .write ["b", "g"] 6, .delete ["h"], .mkdir ["e"]]
    let m : List UOp := [.create ["b", "k"] 5, .rename ["a"] ["c"], .write ["b", "g"] 6, .delete ["h"],
      .write ["c", "f"] 4, .mkdir ["e"]]
    base.WF ∧ disjointSeqs opsL opsR = true ∧ ValidSeq base (opsL ++ opsR) = true ∧
    (mergeExpected base opsL opsR).WF ∧
    mergeOk base opsL opsR (applyOps base m) (mergeExpected base opsR opsL) = true ∧
    mergeOk base opsL opsR (applyOps base m) (applyOps base opsL) = false ∧
    (mergeExpected base opsL opsR).get ["c", "f"] = some (.file 4) := by
  decide

example : Interleaving [.rename ["a"] ["c"], .write ["c", "f"] 4] [.create ["b", "k"] 5, .delete ["h"]]
    [.create ["b", "k"] 5, .rename ["a"] ["c"], .delete ["h"], .write ["c", "f"] 4] :=
  .right _ (.left _ (.right _ (.left _ .nil)))

end CS.Spec

/-! ## C04 by OBJECT identity (Model/Spec/ObjTree.lean)

The statements above read "different files and folders" by PATH: the two sides' paths are unrelated.
The statements below read it by OBJECT: no object is operated on by both sides, while the PATHS may
be related — one side renames or moves a folder, the other side creates, renames, edits a file inside
it or moves a file into it; one side empties a folder into a folder the other side renames, and
deletes the emptied folder.  The monitor layer `monc04` computes `objMerge`, projects it to paths
(`toPaths`) and compares both sides exactly (`objMergeOk`). -/
namespace CS.Spec.Obj
open CS.Spec
set_option linter.unusedVariables false

/-! ### one pair of operations -/

/-- two operations on different objects commute: both orders give literally the same object tree.
    No validity is needed, only unique (ascending) ids. -/
theorem objOp_comm (t : OTree) (hs : Sorted t) (a b : OOp) (hd : disjointOp a b = true) :
    applyOp (applyOp t a) b = applyOp (applyOp t b) a :=
  applyOp_comm hs a b (by simpa [disjointOp] using hd)

/-- the exact side condition under which both orders are VALID histories: for two operations on
    different objects, each valid in `t`, `Compatible` (no name clash, neither deletes the folder the
    other puts its object into, neither move puts the other object beneath itself) holds iff each
    is still valid after the other. -/
theorem compatible_iff (t : OTree) (a b : OOp) (hva : valid t a = true) (hvb : valid t b = true)
    (hd : disjointOp a b = true) :
    Compatible t a b = true ↔ (valid (applyOp t a) b = true ∧ valid (applyOp t b) a = true) := by
  have hne : a.target ≠ b.target := by simpa [disjointOp] using hd
  constructor
  · intro h
    simp only [Compatible, Bool.and_eq_true, Bool.not_eq_true'] at h
    obtain ⟨⟨⟨⟨h1, h2⟩, h3⟩, h4⟩, h5⟩ := h
    exact ⟨compatible_valid_after hva hvb hne h1 h2 h3 h4,
      compatible_valid_after hvb hva hne.symm (by rw [clash_comm]; exact h1) h3 h2 h5⟩
  · rintro ⟨hab, hba⟩
    obtain ⟨h1, h2, h4⟩ := valid_after_no_conflict hva hne hab
    obtain ⟨_, h3, h5⟩ := valid_after_no_conflict hvb hne.symm hba
    simp only [Compatible, h1, h2, h3, h4, h5, Bool.not_false, Bool.and_self]

/-- `objOp_comm` with validity: on a well-formed tree two compatible operations on different objects
    can be applied in either order, both orders are valid histories, give the same tree, and it is
    well formed -/
theorem objOp_comm_valid (t : OTree) (hw : t.WF) (a b : OOp) (hva : valid t a = true) (hvb : valid t b = true)
    (hd : disjointOp a b = true) (hc : Compatible t a b = true) :
    validSeq t [a, b] = true ∧ validSeq t [b, a] = true ∧
    applyOps t [a, b] = applyOps t [b, a] ∧ (applyOps t [a, b]).WF := by
  obtain ⟨hab, hba⟩ := (compatible_iff t a b hva hvb hd).mp hc
  refine ⟨by simp [validSeq, hva, hab], by simp [validSeq, hvb, hba], objOp_comm t hw.sorted a b hd, ?_⟩
  exact (hw.applyOp hva).applyOp hab

/-- the three conflicts are genuine (kernel-checked): in each case the two operations are about
    different objects and each is valid, but one order is not a valid history -/
theorem conflict_name_clash :
    let t : OTree := [⟨1, none, "d", .dir⟩, ⟨2, none, "f", .file 1⟩]
    let a : OOp := .move 2 (some 1) "x"
    let b : OOp := .create 3 (some 1) "x" 2
    wfB t = true ∧ disjointOp a b = true ∧ valid t a = true ∧ valid t b = true ∧
    Compatible t a b = false ∧ valid (applyOp t a) b = false ∧ valid (applyOp t b) a = false := by
  decide

theorem conflict_delete_vs_put_inside :
    let t : OTree := [⟨1, none, "d", .dir⟩, ⟨2, none, "f", .file 1⟩]
    let a : OOp := .delete 1
    let b : OOp := .move 2 (some 1) "f"
    wfB t = true ∧ disjointOp a b = true ∧ valid t a = true ∧ valid t b = true ∧
    Compatible t a b = false ∧ valid (applyOp t a) b = false ∧ valid (applyOp t b) a = false := by
  decide

theorem conflict_move_cycle :
    let t : OTree := [⟨1, none, "a", .dir⟩, ⟨2, none, "b", .dir⟩]
    let a : OOp := .move 1 (some 2) "a"
    let b : OOp := .move 2 (some 1) "b"
    wfB t = true ∧ disjointOp a b = true ∧ valid t a = true ∧ valid t b = true ∧
    Compatible t a b = false ∧ valid (applyOp t a) b = false ∧ valid (applyOp t b) a = false := by
  decide

/-- round 6 (seed R6-C04): the spec needs no "a name is used once" assumption.  A folder deleted and a FILE created at
    its name by one side, while the other side edits another file, is a valid, object-disjoint, compatible pair of histories;
    the merge is the same in both orders and has the new FILE (tag 2) at the name, not the folder; `objMergeOk` accepts exactly
    that pair of trees and rejects the tree in which the folder is resurrected (kernel-checked witness; the harness family
    `replace-dir-by-file|write` of harness/c04_objects.py runs this shape on the real engine over schedules) -/
theorem name_reuse_after_delete :
    let t : OTree := [⟨1, none, "e", .dir⟩, ⟨2, none, "k", .file 1⟩]
    let l : List OOp := [.delete 1, .create 3 none "e" 2]
    let r : List OOp := [.write 2 3]
    wfB t = true ∧ validSeq t l = true ∧ validSeq t r = true ∧ disjointSeqs l r = true ∧ CompatibleSeqs t l r = true ∧
    objMerge t l r = objMerge t r l ∧
    toPaths (objMerge t l r) = [(["k"], .file 3), (["e"], .file 2)] ∧
    objMergeOk t l r [(["k"], .file 3), (["e"], .file 2)] [(["k"], .file 3), (["e"], .file 2)] = true ∧
    objMergeOk t l r [(["k"], .file 3), (["e"], .dir), (["e.conflicted"], .file 2)]
      [(["k"], .file 3), (["e"], .dir), (["e.conflicted"], .file 2)] = false := by
  decide

/-- … whereas a creation inside a folder and a move of that folder are compatible: they touch
    different objects although the paths are related -/
theorem create_inside_vs_move_compatible :
    let t : OTree := [⟨1, none, "e", .dir⟩, ⟨2, some 1, "f", .file 1⟩]
    let a : OOp := .move 1 none "e2"
    let b : OOp := .create 3 (some 1) "g" 2
    wfB t = true ∧ disjointOp a b = true ∧ valid t a = true ∧ valid t b = true ∧ Compatible t a b = true ∧
    toPaths (applyOps t [a, b]) = [(["e2"], .dir), (["e2", "f"], .file 1), (["e2", "g"], .file 2)] := by
  decide

/-! ### sequences and interleavings -/

theorem compatibleSeqs_iff (t : OTree) (as bs : List OOp) :
    CompatibleSeqs t as bs = true ↔
      (∀ a ∈ as, ∀ b ∈ bs, a.target ≠ b.target) ∧ ∀ m, Interleaving as bs m → validSeq t m = true := by
  simp only [CompatibleSeqs, Bool.and_eq_true, disjointSeqs_iff, allValidF_iff _ t as bs (Nat.le_refl _), AllValid]

theorem compatibleSeqs_comm (t : OTree) (as bs : List OOp) : CompatibleSeqs t as bs = CompatibleSeqs t bs as := by
  rw [Bool.eq_iff_iff, compatibleSeqs_iff, compatibleSeqs_iff]
  constructor
  · rintro ⟨h1, h2⟩
    exact ⟨fun b hb a ha => (h1 a ha b hb).symm, fun m hm => h2 m hm.symm⟩
  · rintro ⟨h1, h2⟩
    exact ⟨fun a ha b hb => (h1 b hb a ha).symm, fun m hm => h2 m hm.symm⟩

/-- whatever the real-time interleaving of the two sides' operations was, it was a valid history and
    the object tree it produced is the merged tree `objMerge`, which is well formed -/
theorem objMerge_order_independent (t : OTree) (hw : t.WF) (as bs m : List OOp)
    (hc : CompatibleSeqs t as bs = true) (hm : Interleaving as bs m) :
    validSeq t m = true ∧ applyOps t m = objMerge t as bs ∧ (applyOps t m).WF := by
  obtain ⟨hd, hv⟩ := (compatibleSeqs_iff t as bs).mp hc
  exact ⟨hv m hm, applyOps_interleaving hw.sorted hd hv hm, hw.applyOps (hv m hm)⟩

/-- in particular the merged tree does not depend on which side is applied first -/
theorem objMerge_comm (t : OTree) (hw : t.WF) (as bs : List OOp) (hc : CompatibleSeqs t as bs = true) :
    objMerge t as bs = objMerge t bs as := by
  have h1 := (objMerge_order_independent t hw as bs _ hc (Interleaving.append as bs)).2.1
  have h2 := (objMerge_order_independent t hw as bs _ hc (Interleaving.append' as bs)).2.1
  rw [← h2, applyOps_append]
  rfl

theorem objMerge_WF (t : OTree) (hw : t.WF) (as bs : List OOp) (hc : CompatibleSeqs t as bs = true) :
    (objMerge t as bs).WF := by
  have h := objMerge_order_independent t hw as bs _ hc (Interleaving.append as bs)
  rw [h.2.1] at h
  exact h.2.2

/-- every pair of operations of compatible sequences is `Compatible` in the tree in which the two
    meet (the sequence-level premise implies the pairwise one, along the whole grid) -/
theorem compatibleSeqs_pairwise (t : OTree) (as bs : List OOp) (hc : CompatibleSeqs t as bs = true) :
    compatGrid t as bs = true := by
  obtain ⟨hd, hv⟩ := (compatibleSeqs_iff t as bs).mp hc
  have hv' : AllValid t as bs := hv
  clear hc hv
  induction as generalizing t with
  | nil => rfl
  | cons a as ih =>
    simp only [compatGrid, Bool.and_eq_true]
    refine ⟨?_, ih (applyOp t a) (fun x hx y hy => hd x (List.mem_cons_of_mem _ hx) y hy) hv'.left.2⟩
    have hda : ∀ b ∈ bs, a.target ≠ b.target := fun b hb => hd a List.mem_cons_self b hb
    clear ih hd
    induction bs generalizing t with
    | nil => rfl
    | cons b bs ihb =>
      simp only [compatRow, Bool.and_eq_true]
      have hl := hv'.left
      have hr := hv'.right
      refine ⟨?_, ihb (applyOp t b) hr.2 (fun x hx => hda x (List.mem_cons_of_mem _ hx))⟩
      have hne := hda b List.mem_cons_self
      exact (compatible_iff t a b hl.1 hr.1 (by simpa [disjointOp] using hne)).mpr ⟨hl.2.right.1, hr.2.left.1⟩

/-- and conversely (the lift of `objOp_comm`/`compatible_iff` to sequences): if each side's own sequence is
    valid, the sequences are about different objects, and every pair of operations is `Compatible` in
    the tree in which the two meet, then the sequences are compatible — every interleaving is a valid
    history, and (by `objMerge_order_independent`) yields the same merged tree -/
theorem compatibleSeqs_of_pairwise (t : OTree) (hw : t.WF) (as bs : List OOp) (hva : validSeq t as = true)
    (hvb : validSeq t bs = true) (hd : disjointSeqs as bs = true) (hg : compatGrid t as bs = true) :
    CompatibleSeqs t as bs = true := by
  rw [compatibleSeqs_iff]
  exact ⟨disjointSeqs_iff.mp hd, compatGrid_allValid hw.sorted hva hvb (disjointSeqs_iff.mp hd) hg⟩

/-- so the two forms of C04's premise agree -/
theorem compatibleSeqs_iff_pairwise (t : OTree) (hw : t.WF) (as bs : List OOp) :
    CompatibleSeqs t as bs = true ↔
      (validSeq t as = true ∧ validSeq t bs = true ∧ disjointSeqs as bs = true ∧ compatGrid t as bs = true) := by
  constructor
  · intro hc
    obtain ⟨hd, hv⟩ := (compatibleSeqs_iff t as bs).mp hc
    have hv' : AllValid t as bs := hv
    exact ⟨hv'.seq_left, hv'.symm.seq_left, disjointSeqs_iff.mpr hd, compatibleSeqs_pairwise t as bs hc⟩
  · rintro ⟨h1, h2, h3, h4⟩
    exact compatibleSeqs_of_pairwise t hw as bs h1 h2 h3 h4

/-! ### paths in the merged tree -/

/-- projection: the path view of a well-formed object tree is a well-formed path tree of
    `Spec/Sync.lean` (every path listed once), so `sameAs` / `converged` apply to it -/
theorem toPaths_wf (t : OTree) (hw : t.WF) : (toPaths t).WF := toPaths_WF hw.sorted hw.sib

/-- … and it contains exactly the objects: each at its derived path with its kind, nothing else -/
theorem toPaths_exact (t : OTree) (hw : t.WF) (p : RPath) (k : Node) :
    (toPaths t).get p = some k ↔ ∃ o ∈ t, pathOf t o.id = some p ∧ o.kind = k := by
  rw [Tree.get_eq_some_iff (toPaths_wf t hw), mem_toPaths]

/-- in the merged tree every object sits at the path obtained from its final (parent, name) chain:
    a top-level object at `[name]`, any other object directly beneath the path of its final parent —
    so the children of a moved folder are found beneath the folder's new path — and the path view
    shows it there with its kind (content) -/
theorem objMerge_paths (t : OTree) (hw : t.WF) (as bs : List OOp) (hc : CompatibleSeqs t as bs = true) :
    ∀ o ∈ objMerge t as bs, ∃ p, pathOf (objMerge t as bs) o.id = some p ∧
      (toPaths (objMerge t as bs)).get p = some o.kind ∧
      (match o.parent with
       | none => p = [o.name]
       | some q => ∃ pq, pathOf (objMerge t as bs) q = some pq ∧ p = pq ++ [o.name]) := by
  have hu := objMerge_WF t hw as bs hc
  intro o ho
  obtain ⟨p, hp⟩ := hu.rooted o ho
  refine ⟨p, hp, toPaths_get hu ho hp, ?_⟩
  obtain ⟨o', ho', h⟩ := pathOf_inv hp
  rw [hu.get_of_mem ho] at ho'
  cases ho'
  rcases h with ⟨hpar, hpe⟩ | ⟨q, pq, hpar, hpq, hpe⟩
  · rw [hpar]; exact hpe
  · rw [hpar]; exact ⟨pq, hpq, hpe⟩

/-- distinct objects never share a path in the merged tree (nothing is duplicated) -/
theorem objMerge_paths_inj (t : OTree) (hw : t.WF) (as bs : List OOp) (hc : CompatibleSeqs t as bs = true)
    (i j : Nat) (p : RPath) (hi : pathOf (objMerge t as bs) i = some p) (hj : pathOf (objMerge t as bs) j = some p) :
    i = j :=
  pathOf_inj (objMerge_WF t hw as bs hc) hi hj

/-- a move of an object IS, in the path view, the subtree rename of `Spec/Sync.lean`: every object
    beneath the moved one keeps its relative position beneath the new path, every other path is
    unchanged -/
theorem objMove_children_follow (t : OTree) (hw : t.WF) (i : Nat) (p : Option Nat) (n : String)
    (hv : valid t (.move i p n) = true) :
    ∃ po pn, pathOf t i = some po ∧ pathOf (applyOp t (.move i p n)) i = some pn ∧
      (∀ j pj, pathOf t j = some pj → pathOf (applyOp t (.move i p n)) j = some (rebase po pn pj)) ∧
      toPaths (applyOp t (.move i p n)) = CS.Spec.applyOp (toPaths t) (.rename po pn) := by
  have hw' := hw.applyOp hv
  simp only [valid, Bool.and_eq_true] at hv
  obtain ⟨o, ho, hid⟩ := has_iff.mp hv.1.1.1
  obtain ⟨po, hpo⟩ := hw.rooted o ho
  rw [hid] at hpo
  have hmem : setPlace i p n o ∈ applyOp t (.move i p n) := List.mem_map.mpr ⟨o, ho, rfl⟩
  obtain ⟨pn, hpn⟩ := hw'.rooted _ hmem
  rw [setPlace_id, hid] at hpn
  exact ⟨po, pn, hpo, hpn, fun j pj hj => pathOf_move hw hpo hpn hj, toPaths_move hw hpo hpn⟩

/-! ### the monitor's verdict -/

/-- the verdict does not depend on the side order -/
theorem objMergeOk_comm (t : OTree) (hw : t.WF) (as bs : List OOp) (l r : Tree) (hc : CompatibleSeqs t as bs = true) :
    objMergeOk t as bs l r = objMergeOk t bs as l r := by
  simp only [objMergeOk, objMerge_comm t hw as bs hc]

/-- nor on the interleaving: replaying the real-time order of the user operations on the base tree
    and projecting to paths is accepted on both sides -/
theorem objMergeOk_of_interleaving (t : OTree) (hw : t.WF) (as bs m : List OOp) (hc : CompatibleSeqs t as bs = true)
    (hm : Interleaving as bs m) :
    objMergeOk t as bs (toPaths (applyOps t m)) (toPaths (applyOps t m)) = true := by
  obtain ⟨_, he, hwf⟩ := objMerge_order_independent t hw as bs m hc hm
  simp only [objMergeOk, ← he, Tree.sameAs_refl (toPaths_wf _ hwf), Bool.and_self]

/-- meaning of the verdict on well-formed snapshots: both sides are exactly the path view of the merged object tree -/
theorem objMergeOk_iff (t : OTree) (hw : t.WF) (as bs : List OOp) (l r : Tree) (hl : l.WF) (hr : r.WF)
    (hc : CompatibleSeqs t as bs = true) :
    objMergeOk t as bs l r = true ↔
      (∀ p, l.get p = (toPaths (objMerge t as bs)).get p) ∧ (∀ p, r.get p = (toPaths (objMerge t as bs)).get p) := by
  have hu := toPaths_wf _ (objMerge_WF t hw as bs hc)
  simp only [objMergeOk, Bool.and_eq_true, sameAs_iff _ _ hl hu, sameAs_iff _ _ hr hu]

/-- C04's verdict implies C01's -/
theorem objMergeOk_implies_converged (t : OTree) (as bs : List OOp) (l r : Tree)
    (h : objMergeOk t as bs l r = true) : converged l r = true := by
  simp only [objMergeOk, Bool.and_eq_true] at h
  apply sameAs_implies_converged
  exact Tree.sameAs_trans h.1 (by rw [Tree.sameAs_comm]; exact h.2)

/-- the decidable well-formedness test the monitor applies to the base tree is exact -/
theorem wfB_sound (t : OTree) : wfB t = true ↔ t.WF := wfB_iff t

/-- non-vacuity: LOCAL moves file a/f into folder d and deletes the now-empty folder a while REMOTE
    renames d to d2.  The sequences are compatible; every interleaving gives the same object tree;
    its path view is {d2, d2/f}; the verdict accepts it and rejects the tree in which a/f was put back. -/
example :
    let base : OTree := [⟨1, none, "a", .dir⟩, ⟨2, some 1, "f", .file 1⟩, ⟨3, none, "d", .dir⟩]
    let opsL : List OOp := [.move 2 (some 3) "f", .delete 1]
    let opsR : List OOp := [.move 3 none "d2"]
    let good : Tree := [(["d2", "f"], .file 1), (["d2"], .dir)]
    let bad : Tree := [(["d2"], .dir), (["a"], .dir), (["a", "f"], .file 1)]
    wfB base = true ∧ CompatibleSeqs base opsL opsR = true ∧
    applyOps base [.move 2 (some 3) "f", .move 3 none "d2", .delete 1] = objMerge base opsL opsR ∧
    toPaths (objMerge base opsL opsR) = [(["d2", "f"], .file 1), (["d2"], .dir)] ∧
    objMergeOk base opsL opsR good good = true ∧ objMergeOk base opsL opsR good bad = false := by
  decide

example : Interleaving [.move 2 (some 3) "f", .delete 1] [.move 3 none "d2"]
    [.move 2 (some 3) "f", .move 3 none "d2", .delete 1] :=
  .left _ (.right _ (.left _ .nil))

end CS.Spec.Obj

