import Csverif.Proofs.Path
/-
C13 — path algebra.  Property theorems over the model `CS.Path` (Model/Path.lean), for all strings.
Helper lemmas live in Proofs/Path.lean; nothing here may be weakened to make a proof pass.

Status of the given statements:
* proved as stated: `normSeps_idem`, `split_join`, `isSubpath_join`, `isSubpath_prefix_sibling`,
  `replacePath_join`, `pathsMatch_refl/symm/trans/iff_normalize`, `translate_outside_none`,
  `translate_inside_some`, `translate_lands_in_root`, `translate_prefix_sibling_none`, `mkCfg_WF`,
  the `example`.
* follow-up (reviewer seed R4-C13), both values of `for_display` / `strict`, optional arguments:
  `case_sensitive_normalize_preserves_case`, `case_sensitive_normalize_flag_irrelevant`,
  `case_sensitive_normalize_chars`, `normalizePath_idem_cs`, `pathsMatch_display_iff_default_cs`,
  `pathsMatch_cs_exact`, `display_folds_folders_keeps_leaf`, `pathsMatch_display_iff_ci`,
  `pathsMatch_display_implies_default`, `normalizePath_matches_self`, `joinArgs_strs/_nested/_none`,
  `isSubpathOpt_rel`, `isSubpathOfRoot_eq`, `isSubpath_same`, `isSubpath_strict`
  (`pathsMatch_refl/symm/trans/iff_normalize` and `normalizePath_idem_partial` are already stated
  for every flag value).
* FALSE as stated (refuted below by a proved `…_counterexample` theorem), replaced by a
  `…_partial` theorem with an explicit extra hypothesis: `normalizePath_idem`,
  `pathsMatch_display_leaf`, `translate_roundtrip`.
-/
namespace CS.Path

/-- The configuration guard of every C13 theorem: the alternate separator differs from the
    separator, case folding is an idempotent per-character map that neither creates nor destroys
    separators, and `win_paths` is off (drive-letter joins are covered by the correspondence only). -/
structure Cfg.WF (c : Cfg) : Prop where
  alt_ne_sep : ∀ a, c.alt = some a → a ≠ c.sep
  lower_idem : ∀ x, c.lower (c.lower x) = c.lower x
  lower_sep  : ∀ x, c.lower x = c.sep ↔ x = c.sep
  noWin      : c.win = false

/-- the path starts with the separator once separators are normalised -/
def Absolute (c : Cfg) (p : Str) : Prop := ∃ t, normSeps c p = c.sep :: t

/-- the relative part names something: it contains a character that is not a separator -/
def HasName (c : Cfg) (r : Str) : Prop := ∃ x ∈ r, x ≠ c.sep ∧ c.alt ≠ some x

/-- bridge to the guard used by the helper lemmas of Proofs/Path.lean (same fields) -/
theorem Cfg.WF.ok {c : Cfg} (h : c.WF) : c.Ok := ⟨h.alt_ne_sep, h.lower_idem, h.lower_sep, h.noWin⟩

-- the statements
theorem normSeps_idem (c : Cfg) (h : c.WF) (p : Str) :
    normSeps c (normSeps c p) = normSeps c p := normSeps_idem' h.ok p

/- FALSE AS STATED — omitted.  Full statement:

theorem normalizePath_idem (c : Cfg) (h : c.WF) (p : Str) (fd : Bool) :
    normalizePath c (normalizePath c p fd) fd = normalizePath c p fd

`Cfg.WF` lets case folding map an ordinary character onto the alternate separator.  With
`cexCfg` (sep `/`, alt `\`, case-insensitive, `lower 'B' = '\\'`, identity elsewhere; `cexCfg_WF`):
  normalizePath cexCfg "B"  false = "/\"
  normalizePath cexCfg "/\" false = "/"
See `normalizePath_idem_counterexample` (proved, by `decide`) at the end of this file. -/

/-- PARTIAL version of `normalizePath_idem`: extra hypothesis `hla` (on a case-insensitive
    configuration, case folding never maps another character onto the alternate separator; it holds
    for `mkCfg`, see `mkCfg_lower_alt`).  Nothing extra is assumed when `c.cs = true`. -/
theorem normalizePath_idem_partial (c : Cfg) (h : c.WF)
    (hla : c.cs = false → ∀ a, c.alt = some a → ∀ x, c.lower x = a → x = a) (p : Str) (fd : Bool) :
    normalizePath c (normalizePath c p fd) fd = normalizePath c p fd := by
  have hl := comps_C' h.ok p
  cases fd with
  | false =>
    have hm := hl.mapFold h.ok hla
    rw [normalizePath_false_form h.ok p, normalizePath_false_form h.ok, C_canon h.ok hm]
    congr 1
    simp [fold, cfold_idem h.ok]
  | true =>
    cases hcs : c.cs with
    | true => rw [normalizePath_cs hcs, normalizePath_cs hcs, nrm_eq h.ok p, nrm_canon h.ok hl]
    | false =>
      rw [normalizePath_true_form h.ok hcs (hla hcs) p, normalizePath_true_form h.ok hcs (hla hcs),
        C_canon h.ok (hl.disp h.ok (hla hcs)), dispComps_idem h.ok]

theorem split_join (c : Cfg) (h : c.WF) (p : Str) (hp : p ≠ []) :
    pathsMatch c (some (join c [dirname c p, basename c p])) (some p) false = true := by
  apply pathsMatch_false_of h.ok
  rw [C_join h.ok]
  simp only [List.flatMap_cons, List.flatMap_nil, List.append_nil, dirname, basename, split_C h.ok]

theorem isSubpath_join (c : Cfg) (h : c.WF) (f rel : Str) (hf : Absolute c f) (hr : HasName c rel) :
    ∃ r, isSubpath c f (join c [f, rel]) false = .rel r ∧ r ≠ [] ∧ join c [f, r] = join c [f, rel] := by
  obtain ⟨t, ht⟩ := hf
  refine ⟨c.sep :: relPart c rel, isSubpath_join_gen h.ok f rel t ht, by simp, ?_⟩
  rw [join_two h.ok f _ t ht, join_two h.ok f rel t ht, relPart_sep_cons h.ok]

theorem isSubpath_prefix_sibling (c : Cfg) (h : c.WF) (f t : Str) (x : Char) (strict : Bool)
    (hf : normSeps c f ≠ []) (hroot : normSeps c f ≠ [c.sep]) (hx : x ≠ c.sep ∧ c.alt ≠ some x) :
    isSubpath c f (normSeps c f ++ x :: t) strict = .no :=
  isSubpath_prefix_sibling' h.ok f t x strict hf hroot hx

theorem replacePath_join (c : Cfg) (h : c.WF) (f rel to : Str) (hf : Absolute c f) (hr : HasName c rel) :
    ∃ m, replacePath c (join c [f, rel]) f to = .ok m ∧
      pathsMatch c (some m) (some (join c [to, rel])) false = true := by
  obtain ⟨t, ht⟩ := hf
  have hs : relPart c rel ≠ [] := relPart_ne_nil_of_hasName h.ok hr
  refine ⟨normSeps c to ++ c.sep :: relPart c rel, ?_, ?_⟩
  · simp [replacePath, isSubpath_join_gen h.ok f rel t ht, hs]
  · apply pathsMatch_false_of h.ok
    rw [C_join h.ok, C_append_sep h.ok, C_normSeps h.ok, C_relPart h.ok]
    simp

theorem pathsMatch_refl (c : Cfg) (a : Option Str) (fd : Bool) : pathsMatch c a a fd = true := by
  cases a <;> simp [pathsMatch]

theorem pathsMatch_symm (c : Cfg) (a b : Option Str) (fd : Bool) :
    pathsMatch c a b fd = pathsMatch c b a fd := by
  cases a <;> cases b <;> simp [pathsMatch, Bool.beq_comm]

theorem pathsMatch_trans (c : Cfg) (a b d : Option Str) (fd : Bool)
    (h1 : pathsMatch c a b fd = true) (h2 : pathsMatch c b d fd = true) : pathsMatch c a d fd = true := by
  cases a <;> cases b <;> cases d <;> simp [pathsMatch] at *
  exact h1.trans h2

theorem pathsMatch_iff_normalize (c : Cfg) (a b : Str) (fd : Bool) :
    pathsMatch c (some a) (some b) fd = true ↔ normalizePath c a fd = normalizePath c b fd := by
  simp [pathsMatch]

/- FALSE AS STATED (first conjunct) — omitted.  Full statement:

/-- case-insensitive providers: the display form differs from the comparison form only by case,
    and keeps the leaf exactly as the case-sensitive normalisation has it -/
theorem pathsMatch_display_leaf (c : Cfg) (h : c.WF) (hcs : c.cs = false) (p : Str) :
    lowerStr c (normalizePath c p true) = normalizePath c p false ∧
    basename c (normalizePath c p true) = basename c (normalizePath { c with cs := true } p false)

Same cause as `normalizePath_idem`.  With `cexCfg` and `p = "B/a"`:
  normalizePath cexCfg "B/a" true            = "/a"     (the folded dirname "/\" normalises to "")
  lowerStr cexCfg (normalizePath … true)     = "/a"
  normalizePath cexCfg "B/a" false           = "/\/a"
See `pathsMatch_display_leaf_counterexample` (proved) at the end of this file.  The second conjunct
holds under `Cfg.WF` alone: `pathsMatch_display_leaf_basename`. -/

/-- PARTIAL version of `pathsMatch_display_leaf`: extra hypothesis `hla` (case folding never maps
    another character onto the alternate separator; it holds for `mkCfg`, see `mkCfg_lower_alt`). -/
theorem pathsMatch_display_leaf_partial (c : Cfg) (h : c.WF) (hcs : c.cs = false)
    (hla : ∀ a, c.alt = some a → ∀ x, c.lower x = a → x = a) (p : Str) :
    lowerStr c (normalizePath c p true) = normalizePath c p false ∧
    basename c (normalizePath c p true) = basename c (normalizePath { c with cs := true } p false) := by
  have hl := comps_C' h.ok p
  constructor
  · rw [normalizePath_true_form h.ok hcs hla p, normalizePath_false_form h.ok p, lowerStr_canon h.ok,
      map_lowerStr_dispComps h.ok]
    congr 1
    exact List.map_congr_left (fun s _ => (fold_eq_lowerStr hcs s).symm)
  · have h2 : normalizePath { c with cs := true } p false = nrm c p := by
      rw [normalizePath_cs (c := { c with cs := true }) rfl]; rfl
    rw [h2, nrm_eq h.ok, normalizePath_true_form h.ok hcs hla p, basename_canon h.ok hl,
      basename_canon h.ok (hl.disp h.ok hla), getLast?_dispComps]

/-- the second conjunct of `pathsMatch_display_leaf` needs no extra hypothesis: the display form
    keeps the leaf exactly as the case-sensitive normalisation has it -/
theorem pathsMatch_display_leaf_basename (c : Cfg) (h : c.WF) (hcs : c.cs = false) (p : Str) :
    basename c (normalizePath c p true) = basename c (normalizePath { c with cs := true } p false) := by
  have h2 : normalizePath { c with cs := true } p false = nrm c p := by
    rw [normalizePath_cs (c := { c with cs := true }) rfl]; rfl
  rw [h2, basename_display h.ok hcs p]

/-! ### both flag values, optional arguments (follow-up to reviewer seed R4-C13) -/

/-- On a case-sensitive provider `normalize_path(p, for_display)` never consults the case map:
    for either flag value the result is the one obtained with ANY other per-character map `g` in
    place of `str.lower` (in particular the identity) and the default flag.  Holds for every
    configuration, drive-letter joins included. -/
theorem case_sensitive_normalize_preserves_case (c : Cfg) (hcs : c.cs = true) (p : Str) (fd : Bool)
    (g : Char → Char) :
    normalizePath c p fd = normalizePath { c with lower := g } p false := by
  simp only [normalizePath, hcs, if_true]
  rfl

/-- …and for_display is irrelevant there -/
theorem case_sensitive_normalize_flag_irrelevant (c : Cfg) (hcs : c.cs = true) (p : Str) :
    normalizePath c p true = normalizePath c p false := by
  simp [normalizePath, hcs]

/-- …and every character of the result is the separator or a character of the input (no
    character is replaced by its other-case variant) -/
theorem case_sensitive_normalize_chars (c : Cfg) (h : c.WF) (hcs : c.cs = true) (p : Str) (fd : Bool) :
    ∀ x ∈ normalizePath c p fd, x = c.sep ∨ x ∈ p := by
  intro x hx
  rw [normalizePath_cs hcs] at hx
  exact mem_nrm h.ok hx

/-- normalisation is idempotent for both flag values on case-sensitive providers (no extra guard) -/
theorem normalizePath_idem_cs (c : Cfg) (h : c.WF) (hcs : c.cs = true) (p : Str) (fd : Bool) :
    normalizePath c (normalizePath c p fd) fd = normalizePath c p fd :=
  normalizePath_idem_partial c h (fun e => by rw [hcs] at e; cases e) p fd

/-- on a case-sensitive provider the two equality flavours coincide -/
theorem pathsMatch_display_iff_default_cs (c : Cfg) (hcs : c.cs = true) (a b : Option Str) :
    pathsMatch c a b true = pathsMatch c a b false := by
  cases a <;> cases b <;> simp [pathsMatch, case_sensitive_normalize_flag_irrelevant c hcs]

/-- on a case-sensitive provider path equality (either flavour) is never case-folded: it is
    equality of the normal forms computed with the identity in place of `str.lower` -/
theorem pathsMatch_cs_exact (c : Cfg) (hcs : c.cs = true) (a b : Str) (fd : Bool) :
    pathsMatch c (some a) (some b) fd = true ↔
      normalizePath { c with lower := id } a false = normalizePath { c with lower := id } b false := by
  rw [pathsMatch_iff_normalize, case_sensitive_normalize_preserves_case c hcs a fd id,
    case_sensitive_normalize_preserves_case c hcs b fd id]

/-- What HEAD does for `for_display=True` on a case-insensitive provider: the folder part of the
    case-sensitive normal form is folded, the leaf is kept exactly. -/
theorem display_folds_folders_keeps_leaf (c : Cfg) (h : c.WF) (hcs : c.cs = false)
    (hla : ∀ a, c.alt = some a → ∀ x, c.lower x = a → x = a) (p : Str) :
    dirname c (normalizePath c p true)
      = lowerStr c (dirname c (normalizePath { c with cs := true } p false)) ∧
    basename c (normalizePath c p true) = basename c (normalizePath { c with cs := true } p false) := by
  refine ⟨?_, pathsMatch_display_leaf_basename c h hcs p⟩
  have hl := comps_C' h.ok p
  rw [nrm_eq_cs, nrm_eq h.ok, normalizePath_true_form h.ok hcs hla p, dirname_canon h.ok hl,
    dirname_canon h.ok (hl.disp h.ok hla), dropLast_dispComps, lowerStr_canon h.ok]

/-- `paths_match(a, b, for_display=True)` on a case-insensitive provider: exactly "folder parts
    equal after folding and leaves equal as they are". -/
theorem pathsMatch_display_iff_ci (c : Cfg) (h : c.WF) (hcs : c.cs = false)
    (hla : ∀ a, c.alt = some a → ∀ x, c.lower x = a → x = a) (a b : Str) :
    pathsMatch c (some a) (some b) true = true ↔
      lowerStr c (dirname c (normalizePath { c with cs := true } a false))
        = lowerStr c (dirname c (normalizePath { c with cs := true } b false)) ∧
      basename c (normalizePath { c with cs := true } a false)
        = basename c (normalizePath { c with cs := true } b false) := by
  rw [pathsMatch_iff_normalize]
  constructor
  · intro e
    have ha := display_folds_folders_keeps_leaf c h hcs hla a
    have hb := display_folds_folders_keeps_leaf c h hcs hla b
    rw [e] at ha
    exact ⟨ha.1.symm.trans hb.1, ha.2.symm.trans hb.2⟩
  · intro ⟨e1, e2⟩
    rw [nrm_eq_cs, nrm_eq_cs] at e1 e2
    rw [normalizePath_true_def hcs, normalizePath_true_def hcs, e1, e2]

/-- the display flavour of path equality is finer than the default one -/
theorem pathsMatch_display_implies_default (c : Cfg) (h : c.WF)
    (hla : c.cs = false → ∀ a, c.alt = some a → ∀ x, c.lower x = a → x = a) (a b : Str)
    (hm : pathsMatch c (some a) (some b) true = true) : pathsMatch c (some a) (some b) false = true := by
  cases hcs : c.cs with
  | true => rw [← pathsMatch_display_iff_default_cs c hcs]; exact hm
  | false =>
    rw [pathsMatch_iff_normalize] at hm ⊢
    rw [← (pathsMatch_display_leaf_partial c h hcs (hla hcs) a).1,
      ← (pathsMatch_display_leaf_partial c h hcs (hla hcs) b).1, hm]

/-- a path and its normal form (either flag) are the same path -/
theorem normalizePath_matches_self (c : Cfg) (h : c.WF)
    (hla : c.cs = false → ∀ a, c.alt = some a → ∀ x, c.lower x = a → x = a) (p : Str) (fd : Bool) :
    pathsMatch c (some (normalizePath c p fd)) (some p) false = true := by
  rw [pathsMatch_iff_normalize]
  cases fd with
  | false => exact normalizePath_idem_partial c h hla p false
  | true =>
    cases hcs : c.cs with
    | true =>
      rw [case_sensitive_normalize_flag_irrelevant c hcs]
      exact normalizePath_idem_partial c h hla p false
    | false =>
      have hl := comps_C' h.ok p
      rw [normalizePath_true_form h.ok hcs (hla hcs) p, normalizePath_false_form h.ok,
        normalizePath_false_form h.ok, C_canon h.ok (hl.disp h.ok (hla hcs))]
      congr 1
      have e : ∀ l : List Str, l.map (fold c) = l.map (lowerStr c) :=
        fun l => List.map_congr_left (fun s _ => fold_eq_lowerStr hcs s)
      rw [e, e, map_lowerStr_dispComps h.ok]

/-- `join(*paths)` with nested lists/tuples/`None`: nesting is irrelevant, only the flattened
    sequence of strings matters (so every `join` law above transfers) -/
theorem joinArgs_strs (c : Cfg) (ps : List Str) : joinArgs c (ps.map JArg.str) = join c ps := by
  rw [joinArgs, flattenArgs_strs]

theorem joinArgs_nested (c : Cfg) (l m r : List JArg) :
    joinArgs c (l ++ JArg.seq m :: r) = joinArgs c (l ++ m ++ r) := by
  simp [joinArgs, flattenArgs_append, flattenArgs, JArg.flatten]

theorem joinArgs_none (c : Cfg) (l r : List JArg) :
    joinArgs c (l ++ JArg.none :: r) = joinArgs c (l ++ r) := by
  simp [joinArgs, flattenArgs_append, flattenArgs, JArg.flatten]

/-- `is_subpath` / `is_subpath_of_root` with `None`: only two strings can be related -/
theorem isSubpathOpt_rel (c : Cfg) (f t : Option Str) (strict : Bool) (h : isSubpathOpt c f t strict ≠ .no) :
    ∃ f' t', f = some f' ∧ t = some t' ∧ isSubpathOpt c f t strict = isSubpath c f' t' strict := by
  cases f <;> cases t <;> simp [isSubpathOpt] at h ⊢

/-- `is_subpath_of_root(target, strict)` is `is_subpath(root_path, target, strict)`, flag included -/
theorem isSubpathOfRoot_eq (c : Cfg) (root target : Option Str) (strict : Bool) :
    isSubpathOfRoot c root target strict = isSubpathOpt c root target strict := rfl

/-- equal (normalised, folded) non-empty paths: the default answer is the separator ("same") -/
theorem isSubpath_same (c : Cfg) (f t : Str) (hf : f ≠ []) (ht : t ≠ [])
    (he : (if c.cs then normSeps c f else lowerStr c (normSeps c f)) =
            (if c.cs then normSeps c t else lowerStr c (normSeps c t))) :
    isSubpath c f t false = .rel [c.sep] := by
  unfold isSubpath
  simp [hf, ht, he]

/-- `strict=True` differs from the default only on equal (normalised, folded) paths: there it
    answers `False`; everywhere else it is the default answer -/
theorem isSubpath_strict (c : Cfg) (f t : Str) :
    isSubpath c f t true =
      if f ≠ [] ∧ t ≠ [] ∧
          (if c.cs then normSeps c f else lowerStr c (normSeps c f)) =
            (if c.cs then normSeps c t else lowerStr c (normSeps c t))
      then .no else isSubpath c f t false := by
  unfold isSubpath
  by_cases hf : f = []
  · simp [hf]
  · by_cases ht : t = []
    · simp [ht]
    · by_cases he : (if c.cs then normSeps c f else lowerStr c (normSeps c f)) =
          (if c.cs then normSeps c t else lowerStr c (normSeps c t))
      · simp [hf, ht, he]
      · simp [hf, ht, he]


theorem translate_outside_none (cF cT : Cfg) (rF rT p : Str) (h : isSubpath cF rF p false = .no) :
    translate cF cT rF rT p = none := by
  simp [translate, h]

theorem translate_inside_some (cF cT : Cfg) (hF : cF.WF) (rF rT p : Str)
    (h : isSubpath cF rF p false ≠ .no) : ∃ q, translate cF cT rF rT p = some q := by
  unfold translate
  cases hr : isSubpath cF rF p false with
  | no => exact absurd hr h
  | rel r =>
    have := isSubpath_rel_ne_nil hr
    cases r with
    | nil => exact absurd rfl this
    | cons x xs => exact ⟨join cT [rT, x :: xs], by simp⟩

theorem translate_lands_in_root (cF cT : Cfg) (hF : cF.WF) (hT : cT.WF) (rF rT p q : Str)
    (hrT : Absolute cT rT) (h : translate cF cT rF rT p = some q) : isSubpath cT rT q false ≠ .no := by
  obtain ⟨t, ht⟩ := hrT
  unfold translate at h
  cases hr : isSubpath cF rF p false with
  | no => simp [hr] at h
  | rel r =>
    simp only [hr] at h
    split at h
    · cases h
    · cases h
      rw [isSubpath_join_gen hT.ok rT r t ht]
      exact fun e => by cases e

/- FALSE AS STATED — omitted.  Full statement:

theorem translate_roundtrip (cF cT : Cfg) (hF : cF.WF) (hT : cT.WF) (rF rT p q : Str)
    (hrF : Absolute cF rF) (hrT : Absolute cT rT) (h : translate cF cT rF rT p = some q) :
    ∃ p', translate cT cF rT rF q = some p' ∧ pathsMatch cF (some p') (some p) false = true

Nothing relates the separators of the two sides.  With `cexF` (sep `/`, no alt) and `cexT`
(sep `/`, alt `\`), both well formed, roots `"/"`:
  translate cexF cexT "/" "/" "/\" = some "/"     (the file named `\` is read as a separator)
  translate cexT cexF "/" "/" "/"  = some "/"
  pathsMatch cexF (some "/") (some "/\") false = false
Configurations with different `sep` fail the same way (e.g. sep `/` → sep `\`, roots `"/"`, `"\"`,
`p = "/"`).  See `translate_roundtrip_counterexample` (proved) at the end of this file. -/

/-- PARTIAL version of `translate_roundtrip`: extra hypotheses `hsep` (both sides use the same
    separator) and `halt` (the side translated to has no alternate separator, or the same one). -/
theorem translate_roundtrip_partial (cF cT : Cfg) (hF : cF.WF) (hT : cT.WF)
    (hsep : cT.sep = cF.sep) (halt : cT.alt = none ∨ cT.alt = cF.alt) (rF rT p q : Str)
    (hrF : Absolute cF rF) (hrT : Absolute cT rT) (h : translate cF cT rF rT p = some q) :
    ∃ p', translate cT cF rT rF q = some p' ∧ pathsMatch cF (some p') (some p) false = true := by
  obtain ⟨tF, htF⟩ := hrF
  obtain ⟨tT, htT⟩ := hrT
  unfold translate at h
  cases hr : isSubpath cF rF p false with
  | no => simp [hr] at h
  | rel r =>
    simp only [hr] at h
    split at h
    · cases h
    · cases h
      obtain ⟨hrA, hrC⟩ := isSubpath_rel_spec hF.ok hr
      have hrT : AltFree cT r := by
        rcases halt with e | e
        · intro a ha; rw [e] at ha; cases ha
        · intro a ha; rw [e] at ha; exact hrA a ha
      refine ⟨join cF [rF, cT.sep :: relPart cT r], ?_, ?_⟩
      · simp [translate, isSubpath_join_gen hT.ok rT r tT htT]
      · apply pathsMatch_false_of hF.ok
        rw [C_join hF.ok, ← hrC]
        simp only [List.flatMap_cons, List.flatMap_nil, List.append_nil, List.map_append]
        rw [hsep, C_sep_cons hF.ok, C_relPart_other hsep hrA hrT]

theorem translate_prefix_sibling_none (cF cT : Cfg) (hF : cF.WF) (rF rT t : Str) (x : Char)
    (hf : normSeps cF rF ≠ []) (hroot : normSeps cF rF ≠ [cF.sep]) (hx : x ≠ cF.sep ∧ cF.alt ≠ some x) :
    translate cF cT rF rT (normSeps cF rF ++ x :: t) = none :=
  translate_outside_none cF cT rF rT _ (isSubpath_prefix_sibling cF hF rF t x false hf hroot hx)

/-- non-vacuity: the mock providers' configuration satisfies the guard, and a concrete folder /
    relative part satisfy the hypotheses of the subpath laws -/
theorem mkCfg_WF (cs : Bool) (alt : Bool) : (mkCfg cs false alt).WF where
  alt_ne_sep := by
    intro a ha
    cases alt <;> simp [mkCfg] at ha ⊢
    subst ha; decide
  lower_idem := simpleLower_idem
  lower_sep := simpleLower_eq_slash
  noWin := rfl

example : Absolute (mkCfg false false) "/Ab".toList ∧ HasName (mkCfg false false) "x/y".toList :=
  ⟨⟨"Ab".toList, by decide⟩, ⟨'x', by decide⟩⟩

/-- non-vacuity of the extra hypothesis `hla` of the `_partial` theorems: the mock providers'
    case folding never produces the alternate separator from another character -/
theorem mkCfg_lower_alt (cs win alt : Bool) :
    ∀ a, (mkCfg cs win alt).alt = some a → ∀ x, (mkCfg cs win alt).lower x = a → x = a := by
  intro a ha x hx
  cases alt <;> simp [mkCfg] at ha hx
  subst ha
  exact (simpleLower_eq_backslash x).1 hx

/-! ### refutations of the three statements that are false under `Cfg.WF` alone -/

/-- a case folding allowed by `Cfg.WF` that maps `B` onto the alternate separator -/
def cexLower (ch : Char) : Char := if ch = 'B' then '\\' else ch

/-- case-insensitive configuration, `/` with alternate `\`, folding `B ↦ \` -/
def cexCfg : Cfg := { sep := '/', alt := some '\\', cs := false, win := false, lower := cexLower }

theorem cexCfg_WF : cexCfg.WF where
  alt_ne_sep := by intro a ha; simp [cexCfg] at ha ⊢; subst ha; decide
  lower_idem := by
    intro x; simp only [cexCfg, cexLower]
    by_cases hx : x = 'B'
    · subst hx; decide
    · simp [hx]
  lower_sep := by
    intro x; simp only [cexCfg, cexLower]
    by_cases hx : x = 'B'
    · subst hx; decide
    · simp [hx]
  noWin := rfl

/-- `normalizePath_idem` is FALSE as stated: with `cexCfg`, `normalize_path("B") = "/\"` but
    `normalize_path("/\") = "/"`. -/
theorem normalizePath_idem_counterexample :
    ¬ (∀ (c : Cfg) (_ : c.WF) (p : Str) (fd : Bool),
        normalizePath c (normalizePath c p fd) fd = normalizePath c p fd) := by
  intro hall
  have := hall cexCfg cexCfg_WF ['B'] false
  revert this
  decide

/-- `pathsMatch_display_leaf` is FALSE as stated (first conjunct): with `cexCfg` and `p = "B/a"`
    the display form is `"/a"`, the comparison form `"/\/a"`. -/
theorem pathsMatch_display_leaf_counterexample :
    ¬ (∀ (c : Cfg) (_ : c.WF) (_ : c.cs = false) (p : Str),
        lowerStr c (normalizePath c p true) = normalizePath c p false ∧
        basename c (normalizePath c p true) = basename c (normalizePath { c with cs := true } p false)) := by
  intro hall
  have := (hall cexCfg cexCfg_WF rfl ['B', '/', 'a']).1
  revert this
  decide

/-- two well-formed configurations that disagree on the alternate separator -/
def cexF : Cfg := { sep := '/', alt := none, cs := true, win := false, lower := id }
def cexT : Cfg := { sep := '/', alt := some '\\', cs := true, win := false, lower := id }

theorem cexF_WF : cexF.WF where
  alt_ne_sep := by intro a ha; simp [cexF] at ha
  lower_idem := fun _ => rfl
  lower_sep := fun _ => Iff.rfl
  noWin := rfl

theorem cexT_WF : cexT.WF where
  alt_ne_sep := by intro a ha; simp [cexT] at ha ⊢; subst ha; decide
  lower_idem := fun _ => rfl
  lower_sep := fun _ => Iff.rfl
  noWin := rfl

/-- `translate_roundtrip` is FALSE as stated: from a side without alternate separator, `"/\"` (a
    file literally named `\` in the root) translates to `"/"` on a side whose alternate separator
    is `\`, and comes back as `"/"`, which does not match `"/\"`. -/
theorem translate_roundtrip_counterexample :
    ¬ (∀ (cF cT : Cfg) (_ : cF.WF) (_ : cT.WF) (rF rT p q : Str)
        (_ : Absolute cF rF) (_ : Absolute cT rT) (_ : translate cF cT rF rT p = some q),
        ∃ p', translate cT cF rT rF q = some p' ∧ pathsMatch cF (some p') (some p) false = true) := by
  intro hall
  obtain ⟨p', h1, h2⟩ := hall cexF cexT cexF_WF cexT_WF ['/'] ['/'] ['/', '\\'] ['/']
    ⟨[], by decide⟩ ⟨[], by decide⟩ (by decide)
  have : p' = ['/'] := by
    have h3 : translate cexT cexF ['/'] ['/'] ['/'] = some ['/'] := by decide
    rw [h3] at h1; cases h1; rfl
  subst this
  revert h2
  decide


/-! ### strict sub-path is a strict order (round 6)

`is_subpath(folder, target, strict=True)` being truthy forces the separator-normalised target to be strictly
longer than the folder, for every configuration (no well-formedness guard needed); hence it is irreflexive and
asymmetric.  The engine relies on this when it decides that an object "left the root" (C12): a root can never be
reported as lying strictly inside an object that itself lies strictly inside the root. -/

private theorem isPrefix_single_eq (s : Char) (t : Str) (h : isPrefix [s] t = true) (hl : t.length ≤ 1) :
    t = [s] := by
  match t, h, hl with
  | [y], h, _ => simp [isPrefix] at h; simp [h]
  | [], h, _ => simp [isPrefix] at h
  | _ :: _ :: _, _, hl => simp at hl

private theorem strict_core (sep : Char) (ff tf ffc tfc : Str)
    (hl1 : ffc.length = ff.length) (hl2 : tfc.length = tf.length)
    (h : (if (ffc == tfc) = true then SubRes.no
          else if (ffc == [sep] && isPrefix [sep] tfc) = true then SubRes.rel tf
          else if (decide (tf.length > ff.length) && (tf[ff.length]? == some sep)) = true then
            (if isPrefix ffc tfc = true then SubRes.rel (tf.drop ff.length) else SubRes.no)
          else SubRes.no).truthy = true) :
    ff.length < tf.length := by
  split at h
  · simp [SubRes.truthy] at h
  · rename_i he
    split at h
    · rename_i hr
      simp only [Bool.and_eq_true, beq_iff_eq] at hr
      rcases Nat.lt_or_ge ff.length tf.length with hlt | hge
      · exact hlt
      · exfalso
        have h1 : ffc.length = 1 := by rw [hr.1]; rfl
        have : tfc = [sep] := isPrefix_single_eq _ _ hr.2 (by omega)
        exact he (by rw [hr.1, this]; simp)
    · split at h
      · rename_i hl
        simp only [Bool.and_eq_true, decide_eq_true_eq] at hl
        exact hl.1
      · simp [SubRes.truthy] at h

/-- A strict sub-path is strictly longer (after separator normalisation) than its folder. -/
theorem isSubpath_strict_longer (c : Cfg) (f t : Str)
    (h : (isSubpath c f t true).truthy = true) :
    (normSeps c f).length < (normSeps c t).length := by
  unfold isSubpath at h
  by_cases hft : (f.isEmpty || t.isEmpty) = true
  · simp [hft, SubRes.truthy] at h
  · simp only [hft, Bool.false_eq_true, if_false, if_true] at h
    exact strict_core c.sep _ _ _ _ (by split <;> simp [lowerStr]) (by split <;> simp [lowerStr]) h

/-- `is_subpath(…, strict=True)` is irreflexive and asymmetric: a folder is never strictly inside itself, and two
    paths are never strictly inside each other (so a sync root cannot lie beneath an object that lies beneath it). -/
theorem isSubpath_strict_irrefl (c : Cfg) (f : Str) : (isSubpath c f f true).truthy = false := by
  cases h : (isSubpath c f f true).truthy
  · rfl
  · have := isSubpath_strict_longer c f f h; omega

theorem isSubpath_strict_asymm (c : Cfg) (f t : Str) (h : (isSubpath c f t true).truthy = true) :
    (isSubpath c t f true).truthy = false := by
  cases h' : (isSubpath c t f true).truthy
  · rfl
  · have h1 := isSubpath_strict_longer c f t h
    have h2 := isSubpath_strict_longer c t f h'
    omega

/-- non-vacuity: the hypothesis of `isSubpath_strict_longer/asymm` is met, on a case-sensitive and on a
    case-folding configuration (mixed case and alternate separators in the target) -/
example : (isSubpath (mkCfg true false) "/a".toList "/a/b".toList true).truthy = true := by decide
example : (isSubpath (mkCfg false false) "/Root".toList "\\rOOT\\x".toList true).truthy = true := by decide
end CS.Path
