import Csverif.Model.Spec.Faults
import Csverif.Props.C18
/-
C10 — transient provider faults: survive, report, retry, still converge.
Model: Model/Spec/Faults.lean (exception hierarchy, `notify_from_exception`, the except clauses of
`SyncManager._sync_one_entry` / `_validate_provider_roots` / `SyncManager.do` / `EventManager.do`, the loop's clauses,
the punting work queue).  The loop itself: Model/Runnable.lean (C18).
The decision-table theorems are over the finite hierarchy (`cases e <;> decide`); the queue theorems are by induction.
"After the faults stop the sides converge, nothing lost" is not a theorem about a model of the whole engine: it is
checked on real runs by the monitor (`Driver/MonC10.lean`, which executes `faultOk`/`faultReported`/`escapeOk`, and the
`c01`/`c02` monitors of C01/C02).
-/
namespace CS.Faults
set_option linter.unusedVariables false

/-! ## A. the hierarchy -/

theorem Exc.all_complete (e : Exc) : e ∈ Exc.all := by cases e <;> decide

/-- `isSub` is the reflexive-transitive closure of the direct-base relation of exceptions.py -/
theorem isSub_iff_parent (a b : Exc) :
    isSub a b = true ↔ a = b ∨ ∃ p, a.parent = some p ∧ isSub p b = true := by
  cases a <;> cases b <;> simp [Exc.parent] <;> decide

theorem isSub_refl (a : Exc) : isSub a a = true := by cases a <;> decide

/-- the temporary family is exactly these three classes -/
theorem temporary_family (e : Exc) :
    isSub e .temporary = true ↔ e = .temporary ∨ e = .outOfSpace ∨ e = .resourceModified := by
  cases e <;> decide

/-- the comment at event.py:177 is wrong: CloudRootMissingError is not a CloudTemporaryError -/
theorem root_missing_not_temporary : isSub .rootMissing .temporary = false := by decide

/-- every class of exceptions.py is an Exception (so the loop's second clause would catch it) -/
theorem cloud_classes_are_exceptions : ∀ e ∈ Exc.cloudClasses, isSub e .cloudException = true ∧ isSub e .exception_ = true := by
  decide

/-! ## B. notify_from_exception -/

/-- every condition the property lists yields the notification of the matching kind -/
theorem notify_matching_kind (e : Exc) (k : NKind) (h : matchesKind e k = true) : notifyFromException e = some k := by
  cases e <;> cases k <;> first | (exact absurd h (by decide)) | decide

/-- and nothing else is ever reported under one of those kinds -/
theorem notify_only_matching (e : Exc) (k : NKind) (h : notifyFromException e = some k) :
    matchesKind e k = true ∨ (k = .rootMissingError ∧ e = .rootMissing) := by
  cases e <;> cases k <;> first | (exact absurd h (by decide)) | decide

/-- classes that produce no notification at all: exactly these -/
theorem notify_silent_iff (e : Exc) :
    notifyFromException e = none ↔
      e ∈ [.baseException, .exception_, .cloudException, .fileNotFound, .fileExists, .token, .cursor, .tooManyRetries,
           .corrupt, .backoffError, .otherException, .otherBase] := by
  cases e <;> decide

/-! ## C. a sync step -/

/-- a fault of a listed kind raised while an entry is being synchronised: the notification of the matching kind is
    queued (exactly that one), the entry is punted (not dropped), and only the backoff request leaves the step -/
theorem sync_entry_reports (e : Exc) (k : NKind) (h : matchesKind e k = true) :
    (syncOneEntry (.raised e)).1.notes = [k] ∧ (syncOneEntry (.raised e)).1.punts = 1 ∧
    (syncOneEntry (.raised e)).1.raised = some .backoffError ∧ (syncOneEntry (.raised e)).2 = false := by
  cases e <;> cases k <;> first | (exact absurd h (by decide)) | decide

/-- whatever Exception the attempt raises, the failing entry is punted exactly once and the step ends with the
    backoff request: no Exception escapes `_sync_one_entry` -/
theorem failing_entry_is_punted_not_dropped (e : Exc) (h : isSub e .exception_ = true) :
    (syncOneEntry (.raised e)).1.punts = 1 ∧ (syncOneEntry (.raised e)).1.raised = some .backoffError := by
  cases e <;> first | (exact absurd h (by decide)) | decide

/-- the classes that do leave `_sync_one_entry` as themselves: exactly the non-Exception BaseExceptions -/
theorem sync_entry_escapes_iff (e : Exc) :
    (syncOneEntry (.raised e)).1.raised ≠ some .backoffError ↔ e = .baseException ∨ e = .otherBase := by
  cases e <;> decide

/-- the temporary-style clause does not commit the state, the catch-all clause does (manager.py:193 vs 201) -/
theorem sync_entry_commit_rule (e : Exc) (h : isSub e .exception_ = true) :
    (syncOneEntry (.raised e)).1.commits =
      if isAny e [.temporary, .disconnected, .outOfSpace, .token, .namespace_] then 0 else 1 := by
  cases e <;> first | (exact absurd h (by decide)) | decide

/-- an expired token in a sync step: punted and backed off, but no notification (none is demanded) -/
theorem sync_entry_token_silent :
    (syncOneEntry (.raised .token)).1 = { punts := 1, raised := some .backoffError } := by decide

/-- a successful attempt commits once and raises nothing -/
theorem sync_entry_success (a b : Bool) : syncOneEntry (.returned a b) = ({ commits := 1 }, a || b) := rfl

/- FULL STATEMENT — false of the code as it is (kept for the record):
theorem sync_do_reports (ph : SyncPhase) (e : Exc) (k : NKind) (h : matchesKind e k = true) :
    (syncDo ph e).notes = [k] ∧ (syncDo ph e).raised = some .backoffError
It fails for `ph = .change`: `SyncManager.do` calls `self.state.change(self.aging)` (manager.py:227) outside every
try statement, and `change` looks up missing paths with `provider.info_oid` (state.py:1184-1187). -/

/-- everywhere but in that unguarded lookup a listed fault is reported and becomes a backoff request -/
theorem sync_do_reports_partial (ph : SyncPhase) (hph : ph ≠ .change) (e : Exc) (k : NKind) (h : matchesKind e k = true) :
    (syncDo ph e).notes = [k] ∧ (syncDo ph e).raised = some .backoffError := by
  cases ph
  · cases e <;> cases k <;> first | (exact absurd h (by decide)) | decide
  · exact absurd rfl hph
  · cases e <;> cases k <;> first | (exact absurd h (by decide)) | decide

/-- kernel-checked counterexample: a temporary error raised by the path lookup inside `state.change` leaves
    `SyncManager.do` as it is, with no notification (replayed on the real engine by the harness:
    known finding `fault-in-change-lookup-unreported`) -/
theorem sync_do_change_unreported :
    matchesKind .temporary .temporaryError = true ∧
    (syncDo .change .temporary).notes = [] ∧ (syncDo .change .temporary).raised = some .temporary := by decide

/-- root validation (manager.py:205-221): every Exception becomes a backoff request; cloud ones are reported
    (this is the one place a ROOT_MISSING_ERROR notification comes from) -/
theorem roots_never_escape (e : Exc) (h : isSub e .exception_ = true) : (validateRoots e).raised = some .backoffError := by
  cases e <;> first | (exact absurd h (by decide)) | decide

theorem roots_report_root_missing : (validateRoots .rootMissing).notes = [.rootMissingError] := by decide

/-! ## D. an event-intake step -/

/- FULL STATEMENT — false of the code as it is (kept for the record):
theorem event_do_reports (e : Exc) (k : NKind) (h : matchesKind e k = true) :
    (eventDo true e).notes = [k] ∧ (eventDo true e).raised = some .backoffError
It fails for CloudFileNameError, which `EventManager.do` does not catch (no provider raises it from `events()`,
`walk` or `info_oid`, so this is a fact about the table, not a reachable defect). -/

theorem event_do_reports_partial (e : Exc) (k : NKind) (h : matchesKind e k = true) (hn : isSub e .fileName = false) :
    (eventDo true e).notes = [k] ∧ (eventDo true e).raised = some .backoffError := by
  cases e <;> cases k <;> first | (exact absurd h (by decide)) | (exact absurd hn (by decide)) | decide

/-- kernel-checked counterexample for the full statement -/
theorem event_do_filename_escapes :
    matchesKind .fileName .fileNameError = true ∧ (eventDo true .fileName).notes = [] ∧
    (eventDo true .fileName).raised = some .fileName := by decide

/-- exactly these classes leave `EventManager.do` unclassified (everything else becomes the backoff request) -/
theorem event_do_escapes_iff (b : Bool) (e : Exc) :
    (eventDo b e).raised ≠ some .backoffError ↔
      e ∈ [.baseException, .exception_, .cloudException, .fileNotFound, .fileName, .rootMissing, .fileExists,
           .tooManyRetries, .corrupt, .otherException, .otherBase] := by
  cases b <;> cases e <;> decide

/-- what really happens to CloudRootMissingError in the event manager: it is NOT handled by the first clause
    (it is not a CloudTemporaryError); it leaves `do()` unclassified and unreported — the service loop then treats
    it like any other exception (`loop_absorbs_escapes`) -/
theorem root_missing_escapes_event_do (b : Bool) : eventDo b .rootMissing = { raised := some .rootMissing } := by
  cases b <;> decide

/-- out-of-space is a temporary error, so the event manager reports it under its own kind -/
theorem event_do_out_of_space : (eventDo true .outOfSpace).notes = [.outOfSpaceError] := by decide

theorem event_do_token : eventDo true .token = { needAuth := true, raised := some .backoffError } := by decide

theorem event_do_cursor :
    eventDo true .cursor = { cursorReset := true, walkForgot := true, needWalk := true, raised := some .backoffError } := by
  decide

/-- without a notification manager nothing is reported (event.py:180) -/
theorem event_do_without_nmgr_silent (e : Exc) : (eventDo false e).notes = [] := by cases e <;> decide

/-! ## E. the service loop absorbs whatever leaves a step (reuse of C18) -/

/-- whatever leaves `do()` — the backoff request, an unclassified exception such as CloudRootMissingError or the
    unreported lookup fault, even a BaseException — the loop escalates its backoff and goes on -/
theorem loop_absorbs_escapes (p : Runnable.Params) (b : Rat) (g : Bool) (e : Exc) :
    Runnable.after p b (loopOutcome g (some e)) = Runnable.incr p b := by
  cases e <;> rfl

/-- the loops keep running: for every sequence of step results (returned with/without progress, or anything
    raised) exactly one sleep is requested per iteration, none is skipped and the loop never ends -/
theorem loops_survive_all_faults (p : Runnable.Params) (sleep b : Rat) (rs : List (Bool × Option Exc)) :
    (Runnable.runSeq p sleep b (rs.map (fun r => loopOutcome r.1 r.2))).2.length = rs.length := by
  rw [Runnable.loop_survives_any_outcome]; simp

theorem runSeq_all_raised (p : Runnable.Params) (sleep : Rat) (es : List Exc) (g : Bool) (k : Nat) :
    (Runnable.runSeq p sleep (Runnable.failK p k) (es.map (fun e => loopOutcome g (some e)))).1 =
      Runnable.failK p (k + es.length) := by
  induction es generalizing k with
  | nil => rfl
  | cons e es ih =>
    simp only [List.map_cons, Runnable.runSeq, List.length_cons]
    rw [loop_absorbs_escapes]
    have : Runnable.incr p (Runnable.failK p k) = Runnable.failK p (k+1) := rfl
    rw [this, ih (k+1)]
    congr 1; omega

/-- while faults keep coming the wait grows geometrically up to the maximum (C18's law, instantiated) -/
theorem consecutive_faults_back_off (p : Runnable.Params) (sleep : Rat) (h0 : 0 ≤ p.mn) (h1 : 1 ≤ p.mult)
    (es : List Exc) (e : Exc) (g : Bool) :
    (Runnable.runSeq p sleep 0 ((e :: es).map (fun e => loopOutcome g (some e)))).1 =
      min p.mx (p.mn * p.mult ^ es.length) := by
  have h := runSeq_all_raised p sleep (e :: es) g 0
  simp only [Runnable.failK] at h
  rw [h]
  simpa [Nat.add_comm] using Runnable.backoff_after_k p h0 h1 es.length

/-- a step that returns after doing something clears the backoff -/
theorem success_after_faults_clears (p : Runnable.Params) (b : Rat) (hb : 0 ≤ b) :
    Runnable.after p b (loopOutcome true none) = 0 := Runnable.success_clears p b hb

/-! ## F. the tables: the branch-by-branch model is the interpreter over the audited tables -/

theorem notify_is_chain (e : Exc) : notifyFromException e = chainNotify auditedNotifyChain e := by
  cases e <;> decide

theorem sync_entry_is_table (e : Exc) :
    (syncOneEntry (.raised e)).1 = runHandlers auditedNotifyChain true auditedSyncHandlers e := by
  cases e <;> decide

theorem roots_is_table (e : Exc) : validateRoots e = runHandlers auditedNotifyChain true auditedRootsHandlers e := by
  cases e <;> decide

theorem event_do_is_table (b : Bool) (e : Exc) :
    eventDo b e = runHandlers auditedNotifyChain b auditedEventHandlers e := by
  cases b <;> cases e <;> decide

/-- the loop's clause list catches every class, and classifies it as `loopOutcome` does -/
theorem loop_is_table (e : Exc) (g : Bool) :
    (auditedLoopHandlers.findIdx? (fun h => isAny e h.classes)) =
      some (match loopOutcome g (some e) with | .backoffReq => 0 | .exc => 1 | _ => 2) := by
  cases e <;> cases g <;> decide

theorem hierarchy_is_parent : ∀ c ∈ Exc.cloudClasses, (c, (c.parent).getD .baseException) ∈ auditedHierarchy := by
  decide

theorem sync_do_change_is_unguarded : auditedChangeGuarded = false := rfl

/-! ## G. punting: retry, no starvation, nothing dropped -/

theorem minPrio_eq_none {q : List QEnt} (h : minPrio q = none) : q = [] := by
  cases q with
  | nil => rfl
  | cons e es =>
    simp only [minPrio] at h
    cases hm : minPrio es <;> simp [hm] at h

theorem minPrio_le {q : List QEnt} {m : Int} (h : minPrio q = some m) : ∀ e ∈ q, m ≤ e.prio := by
  induction q generalizing m with
  | nil => simp [minPrio] at h
  | cons e es ih =>
    intro x hx
    simp only [minPrio] at h
    cases hm : minPrio es with
    | none =>
      have := minPrio_eq_none hm
      subst this
      simp [hm] at h
      simp at hx
      subst hx; omega
    | some m' =>
      simp [hm] at h
      have ih' := ih hm
      rcases List.mem_cons.mp hx with rfl | hx
      · split at h <;> omega
      · have := ih' x hx
        split at h <;> omega

theorem minPrio_attained {q : List QEnt} {m : Int} (h : minPrio q = some m) : ∃ e ∈ q, e.prio = m := by
  induction q generalizing m with
  | nil => simp [minPrio] at h
  | cons e es ih =>
    simp only [minPrio] at h
    cases hm : minPrio es with
    | none => simp [hm] at h; exact ⟨e, by simp, h⟩
    | some m' =>
      simp [hm] at h
      split at h
      · exact ⟨e, by simp, h⟩
      · obtain ⟨x, hx, hxm⟩ := ih hm
        exact ⟨x, List.mem_cons_of_mem _ hx, by omega⟩

/-- ids of the entries that will eventually succeed -/
def finIds (q : List QEnt) : List Nat := (finiteEnts q).map (·.id)
/-- ids of the permanently failing entries -/
def permIds (q : List QEnt) : List Nat := (q.filter (fun e => e.fails.isNone)).map (·.id)

theorem finiteEnts_cons (e : QEnt) (es : List QEnt) :
    finiteEnts (e :: es) = if e.fails.isSome then e :: finiteEnts es else finiteEnts es := by
  simp only [finiteEnts, List.filter_cons]

theorem finIds_cons (e : QEnt) (es : List QEnt) :
    finIds (e :: es) = if e.fails.isSome then e.id :: finIds es else finIds es := by
  simp only [finIds, finiteEnts_cons]
  split <;> simp

theorem permIds_cons (e : QEnt) (es : List QEnt) :
    permIds (e :: es) = if e.fails.isNone then e.id :: permIds es else permIds es := by
  simp only [permIds, List.filter_cons]
  split <;> simp

/-- one attempt does exactly one unit of the remaining work, as long as the priority being served is below `B` -/
theorem work_procFirst (B m : Int) (hB : m < B) (q : List QEnt) (hex : ∃ e ∈ q, e.prio = m) :
    work B (procFirst m q).1 + 1 = work B q := by
  induction q with
  | nil => obtain ⟨e, he, _⟩ := hex; simp at he
  | cons e es ih =>
    simp only [procFirst]
    by_cases hp : e.prio = m
    · simp only [hp, if_true]
      cases hf : e.fails with
      | none =>
        simp only [work, weight, hf, punt]
        have : (B - (m + 1)).toNat + 1 = (B - e.prio).toNat := by omega
        omega
      | some k =>
        cases k with
        | zero => simp only [work, weight, hf]; omega
        | succ k => simp only [work, weight, hf]; omega
    · simp only [hp, if_false, work]
      have hex' : ∃ x ∈ es, x.prio = m := by
        obtain ⟨x, hx, hxm⟩ := hex
        rcases List.mem_cons.mp hx with rfl | hx
        · exact absurd hxm hp
        · exact ⟨x, hx, hxm⟩
      have := ih hex'
      omega

theorem bounded_procFirst (B m : Int) (q : List QEnt) (hb : boundedBy B q) : boundedBy B (procFirst m q).1 := by
  induction q with
  | nil => intro e he; simp [procFirst] at he
  | cons e es ih =>
    have hbes : boundedBy B es := fun x hx => hb x (List.mem_cons_of_mem _ hx)
    simp only [procFirst]
    by_cases hp : e.prio = m
    · simp only [hp, if_true]
      cases hf : e.fails with
      | none =>
        intro x hx k hk
        rcases List.mem_cons.mp hx with rfl | hx
        · simp at hk
        · exact hbes x hx k hk
      | some k =>
        cases k with
        | zero => exact hbes
        | succ k =>
          intro x hx j hj
          rcases List.mem_cons.mp hx with rfl | hx
          · simp at hj
            subst hj
            have := hb e (by simp) (k+1) hf
            simp only [punt]; omega
          · exact hbes x hx j hj
    · simp only [hp, if_false]
      intro x hx k hk
      rcases List.mem_cons.mp hx with rfl | hx
      · exact hb _ (by simp) k hk
      · exact ih hbes x hx k hk

/-- an attempt never loses an entry: it is still queued, or it was the one synchronised -/
theorem procFirst_keeps (m : Int) (q : List QEnt) (i : Nat) (h : i ∈ finIds q) :
    i ∈ finIds (procFirst m q).1 ∨ (procFirst m q).2 = some i := by
  induction q with
  | nil => simp [finIds, finiteEnts] at h
  | cons e es ih =>
    rw [finIds_cons] at h
    simp only [procFirst]
    by_cases hp : e.prio = m
    · simp only [hp, if_true]
      cases hf : e.fails with
      | none =>
        rw [hf] at h
        simp at h
        left
        rw [finIds_cons]
        simp
        exact h
      | some k =>
        rw [hf] at h
        simp at h
        cases k with
        | zero =>
          rcases h with h | h
          · right; simp [h]
          · left; exact h
        | succ k =>
          left
          rw [finIds_cons]
          simp
          exact h
    · simp only [hp, if_false]
      rw [finIds_cons]
      cases hf : e.fails.isSome
      · simp [hf] at h ⊢
        exact ih h
      · simp [hf] at h ⊢
        rcases h with h | h
        · left; left; exact h
        · rcases ih h with h' | h'
          · left; right; exact h'
          · right; exact h'

/-- the permanently failing entries are set aside, never removed, never marked synchronised -/
theorem procFirst_perm (m : Int) (q : List QEnt) :
    permIds (procFirst m q).1 = permIds q ∧ ∀ i, (procFirst m q).2 = some i → i ∈ finIds q := by
  induction q with
  | nil => simp [procFirst, permIds]
  | cons e es ih =>
    simp only [procFirst]
    by_cases hp : e.prio = m
    · simp only [hp, if_true]
      cases hf : e.fails with
      | none => simp [permIds_cons, hf]
      | some k =>
        cases k with
        | zero => simp [permIds_cons, finIds_cons, hf]
        | succ k => simp [permIds_cons, hf]
    · simp only [hp, if_false]
      obtain ⟨ih1, ih2⟩ := ih
      constructor
      · rw [permIds_cons, permIds_cons, ih1]
      · intro i hi
        have := ih2 i hi
        rw [finIds_cons]
        split
        · exact List.mem_cons_of_mem _ this
        · exact this

theorem finiteEnts_nil_procFirst (m : Int) (q : List QEnt) (h : finiteEnts q = []) : finiteEnts (procFirst m q).1 = [] := by
  induction q with
  | nil => rfl
  | cons e es ih =>
    rw [finiteEnts_cons] at h
    cases hf : e.fails with
    | some k => simp [hf] at h
    | none =>
      rw [hf] at h
      simp at h
      simp only [procFirst]
      by_cases hp : e.prio = m
      · simp only [hp, if_true, hf]
        rw [finiteEnts_cons]
        simp
        exact h
      · simp only [hp, if_false]
        rw [finiteEnts_cons]
        simp [hf]
        exact ih h

theorem finiteEnts_nil_qStep (s : QState) (h : finiteEnts s.q = []) : finiteEnts (qStep s).q = [] := by
  unfold qStep
  cases hm : minPrio s.q with
  | none => exact h
  | some m => exact finiteEnts_nil_procFirst m s.q h

theorem finiteEnts_nil_qRun (n : Nat) (s : QState) (h : finiteEnts s.q = []) : finiteEnts (qRun n s).q = [] := by
  induction n generalizing s with
  | zero => exact h
  | succ n ih => exact ih (qStep s) (finiteEnts_nil_qStep s h)

theorem work_pos_of_finite (B : Int) (q : List QEnt) (h : finiteEnts q ≠ []) : 0 < work B q := by
  induction q with
  | nil => exact absurd rfl h
  | cons e es ih =>
    simp only [work]
    cases hf : e.fails with
    | some k => simp [weight, hf]
    | none =>
      have : finiteEnts es ≠ [] := by
        rw [finiteEnts_cons, hf] at h
        simpa using h
      have := ih this
      omega

theorem exists_finite (q : List QEnt) (h : finiteEnts q ≠ []) : ∃ e ∈ q, ∃ k, e.fails = some k := by
  cases hq : finiteEnts q with
  | nil => exact absurd hq h
  | cons x xs =>
    have hx : x ∈ finiteEnts q := by rw [hq]; simp
    simp only [finiteEnts, List.mem_filter] at hx
    obtain ⟨hx1, hx2⟩ := hx
    cases hf : x.fails with
    | none => simp [hf] at hx2
    | some k => exact ⟨x, hx1, k, hf⟩

/-- one scheduling step while some entry can still succeed: the remaining work drops by one and the bound holds -/
theorem qStep_progress (B : Int) (s : QState) (hb : boundedBy B s.q) (hf : finiteEnts s.q ≠ []) :
    work B (qStep s).q + 1 = work B s.q ∧ boundedBy B (qStep s).q := by
  obtain ⟨f, hfq, k, hk⟩ := exists_finite s.q hf
  unfold qStep
  cases hm : minPrio s.q with
  | none => have := minPrio_eq_none hm; rw [this] at hfq; simp at hfq
  | some m =>
    have hle := minPrio_le hm f hfq
    have hfb := hb f hfq k hk
    have hB : m < B := by omega
    exact ⟨work_procFirst B m hB s.q (minPrio_attained hm), bounded_procFirst B m s.q hb⟩

/-- RETRY / NO STARVATION.  Take any queue in which some entries fail a finite number of times and others fail
    forever (locked files).  After `work B q` scheduling steps — a number that does not depend on how long the
    permanently failing entries keep failing — no entry that can succeed is left waiting:
    the failing files do not stop the other files from synchronising. -/
theorem failing_entries_do_not_starve_others (B : Int) (n : Nat) (s : QState)
    (hb : boundedBy B s.q) (hn : work B s.q ≤ n) : finiteEnts (qRun n s).q = [] := by
  induction n generalizing s with
  | zero =>
    by_cases hf : finiteEnts s.q = []
    · exact hf
    · have := work_pos_of_finite B s.q hf; omega
  | succ n ih =>
    by_cases hf : finiteEnts s.q = []
    · exact finiteEnts_nil_qRun (n+1) s hf
    · obtain ⟨h1, h2⟩ := qStep_progress B s hb hf
      exact ih (qStep s) h2 (by omega)

theorem qStep_keeps (s : QState) (i : Nat) (h : i ∈ finIds s.q ∨ i ∈ s.synced) :
    i ∈ finIds (qStep s).q ∨ i ∈ (qStep s).synced := by
  unfold qStep
  cases hm : minPrio s.q with
  | none => exact h
  | some m =>
    rcases h with h | h
    · rcases procFirst_keeps m s.q i h with h' | h'
      · exact Or.inl h'
      · right; simp [h']
    · right; simp [h]

theorem qRun_keeps (n : Nat) (s : QState) (i : Nat) (h : i ∈ finIds s.q ∨ i ∈ s.synced) :
    i ∈ finIds (qRun n s).q ∨ i ∈ (qRun n s).synced := by
  induction n generalizing s with
  | zero => exact h
  | succ n ih => exact ih (qStep s) (qStep_keeps s i h)

/-- an entry that fails k times and then succeeds IS eventually synchronised (it is marked synced, not merely
    gone), whatever else is queued, including entries that fail forever -/
theorem retried_entry_is_eventually_synced (B : Int) (n : Nat) (s : QState)
    (hb : boundedBy B s.q) (hn : work B s.q ≤ n) (e : QEnt) (he : e ∈ s.q) (k : Nat) (hk : e.fails = some k) :
    e.id ∈ (qRun n s).synced := by
  have hi : e.id ∈ finIds s.q := by
    simp only [finIds, finiteEnts, List.mem_map, List.mem_filter]
    exact ⟨e, ⟨he, by simp [hk]⟩, rfl⟩
  have hnil := failing_entries_do_not_starve_others B n s hb hn
  rcases qRun_keeps n s e.id (Or.inl hi) with h | h
  · simp [finIds, hnil] at h
  · exact h

theorem qStep_perm (s : QState) : permIds (qStep s).q = permIds s.q := by
  unfold qStep
  cases hm : minPrio s.q with
  | none => rfl
  | some m => exact (procFirst_perm m s.q).1

/-- a permanently failing entry is set aside, not dropped: it is still queued after any number of steps -/
theorem permanently_failing_entry_stays_queued (n : Nat) (s : QState) : permIds (qRun n s).q = permIds s.q := by
  induction n generalizing s with
  | zero => rfl
  | succ n ih => rw [qRun, ih (qStep s), qStep_perm]

/-- the closed form for a single entry: k failures, then success at attempt k+1 -/
theorem retry_k_then_success (i : Nat) (p : Int) (k : Nat) (done : List Nat) :
    qRun (k+1) ⟨[⟨i, p, some k⟩], done⟩ = ⟨[], done ++ [i]⟩ := by
  induction k generalizing p with
  | zero => simp [qRun, qStep, minPrio, procFirst]
  | succ k ih =>
    have : qStep ⟨[⟨i, p, some (k+1)⟩], done⟩ = ⟨[⟨i, punt p, some k⟩], done⟩ := by
      simp [qStep, minPrio, procFirst]
    rw [qRun, this, ih]

/-- once unlocked (its remaining failures become finite) the set-aside entry is synchronised as well:
    the theorem above applies to the queue as it then is -/
theorem unlocked_entry_syncs (B : Int) (n : Nat) (q : List QEnt) (done : List Nat) (i : Nat) (p : Int)
    (hb : boundedBy B (⟨i, p, some 0⟩ :: q)) (hn : work B (⟨i, p, some 0⟩ :: q) ≤ n) :
    i ∈ (qRun n ⟨⟨i, p, some 0⟩ :: q, done⟩).synced :=
  retried_entry_is_eventually_synced B n ⟨⟨i, p, some 0⟩ :: q, done⟩ hb hn ⟨i, p, some 0⟩ (by simp) 0 rfl

/-! ## H. the run monitor's verdicts mean what they say -/

/-- a fault the monitor accepts was reported under every kind the property demands (the model's prediction
    contains the matching kind), provided the site is one the partial theorems cover -/
theorem faultOk_reports (f : FaultObs) (k : NKind) (h : faultOk f = true) (hk : matchesKind f.exc k = true)
    (hs : f.site = .syncEntry ∨ isSub f.exc .fileName = false) :
    (f.site.source, k) ∈ f.notes ∧ f.escaped = some .backoffError := by
  unfold faultOk at h
  simp only [Bool.and_eq_true, decide_eq_true_eq, List.all_eq_true] at h
  obtain ⟨h1, h2⟩ := h
  have hp : (predict f.site f.exc).notes = [k] ∧ (predict f.site f.exc).raised = some .backoffError := by
    cases hsite : f.site with
    | syncEntry => exact sync_do_reports_partial .entry (by decide) f.exc k hk
    | event side =>
      rcases hs with hs | hs
      · rw [hsite] at hs; cases hs
      · exact event_do_reports_partial f.exc k hk hs
  constructor
  · have := h2 k (by rw [hp.1]; simp)
    simpa using this
  · rw [h1, hp.2]

theorem faultReported_iff (f : FaultObs) :
    faultReported f = true ↔
      (∀ k, matchesKind f.exc k = true → (f.site.source, k) ∈ f.notes) ∧ f.escaped = some .backoffError := by
  unfold faultReported
  simp only [Bool.and_eq_true, decide_eq_true_eq, List.all_eq_true, Bool.or_eq_true, Bool.not_eq_true']
  constructor
  · rintro ⟨h1, h2⟩
    refine ⟨fun k hk => ?_, h2⟩
    have hk' : k ∈ NKind.all := by cases k <;> decide
    rcases h1 k hk' with h | h
    · rw [hk] at h; cases h
    · simpa using h
  · rintro ⟨h1, h2⟩
    refine ⟨fun k _ => ?_, h2⟩
    cases hk : matchesKind f.exc k
    · exact Or.inl rfl
    · right; simpa using h1 k hk

/-! the hypotheses are satisfiable -/
example : ∃ (B : Int) (s : QState), boundedBy B s.q ∧ work B s.q ≤ 7 ∧ finiteEnts s.q ≠ [] ∧ permIds s.q ≠ [] ∧
    (qRun 7 s).synced = [2, 1] ∧ permIds (qRun 7 s).q = [9] :=
  ⟨3, ⟨[⟨1, 0, some 2⟩, ⟨9, 0, none⟩, ⟨2, 1, some 0⟩], []⟩, by
    refine ⟨?_, by decide, by decide, by decide, by decide, by decide⟩
    intro e he k hk
    simp only [List.mem_cons, List.mem_nil_iff, or_false] at he
    rcases he with rfl | rfl | rfl
    · simp at hk; subst hk; decide
    · simp at hk
    · simp at hk; subst hk; decide⟩

example : ∃ f : FaultObs, faultOk f = true ∧ faultReported f = true ∧ matchesKind f.exc .outOfSpaceError = true :=
  ⟨⟨.event 1, .outOfSpace, [(.remote, .outOfSpaceError)], some .backoffError⟩, by decide, by decide, by decide⟩

end CS.Faults
