import Csverif.Proofs.Sched
/-
C17 — scheduling laws: nothing syncs before it has aged; oldest eligible goes first.
Model: Model/Sched.lean (`SyncState.change`, `mark_changed`, the `priority` branch of `updated`,
`SyncEntry.punt`, `SyncState.finished`).  Helper lemmas: Proofs/Sched.lean.

* proved at full strength: `change_eq_pickFirstMin` (complete characterisation of the selection),
  `change_none_iff_no_eligible`, `change_returns_eligible`, `change_minimal`,
  `change_first_among_ties`, `negative_priority_immediate`, `eligible_mono`,
  `age_zero_all_eligible` (+ `age_zero_change_some`), `punt_bounded_delay` (+ `punt_bounded_delay_change`),
  `punted_does_not_starve_others`, `opPunt_entry`, `markChanged_stamp`, `markChanged_strictly_increasing`,
  `finished_entries`, `finished_keeps_nonpositive`, `finished_resets_related`.
* FALSE as stated: `ageing_respected` (every changed side of the returned entry has aged).  The
  code's eligibility test is a disjunction over the two sides.  Replaced by
  `ageing_respected_partial` (the other side carries no change) and refuted by the kernel-checked
  `ageing_two_sided`, which the harness replays on the real engine (known finding two-sided-ageing).
* the changeset as a *derived* object, the fill-in loop of `change`, and the loop-level liveness law are in
  Props/C17State.lean and Props/C17Loop.lean.
* `punt_bounded_delay` is about a side that has an id: a punt may drop the stale change flag of an id-less side
  (state.py:798-800, "a change that is not in the changeset").
* `age_zero_all_eligible` needs "no timestamp of the entry lies in the future"; `age_zero_punt_example`
  shows that punting (and the +0.001 clock rule) breaks that hypothesis for `punt_secs` seconds.
-/
namespace CS.Sched

/-! ## the selection function -/

/-- `change` returns the first entry, in changeset iteration order, whose key `(priority, latest
    change)` is minimal among the eligible entries. -/
theorem change_eq_pickFirstMin (P : List Entry) (now age : Rat) :
    change P now age = pickFirstMin (P.filter (fun e => eligible e now age)) := by
  rw [change_eq, find_sortKey]

/-- nothing is returned exactly when nothing is eligible -/
theorem change_none_iff_no_eligible (P : List Entry) (now age : Rat) :
    change P now age = none ↔ ∀ e ∈ P, eligible e now age = false := by
  rw [change_eq_pickFirstMin, pickFirstMin_eq_none, List.filter_eq_nil_iff]
  simp

/-- the returned entry is pending and eligible: some side was notified at least `age` ago, or the
    priority is negative -/
theorem change_returns_eligible (P : List Entry) (now age : Rat) (e : Entry)
    (h : change P now age = some e) : e ∈ P ∧ eligible e now age = true := by
  rw [change_eq_pickFirstMin] at h
  have := pickFirstMin_mem h
  simpa [List.mem_filter] using this

/-- no eligible entry has a strictly smaller key: lower priority values first, and within a
    priority the older (latest) change first -/
theorem change_minimal (P : List Entry) (now age : Rat) (e : Entry) (h : change P now age = some e) :
    ∀ e' ∈ P, eligible e' now age = true →
      keyLt e' e = false ∧
      (e.priority < e'.priority ∨ (e.priority = e'.priority ∧ keyTime e ≤ keyTime e')) := by
  intro e' he' hel
  rw [change_eq_pickFirstMin] at h
  have hle := pickFirstMin_le h e' (List.mem_filter.2 ⟨he', hel⟩)
  exact ⟨not_keyLt_of_keyLe hle, (keyLe_iff e e').1 hle⟩

/-- ties are resolved by iteration order (Python's `sorted` is stable): every eligible entry that
    precedes the returned one in the changeset has a strictly larger key -/
theorem change_first_among_ties (P : List Entry) (now age : Rat) (e : Entry) (h : change P now age = some e) :
    ∃ pre post, P = pre ++ e :: post ∧ ∀ x ∈ pre, eligible x now age = true → keyLt e x = true := by
  rw [change_eq_pickFirstMin] at h
  obtain ⟨pre, post, hf, hpre⟩ := pickFirstMin_first h
  obtain ⟨l1, l2, hP, h1, h2⟩ := List.filter_eq_append_iff.1 hf
  obtain ⟨m1, m2, hl2, hm1, _, _⟩ := List.filter_eq_cons_iff.1 h2
  refine ⟨l1 ++ m1, m2, by rw [hP, hl2, List.append_assoc], ?_⟩
  intro x hx hel
  rcases List.mem_append.1 hx with hx | hx
  · exact hpre x (h1 ▸ List.mem_filter.2 ⟨hx, hel⟩)
  · exact absurd hel (hm1 x hx)

/-- a negative priority means "immediately": such an entry is eligible whatever its age, and
    `change` then returns an entry of at most that (negative) priority -/
theorem negative_priority_immediate (P : List Entry) (now age : Rat) (e : Entry)
    (he : e ∈ P) (hneg : e.priority < 0) :
    eligible e now age = true ∧ ∃ e', change P now age = some e' ∧ e'.priority ≤ e.priority ∧ e'.priority < 0 := by
  have hel : eligible e now age = true := by rw [eligible_iff]; exact Or.inr (Or.inr hneg)
  refine ⟨hel, ?_⟩
  cases hc : change P now age with
  | none => rw [change_none_iff_no_eligible] at hc; rw [hc e he] at hel; exact absurd hel (by simp)
  | some e' =>
    have := (change_minimal P now age e' hc e he hel).2
    have hle : e'.priority ≤ e.priority := by rcases this with h | ⟨h, _⟩ <;> linarith
    exact ⟨e', rfl, hle, lt_of_le_of_lt hle hneg⟩

/-- eligibility only grows with time -/
theorem eligible_mono (e : Entry) (now now' age : Rat) (h : eligible e now age = true) (hn : now ≤ now') :
    eligible e now' age = true := by
  rw [eligible_iff] at *
  rcases h with h | h | h
  · exact Or.inl (sideAged_mono h (by linarith))
  · exact Or.inr (Or.inl (sideAged_mono h (by linarith)))
  · exact Or.inr (Or.inr h)

/-! ## ageing zero -/

/-- with ageing 0 an entry with a change whose timestamp does not lie in the future is eligible -/
theorem age_zero_all_eligible (e : Entry) (now : Rat)
    (h : (truthy e.l.changed = true ∧ orZero e.l.changed ≤ now) ∨
         (truthy e.r.changed = true ∧ orZero e.r.changed ≤ now)) :
    eligible e now 0 = true := by
  rw [eligible_iff]
  simp only [sub_zero, sideAged, Bool.and_eq_true, decide_eq_true_eq]
  rcases h with h | h
  · exact Or.inl h
  · exact Or.inr (Or.inl h)

/-- … so with ageing 0 something is returned as soon as one pending entry has such a change -/
theorem age_zero_change_some (P : List Entry) (now : Rat) (e : Entry) (he : e ∈ P)
    (h : (truthy e.l.changed = true ∧ orZero e.l.changed ≤ now) ∨
         (truthy e.r.changed = true ∧ orZero e.r.changed ≤ now)) :
    change P now 0 ≠ none := by
  intro hc
  rw [change_none_iff_no_eligible] at hc
  have := age_zero_all_eligible e now h
  rw [hc e he] at this
  exact absurd this (by simp)

/-- the hypothesis is needed: an entry changed at t=1000 and punted at t=1000 (punt_secs 1/4) is
    *not* eligible at t=1000 with ageing 0, although it was before the punt; it is again at t=1000¼ -/
theorem age_zero_punt_example :
    let e : Entry := { id := 0, l := { changed := some 1000 } }
    eligible e 1000 0 = true ∧
    eligible (puntE (1/4, 1/4) e) 1000 0 = false ∧
    eligible (puntE (1/4, 1/4) e) (1000 + 1/4) 0 = true := by
  decide +kernel

/-! ## punting -/

/-- the state-level `ent.punt()` has exactly the entry-level effect `puntE` -/
theorem opPunt_entry (st : St) (id : Nat) (e : Entry) (h : st.get? id = some e) :
    (opPunt st id).get? id = some (puntE st.punt e) := by
  simp only [opPunt]
  rw [withE_get?_same st id _ e h (setPriorityA_id _ _ _)]
  rfl

/-- an entry punted `k` times is eligible again once `now ≥ changed + k·punt_secs + age`: the delay
    caused by deferring is bounded.  (The side must have an id: the stale change flag of an id-less
    side can be dropped by a punt — "a change that is not in the changeset", state.py:798-800.) -/
theorem punt_bounded_delay (p : Rat × Rat) (s : Bool) (hp : 0 ≤ (if s then p.2 else p.1))
    (e : Entry) (c : Rat) (hc : (e.side s).changed = some c) (hpos : 0 < c)
    (ho : truthyS (e.side s).oid = true)
    (k : Nat) (now age : Rat) (hnow : c + k * (if s then p.2 else p.1) + age ≤ now) :
    eligible (puntK p k e) now age = true := by
  obtain ⟨j, hj, hch⟩ := puntK_side p s hp k e c hc hpos ho
  have hjk : (j : Rat) * (if s then p.2 else p.1) ≤ k * (if s then p.2 else p.1) :=
    mul_le_mul_of_nonneg_right (by exact_mod_cast hj) hp
  have hj0 : 0 ≤ (j : Rat) * (if s then p.2 else p.1) := mul_nonneg (by exact_mod_cast Nat.zero_le j) hp
  have haged : sideAged ((puntK p k e).side s).changed (now - age) = true := by
    rw [sideAged_iff]
    exact ⟨_, hch, by intro h0; linarith, by linarith⟩
  rw [eligible_iff]
  cases s with
  | false => exact Or.inl haged
  | true => exact Or.inr (Or.inl haged)

/-- … hence, whatever else is pending, `change` returns something from that moment on -/
theorem punt_bounded_delay_change (p : Rat × Rat) (s : Bool) (hp : 0 ≤ (if s then p.2 else p.1))
    (e : Entry) (c : Rat) (hc : (e.side s).changed = some c) (hpos : 0 < c)
    (ho : truthyS (e.side s).oid = true)
    (k : Nat) (now age : Rat) (hnow : c + k * (if s then p.2 else p.1) + age ≤ now)
    (P : List Entry) (hP : puntK p k e ∈ P) :
    change P now age ≠ none := by
  intro h
  rw [change_none_iff_no_eligible] at h
  have := punt_bounded_delay p s hp e c hc hpos ho k now age hnow
  rw [h _ hP] at this
  exact absurd this (by simp)

/-- a persistently failing entry cannot starve the others: once it has been punted `k` times with
    `y.priority < x.priority + k` (one punt suffices among equal priorities), it is never returned
    while `y` is eligible, and what is returned is at least as urgent as `y` -/
theorem punted_does_not_starve_others (p : Rat × Rat) (P : List Entry) (x y : Entry) (k : Nat)
    (now age : Rat) (hy : y ∈ P) (hel : eligible y now age = true) (hk : y.priority < x.priority + k) :
    change P now age ≠ some (puntK p k x) ∧
    ∃ e, change P now age = some e ∧ e.priority ≤ y.priority := by
  cases hc : change P now age with
  | none => rw [change_none_iff_no_eligible] at hc; rw [hc y hy] at hel; exact absurd hel (by simp)
  | some e =>
    have := (change_minimal P now age e hc y hy hel).2
    have hle : e.priority ≤ y.priority := by rcases this with h | ⟨h, _⟩ <;> linarith
    refine ⟨?_, e, rfl, hle⟩
    intro heq
    have : e.priority = x.priority + k := by
      rw [Option.some.inj heq, puntK_priority]
    linarith

/-! ## mark_changed: strictly increasing stamps -/

theorem stamp_gt (last now : Rat) : last < stamp last now ∧ now ≤ stamp last now := by
  unfold stamp
  split
  · constructor <;> linarith
  · constructor
    · linarith
    · exact le_refl _

@[simp] theorem markA_id (last now : Rat) (e : Entry) (s : Bool) : (markA last now e s).1.id = e.id := by
  simp only [markA]; split <;> simp

theorem markA_changed (last now : Rat) (e : Entry) (s : Bool) :
    ((markA last now e s).1.side s).changed = some (stamp last now) := by
  simp only [markA, stamp]
  split <;> simp [setChangedA_self]

theorem withE_isSome (st : St) (id j : Nat) (f : Entry → Entry × Acts) (hf : ∀ e, (f e).1.id = e.id) :
    ((st.withE id f).get? j).isSome = (st.get? j).isSome := by
  by_cases hj : j = id
  · subst hj
    cases h : st.get? j with
    | none => rw [withE_none _ _ _ h, h]
    | some e => rw [withE_get?_same st j f e h (hf e)]; rfl
  · rw [withE_get?_other st id j f hf hj]

/-- `mark_changed` on an existing entry issues `stamp last now`: later than every stamp issued
    before, not earlier than the clock reading, and that is what the side's `changed` becomes -/
theorem markChanged_stamp (st : St) (s : Bool) (id : Nat) (now : Rat) (e : Entry) (h : st.get? id = some e) :
    (markChanged st s id now).last = stamp st.last now ∧
    st.last < (markChanged st s id now).last ∧ now ≤ (markChanged st s id now).last ∧
    ((markChanged st s id now).get? id).map (fun e => (e.side s).changed) = some (some (stamp st.last now)) := by
  refine ⟨by simp only [markChanged, h], by simp only [markChanged, h]; exact (stamp_gt _ _).1,
    by simp only [markChanged, h]; exact (stamp_gt _ _).2, ?_⟩
  simp only [markChanged, h]
  show Option.map _ ((st.withE id _).get? id) = _
  rw [withE_get?_same st id _ e h (markA_id _ _ _ _)]
  simp [markA_changed]

theorem markChanged_isSome (st : St) (s : Bool) (id : Nat) (now : Rat) (j : Nat) :
    ((markChanged st s id now).get? j).isSome = (st.get? j).isSome := by
  simp only [markChanged]
  split
  · rfl
  · show ((st.withE id _).get? j).isSome = _
    exact withE_isSome st id j _ (fun e => markA_id _ _ e s)

/-- the value of `_last_changed_time` after each call of a run of `mark_changed` calls
    `(side, entry, clock reading)` -/
def markRun (st : St) : List (Bool × Nat × Rat) → List Rat
  | [] => []
  | (s, id, now) :: ops => (markChanged st s id now).last :: markRun (markChanged st s id now) ops

/-- change times can't repeat and must increase: whatever the clock does (stalls, goes backwards),
    the stamps issued by any run of `mark_changed` calls are strictly increasing -/
theorem markChanged_strictly_increasing (ops : List (Bool × Nat × Rat)) (st : St)
    (h : ∀ op ∈ ops, (st.get? op.2.1).isSome = true) :
    (markRun st ops).Pairwise (· < ·) ∧ ∀ x ∈ markRun st ops, st.last < x := by
  induction ops generalizing st with
  | nil => simp [markRun]
  | cons op ops ih =>
    obtain ⟨s, id, now⟩ := op
    have hex : (st.get? id).isSome = true := h (s, id, now) List.mem_cons_self
    obtain ⟨e, he⟩ := Option.isSome_iff_exists.1 hex
    have hm := markChanged_stamp st s id now e he
    have ih' := ih (markChanged st s id now) (by
      intro op hop
      rw [markChanged_isSome]
      exact h op (List.mem_cons_of_mem _ hop))
    simp only [markRun]
    refine ⟨List.Pairwise.cons ?_ ih'.1, ?_⟩
    · intro x hx; exact ih'.2 x hx
    · intro x hx
      rcases List.mem_cons.1 hx with rfl | hx
      · exact hm.2.1
      · exact lt_trans hm.2.1 (ih'.2 x hx)

/-! ## finished: priority reset of related entries -/

theorem setPriorityE_zero (p : Rat × Rat) (e : Entry) (hpos : 0 < e.priority) :
    setPriorityE p e 0 = { e with priority := 0 } := by
  have hne : (e.priority == 0) = false := by
    simp only [beq_eq_false_iff_ne, ne_eq]; exact ne_of_gt hpos
  have hng : ¬ (0 > e.priority) := not_lt_of_gt hpos
  simp only [setPriorityE, setPriorityA, hne, Bool.false_eq_true, if_false, gt_iff_lt, hng, decide_false,
    Bool.false_and]

/-- `finished` never moves a change time, and only ever turns a positive priority into 0 -/
theorem finished_entries (dn : String → String) (st : St) (id : Nat) :
    ∀ e' ∈ (opFinished dn st id).ents, ∃ e ∈ st.ents, e'.id = e.id ∧ e'.l = e.l ∧ e'.r = e.r ∧
      (e'.priority = e.priority ∨ (0 < e.priority ∧ e'.priority = 0)) := by
  intro e' he'
  unfold opFinished at he'
  split at he'
  · exact ⟨e', he', rfl, rfl, rfl, Or.inl rfl⟩
  · split at he'
    · exact ⟨e', he', rfl, rfl, rfl, Or.inl rfl⟩
    · simp only [List.mem_map] at he'
      obtain ⟨e, he, heq⟩ := he'
      refine ⟨e, he, ?_⟩
      split at heq
      · rename_i hcond
        simp only [Bool.and_eq_true, decide_eq_true_eq] at hcond
        have hpos : 0 < e.priority := hcond.2.1
        subst heq
        rw [setPriorityE_zero _ _ hpos]
        exact ⟨rfl, rfl, rfl, Or.inr ⟨hpos, rfl⟩⟩
      · subst heq; exact ⟨rfl, rfl, rfl, Or.inl rfl⟩

/-- entries that were not punted keep their priority: a negative ("immediately") or normal priority
    is never reset by `finished` -/
theorem finished_keeps_nonpositive (dn : String → String) (st : St) (id : Nat) :
    ∀ e' ∈ (opFinished dn st id).ents, ∃ e ∈ st.ents, e'.id = e.id ∧ (e.priority ≤ 0 → e' = e) := by
  intro e' he'
  obtain ⟨e, he, h1, h2, h3, h4⟩ := finished_entries dn st id e' he'
  refine ⟨e, he, h1, ?_⟩
  intro hle
  rcases h4 with h4 | ⟨h4, _⟩
  · cases e; cases e'; simp_all
  · linarith

/-- a punted pending entry related to the finished one (parent/child path) is brought back to
    normal priority -/
theorem finished_resets_related (dn : String → String) (st : St) (id : Nat) (ent e : Entry)
    (hent : st.get? id = some ent) (hdone : truthy ent.l.changed = false ∧ truthy ent.r.changed = false)
    (he : e ∈ st.ents) (hpend : (st.act id [false]).pending.contains e.id = true)
    (hpos : 0 < e.priority) (hrel : related dn ent e = true) :
    { e with priority := 0 } ∈ (opFinished dn st id).ents := by
  simp only [opFinished, hent, hdone.1, hdone.2, Bool.or_self, Bool.false_eq_true, if_false, List.mem_map]
  refine ⟨e, he, ?_⟩
  have hp' : (st.act id [false]).pending.contains e.id = true := hpend
  simp only [hp', hrel, hpos, decide_true, Bool.and_self, if_true]
  exact setPriorityE_zero _ _ hpos

/-! ## the ageing law -/

/- FALSE AS STATED — omitted.  Full statement ("a change is never propagated earlier than the ageing
   interval after the engine was last notified of a change to that object, unless its priority is
   negative"): every changed side of the returned entry has aged.

theorem ageing_respected (P : List Entry) (now age : Rat) (e : Entry)
    (h : change P now age = some e) (hp : 0 ≤ e.priority) (s : Bool)
    (hs : truthy (e.side s).changed = true) :
    orZero (e.side s).changed ≤ now - age

`change_returns_eligible` only gives that *some* side has aged.  See `ageing_two_sided` (proved,
kernel-checked) at the end of this file. -/

/-- the ageing law for entries whose other side carries no change -/
theorem ageing_respected_partial (P : List Entry) (now age : Rat) (e : Entry)
    (h : change P now age = some e) (hp : 0 ≤ e.priority) (s : Bool)
    (hs : truthy (e.side s).changed = true)
    (hone : truthy (e.side (!s)).changed = false) :
    orZero (e.side s).changed ≤ now - age := by
  have hel := (change_returns_eligible P now age e h).2
  rw [eligible_iff] at hel
  have hnp : ¬ e.priority < 0 := not_lt_of_ge hp
  cases s with
  | false =>
    simp only [Entry.side, Bool.not_false, if_true, Bool.false_eq_true, if_false] at hs hone
    rcases hel with h1 | h1 | h1
    · simp only [sideAged, Bool.and_eq_true, decide_eq_true_eq] at h1; exact h1.2
    · simp [sideAged, hone] at h1
    · exact absurd h1 hnp
  | true =>
    simp only [Entry.side, Bool.not_true, if_true, Bool.false_eq_true, if_false] at hs hone
    rcases hel with h1 | h1 | h1
    · simp [sideAged, hone] at h1
    · simp only [sideAged, Bool.and_eq_true, decide_eq_true_eq] at h1; exact h1.2
    · exact absurd h1 hnp

/-- the witness: remote no-op change flag at t₀ = 1000, local edit at t₀ + 9.5, ageing 10 -/
def cexEntry : Entry :=
  { id := 0, priority := 0, l := { changed := some (2019/2) }, r := { changed := some 1000 } }

/-- `ageing_respected` is FALSE as stated: at t₀ + 10.1 `change` returns the entry although its
    local edit was notified only 0.6 s ago (at t₀ + 9.9 nothing is returned). -/
theorem ageing_two_sided :
    ¬ (∀ (P : List Entry) (now age : Rat) (e : Entry), change P now age = some e → 0 ≤ e.priority →
        ∀ s : Bool, truthy (e.side s).changed = true → orZero (e.side s).changed ≤ now - age) := by
  intro hall
  have h1 : change [cexEntry] (10101/10) 10 = some cexEntry := by decide +kernel
  have h2 := hall [cexEntry] (10101/10) 10 cexEntry h1 (by decide +kernel) false (by decide +kernel)
  revert h2
  decide +kernel

/-- the same witness, spelled out: not returned at t₀ + 9.9, returned at t₀ + 10.1, 0.6 s after the edit -/
theorem ageing_two_sided_timeline :
    change [cexEntry] (10099/10) 10 = none ∧
    (change [cexEntry] (10101/10) 10).map (·.id) = some 0 ∧
    (10101/10 : Rat) - orZero cexEntry.l.changed = 6/10 := by
  decide +kernel

/-! ## the hypotheses are satisfiable -/

example : ∃ (P : List Entry) (now age : Rat) (e : Entry),
    change P now age = some e ∧ 0 ≤ e.priority ∧ truthy (e.side false).changed = true ∧
    truthy (e.side true).changed = false :=
  ⟨[{ id := 0, l := { changed := some 1000 } }], 1010, 10, { id := 0, l := { changed := some 1000 } },
    by decide +kernel, by decide +kernel, by decide +kernel, by decide +kernel⟩

example : ∃ (p : Rat × Rat) (e : Entry) (c : Rat), 0 ≤ p.1 ∧ (e.side false).changed = some c ∧ 0 < c ∧
    truthyS (e.side false).oid = true :=
  ⟨(1/4, 1/4), { id := 0, l := { changed := some 1000, oid := some "L1" } }, 1000, by decide +kernel, rfl,
    by decide +kernel, by decide +kernel⟩

end CS.Sched
